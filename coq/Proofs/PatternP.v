(* Pattern matching in the reference semantics (property C09). *)
From Arrai Require Import Base.Val Spec.SetAlg Eval.Interp Proofs.ValOrder Proofs.SetAlgP.

(* ---------- repeated names must agree ---------- *)

Lemma env_get_cons x y v e : env_get x ((y, v) :: e) = if name_eqb x y then Some v else env_get x e.
Proof. reflexivity. Qed.

Lemma name_eqb_refl x : name_eqb x x = true.
Proof.
  unfold name_eqb. destruct (name_cmp_ordR x x x) as (-> & _). reflexivity.
Qed.

Lemma name_eqb_eq x y : name_eqb x y = true -> x = y.
Proof.
  unfold name_eqb. destruct (name_cmp x y) eqn:E; try discriminate. intros _.
  apply (name_cmp_ordR x y y). exact E.
Qed.

(* a successful update keeps every binding of s *)
Lemma matched_update_preserves t : forall s r x v,
  env_matched_update s t = Some r -> env_get x s = Some v -> env_get x r = Some v.
Proof.
  induction t as [|[y w] t IH]; intros s r x v; simpl.
  - intros [= <-]. exact id.
  - destruct (env_get y s) as [[a|? ? ?]|] eqn:Ey.
    + destruct w as [b|? ? ?]; [|discriminate]. destruct (veqb a b); [|discriminate]. apply IH.
    + discriminate.
    + intros H Hx. apply (IH _ _ _ _ H). rewrite env_get_cons.
      destruct (name_eqb x y) eqn:E; [|exact Hx].
      apply name_eqb_eq in E; subst. congruence.
Qed.

(* ... and a name bound on both sides must be bound to equal data values *)
Theorem repeated_names_must_agree t : forall s r x a w,
  env_matched_update s t = Some r -> env_get x s = Some (D a) -> In (x, w) t -> w = D a.
Proof.
  induction t as [|[y u] t IH]; intros s r x a w; simpl; [intros _ _ []|].
  destruct (env_get y s) as [[c|? ? ?]|] eqn:Ey.
  - destruct u as [b|? ? ?]; [|discriminate]. destruct (veqb c b) eqn:Ev; [|discriminate].
    intros H Hx [Heq|Hin].
    + injection Heq as <- <-. apply veqb_eq in Ev. congruence.
    + eapply IH; eauto.
  - discriminate.
  - intros H Hx [Heq|Hin]; [injection Heq as <- <-; congruence|].
    eapply (IH ((y, u) :: s)); eauto. rewrite env_get_cons.
    destruct (name_eqb x y) eqn:E; [apply name_eqb_eq in E; subst; congruence | exact Hx].
Qed.

Theorem disagreeing_repeat_fails s x a b t :
  env_get x s = Some (D a) -> a <> b -> env_matched_update s ((x, D b) :: t) = None.
Proof.
  intros Hx Hne. simpl. rewrite Hx. destruct (veqb a b) eqn:E; [|reflexivity].
  apply veqb_eq in E. contradiction.
Qed.

(* ---------- basic patterns ---------- *)

Theorem bind_var fuel rho x v : bind_pat (S fuel) rho (PVar x) v = Ok [(x, v)].
Proof. reflexivity. Qed.

Theorem bind_wild fuel rho v : bind_pat (S fuel) rho PWild v = Ok [].
Proof. reflexivity. Qed.

(* a literal pattern matches exactly the equal value *)
Theorem bind_literal fuel rho lit v :
  bind_pat (S (S fuel)) rho (PExpr (ELit lit)) (D v) = if veqb (norm lit) v then Ok [] else Err.
Proof. reflexivity. Qed.

(* ---------- let / cond ---------- *)

(* a non-matching let is an error, never a silent binding *)
Theorem let_mismatch_is_error fuel rho p e1 e2 v :
  eval fuel rho e1 = Ok v -> bind_pat fuel rho p v = Err -> eval (S fuel) rho (ELet p e1 e2) = Err.
Proof. intros H1 H2. cbn [eval evalF]. rewrite H1. simpl. rewrite H2. reflexivity. Qed.

Theorem let_match_binds fuel rho p e1 e2 v sc :
  eval fuel rho e1 = Ok v -> bind_pat fuel rho p v = Ok sc ->
  eval (S fuel) rho (ELet p e1 e2) = eval fuel (sc ++ rho) e2.
Proof. intros H1 H2. cbn [eval evalF]. rewrite H1. simpl. rewrite H2. reflexivity. Qed.

(* cond takes the first arm whose pattern matches *)
Theorem cond_first_match fuel rho c v p body arms sc :
  eval fuel rho c = Ok v -> bind_pat fuel rho p v = Ok sc ->
  eval (S fuel) rho (ECondPat c ((p, body) :: arms)) = eval fuel (sc ++ rho) body.
Proof. intros H1 H2. cbn [eval evalF]. rewrite H1. simpl. rewrite H2. reflexivity. Qed.

Theorem cond_skips_nonmatching fuel rho c v p body arms :
  eval fuel rho c = Ok v -> bind_pat fuel rho p v = Err ->
  eval (S fuel) rho (ECondPat c ((p, body) :: arms)) = eval (S fuel) rho (ECondPat c arms).
Proof. intros H1 H2. cbn [eval evalF]. rewrite H1. simpl. rewrite H2. reflexivity. Qed.

Theorem cond_no_arm fuel rho c v :
  eval fuel rho c = Ok v -> eval (S fuel) rho (ECondPat c []) = Ok (D (VSet [])).
Proof. intros H1. cbn [eval evalF]. rewrite H1. reflexivity. Qed.

(* ---------- array patterns: wrong length, offset or holes never match ---------- *)

Theorem array_pattern_needs_dense_array fuel rho items v sc :
  bind_pat (S fuel) rho (PArr items) (D v) = Ok sc -> exists xs, dense_array v = Some xs.
Proof.
  cbn [bind_pat bindF]. simpl. destruct (dense_array v) as [xs|]; [eauto | discriminate].
Qed.
