(* Replacing a let-bound name by its value (property C08), PARTIAL: bodies without binders.
   For a body that contains no function literal, no let and no pattern conditional, evaluating it with x bound to
   the value of the literal v gives exactly the answer of the body with the free x replaced by v, at every fuel. *)
From Arrai Require Import Base.Val Spec.SetAlg Eval.Interp Eval.Rewrite Proofs.FuelP.

Lemma mapM_map_ext {A A' B} (f : A -> res B) (g : A' -> res B) (h : A -> A') l :
  (forall a, In a l -> f a = g (h a)) -> mapM f l = mapM g (map h l).
Proof.
  induction l as [|a l IH]; intros H; [reflexivity|]. cbn [map mapM].
  rewrite (H a) by (left; reflexivity). rewrite IH by (intros b Hb; apply H; right; exact Hb). reflexivity.
Qed.

Lemma name_eqb_refl x : name_eqb x x = true.
Proof.
  unfold name_eqb. assert (E : name_cmp x x = Eq).
  { induction x as [|c x IH]; [reflexivity|]. simpl. rewrite Z.compare_refl. exact IH. }
  rewrite E. reflexivity.
Qed.

Lemma name_cmp_Eq a : forall b, name_cmp a b = Eq -> a = b.
Proof.
  induction a as [|c a IH]; destruct b as [|d b]; simpl; try discriminate; [reflexivity|].
  destruct (Z.compare c d) eqn:Cab; try discriminate. intros H. apply Z.compare_eq in Cab. f_equal; auto.
Qed.

Lemma name_eqb_true a b : name_eqb a b = true -> a = b.
Proof. unfold name_eqb. destruct (name_cmp a b) eqn:C; try discriminate. intros _. apply name_cmp_Eq, C. Qed.

Section Subst.
Variables (x : name) (v : val).

(* the scope of the body: x bound to the value of the literal, under bindings of other names *)
Lemma env_get_mid pre rho y : name_in x (map fst pre) = false ->
  env_get y (pre ++ (x, D (norm v)) :: rho) = if name_eqb y x then Some (D (norm v)) else env_get y (pre ++ rho).
Proof.
  induction pre as [|[z w] pre IH]; intros Hx; cbn [app env_get].
  - reflexivity.
  - cbn [map fst name_in existsb] in Hx. unfold name_in in Hx. cbn [existsb] in Hx.
    apply orb_false_iff in Hx as [Hz Hx].
    destruct (name_eqb y z) eqn:Eyz.
    + destruct (name_eqb y x) eqn:Eyx; [|reflexivity].
      exfalso. apply name_eqb_true in Eyz. apply name_eqb_true in Eyx.
      subst. rewrite name_eqb_refl in Hz. discriminate.
    + apply IH. exact Hx.
Qed.

Section Step.
Variables (ev : env -> expr -> res value) (bd : env -> pat -> value -> res env) (rho1 rho2 : env).
Hypothesis Hget : forall y, env_get y rho1 = if name_eqb y x then Some (D (norm v)) else env_get y rho2.
Hypothesis IH : forall e, binder_free e = true -> ev rho1 e = ev rho2 (subst x v e).

Ltac bf := repeat match goal with H : _ && _ = true |- _ => apply andb_true_iff in H; destruct H end.
Ltac kids := repeat match goal with |- context [ev rho1 ?a] => rewrite (IH a) by assumption end.

Lemma evalF_subst e : binder_free e = true -> evalF ev bd rho1 e = evalF ev bd rho2 (subst x v e).
Proof.
  intros Hb. destruct e; cbn [binder_free] in Hb; try discriminate; bf.
  - reflexivity.
  - cbn [subst]. destruct (name_eqb x0 x) eqn:E.
    + unfold evalF. rewrite Hget, E. reflexivity.
    + unfold evalF. rewrite Hget, E. reflexivity.
  - cbn [subst]. unfold evalF. f_equal. apply mapM_map_ext. intros a Ha.
    rewrite forallb_forall in Hb. rewrite (IH a) by (apply Hb, Ha). reflexivity.
  - cbn [subst]. unfold evalF. f_equal. apply mapM_map_ext. intros a Ha.
    rewrite forallb_forall in Hb. cbn [fst snd]. rewrite (IH (snd a)) by (apply Hb, Ha). reflexivity.
  - cbn [subst]. unfold evalF. f_equal. apply mapM_map_ext. intros a Ha.
    rewrite forallb_forall in Hb. specialize (Hb a Ha). destruct a as [a|]; [|reflexivity].
    rewrite (IH a) by exact Hb. reflexivity.
  - cbn [subst]. unfold evalF. f_equal. apply mapM_map_ext. intros a Ha.
    rewrite forallb_forall in Hb. specialize (Hb a Ha). bf. cbn [fst snd].
    rewrite (IH (fst a)), (IH (snd a)) by assumption. reflexivity.
  - cbn [subst]. unfold evalF. kids. reflexivity.
  - cbn [subst]. unfold evalF. kids. reflexivity.
  - cbn [subst]. unfold evalF. kids. reflexivity.
  - cbn [subst]. unfold evalF. kids. reflexivity.
  - cbn [subst]. unfold evalF. kids. reflexivity.
  - cbn [subst]. unfold evalF. kids. reflexivity.
  - cbn [subst]. unfold evalF. kids. reflexivity.
  - cbn [subst]. unfold evalF. kids. reflexivity.
  - cbn [subst]. unfold evalF. kids. reflexivity.
  - cbn [subst]. unfold evalF. kids. reflexivity.
  - cbn [subst]. unfold evalF. kids. reflexivity.
  - cbn [subst]. unfold evalF. kids. reflexivity.
  - cbn [subst]. unfold evalF. kids. reflexivity.
  - (* cond *)
    cbn [subst]. unfold evalF.
    assert (Hd : match dflt with Some d => ev rho1 d | None => Ok (D (VSet [])) end =
                 match (match dflt with Some a => Some (subst x v a) | None => None end) with
                 | Some d => ev rho2 d | None => Ok (D (VSet [])) end).
    { destruct dflt as [d|]; [apply IH; assumption | reflexivity]. }
    clear H0. induction arms as [|[c w] arms IHa]; cbn [map]; [exact Hd|].
    cbn [forallb fst snd] in H. bf. rewrite (IH c), (IH w) by assumption. rewrite IHa by assumption. reflexivity.
  - cbn [subst]. unfold evalF. kids. reflexivity.
  - cbn [subst]. unfold evalF. kids. reflexivity.
  - cbn [subst]. unfold evalF. kids. reflexivity.
  - cbn [subst]. unfold evalF. kids. reflexivity.
Qed.
End Step.

Theorem subst_binder_free n : forall pre rho e,
  binder_free e = true -> name_in x (map fst pre) = false ->
  eval n (pre ++ (x, D (norm v)) :: rho) e = eval n (pre ++ rho) (subst x v e).
Proof.
  induction n as [|n IHn]; intros pre rho e Hb Hx; [reflexivity|].
  change (evalF (eval n) (bind_pat n) (pre ++ (x, D (norm v)) :: rho) e =
          evalF (eval n) (bind_pat n) (pre ++ rho) (subst x v e)).
  apply evalF_subst; [intros y; apply env_get_mid, Hx | intros a Ha; apply IHn; assumption | exact Hb].
Qed.

(* let x = v; e  against  e with x replaced by v *)
Theorem let_literal_binder_free n rho e :
  binder_free e = true ->
  eval (S (S n)) rho (ELet (PVar x) (ELit v) e) = eval (S n) rho (subst x v e).
Proof.
  intros Hb. change (eval (S (S n)) rho (ELet (PVar x) (ELit v) e)) with (eval (S n) ([(x, D (norm v))] ++ rho) e).
  apply (subst_binder_free (S n) [] rho e Hb). reflexivity.
Qed.
End Subst.
