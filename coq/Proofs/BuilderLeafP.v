(* Equal is sound, without any invariant, on first-order representations: numbers, character / byte tuples,
   empty / true, strings, byte arrays, and item / entry tuples of these.  So rel.NewSet denotes exactly its
   members, unconditionally, for well-formed member lists whose members, dict keys / values and relation
   cells are first-order. *)
From Arrai Require Import Base.Val Spec.SetAlg Proofs.ValOrder Proofs.SetAlgP Proofs.CanonP Rep.Builder.
From Arrai Require Import Proofs.BuilderP Proofs.BuilderAllP.

Fixpoint leaf (r : rep) : bool :=
  match r with
  | RNum _ | RTupChar _ _ | RTupByte _ _ | REmpty | RTrue | RStr _ _ _ | RBytes _ _ => true
  | RTupItem _ x => leaf x
  | RTupEntry k v => leaf k && leaf v
  | _ => false
  end.

Lemma num_eq_eq n m : num_eq n m = true -> n = m.
Proof.
  unfold num_eq. intros H. destruct (num_cmp n m) eqn:E; try discriminate.
  assert (Hv : vcmp (VNum n) (VNum m) = Eq) by exact E. apply vcmp_eq in Hv. inversion Hv. reflexivity.
Qed.

Lemma leaf_sound a : leaf a = true -> forall b, rep_equal a b = true -> abs a = abs b.
Proof.
  induction a; cbn [leaf]; intros Hl w Heq; try discriminate; destruct w; cbn [rep_equal] in Heq; try discriminate.
  - apply num_eq_eq in Heq. subst. reflexivity.
  - apply andb_true_iff in Heq. destruct Heq as [H1 H2]. apply Z.eqb_eq in H1. apply Z.eqb_eq in H2. subst. reflexivity.
  - apply andb_true_iff in Heq. destruct Heq as [H1 H2]. apply Z.eqb_eq in H1. apply Z.eqb_eq in H2. subst. reflexivity.
  - apply andb_true_iff in Heq. destruct Heq as [H1 H2]. apply Z.eqb_eq in H1. subst. cbn [abs]. rewrite (IHa Hl _ H2). reflexivity.
  - apply andb_true_iff in Hl. destruct Hl as [Hk Hv]. apply andb_true_iff in Heq. destruct Heq as [H1 H2].
    cbn [abs]. rewrite (IHa1 Hk _ H1), (IHa2 Hv _ H2). reflexivity.
  - reflexivity.
  - reflexivity.
  - apply andb_true_iff in Heq. destruct Heq as [H12 H3]. apply andb_true_iff in H12. destruct H12 as [H1 H2].
    apply Z.eqb_eq in H1. apply zlist_eq_eq in H3. subst. reflexivity.
  - apply andb_true_iff in Heq. destruct Heq as [H1 H2]. apply Z.eqb_eq in H1. apply zlist_eq_eq in H2. subst. reflexivity.
Qed.

Definition first_order (ms : list rep) : Prop := forall x, component ms x -> leaf x = true.

Lemma first_order_sound ms : first_order ms -> equal_sound_on ms.
Proof. intros Hf x y Hx Hy Heq. apply (leaf_sound x (Hf x Hx) y Heq). Qed.

Theorem build_first_order_denotes_members ms r :
  build ms = BOk r -> wf_members ms -> first_order ms -> abs r = mkset (map abs ms).
Proof. intros Hb Hw Hf. apply (build_denotes_members ms r Hb Hw (first_order_sound ms Hf)). Qed.
