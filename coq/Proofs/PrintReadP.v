(* Property C12, whole values: reading the tokens the printer writes gives back the value.
   rd f (pr w ++ rest) = Some (norm w, rest) for every enumeration w of a printable value. *)
From Arrai Require Import Base.Val Spec.SetAlg Eval.Interp Rep.Less Sys.Escape Sys.Printer Sys.Reader.
From Arrai Require Import Proofs.ValOrder Proofs.CanonP Proofs.PermP.
From Coq Require Import Permutation ZifyBool.

(* ---------- small facts ---------- *)
Lemma nm_eqb_eq a b : name_eqb a b = true -> a = b.
Proof.
  unfold name_eqb. destruct (name_cmp a b) eqn:E; try discriminate. intros _. apply name_cmp_eq. exact E.
Qed.

Lemma zl_eq_eq a : forall b, zl_eq a b = true -> a = b.
Proof.
  induction a as [|x a IH]; intros [|y b] H; try discriminate; [reflexivity|].
  cbn in H. apply andb_true_iff in H as [H1 H2]. apply Z.eqb_eq in H1. subst. f_equal. apply IH. exact H2.
Qed.

Lemma names_eqb_eq a : forall b, names_eqb a b = true -> a = b.
Proof.
  induction a as [|x a IH]; intros [|y b] H; try discriminate; [reflexivity|].
  cbn in H. apply andb_true_iff in H as [H1 H2]. apply nm_eqb_eq in H1. subst. f_equal. apply IH. exact H2.
Qed.

Definition vstart (t : tok) : bool :=
  match t with TNum _ | TMinus | TStr _ | TIdent _ | TLPar | TLBrace | TLBrack | TLBytes => true | _ => false end.
Definition follow_ok (ts : list tok) : Prop := match ts with TBsl :: _ => False | _ => True end.
Definition closer (c : tok) : bool := match c with TRBrace | TRPar | TRBrack => true | _ => false end.

(* ---------- pr said with map ---------- *)
Lemma pr_attrs_fix a :
  (fix go (a : list (name * val)) : pattrs :=
     match a with [] => [] | (n, x) :: a' => (n, pr x) :: go a' end) a = pr_attrs a.
Proof. induction a as [|[n x] a IH]; [reflexivity|]. cbn [pr_attrs map fst snd]. f_equal. exact IH. Qed.

Lemma pr_tup l : pr (VTup l) = pr_tuple (pr_attrs l).
Proof. cbn [pr]. rewrite pr_attrs_fix. reflexivity. Qed.

Lemma pr_vset l : pr (VSet l) = pr_set l (map pr_member l).
Proof.
  cbn [pr]. f_equal. induction l as [|m l IH]; [reflexivity|].
  cbn [map]. rewrite <- IH. destruct m as [n|a|s]; [reflexivity| |reflexivity].
  unfold pr_member. rewrite pr_tup. rewrite <- (pr_attrs_fix a). reflexivity.
Qed.

(* everything below holds for both domains: [ball = false] leaves the sequence representations out,
   [ball = true] is printable_all *)
Section Gen.
Variable ball : bool.
Notation printable := (printable_gen ball).
Notation set_ok := (set_ok_gen ball).

Lemma printable_tup l :
  printable (VTup l) = sugar_ok l && negb (nested_neg l) &&
                       forallb (fun p => name_ok (fst p) && printable (snd p)) l.
Proof.
  cbn [printable_gen]. f_equal. induction l as [|[n x] l IH]; [reflexivity|].
  cbn [forallb fst snd]. rewrite IH. reflexivity.
Qed.

Lemma printable_set l : printable (VSet l) = set_ok l && forallb printable l.
Proof.
  reflexivity.
Qed.

(* ---------- commas ---------- *)
Lemma commas_cons x y ys : commas (x :: y :: ys) = x ++ TComma :: commas (y :: ys).
Proof. reflexivity. Qed.

Lemma commas_len_in x xs : In x xs -> (length x <= length (commas xs))%nat.
Proof.
  induction xs as [|y ys IH]; [intros []|].
  intros [->|H].
  - destruct ys; [cbn; lia|]. rewrite commas_cons, app_length. lia.
  - destruct ys as [|z zs]; [destruct H|]. rewrite commas_cons, app_length. cbn [length]. specialize (IH H). lia.
Qed.

Lemma commas_len_ge xs : (forall x, In x xs -> x <> []) -> (length xs <= length (commas xs))%nat.
Proof.
  induction xs as [|y ys IH]; intros H; [cbn; lia|].
  assert (Hy : y <> []) by (apply H; left; reflexivity).
  assert (Hl : (1 <= length y)%nat) by (destruct y; [congruence | cbn; lia]).
  destruct ys as [|z zs]; [cbn; lia|].
  rewrite commas_cons, app_length. cbn [length].
  assert ((length (z :: zs) <= length (commas (z :: zs)))%nat) by (apply IH; intros; apply H; right; assumption).
  cbn [length] in *. lia.
Qed.

(* ---------- every printed value starts with a token that can start a value ---------- *)
Lemma pr_offset_head o body :
  (exists t ts, body = t :: ts /\ vstart t = true) ->
  exists t ts, pr_offset o ++ body = t :: ts /\ vstart t = true.
Proof.
  intros (t & ts & -> & Ht). unfold pr_offset, pr_num.
  destruct (o =? 0); [cbn; eauto|]. destruct (num2 (NInt o) <? 0); cbn; eauto.
Qed.

Lemma pr_head w : exists t ts, pr w = t :: ts /\ vstart t = true.
Proof.
  destruct w as [n|l|l].
  - cbn [pr]. unfold pr_num. destruct (num2 n <? 0); eauto.
  - rewrite pr_tup. unfold pr_tuple. eauto.
  - rewrite pr_vset. unfold pr_set. destruct (set_shape l); try (cbn; eauto; fail).
    + unfold pr_string. destruct (zsort _) as [|[i0 c] cs]; [eauto|]. apply pr_offset_head. eauto.
    + unfold pr_bytes. destruct (zsort _) as [|[i0 c] cs]; [eauto|]. apply pr_offset_head. eauto.
    + unfold pr_array. destruct (zsort _) as [|[i0 c] cs]; [eauto|]. apply pr_offset_head. eauto.
Qed.

Lemma pr_nonempty w : pr w <> [].
Proof. destruct (pr_head w) as (t & ts & E & _). rewrite E. discriminate. Qed.

Lemma pr_len_pos w : (1 <= length (pr w))%nat.
Proof. destruct (pr_head w) as (t & ts & E & _). rewrite E. cbn. lia. Qed.
(* ---------- the list parsers ---------- *)
Section ListSpecs.
Variable rv : list tok -> rres val.

Definition reads (x : val) : Prop := forall r, follow_ok r -> rv (pr x ++ r) = Some (norm x, r).

Lemma closer_follow c r : closer c = true -> follow_ok (c :: r).
Proof. destruct c; try discriminate; intros _; exact I. Qed.

Lemma rd_vals_spec items : forall n c rest,
  items <> [] -> (forall x, In x items -> reads x) -> (length items <= n)%nat -> closer c = true ->
  rd_vals rv n (commas (map pr items) ++ c :: rest) = Some (map norm items, c :: rest).
Proof.
  induction items as [|x items IH]; intros n c rest Hne Hrv Hn Hc; [congruence|].
  destruct n as [|n]; [cbn in Hn; lia|].
  destruct items as [|y items'].
  - cbn [map commas rd_vals]. rewrite (Hrv x (or_introl eq_refl)) by (apply closer_follow; exact Hc).
    destruct c; try discriminate; reflexivity.
  - cbn [map]. rewrite commas_cons, <- app_assoc. cbn [app rd_vals].
    rewrite (Hrv x (or_introl eq_refl)) by exact I.
    change (pr y :: map pr items') with (map pr (y :: items')).
    rewrite IH; [reflexivity | discriminate | intros z Hz; apply Hrv; right; exact Hz | cbn [length] in *; lia | exact Hc].
Qed.

Definition pr_pair (p : val * val) : list tok := pr (fst p) ++ TColon :: pr (snd p).
Definition norm_pair (p : val * val) : val * val := (norm (fst p), norm (snd p)).

Lemma rd_pairs_spec items : forall n c rest,
  items <> [] -> (forall p, In p items -> reads (fst p) /\ reads (snd p)) -> (length items <= n)%nat -> closer c = true ->
  rd_pairs rv n (commas (map pr_pair items) ++ c :: rest) = Some (map norm_pair items, c :: rest).
Proof.
  induction items as [|x items IH]; intros n c rest Hne Hrv Hn Hc; [congruence|].
  destruct n as [|n]; [cbn in Hn; lia|].
  destruct (Hrv x (or_introl eq_refl)) as [Hk Hx].
  destruct items as [|y items'].
  - cbn [map commas rd_pairs]. unfold pr_pair at 1. rewrite <- app_assoc. cbn [app].
    rewrite Hk by exact I. rewrite Hx by (apply closer_follow; exact Hc).
    destruct c; try discriminate; reflexivity.
  - cbn [map]. rewrite commas_cons, <- app_assoc. cbn [app rd_pairs].
    unfold pr_pair at 1. rewrite <- app_assoc. cbn [app].
    rewrite Hk by exact I. rewrite Hx by exact I.
    change (pr_pair y :: map pr_pair items') with (map pr_pair (y :: items')).
    rewrite IH; [reflexivity | discriminate | intros z Hz; apply Hrv; right; exact Hz | cbn [length] in *; lia | exact Hc].
Qed.

Lemma rd_name_pr n : name_ok n = true -> rd_name (pr_name n) = Some n.
Proof.
  intros H. unfold pr_name. destruct (is_ident n); [reflexivity|]. cbn [rd_name]. f_equal. apply zl_eq_eq. exact H.
Qed.

Definition pr_attr (p : name * val) : list tok := pr_name (fst p) :: TColon :: pr (snd p).
Definition norm_attr (p : name * val) : name * val := (fst p, norm (snd p)).

Lemma rd_attrs_spec items : forall n c rest,
  items <> [] -> (forall p, In p items -> name_ok (fst p) = true /\ reads (snd p)) -> (length items <= n)%nat -> closer c = true ->
  rd_attrs rv n (commas (map pr_attr items) ++ c :: rest) = Some (map norm_attr items, c :: rest).
Proof.
  induction items as [|x items IH]; intros n c rest Hne Hrv Hn Hc; [congruence|].
  destruct n as [|n]; [cbn in Hn; lia|].
  destruct (Hrv x (or_introl eq_refl)) as [Hk Hx].
  destruct items as [|y items'].
  - cbn [map commas rd_attrs]. unfold pr_attr at 1. cbn [app].
    rewrite (rd_name_pr _ Hk). rewrite Hx by (apply closer_follow; exact Hc).
    destruct c; try discriminate; reflexivity.
  - cbn [map]. rewrite commas_cons. unfold pr_attr at 1. cbn [app rd_attrs]. rewrite <- app_assoc. cbn [app].
    rewrite (rd_name_pr _ Hk). rewrite Hx by exact I.
    change (pr_attr y :: map pr_attr items') with (map pr_attr (y :: items')).
    rewrite IH; [reflexivity | discriminate | intros z Hz; apply Hrv; right; exact Hz | cbn [length] in *; lia | exact Hc].
Qed.

End ListSpecs.
Section ListSpecs2.
Variable rv : list tok -> rres val.
Notation reads := (reads rv).

Definition pr_row (a : list (name * val)) : list tok := TLPar :: commas (map pr (map snd a)) ++ [TRPar].

Lemma combine_fst_snd (a : list (name * val)) :
  combine (map fst a) (map norm (map snd a)) = map (fun p => (fst p, norm (snd p))) a.
Proof. induction a as [|[n x] a IH]; [reflexivity|]. cbn [map combine fst snd]. f_equal. exact IH. Qed.

Lemma map_pr_nonempty (l : list val) x : In x (map pr l) -> x <> [].
Proof. intros H. apply in_map_iff in H as (v & <- & _). apply pr_nonempty. Qed.

Lemma rd_row_one (ns : list name) (a : list (name * val)) tail :
  ns <> [] -> map fst a = ns -> (forall p, In p a -> reads (snd p)) ->
  rd_vals rv (length (commas (map pr (map snd a)) ++ TRPar :: tail)) (commas (map pr (map snd a)) ++ TRPar :: tail)
  = Some (map norm (map snd a), TRPar :: tail).
Proof.
  intros Hns Ha Hrv. apply rd_vals_spec.
  - destruct a; [cbn in Ha; congruence | discriminate].
  - intros x Hx. apply in_map_iff in Hx as (p & <- & Hp). apply Hrv. exact Hp.
  - rewrite app_length.
    assert (H := commas_len_ge (map pr (map snd a)) (map_pr_nonempty _)).
    rewrite map_length in H. lia.
  - reflexivity.
Qed.

Lemma rd_rows_spec ns rows : forall n c rest,
  ns <> [] -> rows <> [] ->
  (forall a, In a rows -> map fst a = ns /\ forall p, In p a -> reads (snd p)) ->
  (length rows <= n)%nat -> closer c = true ->
  rd_rows rv n ns (commas (map pr_row rows) ++ c :: rest) = Some (map (fun a => norm (VTup a)) rows, c :: rest).
Proof.
  induction rows as [|a rows IH]; intros n c rest Hns Hne Hrv Hn Hc; [congruence|].
  destruct n as [|n]; [cbn in Hn; lia|].
  destruct (Hrv a (or_introl eq_refl)) as [Ha Hra].
  assert (Hlen : Nat.eqb (length (map norm (map snd a))) (length ns) = true).
  { apply Nat.eqb_eq. rewrite <- Ha. rewrite !map_length. reflexivity. }
  assert (Hrow : VTup (asort (combine ns (map norm (map snd a)))) = norm (VTup a)).
  { rewrite <- Ha, combine_fst_snd. reflexivity. }
  destruct rows as [|b rows'].
  - cbn [map commas]. unfold pr_row. cbn [app rd_rows]. rewrite <- app_assoc. cbn [app].
    rewrite (rd_row_one ns a (c :: rest) Hns Ha Hra). rewrite Hlen, Hrow.
    destruct c; try discriminate; reflexivity.
  - cbn [map]. rewrite commas_cons. unfold pr_row at 1. cbn [app rd_rows]. rewrite <- !app_assoc. cbn [app].
    rewrite (rd_row_one ns a _ Hns Ha Hra). rewrite Hlen, Hrow.
    change (pr_row b :: map pr_row rows') with (map pr_row (b :: rows')).
    rewrite IH; [reflexivity | exact Hns | discriminate | intros z Hz; apply Hrv; right; exact Hz | cbn [length] in *; lia | exact Hc].
Qed.

(* ---------- array cells ---------- *)
Definition pr_cell (p : Z * val) : Z * list tok := (fst p, pr (snd p)).
Definition norm_cell (p : Z * val) : val := vpair n_item (vint (fst p)) (norm (snd p)).

Fixpoint incr_from (prev : Z) (cs : list (Z * val)) : Prop :=
  match cs with [] => True | p :: cs' => prev < fst p /\ incr_from (fst p) cs' end.

Lemma rd_cells_hole n i ts : rd_cells rv (S n) i (TComma :: TComma :: ts) = rd_cells rv n (i + 1) (TComma :: ts).
Proof. reflexivity. Qed.

Lemma rd_gap x tail : reads x -> follow_ok tail -> forall k m prev,
  rd_cells rv (S k + m) prev (repeat TComma (S k) ++ pr x ++ tail) =
  match rd_cells rv m (prev + Z.of_nat (S k)) tail with
  | Some (ms, r) => Some (vpair n_item (vint (prev + Z.of_nat (S k))) (norm x) :: ms, r)
  | None => None
  end.
Proof.
  intros Hx Hf. induction k as [|k IH]; intros m prev.
  - specialize (Hx tail Hf). destruct (pr_head x) as (t & ts & E & Ht). rewrite E in *.
    cbn [repeat app plus rd_cells] in *.
    replace (prev + Z.of_nat 1) with (prev + 1) by lia.
    destruct t; try discriminate; rewrite Hx; reflexivity.
  - change (repeat TComma (S (S k)) ++ pr x ++ tail) with (TComma :: TComma :: (repeat TComma k ++ pr x ++ tail)).
    change (S (S k) + m)%nat with (S (S k + m)). rewrite rd_cells_hole.
    change (TComma :: repeat TComma k ++ pr x ++ tail) with (repeat TComma (S k) ++ pr x ++ tail).
    rewrite IH.
    replace (prev + 1 + Z.of_nat (S k)) with (prev + Z.of_nat (S (S k))) by lia. reflexivity.
Qed.

Lemma pr_cells_follow i cs rest : incr_from i cs -> follow_ok (pr_cells i (map pr_cell cs) ++ TRBrack :: rest).
Proof.
  destruct cs as [|[i' x] cs]; intros H; [exact I|]. cbn [incr_from fst] in H. destruct H as [H _].
  cbn [map pr_cell pr_cells fst snd].
  destruct (Z.to_nat (i' - i)) eqn:E; [lia|]. exact I.
Qed.

Lemma rd_cells_spec cs : forall prev n rest,
  incr_from prev cs -> (forall p, In p cs -> reads (snd p)) ->
  (length (pr_cells prev (map pr_cell cs)) < n)%nat ->
  rd_cells rv n prev (pr_cells prev (map pr_cell cs) ++ TRBrack :: rest) = Some (map norm_cell cs, rest).
Proof.
  induction cs as [|[i x] cs IH]; intros prev n rest Hinc Hrv Hn.
  - destruct n; [cbn in Hn; lia|]. reflexivity.
  - cbn [incr_from fst] in Hinc. destruct Hinc as [Hlt Hinc].
    cbn [map pr_cell pr_cells fst snd] in *.
    destruct (Z.to_nat (i - prev)) as [|k] eqn:Ek; [lia|].
    rewrite !app_length, repeat_length in Hn.
    replace n with (S k + (n - S k))%nat by lia.
    rewrite <- !app_assoc.
    rewrite (rd_gap x _ (Hrv _ (or_introl eq_refl)) (pr_cells_follow i cs rest Hinc)).
    replace (prev + Z.of_nat (S k)) with i by lia.
    rewrite IH; [reflexivity | exact Hinc | intros p Hp; apply Hrv; right; exact Hp | lia].
Qed.

End ListSpecs2.
(* ---------- the representation of a set and the shape of its members ---------- *)
Lemma bucket_eqb_eq a b : bucket_eqb a b = true -> a = b.
Proof.
  destruct a, b; try discriminate; try reflexivity. cbn. intros H. f_equal. apply names_eqb_eq. exact H.
Qed.

Lemma set_shape_inv l s :
  set_shape l = s -> s <> ShEmpty -> s <> ShTrue -> s <> ShSet ->
  exists b, l <> [] /\ Forall (fun x => member_bucket x = b) l /\ shape_of_bucket b = s.
Proof.
  destruct l as [|m r]; [intros <- H1 _ _; exfalso; apply H1; reflexivity|]. unfold set_shape.
  destruct (is_true_set (m :: r)); [intros <- _ H2 _; exfalso; apply H2; reflexivity|].
  destruct (forallb _ r) eqn:E; [|intros <- _ _ H3; exfalso; apply H3; reflexivity].
  intros <- _ _ _. exists (member_bucket m). split; [discriminate|]. split; [|reflexivity].
  constructor; [reflexivity|]. rewrite forallb_forall in E. apply Forall_forall. intros x Hx.
  apply bucket_eqb_eq. apply E. exact Hx.
Qed.

Lemma shape_bucket_inv b s : shape_of_bucket b = s ->
  match s with
  | ShStr => b = BChar | ShBytes => b = BByte | ShArr => b = BItem | ShDict => b = BEntry
  | ShRel ns => b = BRel ns /\ forallb is_ident ns = true
  | _ => True
  end.
Proof.
  intros <-. destruct b; cbn; try reflexivity. destruct (forallb is_ident names) eqn:E; [split; [reflexivity|exact E] | exact I].
Qed.

Lemma bucket_sugar_inv m b nm :
  (b = BChar /\ nm = n_char) \/ (b = BByte /\ nm = n_byte) \/ (b = BItem /\ nm = n_item) \/ (b = BEntry /\ nm = n_value) ->
  member_bucket m = b -> exists k x, m = VTup [(n_at, k); (nm, x)].
Proof.
  intros Hb Hm. destruct m as [n|a|s]; try (cbn in Hm; subst b; decompose [or and] Hb; discriminate).
  destruct a as [|[n1 k] [|[n2 x] [|q a]]]; try (cbn in Hm; subst b; decompose [or and] Hb; discriminate).
  cbn in Hm.
  destruct (name_eqb n1 n_at) eqn:E1; [|subst b; decompose [or and] Hb; discriminate].
  apply nm_eqb_eq in E1. subst n1.
  destruct (name_eqb n2 n_char) eqn:E2.
  { apply nm_eqb_eq in E2. subst. decompose [or and] Hb; try discriminate. subst. eauto. }
  destruct (name_eqb n2 n_byte) eqn:E3.
  { apply nm_eqb_eq in E3. subst. decompose [or and] Hb; try discriminate. subst. eauto. }
  destruct (name_eqb n2 n_item) eqn:E4.
  { apply nm_eqb_eq in E4. subst. decompose [or and] Hb; try discriminate. subst. eauto. }
  destruct (name_eqb n2 n_value) eqn:E5.
  { apply nm_eqb_eq in E5. subst. decompose [or and] Hb; try discriminate. subst. eauto. }
  subst b. decompose [or and] Hb; discriminate.
Qed.

Lemma bucket_rel_inv m ns : member_bucket m = BRel ns -> exists a, m = VTup a /\ map fst a = ns.
Proof.
  destruct m as [n|a|s]; try discriminate. intros H. exists a. split; [reflexivity|].
  destruct a as [|[n1 k] [|[n2 x] [|q a]]]; cbn in H; try discriminate; try (injection H as <-; reflexivity).
  destruct (name_eqb n1 n_at); [|injection H as <-; reflexivity].
  destruct (name_eqb n2 n_char); [discriminate|]. destruct (name_eqb n2 n_byte); [discriminate|].
  destruct (name_eqb n2 n_item); [discriminate|]. destruct (name_eqb n2 n_value); [discriminate|].
  injection H as <-. reflexivity.
Qed.

(* ---------- sorting by index ---------- *)
Lemma zinsert_perm {A} (p : Z * A) l : Permutation (zinsert p l) (p :: l).
Proof.
  induction l as [|q l IH]; [reflexivity|]. cbn [zinsert]. destruct (fst p <=? fst q); [reflexivity|].
  rewrite IH. apply perm_swap.
Qed.
Lemma zsort_perm {A} (l : list (Z * A)) : Permutation (zsort l) l.
Proof.
  induction l as [|p l IH]; [reflexivity|]. unfold zsort in *. cbn [fold_right].
  rewrite zinsert_perm. constructor. exact IH.
Qed.

Definition on_snd {A B} (g : A -> B) (q : Z * A) : Z * B := (fst q, g (snd q)).
Lemma zinsert_map {A B} (g : A -> B) p l :
  zinsert (on_snd g p) (map (on_snd g) l) = map (on_snd g) (zinsert p l).
Proof.
  induction l as [|q l IH]; [reflexivity|]. cbn [map zinsert].
  change (fst (on_snd g p)) with (fst p). change (fst (on_snd g q)) with (fst q).
  destruct (fst p <=? fst q); [reflexivity|]. cbn [map]. f_equal. exact IH.
Qed.
Lemma zsort_map {A B} (g : A -> B) l : zsort (map (on_snd g) l) = map (on_snd g) (zsort l).
Proof.
  induction l as [|p l IH]; [reflexivity|]. unfold zsort in *. cbn [map fold_right]. rewrite IH. apply zinsert_map.
Qed.
Lemma map_fst_on_snd {A B} (g : A -> B) l : map fst (map (on_snd g) l) = map fst l.
Proof. induction l as [|p l IH]; [reflexivity|]. cbn. f_equal. exact IH. Qed.

Lemma increasing_incr i0 (cs : list (Z * val)) : increasing false (i0 :: map fst cs) = true -> incr_from i0 cs.
Proof.
  revert i0. induction cs as [|[i x] cs IH]; intros i0 H; [exact I|].
  cbn [map fst increasing] in H. apply andb_true_iff in H as [H1 H2]. cbn [incr_from fst].
  split; [lia|]. apply IH. exact H2.
Qed.

Lemma contig_seq k (cs : list (Z * Z)) : forall i0,
  increasing true (i0 :: map fst cs) = true ->
  vseq_from k (i0 + 1) (map vint (map snd cs)) = map (fun p => vpair k (vint (fst p)) (vint (snd p))) cs.
Proof.
  induction cs as [|[i c] cs IH]; intros i0 H; [reflexivity|].
  cbn [map fst increasing] in H. apply andb_true_iff in H as [H1 H2]. apply Z.eqb_eq in H1. subst i.
  cbn [map fst snd vseq_from]. f_equal. apply IH. exact H2.
Qed.
(* ---------- unfolding the reader at the tokens the printer starts with ---------- *)
Lemma rd_S_brace f ts : rd (S f) (TLBrace :: ts) = rd_brace (rd f) ts.
Proof. reflexivity. Qed.
Lemma rd_S_par f ts : rd (S f) (TLPar :: ts) = rd_paren (rd f) ts.
Proof. reflexivity. Qed.

Definition seq_start (body : list tok) : Prop :=
  match body with (TStr _ | TLBrack | TLBytes) :: _ => True | _ => False end.
Lemma rd_S_seq f o body : seq_start body -> rd (S f) (pr_offset o ++ body) = rd_seq (rd f) o body.
Proof.
  intros Hb. destruct body as [|t b]; [contradiction|]. unfold pr_offset, pr_num.
  destruct (o =? 0) eqn:E0.
  - apply Z.eqb_eq in E0. subst. destruct t; try contradiction; reflexivity.
  - destruct (num2 (NInt o) <? 0); cbn [app num_neg].
    + cbn [rd]. rewrite Z.opp_involutive. reflexivity.
    + reflexivity.
Qed.

Lemma rd_brace_start rv t ts : vstart t = true -> rd_brace rv (t :: ts) = rd_brace_gen rv (t :: ts).
Proof. destruct t; try discriminate; reflexivity. Qed.
Lemma rd_paren_start rv t ts : t <> TRPar -> rd_paren rv (t :: ts) = rd_paren_gen rv (t :: ts).
Proof. intros H. destruct t; try reflexivity. congruence. Qed.
Lemma rd_seq_arr rv off t ts : vstart t = true -> rd_seq rv off (TLBrack :: t :: ts) = rd_arr_gen rv off (t :: ts).
Proof. destruct t; try discriminate; reflexivity. Qed.

Lemma num_neg_inv n : num_neg (num_neg n) = n.
Proof. destruct n; cbn; f_equal; lia. Qed.

Lemma rd_minus f m rest : follow_ok rest -> rd (S f) (TMinus :: TNum m :: rest) = Some (VNum (num_neg m), rest).
Proof.
  intros Hf. destruct m as [z|z]; [|reflexivity].
  destruct rest as [|t rest]; [reflexivity|]. destruct t; try contradiction; reflexivity.
Qed.
Lemma rd_plain f m rest : follow_ok rest -> rd (S f) (TNum m :: rest) = Some (VNum m, rest).
Proof.
  intros Hf. destruct m as [z|z]; [|reflexivity].
  destruct rest as [|t rest]; [reflexivity|]. destruct t; try contradiction; reflexivity.
Qed.
Lemma rd_num f n rest : follow_ok rest -> rd (S f) (pr_num n ++ rest) = Some (VNum n, rest).
Proof.
  intros Hf. unfold pr_num. destruct (num2 n <? 0); cbn [app].
  - rewrite rd_minus by exact Hf. rewrite num_neg_inv. reflexivity.
  - apply rd_plain. exact Hf.
Qed.

Lemma map_fst_pr_member l : map fst (map pr_member l) = map pr l.
Proof. induction l as [|m l IH]; [reflexivity|]. cbn [map]. f_equal; [destruct m; reflexivity | exact IH]. Qed.

Lemma commas_pr_head (l : list val) : l <> [] -> exists t ts, commas (map pr l) = t :: ts /\ vstart t = true.
Proof.
  destruct l as [|m r]; [congruence|]. intros _. destruct (pr_head m) as (t & ts & E & Ht).
  destruct r as [|y r]; cbn [map]; [cbn [commas]; eauto|]. rewrite commas_cons, E. cbn [app]. eauto.
Qed.

(* the length of a printed part bounds the fuel its reading needs *)
Lemma braced_len (open close : tok) xs x f :
  In x xs -> (length (open :: commas xs ++ [close]) <= S f)%nat -> (length x <= f)%nat.
Proof.
  intros Hin H. apply commas_len_in in Hin. cbn [length] in H. rewrite app_length in H. cbn [length] in H. lia.
Qed.

Lemma forallb_In {A} (p : A -> bool) l x : forallb p l = true -> In x l -> p x = true.
Proof. intros H Hx. rewrite forallb_forall in H. apply H. exact Hx. Qed.

Lemma pr_tuple_attrs l : pr_tuple (pr_attrs l) = TLPar :: commas (map pr_attr l) ++ [TRPar].
Proof. unfold pr_tuple, pr_attrs. rewrite map_map. reflexivity. Qed.

Section Main.
Variable f : nat.
Hypothesis IH : forall w rest, (length (pr w) <= f)%nat -> printable w = true -> follow_ok rest ->
                               rd f (pr w ++ rest) = Some (norm w, rest).

Lemma IH_reads x : (length (pr x) <= f)%nat -> printable x = true -> reads (rd f) x.
Proof. intros Hl Hp r Hr. apply IH; assumption. Qed.

Lemma rd_tuple l rest :
  (length (pr (VTup l)) <= S f)%nat -> printable (VTup l) = true ->
  rd (S f) (pr (VTup l) ++ rest) = Some (norm (VTup l), rest).
Proof.
  intros Hl Hp. rewrite pr_tup in *. rewrite printable_tup in Hp.
  apply andb_true_iff in Hp as [_ Hp]. rewrite pr_tuple_attrs in *.
  cbn [app]. rewrite rd_S_par, <- app_assoc. cbn [app].
  destruct l as [|p l']; [reflexivity|].
  assert (Hne : p :: l' <> []) by discriminate. remember (p :: l') as l eqn:El. clear El.
  assert (Hhead : exists t ts, commas (map pr_attr l) = t :: ts /\ t <> TRPar).
  { destruct l as [|q l]; [congruence|]. destruct l; cbn [map]; [cbn [commas] | rewrite commas_cons];
      unfold pr_attr at 1, pr_name; destruct (is_ident (fst q)); cbn [app]; eexists; eexists; (split; [reflexivity | discriminate]). }
  destruct Hhead as (t & ts & E & Ht).
  assert (Hspec : rd_attrs (rd f) (length (commas (map pr_attr l) ++ TRPar :: rest)) (commas (map pr_attr l) ++ TRPar :: rest)
                  = Some (map norm_attr l, TRPar :: rest)).
  { apply rd_attrs_spec; [exact Hne | | | reflexivity].
    - intros q Hq. assert (Hq' := forallb_In _ _ _ Hp Hq). apply andb_true_iff in Hq' as [Hn Hx]. split; [exact Hn|].
      apply IH_reads; [|exact Hx].
      assert (Hb : (length (pr_attr q) <= f)%nat) by (eapply braced_len; [apply in_map; exact Hq | exact Hl]).
      unfold pr_attr in Hb. cbn [length] in Hb. lia.
    - rewrite app_length.
      assert (H := commas_len_ge (map pr_attr l)). rewrite map_length in H.
      assert (length l <= length (commas (map pr_attr l)))%nat; [|lia].
      apply H. intros x Hx. apply in_map_iff in Hx as (q & <- & _). discriminate. }
  rewrite E in *. cbn [app] in *. rewrite rd_paren_start by exact Ht. unfold rd_paren_gen. rewrite Hspec. reflexivity.
Qed.

Lemma rd_generic l rest :
  set_shape l = ShSet -> (length (pr (VSet l)) <= S f)%nat -> forallb printable l = true ->
  rd (S f) (pr (VSet l) ++ rest) = Some (norm (VSet l), rest).
Proof.
  intros Sh Hl Hp. rewrite pr_vset in *. unfold pr_set in *. rewrite Sh in *. rewrite map_fst_pr_member in *.
  assert (Hne : l <> []) by (destruct l; [discriminate Sh | discriminate]).
  cbn [app]. rewrite rd_S_brace, <- app_assoc. cbn [app].
  assert (Hrv : forall x, In x l -> reads (rd f) x).
  { intros x Hx. apply IH_reads; [|eapply forallb_In; eassumption].
    eapply braced_len; [apply in_map; exact Hx | exact Hl]. }
  assert (Hspec : rd_vals (rd f) (length (commas (map pr l) ++ TRBrace :: rest)) (commas (map pr l) ++ TRBrace :: rest)
                  = Some (map norm l, TRBrace :: rest)).
  { apply rd_vals_spec; [exact Hne | exact Hrv | | reflexivity].
    rewrite app_length. assert (H := commas_len_ge (map pr l) (map_pr_nonempty _)). rewrite map_length in H. lia. }
  assert (Hfirst : exists v c tl, rd f (commas (map pr l) ++ TRBrace :: rest) = Some (v, c :: tl) /\ (c = TComma \/ c = TRBrace)).
  { destruct l as [|m r]; [congruence|]. destruct r as [|y r]; cbn [map].
    - cbn [commas]. rewrite (Hrv m (or_introl eq_refl)) by exact I. eauto 6.
    - rewrite commas_cons, <- app_assoc. cbn [app]. rewrite (Hrv m (or_introl eq_refl)) by exact I. eauto 6. }
  destruct (commas_pr_head l Hne) as (t & ts & E & Ht).
  destruct Hfirst as (v & c & tl & Hf & Hc).
  rewrite E in *. cbn [app] in *. rewrite rd_brace_start by exact Ht. unfold rd_brace_gen. rewrite Hf, Hspec.
  destruct Hc as [-> | ->]; reflexivity.
Qed.

End Main.
Definition mem_val (m : val) : val := match m with VTup [_; (_, x)] => x | _ => VSet [] end.
Definition mem_pair (m : val) : val * val := (mem_key m, mem_val m).
Definition mem_attrs (m : val) : list (name * val) := match m with VTup a => a | _ => [] end.

Lemma rd_names_spec ns : forall X, ns <> [] ->
  rd_names (commas (map (fun n => [TIdent n]) ns) ++ TBar :: X) = Some (ns, X).
Proof.
  induction ns as [|a ns IH]; intros X Hne; [congruence|].
  destruct ns as [|b ns']; [reflexivity|].
  cbn [map]. rewrite commas_cons. cbn [app rd_names].
  change ([TIdent b] :: map (fun n => [TIdent n]) ns') with (map (fun n => [TIdent n]) (b :: ns')).
  rewrite IH by discriminate. reflexivity.
Qed.

Section Main2.
Variable f : nat.
Hypothesis IH : forall w rest, (length (pr w) <= f)%nat -> printable w = true -> follow_ok rest ->
                               rd f (pr w ++ rest) = Some (norm w, rest).

Lemma sugar_members l s nm :
  set_shape l = s ->
  (s = ShStr /\ nm = n_char) \/ (s = ShBytes /\ nm = n_byte) \/ (s = ShArr /\ nm = n_item) \/ (s = ShDict /\ nm = n_value) ->
  l <> [] /\ forall m, In m l -> exists k x, m = VTup [(n_at, k); (nm, x)].
Proof.
  intros Sh Hs.
  destruct Hs as [[Es En]|[[Es En]|[[Es En]|[Es En]]]]; rewrite Es in Sh; rewrite En;
    (destruct (set_shape_inv l _ Sh) as (b & Hne & Hb & Hsb); try discriminate;
     apply shape_bucket_inv in Hsb; cbn in Hsb; subst b;
     split; [exact Hne|]; intros m Hm; rewrite Forall_forall in Hb;
     eapply bucket_sugar_inv; [|apply Hb; exact Hm]; tauto).
Qed.

Lemma rd_dict l rest :
  set_shape l = ShDict -> (length (pr (VSet l)) <= S f)%nat -> set_ok l = true -> forallb printable l = true ->
  rd (S f) (pr (VSet l) ++ rest) = Some (norm (VSet l), rest).
Proof.
  intros Sh Hl Hok Hp.
  destruct (sugar_members l ShDict n_value Sh) as [Hne Hm]; [tauto|].
  rewrite pr_vset in *. unfold pr_set in *. unfold set_ok_gen in Hok. rewrite Sh in *.
  assert (E1 : map (fun p => part1 p ++ TColon :: part2 p) (map pr_member l) = map pr_pair (map mem_pair l)).
  { rewrite !map_map. apply map_ext_in. intros m Hin. destruct (Hm m Hin) as (k & x & ->). reflexivity. }
  assert (E2 : map norm l = map entry (map norm_pair (map mem_pair l))).
  { rewrite !map_map. apply map_ext_in. intros m Hin. destruct (Hm m Hin) as (k & x & ->). reflexivity. }
  assert (E3 : map fst (map norm_pair (map mem_pair l)) = map (fun m => norm (mem_key m)) l).
  { rewrite !map_map. reflexivity. }
  rewrite E1 in *.
  assert (Hrv : forall p, In p (map mem_pair l) -> reads (rd f) (fst p) /\ reads (rd f) (snd p)).
  { intros p Hin. assert (Hin2 := Hin). apply in_map_iff in Hin as (m & <- & Hin). destruct (Hm m Hin) as (k & x & ->).
    assert (Hpm := forallb_In _ _ _ Hp Hin). rewrite printable_tup in Hpm. apply andb_true_iff in Hpm as [_ Hpm].
    cbn [forallb fst snd] in Hpm.
    apply andb_true_iff in Hpm as [Hk Hx]. apply andb_true_iff in Hk as [_ Hk].
    apply andb_true_iff in Hx as [Hx _]. apply andb_true_iff in Hx as [_ Hx].
    assert (Hlen : (length (pr_pair (mem_pair (VTup [(n_at, k); (n_value, x)]))) <= f)%nat).
    { eapply braced_len; [|exact Hl]. apply in_map. exact Hin2. }
    unfold pr_pair, mem_pair in Hlen. cbn [mem_key mem_val fst snd] in Hlen. rewrite app_length in Hlen. cbn [length] in Hlen.
    cbn [mem_pair mem_key mem_val fst snd]. split; apply IH_reads; try assumption; lia. }
  set (items := map mem_pair l) in *.
  assert (Hine : items <> []) by (subst items; destruct l; [congruence | discriminate]).
  cbn [app]. rewrite rd_S_brace, <- app_assoc. cbn [app].
  assert (Hspec : rd_pairs (rd f) (length (commas (map pr_pair items) ++ TRBrace :: rest)) (commas (map pr_pair items) ++ TRBrace :: rest)
                  = Some (map norm_pair items, TRBrace :: rest)).
  { apply rd_pairs_spec; [exact Hine | exact Hrv | | reflexivity].
    rewrite app_length. assert (H := commas_len_ge (map pr_pair items)). rewrite map_length in H.
    assert (length items <= length (commas (map pr_pair items)))%nat; [|lia].
    apply H. intros x Hx. apply in_map_iff in Hx as (q & <- & _). unfold pr_pair.
    destruct (pr (fst q)); discriminate. }
  assert (Hfirst : exists v tl, rd f (commas (map pr_pair items) ++ TRBrace :: rest) = Some (v, TColon :: tl)).
  { destruct items as [|p r]; [congruence|]. destruct (Hrv p (or_introl eq_refl)) as [Hk _].
    destruct r as [|y r]; cbn [map].
    - cbn [commas]. unfold pr_pair. rewrite <- app_assoc. cbn [app]. rewrite Hk by exact I. eauto.
    - rewrite commas_cons. unfold pr_pair at 1. rewrite <- !app_assoc. cbn [app]. rewrite Hk by exact I. eauto. }
  assert (Hhead : exists t ts, commas (map pr_pair items) = t :: ts /\ vstart t = true).
  { destruct items as [|p r]; [congruence|].
    destruct (pr_head (fst p)) as (t & ts & E & Ht).
    destruct r as [|y r]; cbn [map].
    - cbn [commas]. unfold pr_pair. rewrite E. cbn [app]. eauto.
    - rewrite commas_cons. unfold pr_pair at 1. rewrite E. cbn [app]. eauto. }
  destruct Hfirst as (v & tl & Hf). destruct Hhead as (t & ts & E & Ht).
  rewrite E in *. cbn [app] in *. rewrite rd_brace_start by exact Ht. unfold rd_brace_gen. rewrite Hf, Hspec.
  rewrite E3, Hok. unfold mk_set. cbn [norm]. rewrite E2. reflexivity.
Qed.

Lemma rd_relation l ns rest :
  set_shape l = ShRel ns -> (length (pr (VSet l)) <= S f)%nat -> set_ok l = true -> forallb printable l = true ->
  rd (S f) (pr (VSet l) ++ rest) = Some (norm (VSet l), rest).
Proof.
  intros Sh Hl Hok Hp.
  destruct (set_shape_inv l _ Sh) as (b & Hne & Hb & Hsb); try discriminate.
  apply shape_bucket_inv in Hsb. cbn in Hsb. destruct Hsb as [-> _].
  assert (Hm : forall m, In m l -> exists a, m = VTup a /\ map fst a = ns).
  { intros m Hm. rewrite Forall_forall in Hb. apply bucket_rel_inv. apply Hb. exact Hm. }
  rewrite pr_vset in *. unfold pr_set in *. unfold set_ok_gen in Hok. rewrite Sh in *.
  assert (Hns : ns <> []) by (destruct ns; [discriminate Hok | discriminate]).
  assert (E1 : map (fun p => TLPar :: commas (map snd (snd p)) ++ [TRPar]) (map pr_member l) = map pr_row (map mem_attrs l)).
  { rewrite !map_map. apply map_ext_in. intros m Hin. destruct (Hm m Hin) as (a & -> & _).
    unfold pr_member, pr_row, pr_attrs. cbn [snd mem_attrs]. rewrite !map_map. reflexivity. }
  assert (E2 : map norm l = map (fun a => norm (VTup a)) (map mem_attrs l)).
  { rewrite !map_map. apply map_ext_in. intros m Hin. destruct (Hm m Hin) as (a & -> & _). reflexivity. }
  rewrite E1 in *.
  assert (Hrv : forall a, In a (map mem_attrs l) -> map fst a = ns /\ forall p, In p a -> reads (rd f) (snd p)).
  { intros a Hin. assert (Hin2 := Hin). apply in_map_iff in Hin as (m & <- & Hin). destruct (Hm m Hin) as (a & -> & Ha).
    cbn [mem_attrs]. split; [exact Ha|]. intros p Hpa.
    assert (Hpm := forallb_In _ _ _ Hp Hin). rewrite printable_tup in Hpm. apply andb_true_iff in Hpm as [_ Hpm].
    assert (Hpp := forallb_In _ _ _ Hpm Hpa). apply andb_true_iff in Hpp as [_ Hpp].
    apply (IH_reads f IH); [|exact Hpp].
    assert (Hrow : (length (pr_row a) <= length (commas (map pr_row (map mem_attrs l))))%nat).
    { apply commas_len_in. apply in_map. exact Hin2. }
    assert (Hx : (length (pr (snd p)) <= length (commas (map pr (map snd a))))%nat).
    { apply commas_len_in. apply in_map. apply in_map. exact Hpa. }
    assert (Hr2 : length (pr_row a) = S (length (commas (map pr (map snd a))) + 1)%nat)
      by (unfold pr_row; cbn [length]; rewrite app_length; reflexivity).
    cbn [length] in Hl. rewrite ?app_length in Hl. cbn [length] in Hl. rewrite ?app_length in Hl. cbn [length] in Hl.
    lia. }
  set (rows := map mem_attrs l) in *.
  assert (Hrne : rows <> []) by (subst rows; destruct l; [congruence | discriminate]).
  cbn [app]. rewrite rd_S_brace. cbn [rd_brace]. unfold rd_rel. rewrite <- !app_assoc. cbn [app].
  rewrite rd_names_spec by exact Hns. rewrite <- ?app_assoc. cbn [app].
  rewrite rd_rows_spec; [ | exact Hns | exact Hrne | exact Hrv | | reflexivity].
  - unfold mk_set. cbn [norm]. rewrite E2. reflexivity.
  - rewrite app_length. assert (H := commas_len_ge (map pr_row rows)). rewrite map_length in H.
    assert (length rows <= length (commas (map pr_row rows)))%nat; [|lia].
    apply H. intros x Hx. apply in_map_iff in Hx as (q & <- & _). discriminate.
Qed.

End Main2.

(* ---------- the sequence representations ---------- *)
Definition mk_sc (nm : name) (p : Z * Z) : val := vpair nm (vint (fst p)) (vint (snd p)).
Definition sc_items (l : list val) : list (Z * Z) := map (fun m => (mem_index m, mem_scalar m)) l.
Definition arr_items (l : list val) : list (Z * val) := map (fun m => (mem_index m, mem_val m)) l.

Lemma zsort_nil_inv {A} (l : list (Z * A)) : zsort l = [] -> l = [].
Proof. intros E. assert (H := zsort_perm l). rewrite E in H. apply Permutation_nil. exact H. Qed.

Lemma scalar_common l s nm :
  set_shape l = s -> (s = ShStr /\ nm = n_char) \/ (s = ShBytes /\ nm = n_byte) ->
  set_ok l = true -> forallb printable l = true ->
  exists i0 c0 cs', zsort (sc_items l) = (i0, c0) :: cs' /\
    VSet (vsort (vseq_from nm i0 (map vint (c0 :: map snd cs')))) = norm (VSet l) /\
    (nm = n_byte -> Forall (fun b => 0 <= b <= 255) (c0 :: map snd cs')).
Proof.
  intros Sh Hs Hok Hp.
  destruct (sugar_members l s nm Sh) as [Hne Hm]; [tauto|].
  assert (Hpt : forall m, In m l -> exists i c, m = mk_sc nm (i, c) /\ (nm = n_byte -> 0 <= c <= 255)).
  { intros m Hin. destruct (Hm m Hin) as (k & x & ->).
    assert (Hpm := forallb_In _ _ _ Hp Hin). rewrite printable_tup in Hpm.
    apply andb_true_iff in Hpm as [Hpm _]. apply andb_true_iff in Hpm as [Hsg _].
    destruct Hs as [[_ ->]|[_ ->]].
    - change (sugar_ok [(n_at, k); (n_char, x)]) with (is_int k && is_rune x) in Hsg.
      apply andb_true_iff in Hsg as [Hk Hx].
      destruct k as [[i|?]|?|?]; cbn in Hk; try discriminate Hk.
      destruct x as [[c|?]|?|?]; cbn [is_rune] in Hx; try discriminate Hx.
      exists i, c. split; [reflexivity|]. intros E. discriminate E.
    - change (sugar_ok [(n_at, k); (n_byte, x)]) with (is_int k && is_byte x) in Hsg.
      apply andb_true_iff in Hsg as [Hk Hx].
      destruct k as [[i|?]|?|?]; cbn in Hk; try discriminate Hk.
      destruct x as [[c|?]|?|?]; cbn [is_byte] in Hx; try discriminate Hx.
      exists i, c. split; [reflexivity|]. intros _. lia. }
  assert (Hinc : increasing true (map fst (zsort (sc_items l))) = true).
  { unfold set_ok_gen in Hok. destruct Hs as [[-> _]|[-> _]]; rewrite Sh in Hok;
      apply andb_true_iff in Hok as [_ Hok]; exact Hok. }
  assert (El : l = map (mk_sc nm) (sc_items l)).
  { unfold sc_items. rewrite map_map. rewrite <- (map_id l) at 1. apply map_ext_in. intros m Hin.
    destruct (Hpt m Hin) as (i & c & -> & _). reflexivity. }
  assert (En : map norm l = l).
  { rewrite <- (map_id l) at 2. apply map_ext_in. intros m Hin. destruct (Hpt m Hin) as (i & c & -> & _).
    clear - Hs. destruct Hs as [[_ ->]|[_ ->]]; reflexivity. }
  assert (Hr : nm = n_byte -> Forall (fun p : Z * Z => 0 <= snd p <= 255) (sc_items l)).
  { intros E. apply Forall_forall. intros p Hin. unfold sc_items in Hin. apply in_map_iff in Hin as (m & <- & Hin).
    destruct (Hpt m Hin) as (i & c & -> & Hc). cbn. apply Hc. exact E. }
  remember (sc_items l) as items eqn:Ei.
  destruct (zsort items) as [|[i0 c0] cs'] eqn:Ez.
  { apply zsort_nil_inv in Ez. subst items. rewrite Ez in El. cbn in El. congruence. }
  exists i0, c0, cs'. split; [reflexivity|]. split.
  - cbn [map fst] in Hinc. cbn [map vseq_from]. rewrite (contig_seq nm cs' i0 Hinc).
    change (vpair nm (vint i0) (vint c0) :: map (fun p => vpair nm (vint (fst p)) (vint (snd p))) cs')
      with (map (mk_sc nm) ((i0, c0) :: cs')).
    rewrite <- Ez. cbn [norm]. rewrite En. f_equal. rewrite El at 1.
    apply vsort_perm. apply Permutation_map. apply zsort_perm.
  - intros E. specialize (Hr E).
    assert (Hz : Forall (fun p : Z * Z => 0 <= snd p <= 255) ((i0, c0) :: cs')).
    { rewrite <- Ez. eapply Permutation_Forall; [apply Permutation_sym; apply zsort_perm | exact Hr]. }
    change (c0 :: map snd cs') with (map snd ((i0, c0) :: cs')). apply Forall_map. exact Hz.
Qed.

Lemma rd_str f l rest :
  set_shape l = ShStr -> set_ok l = true -> forallb printable l = true ->
  rd (S f) (pr (VSet l) ++ rest) = Some (norm (VSet l), rest).
Proof.
  intros Sh Hok Hp.
  destruct (scalar_common l ShStr n_char Sh) as (i0 & c0 & cs' & Ez & Ev & _); [tauto | exact Hok | exact Hp |].
  rewrite pr_vset. unfold pr_set. rewrite Sh.
  change (map (fun m => (mem_index m, mem_scalar m)) l) with (sc_items l). rewrite Ez.
  unfold pr_string. rewrite <- app_assoc. rewrite rd_S_seq by exact I.
  cbn [app rd_seq]. change (map snd ((i0, c0) :: cs')) with (c0 :: map snd cs'). unfold mk_set. rewrite Ev. reflexivity.
Qed.

Lemma utf8_enc_renderable bs : forallb renderable bs = true -> utf8_enc bs = bs.
Proof.
  induction bs as [|b bs IH]; [reflexivity|]. cbn [forallb]. intros H. apply andb_true_iff in H as [Hb Hbs].
  unfold utf8_enc in *. cbn [flat_map]. rewrite IH by exact Hbs.
  assert (Hr : 0 <= b < 128) by (unfold renderable in Hb; lia).
  unfold utf8_enc1, valid_rune.
  destruct ((0 <=? b) && (b <? 55296) || (57344 <=? b) && (b <=? 1114111)) eqn:V; [|lia].
  destruct (b <? 128) eqn:L; [reflexivity | lia].
Qed.

Lemma rd_bytes_spec bs : forall rest, bs <> [] -> Forall (fun b => 0 <= b <= 255) bs ->
  rd_bytes (commas (map (fun b => [TNum (NInt b)]) bs) ++ TRBytes :: rest) = Some (bs, rest).
Proof.
  induction bs as [|b bs IH]; intros rest Hne Hr; [congruence|].
  inversion Hr as [|? ? Hb Hbs]; subst.
  assert (Eb : (0 <=? b) && (b <=? 255) = true) by lia.
  destruct bs as [|c bs'].
  - cbn [map commas app rd_bytes]. rewrite Eb. reflexivity.
  - cbn [map]. rewrite commas_cons. cbn [app rd_bytes]. rewrite Eb.
    change ([TNum (NInt c)] :: map (fun b => [TNum (NInt b)]) bs') with (map (fun b => [TNum (NInt b)]) (c :: bs')).
    rewrite IH; [reflexivity | discriminate | exact Hbs].
Qed.

Lemma rd_seq_bytes rv off ts :
  match ts with TStr _ :: _ => False | _ => True end ->
  rd_seq rv off (TLBytes :: ts) =
  match rd_bytes ts with Some (bs, r) => Some (mk_set (vseq_from n_byte off (map vint bs)), r) | None => None end.
Proof. destruct ts as [|t ts]; [reflexivity|]. destruct t; try contradiction; reflexivity. Qed.

Lemma rd_bytearr f l rest :
  set_shape l = ShBytes -> set_ok l = true -> forallb printable l = true ->
  rd (S f) (pr (VSet l) ++ rest) = Some (norm (VSet l), rest).
Proof.
  intros Sh Hok Hp.
  destruct (scalar_common l ShBytes n_byte Sh) as (i0 & c0 & cs' & Ez & Ev & Hr); [tauto | exact Hok | exact Hp |].
  specialize (Hr eq_refl).
  rewrite pr_vset. unfold pr_set. rewrite Sh.
  change (map (fun m => (mem_index m, mem_scalar m)) l) with (sc_items l). rewrite Ez.
  unfold pr_bytes. change (map snd ((i0, c0) :: cs')) with (c0 :: map snd cs'). rewrite <- app_assoc. rewrite rd_S_seq by exact I.
  destruct (forallb renderable (c0 :: map snd cs')) eqn:R.
  - cbn [app rd_seq]. rewrite utf8_enc_renderable by exact R. unfold mk_set. rewrite Ev. reflexivity.
  - cbn [app]. rewrite <- app_assoc. cbn [app]. rewrite rd_seq_bytes.
    + rewrite rd_bytes_spec; [|discriminate | exact Hr]. unfold mk_set. rewrite Ev. reflexivity.
    + destruct (map snd cs'); exact I.
Qed.

Lemma pr_cells_len_in p cs : forall prev, In p cs -> (length (pr (snd p)) <= length (pr_cells prev (map pr_cell cs)))%nat.
Proof.
  induction cs as [|[i x] cs IH]; intros prev Hin; [destruct Hin|].
  cbn [map pr_cell pr_cells fst snd]. rewrite !app_length. destruct Hin as [<-|Hin]; [cbn [snd]; lia|].
  specialize (IH i Hin). lia.
Qed.

Lemma combine_map_same {A B C} (g : A -> B) (h : A -> C) l : combine (map g l) (map h l) = map (fun m => (g m, h m)) l.
Proof. induction l as [|m l IH]; [reflexivity|]. cbn. f_equal. exact IH. Qed.

Section MainArr.
Variable f : nat.
Hypothesis IH : forall w rest, (length (pr w) <= f)%nat -> printable w = true -> follow_ok rest ->
                               rd f (pr w ++ rest) = Some (norm w, rest).

Lemma rd_arr l rest :
  set_shape l = ShArr -> (length (pr (VSet l)) <= S f)%nat -> set_ok l = true -> forallb printable l = true ->
  rd (S f) (pr (VSet l) ++ rest) = Some (norm (VSet l), rest).
Proof.
  intros Sh Hl Hok Hp.
  destruct (sugar_members l ShArr n_item Sh) as [Hne Hm]; [tauto|].
  assert (Hpt : forall m, In m l -> exists i x, m = VTup [(n_at, VNum (NInt i)); (n_item, x)] /\ printable x = true).
  { intros m Hin. destruct (Hm m Hin) as (k & x & ->).
    assert (Hpm := forallb_In _ _ _ Hp Hin). rewrite printable_tup in Hpm.
    apply andb_true_iff in Hpm as [Hpm Hfa]. apply andb_true_iff in Hpm as [Hsg _].
    change (sugar_ok [(n_at, k); (n_item, x)]) with (is_int k) in Hsg.
    destruct k as [[i|?]|?|?]; cbn in Hsg; try discriminate Hsg.
    cbn [forallb fst snd] in Hfa. apply andb_true_iff in Hfa as [_ Hfa]. apply andb_true_iff in Hfa as [Hfa _].
    apply andb_true_iff in Hfa as [_ Hx]. eauto. }
  assert (E1 : combine (map mem_index l) (map part2 (map pr_member l)) = map (on_snd pr) (arr_items l)).
  { rewrite map_map, combine_map_same. unfold arr_items. rewrite map_map. apply map_ext_in. intros m Hin.
    destruct (Hpt m Hin) as (i & x & -> & _). reflexivity. }
  assert (E2 : map norm l = map norm_cell (arr_items l)).
  { unfold arr_items. rewrite map_map. apply map_ext_in. intros m Hin. destruct (Hpt m Hin) as (i & x & -> & _). reflexivity. }
  assert (Hinc : increasing false (map fst (zsort (arr_items l))) = true).
  { unfold set_ok_gen in Hok. rewrite Sh in Hok. apply andb_true_iff in Hok as [_ Hok].
    replace (map (fun m => (mem_index m, tt)) l) with (map (on_snd (fun _ : val => tt)) (arr_items l)) in Hok
      by (unfold arr_items; rewrite map_map; reflexivity).
    rewrite zsort_map, map_fst_on_snd in Hok. exact Hok. }
  assert (Hitems : forall p, In p (arr_items l) -> printable (snd p) = true).
  { intros p Hin. unfold arr_items in Hin. apply in_map_iff in Hin as (m & <- & Hin).
    destruct (Hpt m Hin) as (i & x & -> & Hx). exact Hx. }
  rewrite pr_vset in *. unfold pr_set in *. rewrite Sh in *. rewrite E1, zsort_map in *.
  destruct (zsort (arr_items l)) as [|[i0 x0] cs'] eqn:Ez.
  { apply zsort_nil_inv in Ez. unfold arr_items in Ez. apply map_eq_nil in Ez. congruence. }
  assert (Hsub : forall p, In p ((i0, x0) :: cs') -> printable (snd p) = true).
  { intros p Hin. apply Hitems. eapply Permutation_in; [apply zsort_perm|]. rewrite Ez. exact Hin. }
  cbn [map] in *. unfold on_snd at 1 in Hl. unfold on_snd at 1. cbn [fst snd] in *.
  change (map (on_snd pr) cs') with (map pr_cell cs') in *.
  unfold pr_array in *. rewrite app_length in Hl. cbn [length] in Hl. rewrite !app_length in Hl. cbn [length] in Hl.
  cbn [incr_from map fst] in Hinc.
  assert (Hincr : incr_from i0 cs') by (apply increasing_incr; exact Hinc).
  rewrite <- app_assoc. rewrite rd_S_seq by exact I.
  cbn [app]. rewrite <- !app_assoc. cbn [app].
  assert (Hx0 : rd f (pr x0 ++ pr_cells i0 (map pr_cell cs') ++ TRBrack :: rest)
                = Some (norm x0, pr_cells i0 (map pr_cell cs') ++ TRBrack :: rest)).
  { apply IH; [lia | apply (Hsub (i0, x0)); left; reflexivity | apply (pr_cells_follow (rd f)); exact Hincr]. }
  destruct (pr_head x0) as (t & ts & E & Ht). rewrite E in Hx0 |- *. cbn [app] in Hx0 |- *.
  rewrite rd_seq_arr by exact Ht. unfold rd_arr_gen. rewrite Hx0.
  erewrite rd_cells_spec; [ | exact Hincr | | ].
  - unfold mk_set. cbn [norm]. rewrite E2. do 3 f_equal.
    change (vpair n_item (vint i0) (norm x0) :: map norm_cell cs') with (map norm_cell ((i0, x0) :: cs')).
    rewrite <- Ez. apply vsort_perm. apply Permutation_map. apply zsort_perm.
  - intros p Hin. apply (IH_reads f IH); [|apply Hsub; right; exact Hin].
    assert (H := pr_cells_len_in p cs' i0 Hin). lia.
  - rewrite app_length. cbn [length]. lia.
Qed.

End MainArr.

(* ---------- the round trip ---------- *)
Theorem rd_pr : forall f w rest,
  (length (pr w) <= f)%nat -> printable w = true -> follow_ok rest ->
  rd f (pr w ++ rest) = Some (norm w, rest).
Proof.
  induction f as [|f IH]; intros w rest Hl Hp Hf.
  - assert (H := pr_len_pos w). lia.
  - destruct w as [n|l|l].
    + cbn [pr norm]. apply rd_num. exact Hf.
    + apply rd_tuple; assumption.
    + rewrite printable_set in Hp. apply andb_true_iff in Hp as [Hok Hp].
      destruct (set_shape l) eqn:Sh.
      * destruct l; [reflexivity|]. unfold set_shape in Sh. destruct (is_true_set (v :: l)); [discriminate|].
        destruct (forallb _ l); [|discriminate]. destruct (member_bucket v); try discriminate.
        cbn in Sh. destruct (forallb is_ident names); discriminate.
      * assert (E : l = [VTup []]).
        { destruct l as [|m r]; [discriminate|]. unfold set_shape in Sh.
          destruct (is_true_set (m :: r)) eqn:T.
          - destruct m as [|[|]|]; try discriminate. destruct r; [reflexivity|discriminate].
          - destruct (forallb _ r); [|discriminate]. destruct (member_bucket m); try discriminate.
            cbn in Sh. destruct (forallb is_ident names); discriminate. }
        subst l. destruct rest as [|t rest]; [reflexivity|]. destruct t; try contradiction; reflexivity.
      * apply rd_generic; assumption.
      * apply rd_str; assumption.
      * apply rd_bytearr; assumption.
      * apply rd_arr; assumption.
      * apply rd_dict; assumption.
      * eapply rd_relation; eassumption.
Qed.

End Gen.

Theorem read_print_tokens w rest :
  printable w = true -> follow_ok rest -> read_tokens (pr w ++ rest) = Some (norm w, rest).
Proof.
  intros Hp Hf. unfold read_tokens. apply (rd_pr false); [rewrite app_length; lia | exact Hp | exact Hf].
Qed.

Theorem read_print_canonical v : Canon v -> printable v = true -> read_all (pr v) = Some v.
Proof.
  intros Hc Hp. unfold read_all. rewrite <- (app_nil_r (pr v)). rewrite read_print_tokens by (assumption || exact I).
  rewrite Hc. reflexivity.
Qed.

(* the same for the whole domain: strings, byte arrays and arrays (offsets, holes) included *)
Theorem read_print_tokens_all w rest :
  printable_all w = true -> follow_ok rest -> read_tokens (pr w ++ rest) = Some (norm w, rest).
Proof.
  intros Hp Hf. unfold read_tokens. apply (rd_pr true); [rewrite app_length; lia | exact Hp | exact Hf].
Qed.

Theorem read_print_canonical_all v : Canon v -> printable_all v = true -> read_all (pr v) = Some v.
Proof.
  intros Hc Hp. unfold read_all. rewrite <- (app_nil_r (pr v)). rewrite read_print_tokens_all by (assumption || exact I).
  rewrite Hc. reflexivity.
Qed.
