(* Corollaries of build_denotes_members used by Properties/C01.v. *)
From Arrai Require Import Base.Val Spec.SetAlg Rep.Builder Proofs.BuilderP Proofs.BuilderAllP.

Lemma set_builder_membership ms r :
  build ms = BOk r -> wf_members ms -> equal_sound_on ms ->
  forall v, In v (set_elems (abs r)) <-> exists m, In m ms /\ v = abs m.
Proof.
  intros Hb Hw Hs v. rewrite (build_denotes_members ms r Hb Hw Hs), mkset_elems, in_map_iff.
  split; intros [m [H1 H2]]; exists m; [split; [exact H2|symmetry; exact H1]|split; [symmetry; exact H2|exact H1]].
Qed.
