(* Array patterns of names, _ and literals (property C09): a successful match binds every name
   to the corresponding component, repeated names therefore agree, literals equal their
   component, and the array is dense, zero-based and exactly as long as the pattern. *)
From Arrai Require Import Base.Val Spec.SetAlg Eval.Interp Proofs.ValOrder Proofs.SetAlgP Proofs.PatternP.

Inductive leaf := LVar (x : name) | LWild | LLit (v : val).
Definition leaf_pat (l : leaf) : pat :=
  match l with LVar x => PVar x | LWild => PWild | LLit v => PExpr (ELit v) end.
Definition leaf_ok (sc : env) (l : leaf) (v : val) : Prop :=
  match l with
  | LVar x => env_get x sc = Some (D v)
  | LWild => True
  | LLit w => norm w = v
  end.
Definition flat_items (ls : list leaf) : list pitem := map (fun l => PItem (leaf_pat l) None) ls.

Lemma single_update acc y x acc' :
  env_matched_update acc [(y, D x)] = Some acc' ->
  env_get y acc' = Some (D x) /\ (forall z v, env_get z acc = Some v -> env_get z acc' = Some v).
Proof.
  intros H. split; [|intros z v; eapply matched_update_preserves; exact H].
  simpl in H. destruct (env_get y acc) as [[a|? ? ?]|] eqn:Ey; [| discriminate |].
  - destruct (veqb a x) eqn:Ev; [|discriminate]. injection H as <-. apply veqb_eq in Ev. subst. exact Ey.
  - injection H as <-. rewrite env_get_cons, name_eqb_refl. reflexivity.
Qed.

Lemma count_extras_flat ls : count_extras (flat_items ls) = 0%nat.
Proof. induction ls as [|l ls IH]; [reflexivity|]. unfold count_extras in *. simpl. exact IH. Qed.

Lemma leaf_bind fuel rho l x sc0 :
  bind_pat (S (S fuel)) rho (leaf_pat l) (D x) = Ok sc0 ->
  match l with
  | LVar y => sc0 = [(y, D x)]
  | LWild => sc0 = []
  | LLit w => sc0 = [] /\ norm w = x
  end.
Proof.
  destruct l as [y| |w]; simpl leaf_pat.
  - rewrite bind_var. intros [= <-]. reflexivity.
  - rewrite bind_wild. intros [= <-]. reflexivity.
  - rewrite bind_literal. destruct (veqb (norm w) x) eqn:E; [|discriminate]. intros [= <-].
    split; [reflexivity | apply veqb_eq, E].
Qed.

Theorem flat_array_pattern_sound fuel rho ls v sc :
  bind_pat (S (S (S fuel))) rho (PArr (flat_items ls)) (D v) = Ok sc ->
  exists xs, dense_array v = Some xs /\ Forall2 (leaf_ok sc) ls xs.
Proof.
  remember (S (S fuel)) as f eqn:Ef. cbn [bind_pat bindF]. cbn [as_data rbind].
  destruct (dense_array v) as [xs|]; [|discriminate].
  rewrite count_extras_flat. cbn [Nat.ltb Nat.leb].
  intros H. exists xs. split; [reflexivity|].
  revert H. generalize (existsb is_fallback (flat_items ls)) as hb. intros hb H.
  (* the loop: bindings only grow, each item is checked against its component *)
  match type of H with ?F (flat_items ls) xs [] = _ =>
    assert (G : forall ls xs acc sc, F (flat_items ls) xs acc = Ok sc ->
                (forall z w, env_get z acc = Some w -> env_get z sc = Some w) /\ Forall2 (leaf_ok sc) ls xs);
      [| exact (proj2 (G ls xs [] sc H))] end.
  clear H ls xs sc v. induction ls as [|l ls IH]; intros xs acc sc H.
  - simpl in H. destruct xs; [|destruct hb; discriminate]. injection H as <-. split; [auto | constructor].
  - simpl in H. destruct xs as [|x xs]; [discriminate|].
    destruct (bind_pat f rho (leaf_pat l) (D x)) as [sc0| | |] eqn:Eb; simpl in H; try discriminate.
    destruct (env_matched_update acc sc0) as [acc'|] eqn:Eu; simpl in H; [|discriminate].
    destruct (IH xs acc' sc H) as [Hkeep Hrest].
    subst f. apply leaf_bind in Eb.
    assert (Hacc : forall z w, env_get z acc = Some w -> env_get z acc' = Some w)
      by (intros z w; eapply matched_update_preserves; exact Eu).
    split; [intros z w Hz; apply Hkeep, Hacc, Hz|].
    constructor; [|exact Hrest].
    destruct l as [y| |w]; simpl.
    + subst sc0. apply Hkeep. exact (proj1 (single_update acc y x acc' Eu)).
    + exact I.
    + apply Eb.
Qed.

(* consequences in the words of the property *)
Corollary flat_array_pattern_length fuel rho ls v sc :
  bind_pat (S (S (S fuel))) rho (PArr (flat_items ls)) (D v) = Ok sc ->
  exists xs, dense_array v = Some xs /\ length xs = length ls.
Proof.
  intros H. destruct (flat_array_pattern_sound _ _ _ _ _ H) as (xs & Hd & F). exists xs. split; [exact Hd|].
  clear -F. induction F; simpl; congruence.
Qed.

Corollary repeated_name_components_equal fuel rho ls v sc x i j a b :
  bind_pat (S (S (S fuel))) rho (PArr (flat_items ls)) (D v) = Ok sc ->
  nth_error ls i = Some (LVar x) -> nth_error ls j = Some (LVar x) ->
  forall xs, dense_array v = Some xs -> nth_error xs i = Some a -> nth_error xs j = Some b -> a = b.
Proof.
  intros H Hi Hj xs Hd Ha Hb. destruct (flat_array_pattern_sound _ _ _ _ _ H) as (xs' & Hd' & F).
  assert (xs' = xs) by congruence. subst xs'.
  assert (K : forall k l y, nth_error ls k = Some l -> nth_error xs k = Some y -> leaf_ok sc l y).
  { clear -F. induction F as [|l0 y0 ls' xs' H0 F IH]; intros k l y; destruct k; simpl; try discriminate.
    - intros [= <-] [= <-]. exact H0.
    - apply IH. }
  pose proof (K i _ _ Hi Ha) as Ka. pose proof (K j _ _ Hj Hb) as Kb. simpl in Ka, Kb. congruence.
Qed.

(* and conversely: whenever some assignment of the names rebuilds the array from the pattern, the match succeeds *)
Definition leaf_rebuilds (s : name -> val) (l : leaf) (x : val) : Prop :=
  match l with LVar y => s y = x | LWild => True | LLit w => norm w = x end.

Theorem flat_array_pattern_complete fuel rho ls v xs (s : name -> val) :
  dense_array v = Some xs -> Forall2 (leaf_rebuilds s) ls xs ->
  exists sc, bind_pat (S (S (S fuel))) rho (PArr (flat_items ls)) (D v) = Ok sc.
Proof.
  intros Hd F. remember (S (S fuel)) as f eqn:Ef. cbn [bind_pat bindF]. cbn [as_data rbind].
  rewrite Hd, count_extras_flat. cbn [Nat.ltb Nat.leb].
  generalize (existsb is_fallback (flat_items ls)) as hb. intros hb.
  match goal with |- exists sc, ?GO (flat_items ls) xs [] = Ok sc =>
    assert (G : forall ls xs acc, Forall2 (leaf_rebuilds s) ls xs ->
                (forall z w, env_get z acc = Some w -> w = D (s z)) ->
                exists sc, GO (flat_items ls) xs acc = Ok sc);
      [| apply (G ls xs []); [exact F | intros z w Hz; discriminate Hz]] end.
  clear F Hd ls xs v. induction ls as [|l ls IH]; intros xs acc F Hacc.
  - inversion F. exists acc. reflexivity.
  - revert Ef. inversion F as [|? x ? xs' Hl Hrest]; subst. intros Ef. simpl.
    assert (Hb : exists sc0, bind_pat f rho (leaf_pat l) (D x) = Ok sc0 /\
                   forall y w, In (y, w) sc0 -> w = D (s y)).
    { rewrite Ef. destruct l as [y| |w]; simpl leaf_pat.
      - rewrite bind_var. eexists; split; [reflexivity|]. simpl in Hl. intros y' w' [[= <- <-]|[]]. congruence.
      - rewrite bind_wild. eexists; split; [reflexivity|]. intros ? ? [].
      - rewrite bind_literal. simpl in Hl. rewrite Hl.
        assert (E : veqb x x = true) by (apply veqb_eq; reflexivity). rewrite E.
        eexists; split; [reflexivity|]. intros ? ? []. }
    destruct Hb as (sc0 & -> & Hsc0). simpl.
    assert (Hu : exists acc', env_matched_update acc sc0 = Some acc' /\ forall z w, env_get z acc' = Some w -> w = D (s z)).
    { clear -Hacc Hsc0. revert acc Hacc. induction sc0 as [|[y w] sc0 IHs]; intros acc Hacc; simpl.
      - exists acc. split; [reflexivity | exact Hacc].
      - assert (Hw : w = D (s y)) by (apply Hsc0; left; reflexivity). subst w.
        destruct (env_get y acc) as [u|] eqn:Ey.
        + apply Hacc in Ey. subst u.
          assert (E : veqb (s y) (s y) = true) by (apply veqb_eq; reflexivity). rewrite E.
          apply IHs; [intros; apply Hsc0; right; assumption | exact Hacc].
        + apply IHs; [intros; apply Hsc0; right; assumption|].
          intros z w. rewrite env_get_cons. destruct (name_eqb z y) eqn:E; [|apply Hacc].
          apply name_eqb_eq in E. subst. intros [= <-]. reflexivity. }
    destruct Hu as (acc' & -> & Hacc'). simpl. apply IH; assumption.
Qed.

(* ---------- [p1, .., pk, ...r, q1, .., qm] ---------- *)

Definition arr_of (m : list val) : val :=
  mkset (map (fun p : Z * val => vitem (fst p) (snd p)) (combine (map Z.of_nat (seq 0 (length m))) m)).

Lemma count_extras_rest pre r suf :
  count_extras (flat_items pre ++ PExtra r :: flat_items suf) = 1%nat.
Proof.
  unfold count_extras. rewrite filter_app, app_length. simpl.
  pose proof (count_extras_flat pre) as H1. pose proof (count_extras_flat suf) as H2.
  unfold count_extras in H1, H2. rewrite H1, H2. reflexivity.
Qed.

Lemma flat_items_length ls : length (flat_items ls) = length ls.
Proof. unfold flat_items. apply map_length. Qed.

(* ...r captures precisely the unmatched remainder, as a zero-based array *)
Local Arguments Nat.ltb : simpl never.
Theorem rest_array_pattern_sound fuel rho pre r suf v sc :
  bind_pat (S (S (S fuel))) rho (PArr (flat_items pre ++ PExtra (Some r) :: flat_items suf)) (D v) = Ok sc ->
  exists xs a m b, dense_array v = Some xs /\ xs = a ++ m ++ b /\
    Forall2 (leaf_ok sc) pre a /\ Forall2 (leaf_ok sc) suf b /\ env_get r sc = Some (D (arr_of m)).
Proof.
  remember (S (S fuel)) as f eqn:Ef. cbn [bind_pat bindF]. cbn [as_data rbind].
  destruct (dense_array v) as [xs|]; [|discriminate].
  rewrite count_extras_rest. change (1 <? 1)%nat with false. cbv iota.
  intros H. exists xs.
  revert H. generalize (existsb is_fallback (flat_items pre ++ PExtra (Some r) :: flat_items suf)) as hb. intros hb H.
  match type of H with ?GO _ xs [] = _ =>
    assert (G : forall ls xs acc sc, GO (flat_items ls) xs acc = Ok sc ->
                (forall z w, env_get z acc = Some w -> env_get z sc = Some w) /\ Forall2 (leaf_ok sc) ls xs);
    [| assert (G2 : forall pre xs acc sc, GO (flat_items pre ++ PExtra (Some r) :: flat_items suf) xs acc = Ok sc ->
                (forall z w, env_get z acc = Some w -> env_get z sc = Some w) /\
                exists a m b, xs = a ++ m ++ b /\ Forall2 (leaf_ok sc) pre a /\ Forall2 (leaf_ok sc) suf b /\
                              env_get r sc = Some (D (arr_of m)));
       [| destruct (G2 pre xs [] sc H) as (_ & a & m & b & E & Fa & Fb & Hr); exists a, m, b; repeat split; assumption]] end.
  - (* the loop over names, _ and literals *)
    clear H pre suf xs sc v. induction ls as [|l ls IH]; intros xs acc sc H.
    + simpl in H. destruct xs; [|destruct hb; discriminate]. injection H as <-. split; [auto | constructor].
    + simpl in H. destruct xs as [|x xs]; [discriminate|].
      destruct (bind_pat f rho (leaf_pat l) (D x)) as [sc0| | |] eqn:Eb; simpl in H; try discriminate.
      destruct (env_matched_update acc sc0) as [acc'|] eqn:Eu; simpl in H; [|discriminate].
      destruct (IH xs acc' sc H) as [Hkeep Hrest].
      rewrite Ef in Eb. apply leaf_bind in Eb.
      assert (Hacc : forall z w, env_get z acc = Some w -> env_get z acc' = Some w)
        by (intros z w; eapply matched_update_preserves; exact Eu).
      split; [intros z w Hz; apply Hkeep, Hacc, Hz|].
      constructor; [|exact Hrest].
      destruct l as [y| |w]; simpl.
      * subst sc0. apply Hkeep. exact (proj1 (single_update acc y x acc' Eu)).
      * exact I.
      * apply Eb.
  - (* the prefix, then the rest item, then the suffix *)
    clear H xs sc v. induction pre0 as [|l pre0 IH]; intros xs acc sc H.
    + simpl in H. rewrite flat_items_length in H.
      destruct (length xs <? length suf)%nat eqn:El; [discriminate|]. apply Nat.ltb_ge in El.
      set (take := (length xs - length suf)%nat) in *.
      destruct (bind_pat f rho (PVar r) (D (mkset (map (fun p : Z * val => vitem (fst p) (snd p))
                   (combine (map Z.of_nat (seq 0 (length (firstn take xs)))) (firstn take xs))))))
        as [sc0| | |] eqn:Eb; simpl in H; try discriminate.
      destruct (env_matched_update acc sc0) as [acc'|] eqn:Eu; simpl in H; [|discriminate].
      destruct (G suf (skipn take xs) acc' sc H) as [Hkeep Hsuf].
      rewrite Ef, bind_var in Eb. injection Eb as <-.
      destruct (single_update acc r _ acc' Eu) as [Hr Hacc].
      split; [intros z w Hz; apply Hkeep, Hacc, Hz|].
      exists [], (firstn take xs), (skipn take xs). simpl.
      split; [symmetry; apply firstn_skipn|]. split; [constructor|]. split; [exact Hsuf|].
      apply Hkeep. exact Hr.
    + simpl in H. destruct xs as [|x xs]; [discriminate|].
      destruct (bind_pat f rho (leaf_pat l) (D x)) as [sc0| | |] eqn:Eb; simpl in H; try discriminate.
      destruct (env_matched_update acc sc0) as [acc'|] eqn:Eu; simpl in H; [|discriminate].
      destruct (IH xs acc' sc H) as (Hkeep & a & m & b & E & Fa & Fb & Hr).
      rewrite Ef in Eb. apply leaf_bind in Eb.
      assert (Hacc : forall z w, env_get z acc = Some w -> env_get z acc' = Some w)
        by (intros z w; eapply matched_update_preserves; exact Eu).
      split; [intros z w Hz; apply Hkeep, Hacc, Hz|].
      exists (x :: a), m, b. split; [simpl; rewrite E; reflexivity|]. split; [|split; assumption].
      constructor; [|exact Fa].
      destruct l as [y| |w]; simpl.
      * subst sc0. apply Hkeep. exact (proj1 (single_update acc y x acc' Eu)).
      * exact I.
      * apply Eb.
Qed.
