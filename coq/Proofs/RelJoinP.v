(* The positional join engine (Rep/RelJoin.v, transcribed from rel/value_set_relpos.go and
   rel/value_set_rel.go) refines the specification join of the reference semantics (property C04). *)
From Arrai Require Import Base.Val Spec.SetAlg Eval.Interp Proofs.ValOrder Proofs.SetAlgP Proofs.KeyedP Proofs.CanonP
  Proofs.RelP Proofs.PermP Proofs.PatternP Rep.RelJoin.
Local Open Scope nat_scope.

(* ---------- rows and sets of rows ---------- *)

Lemma row_eqb_eq a b : row_eqb a b = true <-> a = b.
Proof.
  revert b; induction a as [|x a IH]; intros [|y b]; simpl; try (split; congruence).
  rewrite andb_true_iff, veqb_eq, IH. split; [intros [-> ->]; reflexivity | intros H; injection H; auto].
Qed.

Lemma rs_has_in v s : rs_has v s = true <-> In v s.
Proof.
  unfold rs_has. rewrite existsb_exists. split.
  - intros (x & Hx & E). apply row_eqb_eq in E. subst; assumption.
  - intros H. exists v. split; [assumption | apply row_eqb_eq; reflexivity].
Qed.

Lemma rs_add_in s v x : In x (rs_add s v) <-> In x s \/ x = v.
Proof.
  unfold rs_add. destruct (rs_has v s) eqn:E.
  - apply rs_has_in in E. split; [auto | intros [H| ->]; assumption].
  - rewrite in_app_iff. simpl. intuition.
Qed.

Lemma rs_add_nodup s v : NoDup s -> NoDup (rs_add s v).
Proof.
  intros H. unfold rs_add. destruct (rs_has v s) eqn:E; [assumption|].
  assert (Hn : ~ In v s) by (rewrite <- rs_has_in, E; discriminate).
  clear E. induction H as [|y s Hy Hs IH]; simpl.
  - constructor; [intros [] | constructor].
  - constructor.
    + rewrite in_app_iff. simpl. intros [H|[H|[]]]; [contradiction | subst; apply Hn; left; reflexivity].
    + apply IH. intros H; apply Hn; right; assumption.
Qed.

Lemma rs_fold_in l : forall acc x, In x (fold_left rs_add l acc) <-> In x acc \/ In x l.
Proof.
  induction l as [|v l IH]; intros acc x; simpl; [intuition|].
  rewrite IH, rs_add_in. intuition.
Qed.

Lemma rs_fold_nodup l : forall acc, NoDup acc -> NoDup (fold_left rs_add l acc).
Proof. induction l as [|v l IH]; intros acc H; simpl; [assumption | apply IH, rs_add_nodup, H]. Qed.

Lemma rs_of_list_in l x : In x (rs_of_list l) <-> In x l.
Proof. unfold rs_of_list. rewrite rs_fold_in. simpl. intuition. Qed.

Lemma rs_of_list_nodup l : NoDup (rs_of_list l).
Proof. apply rs_fold_nodup. constructor. Qed.

(* ---------- projectors ---------- *)

Lemma pmem_in i p : pmem i p = true <-> In i p.
Proof.
  unfold pmem. rewrite existsb_exists. split.
  - intros (x & Hx & E). apply Nat.eqb_eq in E. subst; assumption.
  - intros H. exists i. split; [assumption | apply Nat.eqb_refl].
Qed.

Lemma isSub_spec p q : isSubProjection p q = true <-> forall i, In i p -> In i q.
Proof.
  unfold isSubProjection. rewrite forallb_forall. split; intros H i Hi.
  - apply pmem_in, H, Hi.
  - apply pmem_in, H, Hi.
Qed.

Lemma hasCommon_spec p q : hasCommonIndices p q = true <-> exists i, In i p /\ In i q.
Proof.
  unfold hasCommonIndices. destruct (length q <? length p); rewrite existsb_exists.
  - split; [intros (i & Hi & E); apply pmem_in in E; eauto | intros (i & H1 & H2); exists i; split; [|apply pmem_in]; assumption].
  - split; [intros (i & Hi & E); apply pmem_in in E; eauto | intros (i & H1 & H2); exists i; split; [|apply pmem_in]; assumption].
Qed.

Lemma proj_eqb_eq p q : proj_eqb p q = true <-> p = q.
Proof.
  revert q; induction p as [|a p IH]; intros [|b q]; simpl; try (split; congruence).
  rewrite andb_true_iff, Nat.eqb_eq, IH. split; [intros [-> ->]; reflexivity | intros H; injection H; auto].
Qed.

Lemma contiguous_seq a p : isContiguous (a :: p) = true -> a :: p = seq a (S (length p)).
Proof.
  revert a; induction p as [|b p IH]; intros a H; [reflexivity|].
  cbn [isContiguous] in H. apply andb_true_iff in H as [E H]. apply Nat.eqb_eq in E. subst b.
  cbn [seq length]. f_equal. apply IH, H.
Qed.

Lemma last_seq a n : last (seq a (S n)) 0 = a + n.
Proof.
  revert a; induction n as [|n IH]; intros a; [simpl; lia|].
  change (seq a (S (S n))) with (a :: seq (S a) (S n)).
  assert (E : forall x l, l <> [] -> last (x :: l) 0 = last l 0) by (intros x [|y l] H; [congruence | reflexivity]).
  rewrite E by (simpl; discriminate). rewrite IH. lia.
Qed.

Lemma slice_pick (v : row) a n : a + n <= length v -> firstn n (skipn a v) = pick (seq a n) v.
Proof.
  revert v n; induction a as [|a IH]; intros v n H.
  - simpl skipn. revert v H; induction n as [|n IHn]; intros v H; [reflexivity|].
    destruct v as [|x v]; [simpl in H; lia|]. unfold pick in *. simpl. f_equal.
    rewrite (IHn v) by (simpl in H; lia). rewrite <- seq_shift, map_map. reflexivity.
  - destruct v as [|x v]; [simpl in H; lia|]. simpl skipn. rewrite IH by (simpl in H; lia).
    unfold pick. rewrite <- seq_shift, map_map. reflexivity.
Qed.

Definition inrange (p : vproj) (w : nat) : Prop := forall i, In i p -> i < w.

Lemma contiguous_slice p (v : row) :
  p <> [] -> isContiguous p = true -> inrange p (length v) -> slice v (hd 0 p) (last p 0 + 1) = pick p v.
Proof.
  destruct p as [|a p]; [congruence|]. intros _ Hc Hr.
  pose proof (contiguous_seq _ _ Hc) as E.
  assert (Hl : last (a :: p) 0 = a + length p) by (rewrite E at 1; apply last_seq).
  assert (Hin : In (a + length p) (a :: p)) by (rewrite E; apply in_seq; lia).
  apply Hr in Hin. unfold slice. rewrite Hl. cbn [hd].
  replace (a + length p + 1 - a) with (S (length p)) by lia.
  rewrite slice_pick by lia. rewrite <- E. reflexivity.
Qed.

Lemma pv_values_pick p (v : row) : inrange p (length v) -> pv_values p v = pick p v.
Proof.
  intros Hr. unfold pv_values. destruct p as [|a p]; [reflexivity|].
  cbn [length Nat.eqb orb]. destruct (length v =? 0) eqn:E.
  - apply Nat.eqb_eq in E. specialize (Hr a (or_introl eq_refl)). lia.
  - destruct (isContiguous (a :: p)) eqn:Hc; [|reflexivity].
    apply contiguous_slice; [discriminate | assumption | assumption].
Qed.

Lemma mapper_key_pick p (v : row) : p <> [] -> inrange p (length v) -> mapper_key p v = pick p v.
Proof.
  intros Hp Hr. unfold mapper_key. destruct (isContiguous p) eqn:Hc; [|reflexivity].
  apply contiguous_slice; assumption.
Qed.

Lemma pick_length p (v : row) : length (pick p v) = length p.
Proof. apply map_length. Qed.

Lemma pick_seq_id (v : row) : pick (seq 0 (length v)) v = v.
Proof.
  unfold pick. induction v as [|x v IH]; [reflexivity|].
  cbn [length seq map nth]. f_equal. rewrite <- seq_shift, map_map. exact IH.
Qed.

Lemma pick_pick p q (v : row) : inrange q (length p) -> pick q (pick p v) = pick (map (fun i => nth i p 0) q) v.
Proof.
  intros Hr. unfold pick. rewrite map_map. apply map_ext_in. intros i Hi.
  rewrite (nth_indep _ cell0 ((fun i => nth i v cell0) 0)) by (rewrite map_length; apply Hr, Hi).
  rewrite (map_nth (fun i => nth i v cell0)). reflexivity.
Qed.

(* ---------- groupBy ---------- *)

  Lemma gm_add_keys k v m x : In x (map fst (gm_add k v m)) <-> In x (map fst m) \/ x = k.
  Proof.
    induction m as [|[k' s] m IH]; simpl; [intuition|].
    destruct (row_eqb k k') eqn:E; simpl.
    - apply row_eqb_eq in E. subst. intuition.
    - rewrite IH. intuition.
  Qed.

  Lemma gm_add_in k v m k1 s1 :
    In (k1, s1) (gm_add k v m) ->
    In (k1, s1) m \/ (k1 = k /\ s1 = [v] /\ ~ In k (map fst m)) \/ (k1 = k /\ exists s0, In (k, s0) m /\ s1 = rs_add s0 v).
  Proof.
    induction m as [|[k' s] m IH]; simpl.
    - intros [H|[]]. injection H as <- <-. right; left. intuition.
    - destruct (row_eqb k k') eqn:E.
      + apply row_eqb_eq in E. subst k'. intros [H|H].
        * injection H as <- <-. right; right. split; [reflexivity|]. exists s. split; [left; reflexivity | reflexivity].
        * left; right; assumption.
      + assert (Hne : k' <> k) by (intros ->; rewrite (proj2 (row_eqb_eq k k) eq_refl) in E; discriminate).
        intros [H|H]; [left; left; assumption|].
        apply IH in H as [H|[(-> & -> & Hn)|(-> & s0 & Hs0 & ->)]].
        * left; right; assumption.
        * right; left. repeat split; try reflexivity. intros [Hk|Hk]; [apply Hne, Hk | apply Hn, Hk].
        * right; right. split; [reflexivity|]. exists s0. split; [right; assumption | reflexivity].
  Qed.

  Lemma gm_add_has k v m : exists s, In (k, s) (gm_add k v m) /\ In v s.
  Proof.
    induction m as [|[k' s] m IH]; simpl.
    - exists [v]. split; left; reflexivity.
    - destruct (row_eqb k k') eqn:E.
      + apply row_eqb_eq in E. subst k'. exists (rs_add s v). split; [left; reflexivity | apply rs_add_in; right; reflexivity].
      + destruct IH as (s0 & H1 & H2). exists s0. split; [right; assumption | assumption].
  Qed.

  Lemma gm_add_mono k v m k1 s1 : In (k1, s1) m -> exists s2, In (k1, s2) (gm_add k v m) /\ forall x, In x s1 -> In x s2.
  Proof.
    induction m as [|[k' s] m IH]; simpl; [intros []|].
    destruct (row_eqb k k') eqn:E.
    - apply row_eqb_eq in E. subst k'. intros [H|H].
      + injection H as <- <-. exists (rs_add s v). split; [left; reflexivity | intros x Hx; apply rs_add_in; left; assumption].
      + exists s1. split; [right; assumption | auto].
    - intros [H|H].
      + exists s1. split; [left; assumption | auto].
      + destruct (IH H) as (s2 & H1 & H2). exists s2. split; [right; assumption | assumption].
  Qed.

  Lemma gm_add_nodup k v m : NoDup (map fst m) -> NoDup (map fst (gm_add k v m)).
  Proof.
    induction m as [|[k' s] m IH]; simpl; intros H.
    - constructor; [intros [] | constructor].
    - destruct (row_eqb k k') eqn:E; simpl; [assumption|].
      inversion H as [|? ? Hn Hm]; subst. constructor; [|apply IH, Hm].
      rewrite gm_add_keys. intros [H1| ->]; [contradiction|].
      rewrite (proj2 (row_eqb_eq k k) eq_refl) in E. discriminate.
  Qed.

Section GroupBy.
  Variable key : row -> row.

  Definition gm_inv (m : gmap) (P : row -> Prop) : Prop :=
    NoDup (map fst m)
    /\ (forall k s, In (k, s) m -> forall v, In v s -> P v /\ key v = k)
    /\ (forall v, P v -> exists s, In (key v, s) m /\ In v s).

  Lemma gm_add_inv m P v : gm_inv m P -> gm_inv (gm_add (key v) v m) (fun x => P x \/ x = v).
  Proof.
    intros (Hnd & Hs & Hc). split; [apply gm_add_nodup, Hnd|]. split.
    - intros k s Hin x Hx. apply gm_add_in in Hin as [Hin|[(-> & -> & _)|(-> & s0 & Hs0 & ->)]].
      + destruct (Hs k s Hin x Hx) as [H1 H2]. split; [left; assumption | assumption].
      + destruct Hx as [<-|[]]. split; [right; reflexivity | reflexivity].
      + apply rs_add_in in Hx as [Hx| ->].
        * destruct (Hs _ _ Hs0 x Hx) as [H1 H2]. split; [left; assumption | assumption].
        * split; [right; reflexivity | reflexivity].
    - intros x [Hx| ->].
      + destruct (Hc x Hx) as (s & H1 & H2). destruct (gm_add_mono (key v) v m _ _ H1) as (s2 & H3 & H4).
        exists s2. split; [assumption | apply H4, H2].
      + apply gm_add_has.
  Qed.

  Lemma gm_fold_inv rest : forall m P,
    gm_inv m P -> gm_inv (fold_left (fun m v => gm_add (key v) v m) rest m) (fun x => P x \/ In x rest).
  Proof.
    induction rest as [|v rest IH]; intros m P H; simpl.
    - destruct H as (H1 & H2 & H3). split; [assumption|]. split.
      + intros k s Hin x Hx. destruct (H2 k s Hin x Hx). split; [left; assumption | assumption].
      + intros x [Hx|[]]. apply H3, Hx.
    - pose proof (IH _ _ (gm_add_inv m P v H)) as (H1 & H2 & H3). split; [assumption|]. split.
      + intros k s Hin x Hx. destruct (H2 k s Hin x Hx) as [[[Hp|Hp]|Hp] Hk]; split; auto.
      + intros x [Hx|[Hx|Hx]]; apply H3; auto.
  Qed.
End GroupBy.

Lemma fold_left_ext_in {A B} (f g : A -> B -> A) l : (forall a x, In x l -> f a x = g a x) ->
  forall a, fold_left f l a = fold_left g l a.
Proof.
  induction l as [|x l IH]; intros H a; simpl; [reflexivity|].
  rewrite (H a x (or_introl eq_refl)). apply IH. intros a' y Hy. apply H. right; assumption.
Qed.

(* all rows of a positional relation have width w *)
Definition width_is (rows : list row) (w : nat) : Prop := forall v, In v rows -> length v = w.

Lemma groupBy_inv rows p w : width_is rows w -> inrange p w -> gm_inv (pick p) (groupBy rows p) (fun v => In v rows).
Proof.
  intros Hw Hr. unfold groupBy. destruct p as [|a p].
  - cbn [length Nat.eqb]. split; [constructor; [intros [] | constructor]|]. split.
    + intros k s [H|[]] v Hv. injection H as <- <-. split; [assumption | reflexivity].
    + intros v Hv. exists rows. split; [left; reflexivity | assumption].
  - cbn [length Nat.eqb].
    rewrite (fold_left_ext_in _ (fun m v => gm_add (pick (a :: p) v) v m)).
    + pose proof (gm_fold_inv (pick (a :: p)) rows [] (fun _ => False)) as H.
      destruct H as (H1 & H2 & H3).
      { split; [constructor|]. split; [intros k s [] | intros v []]. }
      split; [assumption|]. split.
      * intros k s Hin v Hv. destruct (H2 k s Hin v Hv) as [[[]|Hp] Hk]. split; assumption.
      * intros v Hv. apply H3. right; assumption.
    + intros m v Hv. rewrite mapper_key_pick; [reflexivity | discriminate | rewrite (Hw v Hv); exact Hr].
Qed.

Lemma gm_get_in k m s : gm_get k m = Some s -> In (k, s) m.
Proof.
  induction m as [|[k' s'] m IH]; simpl; [discriminate|].
  destruct (row_eqb k k') eqn:E.
  - apply row_eqb_eq in E. subst. intros H; injection H as ->. left; reflexivity.
  - intros H. right. apply IH, H.
Qed.

Lemma in_gm_get k m s : NoDup (map fst m) -> In (k, s) m -> gm_get k m = Some s.
Proof.
  induction m as [|[k' s'] m IH]; simpl; [intros _ []|].
  intros Hnd [H|H].
  - injection H as -> ->. rewrite (proj2 (row_eqb_eq k k) eq_refl). reflexivity.
  - inversion Hnd as [|? ? Hn Hm]; subst. destruct (row_eqb k k') eqn:E.
    + apply row_eqb_eq in E. subst k'. exfalso. apply Hn. apply (in_map fst) in H. exact H.
    + apply IH; assumption.
Qed.

Lemma gm_fold_nonempty (f : row -> row) rest : forall m, (forall k s, In (k, s) m -> s <> []) ->
  forall k s, In (k, s) (fold_left (fun m v => gm_add (f v) v m) rest m) -> s <> [].
Proof.
  induction rest as [|v rest IH]; intros m Hm k0 s0 Hin; simpl in Hin; [eapply Hm; exact Hin|].
  eapply IH; [|exact Hin]. intros k1 s1 H1. apply gm_add_in in H1 as [H1|[(_ & -> & _)|(_ & s2 & _ & ->)]].
  - eapply Hm; exact H1.
  - discriminate.
  - intros Hx. assert (Hv : In v (rs_add s2 v)) by (apply rs_add_in; right; reflexivity). rewrite Hx in Hv. destruct Hv.
Qed.

(* a key is present exactly when some row projects onto it *)
Lemma groupBy_has rows p w k : rows <> [] -> width_is rows w -> inrange p w ->
  gm_has k (groupBy rows p) = true <-> exists v, In v rows /\ pick p v = k.
Proof.
  intros Hne Hw Hr. pose proof (groupBy_inv rows p w Hw Hr) as (Hnd & Hs & Hc).
  unfold gm_has. split.
  - destruct (gm_get k (groupBy rows p)) as [s|] eqn:E; [intros _ | discriminate].
    apply gm_get_in in E. destruct s as [|v s].
    + (* an empty group only exists for the empty projector over no rows *)
      exfalso. unfold groupBy in E. destruct p as [|a p]; cbn [length Nat.eqb] in E.
      * destruct E as [E|[]]. injection E as _ E. apply Hne. exact E.
      * destruct rows as [|v0 rows]; [contradiction|].
        destruct (Hc v0 (or_introl eq_refl)) as (s0 & _ & _).
        eapply gm_fold_nonempty in E; [congruence | intros ? ? []].
    + destruct (Hs k _ E v (or_introl eq_refl)) as [H1 H2]. exists v. split; assumption.
  - intros (v & Hv & <-). destruct (Hc v Hv) as (s & H1 & _).
    rewrite (in_gm_get _ _ _ Hnd H1). reflexivity.
Qed.

(* ---------- the four strategies ---------- *)

Section Strategies.
  Variables (r r2 : list row) (w1 w2 : nat) (lk rk lo ro : vproj).
  Hypothesis Hw1 : width_is r w1.
  Hypothesis Hw2 : width_is r2 w2.
  Hypothesis Hne1 : r <> [].
  Hypothesis Hne2 : r2 <> [].
  Hypothesis Hlk : inrange lk w1.
  Hypothesis Hlo : inrange lo w1.
  Hypothesis Hrk : inrange rk w2.
  Hypothesis Hro : inrange ro w2.

  Definition matching (t u : row) : Prop := In t r /\ In u r2 /\ pick lk t = pick rk u.

  Lemma pvL p t : inrange p w1 -> In t r -> pv_values p t = pick p t.
  Proof. intros Hp Ht. apply pv_values_pick. rewrite (Hw1 t Ht). exact Hp. Qed.
  Lemma pvR p u : inrange p w2 -> In u r2 -> pv_values p u = pick p u.
  Proof. intros Hp Hu. apply pv_values_pick. rewrite (Hw2 u Hu). exact Hp. Qed.

  Lemma keepEverything_spec x :
    In x (joinKeepEverything r r2 lk rk lo ro) <-> exists t u, matching t u /\ x = pick lo t ++ pick ro u.
  Proof.
    pose proof (groupBy_inv r lk w1 Hw1 Hlk) as (Hnd1 & Hs1 & Hc1).
    pose proof (groupBy_inv r2 rk w2 Hw2 Hrk) as (Hnd2 & Hs2 & Hc2).
    unfold joinKeepEverything. rewrite rs_of_list_in, in_flat_map. split.
    - intros ([k ls] & He & Hx). cbn [fst snd] in Hx.
      destruct (gm_get k (groupBy r2 rk)) as [rs|] eqn:E; [|destruct Hx].
      apply gm_get_in in E. apply in_flat_map in Hx as (t & Ht & Hx). apply in_map_iff in Hx as (u & <- & Hu).
      destruct (Hs1 _ _ He t Ht) as [Ht1 Ht2]. destruct (Hs2 _ _ E u Hu) as [Hu1 Hu2].
      exists t, u. split; [split; [assumption | split; [assumption | congruence]]|].
      rewrite (pvL lo t Hlo Ht1), (pvR ro u Hro Hu1). reflexivity.
    - intros (t & u & (Ht & Hu & Hk) & ->).
      destruct (Hc1 t Ht) as (ls & H1 & H2). destruct (Hc2 u Hu) as (rs & H3 & H4).
      exists (pick lk t, ls). split; [assumption|]. cbn [fst snd].
      rewrite Hk. rewrite (in_gm_get _ _ _ Hnd2 H3).
      apply in_flat_map. exists t. split; [assumption|]. apply in_map_iff. exists u. split; [|assumption].
      rewrite (pvL lo t Hlo Ht), (pvR ro u Hro Hu). reflexivity.
  Qed.

  Lemma ifCommonExist_spec :
    joinIfCommonExist r r2 lk rk = [[]] /\ (exists t u, matching t u)
    \/ joinIfCommonExist r r2 lk rk = [] /\ ~ (exists t u, matching t u).
  Proof.
    unfold joinIfCommonExist. destruct (length r2 <? length r).
    - destruct (existsb _ r) eqn:E.
      + left. split; [reflexivity|]. apply existsb_exists in E as (t & Ht & E).
        rewrite (pvL lk t Hlk Ht) in E. apply (groupBy_has r2 rk w2 _ Hne2 Hw2 Hrk) in E as (u & Hu & Hk).
        exists t, u. split; [assumption | split; [assumption | congruence]].
      + right. split; [reflexivity|]. intros (t & u & Ht & Hu & Hk).
        assert (X : existsb (fun v => gm_has (pv_values lk v) (groupBy r2 rk)) r = true); [|congruence].
        apply existsb_exists. exists t. split; [assumption|]. rewrite (pvL lk t Hlk Ht).
        apply (groupBy_has r2 rk w2 _ Hne2 Hw2 Hrk). exists u. split; [assumption | congruence].
    - destruct (existsb _ r2) eqn:E.
      + left. split; [reflexivity|]. apply existsb_exists in E as (u & Hu & E).
        rewrite (pvR rk u Hrk Hu) in E. apply (groupBy_has r lk w1 _ Hne1 Hw1 Hlk) in E as (t & Ht & Hk).
        exists t, u. split; [assumption | split; [assumption | congruence]].
      + right. split; [reflexivity|]. intros (t & u & Ht & Hu & Hk).
        assert (X : existsb (fun v => gm_has (pv_values rk v) (groupBy r lk)) r2 = true); [|congruence].
        apply existsb_exists. exists u. split; [assumption|]. rewrite (pvR rk u Hrk Hu).
        apply (groupBy_has r lk w1 _ Hne1 Hw1 Hlk). exists t. split; [assumption | congruence].
  Qed.
End Strategies.

Lemma keys_has k m : NoDup (map fst m) -> (In k (map fst m) <-> gm_has k m = true).
Proof.
  intros Hnd. unfold gm_has. split.
  - intros H. apply in_map_iff in H as ([k' s] & <- & H). cbn [fst]. rewrite (in_gm_get _ _ _ Hnd H). reflexivity.
  - destruct (gm_get k m) as [s|] eqn:E; [intros _ | discriminate].
    apply gm_get_in in E. apply (in_map fst) in E. exact E.
Qed.

Lemma joinOneSide_spec base other w wo key okey output :
  width_is base w -> base <> [] -> NoDup base -> width_is other wo -> other <> [] ->
  inrange key w -> inrange output w -> inrange okey wo ->
  exists rows, joinOneSide base (groupBy other okey) key output = JOk rows /\ NoDup rows /\
    forall x, In x rows <-> exists t u, In t base /\ In u other /\ pick key t = pick okey u /\ x = pick output t.
Proof.
  intros Hw Hne Hnd Hwo Hneo Hk Ho Hok.
  assert (Hhas : forall t, In t base ->
            (gm_has (pv_values key t) (groupBy other okey) = true <-> exists u, In u other /\ pick okey u = pick key t)).
  { intros t Ht. rewrite pv_values_pick by (rewrite (Hw t Ht); exact Hk).
    apply (groupBy_has other okey wo _ Hneo Hwo Hok). }
  unfold joinOneSide. destruct base as [|any base'] eqn:Eb; [congruence|]. rewrite <- Eb in *.
  assert (Hany : length any = w) by (apply Hw; rewrite Eb; left; reflexivity).
  rewrite Hany. destruct (isIdentity output w) eqn:Eid.
  - apply proj_eqb_eq in Eid. eexists. split; [reflexivity|]. split; [apply NoDup_filter, Hnd|].
    intros x. rewrite filter_In. split.
    + intros [Hx Hh]. apply (Hhas x Hx) in Hh as (u & Hu & Hku). exists x, u. repeat split; try assumption; [congruence|].
      rewrite Eid, <- (Hw x Hx). symmetry. apply pick_seq_id.
    + intros (t & u & Ht & Hu & Hku & ->). rewrite Eid, <- (Hw t Ht), pick_seq_id. split; [assumption|].
      apply (Hhas t Ht). exists u. split; [assumption | congruence].
  - eexists. split; [reflexivity|]. split; [apply rs_of_list_nodup|].
    intros x. rewrite rs_of_list_in, in_flat_map. split.
    + intros (t & Ht & Hx). destruct (gm_has _ _) eqn:Hh in Hx; [|destruct Hx].
      destruct Hx as [<-|[]]. apply (Hhas t Ht) in Hh as (u & Hu & Hku).
      exists t, u. repeat split; try assumption; [congruence|].
      apply pv_values_pick. rewrite (Hw t Ht). exact Ho.
    + intros (t & u & Ht & Hu & Hku & ->). exists t. split; [assumption|].
      assert (Hh : gm_has (pv_values key t) (groupBy other okey) = true) by (apply (Hhas t Ht); exists u; split; [assumption | congruence]).
      rewrite Hh. left. apply pv_values_pick. rewrite (Hw t Ht). exact Ho.
Qed.

Lemma find_last_nat_spec x l : forall i0 acc,
  match find_last_nat x l i0 acc with
  | Some j => acc = Some j \/ (i0 <= j /\ nth_error l (j - i0) = Some x)
  | None => acc = None /\ ~ In x l
  end.
Proof.
  induction l as [|y l IH]; intros i0 acc; simpl.
  - destruct acc; [left; reflexivity | split; [reflexivity | intros []]].
  - specialize (IH (S i0) (if x =? y then Some i0 else acc)).
    destruct (find_last_nat x l (S i0) (if x =? y then Some i0 else acc)) as [j|].
    + destruct IH as [IH|[Hle Hn]].
      * destruct (x =? y) eqn:E; [|left; exact IH].
        apply Nat.eqb_eq in E. subst y. injection IH as <-. right. split; [lia|]. rewrite Nat.sub_diag. reflexivity.
      * right. split; [lia|]. replace (j - i0) with (S (j - S i0)) by lia. exact Hn.
    + destruct IH as [IH Hn]. destruct (x =? y) eqn:E; [discriminate|]. split; [exact IH|].
      intros [->|H]; [rewrite Nat.eqb_refl in E; discriminate | contradiction].
Qed.

Lemma remap_spec key value : (forall i, In i value -> In i key) ->
  exists output, mapM_opt (fun index => find_last_nat index key 0 None) value = Some output
    /\ inrange output (length key) /\ map (fun i => nth i key 0) output = value.
Proof.
  induction value as [|x value IH]; intros H.
  - exists []. repeat split. intros i [].
  - destruct IH as (out & E & Hr & Hm); [intros i Hi; apply H; right; assumption|].
    pose proof (find_last_nat_spec x key 0 None) as F.
    cbn [mapM_opt]. destruct (find_last_nat x key 0 None) as [j|].
    + destruct F as [F|[_ Hn]]; [discriminate|]. rewrite Nat.sub_0_r in Hn. rewrite E.
      exists (j :: out). split; [reflexivity|]. split.
      * intros i [<-|Hi]; [apply nth_error_Some; congruence | apply Hr, Hi].
      * cbn [map]. rewrite Hm. f_equal. apply nth_error_nth. exact Hn.
    + destruct F as [_ F]. exfalso. apply F, H. left; reflexivity.
Qed.

Section Strategies2.
  Variables (r r2 : list row) (w1 w2 : nat) (lk rk lo ro : vproj).
  Hypothesis Hw1 : width_is r w1.
  Hypothesis Hw2 : width_is r2 w2.
  Hypothesis Hne1 : r <> [].
  Hypothesis Hne2 : r2 <> [].
  Hypothesis Hlk : inrange lk w1.
  Hypothesis Hrk : inrange rk w2.

  Lemma common_keys k :
    In k (filter (fun k => gm_has k (groupBy r2 rk)) (map fst (groupBy r lk)))
    <-> exists t u, matching r r2 lk rk t u /\ k = pick lk t.
  Proof.
    pose proof (groupBy_inv r lk w1 Hw1 Hlk) as (Hnd1 & _ & _).
    rewrite filter_In, (keys_has _ _ Hnd1), (groupBy_has r lk w1 _ Hne1 Hw1 Hlk), (groupBy_has r2 rk w2 _ Hne2 Hw2 Hrk).
    split.
    - intros [(t & Ht & Hkt) (u & Hu & Hku)]. exists t, u. split; [split; [assumption | split; [assumption | congruence]] | congruence].
    - intros (t & u & (Ht & Hu & Hk) & ->). split; [exists t | exists u]; split; congruence || assumption.
  Qed.

  (* JoinCommonOnly returns the chosen output columns of every key present on both sides *)
  Lemma commonOnly_spec :
    (lo = [] -> forall i, In i ro -> In i rk) -> (lo <> [] -> forall i, In i lo -> In i lk) ->
    exists rows, joinCommonOnly r r2 lk rk lo ro = JOk rows /\ NoDup rows /\
      forall x, In x rows <-> exists t u, matching r r2 lk rk t u /\ x = match lo with [] => pick ro u | _ => pick lo t end.
  Proof.
    intros HR HL. unfold joinCommonOnly.
    set (keys := filter (fun k => gm_has k (groupBy r2 rk)) (map fst (groupBy r lk))).
    assert (Hkeys : forall k, In k keys <-> exists t u, matching r r2 lk rk t u /\ k = pick lk t) by apply common_keys.
    assert (G : forall key value, (forall i, In i value -> In i key) ->
              forall sel : row -> row -> row,
              (forall t u, matching r r2 lk rk t u -> pick key (sel t u) = pick lk t) ->
              exists rows, (if proj_eqb key value then JOk (rs_of_list keys)
                            else match mapM_opt (fun index => find_last_nat index key 0 None) value with
                                 | None => JPanic P_invalid_output
                                 | Some output => JOk (rs_of_list (map (fun k => pv_values output k) keys))
                                 end) = JOk rows /\ NoDup rows /\
                forall x, In x rows <-> exists t u, matching r r2 lk rk t u /\ x = pick value (sel t u)).
    { intros key value Hsub sel Hsel. destruct (proj_eqb key value) eqn:E.
      - apply proj_eqb_eq in E. subst value. eexists. split; [reflexivity|]. split; [apply rs_of_list_nodup|].
        intros x. rewrite rs_of_list_in, Hkeys. split; intros (t & u & Hm & ->); exists t, u; (split; [assumption|]).
        + symmetry. apply Hsel, Hm.
        + apply Hsel, Hm.
      - destruct (remap_spec key value Hsub) as (output & -> & Hr & Hmap).
        eexists. split; [reflexivity|]. split; [apply rs_of_list_nodup|].
        intros x. rewrite rs_of_list_in, in_map_iff.
        assert (Hrow : forall t u, matching r r2 lk rk t u -> pv_values output (pick lk t) = pick value (sel t u)).
        { intros t u Hm. rewrite pv_values_pick by (rewrite <- (Hsel t u Hm), pick_length; exact Hr).
          rewrite <- (Hsel t u Hm), pick_pick by exact Hr. rewrite Hmap. reflexivity. }
        split.
        + intros (k & <- & Hk). apply Hkeys in Hk as (t & u & Hm & ->). exists t, u. split; [assumption | apply Hrow, Hm].
        + intros (t & u & Hm & ->). exists (pick lk t). split; [apply Hrow, Hm | apply Hkeys; exists t, u; split; [assumption | reflexivity]]. }
    destruct lo as [|a lo'].
    - cbn [length Nat.eqb]. apply (G rk ro (HR eq_refl) (fun _ u => u)).
      intros t u (_ & _ & Hk). symmetry; exact Hk.
    - cbn [length Nat.eqb]. apply (G lk (a :: lo') (HL ltac:(discriminate)) (fun t _ => t)).
      intros t u _. reflexivity.
  Qed.
End Strategies2.

(* ---------- positionalRelation.Join ---------- *)

(* the shapes of (key, output) projectors on which the strategy chosen by createMode returns every
   requested output column: one output empty, or both reaching outside their keys.  (On other shapes,
   e.g. both outputs inside their keys and non-empty, JoinIfCommonExist / joinOneSide drop a requested
   output: positionalRelation.Join is not a general join.  The eight operators never ask for those.) *)
Definition join_shape (lk rk lo ro : vproj) : Prop :=
  lo = [] \/ ro = [] \/ (isSubProjection lo lk = false /\ isSubProjection ro rk = false).

Definition partial_key (lk rk lo ro : vproj) : bool :=
  (negb (isSubProjection lk lo) && hasCommonIndices lo lk) || (negb (isSubProjection rk ro) && hasCommonIndices ro rk).

Lemma hasCommon_nil_l q : hasCommonIndices [] q = false.
Proof. destruct (hasCommonIndices [] q) eqn:E; [|reflexivity]. apply hasCommon_spec in E as (i & [] & _). Qed.
Lemma hasCommon_sub p q : p <> [] -> isSubProjection p q = true -> hasCommonIndices p q = true.
Proof.
  intros Hp Hs. apply hasCommon_spec. destruct p as [|i p]; [congruence|].
  exists i. split; [left; reflexivity | apply (proj1 (isSub_spec _ _) Hs); left; reflexivity].
Qed.

Theorem positional_join_spec r r2 w1 w2 lk rk lo ro :
  width_is r w1 -> width_is r2 w2 -> r <> [] -> r2 <> [] -> NoDup r -> NoDup r2 ->
  inrange lk w1 -> inrange lo w1 -> inrange rk w2 -> inrange ro w2 ->
  length lk = length rk -> partial_key lk rk lo ro = false -> join_shape lk rk lo ro ->
  exists rows, positional_join r r2 lk rk lo ro = JOk rows /\ NoDup rows /\
    forall x, In x rows <-> exists t u, matching r r2 lk rk t u /\ x = pick lo t ++ pick ro u.
Proof.
  intros Hw1 Hw2 Hne1 Hne2 Hnd1 Hnd2 Hlk Hlo Hrk Hro Hlen Hpart Hshape.
  unfold positional_join, createMode. rewrite Hlen, Nat.eqb_refl. cbn [negb].
  unfold partial_key in Hpart. rewrite Hpart.
  assert (KE : exists rows, JOk (joinKeepEverything r r2 lk rk lo ro) = JOk rows /\ NoDup rows /\
                 forall x, In x rows <-> exists t u, matching r r2 lk rk t u /\ x = pick lo t ++ pick ro u).
  { eexists. split; [reflexivity|]. split; [apply rs_of_list_nodup|].
    intros x. apply (keepEverything_spec r r2 w1 w2 lk rk lo ro); assumption. }
  destruct (isSubProjection lo lk) eqn:SL; destruct (isSubProjection ro rk) eqn:SR; cbn [negb].
  - (* both outputs inside their keys: one of them is empty *)
    destruct Hshape as [->|[->|[? _]]]; [| |congruence].
    + rewrite hasCommon_nil_l. destruct ro as [|b ro'].
      * rewrite hasCommon_nil_l. cbn.
        destruct (ifCommonExist_spec r r2 w1 w2 lk rk Hw1 Hw2 Hne1 Hne2 Hlk Hrk) as [[-> H]|[-> H]].
        -- exists [[]]. split; [reflexivity|]. split; [constructor; [intros [] | constructor]|].
           intros x. split; [intros [<-|[]]; destruct H as (t & u & H); exists t, u; split; [exact H | reflexivity]
                            | intros (t & u & _ & ->); left; reflexivity].
        -- exists []. split; [reflexivity|]. split; [constructor|].
           intros x. split; [intros [] | intros (t & u & Hm & _); apply H; exists t, u; exact Hm].
      * rewrite (hasCommon_sub (b :: ro') rk ltac:(discriminate) SR). cbn.
        destruct (commonOnly_spec r r2 w1 w2 lk rk [] (b :: ro') Hw1 Hw2 Hne1 Hne2 Hlk Hrk) as (rows & E & Hn & Hx).
        { intros _. apply isSub_spec, SR. } { congruence. }
        exists rows. split; [exact E|]. split; [exact Hn|]. intros x. rewrite Hx. reflexivity.
    + rewrite hasCommon_nil_l. destruct lo as [|a lo'].
      * rewrite hasCommon_nil_l. cbn.
        destruct (ifCommonExist_spec r r2 w1 w2 lk rk Hw1 Hw2 Hne1 Hne2 Hlk Hrk) as [[-> H]|[-> H]].
        -- exists [[]]. split; [reflexivity|]. split; [constructor; [intros [] | constructor]|].
           intros x. split; [intros [<-|[]]; destruct H as (t & u & H); exists t, u; split; [exact H | reflexivity]
                            | intros (t & u & _ & ->); left; reflexivity].
        -- exists []. split; [reflexivity|]. split; [constructor|].
           intros x. split; [intros [] | intros (t & u & Hm & _); apply H; exists t, u; exact Hm].
      * rewrite (hasCommon_sub (a :: lo') lk ltac:(discriminate) SL). cbn.
        destruct (commonOnly_spec r r2 w1 w2 lk rk (a :: lo') [] Hw1 Hw2 Hne1 Hne2 Hlk Hrk) as (rows & E & Hn & Hx).
        { congruence. } { intros _. apply isSub_spec, SL. }
        exists rows. split; [exact E|]. split; [exact Hn|]. intros x. rewrite Hx.
        split; intros (t & u & Hm & ->); exists t, u; (split; [exact Hm|]); unfold pick; simpl; rewrite app_nil_r; reflexivity.
  - (* only the right output reaches outside its key: the left output is empty *)
    assert (lo = []) as -> by (destruct Hshape as [H|[H|[H _]]]; [exact H | subst ro; discriminate | congruence]).
    destruct (joinOneSide_spec r2 r w2 w1 rk lk ro Hw2 Hne2 Hnd2 Hw1 Hne1 Hrk Hro Hlk) as (rows & E & Hn & Hx).
    destruct (negb (Bool.eqb (hasCommonIndices [] lk) (hasCommonIndices ro rk))); cbn; (exists rows; split; [exact E|]; split; [exact Hn|]; intros x; rewrite Hx;
      split; [intros (u & t & Hu & Ht & Hk & ->); exists t, u; split; [split; [assumption | split; [assumption | congruence]] | reflexivity]
             | intros (t & u & (Ht & Hu & Hk) & ->); exists u, t; repeat split; try assumption; congruence]).
  - (* only the left output reaches outside its key: the right output is empty *)
    assert (ro = []) as -> by (destruct Hshape as [H|[H|[_ H]]]; [subst lo; discriminate | exact H | congruence]).
    destruct (joinOneSide_spec r r2 w1 w2 lk rk lo Hw1 Hne1 Hnd1 Hw2 Hne2 Hlk Hlo Hrk) as (rows & E & Hn & Hx).
    destruct (negb (Bool.eqb (hasCommonIndices lo lk) (hasCommonIndices [] rk))); cbn; (exists rows; split; [exact E|]; split; [exact Hn|]; intros x; rewrite Hx;
      split; [intros (t & u & Ht & Hu & Hk & ->); exists t, u; split; [split; [assumption | split; assumption] | symmetry; apply app_nil_r]
             | intros (t & u & (Ht & Hu & Hk) & ->); exists t, u; repeat split; try assumption; apply app_nil_r]).
  - destruct (negb (Bool.eqb (hasCommonIndices lo lk) (hasCommonIndices ro rk))); cbn; exact KE.
Qed.

(* ---------- names and tuples ---------- *)

Lemma name_eqb_iff a b : name_eqb a b = true <-> a = b.
Proof. split; [apply name_eqb_eq | intros ->; apply name_eqb_refl]. Qed.

Lemma name_in_iff n l : name_in n l = true <-> In n l.
Proof.
  unfold name_in. rewrite existsb_exists. split.
  - intros (x & Hx & E). apply name_eqb_eq in E. subst; assumption.
  - intros H. exists n. split; [assumption | apply name_eqb_refl].
Qed.

Lemma name_in_false n l : name_in n l = false <-> ~ In n l.
Proof. rewrite <- name_in_iff. destruct (name_in n l); split; congruence. Qed.

Lemma name_in_filter n f l : name_in n (filter f l) = name_in n l && f n.
Proof.
  destruct (name_in n (filter f l)) eqn:E.
  - apply name_in_iff, filter_In in E as [H1 H2]. apply name_in_iff in H1. rewrite H1, H2. reflexivity.
  - symmetry. apply andb_false_iff. destruct (name_in n l) eqn:E1; [|left; reflexivity]. right.
    destruct (f n) eqn:E2; [|reflexivity]. apply name_in_iff in E1.
    assert (X : name_in n (filter f l) = true) by (apply name_in_iff, filter_In; split; assumption). congruence.
Qed.

Lemma name_in_app n a b : name_in n (a ++ b) = name_in n a || name_in n b.
Proof. unfold name_in. apply existsb_app. Qed.

Lemma tget_cons n m v l : tget n ((m, v) :: l) = if name_eqb n m then Some v else tget n l.
Proof. simpl. unfold name_eqb. destruct (name_cmp n m); reflexivity. Qed.

Lemma name_cmp_refl a : name_cmp a a = Eq.
Proof. destruct (name_cmp_ordR a a a) as (H & _). exact H. Qed.

Lemma tget_ainsert n k v l : tget n (ainsert (k, v) l) = if name_eqb n k then Some v else tget n l.
Proof.
  induction l as [|[m w] l IH].
  - simpl ainsert. rewrite tget_cons. reflexivity.
  - cbn [ainsert fst]. destruct (name_cmp k m) eqn:E.
    + apply name_cmp_eq in E. subst m. rewrite !tget_cons. destruct (name_eqb n k); reflexivity.
    + rewrite tget_cons. reflexivity.
    + rewrite !tget_cons, IH. destruct (name_eqb n m) eqn:E1; [|reflexivity].
      destruct (name_eqb n k) eqn:E2; [|reflexivity].
      apply name_eqb_eq in E1, E2. subst. rewrite name_cmp_refl in E. discriminate.
Qed.

Lemma tget_asort n l : tget n (asort l) = tget n l.
Proof.
  induction l as [|[k v] l IH]; [reflexivity|].
  cbn [asort fold_right]. fold (asort l). rewrite tget_ainsert, tget_cons, IH. reflexivity.
Qed.

Lemma tget_app n a b : tget n (a ++ b) = match tget n a with Some v => Some v | None => tget n b end.
Proof.
  induction a as [|[k v] a IH]; [reflexivity|].
  rewrite <- app_comm_cons, !tget_cons. destruct (name_eqb n k); [reflexivity | exact IH].
Qed.

Lemma tget_none n l : tget n l = None <-> ~ In n (map fst l).
Proof.
  induction l as [|[k v] l IH]; [simpl; intuition|].
  rewrite tget_cons. cbn [map fst In]. destruct (name_eqb n k) eqn:E.
  - apply name_eqb_eq in E. subst. split; [discriminate | intros H; exfalso; apply H; left; reflexivity].
  - rewrite IH. split; [intros H [H1|H1]; [subst; rewrite name_eqb_refl in E; discriminate | contradiction] | intros H H1; apply H; right; assumption].
Qed.

Lemma tget_in_iff n v l : NoDup (map fst l) -> (tget n l = Some v <-> In (n, v) l).
Proof.
  induction l as [|[k w] l IH]; intros Hnd; [simpl; split; [discriminate | intros []]|].
  cbn [map fst] in Hnd. inversion Hnd as [|? ? Hk Hl]; subst.
  rewrite tget_cons. destruct (name_eqb n k) eqn:E.
  - apply name_eqb_eq in E. subst k. split.
    + intros H; injection H as ->. left; reflexivity.
    + intros [H|H]; [injection H as ->; reflexivity|]. exfalso. apply Hk. apply (in_map fst) in H. exact H.
  - rewrite (IH Hl). split; [intros H; right; assumption|].
    intros [H|H]; [injection H as -> ->; rewrite name_eqb_refl in E; discriminate | assumption].
Qed.

Lemma tget_rev n l : NoDup (map fst l) -> tget n (rev l) = tget n l.
Proof.
  intros Hnd.
  assert (Hnd' : NoDup (map fst (rev l))) by (rewrite map_rev; apply NoDup_rev, Hnd).
  destruct (tget n l) as [v|] eqn:E.
  - apply (tget_in_iff _ _ _ Hnd'). apply in_rev. rewrite rev_involutive. apply (tget_in_iff _ _ _ Hnd), E.
  - apply tget_none. rewrite map_rev, <- in_rev. apply tget_none, E.
Qed.

Lemma tget_filter n (f : name -> bool) l : tget n (filter (fun p => f (fst p)) l) = if f n then tget n l else None.
Proof.
  induction l as [|[k v] l IH]; [simpl; destruct (f n); reflexivity|].
  cbn [filter fst]. destruct (f k) eqn:Ek.
  - rewrite !tget_cons, IH. destruct (name_eqb n k) eqn:E; [|reflexivity].
    apply name_eqb_eq in E. subst. rewrite Ek. reflexivity.
  - rewrite IH, tget_cons. destruct (name_eqb n k) eqn:E; [|reflexivity].
    apply name_eqb_eq in E. subst. rewrite Ek. reflexivity.
Qed.

Lemma asorted_nodup l : asorted l -> NoDup (map fst l).
Proof.
  induction l as [|[k v] l IH]; intros H; [constructor|].
  destruct H as [Hk Hl]. cbn [map fst]. constructor; [|apply IH, Hl].
  intros Hin. apply in_map_iff in Hin as (q & Eq & Hq). specialize (Hk q Hq). cbn [fst] in Hk.
  rewrite Eq, name_cmp_refl in Hk. discriminate.
Qed.

Lemma asorted_lt_none k l : (forall q, In q l -> name_cmp k (fst q) = Lt) -> tget k l = None.
Proof.
  intros H. apply tget_none. intros Hin. apply in_map_iff in Hin as (q & Eq & Hq).
  specialize (H q Hq). rewrite Eq, name_cmp_refl in H. discriminate.
Qed.

(* two name-sorted tuples with the same attribute lookup are the same tuple *)
Lemma asorted_ext l : forall m, asorted l -> asorted m -> (forall n, tget n l = tget n m) -> l = m.
Proof.
  induction l as [|[k v] l IH]; intros [|[k' v'] m] Hl Hm H.
  - reflexivity.
  - specialize (H k'). rewrite tget_cons, name_eqb_refl in H. discriminate.
  - specialize (H k). rewrite tget_cons, name_eqb_refl in H. discriminate.
  - destruct Hl as [Hk Hl]. destruct Hm as [Hk' Hm].
    assert (Ek : k = k').
    { pose proof (H k) as H1. pose proof (H k') as H2. rewrite !tget_cons, !name_eqb_refl in *.
      destruct (name_eqb k k') eqn:E; [apply name_eqb_eq, E|]. exfalso.
      assert (E' : name_eqb k' k = false).
      { destruct (name_eqb k' k) eqn:E'; [|reflexivity]. apply name_eqb_eq in E'. subst. rewrite name_eqb_refl in E. discriminate. }
      rewrite E' in H2. symmetry in H1.
      assert (L1 : name_cmp k' k = Lt).
      { assert (Hin : In k (map fst m)) by (destruct (in_dec (list_eq_dec Z.eq_dec) k (map fst m)) as [i|ni]; [exact i | apply tget_none in ni; congruence]).
        apply in_map_iff in Hin as (q & <- & Hq). apply Hk', Hq. }
      assert (L2 : name_cmp k k' = Lt).
      { assert (Hin : In k' (map fst l)) by (destruct (in_dec (list_eq_dec Z.eq_dec) k' (map fst l)) as [i|ni]; [exact i | apply tget_none in ni; congruence]).
        apply in_map_iff in Hin as (q & <- & Hq). apply Hk, Hq. }
      pose proof (name_cmp_trans _ _ _ L1 L2) as L. rewrite name_cmp_refl in L. discriminate. }
    subst k'. pose proof (H k) as Hv. rewrite !tget_cons, name_eqb_refl in Hv. injection Hv as ->.
    f_equal. apply IH; [assumption | assumption|].
    intros n. specialize (H n). rewrite !tget_cons in H. destruct (name_eqb n k) eqn:E; [|exact H].
    apply name_eqb_eq in E. subst n. rewrite (asorted_lt_none k l Hk), (asorted_lt_none k m Hk'). reflexivity.
Qed.

Lemma fold_ainsert_sorted l : forall acc, asorted acc -> asorted (fold_left (fun acc p => ainsert p acc) l acc).
Proof. induction l as [|x l IH]; intros acc H; simpl; [exact H | apply IH, ainsert_sorted, H]. Qed.

Lemma tget_fold_ainsert n l : forall acc,
  tget n (fold_left (fun acc p => ainsert p acc) l acc) = match tget n (rev l) with Some v => Some v | None => tget n acc end.
Proof.
  induction l as [|[k v] l IH]; intros acc; [reflexivity|].
  cbn [fold_left rev]. rewrite IH, tget_app, tget_ainsert, tget_cons.
  destruct (tget n (rev l)); [reflexivity|]. destruct (name_eqb n k); reflexivity.
Qed.

Lemma filter_asorted' (f : name * val -> bool) l : asorted l -> asorted (filter f l).
Proof.
  induction l as [|p l IH]; simpl; [trivial|]. intros [Hp Hl]. destruct (f p); simpl.
  - split; [|apply IH, Hl]. intros q Hq. apply filter_In in Hq. apply Hp, Hq.
  - apply IH, Hl.
Qed.

(* ---------- headings ---------- *)

Fixpoint ninsert (x : name) (l : list name) : list name :=
  match l with
  | [] => [x]
  | y :: l' => match name_cmp x y with Lt => x :: l | Eq => x :: l' | Gt => y :: ninsert x l' end
  end.
Definition nsort (l : list name) : list name := fold_right ninsert [] l.

Lemma map_fst_ainsert x l : map fst (ainsert x l) = ninsert (fst x) (map fst l).
Proof.
  induction l as [|y l IH]; [reflexivity|]. cbn [ainsert map ninsert].
  destruct (name_cmp (fst x) (fst y)); cbn [map]; [reflexivity | reflexivity | rewrite IH; reflexivity].
Qed.

Lemma map_fst_asort l : map fst (asort l) = nsort (map fst l).
Proof.
  induction l as [|x l IH]; [reflexivity|].
  cbn [asort fold_right map nsort]. fold (asort l). rewrite map_fst_ainsert, IH. reflexivity.
Qed.

Lemma map_fst_combine {A B} (a : list A) : forall (b : list B), length a = length b -> map fst (combine a b) = a.
Proof.
  induction a as [|x a IH]; intros [|y b] H; try reflexivity; try discriminate.
  cbn [combine map fst]. f_equal. apply IH. simpl in H. lia.
Qed.

Lemma ninsert_in x k l : In x (ninsert k l) <-> x = k \/ In x l.
Proof.
  induction l as [|y l IH]; [simpl; intuition|]. cbn [ninsert].
  destruct (name_cmp k y) eqn:E.
  - apply name_cmp_eq in E. subst y. simpl. intuition.
  - simpl. intuition.
  - cbn [In]. rewrite IH. intuition.
Qed.

Lemma nsort_in x l : In x (nsort l) <-> In x l.
Proof.
  induction l as [|y l IH]; [reflexivity|]. cbn [nsort fold_right]. fold (nsort l).
  rewrite ninsert_in, IH. simpl. intuition.
Qed.

(* ---------- the representation invariant ---------- *)

Definition wf_rel (r : relation) : Prop :=
  let n := length (r_attrs r) in
  NoDup (r_attrs r) /\ length (r_p r) = n /\ NoDup (r_p r) /\ inrange (r_p r) n
  /\ width_is (r_rows r) n /\ NoDup (r_rows r) /\ r_rows r <> [].

Lemma nodupb_spec {A} (eqb : A -> A -> bool) (l : list A) :
  (forall a b, eqb a b = true <-> a = b) -> (nodupb eqb l = true <-> NoDup l).
Proof.
  intros Heq. induction l as [|x l IH]; [split; [constructor | reflexivity]|].
  cbn [nodupb]. rewrite andb_true_iff, IH, negb_true_iff. split.
  - intros [H1 H2]. constructor; [|assumption]. intros Hin.
    assert (X : existsb (eqb x) l = true) by (apply existsb_exists; exists x; split; [assumption | apply Heq; reflexivity]). congruence.
  - intros H. inversion H as [|? ? Hx Hl]; subst. split; [|assumption].
    destruct (existsb (eqb x) l) eqn:E; [|reflexivity]. apply existsb_exists in E as (y & Hy & E). apply Heq in E. subst; contradiction.
Qed.

Lemma wf_relb_spec r : wf_relb r = true <-> wf_rel r.
Proof.
  unfold wf_relb, wf_rel. rewrite !andb_true_iff, negb_true_iff.
  rewrite (nodupb_spec name_eqb _ name_eqb_iff), (nodupb_spec Nat.eqb _ Nat.eqb_eq), (nodupb_spec row_eqb _ row_eqb_eq).
  rewrite Nat.eqb_eq, !forallb_forall, Nat.eqb_neq.
  split.
  - intros ((((((H1 & H2) & H3) & H4) & H5) & H6) & H7). repeat split; try assumption.
    + intros i Hi. apply Nat.ltb_lt, H4, Hi.
    + intros v Hv. apply Nat.eqb_eq, H5, Hv.
    + intros E. rewrite E in H7. apply H7; reflexivity.
  - intros (H1 & H2 & H3 & H4 & H5 & H6 & H7). repeat split; try assumption.
    + intros i Hi. apply Nat.ltb_lt, H4, Hi.
    + intros v Hv. apply Nat.eqb_eq, H5, Hv.
    + destruct (r_rows r); [congruence | simpl; discriminate].
Qed.

Lemma row_tuple_names attrs p v : length p = length attrs ->
  exists t, row_tuple attrs p v = VTup t /\ map fst t = nsort attrs /\ asorted t
            /\ forall n, tget n t = tget n (combine attrs (pick p v)).
Proof.
  intros Hl. unfold row_tuple, mktup. eexists. split; [reflexivity|]. split; [|split].
  - rewrite map_fst_asort, map_fst_combine; [reflexivity | rewrite pick_length; congruence].
  - apply asort_sorted.
  - intros n. apply tget_asort.
Qed.

Lemma abs_in r m : In m (abs r) <-> exists v, In v (r_rows r) /\ m = row_tuple (r_attrs r) (r_p r) v.
Proof.
  unfold abs. rewrite vsort_in, in_map_iff. split; intros (v & H1 & H2); exists v; [split; [assumption | congruence] | split; [congruence | assumption]].
Qed.

Lemma abs_nonempty r : r_rows r <> [] -> abs r <> [].
Proof.
  intros H E. destruct (r_rows r) as [|v rows] eqn:Er; [congruence|].
  assert (Hin : In (row_tuple (r_attrs r) (r_p r) v) (abs r)) by (apply abs_in; exists v; rewrite Er; split; [left; reflexivity | reflexivity]).
  rewrite E in Hin. destruct Hin.
Qed.

Lemma abs_heading r : wf_rel r -> heading (abs r) = Some (nsort (r_attrs r)).
Proof.
  intros (_ & Hlen & _ & _ & _ & _ & Hne). apply heading_spec. split; [apply abs_nonempty, Hne|].
  intros m Hm. apply abs_in in Hm as (v & _ & ->).
  destruct (row_tuple_names (r_attrs r) (r_p r) v Hlen) as (t & E & Hn & _). exists t. split; assumption.
Qed.

(* ---------- names to columns ---------- *)

(* attribute nm of relation r is stored in column c *)
Definition col (r : relation) (nm : name) (c : nat) : Prop :=
  exists i, nth_error (r_attrs r) i = Some nm /\ nth_error (r_p r) i = Some c.

Lemma find_last_name_spec x l : forall i0 acc,
  match find_last_name x l i0 acc with
  | Some j => acc = Some j \/ (i0 <= j /\ nth_error l (j - i0) = Some x)
  | None => acc = None /\ ~ In x l
  end.
Proof.
  induction l as [|y l IH]; intros i0 acc; simpl.
  - destruct acc; [left; reflexivity | split; [reflexivity | intros []]].
  - specialize (IH (S i0) (if name_eqb x y then Some i0 else acc)).
    destruct (find_last_name x l (S i0) (if name_eqb x y then Some i0 else acc)) as [j|].
    + destruct IH as [IH|[Hle Hn]].
      * destruct (name_eqb x y) eqn:E; [|left; exact IH].
        apply name_eqb_eq in E. subst y. injection IH as <-. right. split; [lia|]. rewrite Nat.sub_diag. reflexivity.
      * right. split; [lia|]. replace (j - i0) with (S (j - S i0)) by lia. exact Hn.
    + destruct IH as [IH Hn]. destruct (name_eqb x y) eqn:E; [discriminate|]. split; [exact IH|].
      intros [->|H]; [rewrite name_eqb_refl in E; discriminate | contradiction].
Qed.

Section Cols.
  Variable r : relation.
  Hypothesis Hwf : wf_rel r.

  Lemma col_fun nm c c' : col r nm c -> col r nm c' -> c = c'.
  Proof.
    destruct Hwf as (Hnd & _). intros (i & H1 & H2) (i' & H1' & H2').
    assert (i = i').
    { apply (NoDup_nth_error (r_attrs r)); [exact Hnd | apply nth_error_Some; congruence | congruence]. }
    subst. congruence.
  Qed.

  Lemma col_inj nm nm' c : col r nm c -> col r nm' c -> nm = nm'.
  Proof.
    destruct Hwf as (_ & _ & Hnd & _). intros (i & H1 & H2) (i' & H1' & H2').
    assert (i = i').
    { apply (NoDup_nth_error (r_p r)); [exact Hnd | apply nth_error_Some; congruence | congruence]. }
    subst. congruence.
  Qed.

  Lemma col_range nm c : col r nm c -> c < length (r_attrs r).
  Proof.
    destruct Hwf as (_ & _ & _ & Hr & _). intros (i & _ & H2). apply Hr. eapply nth_error_In, H2.
  Qed.

  Lemma col_attr nm c : col r nm c -> In nm (r_attrs r).
  Proof. intros (i & H1 & _). eapply nth_error_In, H1. Qed.

  Lemma col_exists nm : In nm (r_attrs r) -> exists c, col r nm c.
  Proof.
    destruct Hwf as (_ & Hlen & _). intros H. apply In_nth_error in H as (i & Hi).
    assert (Hlt : i < length (r_p r)) by (rewrite Hlen; apply nth_error_Some; congruence).
    apply nth_error_Some in Hlt. destruct (nth_error (r_p r) i) as [c|] eqn:E; [|congruence].
    exists c, i. split; assumption.
  Qed.

  Lemma tget_combine_nth (attrs : list name) : forall i nm (vals : row),
    NoDup attrs -> nth_error attrs i = Some nm -> length vals = length attrs ->
    tget nm (combine attrs vals) = nth_error vals i.
  Proof.
    induction attrs as [|a attrs IH]; intros i nm vals Hnd Hi Hl; [destruct i; discriminate|].
    destruct vals as [|x vals]; [discriminate|]. cbn [combine]. rewrite tget_cons.
    inversion Hnd as [|? ? Ha Hnd']; subst. destruct i as [|i].
    - injection Hi as ->. rewrite name_eqb_refl. reflexivity.
    - cbn [nth_error] in *. destruct (name_eqb nm a) eqn:E.
      + apply name_eqb_eq in E. subst a. exfalso. apply Ha. eapply nth_error_In, Hi.
      + apply IH; [assumption | assumption | simpl in Hl; lia].
  Qed.

  (* the cell a row tuple holds under nm is the content of nm's column *)
  Lemma col_tget nm c (v : row) : col r nm c -> tget nm (combine (r_attrs r) (pick (r_p r) v)) = Some (nth c v cell0).
  Proof.
    destruct Hwf as (Hnd & Hlen & _). intros (i & H1 & H2).
    rewrite (tget_combine_nth _ i nm _ Hnd H1) by (rewrite pick_length; exact Hlen).
    unfold pick. exact (map_nth_error (fun i => nth i v cell0) i (r_p r) H2).
  Qed.

  Lemma nocol_tget nm (v : row) : ~ In nm (r_attrs r) -> tget nm (combine (r_attrs r) (pick (r_p r) v)) = None.
  Proof.
    destruct Hwf as (_ & Hlen & _). intros H. apply tget_none.
    rewrite map_fst_combine by (rewrite pick_length; congruence). exact H.
  Qed.

  Lemma getIndices_spec names : incl names (r_attrs r) ->
    exists idx, getIndices (r_attrs r) names = Some idx /\ Forall2 (col r) names (compose (r_p r) idx).
  Proof.
    destruct Hwf as (_ & Hlen & _).
    induction names as [|nm names IH]; intros Hin.
    - exists []. split; [reflexivity | constructor].
    - destruct IH as (idx & E & F); [intros x Hx; apply Hin; right; assumption|].
      unfold getIndices in *. cbn [mapM_opt]. rewrite E.
      pose proof (find_last_name_spec nm (r_attrs r) 0 None) as S.
      destruct (find_last_name nm (r_attrs r) 0 None) as [j|].
      + destruct S as [S|[_ S]]; [discriminate|]. rewrite Nat.sub_0_r in S.
        exists (j :: idx). split; [reflexivity|]. cbn [compose map]. constructor; [|exact F].
        exists j. split; [exact S|].
        assert (Hlt : j < length (r_p r)) by (rewrite Hlen; apply nth_error_Some; congruence).
        apply nth_error_nth'. exact Hlt.
      + destruct S as [_ S]. exfalso. apply S, Hin. left; reflexivity.
  Qed.

  Lemma F2_in names L c : Forall2 (col r) names L -> (In c L <-> exists nm, In nm names /\ col r nm c).
  Proof.
    intros F. induction F as [|nm c0 names L H F IH].
    - split; [intros [] | intros (nm & [] & _)].
    - cbn [In]. rewrite IH. split.
      + intros [<-|(nm' & H1 & H2)]; [exists nm; split; [left; reflexivity | exact H] | exists nm'; split; [right; assumption | assumption]].
      + intros (nm' & [<-|H1] & H2); [left; eapply col_fun; eassumption | right; exists nm'; split; assumption].
  Qed.

  Lemma F2_col_of names L nm : Forall2 (col r) names L -> In nm names -> exists c, In c L /\ col r nm c.
  Proof.
    intros F. induction F as [|nm0 c0 names L H F IH]; [intros []|].
    intros [<-|Hin]; [exists c0; split; [left; reflexivity | exact H]|].
    destruct (IH Hin) as (c & H1 & H2). exists c. split; [right; assumption | assumption].
  Qed.

  Lemma F2_inrange names L : Forall2 (col r) names L -> inrange L (length (r_attrs r)).
  Proof. intros F c Hc. apply (F2_in _ _ _ F) in Hc as (nm & _ & Hc). eapply col_range, Hc. Qed.

  Lemma F2_isSub n1 L1 n2 L2 : Forall2 (col r) n1 L1 -> Forall2 (col r) n2 L2 -> incl n1 (r_attrs r) ->
    (isSubProjection L1 L2 = true <-> incl n1 n2).
  Proof.
    intros F1 F2 Hin. rewrite isSub_spec. split.
    - intros H nm Hnm. destruct (col_exists nm (Hin nm Hnm)) as (c & Hc).
      assert (Hc1 : In c L1) by (apply (F2_in _ _ _ F1); exists nm; split; assumption).
      apply H, (F2_in _ _ _ F2) in Hc1 as (nm' & H1 & H2). rewrite (col_inj _ _ _ Hc H2). exact H1.
    - intros H c Hc. apply (F2_in _ _ _ F1) in Hc as (nm & H1 & H2). apply (F2_in _ _ _ F2). exists nm. split; [apply H, H1 | exact H2].
  Qed.

  Lemma F2_hasCommon n1 L1 n2 L2 : Forall2 (col r) n1 L1 -> Forall2 (col r) n2 L2 ->
    (hasCommonIndices L1 L2 = true <-> exists nm, In nm n1 /\ In nm n2).
  Proof.
    intros F1 F2. rewrite hasCommon_spec. split.
    - intros (c & H1 & H2). apply (F2_in _ _ _ F1) in H1 as (nm & H1 & Hc1). apply (F2_in _ _ _ F2) in H2 as (nm' & H2 & Hc2).
      rewrite <- (col_inj _ _ _ Hc1 Hc2) in H2. exists nm. split; assumption.
    - intros (nm & H1 & H2). destruct (F2_col_of _ _ _ F1 H1) as (c & Hc & Hcol).
      exists c. split; [exact Hc|]. apply (F2_in _ _ _ F2). exists nm. split; assumption.
  Qed.
End Cols.

(* ---------- rows as attribute lookups ---------- *)

Definition ra (r : relation) (v : row) : list (name * val) := combine (r_attrs r) (pick (r_p r) v).

Lemma F2_cells r (v : row) names L : wf_rel r -> Forall2 (col r) names L ->
  Forall2 (fun nm x => tget nm (ra r v) = Some x) names (pick L v).
Proof.
  intros Hwf F. induction F as [|nm c names L H F IH]; [constructor|].
  cbn [pick map]. constructor; [apply col_tget; assumption | exact IH].
Qed.

Lemma cells_eq (f g : name -> option val) names : forall L R,
  Forall2 (fun nm x => f nm = Some x) names L -> Forall2 (fun nm x => g nm = Some x) names R ->
  (L = R <-> forall nm, In nm names -> f nm = g nm).
Proof.
  induction names as [|nm names IH]; intros L R FL FR; inversion FL; inversion FR; subst.
  - split; [intros _ nm [] | reflexivity].
  - split.
    + intros E. injection E as -> E'. intros nm' [<-|Hin]; [congruence|]. eapply IH; eassumption.
    + intros H. f_equal.
      * specialize (H nm (or_introl eq_refl)). congruence.
      * eapply IH; [eassumption | eassumption|]. intros nm' Hin. apply H. right; assumption.
Qed.

Lemma cells_tget (f : name -> option val) names : forall L,
  Forall2 (fun nm x => f nm = Some x) names L ->
  forall nm, tget nm (combine names L) = if name_in nm names then f nm else None.
Proof.
  induction names as [|n0 names IH]; intros L F nm; inversion F as [|? x ? L' Hx F']; subst; [reflexivity|].
  cbn [combine]. rewrite tget_cons. unfold name_in. cbn [existsb]. fold (name_in nm names).
  destruct (name_eqb nm n0) eqn:E; [apply name_eqb_eq in E; subst; symmetry; exact Hx|].
  cbn [orb]. apply IH, F'.
Qed.

(* ---------- NamesSlice ---------- *)

Lemma ns_intersect_in a b nm : In nm (ns_intersect a b) <-> In nm a /\ In nm b.
Proof.
  unfold ns_intersect. destruct (length b <? length a); rewrite filter_In, name_in_iff; intuition.
Qed.

Lemma ns_minus_in a b nm : In nm (ns_minus a b) <-> In nm a /\ ~ In nm b.
Proof. unfold ns_minus. rewrite filter_In, negb_true_iff, name_in_false. reflexivity. Qed.

Lemma ns_isSubset_spec a b : ns_isSubset a b = true <-> incl a b.
Proof.
  unfold ns_isSubset. rewrite forallb_forall. split; intros H nm Hnm; [apply name_in_iff, H, Hnm | apply name_in_iff, H, Hnm].
Qed.

Lemma ns_hasIntersect_false a b : (forall nm, In nm a -> In nm b -> False) -> ns_hasIntersect a b = false.
Proof.
  intros H. unfold ns_hasIntersect.
  destruct (length b <? length a).
  - destruct (existsb (fun x => name_in x b) a) eqn:E; [|reflexivity].
    apply existsb_exists in E as (nm & H1 & H2). apply name_in_iff in H2. exfalso; eauto.
  - destruct (existsb (fun x => name_in x a) b) eqn:E; [|reflexivity].
    apply existsb_exists in E as (nm & H1 & H2). apply name_in_iff in H2. exfalso; eauto.
Qed.

Lemma ns_intersect_nodup a b : NoDup a -> NoDup b -> NoDup (ns_intersect a b).
Proof. intros Ha Hb. unfold ns_intersect. destruct (length b <? length a); apply NoDup_filter; assumption. Qed.

(* what the engine needs of the (common, left output, right output) names it is given *)
Record good_partition (A B common lo ro : list name) : Prop := {
  gp_lo : incl lo A;
  gp_ro : incl ro B;
  gp_lo_nd : NoDup lo;
  gp_ro_nd : NoDup ro;
  gp_disj : forall nm, In nm lo -> In nm ro -> False;
  gp_partial_l : forall nm, In nm lo -> In nm common -> incl common lo;
  gp_partial_r : forall nm, In nm ro -> In nm common -> incl common ro;
  gp_shape : lo = [] \/ ro = [] \/ (~ incl lo common /\ ~ incl ro common)
}.

Lemma partition_good op A B : NoDup A -> NoDup B ->
  let common := ns_intersect A B in
  good_partition A B common (fst (partitionNames op A B common)) (snd (partitionNames op A B common)).
Proof.
  intros HA HB common.
  assert (Hc : forall nm, In nm common <-> In nm A /\ In nm B) by (intros nm; apply ns_intersect_in).
  assert (HcA : incl common A) by (intros nm H; apply Hc in H; tauto).
  assert (HcB : incl common B) by (intros nm H; apply Hc in H; tauto).
  assert (Hcnd : NoDup common) by (apply ns_intersect_nodup; assumption).
  assert (Hm : forall X Y, NoDup X -> NoDup (ns_minus X Y)) by (intros X Y H; apply NoDup_filter, H).
  assert (HmA : forall X Y, incl (ns_minus X Y) X) by (intros X Y nm H; apply ns_minus_in in H; tauto).
  assert (Hnil : forall X : list name, incl [] X) by (intros X nm []).
  destruct op; cbn [partitionNames].
  - (* <&> *)
    destruct (ns_isSubset A B) eqn:E1; [|destruct (ns_isSubset B A) eqn:E2]; cbn [fst snd].
    + constructor; try solve [assumption | apply incl_refl | apply Hnil | constructor | intros nm [] | intros nm _ []].
      * intros nm _ _; exact HcB.
      * left; reflexivity.
    + constructor; try solve [assumption | apply incl_refl | apply Hnil | constructor | intros nm [] | intros nm _ []].
      * intros nm _ _; exact HcA.
      * right; left; reflexivity.
    + constructor; try solve [assumption | apply incl_refl | apply HmA | apply Hm, HB].
      * intros nm H1 H2. apply ns_minus_in in H2. tauto.
      * intros nm _ _. exact HcA.
      * intros nm H1 H2. apply ns_minus_in in H1. apply Hc in H2. tauto.
      * right; right. split.
        -- intros H. assert (X : ns_isSubset A B = true) by (apply ns_isSubset_spec; intros nm Hnm; apply HcB, H, Hnm). congruence.
        -- intros H. apply forallb_false in E2 as (nm & H1 & H2). apply name_in_false in H2.
           assert (H3 : In nm (ns_minus B A)) by (apply ns_minus_in; split; assumption).
           apply H, Hc in H3. tauto.
  - (* <-> *)
    cbn [fst snd]. constructor; try solve [apply HmA | apply Hm; assumption].
    + intros nm H1 H2. apply ns_minus_in in H1, H2. apply (proj2 H1), Hc. tauto.
    + intros nm H1 H2. apply ns_minus_in in H1. tauto.
    + intros nm H1 H2. apply ns_minus_in in H1. tauto.
    + destruct (ns_minus A common) as [|x lo'] eqn:El; [left; reflexivity|].
      destruct (ns_minus B common) as [|y ro'] eqn:Er; [right; left; reflexivity|].
      right; right. split; intros H.
      * assert (H1 : In x (ns_minus A common)) by (rewrite El; left; reflexivity). apply ns_minus_in in H1.
        apply (proj2 H1), H. left; reflexivity.
      * assert (H1 : In y (ns_minus B common)) by (rewrite Er; left; reflexivity). apply ns_minus_in in H1.
        apply (proj2 H1), H. left; reflexivity.
  - (* -&- *)
    cbn [fst snd]. constructor; try solve [assumption | apply incl_refl | apply Hnil | constructor | intros nm [] | intros nm _ []].
    + intros nm _ _. apply incl_refl.
    + right; left; reflexivity.
  - (* --- *)
    cbn [fst snd]. constructor; try solve [apply Hnil | constructor | intros nm [] | intros nm _ []]. left; reflexivity.
  - (* -&> *)
    cbn [fst snd]. constructor; try solve [assumption | apply incl_refl | apply Hnil | constructor | intros nm [] | intros nm _ []].
    + intros nm _ _; exact HcB.
    + left; reflexivity.
  - (* <&- *)
    cbn [fst snd]. constructor; try solve [assumption | apply incl_refl | apply Hnil | constructor | intros nm [] | intros nm _ []].
    + intros nm _ _; exact HcA.
    + right; left; reflexivity.
  - (* --> *)
    cbn [fst snd]. constructor; try solve [assumption | apply HmA | apply Hm; assumption | apply Hnil | constructor | intros nm [] | intros nm _ []].
    + intros nm H1 H2. apply ns_minus_in in H1. tauto.
    + left; reflexivity.
  - (* <-- *)
    cbn [fst snd]. constructor; try solve [assumption | apply HmA | apply Hm; assumption | apply Hnil | constructor | intros nm [] | intros nm _ []].
    + intros nm H1 H2. apply ns_minus_in in H1. tauto.
    + right; left; reflexivity.
Qed.

(* ---------- the combination of two agreeing rows ---------- *)

Lemma combine_app' {X Y} (a : list X) : forall (b : list Y) c d, length a = length b ->
  combine (a ++ c) (b ++ d) = combine a b ++ combine c d.
Proof.
  induction a as [|x a IH]; intros [|y b] c d H; try discriminate; [reflexivity|].
  cbn [app combine]. f_equal. apply IH. simpl in H. lia.
Qed.

Lemma F2_length {X Y} (R : X -> Y -> Prop) l m : Forall2 R l m -> length l = length m.
Proof. induction 1; simpl; congruence. Qed.

Lemma tget_build_tuple n (t u : list (name * val)) : asorted t -> asorted u ->
  match build_tuple (t ++ u) with VTup l => tget n l | _ => None end
  = match tget n u with Some v => Some v | None => tget n t end.
Proof.
  intros Ht Hu. unfold build_tuple. rewrite tget_fold_ainsert, rev_app_distr, tget_app.
  rewrite (tget_rev n u (asorted_nodup u Hu)), (tget_rev n t (asorted_nodup t Ht)).
  destruct (tget n u); [reflexivity|]. destruct (tget n t); reflexivity.
Qed.

Lemma build_tuple_sorted l : exists m, build_tuple l = VTup m /\ asorted m.
Proof. unfold build_tuple. eexists. split; [reflexivity | apply fold_ainsert_sorted; exact I]. Qed.

Lemma name_in_nil nm : name_in nm [] = false.
Proof. reflexivity. Qed.

Ltac close_case fA fB nm :=
  repeat match goal with
         | H : true = false -> _ |- _ => clear H
         | H : false = true -> _ |- _ => clear H
         | H : true = true -> false = true -> _ |- _ => clear H
         | H : ?x = ?x -> _ |- _ => specialize (H eq_refl)
         end;
  repeat match goal with
         | H : fA nm = None |- _ => rewrite H in *; clear H
         | H : fB nm = None |- _ => rewrite H in *; clear H
         | H : fA nm = fB nm |- _ => rewrite <- H in *; clear H
         end;
  destruct (fA nm); destruct (fB nm); try reflexivity; try congruence.

Section Combine.
  Variables (op : joinop) (A B : list name) (fA fB : name -> option val) (tA uB : list (name * val)) (common' : list name).
  Let common := ns_intersect A B.
  Let lo := fst (partitionNames op A B common).
  Let ro := snd (partitionNames op A B common).
  Hypothesis HtA : asorted tA.
  Hypothesis HuB : asorted uB.
  Hypothesis HfA : forall nm, tget nm tA = fA nm.
  Hypothesis HfB : forall nm, tget nm uB = fB nm.
  Hypothesis HAn : forall nm, name_in nm A = false -> fA nm = None.
  Hypothesis HBn : forall nm, name_in nm B = false -> fB nm = None.
  Hypothesis HAs : forall nm, name_in nm A = true -> fA nm <> None.
  Hypothesis HBs : forall nm, name_in nm B = true -> fB nm <> None.
  Hypothesis Hag : forall nm, name_in nm A = true -> name_in nm B = true -> fA nm = fB nm.
  Hypothesis Hc' : forall nm, name_in nm common' = name_in nm A && name_in nm B.

  Lemma name_in_common nm : name_in nm common = name_in nm A && name_in nm B.
  Proof.
    unfold common, ns_intersect. destruct (length B <? length A); rewrite name_in_filter; [reflexivity | apply andb_comm].
  Qed.

  Lemma name_in_minus X Y nm : name_in nm (ns_minus X Y) = name_in nm X && negb (name_in nm Y).
  Proof. unfold ns_minus. apply name_in_filter. Qed.

  Lemma jcombine_tuple L R :
    Forall2 (fun nm x => fA nm = Some x) lo L -> Forall2 (fun nm x => fB nm = Some x) ro R ->
    mktup (combine (lo ++ ro) (L ++ R)) = jcombine op common' tA uB.
  Proof.
    intros FL FR.
    assert (LHS : forall nm, tget nm (asort (combine (lo ++ ro) (L ++ R)))
                  = match (if name_in nm lo then fA nm else None) with
                    | Some v => Some v
                    | None => if name_in nm ro then fB nm else None
                    end).
    { intros nm. rewrite tget_asort, combine_app' by (apply (F2_length _ _ _ FL)).
      rewrite tget_app, (cells_tget fA lo L FL), (cells_tget fB ro R FR). reflexivity. }
    assert (Hsub : forall X Y nm, ns_isSubset X Y = true -> name_in nm X = true -> name_in nm Y = true).
    { intros X Y nm H1 H2. apply name_in_iff. apply (proj1 (ns_isSubset_spec X Y) H1). apply name_in_iff, H2. }
    assert (Fin : forall nm (P : Prop),
              (forall a b, name_in nm A = a -> name_in nm B = b ->
                 (a = false -> fA nm = None) -> (b = false -> fB nm = None) ->
                 (a = true -> fA nm <> None) -> (b = true -> fB nm <> None) ->
                 (a = true -> b = true -> fA nm = fB nm) -> P) -> P).
    { intros nm P H. apply (H (name_in nm A) (name_in nm B)); auto. }
    unfold mktup. subst lo ro. destruct op; cbn [partitionNames jcombine] in *.
    - (* <&> *)
      destruct (build_tuple_sorted (tA ++ uB)) as (m & Em & Hm).
      pose proof (fun n => tget_build_tuple n tA uB HtA HuB) as Hb. rewrite Em in *. f_equal.
      apply asorted_ext; [apply asort_sorted | exact Hm|]. intros nm. rewrite LHS, Hb, HfA, HfB.
      apply (Fin nm). intros a b Ea Eb Ha0 Hb0 Ha1 Hb1 Hab.
      destruct (ns_isSubset A B) eqn:E1; [|destruct (ns_isSubset B A) eqn:E2]; cbn [fst snd]; rewrite ?name_in_nil.
      + rewrite Eb. pose proof (Hsub A B nm E1) as S. rewrite Ea, Eb in S.
        destruct a, b; try (specialize (S eq_refl); discriminate); close_case fA fB nm.
      + rewrite Ea. pose proof (Hsub B A nm E2) as S. rewrite Ea, Eb in S.
        destruct a, b; try (specialize (S eq_refl); discriminate); close_case fA fB nm.
      + rewrite name_in_minus, Ea, Eb. destruct a, b; cbn [andb negb]; close_case fA fB nm.
    - (* <-> *)
      set (notc := fun n => negb (name_in n common')).
      destruct (build_tuple_sorted (tproject notc tA ++ tproject notc uB)) as (m & Em & Hm).
      pose proof (fun n => tget_build_tuple n (tproject notc tA) (tproject notc uB)
                             (filter_asorted' _ _ HtA) (filter_asorted' _ _ HuB)) as Hb.
      rewrite Em in *. f_equal.
      apply asorted_ext; [apply asort_sorted | exact Hm|]. intros nm. rewrite LHS, Hb.
      unfold tproject. rewrite !(tget_filter nm notc), HfA, HfB. unfold notc. rewrite Hc'.
      cbn [fst snd]. rewrite !name_in_minus, name_in_common.
      apply (Fin nm). intros a b Ea Eb Ha0 Hb0 Ha1 Hb1 Hab. rewrite Ea, Eb.
      destruct a, b; cbn [andb negb]; close_case fA fB nm.
    - (* -&- *)
      f_equal. apply asorted_ext; [apply asort_sorted | apply filter_asorted', HtA|]. intros nm. rewrite LHS.
      unfold tproject. rewrite (tget_filter nm (fun n => name_in n common')), HfA, Hc'.
      cbn [fst snd]; rewrite ?name_in_nil. rewrite name_in_common.
      apply (Fin nm). intros a b Ea Eb Ha0 Hb0 Ha1 Hb1 Hab. rewrite Ea, Eb.
      destruct a, b; cbn [andb]; close_case fA fB nm.
    - (* --- *)
      inversion FL; inversion FR; subst. reflexivity.
    - (* -&> *)
      f_equal. apply asorted_ext; [apply asort_sorted | exact HuB|]. intros nm. rewrite LHS, HfB.
      cbn [fst snd]; rewrite ?name_in_nil.
      apply (Fin nm). intros a b Ea Eb Ha0 Hb0 Ha1 Hb1 Hab. rewrite Eb.
      destruct a, b; close_case fA fB nm.
    - (* <&- *)
      f_equal. apply asorted_ext; [apply asort_sorted | exact HtA|]. intros nm. rewrite LHS, HfA.
      cbn [fst snd]; rewrite ?name_in_nil.
      apply (Fin nm). intros a b Ea Eb Ha0 Hb0 Ha1 Hb1 Hab. rewrite Ea.
      destruct a, b; close_case fA fB nm.
    - (* --> *)
      f_equal. apply asorted_ext; [apply asort_sorted | apply filter_asorted', HuB|]. intros nm. rewrite LHS.
      unfold tproject. rewrite (tget_filter nm (fun n => negb (name_in n common'))), HfB, Hc'.
      cbn [fst snd]; rewrite ?name_in_nil. rewrite name_in_minus, name_in_common.
      apply (Fin nm). intros a b Ea Eb Ha0 Hb0 Ha1 Hb1 Hab. rewrite Ea, Eb.
      destruct a, b; cbn [andb negb]; close_case fA fB nm.
    - (* <-- *)
      f_equal. apply asorted_ext; [apply asort_sorted | apply filter_asorted', HtA|]. intros nm. rewrite LHS.
      unfold tproject. rewrite (tget_filter nm (fun n => negb (name_in n common'))), HfA, Hc'.
      cbn [fst snd]; rewrite ?name_in_nil. rewrite name_in_minus, name_in_common.
      apply (Fin nm). intros a b Ea Eb Ha0 Hb0 Ha1 Hb1 Hab. rewrite Ea, Eb.
      destruct a, b; cbn [andb negb]; close_case fA fB nm.
  Qed.
End Combine.

(* ---------- Relation.Join ---------- *)

Definition wf_jset (s : jset) : Prop := match s with JSRel r => wf_rel r | _ => True end.

(* the denotation of rows stored under a heading with the identity projector *)
Definition gen (attrs : list name) (rows : list row) : list val :=
  vsort (map (row_tuple attrs (seq 0 (length attrs))) rows).

Lemma row_tuple_id attrs (v : row) : length v = length attrs -> row_tuple attrs (seq 0 (length attrs)) v = mktup (combine attrs v).
Proof. intros H. unfold row_tuple. rewrite <- H, pick_seq_id. reflexivity. Qed.

Lemma name_in_ext n l l' : (forall x, In x l <-> In x l') -> name_in n l = name_in n l'.
Proof.
  intros H. destruct (name_in n l') eqn:E.
  - apply name_in_iff. apply H. apply name_in_iff, E.
  - apply name_in_false. intros Hin. apply H in Hin. apply name_in_iff in Hin. congruence.
Qed.

Lemma nodup_app {X} (a b : list X) : NoDup a -> NoDup b -> (forall x, In x a -> In x b -> False) -> NoDup (a ++ b).
Proof.
  intros Ha Hb H. induction Ha as [|x a Hx Ha IH]; [exact Hb|].
  cbn [app]. constructor.
  - rewrite in_app_iff. intros [H1|H1]; [contradiction | apply (H x (or_introl eq_refl) H1)].
  - apply IH. intros y H1 H2. apply (H y (or_intror H1) H2).
Qed.

Lemma name_eqb_sym_false a b : name_eqb a b = false -> name_eqb b a = false.
Proof.
  intros H. destruct (name_eqb b a) eqn:E; [|reflexivity]. apply name_eqb_eq in E. subst. rewrite name_eqb_refl in H. discriminate.
Qed.

Lemma finish_join_den lo ro rows :
  NoDup (lo ++ ro) -> width_is rows (length (lo ++ ro)) -> NoDup rows -> rows <> [] ->
  den (finish_join lo ro rows) = VSet (gen (lo ++ ro) rows) /\ wf_jset (finish_join lo ro rows).
Proof.
  intros Hnd Hw Hndr Hne. unfold finish_join. rewrite <- app_length.
  set (attrs := lo ++ ro) in *.
  assert (Plain : den (JSRel {| r_attrs := attrs; r_p := seq 0 (length attrs); r_rows := rows |}) = VSet (gen attrs rows)
                  /\ wf_jset (JSRel {| r_attrs := attrs; r_p := seq 0 (length attrs); r_rows := rows |})).
  { split; [reflexivity|]. cbn [wf_jset]. unfold wf_rel. cbn [r_attrs r_p r_rows].
    repeat split; try assumption.
    - apply seq_length.
    - apply seq_NoDup.
    - intros i Hi. apply in_seq in Hi. lia. }
  destruct attrs as [|n0 [|n1 [|n2 attrs']]] eqn:Ea; try exact Plain.
  destruct (name_eqb n1 n_at) eqn:E1.
  - (* @ is the second stored column *)
    cbn [nth]. destruct (name_eqb n1 n_at && is_sugar_name n0) eqn:E2; [|exact Plain].
    split; [|exact I]. cbn [den]. unfold mkset, gen. f_equal. f_equal. apply map_ext_in. intros v Hv.
    specialize (Hw v Hv). cbn [length] in Hw. destruct v as [|x0 [|x1 [|x2 v']]]; try discriminate.
    apply name_eqb_eq in E1. subst n1.
    assert (Hne01 : name_eqb n0 n_at = false).
    { destruct (name_eqb n0 n_at) eqn:E; [|reflexivity]. apply name_eqb_eq in E. subst n0.
      inversion Hnd as [|? ? H1 _]; subst. exfalso. apply H1. left; reflexivity. }
    unfold row_tuple, mktup. cbn [length seq pick map nth combine]. f_equal.
    apply asorted_ext; [apply asort_sorted | apply asort_sorted|].
    intros n. rewrite !tget_asort, !tget_cons.
    destruct (name_eqb n n_at) eqn:En; [|reflexivity].
    apply name_eqb_eq in En. subst n. rewrite name_eqb_sym_false by exact Hne01. reflexivity.
  - cbn [nth]. destruct (name_eqb n0 n_at && is_sugar_name n1) eqn:E2; [|exact Plain].
    split; [|exact I]. cbn [den]. unfold mkset, gen. f_equal. f_equal. apply map_ext_in. intros v Hv.
    specialize (Hw v Hv). cbn [length] in Hw. destruct v as [|x0 [|x1 [|x2 v']]]; try discriminate.
    apply andb_true_iff in E2 as [E2 _]. apply name_eqb_eq in E2. subst n0.
    unfold row_tuple. cbn [length seq pick map nth combine]. reflexivity.
Qed.

Section Main.
  Variables (op : joinop) (a b : relation).
  Hypothesis Hwa : wf_rel a.
  Hypothesis Hwb : wf_rel b.
  Let A := r_attrs a.
  Let B := r_attrs b.
  Let common := ns_intersect A B.
  Let lo := fst (partitionNames op A B common).
  Let ro := snd (partitionNames op A B common).
  Let common' := filter (fun n => name_in n (nsort B)) (nsort A).

  Lemma common'_in nm : name_in nm common' = name_in nm A && name_in nm B.
  Proof.
    unfold common'. rewrite name_in_filter.
    rewrite (name_in_ext nm (nsort A) A (fun x => nsort_in x A)), (name_in_ext nm (nsort B) B (fun x => nsort_in x B)).
    reflexivity.
  Qed.

  Lemma common_in nm : In nm common <-> In nm A /\ In nm B.
  Proof. apply ns_intersect_in. Qed.

  (* rows t of a and u of b: agreement of their tuples on the common attributes is equality of the key cells *)
  Lemma agree_keys LK RK (t u : row) tA uB :
    Forall2 (col a) common LK -> Forall2 (col b) common RK ->
    (forall n, tget n tA = tget n (ra a t)) -> (forall n, tget n uB = tget n (ra b u)) ->
    (agree common' tA uB = true <-> pick LK t = pick RK u).
  Proof.
    intros FL FR HtA HuB.
    rewrite (cells_eq _ _ common _ _ (F2_cells a t common LK Hwa FL) (F2_cells b u common RK Hwb FR)).
    rewrite agree_spec. split.
    - intros H nm Hnm. apply common_in in Hnm as [H1 H2].
      assert (Hc : In nm common') by (apply name_in_iff; rewrite common'_in; apply andb_true_iff; split; apply name_in_iff; assumption).
      destruct (H nm Hc) as (x & E1 & E2). rewrite <- HtA, <- HuB. congruence.
    - intros H nm Hnm. apply name_in_iff in Hnm. rewrite common'_in in Hnm. apply andb_true_iff in Hnm as [H1 H2].
      apply name_in_iff in H1, H2.
      destruct (col_exists a Hwa nm H1) as (c & Hc). pose proof (col_tget a Hwa nm c t Hc) as E.
      exists (nth c t cell0). rewrite HtA, HuB. split; [exact E|]. rewrite <- (H nm); [exact E | apply common_in; split; assumption].
  Qed.

  Theorem positional_join_refines_spec :
    exists s, join_rel op a b = JOk s /\ join_data op (abs a) (abs b) = Ok (den s) /\ wf_jset s.
  Proof.
    pose proof Hwa as (HndA & HlenA & HndpA & HrA & HwA & HndrA & HneA).
    pose proof Hwb as (HndB & HlenB & HndpB & HrB & HwB & HndrB & HneB).
    pose proof (partition_good op A B HndA HndB) as GP. cbv zeta in GP. fold common lo ro in GP.
    destruct GP as [Glo Gro Glond Grond Gdisj GpL GpR Gshape].
    assert (HcA : incl common A) by (intros nm H; apply common_in in H; tauto).
    assert (HcB : incl common B) by (intros nm H; apply common_in in H; tauto).
    destruct (getIndices_spec a Hwa common HcA) as (lki & Elk & Flk).
    destruct (getIndices_spec b Hwb common HcB) as (rki & Erk & Frk).
    destruct (getIndices_spec a Hwa lo Glo) as (loi & Elo & Flo).
    destruct (getIndices_spec b Hwb ro Gro) as (roi & Ero & Fro).
    set (LK := compose (r_p a) lki) in *. set (RK := compose (r_p b) rki) in *.
    set (LO := compose (r_p a) loi) in *. set (RO := compose (r_p b) roi) in *.
    (* the engine on these projectors *)
    destruct (positional_join_spec (r_rows a) (r_rows b) (length A) (length B) LK RK LO RO) as (rows & Erows & Hndrows & Hrows);
      try assumption.
    { apply (F2_inrange a Hwa _ _ Flk). } { apply (F2_inrange a Hwa _ _ Flo). }
    { apply (F2_inrange b Hwb _ _ Frk). } { apply (F2_inrange b Hwb _ _ Fro). }
    { rewrite <- (F2_length _ _ _ Flk), <- (F2_length _ _ _ Frk). reflexivity. }
    { unfold partial_key. destruct (_ || _) eqn:E; [|reflexivity]. exfalso.
      apply orb_true_iff in E as [E|E]; apply andb_true_iff in E as [E1 E2]; apply negb_true_iff in E1.
      - apply (F2_hasCommon a Hwa lo LO common LK Flo Flk) in E2 as (nm & H1 & H2).
        assert (X : isSubProjection LK LO = true) by (apply (F2_isSub a Hwa common LK lo LO Flk Flo HcA), (GpL nm H1 H2)). congruence.
      - apply (F2_hasCommon b Hwb ro RO common RK Fro Frk) in E2 as (nm & H1 & H2).
        assert (X : isSubProjection RK RO = true) by (apply (F2_isSub b Hwb common RK ro RO Frk Fro HcB), (GpR nm H1 H2)). congruence. }
    { unfold join_shape. destruct Gshape as [E|[E|[E1 E2]]].
      - left. rewrite E in Flo. inversion Flo. reflexivity.
      - right; left. rewrite E in Fro. inversion Fro. reflexivity.
      - right; right. split.
        + destruct (isSubProjection LO LK) eqn:E; [|reflexivity]. exfalso. apply E1, (F2_isSub a Hwa lo LO common LK Flo Flk Glo), E.
        + destruct (isSubProjection RO RK) eqn:E; [|reflexivity]. exfalso. apply E2, (F2_isSub b Hwb ro RO common RK Fro Frk Gro), E. }
    (* every resulting row has the width of the result heading *)
    assert (Hwrows : width_is rows (length (lo ++ ro))).
    { intros x Hx. apply Hrows in Hx as (t & u & _ & ->).
      rewrite !app_length, !pick_length, <- (F2_length _ _ _ Flo), <- (F2_length _ _ _ Fro). reflexivity. }
    assert (Hndlr : NoDup (lo ++ ro)) by (apply nodup_app; assumption).
    (* the specification side *)
    rewrite (join_data_nonempty op (abs a) (abs b) (abs_nonempty a HneA) (abs_nonempty b HneB)).
    rewrite (abs_heading a Hwa), (abs_heading b Hwb). cbv zeta. fold A B common'.
    (* both sides are the sorted list of the same members *)
    assert (Hmem : forall x, In x (gen (lo ++ ro) rows) <->
              In x (flat_map (fun t => match t with
                                       | VTup t1 => flat_map (fun u => match u with
                                                                       | VTup u1 => if agree common' t1 u1 then [jcombine op common' t1 u1] else []
                                                                       | _ => []
                                                                       end) (abs b)
                                       | _ => []
                                       end) (abs a))).
    { intros x. unfold gen. rewrite vsort_in, in_map_iff. split.
      - intros (row & <- & Hrow). pose proof (Hwrows row Hrow) as Hlen. apply Hrows in Hrow as (t & u & (Ht & Hu & Hk) & ->).
        rewrite row_tuple_id by exact Hlen.
        destruct (row_tuple_names A (r_p a) t HlenA) as (tA & EtA & _ & HstA & HfA).
        destruct (row_tuple_names B (r_p b) u HlenB) as (uB & EuB & _ & HsuB & HfB).
        apply in_flat_map. exists (VTup tA). split; [apply abs_in; exists t; split; [exact Ht | symmetry; exact EtA]|].
        apply in_flat_map. exists (VTup uB). split; [apply abs_in; exists u; split; [exact Hu | symmetry; exact EuB]|].
        assert (Hag : agree common' tA uB = true) by (apply (agree_keys LK RK t u tA uB Flk Frk HfA HfB), Hk).
        rewrite Hag. left. symmetry.
        apply (jcombine_tuple op A B (fun nm => tget nm (ra a t)) (fun nm => tget nm (ra b u)) tA uB common' HstA HsuB HfA HfB).
        + intros nm H. apply (nocol_tget a Hwa). apply name_in_false, H.
        + intros nm H. apply (nocol_tget b Hwb). apply name_in_false, H.
        + intros nm H. apply name_in_iff in H. destruct (col_exists a Hwa nm H) as (c & Hc). unfold ra. rewrite (col_tget a Hwa nm c t Hc). discriminate.
        + intros nm H. apply name_in_iff in H. destruct (col_exists b Hwb nm H) as (c & Hc). unfold ra. rewrite (col_tget b Hwb nm c u Hc). discriminate.
        + intros nm H1 H2. apply name_in_iff in H1, H2.
          apply (proj1 (cells_eq _ _ common _ _ (F2_cells a t common LK Hwa Flk) (F2_cells b u common RK Hwb Frk)) Hk).
          apply common_in. split; assumption.
        + apply common'_in.
        + apply (F2_cells a t _ _ Hwa Flo).
        + apply (F2_cells b u _ _ Hwb Fro).
      - intros Hx. apply in_flat_map in Hx as (m & Hm & Hx). apply abs_in in Hm as (t & Ht & ->).
        destruct (row_tuple_names A (r_p a) t HlenA) as (tA & EtA & _ & HstA & HfA). fold A in Hx. rewrite EtA in Hx.
        apply in_flat_map in Hx as (m' & Hm' & Hx). apply abs_in in Hm' as (u & Hu & ->).
        destruct (row_tuple_names B (r_p b) u HlenB) as (uB & EuB & _ & HsuB & HfB). fold B in Hx. rewrite EuB in Hx.
        destruct (agree common' tA uB) eqn:Hag; [|destruct Hx]. destruct Hx as [<-|[]].
        pose proof (proj1 (agree_keys LK RK t u tA uB Flk Frk HfA HfB) Hag) as Hk.
        assert (Hrow : In (pick LO t ++ pick RO u) rows) by (apply Hrows; exists t, u; split; [split; [exact Ht | split; [exact Hu | exact Hk]] | reflexivity]).
        exists (pick LO t ++ pick RO u). split; [|exact Hrow].
        rewrite row_tuple_id by (apply Hwrows, Hrow).
        apply (jcombine_tuple op A B (fun nm => tget nm (ra a t)) (fun nm => tget nm (ra b u)) tA uB common' HstA HsuB HfA HfB).
        + intros nm H. apply (nocol_tget a Hwa). apply name_in_false, H.
        + intros nm H. apply (nocol_tget b Hwb). apply name_in_false, H.
        + intros nm H. apply name_in_iff in H. destruct (col_exists a Hwa nm H) as (c & Hc). unfold ra. rewrite (col_tget a Hwa nm c t Hc). discriminate.
        + intros nm H. apply name_in_iff in H. destruct (col_exists b Hwb nm H) as (c & Hc). unfold ra. rewrite (col_tget b Hwb nm c u Hc). discriminate.
        + intros nm H1 H2. apply name_in_iff in H1, H2.
          apply (proj1 (cells_eq _ _ common _ _ (F2_cells a t common LK Hwa Flk) (F2_cells b u common RK Hwb Frk)) Hk).
          apply common_in. split; assumption.
        + apply common'_in.
        + apply (F2_cells a t _ _ Hwa Flo).
        + apply (F2_cells b u _ _ Hwb Fro). }
    assert (Hgen : VSet (gen (lo ++ ro) rows) = mkset (flat_map (fun t => match t with
                                       | VTup t1 => flat_map (fun u => match u with
                                                                       | VTup u1 => if agree common' t1 u1 then [jcombine op common' t1 u1] else []
                                                                       | _ => []
                                                                       end) (abs b)
                                       | _ => []
                                       end) (abs a))).
    { unfold mkset. f_equal. apply ssorted_ext; [apply vsort_sorted | apply vsort_sorted|].
      intros x. rewrite Hmem, vsort_in. reflexivity. }
    rewrite <- Hgen.
    (* the implementation side *)
    unfold join_rel. cbv zeta. fold A B. fold common. destruct (partitionNames op A B common) as [lo0 ro0] eqn:EP.
    change lo0 with lo. change ro0 with ro. clear EP.
    unfold relation_join. rewrite (ns_hasIntersect_false lo ro Gdisj).
    unfold A, B in *. rewrite Elk, Erk, Elo, Ero. fold LK RK LO RO. rewrite Erows.
    assert (Fin : rows <> [] -> exists s, JOk (finish_join lo ro rows) = JOk s /\ Ok (VSet (gen (lo ++ ro) rows)) = Ok (den s) /\ wf_jset s).
    { intros Hne. destruct (finish_join_den lo ro rows Hndlr Hwrows Hndrows Hne) as [H1 H2].
      eexists. split; [reflexivity|]. split; [rewrite H1; reflexivity | exact H2]. }
    destruct rows as [|[|x0 v0] [|v1 rows']].
    - exists JSEmpty. repeat split.
    - exists JSTrue. split; [reflexivity|]. split; [|exact I].
      assert (E : lo ++ ro = []) by (apply length_zero_iff_nil; symmetry; apply (Hwrows [] (or_introl eq_refl))).
      rewrite E. reflexivity.
    - apply Fin. discriminate.
    - apply Fin. discriminate.
    - apply Fin. discriminate.
  Qed.
End Main.

(* ---------- corollaries ---------- *)

(* the result does not depend on how the operands are stored: any two representations of the same two
   denotations (other column order, other projector, other row order) give the same denotation *)
Corollary join_independent_of_layout op a a' b b' :
  wf_rel a -> wf_rel a' -> wf_rel b -> wf_rel b' -> abs a = abs a' -> abs b = abs b' ->
  exists s s', join_rel op a b = JOk s /\ join_rel op a' b' = JOk s' /\ den s = den s'.
Proof.
  intros Ha Ha' Hb Hb' Ea Eb.
  destruct (positional_join_refines_spec op a b Ha Hb) as (s & E1 & D1 & _).
  destruct (positional_join_refines_spec op a' b' Ha' Hb') as (s' & E2 & D2 & _).
  exists s, s'. split; [exact E1|]. split; [exact E2|]. rewrite Ea, Eb in D1. congruence.
Qed.

(* no index handed to a row by the engine lies outside the row (so the default cell of [pick] is never read
   and the Go code cannot panic with "index out of range" on a well-formed pair of operands) *)
Lemma join_indices_in_range op a b : wf_rel a -> wf_rel b ->
  let common := ns_intersect (r_attrs a) (r_attrs b) in
  let lo := fst (partitionNames op (r_attrs a) (r_attrs b) common) in
  let ro := snd (partitionNames op (r_attrs a) (r_attrs b) common) in
  exists lki rki loi roi,
    getIndices (r_attrs a) common = Some lki /\ getIndices (r_attrs b) common = Some rki /\
    getIndices (r_attrs a) lo = Some loi /\ getIndices (r_attrs b) ro = Some roi /\
    (forall v, In v (r_rows a) -> inrange (compose (r_p a) lki) (length v) /\ inrange (compose (r_p a) loi) (length v)) /\
    (forall v, In v (r_rows b) -> inrange (compose (r_p b) rki) (length v) /\ inrange (compose (r_p b) roi) (length v)).
Proof.
  intros Ha Hb common lo ro.
  pose proof Ha as (HndA & _ & _ & _ & HwA & _). pose proof Hb as (HndB & _ & _ & _ & HwB & _).
  destruct (partition_good op _ _ HndA HndB) as [Glo Gro _ _ _ _ _ _]. fold common lo ro in Glo, Gro.
  assert (HcA : incl common (r_attrs a)) by (intros nm H; apply ns_intersect_in in H; tauto).
  assert (HcB : incl common (r_attrs b)) by (intros nm H; apply ns_intersect_in in H; tauto).
  destruct (getIndices_spec a Ha common HcA) as (lki & Elk & Flk).
  destruct (getIndices_spec b Hb common HcB) as (rki & Erk & Frk).
  destruct (getIndices_spec a Ha lo Glo) as (loi & Elo & Flo).
  destruct (getIndices_spec b Hb ro Gro) as (roi & Ero & Fro).
  exists lki, rki, loi, roi. repeat split; try assumption.
  - rewrite (HwA v H). apply (F2_inrange a Ha _ _ Flk).
  - rewrite (HwA v H). apply (F2_inrange a Ha _ _ Flo).
  - rewrite (HwB v H). apply (F2_inrange b Hb _ _ Frk).
  - rewrite (HwB v H). apply (F2_inrange b Hb _ _ Fro).
Qed.

(* Count() of a Relation (the number of stored rows) is the cardinality of its denotation *)
Lemma row_tuple_inj r (v v' : row) : wf_rel r -> In v (r_rows r) -> In v' (r_rows r) ->
  row_tuple (r_attrs r) (r_p r) v = row_tuple (r_attrs r) (r_p r) v' -> v = v'.
Proof.
  intros Hwf Hv Hv' E. pose proof Hwf as (Hnd & Hlen & Hndp & Hr & Hw & _).
  destruct (row_tuple_names (r_attrs r) (r_p r) v Hlen) as (t & Et & _ & _ & Ht).
  destruct (row_tuple_names (r_attrs r) (r_p r) v' Hlen) as (t' & Et' & _ & _ & Ht').
  assert (Ett : t = t') by congruence. subst t'.
  assert (Hsurj : incl (seq 0 (length (r_attrs r))) (r_p r)).
  { apply NoDup_length_incl; [exact Hndp | rewrite seq_length; lia|].
    intros c Hc. apply in_seq. specialize (Hr c Hc). lia. }
  apply (nth_ext v v' cell0 cell0); [rewrite (Hw v Hv), (Hw v' Hv'); reflexivity|].
  intros c Hc. rewrite (Hw v Hv) in Hc.
  assert (Hin : In c (r_p r)) by (apply Hsurj, in_seq; lia).
  apply In_nth_error in Hin as (i & Hi).
  assert (Hlt : i < length (r_attrs r)) by (rewrite <- Hlen; apply nth_error_Some; congruence).
  apply nth_error_Some in Hlt. destruct (nth_error (r_attrs r) i) as [nm|] eqn:En; [|congruence].
  assert (Hc' : col r nm c) by (exists i; split; assumption).
  pose proof (col_tget r Hwf nm c v Hc') as E1. pose proof (col_tget r Hwf nm c v' Hc') as E2.
  rewrite <- Ht in E1. rewrite <- Ht' in E2. congruence.
Qed.

Lemma vsort_nodup_length l : NoDup l -> length (vsort l) = length l.
Proof.
  intros H. apply Nat.le_antisymm.
  - apply NoDup_incl_length; [apply ssorted_nodup, vsort_sorted | intros x Hx; apply vsort_in, Hx].
  - apply NoDup_incl_length; [exact H | intros x Hx; apply vsort_in, Hx].
Qed.

Theorem count_is_cardinality r : wf_rel r -> length (abs r) = length (r_rows r).
Proof.
  intros Hwf. pose proof Hwf as (_ & _ & _ & _ & _ & Hnd & _). unfold abs.
  rewrite vsort_nodup_length, map_length; [reflexivity|].
  assert (G : forall rows, NoDup rows -> incl rows (r_rows r) -> NoDup (map (row_tuple (r_attrs r) (r_p r)) rows)).
  { induction rows as [|v rows IH]; intros Hn Hi; [constructor|].
    inversion Hn as [|? ? Hv Hn']; subst. cbn [map]. constructor.
    - intros Hin. apply in_map_iff in Hin as (v' & E & Hv'). apply Hv.
      rewrite (row_tuple_inj r v v' Hwf); [exact Hv' | apply Hi; left; reflexivity | apply Hi; right; exact Hv' | symmetry; exact E].
    - apply IH; [exact Hn' | intros x Hx; apply Hi; right; exact Hx]. }
  apply G; [exact Hnd | apply incl_refl].
Qed.

(* ---------- listing the stored columns in another order ---------- *)

(* the same rows under a heading listed in the order q (attribute i of the new heading is attribute q[i]
   of the old one, its column follows) *)
Definition permute_cols (q : vproj) (r : relation) : relation :=
  {| r_attrs := map (fun i => nth i (r_attrs r) []) q;
     r_p := map (fun i => nth i (r_p r) 0) q;
     r_rows := r_rows r |}.

Definition is_perm (q : vproj) (n : nat) : Prop := NoDup q /\ length q = n /\ inrange q n.

Lemma nodup_map_nth {X} (l : list X) d q : NoDup l -> NoDup q -> inrange q (length l) -> NoDup (map (fun i => nth i l d) q).
Proof.
  intros Hl Hq Hr. induction Hq as [|i q Hi Hq IH]; [constructor|].
  cbn [map]. constructor.
  - intros Hin. apply in_map_iff in Hin as (j & E & Hj). apply Hi.
    assert (i = j); [|subst; exact Hj].
    apply (proj1 (NoDup_nth l d) Hl); [apply Hr; left; reflexivity | apply Hr; right; exact Hj | symmetry; exact E].
  - apply IH. intros j Hj. apply Hr. right; exact Hj.
Qed.

Lemma perm_surj q n i : is_perm q n -> i < n -> In i q.
Proof.
  intros (Hnd & Hlen & Hr) Hi.
  assert (Hincl : incl (seq 0 n) q).
  { apply NoDup_length_incl; [exact Hnd | rewrite seq_length; lia|]. intros c Hc. apply in_seq. specialize (Hr c Hc). lia. }
  apply Hincl, in_seq. lia.
Qed.

Lemma permute_cols_col q r nm c : wf_rel r -> is_perm q (length (r_attrs r)) -> (col (permute_cols q r) nm c <-> col r nm c).
Proof.
  intros Hwf Hq. pose proof Hwf as (_ & Hlen & _). pose proof Hq as (_ & _ & Hr). unfold col, permute_cols. cbn [r_attrs r_p]. split.
  - intros (j & H1 & H2).
    destruct (nth_error q j) as [i|] eqn:Ej.
    + rewrite (map_nth_error (fun i => nth i (r_attrs r) []) _ _ Ej) in H1. rewrite (map_nth_error (fun i => nth i (r_p r) 0) _ _ Ej) in H2.
      injection H1 as <-. injection H2 as <-.
      assert (Hi : i < length (r_attrs r)) by (apply Hr; eapply nth_error_In, Ej).
      exists i. split; apply nth_error_nth'; [exact Hi | rewrite Hlen; exact Hi].
    + apply nth_error_None in Ej. assert (X : nth_error (map (fun i => nth i (r_attrs r) []) q) j = None) by (apply nth_error_None; rewrite map_length; exact Ej). congruence.
  - intros (i & H1 & H2).
    assert (Hi : i < length (r_attrs r)) by (apply nth_error_Some; congruence).
    destruct (In_nth_error _ _ (perm_surj q _ i Hq Hi)) as (j & Ej).
    exists j. rewrite (map_nth_error (fun i => nth i (r_attrs r) []) _ _ Ej), (map_nth_error (fun i => nth i (r_p r) 0) _ _ Ej).
    split; f_equal; apply nth_error_nth; assumption.
Qed.

Theorem permute_cols_same_relation q r : wf_rel r -> is_perm q (length (r_attrs r)) ->
  wf_rel (permute_cols q r) /\ abs (permute_cols q r) = abs r.
Proof.
  intros Hwf Hq. pose proof Hwf as (Hnd & Hlen & Hndp & Hr & Hw & Hndr & Hne). pose proof Hq as (Hqnd & Hqlen & Hqr).
  assert (Hwf' : wf_rel (permute_cols q r)).
  { unfold wf_rel, permute_cols. cbn [r_attrs r_p r_rows]. rewrite !map_length, Hqlen.
    repeat split; try assumption.
    - apply nodup_map_nth; assumption.
    - apply nodup_map_nth; [assumption | assumption | rewrite Hlen; exact Hqr].
    - intros c Hc. apply in_map_iff in Hc as (i & <- & Hi). apply Hr. apply nth_In. rewrite Hlen. apply Hqr, Hi. }
  split; [exact Hwf'|].
  unfold abs. f_equal. cbn [permute_cols r_rows]. apply map_ext. intros v.
  change (row_tuple (r_attrs (permute_cols q r)) (r_p (permute_cols q r)) v = row_tuple (r_attrs r) (r_p r) v).
  unfold row_tuple, mktup. f_equal. apply asorted_ext; [apply asort_sorted | apply asort_sorted|].
  intros nm. rewrite !tget_asort.
  destruct (in_dec (list_eq_dec Z.eq_dec) nm (r_attrs r)) as [Hin|Hnin].
  - destruct (col_exists r Hwf nm Hin) as (c & Hc).
    fold (ra (permute_cols q r) v). fold (ra r v). unfold ra.
    rewrite (col_tget r Hwf nm c v Hc).
    apply (col_tget (permute_cols q r) Hwf' nm c v). apply (permute_cols_col q r nm c Hwf Hq), Hc.
  - rewrite (nocol_tget r Hwf nm v Hnin). apply (nocol_tget (permute_cols q r) Hwf' nm v).
    intros Hin. apply Hnin. cbn [permute_cols r_attrs] in Hin. apply in_map_iff in Hin as (i & <- & Hi).
    apply nth_In. apply Hqr, Hi.
Qed.

(* joins see through the order in which either operand lists its stored columns *)
Corollary join_ignores_column_order op a b qa qb :
  wf_rel a -> wf_rel b -> is_perm qa (length (r_attrs a)) -> is_perm qb (length (r_attrs b)) ->
  exists s s', join_rel op (permute_cols qa a) (permute_cols qb b) = JOk s' /\ join_rel op a b = JOk s /\ den s' = den s.
Proof.
  intros Ha Hb Hqa Hqb.
  destruct (permute_cols_same_relation qa a Ha Hqa) as [Ha' Ea]. destruct (permute_cols_same_relation qb b Hb Hqb) as [Hb' Eb].
  destruct (join_independent_of_layout op a (permute_cols qa a) b (permute_cols qb b) Ha Ha' Hb Hb' (eq_sym Ea) (eq_sym Eb)) as (s & s' & E1 & E2 & D).
  exists s, s'. split; [exact E2|]. split; [exact E1 | symmetry; exact D].
Qed.
