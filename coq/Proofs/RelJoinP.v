(* The positional join engine (Rep/RelJoin.v, transcribed from rel/value_set_relpos.go and
   rel/value_set_rel.go) refines the specification join of the reference semantics (property C04). *)
From Arrai Require Import Base.Val Spec.SetAlg Eval.Interp Proofs.ValOrder Proofs.SetAlgP Proofs.KeyedP Proofs.CanonP
  Proofs.RelP Rep.RelJoin.
Local Open Scope nat_scope.

(* ---------- rows and sets of rows ---------- *)

Lemma row_eqb_eq a b : row_eqb a b = true <-> a = b.
Proof.
  revert b; induction a as [|x a IH]; intros [|y b]; simpl; try (split; congruence).
  rewrite andb_true_iff, veqb_eq, IH. split; [intros [-> ->]; reflexivity | intros H; injection H; auto].
Qed.

Lemma rs_has_in v s : rs_has v s = true <-> In v s.
Proof.
  unfold rs_has. rewrite existsb_exists. split.
  - intros (x & Hx & E). apply row_eqb_eq in E. subst; assumption.
  - intros H. exists v. split; [assumption | apply row_eqb_eq; reflexivity].
Qed.

Lemma rs_add_in s v x : In x (rs_add s v) <-> In x s \/ x = v.
Proof.
  unfold rs_add. destruct (rs_has v s) eqn:E.
  - apply rs_has_in in E. split; [auto | intros [H| ->]; assumption].
  - rewrite in_app_iff. simpl. intuition.
Qed.

Lemma rs_add_nodup s v : NoDup s -> NoDup (rs_add s v).
Proof.
  intros H. unfold rs_add. destruct (rs_has v s) eqn:E; [assumption|].
  assert (Hn : ~ In v s) by (rewrite <- rs_has_in, E; discriminate).
  clear E. induction H as [|y s Hy Hs IH]; simpl.
  - constructor; [intros [] | constructor].
  - constructor.
    + rewrite in_app_iff. simpl. intros [H|[H|[]]]; [contradiction | subst; apply Hn; left; reflexivity].
    + apply IH. intros H; apply Hn; right; assumption.
Qed.

Lemma rs_fold_in l : forall acc x, In x (fold_left rs_add l acc) <-> In x acc \/ In x l.
Proof.
  induction l as [|v l IH]; intros acc x; simpl; [intuition|].
  rewrite IH, rs_add_in. intuition.
Qed.

Lemma rs_fold_nodup l : forall acc, NoDup acc -> NoDup (fold_left rs_add l acc).
Proof. induction l as [|v l IH]; intros acc H; simpl; [assumption | apply IH, rs_add_nodup, H]. Qed.

Lemma rs_of_list_in l x : In x (rs_of_list l) <-> In x l.
Proof. unfold rs_of_list. rewrite rs_fold_in. simpl. intuition. Qed.

Lemma rs_of_list_nodup l : NoDup (rs_of_list l).
Proof. apply rs_fold_nodup. constructor. Qed.

(* ---------- projectors ---------- *)

Lemma pmem_in i p : pmem i p = true <-> In i p.
Proof.
  unfold pmem. rewrite existsb_exists. split.
  - intros (x & Hx & E). apply Nat.eqb_eq in E. subst; assumption.
  - intros H. exists i. split; [assumption | apply Nat.eqb_refl].
Qed.

Lemma isSub_spec p q : isSubProjection p q = true <-> forall i, In i p -> In i q.
Proof.
  unfold isSubProjection. rewrite forallb_forall. split; intros H i Hi.
  - apply pmem_in, H, Hi.
  - apply pmem_in, H, Hi.
Qed.

Lemma hasCommon_spec p q : hasCommonIndices p q = true <-> exists i, In i p /\ In i q.
Proof.
  unfold hasCommonIndices. destruct (length q <? length p); rewrite existsb_exists.
  - split; [intros (i & Hi & E); apply pmem_in in E; eauto | intros (i & H1 & H2); exists i; split; [|apply pmem_in]; assumption].
  - split; [intros (i & Hi & E); apply pmem_in in E; eauto | intros (i & H1 & H2); exists i; split; [|apply pmem_in]; assumption].
Qed.

Lemma proj_eqb_eq p q : proj_eqb p q = true <-> p = q.
Proof.
  revert q; induction p as [|a p IH]; intros [|b q]; simpl; try (split; congruence).
  rewrite andb_true_iff, Nat.eqb_eq, IH. split; [intros [-> ->]; reflexivity | intros H; injection H; auto].
Qed.

Lemma contiguous_seq a p : isContiguous (a :: p) = true -> a :: p = seq a (S (length p)).
Proof.
  revert a; induction p as [|b p IH]; intros a H; [reflexivity|].
  cbn [isContiguous] in H. apply andb_true_iff in H as [E H]. apply Nat.eqb_eq in E. subst b.
  cbn [seq length]. f_equal. apply IH, H.
Qed.

Lemma last_seq a n : last (seq a (S n)) 0 = a + n.
Proof.
  revert a; induction n as [|n IH]; intros a; [simpl; lia|].
  change (seq a (S (S n))) with (a :: seq (S a) (S n)).
  assert (E : forall x l, l <> [] -> last (x :: l) 0 = last l 0) by (intros x [|y l] H; [congruence | reflexivity]).
  rewrite E by (simpl; discriminate). rewrite IH. lia.
Qed.

Lemma slice_pick (v : row) a n : a + n <= length v -> firstn n (skipn a v) = pick (seq a n) v.
Proof.
  revert v n; induction a as [|a IH]; intros v n H.
  - simpl skipn. revert v H; induction n as [|n IHn]; intros v H; [reflexivity|].
    destruct v as [|x v]; [simpl in H; lia|]. unfold pick in *. simpl. f_equal.
    rewrite (IHn v) by (simpl in H; lia). rewrite <- seq_shift, map_map. reflexivity.
  - destruct v as [|x v]; [simpl in H; lia|]. simpl skipn. rewrite IH by (simpl in H; lia).
    unfold pick. rewrite <- seq_shift, map_map. reflexivity.
Qed.

Definition inrange (p : vproj) (w : nat) : Prop := forall i, In i p -> i < w.

Lemma contiguous_slice p (v : row) :
  p <> [] -> isContiguous p = true -> inrange p (length v) -> slice v (hd 0 p) (last p 0 + 1) = pick p v.
Proof.
  destruct p as [|a p]; [congruence|]. intros _ Hc Hr.
  pose proof (contiguous_seq _ _ Hc) as E.
  assert (Hl : last (a :: p) 0 = a + length p) by (rewrite E at 1; apply last_seq).
  assert (Hin : In (a + length p) (a :: p)) by (rewrite E; apply in_seq; lia).
  apply Hr in Hin. unfold slice. rewrite Hl. cbn [hd].
  replace (a + length p + 1 - a) with (S (length p)) by lia.
  rewrite slice_pick by lia. rewrite <- E. reflexivity.
Qed.

Lemma pv_values_pick p (v : row) : inrange p (length v) -> pv_values p v = pick p v.
Proof.
  intros Hr. unfold pv_values. destruct p as [|a p]; [reflexivity|].
  cbn [length Nat.eqb orb]. destruct (length v =? 0) eqn:E.
  - apply Nat.eqb_eq in E. specialize (Hr a (or_introl eq_refl)). lia.
  - destruct (isContiguous (a :: p)) eqn:Hc; [|reflexivity].
    apply contiguous_slice; [discriminate | assumption | assumption].
Qed.

Lemma mapper_key_pick p (v : row) : p <> [] -> inrange p (length v) -> mapper_key p v = pick p v.
Proof.
  intros Hp Hr. unfold mapper_key. destruct (isContiguous p) eqn:Hc; [|reflexivity].
  apply contiguous_slice; assumption.
Qed.

Lemma pick_length p (v : row) : length (pick p v) = length p.
Proof. apply map_length. Qed.

Lemma pick_seq_id (v : row) : pick (seq 0 (length v)) v = v.
Proof.
  unfold pick. induction v as [|x v IH]; [reflexivity|].
  cbn [length seq map nth]. f_equal. rewrite <- seq_shift, map_map. exact IH.
Qed.

Lemma pick_pick p q (v : row) : inrange q (length p) -> pick q (pick p v) = pick (map (fun i => nth i p 0) q) v.
Proof.
  intros Hr. unfold pick. rewrite map_map. apply map_ext_in. intros i Hi.
  rewrite (nth_indep _ cell0 ((fun i => nth i v cell0) 0)) by (rewrite map_length; apply Hr, Hi).
  rewrite (map_nth (fun i => nth i v cell0)). reflexivity.
Qed.

(* ---------- groupBy ---------- *)

  Lemma gm_add_keys k v m x : In x (map fst (gm_add k v m)) <-> In x (map fst m) \/ x = k.
  Proof.
    induction m as [|[k' s] m IH]; simpl; [intuition|].
    destruct (row_eqb k k') eqn:E; simpl.
    - apply row_eqb_eq in E. subst. intuition.
    - rewrite IH. intuition.
  Qed.

  Lemma gm_add_in k v m k1 s1 :
    In (k1, s1) (gm_add k v m) ->
    In (k1, s1) m \/ (k1 = k /\ s1 = [v] /\ ~ In k (map fst m)) \/ (k1 = k /\ exists s0, In (k, s0) m /\ s1 = rs_add s0 v).
  Proof.
    induction m as [|[k' s] m IH]; simpl.
    - intros [H|[]]. injection H as <- <-. right; left. intuition.
    - destruct (row_eqb k k') eqn:E.
      + apply row_eqb_eq in E. subst k'. intros [H|H].
        * injection H as <- <-. right; right. split; [reflexivity|]. exists s. split; [left; reflexivity | reflexivity].
        * left; right; assumption.
      + assert (Hne : k' <> k) by (intros ->; rewrite (proj2 (row_eqb_eq k k) eq_refl) in E; discriminate).
        intros [H|H]; [left; left; assumption|].
        apply IH in H as [H|[(-> & -> & Hn)|(-> & s0 & Hs0 & ->)]].
        * left; right; assumption.
        * right; left. repeat split; try reflexivity. intros [Hk|Hk]; [apply Hne, Hk | apply Hn, Hk].
        * right; right. split; [reflexivity|]. exists s0. split; [right; assumption | reflexivity].
  Qed.

  Lemma gm_add_has k v m : exists s, In (k, s) (gm_add k v m) /\ In v s.
  Proof.
    induction m as [|[k' s] m IH]; simpl.
    - exists [v]. split; left; reflexivity.
    - destruct (row_eqb k k') eqn:E.
      + apply row_eqb_eq in E. subst k'. exists (rs_add s v). split; [left; reflexivity | apply rs_add_in; right; reflexivity].
      + destruct IH as (s0 & H1 & H2). exists s0. split; [right; assumption | assumption].
  Qed.

  Lemma gm_add_mono k v m k1 s1 : In (k1, s1) m -> exists s2, In (k1, s2) (gm_add k v m) /\ forall x, In x s1 -> In x s2.
  Proof.
    induction m as [|[k' s] m IH]; simpl; [intros []|].
    destruct (row_eqb k k') eqn:E.
    - apply row_eqb_eq in E. subst k'. intros [H|H].
      + injection H as <- <-. exists (rs_add s v). split; [left; reflexivity | intros x Hx; apply rs_add_in; left; assumption].
      + exists s1. split; [right; assumption | auto].
    - intros [H|H].
      + exists s1. split; [left; assumption | auto].
      + destruct (IH H) as (s2 & H1 & H2). exists s2. split; [right; assumption | assumption].
  Qed.

  Lemma gm_add_nodup k v m : NoDup (map fst m) -> NoDup (map fst (gm_add k v m)).
  Proof.
    induction m as [|[k' s] m IH]; simpl; intros H.
    - constructor; [intros [] | constructor].
    - destruct (row_eqb k k') eqn:E; simpl; [assumption|].
      inversion H as [|? ? Hn Hm]; subst. constructor; [|apply IH, Hm].
      rewrite gm_add_keys. intros [H1| ->]; [contradiction|].
      rewrite (proj2 (row_eqb_eq k k) eq_refl) in E. discriminate.
  Qed.

Section GroupBy.
  Variable key : row -> row.

  Definition gm_inv (m : gmap) (P : row -> Prop) : Prop :=
    NoDup (map fst m)
    /\ (forall k s, In (k, s) m -> forall v, In v s -> P v /\ key v = k)
    /\ (forall v, P v -> exists s, In (key v, s) m /\ In v s).

  Lemma gm_add_inv m P v : gm_inv m P -> gm_inv (gm_add (key v) v m) (fun x => P x \/ x = v).
  Proof.
    intros (Hnd & Hs & Hc). split; [apply gm_add_nodup, Hnd|]. split.
    - intros k s Hin x Hx. apply gm_add_in in Hin as [Hin|[(-> & -> & _)|(-> & s0 & Hs0 & ->)]].
      + destruct (Hs k s Hin x Hx) as [H1 H2]. split; [left; assumption | assumption].
      + destruct Hx as [<-|[]]. split; [right; reflexivity | reflexivity].
      + apply rs_add_in in Hx as [Hx| ->].
        * destruct (Hs _ _ Hs0 x Hx) as [H1 H2]. split; [left; assumption | assumption].
        * split; [right; reflexivity | reflexivity].
    - intros x [Hx| ->].
      + destruct (Hc x Hx) as (s & H1 & H2). destruct (gm_add_mono (key v) v m _ _ H1) as (s2 & H3 & H4).
        exists s2. split; [assumption | apply H4, H2].
      + apply gm_add_has.
  Qed.

  Lemma gm_fold_inv rest : forall m P,
    gm_inv m P -> gm_inv (fold_left (fun m v => gm_add (key v) v m) rest m) (fun x => P x \/ In x rest).
  Proof.
    induction rest as [|v rest IH]; intros m P H; simpl.
    - destruct H as (H1 & H2 & H3). split; [assumption|]. split.
      + intros k s Hin x Hx. destruct (H2 k s Hin x Hx). split; [left; assumption | assumption].
      + intros x [Hx|[]]. apply H3, Hx.
    - pose proof (IH _ _ (gm_add_inv m P v H)) as (H1 & H2 & H3). split; [assumption|]. split.
      + intros k s Hin x Hx. destruct (H2 k s Hin x Hx) as [[[Hp|Hp]|Hp] Hk]; split; auto.
      + intros x [Hx|[Hx|Hx]]; apply H3; auto.
  Qed.
End GroupBy.

Lemma fold_left_ext_in {A B} (f g : A -> B -> A) l : (forall a x, In x l -> f a x = g a x) ->
  forall a, fold_left f l a = fold_left g l a.
Proof.
  induction l as [|x l IH]; intros H a; simpl; [reflexivity|].
  rewrite (H a x (or_introl eq_refl)). apply IH. intros a' y Hy. apply H. right; assumption.
Qed.

(* all rows of a positional relation have width w *)
Definition width_is (rows : list row) (w : nat) : Prop := forall v, In v rows -> length v = w.

Lemma groupBy_inv rows p w : width_is rows w -> inrange p w -> gm_inv (pick p) (groupBy rows p) (fun v => In v rows).
Proof.
  intros Hw Hr. unfold groupBy. destruct p as [|a p].
  - cbn [length Nat.eqb]. split; [constructor; [intros [] | constructor]|]. split.
    + intros k s [H|[]] v Hv. injection H as <- <-. split; [assumption | reflexivity].
    + intros v Hv. exists rows. split; [left; reflexivity | assumption].
  - cbn [length Nat.eqb].
    rewrite (fold_left_ext_in _ (fun m v => gm_add (pick (a :: p) v) v m)).
    + pose proof (gm_fold_inv (pick (a :: p)) rows [] (fun _ => False)) as H.
      destruct H as (H1 & H2 & H3).
      { split; [constructor|]. split; [intros k s [] | intros v []]. }
      split; [assumption|]. split.
      * intros k s Hin v Hv. destruct (H2 k s Hin v Hv) as [[[]|Hp] Hk]. split; assumption.
      * intros v Hv. apply H3. right; assumption.
    + intros m v Hv. rewrite mapper_key_pick; [reflexivity | discriminate | rewrite (Hw v Hv); exact Hr].
Qed.

Lemma gm_get_in k m s : gm_get k m = Some s -> In (k, s) m.
Proof.
  induction m as [|[k' s'] m IH]; simpl; [discriminate|].
  destruct (row_eqb k k') eqn:E.
  - apply row_eqb_eq in E. subst. intros H; injection H as ->. left; reflexivity.
  - intros H. right. apply IH, H.
Qed.

Lemma in_gm_get k m s : NoDup (map fst m) -> In (k, s) m -> gm_get k m = Some s.
Proof.
  induction m as [|[k' s'] m IH]; simpl; [intros _ []|].
  intros Hnd [H|H].
  - injection H as -> ->. rewrite (proj2 (row_eqb_eq k k) eq_refl). reflexivity.
  - inversion Hnd as [|? ? Hn Hm]; subst. destruct (row_eqb k k') eqn:E.
    + apply row_eqb_eq in E. subst k'. exfalso. apply Hn. apply (in_map fst) in H. exact H.
    + apply IH; assumption.
Qed.

Lemma gm_fold_nonempty (f : row -> row) rest : forall m, (forall k s, In (k, s) m -> s <> []) ->
  forall k s, In (k, s) (fold_left (fun m v => gm_add (f v) v m) rest m) -> s <> [].
Proof.
  induction rest as [|v rest IH]; intros m Hm k0 s0 Hin; simpl in Hin; [eapply Hm; exact Hin|].
  eapply IH; [|exact Hin]. intros k1 s1 H1. apply gm_add_in in H1 as [H1|[(_ & -> & _)|(_ & s2 & _ & ->)]].
  - eapply Hm; exact H1.
  - discriminate.
  - intros Hx. assert (Hv : In v (rs_add s2 v)) by (apply rs_add_in; right; reflexivity). rewrite Hx in Hv. destruct Hv.
Qed.

(* a key is present exactly when some row projects onto it *)
Lemma groupBy_has rows p w k : rows <> [] -> width_is rows w -> inrange p w ->
  gm_has k (groupBy rows p) = true <-> exists v, In v rows /\ pick p v = k.
Proof.
  intros Hne Hw Hr. pose proof (groupBy_inv rows p w Hw Hr) as (Hnd & Hs & Hc).
  unfold gm_has. split.
  - destruct (gm_get k (groupBy rows p)) as [s|] eqn:E; [intros _ | discriminate].
    apply gm_get_in in E. destruct s as [|v s].
    + (* an empty group only exists for the empty projector over no rows *)
      exfalso. unfold groupBy in E. destruct p as [|a p]; cbn [length Nat.eqb] in E.
      * destruct E as [E|[]]. injection E as _ E. apply Hne. exact E.
      * destruct rows as [|v0 rows]; [contradiction|].
        destruct (Hc v0 (or_introl eq_refl)) as (s0 & _ & _).
        eapply gm_fold_nonempty in E; [congruence | intros ? ? []].
    + destruct (Hs k _ E v (or_introl eq_refl)) as [H1 H2]. exists v. split; assumption.
  - intros (v & Hv & <-). destruct (Hc v Hv) as (s & H1 & _).
    rewrite (in_gm_get _ _ _ Hnd H1). reflexivity.
Qed.

(* ---------- the four strategies ---------- *)

Section Strategies.
  Variables (r r2 : list row) (w1 w2 : nat) (lk rk lo ro : vproj).
  Hypothesis Hw1 : width_is r w1.
  Hypothesis Hw2 : width_is r2 w2.
  Hypothesis Hne1 : r <> [].
  Hypothesis Hne2 : r2 <> [].
  Hypothesis Hlk : inrange lk w1.
  Hypothesis Hlo : inrange lo w1.
  Hypothesis Hrk : inrange rk w2.
  Hypothesis Hro : inrange ro w2.

  Definition matching (t u : row) : Prop := In t r /\ In u r2 /\ pick lk t = pick rk u.

  Lemma pvL p t : inrange p w1 -> In t r -> pv_values p t = pick p t.
  Proof. intros Hp Ht. apply pv_values_pick. rewrite (Hw1 t Ht). exact Hp. Qed.
  Lemma pvR p u : inrange p w2 -> In u r2 -> pv_values p u = pick p u.
  Proof. intros Hp Hu. apply pv_values_pick. rewrite (Hw2 u Hu). exact Hp. Qed.

  Lemma keepEverything_spec x :
    In x (joinKeepEverything r r2 lk rk lo ro) <-> exists t u, matching t u /\ x = pick lo t ++ pick ro u.
  Proof.
    pose proof (groupBy_inv r lk w1 Hw1 Hlk) as (Hnd1 & Hs1 & Hc1).
    pose proof (groupBy_inv r2 rk w2 Hw2 Hrk) as (Hnd2 & Hs2 & Hc2).
    unfold joinKeepEverything. rewrite rs_of_list_in, in_flat_map. split.
    - intros ([k ls] & He & Hx). cbn [fst snd] in Hx.
      destruct (gm_get k (groupBy r2 rk)) as [rs|] eqn:E; [|destruct Hx].
      apply gm_get_in in E. apply in_flat_map in Hx as (t & Ht & Hx). apply in_map_iff in Hx as (u & <- & Hu).
      destruct (Hs1 _ _ He t Ht) as [Ht1 Ht2]. destruct (Hs2 _ _ E u Hu) as [Hu1 Hu2].
      exists t, u. split; [split; [assumption | split; [assumption | congruence]]|].
      rewrite (pvL lo t Hlo Ht1), (pvR ro u Hro Hu1). reflexivity.
    - intros (t & u & (Ht & Hu & Hk) & ->).
      destruct (Hc1 t Ht) as (ls & H1 & H2). destruct (Hc2 u Hu) as (rs & H3 & H4).
      exists (pick lk t, ls). split; [assumption|]. cbn [fst snd].
      rewrite Hk. rewrite (in_gm_get _ _ _ Hnd2 H3).
      apply in_flat_map. exists t. split; [assumption|]. apply in_map_iff. exists u. split; [|assumption].
      rewrite (pvL lo t Hlo Ht), (pvR ro u Hro Hu). reflexivity.
  Qed.

  Lemma ifCommonExist_spec :
    joinIfCommonExist r r2 lk rk = [[]] /\ (exists t u, matching t u)
    \/ joinIfCommonExist r r2 lk rk = [] /\ ~ (exists t u, matching t u).
  Proof.
    unfold joinIfCommonExist. destruct (length r2 <? length r).
    - destruct (existsb _ r) eqn:E.
      + left. split; [reflexivity|]. apply existsb_exists in E as (t & Ht & E).
        rewrite (pvL lk t Hlk Ht) in E. apply (groupBy_has r2 rk w2 _ Hne2 Hw2 Hrk) in E as (u & Hu & Hk).
        exists t, u. split; [assumption | split; [assumption | congruence]].
      + right. split; [reflexivity|]. intros (t & u & Ht & Hu & Hk).
        assert (X : existsb (fun v => gm_has (pv_values lk v) (groupBy r2 rk)) r = true); [|congruence].
        apply existsb_exists. exists t. split; [assumption|]. rewrite (pvL lk t Hlk Ht).
        apply (groupBy_has r2 rk w2 _ Hne2 Hw2 Hrk). exists u. split; [assumption | congruence].
    - destruct (existsb _ r2) eqn:E.
      + left. split; [reflexivity|]. apply existsb_exists in E as (u & Hu & E).
        rewrite (pvR rk u Hrk Hu) in E. apply (groupBy_has r lk w1 _ Hne1 Hw1 Hlk) in E as (t & Ht & Hk).
        exists t, u. split; [assumption | split; [assumption | congruence]].
      + right. split; [reflexivity|]. intros (t & u & Ht & Hu & Hk).
        assert (X : existsb (fun v => gm_has (pv_values rk v) (groupBy r lk)) r2 = true); [|congruence].
        apply existsb_exists. exists u. split; [assumption|]. rewrite (pvR rk u Hrk Hu).
        apply (groupBy_has r lk w1 _ Hne1 Hw1 Hlk). exists t. split; [assumption | congruence].
  Qed.
End Strategies.
