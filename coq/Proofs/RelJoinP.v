(* The positional join engine (Rep/RelJoin.v, transcribed from rel/value_set_relpos.go and
   rel/value_set_rel.go) refines the specification join of the reference semantics (property C04). *)
From Arrai Require Import Base.Val Spec.SetAlg Eval.Interp Proofs.ValOrder Proofs.SetAlgP Proofs.KeyedP Proofs.CanonP
  Proofs.RelP Rep.RelJoin.
Local Open Scope nat_scope.

(* ---------- rows and sets of rows ---------- *)

Lemma row_eqb_eq a b : row_eqb a b = true <-> a = b.
Proof.
  revert b; induction a as [|x a IH]; intros [|y b]; simpl; try (split; congruence).
  rewrite andb_true_iff, veqb_eq, IH. split; [intros [-> ->]; reflexivity | intros H; injection H; auto].
Qed.

Lemma rs_has_in v s : rs_has v s = true <-> In v s.
Proof.
  unfold rs_has. rewrite existsb_exists. split.
  - intros (x & Hx & E). apply row_eqb_eq in E. subst; assumption.
  - intros H. exists v. split; [assumption | apply row_eqb_eq; reflexivity].
Qed.

Lemma rs_add_in s v x : In x (rs_add s v) <-> In x s \/ x = v.
Proof.
  unfold rs_add. destruct (rs_has v s) eqn:E.
  - apply rs_has_in in E. split; [auto | intros [H| ->]; assumption].
  - rewrite in_app_iff. simpl. intuition.
Qed.

Lemma rs_add_nodup s v : NoDup s -> NoDup (rs_add s v).
Proof.
  intros H. unfold rs_add. destruct (rs_has v s) eqn:E; [assumption|].
  assert (Hn : ~ In v s) by (rewrite <- rs_has_in, E; discriminate).
  clear E. induction H as [|y s Hy Hs IH]; simpl.
  - constructor; [intros [] | constructor].
  - constructor.
    + rewrite in_app_iff. simpl. intros [H|[H|[]]]; [contradiction | subst; apply Hn; left; reflexivity].
    + apply IH. intros H; apply Hn; right; assumption.
Qed.

Lemma rs_fold_in l : forall acc x, In x (fold_left rs_add l acc) <-> In x acc \/ In x l.
Proof.
  induction l as [|v l IH]; intros acc x; simpl; [intuition|].
  rewrite IH, rs_add_in. intuition.
Qed.

Lemma rs_fold_nodup l : forall acc, NoDup acc -> NoDup (fold_left rs_add l acc).
Proof. induction l as [|v l IH]; intros acc H; simpl; [assumption | apply IH, rs_add_nodup, H]. Qed.

Lemma rs_of_list_in l x : In x (rs_of_list l) <-> In x l.
Proof. unfold rs_of_list. rewrite rs_fold_in. simpl. intuition. Qed.

Lemma rs_of_list_nodup l : NoDup (rs_of_list l).
Proof. apply rs_fold_nodup. constructor. Qed.

(* ---------- projectors ---------- *)

Lemma pmem_in i p : pmem i p = true <-> In i p.
Proof.
  unfold pmem. rewrite existsb_exists. split.
  - intros (x & Hx & E). apply Nat.eqb_eq in E. subst; assumption.
  - intros H. exists i. split; [assumption | apply Nat.eqb_refl].
Qed.

Lemma isSub_spec p q : isSubProjection p q = true <-> forall i, In i p -> In i q.
Proof.
  unfold isSubProjection. rewrite forallb_forall. split; intros H i Hi.
  - apply pmem_in, H, Hi.
  - apply pmem_in, H, Hi.
Qed.

Lemma hasCommon_spec p q : hasCommonIndices p q = true <-> exists i, In i p /\ In i q.
Proof.
  unfold hasCommonIndices. destruct (length q <? length p); rewrite existsb_exists.
  - split; [intros (i & Hi & E); apply pmem_in in E; eauto | intros (i & H1 & H2); exists i; split; [|apply pmem_in]; assumption].
  - split; [intros (i & Hi & E); apply pmem_in in E; eauto | intros (i & H1 & H2); exists i; split; [|apply pmem_in]; assumption].
Qed.

Lemma proj_eqb_eq p q : proj_eqb p q = true <-> p = q.
Proof.
  revert q; induction p as [|a p IH]; intros [|b q]; simpl; try (split; congruence).
  rewrite andb_true_iff, Nat.eqb_eq, IH. split; [intros [-> ->]; reflexivity | intros H; injection H; auto].
Qed.

Lemma contiguous_seq a p : isContiguous (a :: p) = true -> a :: p = seq a (S (length p)).
Proof.
  revert a; induction p as [|b p IH]; intros a H; [reflexivity|].
  cbn [isContiguous] in H. apply andb_true_iff in H as [E H]. apply Nat.eqb_eq in E. subst b.
  cbn [seq length]. f_equal. apply IH, H.
Qed.

Lemma last_seq a n : last (seq a (S n)) 0 = a + n.
Proof.
  revert a; induction n as [|n IH]; intros a; [simpl; lia|].
  change (seq a (S (S n))) with (a :: seq (S a) (S n)).
  assert (E : forall x l, l <> [] -> last (x :: l) 0 = last l 0) by (intros x [|y l] H; [congruence | reflexivity]).
  rewrite E by (simpl; discriminate). rewrite IH. lia.
Qed.

Lemma slice_pick (v : row) a n : a + n <= length v -> firstn n (skipn a v) = pick (seq a n) v.
Proof.
  revert v n; induction a as [|a IH]; intros v n H.
  - simpl skipn. revert v H; induction n as [|n IHn]; intros v H; [reflexivity|].
    destruct v as [|x v]; [simpl in H; lia|]. unfold pick in *. simpl. f_equal.
    rewrite (IHn v) by (simpl in H; lia). rewrite <- seq_shift, map_map. reflexivity.
  - destruct v as [|x v]; [simpl in H; lia|]. simpl skipn. rewrite IH by (simpl in H; lia).
    unfold pick. rewrite <- seq_shift, map_map. reflexivity.
Qed.

Definition inrange (p : vproj) (w : nat) : Prop := forall i, In i p -> i < w.

Lemma contiguous_slice p (v : row) :
  p <> [] -> isContiguous p = true -> inrange p (length v) -> slice v (hd 0 p) (last p 0 + 1) = pick p v.
Proof.
  destruct p as [|a p]; [congruence|]. intros _ Hc Hr.
  pose proof (contiguous_seq _ _ Hc) as E.
  assert (Hl : last (a :: p) 0 = a + length p) by (rewrite E at 1; apply last_seq).
  assert (Hin : In (a + length p) (a :: p)) by (rewrite E; apply in_seq; lia).
  apply Hr in Hin. unfold slice. rewrite Hl. cbn [hd].
  replace (a + length p + 1 - a) with (S (length p)) by lia.
  rewrite slice_pick by lia. rewrite <- E. reflexivity.
Qed.

Lemma pv_values_pick p (v : row) : inrange p (length v) -> pv_values p v = pick p v.
Proof.
  intros Hr. unfold pv_values. destruct p as [|a p]; [reflexivity|].
  cbn [length Nat.eqb orb]. destruct (length v =? 0) eqn:E.
  - apply Nat.eqb_eq in E. specialize (Hr a (or_introl eq_refl)). lia.
  - destruct (isContiguous (a :: p)) eqn:Hc; [|reflexivity].
    apply contiguous_slice; [discriminate | assumption | assumption].
Qed.

Lemma mapper_key_pick p (v : row) : p <> [] -> inrange p (length v) -> mapper_key p v = pick p v.
Proof.
  intros Hp Hr. unfold mapper_key. destruct (isContiguous p) eqn:Hc; [|reflexivity].
  apply contiguous_slice; assumption.
Qed.

Lemma pick_length p (v : row) : length (pick p v) = length p.
Proof. apply map_length. Qed.

Lemma pick_seq_id (v : row) : pick (seq 0 (length v)) v = v.
Proof.
  unfold pick. induction v as [|x v IH]; [reflexivity|].
  cbn [length seq map nth]. f_equal. rewrite <- seq_shift, map_map. exact IH.
Qed.

Lemma pick_pick p q (v : row) : inrange q (length p) -> pick q (pick p v) = pick (map (fun i => nth i p 0) q) v.
Proof.
  intros Hr. unfold pick. rewrite map_map. apply map_ext_in. intros i Hi.
  rewrite (nth_indep _ cell0 ((fun i => nth i v cell0) 0)) by (rewrite map_length; apply Hr, Hi).
  rewrite (map_nth (fun i => nth i v cell0)). reflexivity.
Qed.

(* ---------- groupBy ---------- *)

  Lemma gm_add_keys k v m x : In x (map fst (gm_add k v m)) <-> In x (map fst m) \/ x = k.
  Proof.
    induction m as [|[k' s] m IH]; simpl; [intuition|].
    destruct (row_eqb k k') eqn:E; simpl.
    - apply row_eqb_eq in E. subst. intuition.
    - rewrite IH. intuition.
  Qed.

  Lemma gm_add_in k v m k1 s1 :
    In (k1, s1) (gm_add k v m) ->
    In (k1, s1) m \/ (k1 = k /\ s1 = [v] /\ ~ In k (map fst m)) \/ (k1 = k /\ exists s0, In (k, s0) m /\ s1 = rs_add s0 v).
  Proof.
    induction m as [|[k' s] m IH]; simpl.
    - intros [H|[]]. injection H as <- <-. right; left. intuition.
    - destruct (row_eqb k k') eqn:E.
      + apply row_eqb_eq in E. subst k'. intros [H|H].
        * injection H as <- <-. right; right. split; [reflexivity|]. exists s. split; [left; reflexivity | reflexivity].
        * left; right; assumption.
      + assert (Hne : k' <> k) by (intros ->; rewrite (proj2 (row_eqb_eq k k) eq_refl) in E; discriminate).
        intros [H|H]; [left; left; assumption|].
        apply IH in H as [H|[(-> & -> & Hn)|(-> & s0 & Hs0 & ->)]].
        * left; right; assumption.
        * right; left. repeat split; try reflexivity. intros [Hk|Hk]; [apply Hne, Hk | apply Hn, Hk].
        * right; right. split; [reflexivity|]. exists s0. split; [right; assumption | reflexivity].
  Qed.

  Lemma gm_add_has k v m : exists s, In (k, s) (gm_add k v m) /\ In v s.
  Proof.
    induction m as [|[k' s] m IH]; simpl.
    - exists [v]. split; left; reflexivity.
    - destruct (row_eqb k k') eqn:E.
      + apply row_eqb_eq in E. subst k'. exists (rs_add s v). split; [left; reflexivity | apply rs_add_in; right; reflexivity].
      + destruct IH as (s0 & H1 & H2). exists s0. split; [right; assumption | assumption].
  Qed.

  Lemma gm_add_mono k v m k1 s1 : In (k1, s1) m -> exists s2, In (k1, s2) (gm_add k v m) /\ forall x, In x s1 -> In x s2.
  Proof.
    induction m as [|[k' s] m IH]; simpl; [intros []|].
    destruct (row_eqb k k') eqn:E.
    - apply row_eqb_eq in E. subst k'. intros [H|H].
      + injection H as <- <-. exists (rs_add s v). split; [left; reflexivity | intros x Hx; apply rs_add_in; left; assumption].
      + exists s1. split; [right; assumption | auto].
    - intros [H|H].
      + exists s1. split; [left; assumption | auto].
      + destruct (IH H) as (s2 & H1 & H2). exists s2. split; [right; assumption | assumption].
  Qed.

  Lemma gm_add_nodup k v m : NoDup (map fst m) -> NoDup (map fst (gm_add k v m)).
  Proof.
    induction m as [|[k' s] m IH]; simpl; intros H.
    - constructor; [intros [] | constructor].
    - destruct (row_eqb k k') eqn:E; simpl; [assumption|].
      inversion H as [|? ? Hn Hm]; subst. constructor; [|apply IH, Hm].
      rewrite gm_add_keys. intros [H1| ->]; [contradiction|].
      rewrite (proj2 (row_eqb_eq k k) eq_refl) in E. discriminate.
  Qed.

Section GroupBy.
  Variable key : row -> row.

  Definition gm_inv (m : gmap) (P : row -> Prop) : Prop :=
    NoDup (map fst m)
    /\ (forall k s, In (k, s) m -> forall v, In v s -> P v /\ key v = k)
    /\ (forall v, P v -> exists s, In (key v, s) m /\ In v s).

  Lemma gm_add_inv m P v : gm_inv m P -> gm_inv (gm_add (key v) v m) (fun x => P x \/ x = v).
  Proof.
    intros (Hnd & Hs & Hc). split; [apply gm_add_nodup, Hnd|]. split.
    - intros k s Hin x Hx. apply gm_add_in in Hin as [Hin|[(-> & -> & _)|(-> & s0 & Hs0 & ->)]].
      + destruct (Hs k s Hin x Hx) as [H1 H2]. split; [left; assumption | assumption].
      + destruct Hx as [<-|[]]. split; [right; reflexivity | reflexivity].
      + apply rs_add_in in Hx as [Hx| ->].
        * destruct (Hs _ _ Hs0 x Hx) as [H1 H2]. split; [left; assumption | assumption].
        * split; [right; reflexivity | reflexivity].
    - intros x [Hx| ->].
      + destruct (Hc x Hx) as (s & H1 & H2). destruct (gm_add_mono (key v) v m _ _ H1) as (s2 & H3 & H4).
        exists s2. split; [assumption | apply H4, H2].
      + apply gm_add_has.
  Qed.

  Lemma gm_fold_inv rest : forall m P,
    gm_inv m P -> gm_inv (fold_left (fun m v => gm_add (key v) v m) rest m) (fun x => P x \/ In x rest).
  Proof.
    induction rest as [|v rest IH]; intros m P H; simpl.
    - destruct H as (H1 & H2 & H3). split; [assumption|]. split.
      + intros k s Hin x Hx. destruct (H2 k s Hin x Hx). split; [left; assumption | assumption].
      + intros x [Hx|[]]. apply H3, Hx.
    - pose proof (IH _ _ (gm_add_inv m P v H)) as (H1 & H2 & H3). split; [assumption|]. split.
      + intros k s Hin x Hx. destruct (H2 k s Hin x Hx) as [[[Hp|Hp]|Hp] Hk]; split; auto.
      + intros x [Hx|[Hx|Hx]]; apply H3; auto.
  Qed.
End GroupBy.

Lemma fold_left_ext_in {A B} (f g : A -> B -> A) l : (forall a x, In x l -> f a x = g a x) ->
  forall a, fold_left f l a = fold_left g l a.
Proof.
  induction l as [|x l IH]; intros H a; simpl; [reflexivity|].
  rewrite (H a x (or_introl eq_refl)). apply IH. intros a' y Hy. apply H. right; assumption.
Qed.

(* all rows of a positional relation have width w *)
Definition width_is (rows : list row) (w : nat) : Prop := forall v, In v rows -> length v = w.

Lemma groupBy_inv rows p w : width_is rows w -> inrange p w -> gm_inv (pick p) (groupBy rows p) (fun v => In v rows).
Proof.
  intros Hw Hr. unfold groupBy. destruct p as [|a p].
  - cbn [length Nat.eqb]. split; [constructor; [intros [] | constructor]|]. split.
    + intros k s [H|[]] v Hv. injection H as <- <-. split; [assumption | reflexivity].
    + intros v Hv. exists rows. split; [left; reflexivity | assumption].
  - cbn [length Nat.eqb].
    rewrite (fold_left_ext_in _ (fun m v => gm_add (pick (a :: p) v) v m)).
    + pose proof (gm_fold_inv (pick (a :: p)) rows [] (fun _ => False)) as H.
      destruct H as (H1 & H2 & H3).
      { split; [constructor|]. split; [intros k s [] | intros v []]. }
      split; [assumption|]. split.
      * intros k s Hin v Hv. destruct (H2 k s Hin v Hv) as [[[]|Hp] Hk]. split; assumption.
      * intros v Hv. apply H3. right; assumption.
    + intros m v Hv. rewrite mapper_key_pick; [reflexivity | discriminate | rewrite (Hw v Hv); exact Hr].
Qed.

Lemma gm_get_in k m s : gm_get k m = Some s -> In (k, s) m.
Proof.
  induction m as [|[k' s'] m IH]; simpl; [discriminate|].
  destruct (row_eqb k k') eqn:E.
  - apply row_eqb_eq in E. subst. intros H; injection H as ->. left; reflexivity.
  - intros H. right. apply IH, H.
Qed.

Lemma in_gm_get k m s : NoDup (map fst m) -> In (k, s) m -> gm_get k m = Some s.
Proof.
  induction m as [|[k' s'] m IH]; simpl; [intros _ []|].
  intros Hnd [H|H].
  - injection H as -> ->. rewrite (proj2 (row_eqb_eq k k) eq_refl). reflexivity.
  - inversion Hnd as [|? ? Hn Hm]; subst. destruct (row_eqb k k') eqn:E.
    + apply row_eqb_eq in E. subst k'. exfalso. apply Hn. apply (in_map fst) in H. exact H.
    + apply IH; assumption.
Qed.

Lemma gm_fold_nonempty (f : row -> row) rest : forall m, (forall k s, In (k, s) m -> s <> []) ->
  forall k s, In (k, s) (fold_left (fun m v => gm_add (f v) v m) rest m) -> s <> [].
Proof.
  induction rest as [|v rest IH]; intros m Hm k0 s0 Hin; simpl in Hin; [eapply Hm; exact Hin|].
  eapply IH; [|exact Hin]. intros k1 s1 H1. apply gm_add_in in H1 as [H1|[(_ & -> & _)|(_ & s2 & _ & ->)]].
  - eapply Hm; exact H1.
  - discriminate.
  - intros Hx. assert (Hv : In v (rs_add s2 v)) by (apply rs_add_in; right; reflexivity). rewrite Hx in Hv. destruct Hv.
Qed.

(* a key is present exactly when some row projects onto it *)
Lemma groupBy_has rows p w k : rows <> [] -> width_is rows w -> inrange p w ->
  gm_has k (groupBy rows p) = true <-> exists v, In v rows /\ pick p v = k.
Proof.
  intros Hne Hw Hr. pose proof (groupBy_inv rows p w Hw Hr) as (Hnd & Hs & Hc).
  unfold gm_has. split.
  - destruct (gm_get k (groupBy rows p)) as [s|] eqn:E; [intros _ | discriminate].
    apply gm_get_in in E. destruct s as [|v s].
    + (* an empty group only exists for the empty projector over no rows *)
      exfalso. unfold groupBy in E. destruct p as [|a p]; cbn [length Nat.eqb] in E.
      * destruct E as [E|[]]. injection E as _ E. apply Hne. exact E.
      * destruct rows as [|v0 rows]; [contradiction|].
        destruct (Hc v0 (or_introl eq_refl)) as (s0 & _ & _).
        eapply gm_fold_nonempty in E; [congruence | intros ? ? []].
    + destruct (Hs k _ E v (or_introl eq_refl)) as [H1 H2]. exists v. split; assumption.
  - intros (v & Hv & <-). destruct (Hc v Hv) as (s & H1 & _).
    rewrite (in_gm_get _ _ _ Hnd H1). reflexivity.
Qed.

(* ---------- the four strategies ---------- *)

Section Strategies.
  Variables (r r2 : list row) (w1 w2 : nat) (lk rk lo ro : vproj).
  Hypothesis Hw1 : width_is r w1.
  Hypothesis Hw2 : width_is r2 w2.
  Hypothesis Hne1 : r <> [].
  Hypothesis Hne2 : r2 <> [].
  Hypothesis Hlk : inrange lk w1.
  Hypothesis Hlo : inrange lo w1.
  Hypothesis Hrk : inrange rk w2.
  Hypothesis Hro : inrange ro w2.

  Definition matching (t u : row) : Prop := In t r /\ In u r2 /\ pick lk t = pick rk u.

  Lemma pvL p t : inrange p w1 -> In t r -> pv_values p t = pick p t.
  Proof. intros Hp Ht. apply pv_values_pick. rewrite (Hw1 t Ht). exact Hp. Qed.
  Lemma pvR p u : inrange p w2 -> In u r2 -> pv_values p u = pick p u.
  Proof. intros Hp Hu. apply pv_values_pick. rewrite (Hw2 u Hu). exact Hp. Qed.

  Lemma keepEverything_spec x :
    In x (joinKeepEverything r r2 lk rk lo ro) <-> exists t u, matching t u /\ x = pick lo t ++ pick ro u.
  Proof.
    pose proof (groupBy_inv r lk w1 Hw1 Hlk) as (Hnd1 & Hs1 & Hc1).
    pose proof (groupBy_inv r2 rk w2 Hw2 Hrk) as (Hnd2 & Hs2 & Hc2).
    unfold joinKeepEverything. rewrite rs_of_list_in, in_flat_map. split.
    - intros ([k ls] & He & Hx). cbn [fst snd] in Hx.
      destruct (gm_get k (groupBy r2 rk)) as [rs|] eqn:E; [|destruct Hx].
      apply gm_get_in in E. apply in_flat_map in Hx as (t & Ht & Hx). apply in_map_iff in Hx as (u & <- & Hu).
      destruct (Hs1 _ _ He t Ht) as [Ht1 Ht2]. destruct (Hs2 _ _ E u Hu) as [Hu1 Hu2].
      exists t, u. split; [split; [assumption | split; [assumption | congruence]]|].
      rewrite (pvL lo t Hlo Ht1), (pvR ro u Hro Hu1). reflexivity.
    - intros (t & u & (Ht & Hu & Hk) & ->).
      destruct (Hc1 t Ht) as (ls & H1 & H2). destruct (Hc2 u Hu) as (rs & H3 & H4).
      exists (pick lk t, ls). split; [assumption|]. cbn [fst snd].
      rewrite Hk. rewrite (in_gm_get _ _ _ Hnd2 H3).
      apply in_flat_map. exists t. split; [assumption|]. apply in_map_iff. exists u. split; [|assumption].
      rewrite (pvL lo t Hlo Ht), (pvR ro u Hro Hu). reflexivity.
  Qed.

  Lemma ifCommonExist_spec :
    joinIfCommonExist r r2 lk rk = [[]] /\ (exists t u, matching t u)
    \/ joinIfCommonExist r r2 lk rk = [] /\ ~ (exists t u, matching t u).
  Proof.
    unfold joinIfCommonExist. destruct (length r2 <? length r).
    - destruct (existsb _ r) eqn:E.
      + left. split; [reflexivity|]. apply existsb_exists in E as (t & Ht & E).
        rewrite (pvL lk t Hlk Ht) in E. apply (groupBy_has r2 rk w2 _ Hne2 Hw2 Hrk) in E as (u & Hu & Hk).
        exists t, u. split; [assumption | split; [assumption | congruence]].
      + right. split; [reflexivity|]. intros (t & u & Ht & Hu & Hk).
        assert (X : existsb (fun v => gm_has (pv_values lk v) (groupBy r2 rk)) r = true); [|congruence].
        apply existsb_exists. exists t. split; [assumption|]. rewrite (pvL lk t Hlk Ht).
        apply (groupBy_has r2 rk w2 _ Hne2 Hw2 Hrk). exists u. split; [assumption | congruence].
    - destruct (existsb _ r2) eqn:E.
      + left. split; [reflexivity|]. apply existsb_exists in E as (u & Hu & E).
        rewrite (pvR rk u Hrk Hu) in E. apply (groupBy_has r lk w1 _ Hne1 Hw1 Hlk) in E as (t & Ht & Hk).
        exists t, u. split; [assumption | split; [assumption | congruence]].
      + right. split; [reflexivity|]. intros (t & u & Ht & Hu & Hk).
        assert (X : existsb (fun v => gm_has (pv_values rk v) (groupBy r lk)) r2 = true); [|congruence].
        apply existsb_exists. exists u. split; [assumption|]. rewrite (pvR rk u Hrk Hu).
        apply (groupBy_has r lk w1 _ Hne1 Hw1 Hlk). exists t. split; [assumption | congruence].
  Qed.
End Strategies.

Lemma keys_has k m : NoDup (map fst m) -> (In k (map fst m) <-> gm_has k m = true).
Proof.
  intros Hnd. unfold gm_has. split.
  - intros H. apply in_map_iff in H as ([k' s] & <- & H). cbn [fst]. rewrite (in_gm_get _ _ _ Hnd H). reflexivity.
  - destruct (gm_get k m) as [s|] eqn:E; [intros _ | discriminate].
    apply gm_get_in in E. apply (in_map fst) in E. exact E.
Qed.

Lemma joinOneSide_spec base other w wo key okey output :
  width_is base w -> base <> [] -> NoDup base -> width_is other wo -> other <> [] ->
  inrange key w -> inrange output w -> inrange okey wo ->
  exists rows, joinOneSide base (groupBy other okey) key output = JOk rows /\ NoDup rows /\
    forall x, In x rows <-> exists t u, In t base /\ In u other /\ pick key t = pick okey u /\ x = pick output t.
Proof.
  intros Hw Hne Hnd Hwo Hneo Hk Ho Hok.
  assert (Hhas : forall t, In t base ->
            (gm_has (pv_values key t) (groupBy other okey) = true <-> exists u, In u other /\ pick okey u = pick key t)).
  { intros t Ht. rewrite pv_values_pick by (rewrite (Hw t Ht); exact Hk).
    apply (groupBy_has other okey wo _ Hneo Hwo Hok). }
  unfold joinOneSide. destruct base as [|any base'] eqn:Eb; [congruence|]. rewrite <- Eb in *.
  assert (Hany : length any = w) by (apply Hw; rewrite Eb; left; reflexivity).
  rewrite Hany. destruct (isIdentity output w) eqn:Eid.
  - apply proj_eqb_eq in Eid. eexists. split; [reflexivity|]. split; [apply NoDup_filter, Hnd|].
    intros x. rewrite filter_In. split.
    + intros [Hx Hh]. apply (Hhas x Hx) in Hh as (u & Hu & Hku). exists x, u. repeat split; try assumption; [congruence|].
      rewrite Eid, <- (Hw x Hx). symmetry. apply pick_seq_id.
    + intros (t & u & Ht & Hu & Hku & ->). rewrite Eid, <- (Hw t Ht), pick_seq_id. split; [assumption|].
      apply (Hhas t Ht). exists u. split; [assumption | congruence].
  - eexists. split; [reflexivity|]. split; [apply rs_of_list_nodup|].
    intros x. rewrite rs_of_list_in, in_flat_map. split.
    + intros (t & Ht & Hx). destruct (gm_has _ _) eqn:Hh in Hx; [|destruct Hx].
      destruct Hx as [<-|[]]. apply (Hhas t Ht) in Hh as (u & Hu & Hku).
      exists t, u. repeat split; try assumption; [congruence|].
      apply pv_values_pick. rewrite (Hw t Ht). exact Ho.
    + intros (t & u & Ht & Hu & Hku & ->). exists t. split; [assumption|].
      assert (Hh : gm_has (pv_values key t) (groupBy other okey) = true) by (apply (Hhas t Ht); exists u; split; [assumption | congruence]).
      rewrite Hh. left. apply pv_values_pick. rewrite (Hw t Ht). exact Ho.
Qed.

Lemma find_last_nat_spec x l : forall i0 acc,
  match find_last_nat x l i0 acc with
  | Some j => acc = Some j \/ (i0 <= j /\ nth_error l (j - i0) = Some x)
  | None => acc = None /\ ~ In x l
  end.
Proof.
  induction l as [|y l IH]; intros i0 acc; simpl.
  - destruct acc; [left; reflexivity | split; [reflexivity | intros []]].
  - specialize (IH (S i0) (if x =? y then Some i0 else acc)).
    destruct (find_last_nat x l (S i0) (if x =? y then Some i0 else acc)) as [j|].
    + destruct IH as [IH|[Hle Hn]].
      * destruct (x =? y) eqn:E; [|left; exact IH].
        apply Nat.eqb_eq in E. subst y. injection IH as <-. right. split; [lia|]. rewrite Nat.sub_diag. reflexivity.
      * right. split; [lia|]. replace (j - i0) with (S (j - S i0)) by lia. exact Hn.
    + destruct IH as [IH Hn]. destruct (x =? y) eqn:E; [discriminate|]. split; [exact IH|].
      intros [->|H]; [rewrite Nat.eqb_refl in E; discriminate | contradiction].
Qed.

Lemma remap_spec key value : (forall i, In i value -> In i key) ->
  exists output, mapM_opt (fun index => find_last_nat index key 0 None) value = Some output
    /\ inrange output (length key) /\ map (fun i => nth i key 0) output = value.
Proof.
  induction value as [|x value IH]; intros H.
  - exists []. repeat split. intros i [].
  - destruct IH as (out & E & Hr & Hm); [intros i Hi; apply H; right; assumption|].
    pose proof (find_last_nat_spec x key 0 None) as F.
    cbn [mapM_opt]. destruct (find_last_nat x key 0 None) as [j|].
    + destruct F as [F|[_ Hn]]; [discriminate|]. rewrite Nat.sub_0_r in Hn. rewrite E.
      exists (j :: out). split; [reflexivity|]. split.
      * intros i [<-|Hi]; [apply nth_error_Some; congruence | apply Hr, Hi].
      * cbn [map]. rewrite Hm. f_equal. apply nth_error_nth. exact Hn.
    + destruct F as [_ F]. exfalso. apply F, H. left; reflexivity.
Qed.

Section Strategies2.
  Variables (r r2 : list row) (w1 w2 : nat) (lk rk lo ro : vproj).
  Hypothesis Hw1 : width_is r w1.
  Hypothesis Hw2 : width_is r2 w2.
  Hypothesis Hne1 : r <> [].
  Hypothesis Hne2 : r2 <> [].
  Hypothesis Hlk : inrange lk w1.
  Hypothesis Hrk : inrange rk w2.

  Lemma common_keys k :
    In k (filter (fun k => gm_has k (groupBy r2 rk)) (map fst (groupBy r lk)))
    <-> exists t u, matching r r2 lk rk t u /\ k = pick lk t.
  Proof.
    pose proof (groupBy_inv r lk w1 Hw1 Hlk) as (Hnd1 & _ & _).
    rewrite filter_In, (keys_has _ _ Hnd1), (groupBy_has r lk w1 _ Hne1 Hw1 Hlk), (groupBy_has r2 rk w2 _ Hne2 Hw2 Hrk).
    split.
    - intros [(t & Ht & Hkt) (u & Hu & Hku)]. exists t, u. split; [split; [assumption | split; [assumption | congruence]] | congruence].
    - intros (t & u & (Ht & Hu & Hk) & ->). split; [exists t | exists u]; split; congruence || assumption.
  Qed.

  (* JoinCommonOnly returns the chosen output columns of every key present on both sides *)
  Lemma commonOnly_spec :
    (lo = [] -> forall i, In i ro -> In i rk) -> (lo <> [] -> forall i, In i lo -> In i lk) ->
    exists rows, joinCommonOnly r r2 lk rk lo ro = JOk rows /\ NoDup rows /\
      forall x, In x rows <-> exists t u, matching r r2 lk rk t u /\ x = match lo with [] => pick ro u | _ => pick lo t end.
  Proof.
    intros HR HL. unfold joinCommonOnly.
    set (keys := filter (fun k => gm_has k (groupBy r2 rk)) (map fst (groupBy r lk))).
    assert (Hkeys : forall k, In k keys <-> exists t u, matching r r2 lk rk t u /\ k = pick lk t) by apply common_keys.
    assert (G : forall key value, (forall i, In i value -> In i key) ->
              forall sel : row -> row -> row,
              (forall t u, matching r r2 lk rk t u -> pick key (sel t u) = pick lk t) ->
              exists rows, (if proj_eqb key value then JOk (rs_of_list keys)
                            else match mapM_opt (fun index => find_last_nat index key 0 None) value with
                                 | None => JPanic P_invalid_output
                                 | Some output => JOk (rs_of_list (map (fun k => pv_values output k) keys))
                                 end) = JOk rows /\ NoDup rows /\
                forall x, In x rows <-> exists t u, matching r r2 lk rk t u /\ x = pick value (sel t u)).
    { intros key value Hsub sel Hsel. destruct (proj_eqb key value) eqn:E.
      - apply proj_eqb_eq in E. subst value. eexists. split; [reflexivity|]. split; [apply rs_of_list_nodup|].
        intros x. rewrite rs_of_list_in, Hkeys. split; intros (t & u & Hm & ->); exists t, u; (split; [assumption|]).
        + symmetry. apply Hsel, Hm.
        + apply Hsel, Hm.
      - destruct (remap_spec key value Hsub) as (output & -> & Hr & Hmap).
        eexists. split; [reflexivity|]. split; [apply rs_of_list_nodup|].
        intros x. rewrite rs_of_list_in, in_map_iff.
        assert (Hrow : forall t u, matching r r2 lk rk t u -> pv_values output (pick lk t) = pick value (sel t u)).
        { intros t u Hm. rewrite pv_values_pick by (rewrite <- (Hsel t u Hm), pick_length; exact Hr).
          rewrite <- (Hsel t u Hm), pick_pick by exact Hr. rewrite Hmap. reflexivity. }
        split.
        + intros (k & <- & Hk). apply Hkeys in Hk as (t & u & Hm & ->). exists t, u. split; [assumption | apply Hrow, Hm].
        + intros (t & u & Hm & ->). exists (pick lk t). split; [apply Hrow, Hm | apply Hkeys; exists t, u; split; [assumption | reflexivity]]. }
    destruct lo as [|a lo'].
    - cbn [length Nat.eqb]. apply (G rk ro (HR eq_refl) (fun _ u => u)).
      intros t u (_ & _ & Hk). symmetry; exact Hk.
    - cbn [length Nat.eqb]. apply (G lk (a :: lo') (HL ltac:(discriminate)) (fun t _ => t)).
      intros t u _. reflexivity.
  Qed.
End Strategies2.

(* ---------- positionalRelation.Join ---------- *)

(* the shapes of (key, output) projectors on which the strategy chosen by createMode returns every
   requested output column: one output empty, or both reaching outside their keys.  (On other shapes,
   e.g. both outputs inside their keys and non-empty, JoinIfCommonExist / joinOneSide drop a requested
   output: positionalRelation.Join is not a general join.  The eight operators never ask for those.) *)
Definition join_shape (lk rk lo ro : vproj) : Prop :=
  lo = [] \/ ro = [] \/ (isSubProjection lo lk = false /\ isSubProjection ro rk = false).

Definition partial_key (lk rk lo ro : vproj) : bool :=
  (negb (isSubProjection lk lo) && hasCommonIndices lo lk) || (negb (isSubProjection rk ro) && hasCommonIndices ro rk).

Lemma hasCommon_nil_l q : hasCommonIndices [] q = false.
Proof. destruct (hasCommonIndices [] q) eqn:E; [|reflexivity]. apply hasCommon_spec in E as (i & [] & _). Qed.
Lemma hasCommon_sub p q : p <> [] -> isSubProjection p q = true -> hasCommonIndices p q = true.
Proof.
  intros Hp Hs. apply hasCommon_spec. destruct p as [|i p]; [congruence|].
  exists i. split; [left; reflexivity | apply (proj1 (isSub_spec _ _) Hs); left; reflexivity].
Qed.

Theorem positional_join_spec r r2 w1 w2 lk rk lo ro :
  width_is r w1 -> width_is r2 w2 -> r <> [] -> r2 <> [] -> NoDup r -> NoDup r2 ->
  inrange lk w1 -> inrange lo w1 -> inrange rk w2 -> inrange ro w2 ->
  length lk = length rk -> partial_key lk rk lo ro = false -> join_shape lk rk lo ro ->
  exists rows, positional_join r r2 lk rk lo ro = JOk rows /\ NoDup rows /\
    forall x, In x rows <-> exists t u, matching r r2 lk rk t u /\ x = pick lo t ++ pick ro u.
Proof.
  intros Hw1 Hw2 Hne1 Hne2 Hnd1 Hnd2 Hlk Hlo Hrk Hro Hlen Hpart Hshape.
  unfold positional_join, createMode. rewrite Hlen, Nat.eqb_refl. cbn [negb].
  unfold partial_key in Hpart. rewrite Hpart.
  assert (KE : exists rows, JOk (joinKeepEverything r r2 lk rk lo ro) = JOk rows /\ NoDup rows /\
                 forall x, In x rows <-> exists t u, matching r r2 lk rk t u /\ x = pick lo t ++ pick ro u).
  { eexists. split; [reflexivity|]. split; [apply rs_of_list_nodup|].
    intros x. apply (keepEverything_spec r r2 w1 w2 lk rk lo ro); assumption. }
  destruct (isSubProjection lo lk) eqn:SL; destruct (isSubProjection ro rk) eqn:SR; cbn [negb].
  - (* both outputs inside their keys: one of them is empty *)
    destruct Hshape as [->|[->|[? _]]]; [| |congruence].
    + rewrite hasCommon_nil_l. destruct ro as [|b ro'].
      * rewrite hasCommon_nil_l. cbn.
        destruct (ifCommonExist_spec r r2 w1 w2 lk rk Hw1 Hw2 Hne1 Hne2 Hlk Hrk) as [[-> H]|[-> H]].
        -- exists [[]]. split; [reflexivity|]. split; [constructor; [intros [] | constructor]|].
           intros x. split; [intros [<-|[]]; destruct H as (t & u & H); exists t, u; split; [exact H | reflexivity]
                            | intros (t & u & _ & ->); left; reflexivity].
        -- exists []. split; [reflexivity|]. split; [constructor|].
           intros x. split; [intros [] | intros (t & u & Hm & _); apply H; exists t, u; exact Hm].
      * rewrite (hasCommon_sub (b :: ro') rk ltac:(discriminate) SR). cbn.
        destruct (commonOnly_spec r r2 w1 w2 lk rk [] (b :: ro') Hw1 Hw2 Hne1 Hne2 Hlk Hrk) as (rows & E & Hn & Hx).
        { intros _. apply isSub_spec, SR. } { congruence. }
        exists rows. split; [exact E|]. split; [exact Hn|]. intros x. rewrite Hx. reflexivity.
    + rewrite hasCommon_nil_l. destruct lo as [|a lo'].
      * rewrite hasCommon_nil_l. cbn.
        destruct (ifCommonExist_spec r r2 w1 w2 lk rk Hw1 Hw2 Hne1 Hne2 Hlk Hrk) as [[-> H]|[-> H]].
        -- exists [[]]. split; [reflexivity|]. split; [constructor; [intros [] | constructor]|].
           intros x. split; [intros [<-|[]]; destruct H as (t & u & H); exists t, u; split; [exact H | reflexivity]
                            | intros (t & u & _ & ->); left; reflexivity].
        -- exists []. split; [reflexivity|]. split; [constructor|].
           intros x. split; [intros [] | intros (t & u & Hm & _); apply H; exists t, u; exact Hm].
      * rewrite (hasCommon_sub (a :: lo') lk ltac:(discriminate) SL). cbn.
        destruct (commonOnly_spec r r2 w1 w2 lk rk (a :: lo') [] Hw1 Hw2 Hne1 Hne2 Hlk Hrk) as (rows & E & Hn & Hx).
        { congruence. } { intros _. apply isSub_spec, SL. }
        exists rows. split; [exact E|]. split; [exact Hn|]. intros x. rewrite Hx.
        split; intros (t & u & Hm & ->); exists t, u; (split; [exact Hm|]); unfold pick; simpl; rewrite app_nil_r; reflexivity.
  - (* only the right output reaches outside its key: the left output is empty *)
    assert (lo = []) as -> by (destruct Hshape as [H|[H|[H _]]]; [exact H | subst ro; discriminate | congruence]).
    destruct (joinOneSide_spec r2 r w2 w1 rk lk ro Hw2 Hne2 Hnd2 Hw1 Hne1 Hrk Hro Hlk) as (rows & E & Hn & Hx).
    destruct (negb (Bool.eqb (hasCommonIndices [] lk) (hasCommonIndices ro rk))); cbn; (exists rows; split; [exact E|]; split; [exact Hn|]; intros x; rewrite Hx;
      split; [intros (u & t & Hu & Ht & Hk & ->); exists t, u; split; [split; [assumption | split; [assumption | congruence]] | reflexivity]
             | intros (t & u & (Ht & Hu & Hk) & ->); exists u, t; repeat split; try assumption; congruence]).
  - (* only the left output reaches outside its key: the right output is empty *)
    assert (ro = []) as -> by (destruct Hshape as [H|[H|[_ H]]]; [subst lo; discriminate | exact H | congruence]).
    destruct (joinOneSide_spec r r2 w1 w2 lk rk lo Hw1 Hne1 Hnd1 Hw2 Hne2 Hlk Hlo Hrk) as (rows & E & Hn & Hx).
    destruct (negb (Bool.eqb (hasCommonIndices lo lk) (hasCommonIndices [] rk))); cbn; (exists rows; split; [exact E|]; split; [exact Hn|]; intros x; rewrite Hx;
      split; [intros (t & u & Ht & Hu & Hk & ->); exists t, u; split; [split; [assumption | split; assumption] | symmetry; apply app_nil_r]
             | intros (t & u & (Ht & Hu & Hk) & ->); exists t, u; repeat split; try assumption; apply app_nil_r]).
  - destruct (negb (Bool.eqb (hasCommonIndices lo lk) (hasCommonIndices ro rk))); cbn; exact KE.
Qed.
