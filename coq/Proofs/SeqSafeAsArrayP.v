(* asArray: on any non-empty list of item tuples it either returns, or panics with makeslice because the index span
   is beyond the allocation limit (dense storage, KF-C10-23), or indexes an empty slice because the span is exactly 2^64
   (the index range crosses the int64 limit, KF-C10-33).  No other panic. *)
From Coq Require Import List ZArith Bool Lia ZifyBool.
From Arrai Require Import Rep.SeqSafe Proofs.SeqSafeP.
Import ListNotations.
Open Scope Z_scope.

Section AA.
Variable max_alloc : Z.
Variable V : Type.
Hypothesis Hmax : 0 < max_alloc <= 281474976710656.

Lemma min_at_spec (l : list (Z * V)) : forall m0,
  let m := fold_left (fun m t => if fst t <? m then fst t else m) l m0 in
  m <= m0 /\ (forall t, In t l -> m <= fst t) /\ (m = m0 \/ exists t, In t l /\ m = fst t).
Proof.
  induction l as [|t l IH]; intros m0; cbn [fold_left].
  - repeat split; auto; try lia. intros t [].
  - specialize (IH (if fst t <? m0 then fst t else m0)). cbv zeta in IH. destruct IH as [A [B C]].
    set (m := fold_left _ l _) in *. clearbody m.
    destruct (fst t <? m0) eqn:E.
    + repeat split; [lia| |].
      * intros t' [<- | H]; [lia | now apply B].
      * right. destruct C as [C | [t' [I C]]]; [exists t | exists t']; split; auto; [now left | now right].
    + repeat split; [lia| |].
      * intros t' [<- | H]; [lia | now apply B].
      * destruct C as [C | [t' [I C]]]; [now left | right; exists t'; split; auto; now right].
Qed.

Lemma max_at_spec (l : list (Z * V)) : forall m0,
  let m := fold_left (fun m t => if m <? fst t then fst t else m) l m0 in
  m0 <= m /\ (forall t, In t l -> fst t <= m) /\ (m = m0 \/ exists t, In t l /\ m = fst t).
Proof.
  induction l as [|t l IH]; intros m0; cbn [fold_left].
  - repeat split; auto; try lia. intros t [].
  - specialize (IH (if m0 <? fst t then fst t else m0)). cbv zeta in IH. destruct IH as [A [B C]].
    set (m := fold_left _ l _) in *. clearbody m.
    destruct (m0 <? fst t) eqn:E.
    + repeat split; [lia| |].
      * intros t' [<- | H]; [lia | now apply B].
      * right. destruct C as [C | [t' [I C]]]; [exists t | exists t']; split; auto; [now left | now right].
    + repeat split; [lia| |].
      * intros t' [<- | H]; [lia | now apply B].
      * destruct C as [C | [t' [I C]]]; [now left | right; exists t'; split; auto; now right].
Qed.

Lemma as_array_loop_ok (minI : Z) : forall (values : list (Z * V)) items n,
  (forall t, In t values -> 0 <= isub (fst t) minI < len items) ->
  exists items' n', as_array_loop V values minI items n = Val (items', n').
Proof.
  induction values as [|[at_ item] t IH]; intros items n H; cbn [as_array_loop].
  - eauto.
  - assert (Hi : 0 <= isub at_ minI < len items) by (apply (H (at_, item)); now left).
    destruct (idx_in items _ Hi) as [c [Ec _]]. rewrite Ec. cbn [bind].
    rewrite upd_in by exact Hi. cbn [bind].
    apply IH. intros t' Ht'. rewrite len_set_nth. apply H. now right.
Qed.

Theorem as_array_safe (values : list (Z * V)) :
  values <> [] -> (forall t, In t values -> min_int <= fst t <= max_int) ->
  let span := max_at values - min_at values + 1 in
  match as_array max_alloc V values with
  | Val _ => True
  | Panic s => (s = SMakeslice /\ max_alloc < span < two64) \/ (s = SIndex /\ span = two64)
  | _ => False
  end.
Proof.
  intros Hne Hr. cbv zeta. unfold as_array. cbv zeta.
  pose proof (min_at_spec values max_int) as Mi. pose proof (max_at_spec values min_int) as Ma.
  cbv zeta in Mi, Ma. fold (min_at values) in Mi. fold (max_at values) in Ma.
  set (mn := min_at values) in *. set (mx := max_at values) in *. clearbody mn mx.
  destruct Mi as [Mi1 [Mi2 Mi3]]. destruct Ma as [Ma1 [Ma2 Ma3]].
  destruct values as [|t0 vs]; [congruence|].
  assert (Ht0 : In t0 (t0 :: vs)) by now left.
  pose proof (Hr _ Ht0) as R0. pose proof (Mi2 _ Ht0) as L0. pose proof (Ma2 _ Ht0) as U0.
  assert (Rmn : min_int <= mn <= max_int).
  { destruct Mi3 as [-> | [t [I ->]]]; [zconst; lia | apply Hr; exact I]. }
  assert (Rmx : min_int <= mx <= max_int).
  { destruct Ma3 as [-> | [t [I ->]]]; [zconst; lia | apply Hr; exact I]. }
  destruct (mk_cases max_alloc (@None V) (iadd (isub mx mn) 1)) as [[Em Hm]|[Em Hm]]; rewrite Em; cbn [bind].
  - left. split; auto. clear Em. wsolve.
  - destruct (Z.eq_dec (mx - mn + 1) two64) as [Ew | Ew].
    + (* the span is 2^64: no cells at all *)
      assert (Esz : iadd (isub mx mn) 1 = 0) by (clear Em; wsolve).
      rewrite Esz. cbn [Z.to_nat repeat]. destruct t0 as [at0 it0]. cbn [as_array_loop].
      unfold idx. replace ((0 <=? isub at0 mn) && (isub at0 mn <? len [])) with false
        by (change (len (@nil (option V))) with 0; lia).
      cbn [bind]. right. split; auto.
    + assert (Esz : iadd (isub mx mn) 1 = mx - mn + 1) by (clear Em; wsolve).
      destruct (as_array_loop_ok mn (t0 :: vs) (repeat None (Z.to_nat (iadd (isub mx mn) 1))) 0) as [items' [n' E]].
      * intros t Ht. rewrite len_repeat. pose proof (Hr _ Ht). pose proof (Mi2 _ Ht). pose proof (Ma2 _ Ht).
        rewrite Esz. clear Em Esz. wsolve.
      * rewrite E. cbn [bind]. exact I.
Qed.

End AA.
