(* Proofs about histories of configured codecs (Sys/Codec.v). *)
From Coq Require Import List ZArith Lia.
Import ListNotations.
From Arrai Require Import Sys.Outcome Sys.Json Sys.Codec Proofs.JsonP.

Section HistoryP.
  Context {C D R : Type}.
  Variable f : C -> D -> R.

  Lemma fold_hstep : forall (g : D -> R) ds acc, fold_left (hstep g) ds acc = acc ++ map g ds.
  Proof.
    intros g ds; induction ds as [|d ds IH]; intros acc; cbn [fold_left map].
    - now rewrite app_nil_r.
    - rewrite IH. unfold hstep. now rewrite <- app_assoc.
  Qed.

  Lemma history_map : forall c ds, history f c ds = map (f c) ds.
  Proof. intros c ds. unfold history, configured. now rewrite fold_hstep. Qed.

  Lemma history_nth : forall c ds i d,
    nth_error ds i = Some d -> nth_error (history f c ds) i = Some (f c d).
  Proof. intros c ds i d H. rewrite history_map. now apply map_nth_error. Qed.

  Lemma history_length : forall c ds, length (history f c ds) = length ds.
  Proof. intros c ds. rewrite history_map. apply map_length. Qed.

  Lemma history_app : forall c ds es, history f c (ds ++ es) = history f c ds ++ history f c es.
  Proof. intros c ds es. rewrite !history_map. apply map_app. Qed.

  Lemma history_independent : forall c ds es i j d,
    nth_error ds i = Some d -> nth_error es j = Some d ->
    nth_error (history f c ds) i = nth_error (history f c es) j.
  Proof.
    intros c ds es i j d Hi Hj.
    rewrite (history_nth c ds i d Hi), (history_nth c es j d Hj). reflexivity.
  Qed.

  Lemma history_earlier_results_stay : forall c ds es i,
    i < length ds -> nth_error (history f c (ds ++ es)) i = nth_error (history f c ds) i.
  Proof.
    intros c ds es i Hi. rewrite history_app. apply nth_error_app1. now rewrite history_length.
  Qed.
End HistoryP.

(* documents survive a shared strict JSON encoder: every decoded document that
   goes through ONE configured encoder comes out as itself *)
Lemma json_history_roundtrip : forall q js,
  Forall (fun j => jwf j = true /\ (q_json_key_unchecked q = false \/ no_empty_key j = true)) js ->
  history json_encoder {| jc_quirks := q; jc_strict := true |} (map (json_decoder true) js) = map Ok js.
Proof.
  intros q js H. rewrite history_map, map_map.
  induction H as [|j js [Hw Hk] _ IH]; cbn [map]; [reflexivity|].
  rewrite IH. f_equal. unfold json_encoder, json_decoder; cbn [jc_quirks jc_strict].
  now apply strict_roundtrip.
Qed.
