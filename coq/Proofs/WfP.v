(* Every value the reference semantics produces is in canonical form, for every
   program, scope and fuel: so equality of results is identity of denotations
   (veqb_eq, ssorted_ext) however the operands were built (properties C01, C02). *)
From Arrai Require Import Base.Val Spec.SetAlg Eval.Interp Proofs.ValOrder Proofs.SetAlgP Proofs.KeyedP Proofs.CanonP Proofs.RelP.

(* ---------- canonical form, structurally ---------- *)

Lemma Canon_num n : Canon (VNum n).
Proof. reflexivity. Qed.

Lemma Canon_set l : Canon (VSet l) <-> ssorted l /\ Forall Canon l.
Proof.
  unfold Canon. simpl. split.
  - intros H. injection H as H. split.
    + rewrite <- H. apply vsort_sorted.
    + apply Forall_forall. intros x Hx. rewrite <- H in Hx. apply vsort_in, in_map_iff in Hx as (y & <- & _).
      apply norm_idem.
  - intros [Hs Hc]. f_equal.
    assert (E : map norm l = l).
    { clear Hs. induction Hc as [|x l Hx Hl IH]; simpl; [reflexivity | rewrite Hx, IH; reflexivity]. }
    rewrite E. apply vsort_sorted_id, Hs.
Qed.

Lemma Canon_tup l : Canon (VTup l) <-> asorted l /\ Forall (fun p => Canon (snd p)) l.
Proof.
  unfold Canon. simpl. split.
  - intros H. injection H as H. split.
    + rewrite <- H. apply asort_sorted.
    + apply Forall_forall. intros q Hq. rewrite <- H in Hq. apply asort_in, in_map_iff in Hq as (p & <- & _).
      simpl. apply norm_idem.
  - intros [Hs Hc]. f_equal.
    assert (E : map (fun p => (fst p, norm (snd p))) l = l).
    { clear Hs. induction Hc as [|[n x] l Hx Hl IH]; simpl in *; [reflexivity | rewrite Hx, IH; reflexivity]. }
    rewrite E. apply asort_sorted_id, Hs.
Qed.

Lemma Canon_bool b : Canon (vbool b).
Proof. destruct b; reflexivity. Qed.
Lemma Canon_int z : Canon (vint z).
Proof. reflexivity. Qed.

Lemma Canon_members l x : Canon (VSet l) -> In x l -> Canon x.
Proof. intros H Hx. apply Canon_set in H as [_ H]. rewrite Forall_forall in H. apply H, Hx. Qed.

Lemma Canon_attrs l p : Canon (VTup l) -> In p l -> Canon (snd p).
Proof. intros H Hp. apply Canon_tup in H as [_ H]. rewrite Forall_forall in H. apply (H p Hp). Qed.

Lemma mkset_canon l : Forall Canon l -> Canon (mkset l).
Proof.
  intros H. apply Canon_set. split; [apply vsort_sorted|].
  apply Forall_forall. intros x Hx. apply (proj1 (vsort_in _ _)) in Hx. rewrite Forall_forall in H. apply H, Hx.
Qed.

Lemma ssorted_set_canon l m :
  Canon (VSet l) -> ssorted m -> (forall x, In x m -> In x l) -> Canon (VSet m).
Proof.
  intros Hl Hm Hin. apply Canon_set. split; [exact Hm|].
  apply Forall_forall. intros x Hx. eapply Canon_members; [exact Hl | apply Hin, Hx].
Qed.

Lemma filter_canon f l : Canon (VSet l) -> Canon (VSet (filter f l)).
Proof.
  intros H. eapply ssorted_set_canon; [exact H | apply filter_sorted; apply Canon_set in H; apply H |].
  intros x Hx. apply filter_In in Hx. apply Hx.
Qed.

Lemma mask_sorted (l : list val) : forall keep, ssorted l ->
  ssorted (map fst (filter snd (combine l keep))) /\
  (forall x, In x (map fst (filter snd (combine l keep))) -> In x l).
Proof.
  induction l as [|x l IH]; intros keep Hs; [split; [exact I | intros y []]|].
  destruct keep as [|b keep]; [split; [exact I | intros y []]|].
  destruct Hs as [Hx Hs]. destruct (IH keep Hs) as [IH1 IH2]. simpl. destruct b; simpl.
  - split; [split; [intros y Hy; apply Hx, IH2, Hy | exact IH1]|].
    intros y [<-|Hy]; [left; reflexivity | right; apply IH2, Hy].
  - split; [exact IH1 | intros y Hy; right; apply IH2, Hy].
Qed.

Lemma mask_canon l keep : Canon (VSet l) -> Canon (VSet (map fst (filter snd (combine l keep)))).
Proof.
  intros H. pose proof H as H'. apply Canon_set in H' as [Hs _].
  destruct (mask_sorted l keep Hs) as [H1 H2]. eapply ssorted_set_canon; eassumption.
Qed.

(* ---------- tuples ---------- *)

Lemma ainsert_canon x l : Canon (VTup l) -> Canon (snd x) -> Canon (VTup (ainsert x l)).
Proof.
  intros H Hx. apply Canon_tup in H as [Hs Hc]. apply Canon_tup. split; [apply ainsert_sorted, Hs|].
  apply Forall_forall. intros q Hq. apply ainsert_fst in Hq as [->|Hq]; [exact Hx|].
  rewrite Forall_forall in Hc. apply (Hc q Hq).
Qed.

Lemma build_tuple_canon l : Forall (fun p => Canon (snd p)) l -> Canon (build_tuple l).
Proof.
  unfold build_tuple. intros H.
  assert (G : forall acc, Canon (VTup acc) -> Canon (VTup (fold_left (fun acc p => ainsert p acc) l acc))).
  { induction H as [|p l Hp Hl IH]; intros acc Hacc; simpl; [exact Hacc|]. apply IH, ainsert_canon; assumption. }
  apply G. reflexivity.
Qed.

Lemma filter_asorted f (l : list (name * val)) : asorted l -> asorted (filter f l).
Proof.
  induction l as [|p l IH]; simpl; [trivial|]. intros [Hp Hl]. destruct (f p); simpl.
  - split; [|apply IH, Hl]. intros q Hq. apply filter_In in Hq. apply Hp, Hq.
  - apply IH, Hl.
Qed.

Lemma filter_tup_canon f l : Canon (VTup l) -> Canon (VTup (filter f l)).
Proof.
  intros H. apply Canon_tup in H as [Hs Hc]. apply Canon_tup. split; [apply filter_asorted, Hs|].
  apply Forall_forall. intros q Hq. apply filter_In in Hq as [Hq _]. rewrite Forall_forall in Hc. apply (Hc q Hq).
Qed.

Lemma tget_in n l v : tget n l = Some v -> exists m, In (m, v) l.
Proof.
  induction l as [|[m x] l IH]; simpl; [discriminate|].
  destruct (name_cmp n m).
  - intros H; injection H as <-. exists m. left; reflexivity.
  - intros H. destruct (IH H) as (m' & Hm). exists m'. right; exact Hm.
  - intros H. destruct (IH H) as (m' & Hm). exists m'. right; exact Hm.
Qed.

Lemma tget_canon n l v : Canon (VTup l) -> tget n l = Some v -> Canon v.
Proof. intros H Hg. apply tget_in in Hg as (m & Hm). apply (Canon_attrs l (m, v) H Hm). Qed.

Lemma Forall_app_snd (a b : list (name * val)) :
  Forall (fun p => Canon (snd p)) a -> Forall (fun p => Canon (snd p)) b -> Forall (fun p => Canon (snd p)) (a ++ b).
Proof. intros; apply Forall_app; split; assumption. Qed.

Lemma tup_attrs_canon l : Canon (VTup l) -> Forall (fun p => Canon (snd p)) l.
Proof. intros H. apply Canon_tup in H. apply H. Qed.

Lemma vpair_canon k i x :
  name_cmp n_at k = Lt -> Canon i -> Canon x -> Canon (vpair k i x).
Proof.
  intros Hk Hi Hx. unfold vpair. apply Canon_tup. split.
  - simpl. split; [intros q [<-|[]]; exact Hk|]. split; [intros q []|exact I].
  - repeat constructor; assumption.
Qed.

Lemma as_pair_canon m k n v : Canon m -> as_pair m = Some (k, n, v) -> Canon k /\ Canon v.
Proof.
  unfold as_pair. destruct m as [|l|]; try discriminate.
  destruct l as [|[n1 a] [|[n2 b] [|]]]; try discriminate.
  intros H. pose proof (tup_attrs_canon _ H) as Hc. inversion Hc as [|? ? Ha Hc']; subst. inversion Hc' as [|? ? Hb _]; subst.
  simpl in Ha, Hb.
  destruct (name_cmp n1 n_at).
  - intros E; injection E as <- <- <-. split; assumption.
  - destruct (name_cmp n2 n_at); try discriminate. intros E; injection E as <- <- <-. split; assumption.
  - destruct (name_cmp n2 n_at); try discriminate. intros E; injection E as <- <- <-. split; assumption.
Qed.

(* ---------- operators ---------- *)

Lemma Forall_canon_app (a b : list val) : Forall Canon a -> Forall Canon b -> Forall Canon (a ++ b).
Proof. intros; apply Forall_app; split; assumption. Qed.

Lemma set_members_canon l : Canon (VSet l) -> Forall Canon l.
Proof. intros H. apply Canon_set in H. apply H. Qed.

Lemma vinsert_canon x l : Canon (VSet l) -> Canon x -> Canon (VSet (vinsert x l)).
Proof.
  intros H Hx. pose proof H as H'. apply Canon_set in H' as [Hs Hc]. apply Canon_set. split; [apply vinsert_sorted, Hs|].
  apply Forall_forall. intros y Hy. apply vinsert_in in Hy as [->|Hy]; [exact Hx|].
  rewrite Forall_forall in Hc. apply Hc, Hy.
Qed.

Lemma mapM_forall {A B} (f : A -> res B) (P : B -> Prop) l r :
  mapM f l = Ok r -> (forall x y, In x l -> f x = Ok y -> P y) -> Forall P r.
Proof.
  intros H Hf. apply Forall_forall. intros y Hy. apply (mapM_ok f l r H) in Hy as (x & Hx & E). eapply Hf; eassumption.
Qed.

Lemma shift_member_canon off m m' : Canon m -> shift_member off m = Ok m' -> Canon m'.
Proof.
  intros Hm H. apply shift_member_spec in H as (attrs & k & -> & _ & ->).
  apply ainsert_canon; [exact Hm | reflexivity].
Qed.

Lemma dict_entries_canon l es :
  dict_entries l = Some es -> Forall Canon l -> Forall (fun p => Canon (fst p) /\ Canon (snd p)) es.
Proof.
  revert es; induction l as [|m l IH]; intros es; simpl; [intros [= <-] _; constructor|].
  destruct (dict_entries l) as [r|] eqn:E; [|discriminate].
  intros H Hc. inversion Hc as [|? ? Hm Hl]; subst.
  destruct m as [|[|[n1 k] [|[n2 v] [|]]]|]; try discriminate.
  destruct (name_eqb n1 n_at && name_eqb n2 n_value); [|discriminate].
  injection H as <-. constructor; [|apply IH; [reflexivity | exact Hl]].
  pose proof (tup_attrs_canon _ Hm) as Ha. inversion Ha as [|? ? Hk Ha']; subst. inversion Ha' as [|? ? Hv _]; subst.
  split; assumption.
Qed.

Lemma ventry_canon k x : Canon k -> Canon x -> Canon (ventry k x).
Proof. intros; apply vpair_canon; [reflexivity | assumption | assumption]. Qed.
Lemma vitem_canon i x : Canon x -> Canon (vitem i x).
Proof. intros; apply vpair_canon; [reflexivity | reflexivity | assumption]. Qed.

Lemma seq_members_canon n l ps :
  seq_members n l = Some ps -> Forall Canon l -> Forall (fun p => Canon (snd p)) ps.
Proof.
  revert ps; induction l as [|m l IH]; intros ps; simpl; [intros [= <-] _; constructor|].
  destruct (seq_members n l) as [r|] eqn:E; [|discriminate].
  intros H Hc. inversion Hc as [|? ? Hm Hl]; subst.
  destruct (as_pair m) as [[[k n'] x]|] eqn:Ep; [|discriminate].
  destruct (is_int_val k) as [i|]; [|discriminate].
  destruct (name_eqb n n'); [|discriminate]. injection H as <-.
  constructor; [|apply IH; [reflexivity | exact Hl]]. simpl. eapply as_pair_canon; eassumption.
Qed.

Lemma as_seq_canon l k ps :
  as_seq l = Some (k, ps) -> Forall Canon l -> name_cmp n_at k = Lt /\ Forall (fun p => Canon (snd p)) ps.
Proof.
  unfold as_seq. destruct l as [|m l]; [discriminate|].
  destruct (as_pair m) as [[[k0 n] x]|]; [|discriminate].
  destruct (name_eqb n n_item || name_eqb n n_char || name_eqb n n_byte) eqn:En; [|discriminate].
  destruct (seq_members n (m :: l)) as [ps'|] eqn:Es; [|discriminate].
  destruct (distinct_keys ps'); [|discriminate]. intros [= <- <-] Hc. split.
  - unfold name_eqb in En.
    destruct (name_cmp n n_item) eqn:E1; [apply name_cmp_eq in E1; subst; reflexivity| |];
    (destruct (name_cmp n n_char) eqn:E2; [apply name_cmp_eq in E2; subst; reflexivity| |]);
    (destruct (name_cmp n n_byte) eqn:E3; [apply name_cmp_eq in E3; subst; reflexivity| |]); discriminate.
  - eapply seq_members_canon; eassumption.
Qed.

Theorem bin_data_canon op a b r : Canon a -> Canon b -> bin_data op a b = Ok r -> Canon r.
Proof.
  intros Ha Hb. destruct op; simpl.
  - destruct a as [| |x]; try discriminate; destruct b as [| |y]; try discriminate. simpl. intros [= <-].
    apply mkset_canon, Forall_canon_app; apply set_members_canon; assumption.
  - destruct a as [| |x]; try discriminate; destruct b as [| |y]; try discriminate. simpl. intros [= <-].
    apply filter_canon, Ha.
  - destruct a as [| |x]; try discriminate; destruct b as [| |y]; try discriminate. simpl. intros [= <-].
    apply filter_canon, Ha.
  - destruct a as [| |x]; try discriminate; destruct b as [| |y]; try discriminate. simpl. intros [= <-].
    apply mkset_canon, Forall_canon_app; apply set_members_canon; apply filter_canon; assumption.
  - destruct a as [| |x]; try discriminate. simpl. intros [= <-]. apply vinsert_canon; assumption.
  - destruct a as [| |x]; try discriminate. simpl. intros [= <-]. apply filter_canon, Ha.
  - destruct a as [| |x]; try discriminate; destruct b as [| |y]; try discriminate. simpl. unfold concat_sets.
    destruct (mapM (shift_member (Z.of_nat (length x))) y) as [sb| | |] eqn:E; simpl; try discriminate. intros [= <-].
    apply mkset_canon, Forall_canon_app; [apply set_members_canon, Ha|].
    eapply mapM_forall; [exact E|]. intros m m' Hm Hs. eapply shift_member_canon; [|exact Hs].
    eapply Canon_members; eassumption.
  - destruct a, b; try discriminate; intros [= <-]; apply Canon_num.
  - destruct a, b; try discriminate; intros [= <-]; apply Canon_num.
  - destruct a as [[x|x]| |], b as [[y|y]| |]; try discriminate; intros [= <-]; apply Canon_num.
  - destruct a as [|x|x], b as [|y|y]; try discriminate; try (destruct x; discriminate).
    + intros [= <-]. unfold merge_tuples. apply build_tuple_canon, Forall_app_snd; apply tup_attrs_canon; assumption.
    + destruct x as [|x0 x], y as [|y0 y]; try (intros [= <-]; reflexivity);
      unfold merge_dicts;
      (match goal with |- match dict_entries ?u with _ => _ end = _ -> _ => destruct (dict_entries u) as [ea|] eqn:Ea; [|discriminate] end);
      (match goal with |- match dict_entries ?u with _ => _ end = _ -> _ => destruct (dict_entries u) as [eb|] eqn:Eb; [|discriminate] end);
      intros [= <-]; apply mkset_canon; apply Forall_forall; intros m Hm; apply in_map_iff in Hm as (p & <- & Hp);
      apply in_app_iff in Hp as [Hp|Hp];
      try (apply filter_In in Hp as [Hp _]);
      pose proof (dict_entries_canon _ _ Ea (set_members_canon _ Ha)) as Fa;
      pose proof (dict_entries_canon _ _ Eb (set_members_canon _ Hb)) as Fb;
      rewrite Forall_forall in Fa, Fb;
      first [ destruct (Fa p Hp) | destruct (Fb p Hp) ]; apply ventry_canon; assumption.
  - destruct a as [[n|n]| |], b as [|y|y]; try discriminate.
    destruct y as [|m y]; [intros [= <-]; reflexivity|].
    destruct (as_seq (m :: y)) as [[k ps]|] eqn:Es.
    + intros [= <-]. destruct (as_seq_canon _ _ _ Es (set_members_canon _ Hb)) as [Hk Hps].
      apply mkset_canon, Forall_forall. intros z Hz. apply in_map_iff in Hz as (p & <- & Hp).
      rewrite Forall_forall in Hps. apply vpair_canon; [exact Hk | reflexivity | apply (Hps p Hp)].
    + destruct (seq_members n_item (m :: y)), (seq_members n_char (m :: y)), (seq_members n_byte (m :: y)); discriminate.
Qed.

Theorem un_data_canon op a r : Canon a -> un_data op a = Ok r -> Canon r.
Proof.
  intros Ha. destruct op; simpl.
  - destruct a; try discriminate. intros [= <-]. apply Canon_num.
  - destruct a as [| |x]; try discriminate. simpl. intros [= <-]. apply Canon_int.
  - destruct a as [| |x]; try discriminate. simpl. intros [= <-].
    pose proof Ha as Ha'. apply Canon_set in Ha' as [Hs Hc].
    apply Canon_set. split; [apply s_pow_canon|].
    apply Forall_forall. intros s Hs'. apply (s_pow_spec x Hs) in Hs' as (l & -> & Hl & Hin).
    eapply ssorted_set_canon; eassumption.
  - intros [= <-]. apply Canon_bool.
Qed.

Lemma lookup_all_canon k l vs : Forall Canon l -> lookup_all k l = Some vs -> Forall Canon vs.
Proof.
  intros Hc H. apply Forall_forall. intros v Hv.
  destruct (lookup_all_spec k l vs H) as [_ Hs]. apply Hs in Hv as (m & n & Hm & Hp).
  rewrite Forall_forall in Hc. destruct (as_pair_canon m k n v (Hc m Hm) Hp) as [_ Hv']. exact Hv'.
Qed.

Lemma call_data_canon c k v : Canon (VSet c) -> call_data c k = CROne v -> Canon v.
Proof.
  intros Hc. unfold call_data. destruct (lookup_all k c) as [[|x r]|] eqn:E; try discriminate.
  destruct (forallb (veqb x) r); [|discriminate]. intros [= <-].
  pose proof (lookup_all_canon k c _ (set_members_canon _ Hc) E) as H. inversion H; assumption.
Qed.

(* ---------- relations ---------- *)

Lemma jcombine_canon op common t u : Canon (VTup t) -> Canon (VTup u) -> Canon (jcombine op common t u).
Proof.
  intros Ht Hu. destruct op; simpl; unfold tproject;
    try (apply build_tuple_canon, Forall_app_snd; apply tup_attrs_canon; try apply filter_tup_canon; assumption);
    try (apply filter_tup_canon; assumption); try assumption; reflexivity.
Qed.

Lemma join_rows_canon op common a b :
  Canon (VSet a) -> Canon (VSet b) ->
  Canon (mkset (flat_map (fun t => match t with
                                   | VTup t1 => flat_map (fun u => match u with
                                                                   | VTup u1 => if agree common t1 u1 then [jcombine op common t1 u1] else []
                                                                   | _ => []
                                                                   end) b
                                   | _ => []
                                   end) a)).
Proof.
  intros Ha Hb. apply mkset_canon, Forall_forall. intros m Hm.
  apply in_flat_map_iff in Hm as (t & Ht & Hm). destruct t as [|t1|]; try contradiction.
  apply in_flat_map_iff in Hm as (u & Hu & Hm). destruct u as [|u1|]; try contradiction.
  destruct (agree _ t1 u1); [|contradiction]. destruct Hm as [<-|[]].
  apply jcombine_canon; [apply (Canon_members a _ Ha Ht) | apply (Canon_members b _ Hb Hu)].
Qed.

Theorem join_data_canon op a b r : Canon (VSet a) -> Canon (VSet b) -> join_data op a b = Ok r -> Canon r.
Proof.
  intros Ha Hb. unfold join_data. destruct a as [|a0 a]; [intros [= <-]; reflexivity|].
  destruct b as [|b0 b]; [intros [= <-]; reflexivity|].
  destruct (heading (a0 :: a)) as [ha|]; [|discriminate]. destruct (heading (b0 :: b)) as [hb|]; [|discriminate].
  intros [= <-]. exact (join_rows_canon op (filter (fun n => name_in n hb) ha) (a0 :: a) (b0 :: b) Ha Hb).
Qed.

Lemma nest_rows_canon (key grp : list (name * val) -> list (name * val)) n a :
  (forall t, Canon (VTup t) -> Canon (VTup (key t))) -> (forall t, Canon (VTup t) -> Canon (VTup (grp t))) ->
  Canon (VSet a) ->
  Canon (mkset (map (fun m => match m with
                              | VTup t =>
                                  build_tuple (key t ++
                                    [(n, mkset (flat_map (fun m' => match m' with
                                                                    | VTup t' => if veqb (VTup (key t')) (VTup (key t)) then [VTup (grp t')] else []
                                                                    | _ => []
                                                                    end) a))])
                              | x => x
                              end) a)).
Proof.
  intros Hkey Hgrp Ha. apply mkset_canon, Forall_forall. intros m Hm. apply in_map_iff in Hm as (t & <- & Ht).
  pose proof (Canon_members _ _ Ha Ht) as Hct. destruct t as [|t|]; try exact Hct.
  apply build_tuple_canon, Forall_app_snd; [apply tup_attrs_canon, Hkey, Hct|].
  constructor; [|constructor]. simpl. apply mkset_canon, Forall_forall. intros g Hg.
  apply in_flat_map_iff in Hg as (t' & Ht' & Hg). destruct t' as [|t'|]; try contradiction.
  destruct (veqb _ _); [|contradiction]. destruct Hg as [<-|[]].
  apply Hgrp. eapply Canon_members; eassumption.
Qed.

Theorem nest_data_canon names n a r : Canon (VSet a) -> nest_data names n a = Ok r -> Canon r.
Proof.
  intros Ha. unfold nest_data. destruct a as [|a0 a]; [intros [= <-]; reflexivity|].
  destruct (heading (a0 :: a)) as [h|]; [|discriminate].
  destruct (negb _); [discriminate|]. destruct (name_in n _); [discriminate|].
  intros [= <-].
  exact (nest_rows_canon (fun t => tproject (fun x => negb (name_in x names)) t) (fun t => tproject (fun x => name_in x names) t) n (a0 :: a)
           (fun t Ht => filter_tup_canon _ t Ht) (fun t Ht => filter_tup_canon _ t Ht) Ha).
Qed.

Lemma single_nest_rows_canon (key : list (name * val) -> list (name * val)) n a :
  (forall t, Canon (VTup t) -> Canon (VTup (key t))) ->
  Canon (VSet a) ->
  Canon (mkset (map (fun m => match m with
                              | VTup t =>
                                  build_tuple (key t ++
                                    [(n, mkset (flat_map (fun m' => match m' with
                                                                    | VTup t' => if veqb (VTup (key t')) (VTup (key t))
                                                                                 then match tget n t' with Some x => [x] | None => [] end else []
                                                                    | _ => []
                                                                    end) a))])
                              | x => x
                              end) a)).
Proof.
  intros Hkey Ha. apply mkset_canon, Forall_forall. intros m Hm. apply in_map_iff in Hm as (t & <- & Ht).
  pose proof (Canon_members _ _ Ha Ht) as Hct. destruct t as [|t|]; try exact Hct.
  apply build_tuple_canon, Forall_app_snd; [apply tup_attrs_canon, Hkey, Hct|].
  constructor; [|constructor]. simpl. apply mkset_canon, Forall_forall. intros g Hg.
  apply in_flat_map_iff in Hg as (t' & Ht' & Hg). destruct t' as [|t'|]; try contradiction.
  destruct (veqb _ _); [|contradiction].
  destruct (tget n t') as [x|] eqn:Eg; [|contradiction]. destruct Hg as [<-|[]].
  eapply tget_canon; [|exact Eg]. eapply Canon_members; eassumption.
Qed.

Theorem single_nest_data_canon n a r : Canon (VSet a) -> single_nest_data n a = Ok r -> Canon r.
Proof.
  intros Ha. unfold single_nest_data. destruct a as [|a0 a]; [intros [= <-]; reflexivity|].
  destruct (heading (a0 :: a)) as [h|]; [|discriminate].
  destruct (negb _); [discriminate|].
  intros [= <-].
  exact (single_nest_rows_canon (fun t => tproject (fun x => negb (name_eqb x n)) t) n (a0 :: a)
           (fun t Ht => filter_tup_canon _ t Ht) Ha).
Qed.
