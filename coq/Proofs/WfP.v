(* Every value the reference semantics produces is in canonical form, for every
   program, scope and fuel: so equality of results is identity of denotations
   (veqb_eq, ssorted_ext) however the operands were built (properties C01, C02). *)
From Arrai Require Import Base.Val Spec.SetAlg Eval.Interp Proofs.ValOrder Proofs.SetAlgP Proofs.KeyedP Proofs.CanonP Proofs.RelP.

(* ---------- canonical form, structurally ---------- *)

Lemma Canon_num n : Canon (VNum n).
Proof. reflexivity. Qed.

Lemma Canon_set l : Canon (VSet l) <-> ssorted l /\ Forall Canon l.
Proof.
  unfold Canon. simpl. split.
  - intros H. injection H as H. split.
    + rewrite <- H. apply vsort_sorted.
    + apply Forall_forall. intros x Hx. rewrite <- H in Hx. apply vsort_in, in_map_iff in Hx as (y & <- & _).
      apply norm_idem.
  - intros [Hs Hc]. f_equal.
    assert (E : map norm l = l).
    { clear Hs. induction Hc as [|x l Hx Hl IH]; simpl; [reflexivity | rewrite Hx, IH; reflexivity]. }
    rewrite E. apply vsort_sorted_id, Hs.
Qed.

Lemma Canon_tup l : Canon (VTup l) <-> asorted l /\ Forall (fun p => Canon (snd p)) l.
Proof.
  unfold Canon. simpl. split.
  - intros H. injection H as H. split.
    + rewrite <- H. apply asort_sorted.
    + apply Forall_forall. intros q Hq. rewrite <- H in Hq. apply asort_in, in_map_iff in Hq as (p & <- & _).
      simpl. apply norm_idem.
  - intros [Hs Hc]. f_equal.
    assert (E : map (fun p => (fst p, norm (snd p))) l = l).
    { clear Hs. induction Hc as [|[n x] l Hx Hl IH]; simpl in *; [reflexivity | rewrite Hx, IH; reflexivity]. }
    rewrite E. apply asort_sorted_id, Hs.
Qed.

Lemma Canon_bool b : Canon (vbool b).
Proof. destruct b; reflexivity. Qed.
Lemma Canon_int z : Canon (vint z).
Proof. reflexivity. Qed.

Lemma Canon_members l x : Canon (VSet l) -> In x l -> Canon x.
Proof. intros H Hx. apply Canon_set in H as [_ H]. rewrite Forall_forall in H. apply H, Hx. Qed.

Lemma Canon_attrs l p : Canon (VTup l) -> In p l -> Canon (snd p).
Proof. intros H Hp. apply Canon_tup in H as [_ H]. rewrite Forall_forall in H. apply (H p Hp). Qed.

Lemma mkset_canon l : Forall Canon l -> Canon (mkset l).
Proof.
  intros H. apply Canon_set. split; [apply vsort_sorted|].
  apply Forall_forall. intros x Hx. apply (proj1 (vsort_in _ _)) in Hx. rewrite Forall_forall in H. apply H, Hx.
Qed.

Lemma ssorted_set_canon l m :
  Canon (VSet l) -> ssorted m -> (forall x, In x m -> In x l) -> Canon (VSet m).
Proof.
  intros Hl Hm Hin. apply Canon_set. split; [exact Hm|].
  apply Forall_forall. intros x Hx. eapply Canon_members; [exact Hl | apply Hin, Hx].
Qed.

Lemma filter_canon f l : Canon (VSet l) -> Canon (VSet (filter f l)).
Proof.
  intros H. eapply ssorted_set_canon; [exact H | apply filter_sorted; apply Canon_set in H; apply H |].
  intros x Hx. apply filter_In in Hx. apply Hx.
Qed.

Lemma mask_sorted (l : list val) : forall keep, ssorted l ->
  ssorted (map fst (filter snd (combine l keep))) /\
  (forall x, In x (map fst (filter snd (combine l keep))) -> In x l).
Proof.
  induction l as [|x l IH]; intros keep Hs; [split; [exact I | intros y []]|].
  destruct keep as [|b keep]; [split; [exact I | intros y []]|].
  destruct Hs as [Hx Hs]. destruct (IH keep Hs) as [IH1 IH2]. simpl. destruct b; simpl.
  - split; [split; [intros y Hy; apply Hx, IH2, Hy | exact IH1]|].
    intros y [<-|Hy]; [left; reflexivity | right; apply IH2, Hy].
  - split; [exact IH1 | intros y Hy; right; apply IH2, Hy].
Qed.

Lemma mask_canon l keep : Canon (VSet l) -> Canon (VSet (map fst (filter snd (combine l keep)))).
Proof.
  intros H. pose proof H as H'. apply Canon_set in H' as [Hs _].
  destruct (mask_sorted l keep Hs) as [H1 H2]. eapply ssorted_set_canon; eassumption.
Qed.

(* ---------- tuples ---------- *)

Lemma ainsert_canon x l : Canon (VTup l) -> Canon (snd x) -> Canon (VTup (ainsert x l)).
Proof.
  intros H Hx. apply Canon_tup in H as [Hs Hc]. apply Canon_tup. split; [apply ainsert_sorted, Hs|].
  apply Forall_forall. intros q Hq. apply ainsert_fst in Hq as [->|Hq]; [exact Hx|].
  rewrite Forall_forall in Hc. apply (Hc q Hq).
Qed.

Lemma build_tuple_canon l : Forall (fun p => Canon (snd p)) l -> Canon (build_tuple l).
Proof.
  unfold build_tuple. intros H.
  assert (G : forall acc, Canon (VTup acc) -> Canon (VTup (fold_left (fun acc p => ainsert p acc) l acc))).
  { induction H as [|p l Hp Hl IH]; intros acc Hacc; simpl; [exact Hacc|]. apply IH, ainsert_canon; assumption. }
  apply G. reflexivity.
Qed.

Lemma filter_asorted f (l : list (name * val)) : asorted l -> asorted (filter f l).
Proof.
  induction l as [|p l IH]; simpl; [trivial|]. intros [Hp Hl]. destruct (f p); simpl.
  - split; [|apply IH, Hl]. intros q Hq. apply filter_In in Hq. apply Hp, Hq.
  - apply IH, Hl.
Qed.

Lemma filter_tup_canon f l : Canon (VTup l) -> Canon (VTup (filter f l)).
Proof.
  intros H. apply Canon_tup in H as [Hs Hc]. apply Canon_tup. split; [apply filter_asorted, Hs|].
  apply Forall_forall. intros q Hq. apply filter_In in Hq as [Hq _]. rewrite Forall_forall in Hc. apply (Hc q Hq).
Qed.

Lemma tget_in n l v : tget n l = Some v -> exists m, In (m, v) l.
Proof.
  induction l as [|[m x] l IH]; simpl; [discriminate|].
  destruct (name_cmp n m).
  - intros H; injection H as <-. exists m. left; reflexivity.
  - intros H. destruct (IH H) as (m' & Hm). exists m'. right; exact Hm.
  - intros H. destruct (IH H) as (m' & Hm). exists m'. right; exact Hm.
Qed.

Lemma tget_canon n l v : Canon (VTup l) -> tget n l = Some v -> Canon v.
Proof. intros H Hg. apply tget_in in Hg as (m & Hm). apply (Canon_attrs l (m, v) H Hm). Qed.

Lemma Forall_app_snd (a b : list (name * val)) :
  Forall (fun p => Canon (snd p)) a -> Forall (fun p => Canon (snd p)) b -> Forall (fun p => Canon (snd p)) (a ++ b).
Proof. intros; apply Forall_app; split; assumption. Qed.

Lemma tup_attrs_canon l : Canon (VTup l) -> Forall (fun p => Canon (snd p)) l.
Proof. intros H. apply Canon_tup in H. apply H. Qed.

Lemma vpair_canon k i x :
  name_cmp n_at k = Lt -> Canon i -> Canon x -> Canon (vpair k i x).
Proof.
  intros Hk Hi Hx. unfold vpair. apply Canon_tup. split.
  - simpl. split; [intros q [<-|[]]; exact Hk|]. split; [intros q []|exact I].
  - repeat constructor; assumption.
Qed.

Lemma as_pair_canon m k n v : Canon m -> as_pair m = Some (k, n, v) -> Canon k /\ Canon v.
Proof.
  unfold as_pair. destruct m as [|l|]; try discriminate.
  destruct l as [|[n1 a] [|[n2 b] [|]]]; try discriminate.
  intros H. pose proof (tup_attrs_canon _ H) as Hc. inversion Hc as [|? ? Ha Hc']; subst. inversion Hc' as [|? ? Hb _]; subst.
  simpl in Ha, Hb.
  destruct (name_cmp n1 n_at).
  - intros E; injection E as <- <- <-. split; assumption.
  - destruct (name_cmp n2 n_at); try discriminate. intros E; injection E as <- <- <-. split; assumption.
  - destruct (name_cmp n2 n_at); try discriminate. intros E; injection E as <- <- <-. split; assumption.
Qed.

(* ---------- operators ---------- *)

Lemma Forall_canon_app (a b : list val) : Forall Canon a -> Forall Canon b -> Forall Canon (a ++ b).
Proof. intros; apply Forall_app; split; assumption. Qed.

Lemma set_members_canon l : Canon (VSet l) -> Forall Canon l.
Proof. intros H. apply Canon_set in H. apply H. Qed.

Lemma vinsert_canon x l : Canon (VSet l) -> Canon x -> Canon (VSet (vinsert x l)).
Proof.
  intros H Hx. pose proof H as H'. apply Canon_set in H' as [Hs Hc]. apply Canon_set. split; [apply vinsert_sorted, Hs|].
  apply Forall_forall. intros y Hy. apply vinsert_in in Hy as [->|Hy]; [exact Hx|].
  rewrite Forall_forall in Hc. apply Hc, Hy.
Qed.

Lemma mapM_forall {A B} (f : A -> res B) (P : B -> Prop) l r :
  mapM f l = Ok r -> (forall x y, In x l -> f x = Ok y -> P y) -> Forall P r.
Proof.
  intros H Hf. apply Forall_forall. intros y Hy. apply (mapM_ok f l r H) in Hy as (x & Hx & E). eapply Hf; eassumption.
Qed.

Lemma shift_member_canon off m m' : Canon m -> shift_member off m = Ok m' -> Canon m'.
Proof.
  intros Hm H. apply shift_member_spec in H as (attrs & k & -> & _ & ->).
  apply ainsert_canon; [exact Hm | reflexivity].
Qed.

Lemma dict_entries_canon l es :
  dict_entries l = Some es -> Forall Canon l -> Forall (fun p => Canon (fst p) /\ Canon (snd p)) es.
Proof.
  revert es; induction l as [|m l IH]; intros es; simpl; [intros [= <-] _; constructor|].
  destruct (dict_entries l) as [r|] eqn:E; [|discriminate].
  intros H Hc. inversion Hc as [|? ? Hm Hl]; subst.
  destruct m as [|[|[n1 k] [|[n2 v] [|]]]|]; try discriminate.
  destruct (name_eqb n1 n_at && name_eqb n2 n_value); [|discriminate].
  injection H as <-. constructor; [|apply IH; [reflexivity | exact Hl]].
  pose proof (tup_attrs_canon _ Hm) as Ha. inversion Ha as [|? ? Hk Ha']; subst. inversion Ha' as [|? ? Hv _]; subst.
  split; assumption.
Qed.

Lemma ventry_canon k x : Canon k -> Canon x -> Canon (ventry k x).
Proof. intros; apply vpair_canon; [reflexivity | assumption | assumption]. Qed.
Lemma vitem_canon i x : Canon x -> Canon (vitem i x).
Proof. intros; apply vpair_canon; [reflexivity | reflexivity | assumption]. Qed.

Lemma seq_members_canon n l ps :
  seq_members n l = Some ps -> Forall Canon l -> Forall (fun p => Canon (snd p)) ps.
Proof.
  revert ps; induction l as [|m l IH]; intros ps; simpl; [intros [= <-] _; constructor|].
  destruct (seq_members n l) as [r|] eqn:E; [|discriminate].
  intros H Hc. inversion Hc as [|? ? Hm Hl]; subst.
  destruct (as_pair m) as [[[k n'] x]|] eqn:Ep; [|discriminate].
  destruct (is_int_val k) as [i|]; [|discriminate].
  destruct (name_eqb n n'); [|discriminate]. injection H as <-.
  constructor; [|apply IH; [reflexivity | exact Hl]]. simpl. eapply as_pair_canon; eassumption.
Qed.

Lemma as_seq_canon l k ps :
  as_seq l = Some (k, ps) -> Forall Canon l -> name_cmp n_at k = Lt /\ Forall (fun p => Canon (snd p)) ps.
Proof.
  unfold as_seq. destruct l as [|m l]; [discriminate|].
  destruct (as_pair m) as [[[k0 n] x]|]; [|discriminate].
  destruct (name_eqb n n_item || name_eqb n n_char || name_eqb n n_byte) eqn:En; [|discriminate].
  destruct (seq_members n (m :: l)) as [ps'|] eqn:Es; [|discriminate].
  destruct (distinct_keys ps'); [|discriminate]. intros [= <- <-] Hc. split.
  - unfold name_eqb in En.
    destruct (name_cmp n n_item) eqn:E1; [apply name_cmp_eq in E1; subst; reflexivity| |];
    (destruct (name_cmp n n_char) eqn:E2; [apply name_cmp_eq in E2; subst; reflexivity| |]);
    (destruct (name_cmp n n_byte) eqn:E3; [apply name_cmp_eq in E3; subst; reflexivity| |]); discriminate.
  - eapply seq_members_canon; eassumption.
Qed.

Theorem bin_data_canon op a b r : Canon a -> Canon b -> bin_data op a b = Ok r -> Canon r.
Proof.
  intros Ha Hb. destruct op; simpl.
  - destruct a as [| |x]; try discriminate; destruct b as [| |y]; try discriminate. simpl. intros [= <-].
    apply mkset_canon, Forall_canon_app; apply set_members_canon; assumption.
  - destruct a as [| |x]; try discriminate; destruct b as [| |y]; try discriminate. simpl. intros [= <-].
    apply filter_canon, Ha.
  - destruct a as [| |x]; try discriminate; destruct b as [| |y]; try discriminate. simpl. intros [= <-].
    apply filter_canon, Ha.
  - destruct a as [| |x]; try discriminate; destruct b as [| |y]; try discriminate. simpl. intros [= <-].
    apply mkset_canon, Forall_canon_app; apply set_members_canon; apply filter_canon; assumption.
  - destruct a as [| |x]; try discriminate. simpl. intros [= <-]. apply vinsert_canon; assumption.
  - destruct a as [| |x]; try discriminate. simpl. intros [= <-]. apply filter_canon, Ha.
  - destruct a as [| |x]; try discriminate; destruct b as [| |y]; try discriminate. simpl. unfold concat_sets.
    destruct (mapM (shift_member (Z.of_nat (length x))) y) as [sb| | |] eqn:E; simpl; try discriminate. intros [= <-].
    apply mkset_canon, Forall_canon_app; [apply set_members_canon, Ha|].
    eapply mapM_forall; [exact E|]. intros m m' Hm Hs. eapply shift_member_canon; [|exact Hs].
    eapply Canon_members; eassumption.
  - destruct a, b; try discriminate; intros [= <-]; apply Canon_num.
  - destruct a, b; try discriminate; intros [= <-]; apply Canon_num.
  - destruct a as [[x|x]| |], b as [[y|y]| |]; try discriminate; intros [= <-]; apply Canon_num.
  - destruct a as [|x|x], b as [|y|y]; try discriminate; try (destruct x; discriminate).
    + intros [= <-]. unfold merge_tuples. apply build_tuple_canon, Forall_app_snd; apply tup_attrs_canon; assumption.
    + destruct x as [|x0 x], y as [|y0 y]; try (intros [= <-]; reflexivity);
      unfold merge_dicts;
      (match goal with |- match dict_entries ?u with _ => _ end = _ -> _ => destruct (dict_entries u) as [ea|] eqn:Ea; [|discriminate] end);
      (match goal with |- match dict_entries ?u with _ => _ end = _ -> _ => destruct (dict_entries u) as [eb|] eqn:Eb; [|discriminate] end);
      intros [= <-]; apply mkset_canon; apply Forall_forall; intros m Hm; apply in_map_iff in Hm as (p & <- & Hp);
      apply in_app_iff in Hp as [Hp|Hp];
      try (apply filter_In in Hp as [Hp _]);
      pose proof (dict_entries_canon _ _ Ea (set_members_canon _ Ha)) as Fa;
      pose proof (dict_entries_canon _ _ Eb (set_members_canon _ Hb)) as Fb;
      rewrite Forall_forall in Fa, Fb;
      first [ destruct (Fa p Hp) | destruct (Fb p Hp) ]; apply ventry_canon; assumption.
  - destruct a as [[n|n]| |], b as [|y|y]; try discriminate.
    destruct y as [|m y]; [intros [= <-]; reflexivity|].
    destruct (as_seq (m :: y)) as [[k ps]|] eqn:Es.
    + intros [= <-]. destruct (as_seq_canon _ _ _ Es (set_members_canon _ Hb)) as [Hk Hps].
      apply mkset_canon, Forall_forall. intros z Hz. apply in_map_iff in Hz as (p & <- & Hp).
      rewrite Forall_forall in Hps. apply vpair_canon; [exact Hk | reflexivity | apply (Hps p Hp)].
    + destruct (seq_members n_item (m :: y)), (seq_members n_char (m :: y)), (seq_members n_byte (m :: y)); discriminate.
Qed.

Theorem un_data_canon op a r : Canon a -> un_data op a = Ok r -> Canon r.
Proof.
  intros Ha. destruct op; simpl.
  - destruct a; try discriminate. intros [= <-]. apply Canon_num.
  - destruct a as [| |x]; try discriminate. simpl. intros [= <-]. apply Canon_int.
  - destruct a as [| |x]; try discriminate. simpl. intros [= <-].
    pose proof Ha as Ha'. apply Canon_set in Ha' as [Hs Hc].
    apply Canon_set. split; [apply s_pow_canon|].
    apply Forall_forall. intros s Hs'. apply (s_pow_spec x Hs) in Hs' as (l & -> & Hl & Hin).
    eapply ssorted_set_canon; eassumption.
  - intros [= <-]. apply Canon_bool.
Qed.

Lemma lookup_all_canon k l vs : Forall Canon l -> lookup_all k l = Some vs -> Forall Canon vs.
Proof.
  intros Hc H. apply Forall_forall. intros v Hv.
  destruct (lookup_all_spec k l vs H) as [_ Hs]. apply Hs in Hv as (m & n & Hm & Hp).
  rewrite Forall_forall in Hc. destruct (as_pair_canon m k n v (Hc m Hm) Hp) as [_ Hv']. exact Hv'.
Qed.

Lemma call_data_canon c k v : Canon (VSet c) -> call_data c k = CROne v -> Canon v.
Proof.
  intros Hc. unfold call_data. destruct (lookup_all k c) as [[|x r]|] eqn:E; try discriminate.
  destruct (forallb (veqb x) r); [|discriminate]. intros [= <-].
  pose proof (lookup_all_canon k c _ (set_members_canon _ Hc) E) as H. inversion H; assumption.
Qed.

(* ---------- relations ---------- *)

Lemma jcombine_canon op common t u : Canon (VTup t) -> Canon (VTup u) -> Canon (jcombine op common t u).
Proof.
  intros Ht Hu. destruct op; simpl; unfold tproject;
    try (apply build_tuple_canon, Forall_app_snd; apply tup_attrs_canon; try apply filter_tup_canon; assumption);
    try (apply filter_tup_canon; assumption); try assumption; reflexivity.
Qed.

Lemma join_rows_canon op common a b :
  Canon (VSet a) -> Canon (VSet b) ->
  Canon (mkset (flat_map (fun t => match t with
                                   | VTup t1 => flat_map (fun u => match u with
                                                                   | VTup u1 => if agree common t1 u1 then [jcombine op common t1 u1] else []
                                                                   | _ => []
                                                                   end) b
                                   | _ => []
                                   end) a)).
Proof.
  intros Ha Hb. apply mkset_canon, Forall_forall. intros m Hm.
  apply in_flat_map_iff in Hm as (t & Ht & Hm). destruct t as [|t1|]; try contradiction.
  apply in_flat_map_iff in Hm as (u & Hu & Hm). destruct u as [|u1|]; try contradiction.
  destruct (agree _ t1 u1); [|contradiction]. destruct Hm as [<-|[]].
  apply jcombine_canon; [apply (Canon_members a _ Ha Ht) | apply (Canon_members b _ Hb Hu)].
Qed.

Theorem join_data_canon op a b r : Canon (VSet a) -> Canon (VSet b) -> join_data op a b = Ok r -> Canon r.
Proof.
  intros Ha Hb. unfold join_data. destruct a as [|a0 a]; [intros [= <-]; reflexivity|].
  destruct b as [|b0 b]; [intros [= <-]; reflexivity|].
  destruct (heading (a0 :: a)) as [ha|]; [|discriminate]. destruct (heading (b0 :: b)) as [hb|]; [|discriminate].
  intros [= <-]. exact (join_rows_canon op (filter (fun n => name_in n hb) ha) (a0 :: a) (b0 :: b) Ha Hb).
Qed.

Lemma nest_rows_canon (key grp : list (name * val) -> list (name * val)) n a :
  (forall t, Canon (VTup t) -> Canon (VTup (key t))) -> (forall t, Canon (VTup t) -> Canon (VTup (grp t))) ->
  Canon (VSet a) ->
  Canon (mkset (map (fun m => match m with
                              | VTup t =>
                                  build_tuple (key t ++
                                    [(n, mkset (flat_map (fun m' => match m' with
                                                                    | VTup t' => if veqb (VTup (key t')) (VTup (key t)) then [VTup (grp t')] else []
                                                                    | _ => []
                                                                    end) a))])
                              | x => x
                              end) a)).
Proof.
  intros Hkey Hgrp Ha. apply mkset_canon, Forall_forall. intros m Hm. apply in_map_iff in Hm as (t & <- & Ht).
  pose proof (Canon_members _ _ Ha Ht) as Hct. destruct t as [|t|]; try exact Hct.
  apply build_tuple_canon, Forall_app_snd; [apply tup_attrs_canon, Hkey, Hct|].
  constructor; [|constructor]. simpl. apply mkset_canon, Forall_forall. intros g Hg.
  apply in_flat_map_iff in Hg as (t' & Ht' & Hg). destruct t' as [|t'|]; try contradiction.
  destruct (veqb _ _); [|contradiction]. destruct Hg as [<-|[]].
  apply Hgrp. eapply Canon_members; eassumption.
Qed.

Theorem nest_data_canon names n a r : Canon (VSet a) -> nest_data names n a = Ok r -> Canon r.
Proof.
  intros Ha. unfold nest_data. destruct a as [|a0 a]; [intros [= <-]; reflexivity|].
  destruct (heading (a0 :: a)) as [h|]; [|discriminate].
  destruct (negb _); [discriminate|]. destruct (name_in n _); [discriminate|].
  intros [= <-].
  exact (nest_rows_canon (fun t => tproject (fun x => negb (name_in x names)) t) (fun t => tproject (fun x => name_in x names) t) n (a0 :: a)
           (fun t Ht => filter_tup_canon _ t Ht) (fun t Ht => filter_tup_canon _ t Ht) Ha).
Qed.

Lemma single_nest_rows_canon (key : list (name * val) -> list (name * val)) n a :
  (forall t, Canon (VTup t) -> Canon (VTup (key t))) ->
  Canon (VSet a) ->
  Canon (mkset (map (fun m => match m with
                              | VTup t =>
                                  build_tuple (key t ++
                                    [(n, mkset (flat_map (fun m' => match m' with
                                                                    | VTup t' => if veqb (VTup (key t')) (VTup (key t))
                                                                                 then match tget n t' with Some x => [x] | None => [] end else []
                                                                    | _ => []
                                                                    end) a))])
                              | x => x
                              end) a)).
Proof.
  intros Hkey Ha. apply mkset_canon, Forall_forall. intros m Hm. apply in_map_iff in Hm as (t & <- & Ht).
  pose proof (Canon_members _ _ Ha Ht) as Hct. destruct t as [|t|]; try exact Hct.
  apply build_tuple_canon, Forall_app_snd; [apply tup_attrs_canon, Hkey, Hct|].
  constructor; [|constructor]. simpl. apply mkset_canon, Forall_forall. intros g Hg.
  apply in_flat_map_iff in Hg as (t' & Ht' & Hg). destruct t' as [|t'|]; try contradiction.
  destruct (veqb _ _); [|contradiction].
  destruct (tget n t') as [x|] eqn:Eg; [|contradiction]. destruct Hg as [<-|[]].
  eapply tget_canon; [|exact Eg]. eapply Canon_members; eassumption.
Qed.

Theorem single_nest_data_canon n a r : Canon (VSet a) -> single_nest_data n a = Ok r -> Canon r.
Proof.
  intros Ha. unfold single_nest_data. destruct a as [|a0 a]; [intros [= <-]; reflexivity|].
  destruct (heading (a0 :: a)) as [h|]; [|discriminate].
  destruct (negb _); [discriminate|].
  intros [= <-].
  exact (single_nest_rows_canon (fun t => tproject (fun x => negb (name_eqb x n)) t) n (a0 :: a)
           (fun t Ht => filter_tup_canon _ t Ht) Ha).
Qed.

(* ---------- values of the evaluator ---------- *)

Inductive VWF : value -> Prop :=
| VWF_D v : Canon v -> VWF (D v)
| VWF_C rho p body : Forall (fun b => VWF (snd b)) rho -> VWF (Clos rho p body).

Definition EWF (rho : env) : Prop := Forall (fun b => VWF (snd b)) rho.

(* "every Ok answer satisfies P" *)
Definition rP {A} (P : A -> Prop) (r : res A) : Prop := forall a, r = Ok a -> P a.

Lemma rP_ok {A} (P : A -> Prop) a : P a -> rP P (Ok a).
Proof. intros H b [= <-]. exact H. Qed.
Lemma rP_err {A} (P : A -> Prop) : rP P Err.
Proof. intros a E; discriminate. Qed.
Lemma rP_unspec {A} (P : A -> Prop) : rP P Unspec.
Proof. intros a E; discriminate. Qed.
Lemma rP_oof {A} (P : A -> Prop) : rP P OutOfFuel.
Proof. intros a E; discriminate. Qed.

Lemma rP_bind {A B} (Q : A -> Prop) (P : B -> Prop) r f :
  rP Q r -> (forall a, Q a -> rP P (f a)) -> rP P (rbind r f).
Proof.
  intros Hr Hf b. destruct r as [a| | |]; simpl; try discriminate. apply Hf, Hr. reflexivity.
Qed.

Lemma rP_mapM {A B} (Q : B -> Prop) (f : A -> res B) l :
  (forall x, In x l -> rP Q (f x)) -> rP (Forall Q) (mapM f l).
Proof.
  intros Hf r Hr. eapply mapM_forall; [exact Hr|]. intros x y Hx E. apply (Hf x Hx y E).
Qed.

Lemma rP_true {A} (r : res A) : rP (fun _ => True) r.
Proof. intros a _. exact I. Qed.
Lemma rP_elim {A} (P : A -> Prop) r a : rP P r -> r = Ok a -> P a.
Proof. intros H E. apply H, E. Qed.

Lemma rP_weaken {A} (P Q : A -> Prop) r : (forall a, P a -> Q a) -> rP P r -> rP Q r.
Proof. intros H Hr a E. apply H, Hr, E. Qed.

Lemma as_data_wf v : VWF v -> rP Canon (as_data v).
Proof. intros H d. destruct v; simpl; [intros [= <-]; inversion H; assumption | discriminate]. Qed.

Lemma as_set_wf v : Canon v -> rP (fun l => Canon (VSet l)) (as_set v).
Proof. intros H l. destruct v; simpl; try discriminate. intros [= <-]. exact H. Qed.

Lemma env_get_wf x rho v : EWF rho -> env_get x rho = Some v -> VWF v.
Proof.
  induction rho as [|[y w] rho IH]; simpl; [discriminate|]. intros H. inversion H as [|? ? Hw Hr]; subst.
  destruct (name_eqb x y); [intros [= <-]; exact Hw | apply IH, Hr].
Qed.

Lemma EWF_app a b : EWF a -> EWF b -> EWF (a ++ b).
Proof. intros; apply Forall_app; split; assumption. Qed.

Lemma env_matched_update_wf t : forall s r, EWF s -> EWF t -> env_matched_update s t = Some r -> EWF r.
Proof.
  induction t as [|[x v] t IH]; intros s r Hs Ht; simpl; [intros [= <-]; exact Hs|].
  inversion Ht as [|? ? Hv Ht']; subst. simpl in Hv.
  destruct (env_get x s) as [[a|? ? ?]|]; [destruct v as [b|? ? ?]; [destruct (veqb a b); [apply IH; assumption | discriminate] | discriminate] | discriminate |].
  apply IH; [constructor; assumption | assumption].
Qed.

Lemma bin_data_wf op a b : Canon a -> Canon b -> rP Canon (bin_data op a b).
Proof. intros Ha Hb r E. exact (bin_data_canon op a b r Ha Hb E). Qed.
Lemma un_data_wf op a : Canon a -> rP Canon (un_data op a).
Proof. intros Ha r E. exact (un_data_canon op a r Ha E). Qed.
Lemma join_data_wf op a b : Canon (VSet a) -> Canon (VSet b) -> rP Canon (join_data op a b).
Proof. intros Ha Hb r E. exact (join_data_canon op a b r Ha Hb E). Qed.
Lemma nest_data_wf names n a : Canon (VSet a) -> rP Canon (nest_data names n a).
Proof. intros Ha r E. exact (nest_data_canon names n a r Ha E). Qed.
Lemma single_nest_data_wf n a : Canon (VSet a) -> rP Canon (single_nest_data n a).
Proof. intros Ha r E. exact (single_nest_data_canon n a r Ha E). Qed.

Lemma arr_items_canon (vs : list (option val)) :
  Forall (fun o => match o with Some v => Canon v | None => True end) vs ->
  forall idx, Forall Canon (fold_right (fun (p : Z * option val) acc => match snd p with Some v => vitem (fst p) v :: acc | None => acc end)
                                       [] (combine idx vs)).
Proof.
  induction 1 as [|o vs Ho Hvs IH]; intros idx; destruct idx as [|i idx]; simpl; try constructor.
  destruct o as [v|]; [constructor; [apply vitem_canon, Ho | apply IH] | apply IH].
Qed.

Lemma dense_array_canon d xs : Canon d -> dense_array d = Some xs -> Forall Canon xs.
Proof.
  intros Hd. unfold dense_array. destruct d as [| |l]; try discriminate.
  destruct l as [|m l]; [intros [= <-]; constructor|].
  destruct (seq_members n_item (m :: l)) as [ps|] eqn:Es; [|discriminate].
  destruct (forallb _ _); [|discriminate]. intros [= <-].
  pose proof (seq_members_canon _ _ _ Es (set_members_canon _ Hd)) as H.
  apply Forall_forall. intros x Hx. apply in_map_iff in Hx as (q & <- & Hq). rewrite Forall_forall in H. apply (H q Hq).
Qed.

Lemma items_set_canon (mid : list val) idx :
  Forall Canon mid -> Canon (mkset (map (fun p : Z * val => vitem (fst p) (snd p)) (combine idx mid))).
Proof.
  intros H. apply mkset_canon, Forall_forall. intros z Hz. apply in_map_iff in Hz as ([i x] & <- & Hq).
  apply in_combine_r in Hq. rewrite Forall_forall in H. apply vitem_canon, H, Hq.
Qed.

Lemma Forall_firstn {A} (P : A -> Prop) n l : Forall P l -> Forall P (firstn n l).
Proof.
  intros H. revert n. induction H as [|x l Hx Hl IH]; intros n; destruct n; simpl; constructor; auto.
Qed.
Lemma Forall_skipn {A} (P : A -> Prop) n l : Forall P l -> Forall P (skipn n l).
Proof.
  intros H. revert n. induction H as [|x l Hx Hl IH]; intros n; destruct n; simpl; try constructor; auto.
Qed.
Lemma Forall_filter {A} (P : A -> Prop) f l : Forall P l -> Forall P (filter f l).
Proof. intros H. apply Forall_forall. intros x Hx. apply filter_In in Hx as [Hx _]. rewrite Forall_forall in H. apply H, Hx. Qed.

Opaque rP.
Section Step.
Variables (ev : env -> expr -> res value) (bd : env -> pat -> value -> res env).
Hypothesis Hev : forall rho e, EWF rho -> rP VWF (ev rho e).
Hypothesis Hbd : forall rho p v, EWF rho -> VWF v -> rP EWF (bd rho p v).

Lemma evd_wf rho e : EWF rho -> rP Canon (do v <- ev rho e; as_data v).
Proof. intros H. eapply rP_bind; [apply Hev, H|]. intros v Hv. apply as_data_wf, Hv. Qed.

Lemma apply_wf fv a :
  VWF fv -> VWF a ->
  rP VWF (match fv with
          | Clos cenv p body => do sc <- bd cenv p a; ev (sc ++ cenv) body
          | D (VSet c) =>
              do k <- as_data a;
              match call_data c k with
              | CROne v => Ok (D v)
              | CRNotKeyed => Unspec
              | _ => Err
              end
          | D _ => Err
          end).
Proof.
  intros Hf Ha. destruct fv as [d|cenv p body].
  - destruct d as [| |c]; try apply rP_err.
    assert (Hc : Canon (VSet c)) by (inversion Hf; assumption).
    eapply rP_bind; [apply as_data_wf, Ha|]. intros k Hk.
    destruct (call_data c k) eqn:E; try apply rP_err; try apply rP_unspec.
    apply rP_ok. constructor. eapply call_data_canon; [exact Hc | exact E].
  - assert (Hc : EWF cenv) by (inversion Hf; assumption).
    eapply rP_bind; [apply Hbd; assumption|]. intros sc Hsc. apply Hev, EWF_app; assumption.
Qed.

Ltac wf :=
  repeat first
    [ apply rP_ok | apply rP_err | apply rP_unspec | apply rP_oof
    | assumption
    | apply evd_wf; assumption
    | apply Hev; assumption
    | apply apply_wf; [assumption | try assumption; constructor; assumption]
    | apply as_data_wf; assumption
    | eapply rP_bind; [ first [ apply evd_wf; assumption | apply Hev; assumption | apply as_data_wf; assumption
                              | apply as_set_wf; assumption | apply bin_data_wf; assumption | apply un_data_wf; assumption
                              | apply join_data_wf; assumption | apply nest_data_wf; assumption | apply single_nest_data_wf; assumption
                              | apply apply_wf; [assumption | try assumption; constructor; assumption] ]
                      | intros ? ?; cbv beta in * ]
    | match goal with
      | |- rP _ (match ?x with _ => _ end) => destruct x eqn:?
      | |- rP _ (if ?x then _ else _) => destruct x eqn:?
      end ].

Ltac inv_vwf :=
  repeat match goal with
         | H : VWF (D _) |- _ => inversion H; clear H; subst
         | H : VWF (Clos _ _ _) |- _ => inversion H; clear H; subst
         end.

Ltac leaf :=
  inv_vwf;
  first
    [ assumption
    | apply VWF_D; first [ assumption | apply norm_canon | reflexivity | apply Canon_bool | apply Canon_int ]
    | apply VWF_C; assumption
    | eapply env_get_wf; eassumption
    | match goal with
      | H : call_data ?c ?k = CROne ?v |- VWF (D ?v) => apply VWF_D; eapply call_data_canon; [|exact H]; assumption
      | H : tget ?n ?l = Some ?v |- VWF (D ?v) => apply VWF_D; eapply tget_canon; [|exact H]; assumption
      end ].

Lemma clos_wf cenv p body a : EWF cenv -> VWF a -> rP VWF (do sc <- bd cenv p a; ev (sc ++ cenv) body).
Proof.
  intros Hc Ha. eapply rP_bind; [apply Hbd; assumption|]. intros sc Hsc. apply Hev, EWF_app; assumption.
Qed.

Lemma evalF_wf rho e : EWF rho -> rP VWF (evalF ev bd rho e).
Proof.
  intros Hrho. destruct e; unfold evalF; cbv zeta beta; wf; try solve [leaf].
  - (* set literal *)
    eapply rP_bind; [apply rP_mapM with (Q := Canon); intros x _; apply evd_wf, Hrho|].
    intros vs Hvs. apply rP_ok, VWF_D, mkset_canon, Hvs.
  - (* tuple literal *)
    eapply rP_bind; [apply rP_mapM with (Q := fun p : name * val => Canon (snd p)); intros x _|].
    + eapply rP_bind; [apply evd_wf, Hrho|]. intros v Hv. apply rP_ok. exact Hv.
    + intros vs Hvs. apply rP_ok, VWF_D, build_tuple_canon, Hvs.
  - (* array literal *)
    eapply rP_bind; [apply rP_mapM with (Q := fun o : option val => match o with Some v => Canon v | None => True end); intros x _|].
    + destruct x as [x|]; [|apply rP_ok; exact I]. eapply rP_bind; [apply evd_wf, Hrho|]. intros v Hv. apply rP_ok. exact Hv.
    + intros vs Hvs. apply rP_ok, VWF_D, mkset_canon, arr_items_canon, Hvs.
  - (* dict literal *)
    eapply rP_bind; [apply rP_mapM with (Q := fun p : val * val => Canon (fst p) /\ Canon (snd p)); intros x _|].
    + eapply rP_bind; [apply evd_wf, Hrho|]. intros k Hk. eapply rP_bind; [apply evd_wf, Hrho|]. intros v Hv.
      apply rP_ok. split; assumption.
    + intros es Hes. match goal with |- rP _ (if ?c then _ else _) => destruct c end; [apply rP_err|].
      apply rP_ok, VWF_D, mkset_canon, Forall_forall. intros m Hm. apply in_map_iff in Hm as (q & <- & Hq).
      rewrite Forall_forall in Hes. destruct (Hes q Hq). apply ventry_canon; assumption.
  - (* comparison *)
    eapply rP_bind; [apply rP_true|]. intros r _. apply rP_ok, VWF_D, Canon_bool.
  - (* where *)
    eapply rP_bind; [apply rP_true|]. intros keep _. apply rP_ok, VWF_D, mask_canon. assumption.
  - (* => *)
    match goal with H : VWF (Clos ?cenv _ _) |- _ => assert (Hc : EWF cenv) by (inversion H; assumption) end.
    eapply rP_bind; [apply rP_mapM with (Q := Canon); intros m Hm|].
    + eapply rP_bind; [apply clos_wf; [exact Hc | apply VWF_D; eapply Canon_members; eassumption]|].
      intros r Hr. apply as_data_wf, Hr.
    + intros ys Hys. apply rP_ok, VWF_D, mkset_canon, Hys.
  - (* >> *)
    match goal with H : Canon (VSet (?v :: ?l)) |- _ => set (L := v :: l) in * end.
    eapply rP_bind; [apply rP_mapM with (Q := fun t : val * name * val => Canon (fst (fst t)) /\ Canon (snd t)); intros m Hm|].
    + assert (Cm : Canon m) by (eapply Canon_members; eassumption).
      destruct (as_pair m) as [[[k n] v0]|] eqn:Ep.
      * destruct (as_pair_canon m k n v0 Cm Ep) as [Ck Cv].
        eapply rP_bind with (Q := Canon).
        -- destruct withAt.
           ++ eapply rP_bind; [apply apply_wf; [assumption | apply VWF_D, Ck]|]. intros g Hg.
              eapply rP_bind; [apply apply_wf; [exact Hg | apply VWF_D, Cv]|]. intros r Hr. apply as_data_wf, Hr.
           ++ eapply rP_bind; [apply apply_wf; [assumption | apply VWF_D, Cv]|]. intros r Hr. apply as_data_wf, Hr.
        -- intros v' Hv'. apply rP_ok. split; assumption.
      * destruct m as [|attrs|]; try apply rP_err. destruct (tget n_at attrs); [apply rP_unspec | apply rP_err].
    + intros ms Hms.
      assert (G : Canon (mkset (map (fun t : val * name * val => build_tuple [(n_at, fst (fst t)); (snd (fst t), snd t)]) ms))).
      { apply mkset_canon, Forall_forall. intros z Hz. apply in_map_iff in Hz as (t & <- & Ht).
        rewrite Forall_forall in Hms. destruct (Hms t Ht). apply build_tuple_canon. repeat constructor; assumption. }
      destruct (as_seq L) as [[n ?]|]; [|apply rP_ok, VWF_D, G].
      repeat match goal with |- rP _ (if ?c then _ else _) => destruct c end; try apply rP_err. apply rP_ok, VWF_D, G.
  - (* call of a closure *)
    match goal with H : VWF (Clos ?cenv _ _) |- _ => assert (Hc : EWF cenv) by (inversion H; assumption) end.
    apply clos_wf; assumption.
  - (* let *)
    apply clos_wf; assumption.
  - (* cond *)
    induction arms as [|[c v] arms IH]; [destruct dflt; [apply Hev, Hrho | apply rP_ok, VWF_D; reflexivity]|].
    eapply rP_bind; [apply evd_wf, Hrho|]. intros x Hx. destruct (is_true x); [apply Hev, Hrho | exact IH].
  - (* cond with patterns *)
    induction arms as [|[p body] arms IH]; [apply rP_ok, VWF_D; reflexivity|].
    destruct (bd rho p a) as [sc| | |] eqn:Eb; [|exact IH | apply rP_unspec | apply rP_oof].
    apply Hev, EWF_app; [|exact Hrho]. eapply rP_elim; [apply Hbd; [exact Hrho | eassumption] | exact Eb].
  - (* rank *)
    match goal with H : VWF (Clos ?cenv _ _) |- _ => assert (Hc : EWF cenv) by (inversion H; assumption) end.
    match goal with H : Canon (VSet (?v :: ?l)) |- _ => set (L := v :: l) in * end.
    eapply rP_bind; [apply rP_mapM with (Q := fun tk : list (name * val) * list (name * val) => Canon (VTup (fst tk))); intros m Hm|].
    + assert (Cm : Canon m) by (eapply Canon_members; eassumption).
      eapply rP_bind; [apply clos_wf; [exact Hc | apply VWF_D, Cm]|]. intros k Hk.
      eapply rP_bind; [apply as_data_wf, Hk|]. intros kd Hkd.
      destruct m as [|t|]; try apply rP_unspec. destruct kd as [|ks|]; try apply rP_unspec. apply rP_ok. exact Cm.
    + intros keyed Hkeyed.
      eapply rP_bind; [apply rP_mapM with (Q := Canon); intros tk Htk|].
      * eapply rP_bind; [apply rP_mapM with (Q := fun kv : name * val => Canon (snd kv)); intros kv _|].
        -- destruct (snd kv); try apply rP_unspec. eapply rP_bind; [apply rP_true|]. intros sm _. apply rP_ok, Canon_int.
        -- intros ranks Hranks. apply rP_ok, build_tuple_canon, Forall_app_snd; [|exact Hranks].
           rewrite Forall_forall in Hkeyed. apply tup_attrs_canon, (Hkeyed tk Htk).
      * intros rows Hrows. apply rP_ok, VWF_D, mkset_canon, Hrows.
Qed.

Lemma bind_item_wf rho acc it x :
  EWF rho -> EWF acc -> VWF x ->
  rP EWF (do sc <- bd rho it x; match env_matched_update acc sc with Some r => Ok r | None => Err end).
Proof.
  intros Hrho Hacc Hx. eapply rP_bind; [apply Hbd; assumption|]. intros sc Hsc.
  destruct (env_matched_update acc sc) as [r|] eqn:E; [|apply rP_err].
  apply rP_ok. eapply env_matched_update_wf; [exact Hacc | exact Hsc | exact E].
Qed.

Lemma bindF_wf rho p v : EWF rho -> VWF v -> rP EWF (bindF ev bd rho p v).
Proof.
  intros Hrho Hv. destruct p; unfold bindF; cbv zeta beta.
  - apply rP_ok. constructor; [exact Hv | constructor].
  - apply rP_ok. constructor.
  - eapply rP_bind; [apply Hev, Hrho|]. intros w Hw. eapply rP_bind; [apply as_data_wf, Hw|]. intros a Ha.
    eapply rP_bind; [apply as_data_wf, Hv|]. intros b Hb. destruct (veqb a b); [apply rP_ok; constructor | apply rP_err].
  - (* array pattern *)
    eapply rP_bind; [apply as_data_wf, Hv|]. intros d Hd.
    destruct (dense_array d) as [xs|] eqn:Ed; [|apply rP_err].
    pose proof (dense_array_canon d xs Hd Ed) as Hxs.
    match goal with |- rP _ (if ?c then _ else _) => destruct c end; [apply rP_err|].
    try (match goal with |- context [existsb ?f ?l] => generalize (existsb f l); intros hb end).
    match goal with |- rP _ (?F ?a ?b ?c) =>
      assert (HH : forall b' c', Forall Canon b' -> EWF c' -> rP EWF (F a b' c')); [| apply HH; [exact Hxs | constructor]] end.
    induction items as [|it items IH]; intros ys acc Hys Hacc.
    + destruct ys; [apply rP_ok, Hacc | destruct hb; [apply rP_unspec | apply rP_err]].
    + destruct it as [q fb|o].
      * destruct ys as [|y ys].
        -- destruct fb as [dflt|]; [|apply rP_err].
           eapply rP_bind; [apply Hev, Hrho|]. intros w Hw.
           eapply rP_bind; [apply bind_item_wf; assumption|]. intros acc' Hacc'. apply IH; [constructor | exact Hacc'].
        -- inversion Hys; subst.
           eapply rP_bind; [apply bind_item_wf; [exact Hrho | exact Hacc | apply VWF_D; assumption]|].
           intros acc' Hacc'. apply IH; assumption.
      * match goal with |- rP _ (if ?c then _ else _) => destruct c end; [apply rP_err|].
        eapply rP_bind with (Q := EWF).
        -- destruct o as [x|]; [|apply rP_ok, Hacc].
           apply bind_item_wf; [exact Hrho | exact Hacc |]. apply VWF_D, items_set_canon, Forall_firstn, Hys.
        -- intros acc' Hacc'. apply IH; [apply Forall_skipn, Hys | exact Hacc'].
  - (* tuple pattern *)
    eapply rP_bind; [apply as_data_wf, Hv|]. intros d Hd.
    destruct d as [|tv|]; try apply rP_err.
    match goal with |- rP _ (if ?c then _ else _) => destruct c end; [apply rP_err|].
    try (match goal with |- context [existsb ?f ?l] => generalize (existsb f l); intros hb end).
    match goal with |- rP _ (?F ?a ?b ?c ?d) =>
      assert (HH : forall b' c' d', Canon (VTup b') -> EWF d' -> rP EWF (F a b' c' d')); [| apply HH; [exact Hd | constructor]] end.
    induction attrs as [|[n it] attrs IH]; intros remaining extra acc Hrem Hacc.
    + destruct extra as [[x|]|].
      * apply bind_item_wf; [exact Hrho | exact Hacc | apply VWF_D, Hrem].
      * apply rP_ok, Hacc.
      * destruct remaining; [apply rP_ok, Hacc | destruct hb; [apply rP_unspec | apply rP_err]].
    + destruct it as [q fb|o]; [|apply IH; assumption].
      destruct (tget n tv) as [x|] eqn:Eg.
      * eapply rP_bind; [apply bind_item_wf; [exact Hrho | exact Hacc | apply VWF_D; eapply tget_canon; [exact Hd | exact Eg]]|].
        intros acc' Hacc'. apply IH; [apply filter_tup_canon, Hrem | exact Hacc'].
      * destruct fb as [dflt|]; [|apply rP_err].
        eapply rP_bind; [apply Hev, Hrho|]. intros w Hw.
        eapply rP_bind; [apply bind_item_wf; assumption|]. intros acc' Hacc'. apply IH; assumption.
  - (* dict pattern *)
    eapply rP_bind; [apply as_data_wf, Hv|]. intros d Hd.
    destruct d as [| |l]; try apply rP_err.
    destruct (dict_entries l) as [es|] eqn:Ee; [|apply rP_err].
    pose proof (dict_entries_canon l es Ee (set_members_canon _ Hd)) as Hes.
    match goal with |- rP _ (if ?c then _ else _) => destruct c end; [apply rP_err|].
    try (match goal with |- context [existsb ?f ?l] => generalize (existsb f l); intros hb end).
    match goal with |- rP _ (?F ?a ?b ?c ?d) =>
      assert (HH : forall b' c' d', Forall (fun p : val * val => Canon (fst p) /\ Canon (snd p)) b' -> EWF d' -> rP EWF (F a b' c' d'));
        [| apply HH; [exact Hes | constructor]] end.
    induction entries as [|[ke it] entries IH]; intros remaining extra acc Hrem Hacc.
    + destruct extra as [[x|]|].
      * apply bind_item_wf; [exact Hrho | exact Hacc |]. apply VWF_D, mkset_canon, Forall_forall.
        intros m Hm. apply in_map_iff in Hm as (q & <- & Hq). rewrite Forall_forall in Hrem. destruct (Hrem q Hq). apply ventry_canon; assumption.
      * apply rP_ok, Hacc.
      * destruct remaining; [apply rP_ok, Hacc | destruct hb; [apply rP_unspec | apply rP_err]].
    + destruct it as [q fb|o]; [|apply IH; assumption].
      eapply rP_bind; [apply Hev, Hrho|]. intros kw Hkw. eapply rP_bind; [apply as_data_wf, Hkw|]. intros k Hk.
      destruct (filter (fun p : val * val => veqb k (fst p)) remaining) as [|[k1 x] [|? ?]] eqn:Ef.
      * destruct fb as [dflt|]; [|apply rP_err].
        eapply rP_bind; [apply Hev, Hrho|]. intros w Hw.
        eapply rP_bind; [apply bind_item_wf; assumption|]. intros acc' Hacc'. apply IH; assumption.
      * assert (Hx : Canon x).
        { assert (Hin : In (k1, x) (filter (fun p : val * val => veqb k (fst p)) remaining)) by (rewrite Ef; left; reflexivity).
          apply filter_In in Hin as [Hin _]. rewrite Forall_forall in Hrem. apply (Hrem _ Hin). }
        eapply rP_bind; [apply bind_item_wf; [exact Hrho | exact Hacc | apply VWF_D, Hx]|].
        intros acc' Hacc'. apply IH; [apply Forall_filter, Hrem | exact Hacc'].
      * apply rP_unspec.
  - (* set pattern *)
    eapply rP_bind; [apply as_data_wf, Hv|]. intros d Hd.
    destruct d as [| |l]; try apply rP_err.
    match goal with |- rP _ (?F ?a ?b ?c) =>
      assert (HH : forall b' c', Canon (VSet b') -> rP EWF (F a b' c')); [| apply HH; exact Hd] end.
    induction items as [|it items IH]; intros remaining binder Hrem.
    + destruct binder as [[q fb|[x|]]|].
      * destruct remaining as [|x [|? ?]]; try apply rP_err.
        apply Hbd; [exact Hrho | apply VWF_D; eapply Canon_members; [exact Hrem | left; reflexivity]].
      * apply rP_ok. constructor; [apply VWF_D, Hrem | constructor].
      * apply rP_ok. constructor.
      * destruct remaining; [apply rP_ok; constructor | apply rP_err].
    + destruct it as [q fb|o].
      * destruct q; try (destruct binder; [apply rP_err | apply IH, Hrem]).
        eapply rP_bind; [apply Hev, Hrho|]. intros w Hw. eapply rP_bind; [apply as_data_wf, Hw|]. intros a Ha.
        destruct (vmem a remaining); [apply IH, filter_canon, Hrem | apply rP_err].
      * destruct binder; [apply rP_err | apply IH, Hrem].
  - (* (e1, e2, ..) *)
    eapply rP_bind; [apply as_data_wf, Hv|]. intros b Hb.
    induction es as [|e es IH]; [apply rP_err|].
    eapply rP_bind; [apply Hev, Hrho|]. intros w Hw. eapply rP_bind; [apply as_data_wf, Hw|]. intros a Ha.
    destruct (veqb a b); [apply rP_ok; constructor | exact IH].
Qed.
End Step.
Transparent rP.

(* ---------- every answer of the evaluator is canonical ---------- *)

Theorem eval_wf n :
  (forall rho e, EWF rho -> rP VWF (eval n rho e)) /\
  (forall rho p v, EWF rho -> VWF v -> rP EWF (bind_pat n rho p v)).
Proof.
  induction n as [|n [IHe IHb]]; [split; intros; apply rP_oof|].
  split.
  - intros rho e Hrho. change (rP VWF (evalF (eval n) (bind_pat n) rho e)). apply evalF_wf; assumption.
  - intros rho p v Hrho Hv. change (rP EWF (bindF (eval n) (bind_pat n) rho p v)). apply bindF_wf; assumption.
Qed.

Theorem eval_canonical n rho e v : EWF rho -> eval n rho e = Ok (D v) -> Canon v.
Proof.
  intros Hrho E. destruct (eval_wf n) as [H _]. specialize (H rho e Hrho (D v) E). inversion H; assumption.
Qed.

Theorem run_data_canonical n e v : run_data n e = Ok v -> Canon v.
Proof.
  unfold run_data, run. destruct (eval n [] e) as [w| | |] eqn:E; simpl; try discriminate.
  destruct w as [d|]; simpl; [|discriminate]. intros [= <-].
  eapply eval_canonical; [|exact E]. constructor.
Qed.

(* so two results with the same members are the same value, however each was computed *)
Theorem results_extensional n m e1 e2 a b :
  run_data n e1 = Ok (VSet a) -> run_data m e2 = Ok (VSet b) ->
  (forall x, In x a <-> In x b) -> VSet a = VSet b /\ veqb (VSet a) (VSet b) = true.
Proof.
  intros H1 H2 Hin. apply run_data_canonical, Canon_set in H1 as [Sa _]. apply run_data_canonical, Canon_set in H2 as [Sb _].
  assert (E : a = b) by (apply ssorted_ext; assumption). subst. split; [reflexivity | apply veqb_eq; reflexivity].
Qed.
