(* Proofs about Sys/Json.v (property C13, JSON/YAML translators). *)
From Coq Require Import Lia.
From Arrai Require Import Base.Val Sys.Outcome Sys.Json.

(* ---------- induction principles through the nested lists ---------- *)
Section JsonInd.
  Variable P : json -> Prop.
  Hypothesis Hnull : P JNull.
  Hypothesis Hbool : forall b, P (JBool b).
  Hypothesis Hnum : forall n, P (JNum n).
  Hypothesis Hstr : forall s, P (JStr s).
  Hypothesis Harr : forall l, Forall P l -> P (JArr l).
  Hypothesis Hobj : forall m, Forall (fun kv => P (snd kv)) m -> P (JObj m).
  Fixpoint json_ind' (j : json) : P j :=
    match j with
    | JNull => Hnull
    | JBool b => Hbool b
    | JNum n => Hnum n
    | JStr s => Hstr s
    | JArr l => Harr l ((fix go (l : list json) : Forall P l :=
                           match l with [] => Forall_nil _ | x :: l' => Forall_cons _ (json_ind' x) (go l') end) l)
    | JObj m => Hobj m ((fix go (m : list (str * json)) : Forall (fun kv => P (snd kv)) m :=
                           match m with [] => Forall_nil _ | kv :: m' => Forall_cons _ (json_ind' (snd kv)) (go m') end) m)
    end.
End JsonInd.

Definition optP (P : rv -> Prop) (o : option rv) : Prop := match o with Some x => P x | None => True end.

Section RvInd.
  Variable P : rv -> Prop.
  Hypothesis Hnum : forall n, P (RNum n).
  Hypothesis Htup : forall attrs, Forall (fun kv => P (snd kv)) attrs -> P (RTup attrs).
  Hypothesis Hempty : P REmpty.
  Hypothesis Htrue : P RTrue.
  Hypothesis Hstr : forall off s, P (RStr off s).
  Hypothesis Hbytes : forall off b, P (RBytes off b).
  Hypothesis Harr : forall off items, Forall (optP P) items -> P (RArr off items).
  Hypothesis Hdict : forall multi es, Forall (fun kv => P (fst kv) /\ P (snd kv)) es -> P (RDict multi es).
  Hypothesis Hset : forall g elems, Forall P elems -> P (RSet g elems).
  Hypothesis Hfn : P RFn.
  Fixpoint rv_ind' (r : rv) : P r :=
    match r with
    | RNum n => Hnum n
    | RTup attrs => Htup attrs ((fix go (l : list (str * rv)) : Forall (fun kv => P (snd kv)) l :=
                      match l with [] => Forall_nil _ | kv :: l' => Forall_cons _ (rv_ind' (snd kv)) (go l') end) attrs)
    | REmpty => Hempty
    | RTrue => Htrue
    | RStr off s => Hstr off s
    | RBytes off b => Hbytes off b
    | RArr off items => Harr off items ((fix go (l : list (option rv)) : Forall (optP P) l :=
                      match l with
                      | [] => Forall_nil _
                      | o :: l' => Forall_cons _ (match o return optP P o with Some x => rv_ind' x | None => I end) (go l')
                      end) items)
    | RDict multi es => Hdict multi es ((fix go (l : list (rv * rv)) : Forall (fun kv => P (fst kv) /\ P (snd kv)) l :=
                      match l with [] => Forall_nil _ | kv :: l' => Forall_cons _ (conj (rv_ind' (fst kv)) (rv_ind' (snd kv))) (go l') end) es)
    | RSet g elems => Hset g elems ((fix go (l : list rv) : Forall P l :=
                      match l with [] => Forall_nil _ | x :: l' => Forall_cons _ (rv_ind' x) (go l') end) elems)
    | RFn => Hfn
    end.
End RvInd.

(* ---------- the inner loops of from_arrai, named ---------- *)
Definition arr_items (q : jquirks) (strict : bool) : list (option rv) -> res (list json) :=
  fix go (l : list (option rv)) : res (list json) :=
    match l with
    | [] => Ok []
    | None :: l' => if q_json_offsets_holes_dropped q then go l' else Err
    | Some y :: l' =>
        bind (from_arrai q strict y) (fun jy => bind (go l') (fun js => Ok (jy :: js)))
    end.

Definition set_items (q : jquirks) (strict : bool) : list rv -> res (list json) :=
  fix go (l : list rv) : res (list json) :=
    match l with
    | [] => Ok []
    | y :: l' => bind (from_arrai q strict y) (fun jy => bind (go l') (fun js => Ok (jy :: js)))
    end.

Definition dict_key (q : jquirks) (strict : bool) (k : rv) : res str :=
  if q_json_key_unchecked q
  then match from_arrai q strict k with
       | Ok (JStr s) => Ok s
       | Ok _ => Panic
       | Err => Err | Panic => Panic | OutOfModel => OutOfModel
       end
  else match k with
       | RStr off s => go_string q off s
       | REmpty => Ok []
       | _ => Err
       end.

Definition dict_entries (q : jquirks) (strict : bool) : list (rv * rv) -> res (list (str * json)) :=
  fix go (l : list (rv * rv)) : res (list (str * json)) :=
    match l with
    | [] => Ok []
    | (k, v) :: l' =>
        bind (dict_key q strict k) (fun ks =>
        bind (from_arrai q strict v) (fun jv =>
        bind (go l') (fun m => Ok (jput ks jv m))))
    end.

Definition tuple_entries (q : jquirks) (strict : bool) : list (str * rv) -> res (list (str * json)) :=
  fix go (l : list (str * rv)) : res (list (str * json)) :=
    match l with
    | [] => Ok []
    | (k, v) :: l' =>
        bind (from_arrai q strict v) (fun jv => bind (go l') (fun m => Ok (jput k jv m)))
    end.

Lemma from_arrai_arr q t off items :
  from_arrai q t (RArr off items) =
  if q_json_offsets_holes_dropped q || (off =? 0) then rmap JArr (arr_items q t items) else Err.
Proof. reflexivity. Qed.

Lemma from_arrai_dict q t es :
  from_arrai q t (RDict false es) = rmap JObj (dict_entries q t es).
Proof. reflexivity. Qed.

Lemma from_arrai_tagged_arr q off items :
  from_arrai q true (RTup [(n_a, RArr off items)]) =
  if q_json_offsets_holes_dropped q || (off =? 0) then rmap JArr (arr_items q true items) else Err.
Proof. reflexivity. Qed.

Lemma from_arrai_set_nonstrict q g elems :
  from_arrai q false (RSet g elems) = rmap JArr (set_items q false elems).
Proof. reflexivity. Qed.

Lemma from_arrai_tuple_nonstrict q a attrs :
  special_tuple (a :: attrs) = false ->
  from_arrai q false (RTup (a :: attrs)) = rmap JObj (tuple_entries q false (a :: attrs)).
Proof. intros H. cbn [from_arrai]. rewrite H. destruct a. reflexivity. Qed.

(* ---------- small facts ---------- *)
Lemma name_eqb_eq a : forall b, name_eqb a b = true -> a = b.
Proof.
  induction a as [|x a IH]; intros [|y b] H; cbn in H; try discriminate; [reflexivity|].
  apply andb_prop in H. destruct H as [H1 H2]. apply Z.eqb_eq in H1. subst. f_equal. apply IH, H2.
Qed.

Lemma go_string_ok q s : str_ok s = true -> go_string q 0 s = Ok s.
Proof.
  unfold str_ok, go_string, has_hole. intros H. apply negb_true_iff in H.
  destruct (q_json_offsets_holes_dropped q).
  - f_equal. induction s as [|c s IH]; [reflexivity|]. cbn in H |- *.
    apply orb_false_elim in H. destruct H as [H1 H2]. rewrite H1, IH by exact H2. reflexivity.
  - cbn. unfold has_hole. rewrite H. reflexivity.
Qed.

Lemma jput_sorted_cons k v (m : list (str * json)) :
  keys_sorted ((k, v) :: m) = true -> jput k v m = (k, v) :: m.
Proof.
  destruct m as [|[k' v'] m']; [reflexivity|]. cbn. destruct (name_cmp k k'); try discriminate. reflexivity.
Qed.

Lemma keys_sorted_tail {A} (kv : str * A) m : keys_sorted (kv :: m) = true -> keys_sorted m = true.
Proof.
  destruct kv as [k v]. destruct m as [|[k' v'] m']; [reflexivity|]. cbn.
  destruct (name_cmp k k'); try discriminate. exact (fun H => H).
Qed.

(* ---------- T1: strict decode-then-encode is the identity on documents ---------- *)
Definition rt_ok (q : jquirks) (j : json) : Prop :=
  jwf j = true -> q_json_key_unchecked q = false \/ no_empty_key j = true ->
  from_arrai q true (to_arrai true j) = Ok j.

Lemma arr_items_roundtrip q l :
  Forall (rt_ok q) l -> forallb jwf l = true ->
  q_json_key_unchecked q = false \/ forallb no_empty_key l = true ->
  arr_items q true (map Some (map (to_arrai true) l)) = Ok l.
Proof.
  induction 1 as [|y l Hy Hl IHl]; intros W G; [reflexivity|].
  cbn [forallb] in W. apply andb_prop in W. destruct W as [W1 W2].
  assert (G1 : q_json_key_unchecked q = false \/ no_empty_key y = true).
  { destruct G as [G|G]; [left; exact G|right]. cbn [forallb] in G. apply andb_prop in G. apply G. }
  assert (G2 : q_json_key_unchecked q = false \/ forallb no_empty_key l = true).
  { destruct G as [G|G]; [left; exact G|right]. cbn [forallb] in G. apply andb_prop in G. apply G. }
  cbn [map arr_items]. rewrite (Hy W1 G1). cbn [bind]. fold (arr_items q true).
  rewrite (IHl W2 G2). reflexivity.
Qed.

Lemma dict_key_roundtrip q k :
  str_ok k = true -> q_json_key_unchecked q = false \/ k <> [] -> dict_key q true (rstr k) = Ok k.
Proof.
  intros Wk G. unfold dict_key. destruct (q_json_key_unchecked q) eqn:Q.
  - destruct G as [G|G]; [discriminate|].
    destruct k as [|c k]; [congruence|]. cbn [rstr from_arrai]. rewrite go_string_ok by exact Wk. reflexivity.
  - destruct k as [|c k]; [reflexivity|]. cbn [rstr]. apply go_string_ok. exact Wk.
Qed.

Definition key_guard (kv : str * json) : bool :=
  match fst kv with [] => false | _ => no_empty_key (snd kv) end.

Lemma dict_entries_roundtrip q m :
  Forall (fun kv => rt_ok q (snd kv)) m -> keys_sorted m = true ->
  forallb (fun kv => str_ok (fst kv) && jwf (snd kv)) m = true ->
  q_json_key_unchecked q = false \/ forallb key_guard m = true ->
  dict_entries q true (map (fun kv => (rstr (fst kv), to_arrai true (snd kv))) m) = Ok m.
Proof.
  induction 1 as [|[k v] m Hv Hm IHm]; intros WS W G; [reflexivity|].
  cbn [snd] in Hv. cbn [forallb fst snd] in W. apply andb_prop in W. destruct W as [W1 W2].
  apply andb_prop in W1. destruct W1 as [Wk Wv].
  assert (G1 : q_json_key_unchecked q = false \/ (k <> [] /\ no_empty_key v = true)).
  { destruct G as [G|G]; [left; exact G|right]. cbn [forallb] in G. apply andb_prop in G. destruct G as [G _].
    unfold key_guard in G. cbn [fst snd] in G. destruct k; [discriminate|]. split; [congruence|exact G]. }
  assert (G2 : q_json_key_unchecked q = false \/ forallb key_guard m = true).
  { destruct G as [G|G]; [left; exact G|right]. cbn [forallb] in G. apply andb_prop in G. apply G. }
  cbn [map dict_entries fst snd].
  rewrite dict_key_roundtrip; [|exact Wk|destruct G1 as [G1|[G1 _]]; [left|right]; exact G1].
  cbn [bind]. rewrite Hv; [|exact Wv|destruct G1 as [G1|[_ G1]]; [left|right]; exact G1].
  cbn [bind]. fold (dict_entries q true). rewrite (IHm (keys_sorted_tail _ _ WS) W2 G2).
  cbn [bind]. rewrite jput_sorted_cons by exact WS. reflexivity.
Qed.

Theorem strict_roundtrip q j : rt_ok q j.
Proof.
  induction j as [| b | n | s | l IH | m IH] using json_ind'; intros W G.
  - reflexivity.
  - destruct b; reflexivity.
  - reflexivity.
  - cbn [jwf] in W. destruct s as [|c s]; [reflexivity|].
    change (to_arrai true (JStr (c :: s))) with (RTup [(n_s, RStr 0 (c :: s))]).
    cbn [from_arrai special_tuple negb]. change (name_eqb n_s n_a) with false. change (name_eqb n_s n_s) with true.
    cbv iota. rewrite go_string_ok by exact W. reflexivity.
  - destruct l as [|x l]; [reflexivity|].
    change (to_arrai true (JArr (x :: l))) with (RTup [(n_a, RArr 0 (map Some (map (to_arrai true) (x :: l))))]).
    rewrite from_arrai_tagged_arr. rewrite Z.eqb_refl, orb_true_r.
    rewrite (arr_items_roundtrip q (x :: l) IH W G). reflexivity.
  - destruct m as [|kv m]; [reflexivity|].
    change (to_arrai true (JObj (kv :: m))) with
      (RDict false (map (fun kv => (rstr (fst kv), to_arrai true (snd kv))) (kv :: m))).
    rewrite from_arrai_dict. cbn [jwf] in W. apply andb_prop in W. destruct W as [WS W].
    rewrite (dict_entries_roundtrip q (kv :: m) IH WS W G). reflexivity.
Qed.

Corollary strict_roundtrip_repaired j : jwf j = true -> from_arrai jquirks_off true (to_arrai true j) = Ok j.
Proof. intros W. apply strict_roundtrip; [exact W|left; reflexivity]. Qed.

(* decode (encode (decode d)) = decode d *)
Corollary strict_decode_encode_decode q j :
  jwf j = true -> q_json_key_unchecked q = false \/ no_empty_key j = true ->
  rmap (to_arrai true) (from_arrai q true (to_arrai true j)) = Ok (to_arrai true j).
Proof. intros W G. rewrite strict_roundtrip by assumption. reflexivity. Qed.

(* ---------- T2: the repaired strict encoder never changes a value silently ---------- *)
Definition nsc (r : rv) : Prop :=
  forall j, rv_canon r = true -> from_arrai jquirks_off true r = Ok j -> to_arrai true j = tag r.

Lemma bind_ok {A B} (r : res A) (f : A -> res B) b :
  bind r f = Ok b -> exists a, r = Ok a /\ f a = Ok b.
Proof. destruct r; cbn; try discriminate. intros H. eexists; split; [reflexivity|exact H]. Qed.

Lemma rmap_ok {A B} (f : A -> B) (r : res A) b : rmap f r = Ok b -> exists a, r = Ok a /\ b = f a.
Proof. destruct r; cbn; try discriminate. intros H. injection H as <-. eexists; split; reflexivity. Qed.

Lemma go_string_off_ok off s t : go_string jquirks_off off s = Ok t -> off = 0 /\ t = s.
Proof.
  unfold go_string. cbn [q_json_offsets_holes_dropped jquirks_off].
  destruct (off =? 0) eqn:E; cbn [andb]; [|discriminate].
  destruct (negb (has_hole s)); [|discriminate]. intros H. injection H as <-. apply Z.eqb_eq in E. split; [exact E|reflexivity].
Qed.

Lemma arr_items_nsc items : forall js,
  Forall (optP nsc) items ->
  forallb (fun o => match o with Some x => rv_canon x | None => true end) items = true ->
  arr_items jquirks_off true items = Ok js ->
  map Some (map (to_arrai true) js) = tag_items tag items.
Proof.
  induction items as [|o items IH]; intros js F C H.
  - cbn in H. injection H as <-. reflexivity.
  - inversion F as [|? ? Ho Fl]; subst. cbn [forallb] in C. apply andb_prop in C. destruct C as [C1 C2].
    destruct o as [y|]; cbn [arr_items] in H; [|discriminate].
    apply bind_ok in H. destruct H as [jy [Hy H]]. fold (arr_items jquirks_off true) in H.
    apply bind_ok in H. destruct H as [js' [Hjs H]]. injection H as <-.
    cbn [map tag_items]. rewrite (Ho jy C1 Hy). f_equal. apply IH; assumption.
Qed.

Fixpoint ks_keys (ks : list str) : bool :=
  match ks with
  | [] => true
  | k :: ks' => match ks' with [] => true | k' :: _ => match name_cmp k k' with Lt => ks_keys ks' | _ => false end end
  end.

Lemma keys_sorted_keys {A} (m : list (str * A)) : keys_sorted m = ks_keys (map fst m).
Proof.
  induction m as [|[k v] m IH]; [reflexivity|]. cbn [map fst keys_sorted ks_keys].
  destruct m as [|[k' v'] m']; [reflexivity|]. cbn [map fst]. destruct (name_cmp k k'); try reflexivity. exact IH.
Qed.

Lemma dict_entries_nsc es : forall m,
  Forall (fun kv => nsc (fst kv) /\ nsc (snd kv)) es ->
  keys_sorted (map (fun kv => (key_str (fst kv), snd kv)) es) = true ->
  forallb (fun kv => rv_canon (fst kv) && rv_canon (snd kv)) es = true ->
  dict_entries jquirks_off true es = Ok m ->
  map fst m = map (fun kv => key_str (fst kv)) es /\
  map (fun kv => (rstr (fst kv), to_arrai true (snd kv))) m = map (fun kv => (fst kv, tag (snd kv))) es.
Proof.
  induction es as [|[k v] es IH]; intros m F S C H.
  - cbn in H. injection H as <-. split; reflexivity.
  - inversion F as [|? ? [_ Hv] Fl]; subst. cbn [fst snd] in Hv.
    cbn [forallb fst snd] in C. apply andb_prop in C. destruct C as [C1 C2]. apply andb_prop in C1. destruct C1 as [Ck Cv].
    cbn [dict_entries] in H. apply bind_ok in H. destruct H as [ks [Hk H]].
    apply bind_ok in H. destruct H as [jv [Hjv H]]. fold (dict_entries jquirks_off true) in H.
    apply bind_ok in H. destruct H as [m' [Hm' H]]. injection H as <-.
    assert (S' : keys_sorted (map (fun kv => (key_str (fst kv), snd kv)) es) = true)
      by exact (keys_sorted_tail _ _ S).
    destruct (IH m' Fl S' C2 Hm') as [I1 I2].
    assert (K : key_str k = ks /\ rstr ks = k).
    { unfold dict_key in Hk. cbn [q_json_key_unchecked jquirks_off] in Hk.
      destruct k; try discriminate.
      - injection Hk as <-. split; reflexivity.
      - apply go_string_off_ok in Hk. destruct Hk as [-> ->]. cbn [key_str]. split; [reflexivity|].
        cbn [rv_canon] in Ck. destruct s; [discriminate|reflexivity]. }
    destruct K as [K1 K2].
    assert (J : jput ks jv m' = (ks, jv) :: m').
    { apply jput_sorted_cons. rewrite keys_sorted_keys. cbn [map fst]. rewrite I1.
      rewrite keys_sorted_keys in S. cbn [map fst] in S. rewrite map_map in S. cbn [fst] in S. rewrite K1 in S. exact S. }
    rewrite J. cbn [map fst snd]. rewrite I1, I2, K1, K2, (Hv jv Cv Hjv). split; reflexivity.
Qed.

Theorem strict_no_silent_change r : nsc r.
Proof.
  induction r as [n|attrs IH| | |off s|off b|off items IH|multi es IH|g elems IH|] using rv_ind'; intros j C H.
  - cbn in H. injection H as <-. reflexivity.
  - cbn [from_arrai] in H. destruct (special_tuple attrs) eqn:SP; [discriminate|].
    destruct attrs as [|[n x] rest]; [injection H as <-; reflexivity|].
    cbn [negb] in H. cbv iota in H. destruct rest as [|? ?]; [|discriminate].
    inversion IH as [|? ? Hx _]; subst. cbn [snd] in Hx.
    cbn [rv_canon forallb snd] in C. rewrite andb_true_r in C.
    destruct (name_eqb n n_a) eqn:Na.
    { apply name_eqb_eq in Na. subst n. destruct x; try discriminate.
      - injection H as <-. reflexivity.
      - (* (a: array): same items loop as the bare array *)
        change (tag (RTup [(n_a, RArr off items)])) with (tag (RArr off items)).
        apply Hx; [exact C|]. rewrite from_arrai_arr. exact H. }
    destruct (name_eqb n n_s) eqn:Ns.
    { apply name_eqb_eq in Ns. subst n. destruct x; try discriminate.
      - injection H as <-. reflexivity.
      - apply rmap_ok in H. destruct H as [t [Ht ->]]. apply go_string_off_ok in Ht. destruct Ht as [-> ->].
        cbn [rv_canon] in C. destruct s; [discriminate|reflexivity]. }
    destruct (name_eqb n n_b) eqn:Nb; [|discriminate].
    apply name_eqb_eq in Nb. subst n.
    destruct x; try discriminate; try (injection H as <-; reflexivity).
    destruct generic; discriminate.
  - cbn in H. injection H as <-. reflexivity.
  - discriminate.
  - cbn [from_arrai] in H. apply rmap_ok in H. destruct H as [t [Ht ->]].
    apply go_string_off_ok in Ht. destruct Ht as [-> ->].
    cbn [rv_canon] in C. destruct s; [discriminate|reflexivity].
  - discriminate.
  - rewrite from_arrai_arr in H. cbn [q_json_offsets_holes_dropped jquirks_off orb] in H.
    destruct (off =? 0) eqn:E; [|discriminate]. apply Z.eqb_eq in E. subst off.
    apply rmap_ok in H. destruct H as [js [Hjs ->]].
    cbn [rv_canon] in C. apply andb_prop in C. destruct C as [C0 C1].
    pose proof (arr_items_nsc items js IH C1 Hjs) as M.
    cbn [to_arrai tagged tag]. rewrite <- M.
    destruct js as [|j0 js]; [|reflexivity].
    cbn in M. destruct items; [discriminate|discriminate].
  - destruct multi; [discriminate|]. rewrite from_arrai_dict in H.
    apply rmap_ok in H. destruct H as [m [Hm ->]].
    cbn [rv_canon] in C. apply andb_prop in C. destruct C as [C0 C2]. apply andb_prop in C0. destruct C0 as [C0 C1].
    destruct (dict_entries_nsc es m IH C1 C2 Hm) as [_ M].
    cbn [to_arrai tag]. rewrite <- M.
    destruct m as [|kv m]; [|reflexivity].
    cbn in M. destruct es; [discriminate|discriminate].
  - discriminate.
  - discriminate.
Qed.

(* every value outside the image of the decoder (modulo tagging) is an error *)
Corollary strict_unrepresentable_rejected r :
  rv_canon r = true ->
  (forall j, to_arrai true j <> tag r) -> is_ok (from_arrai jquirks_off true r) = false.
Proof.
  intros C N. destruct (from_arrai jquirks_off true r) as [j| | |] eqn:E; try reflexivity.
  exfalso. apply (N j). exact (strict_no_silent_change r j C E).
Qed.

(* tagging is invisible on decoded documents *)
Lemma tag_to_arrai j : tag (to_arrai true j) = to_arrai true j.
Proof.
  induction j as [| b | n | s | l IH | m IH] using json_ind'.
  - reflexivity.
  - destruct b; reflexivity.
  - reflexivity.
  - destruct s; reflexivity.
  - destruct l as [|x l]; [reflexivity|].
    change (to_arrai true (JArr (x :: l))) with (RTup [(n_a, RArr 0 (map Some (map (to_arrai true) (x :: l))))]).
    cbn [tag]. change (name_eqb n_a n_a) with true. cbv iota. do 4 f_equal.
    unfold tag_items. rewrite map_map. apply map_ext_Forall. rewrite Forall_map.
    eapply Forall_impl; [|exact IH]. cbn. intros a Ha. rewrite Ha. reflexivity.
  - destruct m as [|kv m]; [reflexivity|].
    change (to_arrai true (JObj (kv :: m))) with
      (RDict false (map (fun kv => (rstr (fst kv), to_arrai true (snd kv))) (kv :: m))).
    cbn [tag]. f_equal. rewrite map_map. apply map_ext_Forall.
    eapply Forall_impl; [|exact IH]. cbn. intros a Ha. rewrite Ha. reflexivity.
Qed.

(* ---------- the non-strict (documented lossy) mode ---------- *)
Definition ns_ok (q : jquirks) (j : json) : Prop :=
  jwf j = true -> q_json_key_unchecked q = false \/ no_empty_key j = true ->
  from_arrai q false (to_arrai false j) = Ok (collapse j).

Lemma arr_items_ns q l :
  Forall (ns_ok q) l -> forallb jwf l = true ->
  q_json_key_unchecked q = false \/ forallb no_empty_key l = true ->
  arr_items q false (map Some (map (to_arrai false) l)) = Ok (map collapse l).
Proof.
  induction 1 as [|y l Hy Hl IHl]; intros W G; [reflexivity|].
  cbn [forallb] in W. apply andb_prop in W. destruct W as [W1 W2].
  assert (G1 : q_json_key_unchecked q = false \/ no_empty_key y = true).
  { destruct G as [G|G]; [left; exact G|right]. cbn [forallb] in G. apply andb_prop in G. apply G. }
  assert (G2 : q_json_key_unchecked q = false \/ forallb no_empty_key l = true).
  { destruct G as [G|G]; [left; exact G|right]. cbn [forallb] in G. apply andb_prop in G. apply G. }
  cbn [map arr_items]. rewrite (Hy W1 G1). cbn [bind]. fold (arr_items q false).
  rewrite (IHl W2 G2). reflexivity.
Qed.

Lemma dict_key_ns q k :
  str_ok k = true -> q_json_key_unchecked q = false \/ k <> [] -> dict_key q false (rstr k) = Ok k.
Proof.
  intros Wk G. unfold dict_key. destruct (q_json_key_unchecked q) eqn:Q.
  - destruct G as [G|G]; [discriminate|].
    destruct k as [|c k]; [congruence|]. cbn [rstr from_arrai]. rewrite go_string_ok by exact Wk. reflexivity.
  - destruct k as [|c k]; [reflexivity|]. cbn [rstr]. apply go_string_ok. exact Wk.
Qed.

Lemma keys_sorted_map_snd {A B} (f : A -> B) (m : list (str * A)) :
  keys_sorted (map (fun kv => (fst kv, f (snd kv))) m) = keys_sorted m.
Proof. rewrite !keys_sorted_keys, map_map. reflexivity. Qed.

Lemma dict_entries_ns q m :
  Forall (fun kv => ns_ok q (snd kv)) m -> keys_sorted m = true ->
  forallb (fun kv => str_ok (fst kv) && jwf (snd kv)) m = true ->
  q_json_key_unchecked q = false \/ forallb key_guard m = true ->
  dict_entries q false (map (fun kv => (rstr (fst kv), to_arrai false (snd kv))) m)
  = Ok (map (fun kv => (fst kv, collapse (snd kv))) m).
Proof.
  induction 1 as [|[k v] m Hv Hm IHm]; intros WS W G; [reflexivity|].
  cbn [snd] in Hv. cbn [forallb fst snd] in W. apply andb_prop in W. destruct W as [W1 W2].
  apply andb_prop in W1. destruct W1 as [Wk Wv].
  assert (G1 : q_json_key_unchecked q = false \/ (k <> [] /\ no_empty_key v = true)).
  { destruct G as [G|G]; [left; exact G|right]. cbn [forallb] in G. apply andb_prop in G. destruct G as [G _].
    unfold key_guard in G. cbn [fst snd] in G. destruct k; [discriminate|]. split; [congruence|exact G]. }
  assert (G2 : q_json_key_unchecked q = false \/ forallb key_guard m = true).
  { destruct G as [G|G]; [left; exact G|right]. cbn [forallb] in G. apply andb_prop in G. apply G. }
  cbn [map dict_entries fst snd].
  rewrite dict_key_ns; [|exact Wk|destruct G1 as [G1|[G1 _]]; [left|right]; exact G1].
  cbn [bind]. rewrite Hv; [|exact Wv|destruct G1 as [G1|[_ G1]]; [left|right]; exact G1].
  cbn [bind]. fold (dict_entries q false). rewrite (IHm (keys_sorted_tail _ _ WS) W2 G2).
  cbn [bind]. rewrite jput_sorted_cons; [reflexivity|].
  change ((k, collapse v) :: map (fun kv => (fst kv, collapse (snd kv))) m)
    with (map (fun kv => (fst kv, collapse (snd kv))) ((k, v) :: m)).
  rewrite keys_sorted_map_snd. exact WS.
Qed.

(* one non-strict decode/encode pass maps a document to its collapse *)
Theorem nonstrict_roundtrip_collapses q j : ns_ok q j.
Proof.
  induction j as [| b | n | s | l IH | m IH] using json_ind'; intros W G.
  - reflexivity.
  - destruct b; reflexivity.
  - reflexivity.
  - cbn [jwf] in W. destruct s as [|c s]; [reflexivity|].
    cbn [to_arrai tagged rstr from_arrai collapse]. rewrite go_string_ok by exact W. reflexivity.
  - destruct l as [|x l]; [reflexivity|].
    change (to_arrai false (JArr (x :: l))) with (RArr 0 (map Some (map (to_arrai false) (x :: l)))).
    rewrite from_arrai_arr. rewrite Z.eqb_refl, orb_true_r.
    rewrite (arr_items_ns q (x :: l) IH W G). reflexivity.
  - destruct m as [|kv m]; [reflexivity|].
    change (to_arrai false (JObj (kv :: m))) with
      (RDict false (map (fun kv => (rstr (fst kv), to_arrai false (snd kv))) (kv :: m))).
    rewrite from_arrai_dict. cbn [jwf] in W. apply andb_prop in W. destruct W as [WS W].
    rewrite (dict_entries_ns q (kv :: m) IH WS W G). reflexivity.
Qed.

(* exactly the documents without "", [], {}, false survive *)
Theorem collapse_fixed_iff j : collapse j = j <-> no_empties j = true.
Proof.
  induction j as [| b | n | s | l IH | m IH] using json_ind'.
  - split; reflexivity.
  - destruct b; split; try reflexivity; discriminate.
  - split; reflexivity.
  - destruct s; split; try reflexivity; discriminate.
  - destruct l as [|x l]; [split; discriminate|].
    change (collapse (JArr (x :: l))) with (JArr (map collapse (x :: l))).
    change (no_empties (JArr (x :: l))) with (forallb no_empties (x :: l)).
    generalize dependent (x :: l). clear x l. intros l IH. split.
    + intros H. injection H as H. induction IH as [|y l [Hy _] _ IHl]; [reflexivity|].
      cbn [map] in H. injection H as H1 H2. cbn [forallb]. rewrite (Hy H1), (IHl H2). reflexivity.
    + intros H. f_equal. induction IH as [|y l [_ Hy] _ IHl]; [reflexivity|].
      cbn [forallb] in H. apply andb_prop in H. destruct H as [H1 H2]. cbn [map]. rewrite (Hy H1), (IHl H2). reflexivity.
  - destruct m as [|kv m]; [split; discriminate|].
    change (collapse (JObj (kv :: m))) with (JObj (map (fun kv => (fst kv, collapse (snd kv))) (kv :: m))).
    change (no_empties (JObj (kv :: m))) with (forallb (fun kv => no_empties (snd kv)) (kv :: m)).
    generalize dependent (kv :: m). clear kv m. intros m IH. split.
    + intros H. injection H as H. induction IH as [|[k v] m [Hy _] _ IHl]; [reflexivity|].
      cbn [map fst snd] in H. injection H as H1 H2. cbn [forallb snd]. cbn [snd] in Hy. rewrite (Hy H1), (IHl H2). reflexivity.
    + intros H. f_equal. induction IH as [|[k v] m [_ Hy] _ IHl]; [reflexivity|].
      cbn [forallb snd] in H. apply andb_prop in H. destruct H as [H1 H2]. cbn [map fst snd]. cbn [snd] in Hy.
      rewrite (Hy H1), (IHl H2). reflexivity.
Qed.

Corollary nonstrict_decode_encode_decode q j :
  jwf j = true -> q_json_key_unchecked q = false \/ no_empty_key j = true -> no_empties j = true ->
  rmap (to_arrai false) (from_arrai q false (to_arrai false j)) = Ok (to_arrai false j).
Proof.
  intros W G N. rewrite nonstrict_roundtrip_collapses by assumption.
  apply collapse_fixed_iff in N. rewrite N. reflexivity.
Qed.

(* the five documents that meet in the empty set *)
Lemma nonstrict_collapse_witness :
  to_arrai false (JStr []) = REmpty /\ to_arrai false (JArr []) = REmpty /\
  to_arrai false (JObj []) = REmpty /\ to_arrai false (JBool false) = REmpty /\
  from_arrai jquirks_cur false REmpty = Ok JNull /\
  to_arrai false JNull = RTup [] /\ to_arrai false JNull <> REmpty.
Proof. repeat split; try reflexivity. discriminate. Qed.

(* ---------- the quirks, each with a witness ---------- *)
Definition only (f : jquirks -> jquirks) : jquirks := f jquirks_off.
Definition s_of (l : list Z) : rv := RStr 0 l.

Lemma q_json_strict_set_to_object_refuted :
  let r := RSet true [RNum (NInt 1); RNum (NInt 2)] in
  from_arrai jquirks_cur true r = Ok (JObj []) /\ to_arrai true (JObj []) <> tag r /\
  from_arrai jquirks_off true r = Err.
Proof. cbn. repeat split; try reflexivity. discriminate. Qed.

Lemma q_json_offsets_holes_dropped_refuted :
  let r := RArr 0 [Some (RNum (NInt 1)); None; Some (RNum (NInt 3))] in
  let r2 := RTup [(n_s, RStr 1 [98; 99])] in
  from_arrai jquirks_cur true r = Ok (JArr [JNum (NInt 1); JNum (NInt 3)]) /\
  to_arrai true (JArr [JNum (NInt 1); JNum (NInt 3)]) <> tag r /\
  from_arrai jquirks_cur true r2 = Ok (JStr [98; 99]) /\ to_arrai true (JStr [98; 99]) <> tag r2 /\
  from_arrai jquirks_off true r = Err /\ from_arrai jquirks_off true r2 = Err.
Proof. cbn. repeat split; try reflexivity; discriminate. Qed.

Lemma q_json_multi_dict_panic_refuted :
  let r := RDict true [(s_of [97], RNum (NInt 1)); (s_of [97], RNum (NInt 2))] in
  from_arrai jquirks_cur true r = Panic /\ from_arrai jquirks_off true r = Err.
Proof. cbn. split; reflexivity. Qed.

(* a document whose decode cannot be encoded again: {"": 1} *)
Lemma q_json_key_unchecked_refuted :
  let j := JObj [([], JNum (NInt 1))] in
  jwf j = true /\ from_arrai jquirks_cur true (to_arrai true j) = Panic /\
  from_arrai jquirks_off true (to_arrai true j) = Ok j /\
  from_arrai jquirks_cur true (RDict false [(RTup [(n_s, s_of [97])], RNum (NInt 1))])
    = Ok (JObj [([97], JNum (NInt 1))]).
Proof. cbn. repeat split; reflexivity. Qed.

Lemma q_json_b_unchecked_refuted :
  from_arrai jquirks_cur true (RTup [(n_b, RNum (NInt 1))]) = Panic /\
  from_arrai jquirks_cur true (RTup [(n_b, RSet true [RNum (NInt 1)])]) = Ok (JBool true) /\
  from_arrai jquirks_off true (RTup [(n_b, RNum (NInt 1))]) = Err /\
  from_arrai jquirks_off true (RTup [(n_b, RSet true [RNum (NInt 1)])]) = Err.
Proof. cbn. repeat split; reflexivity. Qed.

Lemma q_json_a_set_as_array_refuted :
  let r := RTup [(n_a, RSet true [RNum (NInt 1); RNum (NInt 2)])] in
  from_arrai jquirks_cur true r = Ok (JArr [JNum (NInt 1); JNum (NInt 2)]) /\
  to_arrai true (JArr [JNum (NInt 1); JNum (NInt 2)]) <> tag r /\
  from_arrai jquirks_off true r = Err.
Proof. cbn. repeat split; try reflexivity. discriminate. Qed.

(* non-vacuity: a nested document with every kind of node, inside every guard *)
Definition sample_doc : json :=
  JObj [([97], JArr [JNum (NInt 1); JStr []; JArr []; JObj []; JNull; JBool true; JBool false; JNum (NHalf 1)]);
        ([98], JObj [([99], JStr [100; 233])])].
Example strict_roundtrip_nonvacuous :
  jwf sample_doc = true /\ no_empty_key sample_doc = true /\
  from_arrai jquirks_cur true (to_arrai true sample_doc) = Ok sample_doc.
Proof. vm_compute. repeat split; reflexivity. Qed.
