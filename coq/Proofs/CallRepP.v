(* Property C05 at the level of the Go representations: the transcribed lookup code (Rep/CallRep.v)
   refines the specification functions call_data / shift_member / concat_sets on the denoted set. *)
From Arrai Require Import Base.Val Spec.SetAlg Eval.Interp Sys.Heap Rep.SeqRep Rep.CallRep
  Proofs.ValOrder Proofs.SetAlgP Proofs.CanonP Proofs.PatternP Proofs.KeyedP.

(* ---------- induction over representations (buckets of a union are representations) ---------- *)

Section RepInd.
  Variable P : rep -> Prop.
  Hypothesis HE : P REmpty.
  Hypothesis HT : P RTrue.
  Hypothesis HS : forall off c h, P (RStr off c h).
  Hypothesis HB : forall off bs, P (RBytes off bs).
  Hypothesis HA : forall off c n, P (RArr off c n).
  Hypothesis HD : forall es, P (RDict es).
  Hypothesis HR : forall attrs p rows, P (RRel attrs p rows).
  Hypothesis HG : forall ms, P (RGen ms).
  Hypothesis HU0 : P (RUnion []).
  Hypothesis HU : forall b bs, P b -> P (RUnion bs) -> P (RUnion (b :: bs)).
  Fixpoint rep_ind2 (r : rep) : P r :=
    match r with
    | REmpty => HE | RTrue => HT | RStr off c h => HS off c h | RBytes off bs => HB off bs
    | RArr off c n => HA off c n | RDict es => HD es | RRel a p rows => HR a p rows | RGen ms => HG ms
    | RUnion bs =>
        (fix go (l : list rep) : P (RUnion l) :=
           match l with [] => HU0 | b :: l' => HU b l' (rep_ind2 b) (go l') end) bs
    end.
End RepInd.

(* ---------- small facts ---------- *)

Lemma veqb_refl v : veqb v v = true.
Proof. apply veqb_eq. reflexivity. Qed.

Lemma veqb_sym a b : veqb a b = veqb b a.
Proof.
  destruct (veqb a b) eqn:E1, (veqb b a) eqn:E2; try reflexivity.
  - apply veqb_eq in E1. subst. rewrite veqb_refl in E2. discriminate.
  - apply veqb_eq in E2. subst. rewrite veqb_refl in E1. discriminate.
Qed.

Lemma veqb_false a b : veqb a b = false <-> a <> b.
Proof.
  split.
  - intros E ->. rewrite veqb_refl in E. discriminate.
  - intros N. destruct (veqb a b) eqn:E; [apply veqb_eq in E; contradiction | reflexivity].
Qed.

Lemma as_pair_vpair nm i x : as_pair (vpair nm i x) = Some (i, nm, x).
Proof. reflexivity. Qed.

Lemma key_int_vint k i : key_int k = Some i <-> k = vint i.
Proof.
  split.
  - destruct k as [[z|z]| |]; simpl; try discriminate. intros [= ->]. reflexivity.
  - intros ->. reflexivity.
Qed.

Lemma lookup_all_app k l1 l2 :
  lookup_all k (l1 ++ l2) =
  match lookup_all k l1, lookup_all k l2 with Some a, Some b => Some (a ++ b) | _, _ => None end.
Proof.
  induction l1 as [|m l1 IH]; simpl.
  - destruct (lookup_all k l2); reflexivity.
  - destruct (as_pair m) as [[[k' n] v]|]; [|reflexivity]. rewrite IH.
    destruct (lookup_all k l1) as [a|]; [|reflexivity].
    destruct (lookup_all k l2) as [b|]; [|reflexivity].
    destruct (veqb k k'); reflexivity.
Qed.

(* ---------- sequences: strings, byte arrays, arrays ---------- *)

Lemma oget_nil off i : oget off [] i = None.
Proof. unfold oget. destruct (i <? off); [reflexivity|]. destruct (Z.to_nat (i - off)); reflexivity. Qed.

Lemma oget_cons off x c i : oget off (x :: c) i = if i =? off then x else oget (off + 1) c i.
Proof.
  unfold oget. destruct (i =? off) eqn:E.
  - apply Z.eqb_eq in E. subst. rewrite Z.ltb_irrefl, Z.sub_diag. simpl. destruct x; reflexivity.
  - apply Z.eqb_neq in E. destruct (i <? off) eqn:E1.
    + destruct (i <? off + 1) eqn:E2; [reflexivity | lia].
    + destruct (i <? off + 1) eqn:E2; [lia|].
      replace (Z.to_nat (i - off)) with (S (Z.to_nat (i - (off + 1)))) by lia. reflexivity.
Qed.

Lemma oget_below off c i : i < off -> oget off c i = None.
Proof. intros H. unfold oget. destruct (i <? off) eqn:E; [reflexivity | lia]. Qed.

(* the values paired with k in a sequence: the item at index k, when k is an integer inside and not at a hole *)
Lemma lookup_opt_members nm k : forall c off,
  lookup_all k (opt_members nm off c) =
  Some (match key_int k with Some i => opt_list (oget off c i) | None => [] end).
Proof.
  induction c as [|x c IH]; intros off.
  - simpl. destruct (key_int k); [rewrite oget_nil|]; reflexivity.
  - destruct x as [v|].
    + cbn [opt_members lookup_all]. rewrite as_pair_vpair, IH.
      destruct (veqb k (vint off)) eqn:E.
      * apply veqb_eq in E. subst k. cbn [key_int vint num_int].
        rewrite oget_cons, Z.eqb_refl, oget_below by lia. reflexivity.
      * destruct (key_int k) as [i|] eqn:Ek; [|reflexivity].
        rewrite oget_cons. destruct (i =? off) eqn:Ei; [|reflexivity].
        apply Z.eqb_eq in Ei. subst i. apply key_int_vint in Ek. subst k. rewrite veqb_refl in E. discriminate.
    + cbn [opt_members]. rewrite IH. destruct (key_int k) as [i|]; [|reflexivity].
      rewrite oget_cons. destruct (i =? off) eqn:Ei; [|reflexivity].
      apply Z.eqb_eq in Ei. subst i. rewrite oget_below by lia. reflexivity.
Qed.

(* String.CallAll reads through SeqRep.get, the lookup function of the cell representation *)
Lemma get_str_cells off c i : option_map vint (get off c i) = oget off (str_cells c) i.
Proof.
  unfold get, oget, str_cells. destruct (i <? off); [reflexivity|].
  rewrite nth_error_map. destruct (nth_error c (Z.to_nat (i - off))) as [x|]; [|reflexivity].
  simpl. destruct (x <? 0); reflexivity.
Qed.

Lemma bget_byte_cells off bs i : option_map vint (bget off bs i) = oget off (byte_cells bs) i.
Proof.
  unfold bget, oget, byte_cells. destruct (i <? off); [reflexivity|].
  rewrite nth_error_map. destruct (nth_error bs (Z.to_nat (i - off))); reflexivity.
Qed.

(* ---------- dictionaries ---------- *)

Lemma lookup_entries k key vs :
  lookup_all k (map (ventry key) vs) = Some (if veqb k key then vs else []).
Proof.
  induction vs as [|v vs IH]; simpl.
  - destruct (veqb k key); reflexivity.
  - rewrite IH. destruct (veqb k key); reflexivity.
Qed.

Lemma dict_get_none k es : vmem k (map fst es) = false -> dict_get k es = None.
Proof.
  induction es as [|e es IH]; simpl; [reflexivity|].
  intros H. apply orb_false_iff in H as [H1 H2]. rewrite H1. apply IH, H2.
Qed.

Lemma lookup_dict k es :
  distinct_vals (map fst es) = true ->
  lookup_all k (dict_members es) = Some (match dict_get k es with Some s => slot_values s | None => [] end).
Proof.
  induction es as [|e es IH]; simpl; [reflexivity|].
  intros H. apply andb_true_iff in H as [Hn Hd]. apply negb_true_iff in Hn.
  unfold dict_members in *. rewrite lookup_all_app, lookup_entries, (IH Hd).
  destruct (veqb k (fst e)) eqn:E.
  - apply veqb_eq in E. subst k. rewrite (dict_get_none _ _ Hn), app_nil_r. reflexivity.
  - reflexivity.
Qed.

(* ---------- relations ---------- *)

Lemma name_cmp_refl a : name_cmp a a = Eq.
Proof. pose proof (name_eqb_refl a) as H. unfold name_eqb in H. destruct (name_cmp a a); [reflexivity | discriminate | discriminate]. Qed.

Lemma name_eqb_sym a b : name_eqb a b = name_eqb b a.
Proof.
  destruct (name_eqb a b) eqn:E1, (name_eqb b a) eqn:E2; try reflexivity.
  - apply name_eqb_eq in E1. subst. rewrite name_eqb_refl in E2. discriminate.
  - apply name_eqb_eq in E2. subst. rewrite name_eqb_refl in E1. discriminate.
Qed.

Lemma name_cmp_eqb a b : name_cmp a b = Eq <-> name_eqb a b = true.
Proof. unfold name_eqb. destruct (name_cmp a b); split; congruence. Qed.

(* a two-attribute row as a member: which component is the key *)
Lemma as_pair_two a b va vb :
  name_eqb a b = false ->
  as_pair (mktup [(a, va); (b, vb)]) =
  if name_eqb n_at a then Some (va, b, vb) else if name_eqb n_at b then Some (vb, a, va) else None.
Proof.
  intros Hab. unfold mktup, asort. cbn [fold_right ainsert fst].
  assert (Hne : name_cmp a b <> Eq) by (intros H; apply name_cmp_eqb in H; congruence).
  rewrite (name_eqb_sym n_at a), (name_eqb_sym n_at b). unfold name_eqb.
  destruct (name_cmp a b) eqn:Ec; [contradiction| |]; cbn [as_pair].
  - destruct (name_cmp a n_at) eqn:Ea; [reflexivity| |];
      (destruct (name_cmp b n_at) eqn:Eb; reflexivity).
  - destruct (name_cmp b n_at) eqn:Eb.
    + destruct (name_cmp a n_at) eqn:Ea; [|reflexivity|reflexivity].
      apply name_cmp_eq in Ea, Eb. subst. rewrite name_cmp_refl in Ec. discriminate.
    + destruct (name_cmp a n_at); reflexivity.
    + destruct (name_cmp a n_at); reflexivity.
Qed.

Lemma asort_two_length a b va vb : name_eqb a b = false -> length (asort [(a, va); (b, vb)]) = 2%nat.
Proof.
  intros Hab. unfold asort. cbn [fold_right ainsert fst].
  destruct (name_cmp a b) eqn:Ec; [|reflexivity|reflexivity].
  apply name_cmp_eqb in Ec. congruence.
Qed.

(* names of a sorted attribute list *)
Lemma ainsert_names x l n : In n (map fst (ainsert x l)) -> n = fst x \/ In n (map fst l).
Proof.
  induction l as [|y l IH]; simpl.
  - intros [<-|[]]. left; reflexivity.
  - destruct (name_cmp (fst x) (fst y)); simpl.
    + intros [<-|H]; [left; reflexivity | right; right; exact H].
    + intros [<-|[<-|H]]; [left; reflexivity | right; left; reflexivity | right; right; exact H].
    + intros [<-|H]; [right; left; reflexivity|]. destruct (IH H) as [->|H']; [left; reflexivity | right; right; exact H'].
Qed.

Lemma asort_names l n : In n (map fst (asort l)) -> In n (map fst l).
Proof.
  induction l as [|x l IH]; simpl; [tauto|].
  intros H. apply ainsert_names in H as [->|H]; [left; reflexivity | right; apply IH, H].
Qed.

Lemma ainsert_length_fresh x l : ~ In (fst x) (map fst l) -> length (ainsert x l) = S (length l).
Proof.
  induction l as [|y l IH]; simpl; [reflexivity|].
  intros H. destruct (name_cmp (fst x) (fst y)) eqn:Ec; simpl.
  - apply name_cmp_eq in Ec. exfalso. apply H. left. symmetry. exact Ec.
  - reflexivity.
  - rewrite IH; [reflexivity|]. intros Hin. apply H. right. exact Hin.
Qed.

Lemma existsb_name_in x l : existsb (name_eqb x) l = false -> ~ In x l.
Proof.
  induction l as [|y l IH]; simpl; [tauto|].
  intros H [<-|Hin]; apply orb_false_iff in H as [H1 H2]; [rewrite name_eqb_refl in H1; discriminate | exact (IH H2 Hin)].
Qed.

Lemma asort_length l : distinct_names (map fst l) = true -> length (asort l) = length l.
Proof.
  induction l as [|x l IH]; simpl; [reflexivity|].
  intros H. apply andb_true_iff in H as [Hn Hd]. apply negb_true_iff in Hn.
  rewrite ainsert_length_fresh, (IH Hd); [reflexivity|].
  intros Hin. apply asort_names in Hin. exact (existsb_name_in _ _ Hn Hin).
Qed.

Lemma combine_fst {A B} (l : list A) (m : list B) : length l = length m -> map fst (combine l m) = l.
Proof.
  revert m; induction l as [|x l IH]; intros [|y m]; simpl; try discriminate; [reflexivity|].
  intros [= H]. rewrite IH by exact H. reflexivity.
Qed.

Lemma as_pair_length l : as_pair (VTup l) <> None -> length l = 2%nat.
Proof.
  destruct l as [|[n1 k] [|[n2 v] [|z l]]]; simpl; try congruence; try reflexivity.
Qed.

Lemma index_of_lt a attrs i : index_of a attrs = Some i -> (i < length attrs)%nat.
Proof.
  revert i; induction attrs as [|b attrs IH]; intros i; simpl; [discriminate|].
  destruct (name_eqb a b); [intros [= <-]; lia|].
  destruct (index_of a attrs) as [j|]; simpl; [|discriminate]. intros [= <-]. specialize (IH j eq_refl). lia.
Qed.

(* the whole case analysis for a relation over two attributes: stored column order [p0; p1] *)
Lemma lookup_rel_two k a b p0 p1 rows :
  name_eqb a b = false ->
  ((p0 = 0 /\ p1 = 1) \/ (p0 = 1 /\ p1 = 0))%nat ->
  forallb (fun row => (length row =? 2)%nat) rows = true ->
  rows <> [] ->
  match lookup_all k (map (row_tuple [a; b] [p0; p1]) rows) with
  | Some vs => rel_callall [a; b] [p0; p1] rows k = COk vs
  | None => rel_callall [a; b] [p0; p1] rows k = CNotKeyed
  end.
Proof.
  intros Hab Hp Hrows Hne. unfold rel_callall. cbn [index_of length Nat.eqb negb].
  destruct (name_eqb n_at a) eqn:Ea; [|destruct (name_eqb n_at b) eqn:Eb].
  - (* "@" is the first stored name *)
    cbn [nth_error].
    assert (H : forall rows, forallb (fun row => (length row =? 2)%nat) rows = true ->
              exists vs, lookup_all k (map (row_tuple [a; b] [p0; p1]) rows) = Some vs /\
                         rows_callall p0 (if (p0 =? 1)%nat then 0%nat else 1%nat) rows k = COk vs).
    { clear Hrows Hne rows. induction rows as [|row rows IH]; intros Hr; [exists []; split; reflexivity|].
      cbn [forallb] in Hr. apply andb_true_iff in Hr as [Hl Hr]. destruct (IH Hr) as (vs & E1 & E2).
      destruct row as [|x [|y [|z row]]]; try discriminate.
      cbn [map lookup_all]. unfold row_tuple at 1, row_attrs. cbn [map combine].
      rewrite (as_pair_two _ _ _ _ Hab), Ea, E1. cbn [rows_callall].
      destruct Hp as [[-> ->]|[-> ->]]; cbn [nth nth_error Nat.eqb] in E2 |- *; rewrite (veqb_sym _ k), E2;
        eexists; (split; [reflexivity|]); destruct (veqb k _); reflexivity. }
    destruct (H rows Hrows) as (vs & -> & ->). reflexivity.
  - (* "@" is the second stored name *)
    cbn [option_map nth_error].
    assert (H : forall rows, forallb (fun row => (length row =? 2)%nat) rows = true ->
              exists vs, lookup_all k (map (row_tuple [a; b] [p0; p1]) rows) = Some vs /\
                         rows_callall p1 (if (p1 =? 1)%nat then 0%nat else 1%nat) rows k = COk vs).
    { clear Hrows Hne rows. induction rows as [|row rows IH]; intros Hr; [exists []; split; reflexivity|].
      cbn [forallb] in Hr. apply andb_true_iff in Hr as [Hl Hr]. destruct (IH Hr) as (vs & E1 & E2).
      destruct row as [|x [|y [|z row]]]; try discriminate.
      cbn [map lookup_all]. unfold row_tuple at 1, row_attrs. cbn [map combine].
      rewrite (as_pair_two _ _ _ _ Hab), Ea, Eb, E1. cbn [rows_callall].
      destruct Hp as [[-> ->]|[-> ->]]; cbn [nth nth_error Nat.eqb] in E2 |- *; rewrite (veqb_sym _ k), E2;
        eexists; (split; [reflexivity|]); destruct (veqb k _); reflexivity. }
    destruct (H rows Hrows) as (vs & -> & ->). reflexivity.
  - (* no "@" *)
    cbn [option_map]. destruct rows as [|row rows]; [congruence|].
    cbn [map lookup_all]. unfold row_tuple at 1, row_attrs. cbn [map combine].
    rewrite (as_pair_two _ _ _ _ Hab), Ea, Eb. reflexivity.
Qed.

Lemma lookup_rel k attrs p rows :
  wf (RRel attrs p rows) ->
  match lookup_all k (abs (RRel attrs p rows)) with
  | Some vs => rep_callall (RRel attrs p rows) k = COk vs
  | None => rep_callall (RRel attrs p rows) k = CNotKeyed
  end.
Proof.
  unfold wf. cbn [wfb abs rep_callall]. intros H.
  repeat (apply andb_true_iff in H as [H ?]).
  rename H0 into Hrows, H1 into Hdp, H2 into Hlt, H3 into Hlen, H4 into Hdn. apply Nat.eqb_eq in Hlen.
  assert (Hne : rows <> []) by (destruct rows; [discriminate H | discriminate]).
  destruct (Nat.eq_dec (length attrs) 2) as [E2|N2].
  - destruct attrs as [|a [|b [|c attrs]]]; try discriminate. destruct p as [|p0 [|p1 [|p2 p]]]; try discriminate.
    cbn [distinct_names existsb] in Hdn. rewrite orb_false_r, andb_true_r in Hdn. apply negb_true_iff in Hdn.
    cbn [forallb length] in Hlt. rewrite andb_true_r in Hlt. apply andb_true_iff in Hlt as [L0 L1].
    apply Nat.ltb_lt in L0, L1.
    cbn [distinct_nats existsb] in Hdp. rewrite orb_false_r, andb_true_r in Hdp. apply negb_true_iff, Nat.eqb_neq in Hdp.
    apply lookup_rel_two; [exact Hdn | lia | exact Hrows | exact Hne].
  - (* not two attributes: no member is a pair, and the code refuses *)
    destruct rows as [|row rows]; [congruence|].
    assert (Hnp : as_pair (row_tuple attrs p row) = None).
    { destruct (as_pair (row_tuple attrs p row)) eqn:E; [|reflexivity]. exfalso.
      unfold row_tuple, mktup in E.
      assert (L : length (asort (row_attrs attrs p row)) = 2%nat) by (apply as_pair_length; congruence).
      rewrite asort_length in L.
      - unfold row_attrs in L. rewrite combine_length, map_length, Hlen, Nat.min_id in L. contradiction.
      - unfold row_attrs. rewrite combine_fst by (rewrite map_length; symmetry; exact Hlen). exact Hdn. }
    cbn [map lookup_all]. rewrite Hnp. unfold rel_callall.
    destruct (index_of n_at attrs) as [i|] eqn:Ei; [|reflexivity].
    apply index_of_lt in Ei. destruct (nth_error p i) eqn:En.
    + apply Nat.eqb_neq in N2. rewrite N2. reflexivity.
    + apply nth_error_None in En. lia.
Qed.

(* ---------- CallAll on every representation ---------- *)

Lemma lookup_gen k ms :
  ms <> [] -> forallb (fun m => negb (is_pair m)) ms = true -> lookup_all k ms = None.
Proof.
  destruct ms as [|m ms]; [congruence|]. intros _ H. cbn [forallb] in H. apply andb_true_iff in H as [H _].
  unfold is_pair in H. simpl. destruct (as_pair m); [discriminate | reflexivity].
Qed.

(* CallAll adds exactly the values the denoted set pairs with the key - in the same order -, refuses sets with a
   member that is not a pair (TrueSet aside), and never reaches an index panic *)
Theorem callall_refines r : wf r -> forall k,
  match lookup_all k (abs r) with
  | Some vs => rep_callall r k = COk vs
  | None => has_true r = false -> rep_callall r k = CNotKeyed
  end.
Proof.
  induction r using rep_ind2; intros Hwf k.
  - reflexivity.
  - simpl. discriminate.
  - cbn [abs rep_callall]. rewrite lookup_opt_members. destruct (key_int k); [rewrite get_str_cells|]; reflexivity.
  - cbn [abs rep_callall]. rewrite lookup_opt_members. destruct (key_int k); [rewrite bget_byte_cells|]; reflexivity.
  - cbn [abs rep_callall]. rewrite lookup_opt_members. reflexivity.
  - unfold wf in Hwf. cbn [wfb] in Hwf. apply andb_true_iff in Hwf as [_ Hd].
    cbn [abs rep_callall]. rewrite (lookup_dict _ _ Hd). reflexivity.
  - pose proof (lookup_rel k _ _ _ Hwf) as H. destruct (lookup_all k (abs (RRel attrs p rows))); [exact H | intros _; exact H].
  - unfold wf in Hwf. cbn [wfb] in Hwf. apply andb_true_iff in Hwf as [Hn Hp].
    cbn [abs]. rewrite lookup_gen; [reflexivity | destruct ms; [discriminate Hn | discriminate] | exact Hp].
  - reflexivity.
  - unfold wf in Hwf. change (wfb (RUnion (r :: bs))) with (wfb r && wfb (RUnion bs)) in Hwf.
    apply andb_true_iff in Hwf as [W1 W2]. specialize (IHr W1 k). specialize (IHr0 W2 k).
    change (abs (RUnion (r :: bs))) with (abs r ++ abs (RUnion bs)). rewrite lookup_all_app.
    change (rep_callall (RUnion (r :: bs)) k) with
      (match rep_callall r k with
       | COk v1 => match rep_callall (RUnion bs) k with COk v2 => COk (v1 ++ v2) | e => e end
       | e => e end).
    change (has_true (RUnion (r :: bs))) with (has_true r || has_true (RUnion bs)).
    destruct (lookup_all k (abs r)) as [v1|].
    + rewrite IHr. destruct (lookup_all k (abs (RUnion bs))) as [v2|].
      * rewrite IHr0. reflexivity.
      * intros Ht. apply orb_false_iff in Ht as [_ Ht]. rewrite (IHr0 Ht). reflexivity.
    + intros Ht. apply orb_false_iff in Ht as [Ht _]. rewrite (IHr Ht). reflexivity.
Qed.

(* ---------- SetCall: exactly one result ---------- *)

Lemma vsort_all_equal v r : (forall x, In x r -> x = v) -> vsort (v :: r) = [v].
Proof.
  induction r as [|y r IH]; intros H; [reflexivity|].
  assert (y = v) by (apply H; left; reflexivity). subst y.
  change (vsort (v :: v :: r)) with (vinsert v (vsort (v :: r))).
  rewrite IH by (intros x Hx; apply H; right; exact Hx). simpl. rewrite vcmp_refl. reflexivity.
Qed.

Lemma two_distinct_not_short (l : list val) x y :
  In x l -> In y l -> x <> y -> exists a b c, l = a :: b :: c.
Proof.
  destruct l as [|a [|b c]]; simpl.
  - tauto.
  - intros [<-|[]] [<-|[]] N. congruence.
  - intros _ _ _. exists a, b, c. reflexivity.
Qed.

(* counting the members of the set of candidates is the specification's one / none / several *)
Lemma set_outcome vs :
  match vsort vs with [] => ONoReturn | [v] => OOne v | _ => OTooMany end =
  out_of_callres (match vs with [] => CRNone | v :: r => if forallb (veqb v) r then CROne v else CRMany end).
Proof.
  destruct vs as [|v r]; [reflexivity|].
  destruct (forallb (veqb v) r) eqn:E.
  - rewrite vsort_all_equal; [reflexivity|].
    intros x Hx. rewrite forallb_forall in E. symmetry. apply veqb_eq, E, Hx.
  - apply forallb_false in E as (y & Hy & Hf). apply veqb_false in Hf.
    destruct (two_distinct_not_short (vsort (v :: r)) v y) as (a & b & c & ->).
    + apply vsort_in. left; reflexivity.
    + apply vsort_in. right; exact Hy.
    + exact Hf.
    + reflexivity.
Qed.

(* C05 at the representation level: the call paths of every representation compute call_data of the denoted set *)
Theorem rep_call_refines r k :
  wf r -> call_data (abs r) k <> CRNotKeyed ->
  rep_setcall false r k = out_of_callres (call_data (abs r) k).
Proof.
  intros Hwf Hk. pose proof (callall_refines r Hwf k) as H. unfold call_data in *.
  destruct (lookup_all k (abs r)) as [vs|]; [|congruence].
  unfold rep_setcall. rewrite H. unfold results. apply set_outcome.
Qed.

Theorem rep_call_not_keyed r k :
  wf r -> has_true r = false -> call_data (abs r) k = CRNotKeyed -> rep_setcall false r k = ONotKeyed.
Proof.
  intros Hwf Ht Hk. pose proof (callall_refines r Hwf k) as H. unfold call_data in Hk.
  destruct (lookup_all k (abs r)) as [[|v vs]|].
  - discriminate.
  - destruct (forallb (veqb v) vs); discriminate.
  - unfold rep_setcall. rewrite (H Ht). reflexivity.
Qed.

Lemma callall_never_panics r k : wf r -> rep_callall r k <> CPanic.
Proof.
  induction r using rep_ind2; intros Hwf; try (cbn [rep_callall]; discriminate).
  - pose proof (lookup_rel k _ _ _ Hwf) as H. destruct (lookup_all k (abs (RRel attrs p rows))); rewrite H; discriminate.
  - unfold wf in Hwf. change (wfb (RUnion (r :: bs))) with (wfb r && wfb (RUnion bs)) in Hwf.
    apply andb_true_iff in Hwf as [W1 W2]. specialize (IHr W1). specialize (IHr0 W2).
    change (rep_callall (RUnion (r :: bs)) k) with
      (match rep_callall r k with
       | COk v1 => match rep_callall (RUnion bs) k with COk v2 => COk (v1 ++ v2) | e => e end
       | e => e end).
    destruct (rep_callall r k) as [v1| |]; [|discriminate|congruence].
    destruct (rep_callall (RUnion bs) k) as [v2| |]; [discriminate|discriminate|congruence].
Qed.

Theorem rep_call_never_panics q r k : wf r -> rep_setcall q r k <> OPanic.
Proof.
  intros Hwf. pose proof (callall_never_panics r k Hwf) as H. unfold rep_setcall.
  destruct (rep_callall r k) as [vs| |]; [|discriminate|congruence].
  destruct (results q vs) as [|a [|b c]]; discriminate.
Qed.

(* the denoted canonical set gives the same answers as the enumeration *)
Lemma values_outcome_ext (vs vs' : list val) :
  (forall x, In x vs <-> In x vs') ->
  match vs with [] => CRNone | v :: r => if forallb (veqb v) r then CROne v else CRMany end =
  match vs' with [] => CRNone | v :: r => if forallb (veqb v) r then CROne v else CRMany end.
Proof.
  intros H. destruct vs as [|v r], vs' as [|v' r'].
  - reflexivity.
  - exfalso. apply (proj2 (H v')). left; reflexivity.
  - exfalso. apply (proj1 (H v)). left; reflexivity.
  - destruct (forallb (veqb v) r) eqn:E, (forallb (veqb v') r') eqn:E'.
    + rewrite forallb_forall in E. assert (Hv : In v' (v :: r)) by (apply H; left; reflexivity).
      destruct Hv as [->|Hv]; [reflexivity|]. apply E, veqb_eq in Hv. subst. reflexivity.
    + exfalso. apply forallb_false in E' as (y & Hy & Hf). apply veqb_false in Hf. rewrite forallb_forall in E.
      assert (A : forall x, In x (v :: r) -> x = v).
      { intros x [<-|Hx]; [reflexivity|]. symmetry. apply veqb_eq, E, Hx. }
      apply Hf. rewrite (A v'), (A y); [reflexivity | apply H; right; exact Hy | apply H; left; reflexivity].
    + exfalso. apply forallb_false in E as (y & Hy & Hf). apply veqb_false in Hf. rewrite forallb_forall in E'.
      assert (A : forall x, In x (v' :: r') -> x = v').
      { intros x [<-|Hx]; [reflexivity|]. symmetry. apply veqb_eq, E', Hx. }
      apply Hf. rewrite (A v), (A y); [reflexivity | apply H; right; exact Hy | apply H; left; reflexivity].
    + reflexivity.
Qed.

Theorem call_data_ext l l' k : (forall m, In m l <-> In m l') -> call_data l k = call_data l' k.
Proof.
  intros H. unfold call_data.
  destruct (lookup_all k l) as [vs|] eqn:E, (lookup_all k l') as [vs'|] eqn:E'.
  - apply values_outcome_ext. intros x.
    rewrite (proj2 (lookup_all_spec k l vs E) x), (proj2 (lookup_all_spec k l' vs' E') x).
    split; intros (m & n & Hm & Hp); exists m, n; (split; [apply H; exact Hm | exact Hp]).
  - exfalso. apply lookup_all_none in E' as (m & Hm & Hp). apply H in Hm.
    destruct (proj1 (lookup_all_spec k l vs E) m Hm) as (k' & n & v & Hp'). congruence.
  - exfalso. apply lookup_all_none in E as (m & Hm & Hp). apply H in Hm.
    destruct (proj1 (lookup_all_spec k l' vs' E') m Hm) as (k' & n & v & Hp'). congruence.
  - reflexivity.
Qed.

Corollary call_data_abs_val r k :
  match abs_val r with VSet l => call_data l k = call_data (abs r) k | _ => False end.
Proof. unfold abs_val, mkset. apply call_data_ext. intros m. apply vsort_in. Qed.

(* the ?: fallback is taken exactly when the denoted set pairs no value with the key *)
Theorem rep_fallback_iff r k :
  wf r -> call_data (abs r) k <> CRNotKeyed ->
  (rep_safecall false r k = SFallback <-> lookup_all k (abs r) = Some []).
Proof.
  intros Hwf Hk. unfold rep_safecall. rewrite (rep_call_refines r k Hwf Hk), <- call_none.
  destruct (call_data (abs r) k); simpl; split; congruence.
Qed.

(* the code as it is: two different candidate values of sequence-item shape at one index are counted once *)
Lemma callout_eqb_eq a b : callout_eqb a b = true -> a = b.
Proof. destruct a, b; simpl; try discriminate; try reflexivity. intros H. apply veqb_eq in H. congruence. Qed.

Theorem rep_call_current_code_outside_collisions r k :
  wf r -> result_collision r k = false -> call_data (abs r) k <> CRNotKeyed ->
  rep_setcall true r k = out_of_callres (call_data (abs r) k).
Proof.
  intros Hwf Hc Hk. unfold result_collision in Hc. apply negb_false_iff, callout_eqb_eq in Hc.
  rewrite Hc. apply rep_call_refines; assumption.
Qed.

Definition collision_witness : rep :=
  RRel [n_at; [120]] [0%nat; 1%nat]
       [[vint 1; vpair n_item (vint 0) (vint 1)]; [vint 1; vpair n_item (vint 0) (vint 2)]].

Theorem rep_call_collapse_refuted :
  exists r k v, wf r /\ call_data (abs r) k = CRMany /\ rep_setcall true r k = OOne v.
Proof. exists collision_witness, (vint 1), (vpair n_item (vint 0) (vint 2)). vm_compute. repeat split. Qed.

(* ---------- Count() ---------- *)

Lemma opt_members_length nm : forall c off, Z.of_nat (length (opt_members nm off c)) = count_some c.
Proof.
  unfold count_some. induction c as [|x c IH]; intros off; [reflexivity|].
  specialize (IH (off + 1)). destruct x as [v|]; cbn [opt_members filter length]; lia.
Qed.

Lemma count_some_str_cells c : count_some (str_cells c) = Z.of_nat (length c) - count_holes c.
Proof.
  unfold count_some, count_holes, str_cells. induction c as [|x c IH]; [reflexivity|].
  cbn [map filter length]. destruct (x <? 0); cbn [filter length]; lia.
Qed.

Lemma count_some_byte_cells bs : count_some (byte_cells bs) = Z.of_nat (length bs).
Proof.
  unfold count_some, byte_cells. induction bs as [|x bs IH]; [reflexivity|]. cbn [map filter length]. lia.
Qed.

(* Count() - computed from the stored hole / count fields - is the number of members enumerated *)
Theorem count_is_length r : wf r -> rep_count r = Z.of_nat (length (abs r)).
Proof.
  induction r using rep_ind2; intros Hwf; unfold wf in Hwf.
  - reflexivity.
  - reflexivity.
  - cbn [wfb] in Hwf. apply andb_true_iff in Hwf as [_ Hh]. apply Z.eqb_eq in Hh. subst h.
    cbn [rep_count abs]. rewrite opt_members_length, count_some_str_cells. reflexivity.
  - cbn [rep_count abs]. rewrite opt_members_length, count_some_byte_cells. reflexivity.
  - cbn [wfb] in Hwf. apply andb_true_iff in Hwf as [_ Hh]. apply Z.eqb_eq in Hh. subst n.
    cbn [rep_count abs]. rewrite opt_members_length. reflexivity.
  - cbn [rep_count abs]. clear Hwf. unfold dict_members. induction es as [|e es IH]; [reflexivity|].
    cbn [fold_right flat_map]. rewrite app_length, map_length, IH. lia.
  - cbn [rep_count abs]. rewrite map_length. reflexivity.
  - reflexivity.
  - reflexivity.
  - change (wfb (RUnion (r :: bs))) with (wfb r && wfb (RUnion bs)) in Hwf. apply andb_true_iff in Hwf as [W1 W2].
    change (rep_count (RUnion (r :: bs))) with (rep_count r + rep_count (RUnion bs)).
    change (abs (RUnion (r :: bs))) with (abs r ++ abs (RUnion bs)).
    rewrite app_length, (IHr W1), (IHr0 W2). lia.
Qed.

(* ---------- n \ s ---------- *)

Lemma num_add_int i n : num_add (NInt i) (NInt n) = NInt (i + n).
Proof.
  unfold num_add, num2. replace (2 * i + 2 * n) with ((i + n) * 2) by lia.
  rewrite Z.even_mul, orb_true_r, Z.div_mul by lia. reflexivity.
Qed.

Lemma shift_vpair n nm i x : shift_member n (vpair nm (vint i) x) = Ok (vpair nm (vint (i + n)) x).
Proof. unfold shift_member, vpair, vint. cbn [tget name_cmp n_at Z.compare Pos.compare Pos.compare_cont ainsert fst]. rewrite num_add_int. reflexivity. Qed.

Lemma shift_opt_members nm n : forall c off,
  mapM (shift_member n) (opt_members nm off c) = Ok (opt_members nm (off + n) c).
Proof.
  induction c as [|x c IH]; intros off; [reflexivity|].
  destruct x as [v|]; cbn [opt_members mapM].
  - rewrite shift_vpair, IH. cbn [rbind]. replace (off + 1 + n) with (off + n + 1) by lia. reflexivity.
  - rewrite IH. replace (off + 1 + n) with (off + n + 1) by lia. reflexivity.
Qed.

Lemma opt_members_trim_front nm : forall c o i,
  first_some c = Some i -> opt_members nm (o + Z.of_nat i) (skipn i c) = opt_members nm o c.
Proof.
  induction c as [|x c IH]; intros o i; [discriminate|].
  destruct x as [v|]; cbn [first_some].
  - intros [= <-]. cbn [skipn]. replace (o + Z.of_nat 0) with o by lia. reflexivity.
  - destruct (first_some c) as [j|] eqn:E; [|discriminate]. intros [= <-].
    cbn [skipn opt_members]. rewrite <- (IH (o + 1) j eq_refl). f_equal. lia.
Qed.

Lemma opt_members_snoc_none nm : forall c o, opt_members nm o (c ++ [None]) = opt_members nm o c.
Proof.
  induction c as [|x c IH]; intros o; [reflexivity|].
  destruct x; cbn [app opt_members]; rewrite IH; reflexivity.
Qed.

Lemma opt_members_trim_back nm c : forall o j,
  first_some (rev c) = Some j -> opt_members nm o (firstn (length c - j) c) = opt_members nm o c.
Proof.
  induction c as [|x c IH] using rev_ind; intros o j; [discriminate|].
  rewrite rev_app_distr. cbn [rev app]. destruct x as [v|]; cbn [first_some].
  - intros [= <-]. rewrite Nat.sub_0_r, firstn_all. reflexivity.
  - destruct (first_some (rev c)) as [j'|] eqn:E; [|discriminate]. intros [= <-].
    rewrite app_length. cbn [length]. replace (length c + 1 - S j')%nat with (length c - j')%nat by lia.
    rewrite firstn_app. replace (length c - j' - length c)%nat with 0%nat by lia.
    cbn [firstn]. rewrite app_nil_r, opt_members_snoc_none. apply IH. reflexivity.
Qed.

Lemma abs_new_offset_array o c : abs (new_offset_array o c) = opt_members n_item o c.
Proof.
  unfold new_offset_array.
  assert (H1 : forall o1 c1, abs (match (match first_some (rev c1) with Some j => firstn (length c1 - j) c1 | None => c1 end) with
                                  | [] => REmpty
                                  | _ => RArr o1 (match first_some (rev c1) with Some j => firstn (length c1 - j) c1 | None => c1 end)
                                           (count_some (match first_some (rev c1) with Some j => firstn (length c1 - j) c1 | None => c1 end))
                                  end) = opt_members n_item o1 c1).
  { intros o1 c1. destruct (first_some (rev c1)) as [j|] eqn:E.
    - rewrite <- (opt_members_trim_back n_item c1 o1 j E). destruct (firstn (length c1 - j) c1); reflexivity.
    - destruct c1; reflexivity. }
  destruct (first_some c) as [i|] eqn:E.
  - rewrite H1. apply opt_members_trim_front. exact E.
  - apply H1.
Qed.

(* n \ s: the members of the result are the members of s with every index moved by n, in the same order *)
Theorem rep_offset_refines n r r' :
  rep_offset (vint n) r = Some r' -> mapM (shift_member n) (abs r) = Ok (abs r').
Proof.
  unfold rep_offset, vint. cbn [num_trunc]. destruct r; try discriminate; intros [= <-].
  - reflexivity.
  - cbn [abs]. rewrite shift_opt_members. unfold new_offset_string. destruct cells; reflexivity.
  - cbn [abs]. rewrite shift_opt_members. unfold new_offset_bytes. destruct bs; reflexivity.
  - cbn [abs]. rewrite shift_opt_members, abs_new_offset_array. reflexivity.
Qed.

(* ... and what it builds is again a well-formed layout *)
Theorem rep_offset_wf n r r' : wf r -> rep_offset n r = Some r' -> wf r'.
Proof.
  unfold rep_offset. destruct n as [nn| |]; try discriminate. destruct r; try discriminate; intros Hwf [= <-]; unfold wf in *.
  - reflexivity.
  - unfold new_offset_string. destruct cells; [reflexivity|]. cbn [wfb negb andb]. apply Z.eqb_refl.
  - unfold new_offset_bytes. destruct bs; reflexivity.
  - unfold new_offset_array. destruct (first_some cells) as [i|];
      match goal with |- context [first_some (rev ?c1)] => destruct (first_some (rev c1)) as [j|] end;
      match goal with |- wfb (match ?c2 with [] => _ | _ => _ end) = true => destruct c2 eqn:E2; [reflexivity|]; cbn [wfb negb andb]; apply Z.eqb_refl end.
Qed.

(* ---------- a ++ b ---------- *)

Lemma go_shift_spec off m : go_shift off m = match shift_member off m with Ok v => Some v | _ => None end.
Proof.
  unfold go_shift, shift_member. destruct m as [|attrs|]; try reflexivity.
  destruct (tget n_at attrs) as [[k| |]|]; reflexivity.
Qed.

Lemma shift_member_ok_or_err off m : (exists v, shift_member off m = Ok v) \/ shift_member off m = Err.
Proof.
  unfold shift_member. destruct m as [|attrs|]; try (right; reflexivity).
  destruct (tget n_at attrs) as [[k| |]|]; try (right; reflexivity). left. eexists. reflexivity.
Qed.

Lemma shift_all_spec off ms :
  match shift_all off ms with
  | Some r => mapM (shift_member off) ms = Ok r
  | None => mapM (shift_member off) ms = Err
  end.
Proof.
  induction ms as [|m ms IH]; [reflexivity|].
  cbn [shift_all mapM]. rewrite go_shift_spec.
  destruct (shift_member_ok_or_err off m) as [[v ->]| ->]; [|reflexivity].
  cbn [rbind]. destruct (shift_all off ms) as [r|]; rewrite IH; reflexivity.
Qed.

(* a ++ b: what Concatenate hands to its builder is exactly the specification's a ++ b - every member of a and
   every member of b with its @ moved up by the number of members of a (holes do not count) - and the two fail together *)
Theorem rep_concat_refines a b :
  wf a ->
  concat_sets (abs a) (abs b) = match rep_concat_added a b with Some ms => Ok (mkset ms) | None => Err end.
Proof.
  intros Hwf. unfold concat_sets, rep_concat_added. rewrite (count_is_length a Hwf).
  pose proof (shift_all_spec (Z.of_nat (length (abs a))) (abs b)) as H.
  destruct (shift_all (Z.of_nat (length (abs a))) (abs b)) as [sb|]; rewrite H; reflexivity.
Qed.

(* ---------- the builder on array items: asArray denotes the items it was given (no two at one index) ---------- *)

Lemma set_nth_opt_length {A} (x : A) : forall l n, length (set_nth_opt n x l) = length l.
Proof. induction l as [|y l IH]; intros [|n]; simpl; try reflexivity. rewrite IH. reflexivity. Qed.

Lemma nth_error_set_nth_opt {A} (x : A) : forall l n j,
  nth_error (set_nth_opt n x l) j = if (j =? n)%nat && (n <? length l)%nat then Some x else nth_error l j.
Proof.
  induction l as [|y l IH]; intros n j.
  - destruct n; simpl; rewrite andb_false_r; reflexivity.
  - destruct n as [|n], j as [|j]; simpl; try reflexivity. rewrite IH. reflexivity.
Qed.

Fixpoint last_write (l : list (Z * val)) (i : Z) : option val :=
  match l with
  | [] => None
  | (i', x) :: l' => match last_write l' i with Some y => Some y | None => if i' =? i then Some x else None end
  end.

Lemma fill_fold lo : forall l acc j,
  (forall t, In t l -> lo <= fst t < lo + Z.of_nat (length acc)) ->
  nth_error (fold_left (fun acc t => set_nth_opt (Z.to_nat (fst t - lo)) (Some (snd t)) acc) l acc) j =
  match last_write l (lo + Z.of_nat j) with Some x => if (j <? length acc)%nat then Some (Some x) else None | None => nth_error acc j end.
Proof.
  induction l as [|[i x] l IH]; intros acc j Hr; [reflexivity|].
  cbn [fold_left last_write fst snd]. rewrite IH.
  - rewrite set_nth_opt_length. destruct (last_write l (lo + Z.of_nat j)); [reflexivity|].
    rewrite nth_error_set_nth_opt.
    assert (Hi : lo <= i < lo + Z.of_nat (length acc)) by (apply (Hr (i, x)); left; reflexivity).
    destruct (i =? lo + Z.of_nat j) eqn:E.
    + apply Z.eqb_eq in E. replace (Z.to_nat (i - lo)) with j by lia. rewrite Nat.eqb_refl.
      destruct (j <? length acc)%nat eqn:E2; [reflexivity|]. apply Nat.ltb_ge in E2. lia.
    + apply Z.eqb_neq in E. destruct (j =? Z.to_nat (i - lo))%nat eqn:E2; [|reflexivity].
      apply Nat.eqb_eq in E2. lia.
  - intros t Ht. rewrite set_nth_opt_length. apply Hr. right. exact Ht.
Qed.

Lemma min_max_bounds l lo hi : min_max l = Some (lo, hi) -> forall t, In t l -> lo <= fst t <= hi.
Proof.
  revert lo hi; induction l as [|[i x] l IH]; intros lo hi; [discriminate|].
  cbn [min_max]. destruct (min_max l) as [[lo' hi']|] eqn:E.
  - intros [= <- <-] t [<-|Ht]; [simpl; lia|]. specialize (IH lo' hi' eq_refl t Ht). lia.
  - intros [= <- <-] t [<-|Ht]; [simpl; lia|]. destruct l as [|[i' x'] l]; [destruct Ht|].
    cbn [min_max] in E. destruct (min_max l) as [[a b]|]; discriminate.
Qed.

Lemma vpair_eq nm a b x : a = b -> vpair nm (vint a) x = vpair nm (vint b) x.
Proof. intros ->. reflexivity. Qed.

Lemma in_opt_members nm m : forall c o,
  In m (opt_members nm o c) <-> exists j x, nth_error c j = Some (Some x) /\ m = vpair nm (vint (o + Z.of_nat j)) x.
Proof.
  induction c as [|y c IH]; intros o.
  - split; [intros [] | intros (j & x & H & _); destruct j; discriminate].
  - destruct y as [v|]; cbn [opt_members In]; rewrite IH; split.
    + intros [<-|(j & x & H & ->)].
      * exists 0%nat, v. split; [reflexivity|]. apply vpair_eq; lia.
      * exists (S j), x. split; [exact H|]. apply vpair_eq; lia.
    + intros ([|j] & x & H & ->).
      * left. simpl in H. injection H as <-. apply vpair_eq; lia.
      * right. exists j, x. split; [exact H|]. apply vpair_eq; lia.
    + intros (j & x & H & ->). exists (S j), x. split; [exact H|]. apply vpair_eq; lia.
    + intros ([|j] & x & H & ->); [discriminate|]. exists j, x. split; [exact H|]. apply vpair_eq; lia.
Qed.

Lemma last_write_in l i x : last_write l i = Some x -> In (i, x) l.
Proof.
  induction l as [|[i' y] l IH]; [discriminate|]. cbn [last_write].
  destruct (last_write l i) as [z|].
  - intros [= ->]. right. apply IH. reflexivity.
  - destruct (i' =? i) eqn:E; [|discriminate]. apply Z.eqb_eq in E. intros [= ->]. left. congruence.
Qed.

Lemma in_last_write l i x : In (i, x) l -> exists y, last_write l i = Some y.
Proof.
  induction l as [|[i' y] l IH]; [intros []|]. cbn [last_write]. intros [H|H].
  - injection H as -> ->. destruct (last_write l i); [eexists; reflexivity|]. rewrite Z.eqb_refl. eexists; reflexivity.
  - destruct (IH H) as (z & ->). eexists; reflexivity.
Qed.

(* asArray: when no two of the items it is given sit at one index with different values, the array it builds
   denotes exactly those items (its offset is the least index, gaps are holes) and its count field is right *)
Theorem as_array_refines l :
  l <> [] -> (forall i x y, In (i, x) l -> In (i, y) l -> x = y) ->
  wf (as_array l) /\
  forall m, In m (abs (as_array l)) <-> exists i x, In (i, x) l /\ m = vpair n_item (vint i) x.
Proof.
  intros Hne Hnc. unfold as_array. destruct (min_max l) as [[lo hi]|] eqn:Emm.
  2:{ destruct l as [|[i x] l]; [congruence|]. cbn [min_max] in Emm. destruct (min_max l) as [[a b]|]; discriminate. }
  pose proof (min_max_bounds l lo hi Emm) as Hb.
  assert (Hlohi : lo <= hi) by (destruct l as [|t l]; [congruence|]; specialize (Hb t (or_introl eq_refl)); lia).
  set (n := Z.to_nat (hi - lo + 1)).
  assert (Hfill : forall j, nth_error (fill lo n l) j =
            match last_write l (lo + Z.of_nat j) with Some x => if (j <? n)%nat then Some (Some x) else None
                                                 | None => nth_error (repeat None n) j end).
  { intros j. unfold fill. rewrite fill_fold; rewrite repeat_length; [reflexivity|].
    intros t Ht. specialize (Hb t Ht). unfold n. lia. }
  split.
  - unfold wf. cbn [wfb]. rewrite Z.eqb_refl, andb_true_r.
    destruct (fill lo n l) eqn:Ef; [|reflexivity]. exfalso.
    specialize (Hfill 0%nat).
    destruct (last_write l (lo + Z.of_nat 0)); simpl in Hfill.
    + destruct (0 <? n)%nat eqn:E; [discriminate|]. apply Nat.ltb_ge in E. unfold n in E. lia.
    + destruct n eqn:En; [unfold n in En; lia | discriminate].
  - intros m. cbn [abs]. rewrite in_opt_members. split.
    + intros (j & x & Hj & ->). rewrite Hfill in Hj. destruct (last_write l (lo + Z.of_nat j)) as [y|] eqn:El.
      * destruct (j <? n)%nat; [|discriminate]. injection Hj as ->. exists (lo + Z.of_nat j), x. split; [apply last_write_in, El | reflexivity].
      * exfalso. clear -Hj. revert j Hj. induction n as [|n IH]; intros [|j]; simpl; try discriminate. apply IH.
    + intros (i & x & Hin & ->). pose proof (Hb _ Hin) as Hi. cbn [fst] in Hi.
      destruct (in_last_write l i x Hin) as (y & Hy).
      assert (y = x) by (apply (Hnc i); [apply last_write_in, Hy | exact Hin]). subst y.
      exists (Z.to_nat (i - lo)), x. split; [|apply vpair_eq; lia].
      rewrite Hfill. replace (lo + Z.of_nat (Z.to_nat (i - lo))) with i by lia. rewrite Hy.
      destruct (Z.to_nat (i - lo) <? n)%nat eqn:E; [reflexivity|]. apply Nat.ltb_ge in E. unfold n in E. lia.
Qed.

Lemma items_of_item ms : forall l,
  items_of n_item ms = Some l -> ms = map (fun t => vpair n_item (vint (fst t)) (snd t)) l.
Proof.
  induction ms as [|m ms IH]; intros l; cbn [items_of].
  - intros [= <-]. reflexivity.
  - destruct (sugar_slot m) as [[n i]|] eqn:Es; [|discriminate].
    destruct (item_at m) as [[i' x]|] eqn:Ei; [|discriminate].
    destruct (items_of n_item ms) as [r|]; [|discriminate].
    destruct (name_eqb n n_item) eqn:En; [|discriminate]. intros [= <-].
    cbn [map fst snd]. rewrite <- (IH r eq_refl). f_equal.
    destruct m as [|attrs|]; try discriminate.
    destruct attrs as [|[n1 k] [|[n2 y] [|p q]]]; try discriminate; (destruct k as [[z|z]| |]; try discriminate).
    cbn [sugar_slot item_at] in Es, Ei. injection Ei as <- <-.
    destruct (name_eqb n1 n_at) eqn:E1; [|discriminate]. apply name_eqb_eq in E1. subst n1.
    destruct (name_eqb n2 n_item) eqn:E2.
    + apply name_eqb_eq in E2. subst n2. reflexivity.
    + exfalso. destruct (name_eqb n2 n_char).
      * destruct y as [[?|?]| |]; try discriminate. injection Es as <- _. discriminate En.
      * destruct (name_eqb n2 n_byte); [|discriminate].
        destruct y as [[?|?]| |]; try discriminate. injection Es as <- _. discriminate En.
Qed.

(* a ++ b on arrays, to the layout: when everything handed to the builder is an array item and no two different
   items meet at one index (outside KF-C05-01), the result is the Array asArray builds, it is well formed and it
   denotes exactly a's items and b's shifted items *)
Theorem rep_concat_array_layout a b ms l :
  rep_concat_added a b = Some ms -> ms <> [] -> items_of n_item ms = Some l ->
  (forall i x y, In (i, x) l -> In (i, y) l -> x = y) ->
  rep_concat a b = Some (as_array l) /\ wf (as_array l) /\ forall m, In m (abs (as_array l)) <-> In m ms.
Proof.
  intros Ha Hne Hl Hnc. pose proof (items_of_item ms l Hl) as Hms.
  assert (Hln : l <> []) by (intros ->; apply Hne; exact Hms).
  destruct (as_array_refines l Hln Hnc) as [Hwf Hin].
  split; [|split; [exact Hwf|]].
  - unfold rep_concat. rewrite Ha. unfold seq_finish. destruct ms; [congruence|]. rewrite Hl. reflexivity.
  - intros m. rewrite Hin, Hms, in_map_iff. split.
    + intros (i & x & H & ->). exists (i, x). split; [reflexivity | exact H].
    + intros ([i x] & <- & H). exists i, x. split; [exact H | reflexivity].
Qed.

(* ---------- asString: the same fill, through the rune conversion ---------- *)

Definition rename_item (nm : name) (m : val) : val :=
  match m with VTup [(a, i); (_, x)] => VTup [(a, i); (nm, x)] | _ => m end.

Lemma opt_members_rename nm : forall c o, opt_members nm o c = map (rename_item nm) (opt_members n_item o c).
Proof.
  induction c as [|x c IH]; intros o; [reflexivity|].
  destruct x as [v|]; cbn [opt_members map]; rewrite IH; reflexivity.
Qed.

Definition char_cell (o : option val) : Prop :=
  match o with Some v => exists z, v = vint z /\ 0 <= z | None => True end.

Lemma str_cells_decode cells :
  Forall char_cell cells ->
  str_cells (map (fun o => match o with Some v => rune_of v | None => -1 end) cells) = cells.
Proof.
  unfold str_cells. induction 1 as [|o cells Ho _ IH]; [reflexivity|].
  cbn [map]. rewrite IH. f_equal. destruct o as [v|]; [|reflexivity].
  destruct Ho as (z & -> & Hz). cbn [rune_of vint]. destruct (z <? 0) eqn:E; [lia | reflexivity].
Qed.

Lemma fill_cell_from lo hi l j x :
  min_max l = Some (lo, hi) ->
  nth_error (fill lo (Z.to_nat (hi - lo + 1)) l) j = Some (Some x) -> exists i, In (i, x) l.
Proof.
  intros Emm H. pose proof (min_max_bounds l lo hi Emm) as Hb.
  assert (Hlohi : lo <= hi).
  { destruct l as [|t l]; [discriminate|]. specialize (Hb t (or_introl eq_refl)). lia. }
  unfold fill in H. rewrite fill_fold in H.
  - rewrite repeat_length in H. destruct (last_write l (lo + Z.of_nat j)) as [y|] eqn:El.
    + destruct (j <? Z.to_nat (hi - lo + 1))%nat; [|discriminate]. injection H as ->.
      eexists. apply last_write_in. exact El.
    + exfalso. clear -H. revert j H. induction (Z.to_nat (hi - lo + 1)) as [|n IH]; intros [|j]; simpl; try discriminate. apply IH.
  - intros t Ht. rewrite repeat_length. specialize (Hb t Ht). lia.
Qed.

Theorem as_string_refines l :
  l <> [] -> (forall i x y, In (i, x) l -> In (i, y) l -> x = y) ->
  (forall i x, In (i, x) l -> exists z, x = vint z /\ 0 <= z) ->
  wf (as_string l) /\
  forall m, In m (abs (as_string l)) <-> exists i x, In (i, x) l /\ m = vpair n_char (vint i) x.
Proof.
  intros Hne Hnc Hch. destruct (as_array_refines l Hne Hnc) as [Hwf Hin].
  unfold as_string, as_array in *. destruct (min_max l) as [[lo hi]|] eqn:Emm.
  2:{ exfalso. destruct l as [|[i x] l]; [congruence|]. cbn [min_max] in Emm. destruct (min_max l) as [[a b]|]; discriminate. }
  set (cells := fill lo (Z.to_nat (hi - lo + 1)) l) in *.
  assert (Hcells : Forall char_cell cells).
  { apply Forall_forall. intros o Ho. destruct o as [v|]; [|exact I].
    apply In_nth_error in Ho as (j & Hj). destruct (fill_cell_from lo hi l j v Emm Hj) as (i & Hi).
    exact (Hch i v Hi). }
  split.
  - unfold wf in *. cbn [wfb] in *. rewrite Z.eqb_refl, andb_true_r. apply andb_true_iff in Hwf as [Hc _].
    destruct cells; [discriminate Hc | reflexivity].
  - intros m. cbn [abs] in *. rewrite (str_cells_decode cells Hcells), opt_members_rename, in_map_iff. split.
    + intros (m' & <- & Hm'). apply Hin in Hm' as (i & x & Hi & ->). exists i, x. split; [exact Hi | reflexivity].
    + intros (i & x & Hi & ->). exists (vpair n_item (vint i) x). split; [reflexivity|].
      apply Hin. exists i, x. split; [exact Hi | reflexivity].
Qed.

Lemma items_of_char ms : forall l,
  items_of n_char ms = Some l -> ms = map (fun t => vpair n_char (vint (fst t)) (snd t)) l.
Proof.
  induction ms as [|m ms IH]; intros l; cbn [items_of].
  - intros [= <-]. reflexivity.
  - destruct (sugar_slot m) as [[n i]|] eqn:Es; [|discriminate].
    destruct (item_at m) as [[i' x]|] eqn:Ei; [|discriminate].
    destruct (items_of n_char ms) as [r|]; [|discriminate].
    destruct (name_eqb n n_char) eqn:En; [|discriminate]. intros [= <-].
    cbn [map fst snd]. rewrite <- (IH r eq_refl). f_equal.
    destruct m as [|attrs|]; try discriminate.
    destruct attrs as [|[n1 k] [|[n2 y] [|p q]]]; try discriminate; (destruct k as [[z|z]| |]; try discriminate).
    cbn [sugar_slot item_at] in Es, Ei. injection Ei as <- <-.
    destruct (name_eqb n1 n_at) eqn:E1; [|discriminate]. apply name_eqb_eq in E1. subst n1.
    destruct (name_eqb n2 n_item) eqn:E2.
    + exfalso. injection Es as <- _. discriminate En.
    + destruct (name_eqb n2 n_char) eqn:E3.
      * apply name_eqb_eq in E3. subst n2. reflexivity.
      * exfalso. destruct (name_eqb n2 n_byte); [|discriminate].
        destruct y as [[?|?]| |]; try discriminate. injection Es as <- _. discriminate En.
Qed.

Lemma items_of_char_not_item ms l : ms <> [] -> items_of n_char ms = Some l -> items_of n_item ms = None.
Proof.
  destruct ms as [|m ms]; [congruence|]. intros _. cbn [items_of].
  destruct (sugar_slot m) as [[n i]|]; [|reflexivity].
  destruct (item_at m) as [t|]; [|reflexivity].
  destruct (items_of n_char ms); [|discriminate].
  destruct (name_eqb n n_char) eqn:En; [|discriminate]. intros _.
  apply name_eqb_eq in En. subst n. destruct (items_of n_item ms); reflexivity.
Qed.

(* a ++ b on strings, to the layout *)
Theorem rep_concat_string_layout a b ms l :
  rep_concat_added a b = Some ms -> ms <> [] -> items_of n_char ms = Some l ->
  (forall i x y, In (i, x) l -> In (i, y) l -> x = y) ->
  (forall i x, In (i, x) l -> exists z, x = vint z /\ 0 <= z) ->
  rep_concat a b = Some (as_string l) /\ wf (as_string l) /\ forall m, In m (abs (as_string l)) <-> In m ms.
Proof.
  intros Ha Hne Hl Hnc Hch. pose proof (items_of_char ms l Hl) as Hms.
  assert (Hln : l <> []) by (intros ->; apply Hne; exact Hms).
  destruct (as_string_refines l Hln Hnc Hch) as [Hwf Hin].
  split; [|split; [exact Hwf|]].
  - unfold rep_concat. rewrite Ha. unfold seq_finish. rewrite (items_of_char_not_item ms l Hne Hl), Hl.
    destruct ms; [congruence | reflexivity].
  - intros m. rewrite Hin, Hms, in_map_iff. split.
    + intros (i & x & H & ->). exists (i, x). split; [reflexivity | exact H].
    + intros ([i x] & <- & H). exists i, x. split; [exact H | reflexivity].
Qed.

(* ---------- asBytes: contiguous indices only (a gap becomes zero bytes, KF-C05-02) ---------- *)

Lemma fill_length lo n l : length (fill lo n l) = n.
Proof.
  unfold fill. assert (H : forall acc, length (fold_left (fun acc t => set_nth_opt (Z.to_nat (fst t - lo)) (Some (snd t)) acc) l acc) = length acc).
  { induction l as [|t l IH]; intros acc; [reflexivity|]. cbn [fold_left]. rewrite IH, set_nth_opt_length. reflexivity. }
  rewrite H, repeat_length. reflexivity.
Qed.

Lemma byte_cells_decode cells :
  Forall (fun o => exists z, o = Some (vint z)) cells ->
  byte_cells (map (fun o => match o with Some v => rune_of v | None => 0 end) cells) = cells.
Proof.
  unfold byte_cells. induction 1 as [|o cells (z & ->) _ IH]; [reflexivity|].
  cbn [map rune_of vint]. rewrite IH. reflexivity.
Qed.

Theorem as_bytes_refines l :
  l <> [] -> (forall i x y, In (i, x) l -> In (i, y) l -> x = y) ->
  (forall i x, In (i, x) l -> exists z, x = vint z) ->
  (forall lo hi, min_max l = Some (lo, hi) -> forall i, lo <= i <= hi -> exists x, In (i, x) l) ->
  wf (as_bytes l) /\
  forall m, In m (abs (as_bytes l)) <-> exists i x, In (i, x) l /\ m = vpair n_byte (vint i) x.
Proof.
  intros Hne Hnc Hch Hgap. destruct (as_array_refines l Hne Hnc) as [Hwf Hin].
  unfold as_bytes, as_array in *. destruct (min_max l) as [[lo hi]|] eqn:Emm.
  2:{ exfalso. destruct l as [|[i x] l]; [congruence|]. cbn [min_max] in Emm. destruct (min_max l) as [[a b]|]; discriminate. }
  pose proof (min_max_bounds l lo hi Emm) as Hb.
  set (n := Z.to_nat (hi - lo + 1)) in *. set (cells := fill lo n l) in *.
  assert (Hcells : Forall (fun o => exists z, o = Some (vint z)) cells).
  { apply Forall_forall. intros o Ho. apply In_nth_error in Ho as (j & Hj).
    assert (Hjn : (j < n)%nat).
    { rewrite <- (fill_length lo n l). apply nth_error_Some. fold cells. congruence. }
    destruct (Hgap lo hi eq_refl (lo + Z.of_nat j)) as (x & Hx); [unfold n in Hjn; lia|].
    destruct (in_last_write l _ x Hx) as (y & Hy).
    unfold cells, fill in Hj. rewrite fill_fold in Hj.
    - rewrite Hy, repeat_length in Hj. apply Nat.ltb_lt in Hjn. rewrite Hjn in Hj. injection Hj as <-.
      destruct (Hch _ y (last_write_in _ _ _ Hy)) as (z & ->). exists z. reflexivity.
    - intros t Ht. rewrite repeat_length. specialize (Hb t Ht). unfold n. lia. }
  split.
  - unfold wf in *. cbn [wfb] in *. apply andb_true_iff in Hwf as [Hc _].
    destruct cells; [discriminate Hc | reflexivity].
  - intros m. cbn [abs] in *. rewrite (byte_cells_decode cells Hcells), opt_members_rename, in_map_iff. split.
    + intros (m' & <- & Hm'). apply Hin in Hm' as (i & x & Hi & ->). exists i, x. split; [exact Hi | reflexivity].
    + intros (i & x & Hi & ->). exists (vpair n_item (vint i) x). split; [reflexivity|].
      apply Hin. exists i, x. split; [exact Hi | reflexivity].
Qed.
