(* The set algebra of Spec/SetAlg.v is exactly the mathematical one on canonical
   (strictly sorted) member lists: membership characterisations, canonical form
   preserved, extensionality, count = number of distinct members. *)
From Arrai Require Import Base.Val Spec.SetAlg Proofs.ValOrder.
From Coq Require Import ZifyBool ZifyNat.

(* strictly sorted = canonical member list *)
Fixpoint ssorted (l : list val) : Prop :=
  match l with
  | [] => True
  | x :: l' => (forall y, In y l' -> vcmp x y = Lt) /\ ssorted l'
  end.

Lemma vcmp_gt_lt a b : vcmp a b = Gt -> vcmp b a = Lt.
Proof. intros H. rewrite vcmp_antisym, H. reflexivity. Qed.

Lemma vcmp_lt_irrefl a : vcmp a a <> Lt.
Proof. rewrite vcmp_refl; discriminate. Qed.

Lemma vinsert_in x l y : In y (vinsert x l) <-> y = x \/ In y l.
Proof.
  induction l as [|z l IH]; simpl; [intuition|].
  destruct (vcmp x z) eqn:E; simpl.
  - apply vcmp_eq in E; subst. intuition.
  - intuition.
  - rewrite IH. intuition.
Qed.

Lemma vinsert_sorted x l : ssorted l -> ssorted (vinsert x l).
Proof.
  induction l as [|z l IH]; simpl; [intros _; split; [intros y []|exact I]|].
  intros [Hz Hl]. destruct (vcmp x z) eqn:E.
  - simpl; split; assumption.
  - simpl. split; [|split; assumption].
    intros y [<-|Hy]; [exact E|]. eapply vcmp_trans; [exact E | apply Hz; exact Hy].
  - simpl. split; [|apply IH; exact Hl].
    intros y Hy. apply vinsert_in in Hy as [->|Hy]; [apply vcmp_gt_lt; exact E | apply Hz; exact Hy].
Qed.

Lemma vsort_in l y : In y (vsort l) <-> In y l.
Proof.
  induction l as [|x l IH]; simpl; [reflexivity|].
  unfold vsort in *; simpl. rewrite vinsert_in, IH. intuition.
Qed.

Lemma vsort_sorted l : ssorted (vsort l).
Proof. induction l as [|x l IH]; simpl; [exact I|]. apply vinsert_sorted; exact IH. Qed.

Lemma ssorted_nodup l : ssorted l -> NoDup l.
Proof.
  induction l as [|x l IH]; simpl; [constructor|]. intros [Hx Hl]. constructor; [|apply IH; exact Hl].
  intros Hin. apply (vcmp_lt_irrefl x). apply Hx; exact Hin.
Qed.

Lemma vmem_in x l : vmem x l = true <-> In x l.
Proof.
  induction l as [|y l IH]; simpl; [split; [discriminate | intros []]|].
  rewrite orb_true_iff, IH, veqb_eq. intuition.
Qed.

Lemma vmem_false x l : vmem x l = false <-> ~ In x l.
Proof. rewrite <- vmem_in. destruct (vmem x l); split; congruence. Qed.

Lemma filter_sorted f l : ssorted l -> ssorted (filter f l).
Proof.
  induction l as [|x l IH]; simpl; [exact id|]. intros [Hx Hl].
  destruct (f x); simpl; [split|]; try (apply IH; exact Hl).
  intros y Hy. apply filter_In in Hy as [Hy _]. apply Hx; exact Hy.
Qed.

(* extensionality: a canonical member list is determined by its members *)
Theorem ssorted_ext l m :
  ssorted l -> ssorted m -> (forall x, In x l <-> In x m) -> l = m.
Proof.
  revert m; induction l as [|x l IH]; intros m Hl Hm Hext.
  - destruct m as [|y m]; [reflexivity|]. exfalso. apply (Hext y). left; reflexivity.
  - destruct m as [|y m]; [exfalso; apply (Hext x); left; reflexivity|].
    destruct Hl as [Hx Hl], Hm as [Hy Hm].
    assert (x = y).
    { destruct (proj1 (Hext x) (or_introl eq_refl)) as [->|Hxm]; [reflexivity|].
      destruct (proj2 (Hext y) (or_introl eq_refl)) as [->|Hyl]; [reflexivity|].
      exfalso. apply (vcmp_lt_irrefl x). eapply vcmp_trans; [apply Hx; exact Hyl | apply Hy; exact Hxm]. }
    subst y. f_equal. apply IH; try assumption.
    intros z; split; intros Hz.
    + destruct (proj1 (Hext z) (or_intror Hz)) as [<-|H]; [|exact H].
      exfalso; apply (vcmp_lt_irrefl x), Hx, Hz.
    + destruct (proj2 (Hext z) (or_intror Hz)) as [<-|H]; [|exact H].
      exfalso; apply (vcmp_lt_irrefl x), Hy, Hz.
Qed.

(* ---------- the operators ---------- *)

Theorem s_union_spec a b x : In x (s_union a b) <-> In x a \/ In x b.
Proof. unfold s_union. rewrite vsort_in, in_app_iff. reflexivity. Qed.
Theorem s_union_canon a b : ssorted (s_union a b).
Proof. apply vsort_sorted. Qed.

Theorem s_inter_spec a b x : In x (s_inter a b) <-> In x a /\ In x b.
Proof. unfold s_inter. rewrite filter_In, vmem_in. reflexivity. Qed.
Theorem s_inter_canon a b : ssorted a -> ssorted (s_inter a b).
Proof. apply filter_sorted. Qed.

Theorem s_diff_spec a b x : In x (s_diff a b) <-> In x a /\ ~ In x b.
Proof. unfold s_diff. rewrite filter_In, negb_true_iff, vmem_false. reflexivity. Qed.
Theorem s_diff_canon a b : ssorted a -> ssorted (s_diff a b).
Proof. apply filter_sorted. Qed.

Theorem s_symdiff_spec a b x :
  In x (s_symdiff a b) <-> (In x a /\ ~ In x b) \/ (In x b /\ ~ In x a).
Proof. unfold s_symdiff. rewrite vsort_in, in_app_iff, !s_diff_spec. reflexivity. Qed.
Theorem s_symdiff_canon a b : ssorted (s_symdiff a b).
Proof. apply vsort_sorted. Qed.

Theorem s_with_spec a v x : In x (s_with a v) <-> x = v \/ In x a.
Proof. apply vinsert_in. Qed.
Theorem s_with_canon a v : ssorted a -> ssorted (s_with a v).
Proof. apply vinsert_sorted. Qed.

Theorem s_without_spec a v x : In x (s_without a v) <-> In x a /\ x <> v.
Proof.
  unfold s_without. rewrite filter_In, negb_true_iff.
  split; intros [H1 H2]; split; try exact H1.
  - intros ->. rewrite (proj2 (veqb_eq v v) eq_refl) in H2. discriminate.
  - destruct (veqb x v) eqn:E; [|reflexivity]. apply veqb_eq in E. contradiction.
Qed.
Theorem s_without_canon a v : ssorted a -> ssorted (s_without a v).
Proof. apply filter_sorted. Qed.

Theorem s_subseteq_spec a b : s_subseteq a b = true <-> (forall x, In x a -> In x b).
Proof.
  unfold s_subseteq. rewrite forallb_forall. split; intros H x Hx; [apply vmem_in | apply vmem_in]; auto.
Qed.

Lemma forallb_false {A} (f : A -> bool) l :
  forallb f l = false -> exists y, In y l /\ f y = false.
Proof.
  induction l as [|x l IH]; simpl; [discriminate|].
  intros H. apply andb_false_iff in H as [H|H].
  - exists x; split; [left; reflexivity | exact H].
  - destruct (IH H) as (y & Hy & Hf). exists y; split; [right; exact Hy | exact Hf].
Qed.

Theorem s_subset_spec a b :
  s_subset a b = true <-> (forall x, In x a -> In x b) /\ exists y, In y b /\ ~ In y a.
Proof.
  unfold s_subset. rewrite andb_true_iff, negb_true_iff, s_subseteq_spec. split.
  - intros [H1 H2]. split; [exact H1|].
    apply forallb_false in H2 as (y & Hy & Hf). exists y; split; [exact Hy | apply vmem_false; exact Hf].
  - intros [H1 (y & Hy & Hny)]. split; [exact H1|].
    destruct (s_subseteq b a) eqn:E; [|reflexivity].
    exfalso. apply Hny. apply (proj1 (s_subseteq_spec b a) E). exact Hy.
Qed.

(* count = number of distinct members: a canonical member list has no duplicates *)
Theorem count_is_cardinality l : ssorted l -> NoDup l.
Proof. apply ssorted_nodup. Qed.

(* power set: exactly the canonical subsets *)
Lemma sublists_spec a : ssorted a ->
  forall l, In l (sublists a) <-> (ssorted l /\ forall x, In x l -> In x a).
Proof.
  induction a as [|x a IH]; intros Ha l.
  - simpl. split.
    + intros [<-|[]]. split; [exact I | intros x []].
    + intros [_ H]. left. destruct l as [|y l]; [reflexivity | exfalso; apply (H y); left; reflexivity].
  - destruct Ha as [Hx Ha]. simpl. rewrite in_app_iff, in_map_iff. split.
    + intros [(l' & <- & Hl') | Hl].
      * apply IH in Hl' as [Hs Hin]; [|exact Ha]. split.
        -- simpl; split; [intros y Hy; apply Hx, Hin, Hy | exact Hs].
        -- intros y [<-|Hy]; [left; reflexivity | right; apply Hin, Hy].
      * apply IH in Hl as [Hs Hin]; [|exact Ha]. split; [exact Hs | intros y Hy; right; apply Hin, Hy].
    + intros [Hs Hin]. destruct l as [|y l].
      * right. apply IH; [exact Ha|]. split; [exact I | intros z []].
      * destruct Hs as [Hy Hs]. destruct (Hin y (or_introl eq_refl)) as [<-|Hya].
        -- left. exists l. split; [reflexivity|]. apply IH; [exact Ha|]. split; [exact Hs|].
           intros z Hz. destruct (Hin z (or_intror Hz)) as [<-|H]; [|exact H].
           exfalso; apply (vcmp_lt_irrefl x), Hy, Hz.
        -- right. apply IH; [exact Ha|]. split; [split; assumption|].
           intros z [<-|Hz]; [exact Hya|].
           destruct (Hin z (or_intror Hz)) as [<-|H]; [|exact H].
           exfalso. apply (vcmp_lt_irrefl x). eapply vcmp_trans; [apply Hx; exact Hya | apply Hy; exact Hz].
Qed.

Theorem s_pow_spec a : ssorted a ->
  forall s, In s (s_pow a) <-> exists l, s = VSet l /\ ssorted l /\ forall x, In x l -> In x a.
Proof.
  intros Ha s. unfold s_pow. rewrite vsort_in, in_map_iff. split.
  - intros (l & <- & Hl). exists l. split; [reflexivity|]. apply sublists_spec; assumption.
  - intros (l & -> & Hl). exists l. split; [reflexivity|]. apply sublists_spec; assumption.
Qed.
Theorem s_pow_canon a : ssorted (s_pow a).
Proof. apply vsort_sorted. Qed.
