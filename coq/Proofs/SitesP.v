(* The crash-site inventory of the running code stays within the reviewed one (property C10). *)
From Coq Require Import List String ZArith Bool.
Import ListNotations.
From Arrai Require Import Gen.Sites Sys.SitesKnown.

Fixpoint lookup_site (k : string) (t : list (string * (nat * nat))) : option (nat * nat) :=
  match t with
  | [] => None
  | (k', v) :: t' => if String.eqb k k' then Some v else lookup_site k t'
  end.

(* every function that can panic or has an unchecked type assertion is known, with at
   least as many such sites in the reviewed snapshot *)
Definition site_ok (known : list (string * (nat * nat))) (s : string * (nat * nat)) : bool :=
  match lookup_site (fst s) known with
  | Some (p, a) => Nat.leb (fst (snd s)) p && Nat.leb (snd (snd s)) a
  | None => false
  end.

Definition sites_within (cur known : list (string * (nat * nat))) : bool := forallb (site_ok known) cur.

Theorem sites_within_spec cur known :
  sites_within cur known = true ->
  forall f p a, In (f, (p, a)) cur -> exists p' a', lookup_site f known = Some (p', a') /\ p <= p' /\ a <= a'.
Proof.
  unfold sites_within. rewrite forallb_forall. intros H f p a Hin.
  specialize (H _ Hin). unfold site_ok in H. simpl in H.
  destruct (lookup_site f known) as [[p' a']|]; [|discriminate].
  apply andb_true_iff in H as [H1 H2]. apply Nat.leb_le in H1, H2. eauto.
Qed.

(* re-checked by coqc on every run against the sources as they are now *)
Definition current_sites_known : sites_within current_sites known_sites = true := eq_refl.
