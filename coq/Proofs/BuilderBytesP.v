(* Byte arrays: the representation rel.NewSet builds is a function of the denotation (as for strings in
   Proofs/BuilderSeqP.v / BuilderAllP.v). *)
From Arrai Require Import Base.Val Spec.SetAlg Proofs.ValOrder Proofs.SetAlgP Proofs.CanonP Rep.Builder.
From Arrai Require Import Proofs.BuilderP Proofs.BuilderSeqP Proofs.BuilderDictP Proofs.BuilderAllP.

Theorem finish_bytes_function_of_members vs vs' :
  vs <> [] -> all_bytes vs -> all_bytes vs' ->
  (forall a c c', In (RTupByte a c) vs -> In (RTupByte a c') vs -> c = c') ->
  (forall m, In m vs <-> In m vs') ->
  finish_bytes vs = finish_bytes vs'.
Proof.
  intros Hne Hall Hall' Hcoll Hsame.
  destruct vs as [|v0 vs0]; [contradiction|]. destruct vs' as [|v0' vs0']; [exfalso; apply (proj1 (Hsame v0)); left; reflexivity|].
  set (vs := v0 :: vs0) in *. set (vs' := v0' :: vs0') in *.
  unfold finish_bytes, vs, vs'. cbv beta iota zeta. fold vs. fold vs'.
  set (lo := zmin_list (seq_at v0) (map seq_at vs)). set (hi := zmax_list (seq_at v0) (map seq_at vs)).
  set (lo' := zmin_list (seq_at v0') (map seq_at vs')). set (hi' := zmax_list (seq_at v0') (map seq_at vs')).
  assert (Hidx : forall z, In z (seq_at v0 :: map seq_at vs) <-> In z (seq_at v0' :: map seq_at vs')).
  { intros z. split; intros [<-|Hz].
    - right. apply in_map_iff. exists v0. split; [reflexivity|]. apply Hsame. left. reflexivity.
    - right. apply in_map_iff in Hz. destruct Hz as [m [<- Hm]]. apply in_map_iff. exists m. split; [reflexivity|apply Hsame; exact Hm].
    - right. apply in_map_iff. exists v0'. split; [reflexivity|]. apply Hsame. left. reflexivity.
    - right. apply in_map_iff in Hz. destruct Hz as [m [<- Hm]]. apply in_map_iff. exists m. split; [reflexivity|apply Hsame; exact Hm]. }
  assert (Hle : forall (d : Z) l z, In z (d :: l) -> zmin_list d l <= z <= zmax_list d l).
  { intros d l z [<-|Hz]; split; try apply (proj1 (zmin_list_le l d)); try apply (proj1 (zmax_list_ge l d));
      [apply (proj2 (zmin_list_le l d)); exact Hz|apply (proj2 (zmax_list_ge l d)); exact Hz]. }
  assert (Elo : lo = lo').
  { pose proof (proj1 (zminmax_list_in (map seq_at vs) (seq_at v0))) as H1. pose proof (proj1 (zminmax_list_in (map seq_at vs') (seq_at v0'))) as H2.
    fold lo in H1. fold lo' in H2. apply Hidx in H1. apply Hidx in H2.
    pose proof (proj1 (Hle _ _ _ H1)). pose proof (proj1 (Hle _ _ _ H2)). fold lo in H0. fold lo' in H. lia. }
  assert (Ehi : hi = hi').
  { pose proof (proj2 (zminmax_list_in (map seq_at vs) (seq_at v0))) as H1. pose proof (proj2 (zminmax_list_in (map seq_at vs') (seq_at v0'))) as H2.
    fold hi in H1. fold hi' in H2. apply Hidx in H1. apply Hidx in H2.
    pose proof (proj2 (Hle _ _ _ H1)). pose proof (proj2 (Hle _ _ _ H2)). fold hi in H0. fold hi' in H. lia. }
  rewrite <- Elo, <- Ehi. set (n := Z.to_nat (hi - lo + 1)).
  assert (Hb : forall a c, In (RTupByte a c) vs -> lo <= a <= hi).
  { intros a c Hin. apply (Hle (seq_at v0) (map seq_at vs)). right. apply in_map_iff. exists (RTupByte a c). split; [reflexivity|exact Hin]. }
  assert (Hr : in_range lo (length (repeat 0 n)) (byte_pairs vs)).
  { intros a c Hin. apply byte_pairs_in in Hin. rewrite repeat_length. pose proof (Hb a c Hin). unfold n. rewrite Z2Nat.id by lia. lia. }
  assert (Hr' : in_range lo (length (repeat 0 n)) (byte_pairs vs')).
  { intros a c Hin. apply byte_pairs_in in Hin. apply Hsame in Hin. apply byte_pairs_in in Hin. apply (Hr a c Hin). }
  rewrite !finish_bytes_cells. f_equal.
  apply nth_error_ext_eq. intros i.
  destruct (Nat.lt_ge_cases i n) as [Hi|Hi].
  - assert (Hi' : (i < length (repeat 0%Z n))%nat) by (rewrite repeat_length; exact Hi).
    destruct (written_dec lo (byte_pairs vs) i) as [Hw|Hno].
    + assert (Hw' : exists x, In (lo + Z.of_nat i, x) (byte_pairs vs')).
      { destruct Hw as [x Hx]. exists x. apply byte_pairs_in. apply Hsame. apply byte_pairs_in. exact Hx. }
      destruct (write_all_written lo _ _ i Hr Hi' Hw) as [c [Hin Hc]].
      destruct (write_all_written lo _ _ i Hr' Hi' Hw') as [c' [Hin' Hc']].
      rewrite Hc, Hc'. f_equal. apply (Hcoll (lo + Z.of_nat i) c c'); [apply byte_pairs_in; exact Hin|].
      apply Hsame. apply byte_pairs_in. exact Hin'.
    + assert (Hno' : forall x, ~ In (lo + Z.of_nat i, x) (byte_pairs vs')).
      { intros x Hx. apply (Hno x). apply byte_pairs_in. apply Hsame. apply byte_pairs_in. exact Hx. }
      rewrite (write_all_untouched lo _ _ i Hr Hno), (write_all_untouched lo _ _ i Hr' Hno'). reflexivity.
  - assert (E1 : nth_error (write_all lo (byte_pairs vs) (repeat 0 n)) i = None)
      by (apply nth_error_None; rewrite write_all_length, repeat_length; exact Hi).
    assert (E2 : nth_error (write_all lo (byte_pairs vs') (repeat 0 n)) i = None)
      by (apply nth_error_None; rewrite write_all_length, repeat_length; exact Hi).
    rewrite E1, E2. reflexivity.
Qed.

Lemma rep_equal_bytes_refl off bs : rep_equal (RBytes off bs) (RBytes off bs) = true.
Proof. cbn [rep_equal]. rewrite Z.eqb_refl, zlist_eq_refl. reflexivity. Qed.

(* two lists of byte tuples (one byte per index) with the same denotation are built to the very same Bytes{b, offset} *)
Theorem bytes_representation_function_of_denotation ms ms' :
  ms <> [] -> all_bytes ms -> all_bytes ms' ->
  (forall a c c', In (RTupByte a c) ms -> In (RTupByte a c') ms -> c = c') ->
  mkset (map abs ms) = mkset (map abs ms') ->
  build ms = build ms' /\ exists r, build ms = BOk r /\ build ms' = BOk r /\ rep_equal r r = true.
Proof.
  intros Hne Hall Hall' Hcoll Hden.
  assert (Hsame : forall m, In m ms <-> In m ms').
  { assert (G : forall l l', all_bytes l -> all_bytes l' ->
                  (forall x, In x (map abs l) -> In x (map abs l')) -> forall m, In m l -> In m l').
    { intros l l' Hl Hl' Hsub m Hm. destruct (Hl m Hm) as [a [c ->]].
      assert (Hx : In (abs (RTupByte a c)) (map abs l')) by (apply Hsub; apply in_map; exact Hm).
      apply in_map_iff in Hx. destruct Hx as [m' [E Hm']]. destruct (Hl' m' Hm') as [a' [c' ->]].
      cbn [abs] in E. unfold vpair, vint in E. inversion E; subst. exact Hm'. }
    intros m. split; apply G; try assumption; intros x Hx; apply (mkset_same_elems _ _ Hden); exact Hx. }
  assert (Hne' : ms' <> []).
  { destruct ms as [|m0 ms0]; [contradiction|]. intros E. subst ms'. apply (proj1 (Hsame m0)). left. reflexivity. }
  assert (Hb : forall l, all_bytes l -> forall m, In m l -> bucket_of m = BByte).
  { intros l Hl m Hm. destruct (Hl m Hm) as [a [c ->]]. reflexivity. }
  unfold build. rewrite (single_bucket ms BByte Hne (Hb ms Hall)), (single_bucket ms' BByte Hne' (Hb ms' Hall')).
  cbn [finish_bucket]. rewrite (finish_bytes_function_of_members ms ms' Hne Hall Hall' Hcoll Hsame).
  split; [reflexivity|]. exists (finish_bytes ms'). split; [reflexivity|]. split; [reflexivity|].
  unfold finish_bytes. destruct ms' as [|v0 vs0]; [contradiction|]. cbv beta iota zeta. apply rep_equal_bytes_refl.
Qed.
