(* The value relation under which source-level rewrites are inert (property C08), and the tools to walk the
   evaluator with it.  Two runs are compared: the left one at a given fuel, the right one at every large enough
   fuel ("eventually"), because a rewrite changes how much fuel a program needs. *)
From Arrai Require Import Base.Val Spec.SetAlg Eval.Interp Eval.Rewrite Proofs.FuelP.

(* ---------- eventually ---------- *)

Definition Ev (P : nat -> Prop) : Prop := exists M, forall m, (M <= m)%nat -> P m.

Lemma Ev_const (P : Prop) : P -> Ev (fun _ => P).
Proof. intros H. exists O. intros; exact H. Qed.

Lemma Ev_and P Q : Ev P -> Ev Q -> Ev (fun m => P m /\ Q m).
Proof.
  intros [M HM] [N HN]. exists (Nat.max M N). intros m Hm. split; [apply HM | apply HN]; lia.
Qed.

Lemma Ev_mono (P Q : nat -> Prop) : (forall m, P m -> Q m) -> Ev P -> Ev Q.
Proof. intros H [M HM]. exists M. intros m Hm. apply H, HM, Hm. Qed.

(* ---------- answers related through a relation on their contents ---------- *)

Definition rrel {A A'} (Q : A -> A' -> Prop) (r : res A) (r' : res A') : Prop :=
  match r, r' with
  | Ok a, Ok a' => Q a a'
  | Err, Err => True
  | Unspec, Unspec => True
  | _, _ => False
  end.

(* the left run has no answer yet, or it has one and the right run eventually has a related one *)
Definition Sim {A A'} (Q : A -> A' -> Prop) (r : res A) (c : nat -> res A') : Prop :=
  r = OutOfFuel \/ exists r', rrel Q r r' /\ Ev (fun m => c m = r').

Lemma S_const {A A'} (Q : A -> A' -> Prop) r r' : rrel Q r r' -> Sim Q r (fun _ => r').
Proof. intros H. right. exists r'. split; [exact H | apply Ev_const; reflexivity]. Qed.

Lemma S_ok {A A'} (Q : A -> A' -> Prop) a a' : Q a a' -> Sim Q (Ok a) (fun _ => Ok a').
Proof. intros H. apply S_const. exact H. Qed.

Lemma S_err {A A'} (Q : A -> A' -> Prop) : Sim Q Err (fun _ => Err).
Proof. apply S_const. exact I. Qed.

Lemma S_unspec {A A'} (Q : A -> A' -> Prop) : Sim Q Unspec (fun _ => Unspec).
Proof. apply S_const. exact I. Qed.

Lemma S_oof {A A'} (Q : A -> A' -> Prop) c : Sim Q OutOfFuel c.
Proof. left. reflexivity. Qed.

Lemma S_pure {A} (r : res A) : Sim eq r (fun _ => r).
Proof. destruct r; [apply S_ok; reflexivity | apply S_err | apply S_unspec | apply S_oof]. Qed.

(* a continuation that is strict in "no answer yet" *)
Lemma S_k {A A' B B'} (Q : A -> A' -> Prop) (P : B -> B' -> Prop) r c
      (k : res A -> res B) (k' : nat -> res A' -> res B') :
  Sim Q r c -> k OutOfFuel = OutOfFuel ->
  (forall r0 r0', rrel Q r0 r0' -> Sim P (k r0) (fun m => k' m r0')) ->
  Sim P (k r) (fun m => k' m (c m)).
Proof.
  intros [->|(r' & Hr & M & HM)] Hk Hf; [left; exact Hk|].
  destruct (Hf r r' Hr) as [E|(q' & Hq & M2 & HM2)]; [left; exact E|].
  right. exists q'. split; [exact Hq|]. exists (Nat.max M M2). intros m Hm.
  rewrite HM by lia. apply HM2. lia.
Qed.

Lemma S_bind {A A' B B'} (Q : A -> A' -> Prop) (P : B -> B' -> Prop) r c f (f' : nat -> A' -> res B') :
  Sim Q r c -> (forall a a', Q a a' -> Sim P (f a) (fun m => f' m a')) ->
  Sim P (rbind r f) (fun m => rbind (c m) (f' m)).
Proof.
  intros Hr Hf.
  apply (S_k Q P r c (fun r => rbind r f) (fun m r' => rbind r' (f' m))); [exact Hr | reflexivity|].
  intros r0 r0' H0. destruct r0, r0'; try destruct H0; cbn [rbind].
  - apply Hf, H0.
  - apply S_err.
  - apply S_unspec.
Qed.

Lemma S_weaken {A A'} (Q Q' : A -> A' -> Prop) r c : (forall a a', Q a a' -> Q' a a') -> Sim Q r c -> Sim Q' r c.
Proof.
  intros H [E|(r' & Hr & HE)]; [left; exact E|]. right. exists r'. split; [|exact HE].
  destruct r, r'; try exact Hr. apply H, Hr.
Qed.

Lemma S_ext {A A'} (Q : A -> A' -> Prop) r c c' : (forall m, c m = c' m) -> Sim Q r c -> Sim Q r c'.
Proof.
  intros H [E|(r' & Hr & HE)]; [left; exact E|]. right. exists r'. split; [exact Hr|].
  eapply Ev_mono; [|exact HE]. intros m Hm. rewrite <- H. exact Hm.
Qed.

(* the right run may be looked at one level of fuel deeper *)
Lemma S_shift {A A'} (Q : A -> A' -> Prop) r (c : nat -> res A') : Sim Q r (fun m => c (S m)) -> Sim Q r c.
Proof.
  intros [E|(r' & Hr & M & HM)]; [left; exact E|]. right. exists r'. split; [exact Hr|].
  exists (S M). intros m Hm. destruct m as [|m]; [lia|]. apply HM. lia.
Qed.

Lemma S_mapM {A A' B B'} (QA : A -> A' -> Prop) (QB : B -> B' -> Prop) f (f' : nat -> A' -> res B') l l' :
  Forall2 QA l l' -> (forall x x', QA x x' -> Sim QB (f x) (fun m => f' m x')) ->
  Sim (Forall2 QB) (mapM f l) (fun m => mapM (f' m) l').
Proof.
  intros Hl Hf. induction Hl as [|x x' l l' Hx Hl IH]; cbn [mapM]; [apply S_ok; constructor|].
  apply S_bind with (Q := QB); [apply Hf, Hx|]. intros y y' Hy.
  apply S_bind with (Q := Forall2 QB); [exact IH|]. intros r r' Hr. apply S_ok. constructor; assumption.
Qed.

Lemma Forall2_eq {A} (l l' : list A) : Forall2 eq l l' -> l = l'.
Proof. induction 1; congruence. Qed.

Lemma Forall2_refl {A} (Q : A -> A -> Prop) l : (forall x, Q x x) -> Forall2 Q l l.
Proof. intros H. induction l; constructor; auto. Qed.

(* mapM over one list of data, with related element functions *)
Lemma S_mapM_same {A B B'} (QB : B -> B' -> Prop) f (f' : nat -> A -> res B') (l : list A) :
  (forall x, In x l -> Sim QB (f x) (fun m => f' m x)) ->
  Sim (Forall2 QB) (mapM f l) (fun m => mapM (f' m) l).
Proof.
  intros Hf. induction l as [|x l IH]; cbn [mapM]; [apply S_ok; constructor|].
  apply S_bind with (Q := QB); [apply Hf; left; reflexivity|]. intros y y' Hy.
  apply S_bind with (Q := Forall2 QB); [apply IH; intros z Hz; apply Hf; right; exact Hz|].
  intros r r' Hr. apply S_ok. constructor; assumption.
Qed.

(* ---------- the relations of Eval/Rewrite.v ---------- *)

Section Rel.
Variable R : expr -> expr -> Prop.

Lemma erel_app a a' b b' : erel R a a' -> erel R b b' -> erel R (a ++ b) (a' ++ b').
Proof. induction 1; intros Hb; cbn [app]; [exact Hb | constructor; auto]. Qed.

Lemma erel_get x rho rho' : erel R rho rho' ->
  match env_get x rho, env_get x rho' with
  | Some v, Some v' => vrel R v v'
  | None, None => True
  | _, _ => False
  end.
Proof.
  induction 1 as [|y v v' r r' Hv Hr IH]; cbn [env_get]; [exact I|].
  destruct (name_eqb x y); [exact Hv | exact IH].
Qed.

Lemma as_data_rel v v' : vrel R v v' -> Sim eq (as_data v) (fun _ => as_data v').
Proof. intros H. destruct H; cbn [as_data]; [apply S_ok; reflexivity | apply S_unspec]. Qed.

Lemma env_matched_update_rel t t' : erel R t t' -> forall s s', erel R s s' ->
  match env_matched_update s t, env_matched_update s' t' with
  | Some r, Some r' => erel R r r'
  | None, None => True
  | _, _ => False
  end.
Proof.
  induction 1 as [|x v v' t t' Hv Ht IH]; intros s s' Hs; cbn [env_matched_update]; [exact Hs|].
  pose proof (erel_get x s s' Hs) as Hg.
  destruct (env_get x s) as [w|], (env_get x s') as [w'|]; try contradiction.
  - destruct Hg as [d|]; destruct Hv as [d2|]; try exact I.
    destruct (veqb d d2); [apply IH, Hs | exact I].
  - apply IH. constructor; assumption.
Qed.

Lemma S_matched_update acc acc' sc sc' : erel R acc acc' -> erel R sc sc' ->
  Sim (erel R) (match env_matched_update acc sc with Some r => Ok r | None => Err end)
             (fun _ => match env_matched_update acc' sc' with Some r => Ok r | None => Err end).
Proof.
  intros Ha Hs. pose proof (env_matched_update_rel sc sc' Hs acc acc' Ha) as H.
  destruct (env_matched_update acc sc), (env_matched_update acc' sc'); try contradiction;
    [apply S_ok, H | apply S_err].
Qed.

(* ---------- every form is related to itself ---------- *)

Fixpoint cstep_refl (e : expr) : cstep R e e
with prel_refl (p : pat) : prel R p p
with irel_refl (i : pitem) : irel R i i.
Proof.
  - assert (CR : forall x, crel R x x) by (intros x; apply CStep, cstep_refl).
    destruct e; constructor; try apply CR; try apply prel_refl.
    + induction l; constructor; [apply CStep, cstep_refl | assumption].
    + induction l as [|[n x] l IH]; constructor; [apply CStep, cstep_refl | assumption].
    + induction l as [|[x|] l IH]; constructor; try assumption; constructor. apply CStep, cstep_refl.
    + induction l as [|[a b] l IH]; constructor; try assumption; apply CStep, cstep_refl.
    + induction arms as [|[a b] l IH]; constructor; try assumption; apply CStep, cstep_refl.
    + destruct dflt; constructor. apply CStep, cstep_refl.
    + induction arms as [|[a b] l IH]; constructor; try assumption; [apply prel_refl | apply CStep, cstep_refl].
  - destruct p; constructor.
    + apply CStep, cstep_refl.
    + induction items; constructor; [apply irel_refl | assumption].
    + induction attrs as [|[n i] l IH]; constructor; [apply irel_refl | assumption].
    + induction entries as [|[k i] l IH]; constructor; [apply CStep, cstep_refl | apply irel_refl | assumption].
    + induction items; constructor; [apply irel_refl | assumption].
    + induction es; constructor; [apply CStep, cstep_refl | assumption].
  - destruct i; constructor; [apply prel_refl|].
    destruct fallback; constructor. apply CStep, cstep_refl.
Qed.

Lemma crel_refl e : crel R e e.
Proof. apply CStep, cstep_refl. Qed.

Lemma vrel_refl_data d : vrel R (D d) (D d).
Proof. constructor. Qed.

(* the custom list relations, as Forall2 *)
Lemma crel_list_F2 l l' : crel_list R l l' -> Forall2 (crel R) l l'.
Proof. induction 1; constructor; assumption. Qed.
Lemma crel_attrs_F2 l l' : crel_attrs R l l' -> Forall2 (fun p p' => fst p = fst p' /\ crel R (snd p) (snd p')) l l'.
Proof. induction 1; constructor; [split; [reflexivity | assumption] | assumption]. Qed.
Lemma crel_opts_F2 l l' : crel_opts R l l' -> Forall2 (crel_opt R) l l'.
Proof. induction 1; constructor; assumption. Qed.
Lemma crel_pairs_F2 l l' : crel_pairs R l l' ->
  Forall2 (fun p p' => crel R (fst p) (fst p') /\ crel R (snd p) (snd p')) l l'.
Proof. induction 1; constructor; [split; assumption | assumption]. Qed.

End Rel.
