(* Joins and nest in the reference semantics are the relational definitions (property C04). *)
From Arrai Require Import Base.Val Spec.SetAlg Eval.Interp Proofs.ValOrder Proofs.SetAlgP.

Lemma heading_all_tuples l h : heading l = Some h -> forall m, In m l -> exists t, m = VTup t.
Proof.
  unfold heading. destruct l as [|[n|t|s] r]; try discriminate.
  destruct (forallb _ r) eqn:E; [|discriminate]. intros _ m [<-|Hm]; [eauto|].
  rewrite forallb_forall in E. specialize (E m Hm). destruct m; try discriminate. eauto.
Qed.

Lemma in_flat_map_iff {A B} (f : A -> list B) l y : In y (flat_map f l) <-> exists x, In x l /\ In y (f x).
Proof. apply in_flat_map. Qed.

Lemma join_data_nonempty op a b :
  a <> [] -> b <> [] ->
  join_data op a b =
  match heading a, heading b with
  | Some ha, Some hb =>
      let common := filter (fun n => name_in n hb) ha in
      Ok (mkset (flat_map (fun t => match t with
                                    | VTup t1 => flat_map (fun u => match u with
                                                                    | VTup u1 => if agree common t1 u1 then [jcombine op common t1 u1] else []
                                                                    | _ => []
                                                                    end) b
                                    | _ => []
                                    end) a))
  | _, _ => Err
  end.
Proof. destruct a; [congruence|]. destruct b; [congruence|]. reflexivity. Qed.

(* A op B = { combine(t, u) | t in A, u in B, t and u agree on every common attribute } *)
Theorem join_is_comprehension op a b ha hb r :
  a <> [] -> b <> [] -> heading a = Some ha -> heading b = Some hb ->
  join_data op a b = Ok r ->
  let common := filter (fun n => name_in n hb) ha in
  exists l, r = VSet l /\ ssorted l /\
    forall x, In x l <->
      exists t u, In (VTup t) a /\ In (VTup u) b /\ agree common t u = true /\ x = jcombine op common t u.
Proof.
  intros Ha Hb Hha Hhb. rewrite join_data_nonempty by assumption. rewrite Hha, Hhb.
  intros H. injection H as <-. cbv zeta. unfold mkset.
  eexists; split; [reflexivity|]. split; [apply vsort_sorted|].
  intros x. rewrite vsort_in. rewrite in_flat_map. split.
  - intros (m & Hm & Hx). destruct m as [|t|]; try contradiction.
    apply in_flat_map in Hx as (m' & Hm' & Hx). destruct m' as [|u|]; try contradiction.
    destruct (agree _ t u) eqn:E; [|contradiction]. destruct Hx as [<-|[]].
    exists t, u. repeat split; assumption.
  - intros (t & u & Ht & Hu & Hag & ->). exists (VTup t). split; [exact Ht|].
    apply in_flat_map. exists (VTup u). split; [exact Hu|]. rewrite Hag. left; reflexivity.
Qed.

(* an empty operand gives the empty relation *)
Theorem join_empty op a : join_data op [] a = Ok (VSet []) /\ join_data op a [] = Ok (VSet []).
Proof. split; [reflexivity | destruct a; reflexivity]. Qed.

(* agreement on the common attributes means equal values there *)
Theorem agree_spec common t u :
  agree common t u = true <->
  forall n, In n common -> exists x, tget n t = Some x /\ tget n u = Some x.
Proof.
  unfold agree. rewrite forallb_forall. split.
  - intros H n Hn. specialize (H n Hn).
    destruct (tget n t) as [x|]; [|discriminate]. destruct (tget n u) as [y|]; [|discriminate].
    apply veqb_eq in H; subst y. eauto.
  - intros H n Hn. destruct (H n Hn) as (x & -> & ->). apply veqb_eq; reflexivity.
Qed.

(* nest loses and invents no row: the result rows are exactly one per source row
   (equal rows coincide), each carrying its key and the group of all rows with that key *)
Theorem nest_rows names n a h r :
  a <> [] -> heading a = Some h ->
  forallb (fun x => name_in x h) names = true ->
  name_in n (filter (fun x => negb (name_in x names)) h) = false ->
  nest_data names n a = Ok r ->
  exists l, r = VSet l /\ ssorted l /\
    forall row, In row l <->
      exists t, In (VTup t) a /\
        row = build_tuple (tproject (fun x => negb (name_in x names)) t ++
               [(n, mkset (flat_map (fun m' => match m' with
                                               | VTup t' => if veqb (VTup (tproject (fun x => negb (name_in x names)) t'))
                                                                    (VTup (tproject (fun x => negb (name_in x names)) t))
                                                            then [VTup (tproject (fun x => name_in x names) t')] else []
                                               | _ => []
                                               end) a))]).
Proof.
  intros Ha Hh Hnames Hn.
  assert (E : nest_data names n a =
              match heading a with
              | Some h0 =>
                  if negb (forallb (fun x => name_in x h0) names) then Unspec
                  else if name_in n (filter (fun x => negb (name_in x names)) h0) then Unspec
                  else
                  let key := fun t => tproject (fun x => negb (name_in x names)) t in
                  let grp := fun t => tproject (fun x => name_in x names) t in
                  Ok (mkset (map (fun m => match m with
                                           | VTup t =>
                                               build_tuple (key t ++
                                                 [(n, mkset (flat_map (fun m' => match m' with
                                                                                 | VTup t' => if veqb (VTup (key t')) (VTup (key t)) then [VTup (grp t')] else []
                                                                                 | _ => []
                                                                                 end) a))])
                                           | x => x
                                           end) a))
              | None => Err
              end) by (destruct a; [congruence | reflexivity]).
  rewrite E, Hh, Hnames, Hn. cbn [negb]. intros H. injection H as <-. cbv zeta. unfold mkset at 1.
  eexists; split; [reflexivity|]. split; [apply vsort_sorted|].
  intros row. rewrite vsort_in, in_map_iff. split.
  - intros (m & <- & Hm). destruct (heading_all_tuples _ _ Hh m Hm) as (t & ->).
    exists t. split; [exact Hm | reflexivity].
  - intros (t & Ht & ->). exists (VTup t). split; [reflexivity | exact Ht].
Qed.

(* the operators of the expression language are these functions, for every operand expression, scope and fuel *)
Theorem join_operator_is_join_data fuel rho op a b la lb :
  eval fuel rho a = Ok (D (VSet la)) -> eval fuel rho b = Ok (D (VSet lb)) ->
  eval (S fuel) rho (EJoin op a b) = (do r <- join_data op la lb; Ok (D r)).
Proof. intros Ha Hb. cbn [eval evalF]. rewrite Ha, Hb. reflexivity. Qed.

Theorem nest_operator_is_nest_data fuel rho names n a l :
  eval fuel rho a = Ok (D (VSet l)) ->
  eval (S fuel) rho (ENest false names n a) = (do r <- nest_data names n l; Ok (D r)).
Proof. intros Ha. cbn [eval evalF]. rewrite Ha. reflexivity. Qed.

Theorem single_nest_operator_is_single_nest_data fuel rho n a l :
  eval fuel rho a = Ok (D (VSet l)) ->
  eval (S fuel) rho (ESingleNest n a) = (do r <- single_nest_data n l; Ok (D r)).
Proof. intros Ha. cbn [eval evalF]. rewrite Ha. reflexivity. Qed.
