(* nest over a Relation in any stored column order computes the specification nest (property C04). *)
From Arrai Require Import Base.Val Spec.SetAlg Eval.Interp Proofs.ValOrder Proofs.SetAlgP Proofs.KeyedP Proofs.CanonP
  Proofs.RelP Proofs.PermP Proofs.PatternP Rep.RelJoin Proofs.RelJoinP Rep.GenJoin Proofs.GenJoinP Rep.RelNest.

Lemma mkset_ext l l' : (forall y, In y l <-> In y l') -> mkset l = mkset l'.
Proof.
  intros H. unfold mkset. f_equal. apply ssorted_ext; [apply vsort_sorted | apply vsort_sorted|].
  intros y. rewrite !vsort_in. apply H.
Qed.

Lemma acc_keys (key : val -> val) s : forall m k,
  In k (map fst (fold_left (fun m v => sl_add (key v) v false m) s m)) <-> In k (map fst m) \/ exists v, In v s /\ key v = k.
Proof.
  induction s as [|v s IH]; intros m k; cbn [fold_left].
  - split; [auto | intros [H|(v & [] & _)]; exact H].
  - rewrite IH, sl_add_keys. split.
    + intros [[H|H]|(w & H1 & H2)]; [left; exact H | right; exists v; split; [left; reflexivity | congruence] | right; exists w; split; [right; exact H1 | exact H2]].
    + intros [H|(w & [<-|H1] & H2)]; [left; left; exact H | left; right; congruence | right; exists w; split; assumption].
Qed.

Section ReduceP.
  Variables (keyp : name -> bool) (c : list (name * val) -> list val) (n : name) (tuples : list val).
  Hypothesis Htup : forall m, In m tuples -> exists t, m = VTup t.

  Definition spec_row (a : list val) (m : val) : val :=
    match m with
    | VTup t => build_tuple (tproject keyp t ++
                  [(n, mkset (flat_map (fun m' => match m' with
                                                  | VTup t' => if veqb (VTup (tproject keyp t')) (VTup (tproject keyp t)) then c t' else []
                                                  | _ => []
                                                  end) a))])
    | x => x
    end.

  Lemma reduce_rows_spec : VSet (reduce_rows keyp c n tuples) = mkset (map (spec_row (vsort tuples)) (vsort tuples)).
  Proof.
    unfold reduce_rows. set (m := fold_left (fun m v => sl_add (keyv keyp v) v false m) tuples []).
    assert (Hnd : NoDup (map fst m)) by (apply acc_nodup; constructor).
    assert (Hfst : forall k x, In x (fst (sl_entry k m)) <-> In x tuples /\ keyv keyp x = k).
    { intros k x. unfold m. rewrite (proj1 (acc_entry (keyv keyp) tuples false k [] x)).
      cbn [sl_entry sl_get fst In]. intuition congruence. }
    (* the reduced bucket of the key of t is the specification's row for t *)
    assert (G : forall k s sb t, In (k, (s, sb)) m -> In (VTup t) tuples -> keyv keyp (VTup t) = k ->
                reduce1 c n k s = spec_row (vsort tuples) (VTup t)).
    { intros k s sb t He Ht Hk. cbn [keyv] in Hk. subst k. cbn [reduce1 spec_row]. do 4 f_equal.
      apply mkset_ext. intros y. rewrite !in_flat_map.
      assert (Ee : sl_entry (VTup (tproject keyp t)) m = (s, sb)) by (unfold sl_entry; rewrite (in_sl_get _ _ _ Hnd He); reflexivity).
      split.
      - intros (v & Hv & Hy). assert (Hv' : In v (fst (sl_entry (VTup (tproject keyp t)) m))) by (rewrite Ee; exact Hv).
        apply Hfst in Hv' as [Hv1 Hv2]. destruct (Htup v Hv1) as (t' & ->). cbn [keyv] in Hv2.
        exists (VTup t'). split; [apply vsort_in; exact Hv1|]. rewrite Hv2, (proj2 (veqb_eq _ _) eq_refl). exact Hy.
      - intros (v & Hv & Hy). apply (proj1 (vsort_in _ _)) in Hv. destruct (Htup v Hv) as (t' & ->).
        destruct (veqb (VTup (tproject keyp t')) (VTup (tproject keyp t))) eqn:E; [|destruct Hy]. apply veqb_eq in E.
        exists (VTup t'). split; [|exact Hy].
        assert (Hv' : In (VTup t') (fst (sl_entry (VTup (tproject keyp t)) m))) by (apply Hfst; split; [exact Hv | exact E]).
        rewrite Ee in Hv'. exact Hv'. }
    unfold mkset. f_equal. apply ssorted_ext; [apply fold_union_sorted; exact I | apply vsort_sorted|].
    intros x. rewrite fold_union_in, vsort_in, in_map_iff. cbn [In]. split.
    - intros [[]|(part & Hpart & Hx)]. apply in_map_iff in Hpart as ([k [s sb]] & <- & He). cbn [fst snd] in Hx. destruct Hx as [<-|[]].
      assert (Hk : In k (map fst m)) by (apply (in_map fst) in He; exact He).
      unfold m in Hk. apply acc_keys in Hk as [[]|(v & Hv & Hkv)]. destruct (Htup v Hv) as (t & ->).
      exists (VTup t). split; [symmetry; apply (G k s sb t He Hv Hkv) | apply vsort_in; exact Hv].
    - intros (v & <- & Hv). apply (proj1 (vsort_in _ _)) in Hv. destruct (Htup v Hv) as (t & ->). right.
      set (k := keyv keyp (VTup t)).
      assert (Hin : In (VTup t) (fst (sl_entry k m))) by (apply Hfst; split; [exact Hv | reflexivity]).
      destruct (sl_get k m) as [[s sb]|] eqn:Eg; [|unfold sl_entry in Hin; rewrite Eg in Hin; destruct Hin].
      pose proof (sl_get_in _ _ _ Eg) as He.
      exists [reduce1 c n k s]. split; [apply in_map_iff; exists (k, (s, sb)); split; [reflexivity | exact He]|].
      left. apply (G k s sb t He Hv eq_refl).
  Qed.
End ReduceP.

Lemma flat_map_ext_in {A B} (f g : A -> list B) l : (forall x, In x l -> f x = g x) -> flat_map f l = flat_map g l.
Proof.
  induction l as [|x l IH]; intros H; [reflexivity|]. cbn [flat_map].
  rewrite (H x (or_introl eq_refl)), IH; [reflexivity | intros y Hy; apply H; right; exact Hy].
Qed.

Lemma nest_data_nonempty names n a : a <> [] ->
  nest_data names n a =
  match heading a with
  | Some h => if negb (forallb (fun x => name_in x h) names) then Unspec
              else if name_in n (filter (fun x => negb (name_in x names)) h) then Unspec
              else Ok (mkset (map (spec_row (fun x => negb (name_in x names)) (fun t => [VTup (tproject (fun x => name_in x names) t)]) n a) a))
  | None => Err
  end.
Proof. destruct a; [congruence | reflexivity]. Qed.

Lemma single_nest_data_nonempty n a : a <> [] ->
  single_nest_data n a =
  match heading a with
  | Some h => if negb (name_in n h) then Unspec
              else Ok (mkset (map (spec_row (fun x => negb (name_eqb x n)) (fun t => match tget n t with Some x => [x] | None => [] end) n a) a))
  | None => Err
  end.
Proof. destruct a; [congruence | reflexivity]. Qed.

Lemma nest_with_spec c names n r (keyp' : name -> bool) :
  wf_rel r -> ns_isSubset names (r_attrs r) = true -> name_in n (ns_minus (r_attrs r) names) = false ->
  (forall x, In x (r_attrs r) -> name_in x (ns_minus (r_attrs r) names) = keyp' x) ->
  nest_with c names n r = NOk (mkset (map (spec_row keyp' c n (abs r)) (abs r))).
Proof.
  intros Hwf Hsub Hn Hk. pose proof Hwf as (_ & Hlen & _). unfold nest_with. rewrite Hsub, Hn. cbn [negb]. f_equal.
  rewrite (reduce_rows_spec (fun x => name_in x (ns_minus (r_attrs r) names)) c n (rel_tuples r)).
  2:{ intros m Hm. unfold rel_tuples in Hm. apply in_map_iff in Hm as (v & <- & _).
      destruct (row_tuple_names (r_attrs r) (r_p r) v Hlen) as (t & E & _). exists t. exact E. }
  change (vsort (rel_tuples r)) with (abs r). f_equal.
  assert (Hproj : forall t, In (VTup t) (abs r) ->
            tproject (fun x => name_in x (ns_minus (r_attrs r) names)) t = tproject keyp' t).
  { intros t Ht. apply abs_in in Ht as (v & _ & E).
    destruct (row_tuple_names (r_attrs r) (r_p r) v Hlen) as (t0 & E0 & Hnames & _).
    assert (t = t0) by congruence. subst t0. unfold tproject. apply filter_ext_in. intros [x w] Hx. cbn [fst].
    apply Hk. apply nsort_in. rewrite <- Hnames. apply (in_map fst) in Hx. exact Hx. }
  apply map_ext_in. intros m Hm. destruct m as [| t |]; try reflexivity. cbn [spec_row].
  rewrite (Hproj t Hm). do 4 f_equal. apply (f_equal mkset). apply flat_map_ext_in. intros m' Hm'. destruct m' as [| t' |]; try reflexivity.
  rewrite (Hproj t' Hm'). reflexivity.
Qed.

(* how a nest outcome of the implementation reads in the specification: the validNestOp panic and the
   Merge clash are the two Unspec regions *)
Definition nest_view (x : res val) (o : nres) : Prop :=
  match x, o with
  | Ok v, NOk w => v = w
  | Unspec, NPanic | Unspec, NClash => True
  | _, _ => False
  end.

Lemma forallb_name_in_nsort names attrs : forallb (fun x => name_in x (nsort attrs)) names = ns_isSubset names attrs.
Proof.
  unfold ns_isSubset. induction names as [|x names IH]; [reflexivity|]. cbn [forallb].
  rewrite IH, (name_in_ext x (nsort attrs) attrs (fun y => nsort_in y attrs)). reflexivity.
Qed.

Theorem nest_refines_spec names n r : wf_rel r ->
  nest_view (nest_data names n (abs r)) (nest_rel names n r)
  /\ (nest_rel names n r = NPanic <-> ~ incl names (r_attrs r)).
Proof.
  intros Hwf. pose proof Hwf as (_ & _ & _ & _ & _ & _ & Hne).
  rewrite (nest_data_nonempty names n (abs r) (abs_nonempty r Hne)), (abs_heading r Hwf), forallb_name_in_nsort.
  assert (E2 : name_in n (filter (fun x => negb (name_in x names)) (nsort (r_attrs r))) = name_in n (ns_minus (r_attrs r) names)).
  { unfold ns_minus. rewrite !name_in_filter, (name_in_ext n (nsort (r_attrs r)) (r_attrs r) (fun y => nsort_in y _)). reflexivity. }
  rewrite E2. unfold nest_rel.
  destruct (ns_isSubset names (r_attrs r)) eqn:Hsub; cbn [negb].
  - destruct (name_in n (ns_minus (r_attrs r) names)) eqn:Hn.
    + unfold nest_with. rewrite Hsub, Hn. cbn [negb nest_view]. split; [exact I|].
      split; [discriminate | intros H; exfalso; apply H, ns_isSubset_spec, Hsub].
    + rewrite (nest_with_spec _ names n r (fun x => negb (name_in x names)) Hwf Hsub Hn).
      * cbn [nest_view]. split; [reflexivity|]. split; [discriminate | intros H; exfalso; apply H, ns_isSubset_spec, Hsub].
      * intros x Hx. unfold ns_minus. rewrite name_in_filter. apply name_in_iff in Hx. rewrite Hx. reflexivity.
  - unfold nest_with. rewrite Hsub. cbn [negb nest_view]. split; [exact I|].
    split; [intros _ H; apply ns_isSubset_spec in H; congruence | reflexivity].
Qed.

Theorem single_nest_refines_spec n r : wf_rel r ->
  nest_view (single_nest_data n (abs r)) (single_nest_rel n r)
  /\ (single_nest_rel n r = NPanic <-> ~ In n (r_attrs r)).
Proof.
  intros Hwf. pose proof Hwf as (_ & _ & _ & _ & _ & _ & Hne).
  rewrite (single_nest_data_nonempty n (abs r) (abs_nonempty r Hne)), (abs_heading r Hwf).
  rewrite (name_in_ext n (nsort (r_attrs r)) (r_attrs r) (fun y => nsort_in y _)).
  assert (Hsub : ns_isSubset [n] (r_attrs r) = name_in n (r_attrs r)) by (unfold ns_isSubset; cbn [forallb]; apply andb_true_r).
  assert (Hn : name_in n (ns_minus (r_attrs r) [n]) = false).
  { unfold ns_minus. rewrite name_in_filter. unfold name_in at 2. cbn [existsb]. rewrite name_eqb_refl. cbn. apply andb_false_r. }
  unfold single_nest_rel. destruct (name_in n (r_attrs r)) eqn:Hin; cbn [negb].
  - rewrite (nest_with_spec _ [n] n r (fun x => negb (name_eqb x n)) Hwf); [| rewrite Hsub; reflexivity | exact Hn |].
    + cbn [nest_view]. split; [reflexivity|]. split; [discriminate | intros H; exfalso; apply H, name_in_iff, Hin].
    + intros x Hx. unfold ns_minus. rewrite name_in_filter. apply name_in_iff in Hx. rewrite Hx.
      unfold name_in. cbn [existsb]. rewrite orb_false_r. reflexivity.
  - unfold nest_with. rewrite Hsub. cbn [negb nest_view]. split; [exact I|].
    split; [intros _ H; apply name_in_iff in H; congruence | reflexivity].
Qed.
