(* Array.Without (incl. NewOffsetArray and its two trimming loops) never panics and re-establishes the
   representation invariant: proofs about Rep/SeqSafe.v, continuing Proofs/SeqSafeP.v. *)
From Coq Require Import List ZArith Bool Lia ZifyBool.
From Arrai Require Import Rep.SeqSafe Proofs.SeqSafeP.
Import ListNotations.
Open Scope Z_scope.

Section A.
Variable max_alloc : Z.
Variable V : Type.
Variable veq : V -> V -> bool.
Hypothesis Hmax : 0 < max_alloc <= 281474976710656.

Notation arr := (arr V).
Notation cells := (list (option V)).

Definition has_some (l : cells) : Prop := exists x, In (Some x) l.

Lemma hd_some_in (l : cells) : hd_some V l = true -> has_some l.
Proof. destruct l as [|[x|] t]; simpl; try discriminate. intros _. exists x. now left. Qed.

Lemma hd_rev_in (l : cells) : hd_some V (rev l) = true -> has_some l.
Proof. intros H. destruct (hd_some_in _ H) as [x Hx]. exists x. now apply in_rev. Qed.

(* the trimming loops *)
Lemma first_some_spec (l : cells) : forall i0,
  match first_some V l i0 with
  | Some i => exists k, i = i0 + Z.of_nat k /\ (k < length l)%nat /\ hd_some V (skipn k l) = true
  | None => ~ has_some l
  end.
Proof.
  induction l as [|[x|] t IH]; intros i0; simpl.
  - intros [x []].
  - exists O. repeat split; simpl; lia.
  - specialize (IH (i0 + 1)). destruct (first_some V t (i0 + 1)).
    + destruct IH as [k [E [L H]]]. exists (S k). repeat split; simpl; auto; lia.
    + intros [x [Hx | Hx]]; [discriminate|]. apply IH. now exists x.
Qed.

Lemma last_some_spec (l : cells) : forall i0 acc,
  match last_some V l i0 acc with
  | Some i => acc = Some i \/ exists k x, i = i0 + Z.of_nat k /\ nth_error l k = Some (Some x)
  | None => acc = None /\ ~ has_some l
  end.
Proof.
  induction l as [|[x|] t IH]; intros i0 acc; simpl.
  - destruct acc; [now left|]. split; auto. intros [x []].
  - specialize (IH (i0 + 1) (Some i0)). destruct (last_some V t (i0 + 1) (Some i0)).
    + right. destruct IH as [E | [k [y [E N]]]].
      * exists O, x. split; simpl; auto. inversion E. lia.
      * exists (S k), y. split; simpl; auto. lia.
    + destruct IH as [E _]. discriminate.
  - specialize (IH (i0 + 1) acc). destruct (last_some V t (i0 + 1) acc).
    + destruct IH as [E | [k [y [E N]]]]; [now left|]. right. exists (S k), y. split; simpl; auto. lia.
    + destruct IH as [E H]. split; auto. intros [x [Hx | Hx]]; [discriminate|]. apply H. now exists x.
Qed.

Lemma firstn_S_nth (l : cells) k c : nth_error l k = Some c -> firstn (S k) l = firstn k l ++ [c].
Proof.
  revert k; induction l as [|y t IH]; intros [|k] H; simpl in *; try discriminate.
  - now inversion H.
  - f_equal. now apply IH.
Qed.

Lemma hd_firstn (l : cells) k : hd_some V (firstn (S k) l) = hd_some V l.
Proof. destruct l; reflexivity. Qed.

Lemma nth_len (l : cells) k c : nth_error l k = Some c -> (k < length l)%nat.
Proof. intros H. apply nth_error_Some. congruence. Qed.

(* NewOffsetArray on cells that are empty or hold at least one item *)
Lemma new_offset_array_inv (off : Z) (vs : cells) :
  min_int <= off <= max_int -> len vs <= max_alloc -> (vs = [] \/ has_some vs) ->
  exists r, new_offset_array V off vs = Val r /\ inv max_alloc V r.
Proof.
  intros Ho Hl [-> | Hs].
  - exists (RNone). split; [reflexivity | exact I].
  - unfold new_offset_array, trim_lead.
    pose proof (first_some_spec vs 0) as F. destruct (first_some V vs 0) as [i|]; [|contradiction].
    destruct F as [k [Ei [Lk Hk]]].
    assert (Hlen : Z.of_nat k < len vs) by (unfold len; lia).
    (* after the first loop: offset off1, cells skipn k vs *)
    assert (E1 : exists off1, min_int <= off1 <= max_int /\
              (if 0 <? i then v' <- slice vs i (len vs);; Val (iadd off i, v') else Val (off, vs)) = Val (off1, skipn k vs)).
    { destruct (0 <? i) eqn:Ep.
      - rewrite slice_in by lia. cbn [bind].
        exists (iadd off i). split; [unfold iadd; destruct (wrap_spec (off + i)) as [? [? ?]]; lia|].
        replace (Z.to_nat i) with k by lia.
        rewrite firstn_all2; [reflexivity|]. rewrite skipn_length. unfold len. lia.
      - exists off. split; auto. replace k with O by lia. reflexivity. }
    destruct E1 as [off1 [Ho1 E1]]. rewrite E1. cbn [bind].
    set (v1 := skipn k vs) in *.
    assert (Hl1 : len v1 <= len vs) by (unfold v1, len; rewrite skipn_length; lia).
    unfold trim_trail.
    pose proof (last_some_spec v1 0 None) as L. destruct (last_some V v1 0 None) as [j|].
    + destruct L as [L | [m [x [Ej Nm]]]]; [discriminate|].
      pose proof (nth_len _ _ _ Nm) as Lm.
      assert (E2 : (if j <? len v1 - 1 then slice v1 0 (j + 1) else Val v1) = Val (firstn (S m) v1)).
      { destruct (j <? len v1 - 1) eqn:Ej2.
        - rewrite slice_in by (unfold len in *; lia). simpl skipn.
          replace (Z.to_nat (j + 1 - 0)) with (S m) by lia. reflexivity.
        - rewrite firstn_all2; [reflexivity|]. unfold len in *. lia. }
      rewrite E2. cbn [bind].
      assert (Hlen2 : len (firstn (S m) v1) = Z.of_nat (S m)).
      { unfold len. rewrite firstn_length. lia. }
      replace (len (firstn (S m) v1) =? 0) with false by lia.
      eexists. split; [reflexivity|].
      unfold inv, inv_arr. cbn [avals aoff acnt].
      split; [rewrite hd_firstn; exact Hk|].
      split; [rewrite (firstn_S_nth _ _ _ Nm), rev_app_distr; reflexivity|].
      split; [reflexivity|]. split; [unfold len in *; lia | lia].
    + destruct L as [_ L]. exfalso. apply L. now apply hd_some_in.
Qed.

(* cells after punching a hole *)
Lemma hd_set_nth (l : cells) k x : (0 < k)%nat -> hd_some V (set_nth k x l) = hd_some V l.
Proof. destruct l, k; simpl; auto; lia. Qed.

Lemma hd_rev_set_nth (l : cells) : forall k x, (S k < length l)%nat ->
  hd_some V (rev (set_nth k x l)) = hd_some V (rev l).
Proof.
  induction l as [|c t IH]; intros k x H; [simpl in H; lia|].
  destruct t as [|d t']; [simpl in H; lia|].
  destruct k as [|k].
  - simpl set_nth. now rewrite !hd_rev_cons.
  - change (set_nth (S k) x (c :: d :: t')) with (c :: set_nth k x (d :: t')).
    rewrite (hd_rev_cons V c (d :: t')).
    rewrite hd_rev_cons.
    destruct (set_nth k x (d :: t')) eqn:E.
    + destruct k; discriminate.
    + rewrite <- E. apply IH. simpl in *. lia.
Qed.

Lemma count_set_nth_nat (l : cells) : forall k v, nth_error l k = Some (Some v) ->
  S (length (filter (@is_some V) (set_nth k None l))) = length (filter (@is_some V) l).
Proof.
  induction l as [|c t IH]; intros [|k] v H; cbn [nth_error set_nth] in *; try discriminate.
  - inversion H; subst. reflexivity.
  - specialize (IH _ _ H). destruct c; cbn [filter is_some length]; lia.
Qed.
Lemma count_set_nth (l : cells) : forall k v, nth_error l k = Some (Some v) ->
  count_some V (set_nth k None l) = count_some V l - 1.
Proof. intros k v H. unfold count_some, len. pose proof (count_set_nth_nat l k v H). lia. Qed.

Lemma copy_full {A} (dst src : list A) : length dst = length src -> copy dst src = src.
Proof.
  intros H. unfold copy. rewrite H, firstn_all, skipn_all2 by lia. apply app_nil_r.
Qed.

Lemma clone_ok (l : cells) : len l <= max_alloc -> clone max_alloc None l = Val l.
Proof.
  intros H. unfold clone. rewrite mk_in by (pose proof (len_nonneg l); lia). cbn [bind].
  rewrite copy_full; [reflexivity|]. rewrite repeat_length. unfold len. lia.
Qed.

Lemma tail_has (l : cells) : hd_some V (rev l) = true -> skipn 1 l = [] \/ has_some (skipn 1 l).
Proof.
  destruct l as [|c t]; [discriminate|]. rewrite hd_rev_cons. simpl skipn.
  destruct t; [now left|]. intros H. right. now apply hd_rev_in.
Qed.

Lemma init_has (l : cells) m : hd_some V l = true -> firstn m l = [] \/ has_some (firstn m l).
Proof.
  destruct m; [now left|]. intros H. right. apply hd_some_in. now rewrite hd_firstn.
Qed.

(* Array.Without: for every array satisfying the invariant and every argument value, a value that satisfies
   the invariant again (or the empty set) - never a panic, never an error *)
Theorem arr_without_safe (a : arr) (x : arg V) : inv_arr max_alloc V a ->
  exists r, arr_without max_alloc V veq a x = Val r /\ inv max_alloc V r.
Proof.
  intros Ha. pose proof Ha as [H1 [H2 [Hc [Hl Ho]]]].
  assert (Hsame : exists r, Val (RArr V a) = Val r /\ inv max_alloc V r) by (eexists; split; [reflexivity|exact Ha]).
  unfold arr_without. destruct x as [atf item| | | |]; try exact Hsame. cbv zeta.
  pose proof (int_of_float_range atf) as Hat. set (at_ := int_of_float atf) in *. clearbody at_.
  pose proof (len_nonneg (avals V a)) as Hn0.
  destruct ((0 <=? isub at_ (aoff V a)) && (isub at_ (aoff V a) <? len (avals V a))) eqn:E0; [|exact Hsame].
  destruct (idx_in (avals V a) (isub at_ (aoff V a))) as [c [Ec Nc]]; [lia|]. rewrite Ec. cbn [bind].
  destruct c as [v'|]; [|exact Hsame].
  destruct (veq v' item); [|exact Hsame].
  destruct (at_ =? aoff V a) eqn:E1.
  - (* the first item: re-slice, re-trim *)
    rewrite slice_in by lia. cbn [bind].
    replace (firstn (Z.to_nat (len (avals V a) - 1)) (skipn (Z.to_nat 1) (avals V a))) with (skipn 1 (avals V a)).
    + apply new_offset_array_inv.
      * unfold iadd. destruct (wrap_spec (aoff V a + 1)) as [? [? ?]]. lia.
      * unfold len in *. rewrite skipn_length. lia.
      * apply tail_has. exact H2.
    + change (Z.to_nat 1) with 1%nat. rewrite firstn_all2; [reflexivity|]. rewrite skipn_length. unfold len. lia.
  - destruct (at_ =? isub (iadd (aoff V a) (len (avals V a))) 1) eqn:E2.
    + (* the last item *)
      assert (En : isub (len (avals V a)) 1 = len (avals V a) - 1) by (clear Ec E0 E1 E2; wsolve).
      rewrite En. rewrite slice_in by lia. cbn [bind]. simpl skipn.
      apply new_offset_array_inv.
      * exact Ho.
      * unfold len in *. rewrite firstn_length. lia.
      * apply init_has. exact H1.
    + (* an inner item: clone and punch a hole *)
      rewrite clone_ok by exact Hl. cbn [bind].
      rewrite upd_in by lia. cbn [bind].
      set (i := isub at_ (aoff V a)) in *.
      assert (Hi0 : 0 < i) by (unfold i in *; clear Ec Nc E2; wsolve).
      assert (Hi1 : i < len (avals V a) - 1) by (unfold i in *; clear Ec Nc E1; wsolve).
      destruct (0 <? isub (acnt V a) 1) eqn:Ecn; [|eexists; split; [reflexivity|exact I]].
      eexists. split; [reflexivity|].
      pose proof (count_some_bounds V (avals V a)) as Hcb.
      unfold inv, inv_arr. cbn [avals aoff acnt].
      split; [rewrite hd_set_nth by lia; exact H1|].
      split; [rewrite hd_rev_set_nth by (unfold len in *; lia); exact H2|].
      split; [rewrite (count_set_nth _ _ _ Nc), <- Hc; clear Ec Nc E0 E1 E2 Ecn Hi0 Hi1; wsolve|].
      split; [rewrite len_set_nth; exact Hl | exact Ho].
Qed.

End A.
