(* Keyed collections (property C05): call, ++ and offset in the reference semantics. *)
From Arrai Require Import Base.Val Spec.SetAlg Eval.Interp Proofs.ValOrder Proofs.SetAlgP.

(* the values paired with k are exactly those v with a member (@: k, _: v) *)
Lemma lookup_all_spec k l vs :
  lookup_all k l = Some vs ->
  (forall m, In m l -> exists k' n v, as_pair m = Some (k', n, v)) /\
  (forall v, In v vs <-> exists m n, In m l /\ as_pair m = Some (k, n, v)).
Proof.
  revert vs; induction l as [|m l IH]; intros vs; simpl.
  - intros [= <-]. split; [intros m []|]. intros v; split; [intros [] | intros (m & n & [] & _)].
  - destruct (as_pair m) as [[[k' n] v]|] eqn:Em; [|discriminate].
    destruct (lookup_all k l) as [r|] eqn:El; [|discriminate].
    intros [= <-]. destruct (IH r eq_refl) as [Hall Hin]. split.
    + intros m' [<-|Hm']; [exists k', n, v; exact Em | apply Hall; exact Hm'].
    + intros x. destruct (veqb k k') eqn:Ek.
      * apply veqb_eq in Ek; subst k'. simpl. rewrite Hin. split.
        -- intros [<-|(m' & n' & Hm' & Ep)]; [exists m, n; split; [left; reflexivity | exact Em]|].
           exists m', n'; split; [right; exact Hm' | exact Ep].
        -- intros (m' & n' & [<-|Hm'] & Ep); [left; congruence | right; exists m', n'; split; assumption].
      * rewrite Hin. split.
        -- intros (m' & n' & Hm' & Ep). exists m', n'; split; [right; exact Hm' | exact Ep].
        -- intros (m' & n' & [<-|Hm'] & Ep); [|exists m', n'; split; assumption].
           rewrite Em in Ep. injection Ep as -> _ _.
           rewrite (proj2 (veqb_eq k k) eq_refl) in Ek. discriminate.
Qed.

Lemma lookup_all_none k l :
  lookup_all k l = None <-> exists m, In m l /\ as_pair m = None.
Proof.
  induction l as [|m l IH]; simpl.
  - split; [discriminate | intros (m & [] & _)].
  - destruct (as_pair m) as [[[k' n] v]|] eqn:Em.
    + destruct (lookup_all k l) as [r|] eqn:El.
      * split; [discriminate|]. intros (m' & [<-|Hm'] & E); [congruence|].
        assert (H : Some r = None) by (apply IH; exists m'; split; assumption).
        discriminate.
      * split; [intros _|reflexivity]. destruct (proj1 IH eq_refl) as (m' & Hm' & E).
        exists m'; split; [right; exact Hm' | exact E].
    + split; [intros _; exists m; split; [left; reflexivity | exact Em] | reflexivity].
Qed.

(* c(k) returns v exactly when every value paired with k is v and there is one;
   it is an error for none (the ?: case) and for several *)
Theorem call_one c k v :
  call_data c k = CROne v <->
  exists r, lookup_all k c = Some (v :: r) /\ forall x, In x r -> x = v.
Proof.
  unfold call_data. destruct (lookup_all k c) as [[|x r]|] eqn:E.
  - split; [discriminate | intros (r & [= ] & _)].
  - destruct (forallb (veqb x) r) eqn:Ef.
    + split.
      * intros [= <-]. exists r. split; [reflexivity|].
        intros y Hy. rewrite forallb_forall in Ef. symmetry. apply veqb_eq, Ef, Hy.
      * intros (r' & [= -> ->] & _). reflexivity.
    + split; [discriminate|]. intros (r' & [= -> ->] & Hall).
      assert (forallb (veqb v) r' = true).
      { apply forallb_forall. intros y Hy. apply veqb_eq. symmetry; apply Hall, Hy. }
      congruence.
  - split; [discriminate | intros (r & [= ] & _)].
Qed.

Theorem call_none c k :
  call_data c k = CRNone <-> lookup_all k c = Some [].
Proof.
  unfold call_data. destruct (lookup_all k c) as [[|x r]|]; [tauto| |split; discriminate].
  destruct (forallb (veqb x) r); split; discriminate.
Qed.

Theorem call_many c k :
  call_data c k = CRMany <->
  exists x r, lookup_all k c = Some (x :: r) /\ exists y, In y r /\ y <> x.
Proof.
  unfold call_data. destruct (lookup_all k c) as [[|x r]|] eqn:E.
  - split; [discriminate | intros (x & r & [= ] & _)].
  - destruct (forallb (veqb x) r) eqn:Ef.
    + split; [discriminate|]. intros (x' & r' & [= -> ->] & y & Hy & Hne).
      rewrite forallb_forall in Ef. apply Ef, veqb_eq in Hy. congruence.
    + split; [intros _|reflexivity]. exists x, r. split; [reflexivity|].
      apply forallb_false in Ef as (y & Hy & Hf). exists y. split; [exact Hy|].
      intros ->. rewrite (proj2 (veqb_eq x x) eq_refl) in Hf. discriminate.
  - split; [discriminate | intros (x & r & [= ] & _)].
Qed.

Lemma mapM_ok {A B} (f : A -> res B) l r :
  mapM f l = Ok r -> forall y, In y r <-> exists x, In x l /\ f x = Ok y.
Proof.
  revert r; induction l as [|x l IH]; intros r; simpl.
  - intros [= <-] y. split; [intros [] | intros (x & [] & _)].
  - destruct (f x) as [b| | |] eqn:Ef; simpl; try discriminate.
    destruct (mapM f l) as [r'| | |] eqn:Em; simpl; try discriminate.
    intros [= <-] y. simpl. rewrite (IH r' eq_refl). split.
    + intros [<-|(x' & Hx' & E)]; [exists x; split; [left; reflexivity | exact Ef] | exists x'; split; [right; exact Hx' | exact E]].
    + intros (x' & [<-|Hx'] & E); [left; congruence | right; exists x'; split; assumption].
Qed.

(* a ++ b: every member of a, and every member of b with its @ moved up by the
   number of members of a; nothing else *)
Theorem concat_spec a b r :
  concat_sets a b = Ok r ->
  exists l, r = VSet l /\ ssorted l /\
    forall m, In m l <-> In m a \/ exists m0, In m0 b /\ shift_member (Z.of_nat (length a)) m0 = Ok m.
Proof.
  unfold concat_sets. destruct (mapM (shift_member (Z.of_nat (length a))) b) as [sb| | |] eqn:E; simpl; try discriminate.
  intros [= <-]. exists (vsort (a ++ sb)). split; [reflexivity|]. split; [apply vsort_sorted|].
  intros m. rewrite vsort_in, in_app_iff, (mapM_ok _ _ _ E). reflexivity.
Qed.

(* the shifted member differs from the original only in @ *)
Theorem shift_member_spec off m m' :
  shift_member off m = Ok m' ->
  exists attrs k, m = VTup attrs /\ tget n_at attrs = Some (VNum k) /\
                  m' = VTup (ainsert (n_at, VNum (num_add k (NInt off))) attrs).
Proof.
  unfold shift_member. destruct m as [|attrs|]; try discriminate.
  destruct (tget n_at attrs) as [[k| |]|] eqn:E; try discriminate.
  intros [= <-]. exists attrs, k. repeat split. exact E.
Qed.

(* n \ s on a sequence s: exactly the members of s with every index moved by n *)
Theorem offset_spec n l k ps r :
  l <> [] -> as_seq l = Some (k, ps) ->
  bin_data BOffset (VNum (NInt n)) (VSet l) = Ok r ->
  exists l', r = VSet l' /\ ssorted l' /\
    forall m, In m l' <-> exists i x, In (i, x) ps /\ m = vpair k (vint (i + n)) x.
Proof.
  intros Hl Hs. simpl. destruct l as [|m0 l0]; [congruence|]. rewrite Hs.
  intros [= <-]. eexists; split; [reflexivity|]. split; [apply vsort_sorted|].
  intros m. rewrite vsort_in, in_map_iff. split.
  - intros ([i x] & <- & Hin). exists i, x. split; [exact Hin | reflexivity].
  - intros (i & x & Hin & ->). exists (i, x). split; [reflexivity | exact Hin].
Qed.

(* the call forms of the expression language are these functions of the operands' values,
   for every operand expression, scope and fuel *)
Theorem call_operator_is_call_data fuel rho f a c k :
  eval fuel rho f = Ok (D (VSet c)) -> eval fuel rho a = Ok (D k) ->
  eval (S fuel) rho (ECall f a) =
    match call_data c k with CROne v => Ok (D v) | CRNotKeyed => Unspec | _ => Err end.
Proof. intros Hf Ha. cbn [eval evalF]. rewrite Hf, Ha. reflexivity. Qed.

Theorem safe_call_operator_is_call_data fuel rho f a d c k :
  eval fuel rho f = Ok (D (VSet c)) -> eval fuel rho a = Ok (D k) ->
  eval (S fuel) rho (ESafeCall f a d) =
    match call_data c k with
    | CROne v => Ok (D v)
    | CRNone => eval fuel rho d
    | CRNotKeyed => Unspec
    | CRMany => Err
    end.
Proof. intros Hf Ha. cbn [eval evalF]. rewrite Hf, Ha. reflexivity. Qed.

(* the fallback of ?: is evaluated only when no value is paired with the key *)
Corollary safe_call_fallback_only_when_absent fuel rho f a d c k v :
  eval fuel rho f = Ok (D (VSet c)) -> eval fuel rho a = Ok (D k) -> call_data c k = CROne v ->
  eval (S fuel) rho (ESafeCall f a d) = Ok (D v).
Proof. intros Hf Ha Hc. rewrite (safe_call_operator_is_call_data fuel rho f a d c k Hf Ha), Hc. reflexivity. Qed.
