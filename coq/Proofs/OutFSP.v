(* Proofs about Sys/OutFS.v (property C19). *)
From Coq Require Import List ZArith Bool Lia.
Import ListNotations.
From Arrai Require Import Sys.OutFS.
Open Scope Z_scope.

(* ---------- equality tests ---------- *)
Lemma zs_eqb_spec a b : zs_eqb a b = true <-> a = b.
Proof.
  revert b; induction a as [|x a IH]; destruct b as [|y b]; simpl; split; intro H; try congruence; try discriminate.
  - apply andb_true_iff in H as [H1 H2]. apply Z.eqb_eq in H1. apply IH in H2. congruence.
  - inversion H; subst. rewrite Z.eqb_refl. simpl. apply IH. reflexivity.
Qed.
Lemma path_eqb_spec a b : path_eqb a b = true <-> a = b.
Proof.
  revert b; induction a as [|x a IH]; destruct b as [|y b]; simpl; split; intro H; try congruence; try discriminate.
  - apply andb_true_iff in H as [H1 H2]. apply zs_eqb_spec in H1. apply IH in H2. congruence.
  - inversion H; subst. apply andb_true_iff. split. apply zs_eqb_spec; reflexivity. apply IH; reflexivity.
Qed.
Lemma path_eqb_refl a : path_eqb a a = true.
Proof. apply path_eqb_spec; reflexivity. Qed.
Lemma path_eqb_neq a b : a <> b -> path_eqb a b = false.
Proof. intro H. destruct (path_eqb a b) eqn:E; auto. apply path_eqb_spec in E. contradiction. Qed.
Lemma path_eqb_sym a b : path_eqb a b = path_eqb b a.
Proof.
  destruct (path_eqb a b) eqn:E.
  - apply path_eqb_spec in E. subst. symmetry. apply path_eqb_refl.
  - destruct (path_eqb b a) eqn:E2; auto. apply path_eqb_spec in E2. subst. rewrite path_eqb_refl in E. discriminate.
Qed.

(* ---------- under ---------- *)
Lemma underb_unfold base p :
  underb base p = path_eqb base p || match p with [] => false | _ :: par => underb base par end.
Proof. destruct p; reflexivity. Qed.

Lemma underb_spec base p : underb base p = true <-> exists l, p = l ++ base.
Proof.
  induction p as [|c p IH]; rewrite underb_unfold.
  - rewrite orb_false_r, path_eqb_spec. split.
    + intros ->. exists []. reflexivity.
    + intros [l H]. symmetry in H. apply app_eq_nil in H. tauto.
  - rewrite orb_true_iff, path_eqb_spec, IH. split.
    + intros [-> | [l ->]]. exists []; reflexivity. exists (c :: l); reflexivity.
    + intros [[|x l] H]; simpl in H. left; congruence. right. exists l. congruence.
Qed.

Lemma underb_refl p : underb p p = true.
Proof. apply underb_spec. exists []. reflexivity. Qed.
Lemma underb_cons base c p : underb base p = true -> underb base (c :: p) = true.
Proof. rewrite !underb_spec. intros [l ->]. exists (c :: l). reflexivity. Qed.
Lemma underb_up c p x : underb (c :: p) x = true -> underb p x = true.
Proof. rewrite !underb_spec. intros [l ->]. exists (l ++ [c]). rewrite <- app_assoc. reflexivity. Qed.
Lemma underb_trans a b c : underb a b = true -> underb b c = true -> underb a c = true.
Proof. rewrite !underb_spec. intros [l ->] [l' ->]. exists (l' ++ l). rewrite app_assoc. reflexivity. Qed.

Lemma app_eq_len_tail {A} (l1 l2 a b : list A) :
  length a = length b -> l1 ++ a = l2 ++ b -> l1 = l2 /\ a = b.
Proof.
  revert l2; induction l1 as [|x l1 IH]; intros [|y l2] L H; simpl in *.
  - auto.
  - exfalso. apply (f_equal (@length A)) in H. simpl in H. rewrite app_length in H. lia.
  - exfalso. apply (f_equal (@length A)) in H. simpl in H. rewrite app_length in H. lia.
  - inversion H; subst. destruct (IH l2 L H2) as [-> ->]. auto.
Qed.

Lemma underb_child_self c p : underb (c :: p) p = false.
Proof.
  destruct (underb (c :: p) p) eqn:E; auto. apply underb_spec in E as [l H].
  apply (f_equal (@length name)) in H. rewrite app_length in H. simpl in H. lia.
Qed.
Lemma underb_siblings c1 c2 p x : c1 <> c2 -> underb (c1 :: p) x = true -> underb (c2 :: p) x = false.
Proof.
  intros N H. destruct (underb (c2 :: p) x) eqn:E; auto.
  apply underb_spec in H as [l1 H1]. apply underb_spec in E as [l2 H2]. subst x.
  apply app_eq_len_tail in H2 as [_ H2]; [|reflexivity]. congruence.
Qed.
Lemma underb_not_nil c p : underb (c :: p) [] = false.
Proof. reflexivity. Qed.

(* ---------- lookup ---------- *)
Lemma assoc_filter (f : path -> bool) x m :
  assoc x (filter (fun e => negb (f (fst e))) m) = if f x then None else assoc x m.
Proof.
  induction m as [|[qq n] m IH]; simpl.
  - destruct (f x); reflexivity.
  - destruct (f qq) eqn:F; simpl.
    + rewrite IH. destruct (path_eqb x qq) eqn:E; [apply path_eqb_spec in E; subst; rewrite F|]; reflexivity.
    + destruct (path_eqb x qq) eqn:E.
      * apply path_eqb_spec in E; subst. rewrite F. reflexivity.
      * apply IH.
Qed.

Lemma lookup_set c p n m x :
  lookup x (set_node (c :: p) n m) = if path_eqb x (c :: p) then Some n else lookup x m.
Proof.
  destruct x as [|d x]; [reflexivity|]. unfold lookup, set_node. cbn [assoc fst].
  destruct (path_eqb (d :: x) (c :: p)) eqn:E; [reflexivity|].
  rewrite (assoc_filter (path_eqb (c :: p))). rewrite path_eqb_sym, E. reflexivity.
Qed.

Lemma lookup_remove p m x : x <> [] ->
  lookup x (remove_subtree p m) = if underb p x then None else lookup x m.
Proof.
  intro N. destruct x as [|d x]; [congruence|]. unfold lookup, remove_subtree.
  apply (assoc_filter (underb p)).
Qed.

(* ---------- well-formed file systems, stat ---------- *)
Definition wf (m : fsmap) : Prop :=
  forall c p, lookup (c :: p) m <> None -> lookup p m = Some Dir.

Lemma stat_node m x n : stat m x = SNode n -> lookup x m = Some n.
Proof.
  destruct x as [|c x]; simpl.
  - congruence.
  - destruct (stat m x) as [[b|]| |]; try discriminate.
    destruct (assoc (c :: x) m); congruence.
Qed.
Lemma stat_some m x n : wf m -> lookup x m = Some n -> stat m x = SNode n.
Proof.
  intro W. revert n. induction x as [|c x IH]; intros n H.
  - simpl in *. congruence.
  - assert (P : lookup x m = Some Dir) by (apply (W c x); congruence).
    cbn [stat]. rewrite (IH _ P). rewrite H. reflexivity.
Qed.
Lemma stat_child m c p : stat m p = SNode Dir ->
  stat m (c :: p) = match lookup (c :: p) m with Some n => SNode n | None => SNoEnt end.
Proof. intro H. cbn [stat]. rewrite H. reflexivity. Qed.

Lemma wf_set c p n m : wf m -> lookup p m = Some Dir ->
  (forall d, lookup (d :: c :: p) m <> None -> n = Dir) ->
  wf (set_node (c :: p) n m).
Proof.
  intros W P Hn d x H. rewrite lookup_set in H. rewrite lookup_set.
  destruct (path_eqb (d :: x) (c :: p)) eqn:E.
  - apply path_eqb_spec in E. inversion E; subst.
    destruct (path_eqb p (c :: p)) eqn:E2; auto.
    apply path_eqb_spec in E2. apply (f_equal (@length name)) in E2. simpl in E2. lia.
  - destruct (path_eqb x (c :: p)) eqn:E2.
    + apply path_eqb_spec in E2; subst. rewrite (Hn d H). reflexivity.
    + apply (W d x H).
Qed.

Lemma wf_remove p m : wf m -> wf (remove_subtree p m).
Proof.
  intros W d x H. rewrite lookup_remove in H by discriminate.
  destruct (underb p (d :: x)) eqn:U; [congruence|].
  destruct x as [|e x]; [reflexivity|].
  rewrite lookup_remove by discriminate.
  destruct (underb p (e :: x)) eqn:U2.
  - rewrite (underb_cons _ d _ U2) in U. discriminate.
  - apply (W d (e :: x) H).
Qed.

(* ---------- induction over descriptions ---------- *)
Definition optP (P : val -> Prop) (o : option val) : Prop := match o with Some v => P v | None => True end.

Section ValInd.
Variable P : val -> Prop.
Hypothesis HStr : forall b, P (VStr b).
Hypothesis HBytes : forall b, P (VBytes b).
Hypothesis HEmpty : P VEmpty.
Hypothesis HSetOther : P VSetOther.
Hypothesis HOther : P VOther.
Hypothesis HMulti : P VMulti.
Hypothesis HDict : forall es, Forall (fun kv => P (snd kv)) es -> P (VDict es).
Hypothesis HTup : forall ifx d f, optP P d -> optP P f -> P (VTup ifx d f).
Fixpoint val_ind' (v : val) : P v :=
  match v with
  | VStr b => HStr b | VBytes b => HBytes b | VEmpty => HEmpty | VSetOther => HSetOther
  | VOther => HOther | VMulti => HMulti
  | VDict es => HDict es ((fix go (es : list (key * val)) : Forall (fun kv => P (snd kv)) es :=
                             match es with [] => Forall_nil _ | kv :: r => Forall_cons kv (val_ind' (snd kv)) (go r) end) es)
  | VTup ifx d f => HTup ifx d f
      (match d as o return optP P o with Some x => val_ind' x | None => I end)
      (match f as o return optP P o with Some x => val_ind' x | None => I end)
  end.
End ValInd.

(* ---------- the loop of outputTupleDir, named ---------- *)
Fixpoint out_loop (q : quirks) (dry : bool) (p : path) (es : list (key * val)) (s : st) : res :=
  match es with
  | [] => Ok s
  | (k, v') :: rest =>
      if is_multi v' then (if q_multi_panic q then Panic s else Err s) else
      match k with
      | KOther => Err s
      | KStr b =>
          match join q p b with
          | None => Err s
          | Some p' => bind (out q REntry dry v' p' s) (fun s' => out_loop q dry p rest s')
          end
      end
  end.

Definition out_dirv (q : quirks) (dry : bool) (v : val) (p : path) (s : st) : res :=
  match v with
  | VDict es => bind (do_dir q dry p s) (fun s1 => out_loop q dry p es s1)
  | VEmpty => do_dir q dry p s
  | _ => Err s
  end.

Definition out_files (q : quirks) (dry : bool) (d f : option val) (p : path) (s : st) : res :=
  match d with
  | Some dv => out_dirv q dry dv p s
  | None => match f with Some fv => out_file q dry fv p s | None => Err s end
  end.

Definition out_existing (q : quirks) (dry : bool) (w : word) (d f : option val) (p : path) (s1 : st) : res :=
  match w with
  | WRemove => if isSome d || isSome f then Err s1 else if dry then Ok s1 else op_removeall p s1
  | WReplace =>
      if Bool.eqb (isSome d) (isSome f) then Err s1
      else if dry then
        (if q_replace_unvalidated q then Ok s1
         else match out_files q true d f p {| fs := remove_subtree p (fs s1); nops := 0; fault := None; fired := false |} with
              | Ok _ => Ok s1 | _ => Err s1 end)
      else bind (op_removeall p s1) (fun s2 => out_files q false d f p s2)
  | WMerge => match d with Some dv => out_dirv q dry dv p s1 | None => Err s1 end
  | WIgnore => Ok s1
  | WFail => Err s1
  end.

Definition out_tuple (q : quirks) (dry : bool) (ifx d f : option val) (p : path) (s : st) : res :=
  match ifx with
  | None => out_files q dry d f p s
  | Some (VStr wb) =>
      match word_of wb with
      | None => Err s
      | Some w =>
          if (precheck q w d f) then Err s else
          let (sr, s1) := op_stat p s in
          match sr with
          | SFault => Err s1
          | SR SNotDir => Err s1
          | SR SNoEnt => match w with WRemove => out_existing q dry w d f p s1 | _ => out_files q dry d f p s1 end
          | SR (SNode _) => out_existing q dry w d f p s1
          end
      end
  | Some _ => Err s
  end.

Lemma bind_ext r f g : (forall s, f s = g s) -> bind r f = bind r g.
Proof. intro H. destruct r; simpl; auto. Qed.

Lemma out_RDir q dry v p s : out q RDir dry v p s = out_dirv q dry v p s.
Proof.
  destruct v; try reflexivity.
  cbn [out out_dirv]. apply bind_ext.
  induction es as [|[k v'] rest IH]; intro s1; [reflexivity|].
  cbn [out_loop]. destruct (is_multi v'); [reflexivity|]. destruct k; [|reflexivity].
  destruct (join q p b); [|reflexivity]. apply bind_ext. exact IH.
Qed.
Lemma out_RFile q dry v p s : out q RFile dry v p s = out_file q dry v p s.
Proof. destruct v; reflexivity. Qed.
Lemma out_REntry q dry v p s :
  out q REntry dry v p s =
  match v with
  | VDict _ => out_dirv q dry v p s
  | VStr _ | VBytes _ | VEmpty => out_file q dry v p s
  | VSetOther => Err s
  | VOther => if q_skip_unsupported q then Ok s else Err s
  | VMulti => if q_multi_panic q then Panic s else Err s
  | VTup ifx d f => out_tuple q dry ifx d f p s
  end.
Proof.
  destruct v; try reflexivity; [apply (out_RDir q dry (VDict es))|].
  unfold out_tuple, out_existing, out_files.
  destruct ifx as [conf|]; [|destruct dir as [dv|]; [apply out_RDir | destruct file; [apply out_RFile|reflexivity]]].
  destruct conf; try reflexivity.
  cbn [out]. destruct (word_of b) as [w|]; [|reflexivity].
  destruct dir as [dv|], file as [fv|], w; cbn [isSome orb eqb]; try reflexivity;
    destruct (op_stat p s) as [sr s1]; destruct sr as [[[?|]| |]|]; rewrite ?out_RDir, ?out_RFile; try reflexivity;
    destruct dry; rewrite ?out_RDir, ?out_RFile; try reflexivity;
    destruct (op_removeall p s1); cbn [bind]; rewrite ?out_RDir, ?out_RFile; reflexivity.
Qed.

Global Opaque out.

Lemma op_stat_snd p s : snd (op_stat p s) = snd (tick s).
Proof. unfold op_stat. destruct (tick s) as [h s1]. destruct h; reflexivity. Qed.

(* ---------- a generic invariant of all runs ---------- *)
Section Inv.
Variable q : quirks.
Variable dry : bool.
Variable R : st -> st -> Prop.
Variable okp : path -> Prop.
Hypothesis R_refl : forall s, R s s.
Hypothesis R_trans : forall a b c, R a b -> R b c -> R a c.
Hypothesis R_tick : forall s, R s (snd (tick s)).
Hypothesis R_mkdir : dry = false \/ q_dry_mkdir q = true -> forall p s, okp p -> R s (res_st (op_mkdir p s)).
Hypothesis R_rm : dry = false -> forall p s, okp p -> R s (res_st (op_removeall p s)).
Hypothesis R_wr : dry = false -> forall p b s, okp p -> R s (res_st (write_file q p b s)).
Hypothesis okp_join : forall p b p', okp p -> join q p b = Some p' -> okp p'.

Lemma R_stat p s : R s (snd (op_stat p s)).
Proof. rewrite op_stat_snd. apply R_tick. Qed.

Lemma R_bind s r f : R s (res_st r) -> (forall s1, r = Ok s1 -> R s1 (res_st (f s1))) -> R s (res_st (bind r f)).
Proof. intros H1 H2. destruct r; simpl in *; auto. eapply R_trans; eauto. Qed.

Lemma inv_do_dir p s : okp p -> R s (res_st (do_dir q dry p s)).
Proof.
  intro O. unfold do_dir. pose proof (R_stat p s) as H. destruct (op_stat p s) as [r s1]. simpl in H.
  destruct r as [[[b|]| |]|]; [ | exact H | | destruct (q_stat_err_ignored q); exact H | destruct (q_stat_err_ignored q); exact H].
  - destruct (q_kind_unchecked q); exact H.
  - destruct (dry && negb (q_dry_mkdir q)) eqn:E; [exact H|].
    eapply R_trans; [exact H|]. apply R_mkdir; auto.
    destruct dry; auto. destruct (q_dry_mkdir q); auto; try discriminate.
Qed.

Lemma inv_out_file v p s : okp p -> R s (res_st (out_file q dry v p s)).
Proof.
  intro O. unfold out_file.
  assert (G : forall b, R s (res_st (bind
     (if q_kind_unchecked q then Ok s else
        let (r, s1) := op_stat p s in
        match r with SFault => Err s1 | SR (SNode Dir) => Err s1 | SR SNotDir => Err s1 | SR _ => Ok s1 end)
     (fun s1 => if dry then Ok s1 else write_file q p b s1)))).
  { intro b. apply R_bind.
    - destruct (q_kind_unchecked q); [apply R_refl|].
      pose proof (R_stat p s) as H. destruct (op_stat p s) as [r s1]. simpl in H.
      destruct r as [[[?|]| |]|]; exact H.
    - intros s1 _. case_eq dry; intro D; [apply R_refl|]. apply R_wr; auto. }
  destruct v; try apply R_refl; apply G.
Qed.

Definition invP (v : val) : Prop := forall r p s, okp p -> R s (res_st (out q r dry v p s)).

Lemma inv_loop es : Forall (fun kv => invP (snd kv)) es ->
  forall p s, okp p -> R s (res_st (out_loop q dry p es s)).
Proof.
  induction 1 as [|[k v'] rest Hv _ IH]; intros p s O; cbn [out_loop].
  - apply R_refl.
  - destruct (is_multi v'); [destruct (q_multi_panic q); apply R_refl|].
    destruct k; [|apply R_refl]. destruct (join q p b) eqn:J; [|apply R_refl].
    apply R_bind. apply Hv. eapply okp_join; eauto. intros; apply IH; auto.
Qed.

Lemma inv_files d f p s : optP invP d -> optP invP f -> okp p -> R s (res_st (out_files q dry d f p s)).
Proof.
  intros Hd Hf O. unfold out_files. destruct d as [dv|].
  - rewrite <- out_RDir. apply Hd; auto.
  - destruct f as [fv|]; [apply inv_out_file; auto | apply R_refl].
Qed.

Lemma inv_existing w d f p s : optP invP d -> optP invP f -> okp p -> R s (res_st (out_existing q dry w d f p s)).
Proof.
  intros Hd Hf O. unfold out_existing. destruct w; try apply R_refl.
  - destruct (isSome d || isSome f); [apply R_refl|]. case_eq dry; intro D; [apply R_refl|]. apply R_rm; auto.
  - destruct (eqb (isSome d) (isSome f)); [apply R_refl|]. case_eq dry; intro D.
    + destruct (q_replace_unvalidated q); [apply R_refl|].
      destruct (out_files q true d f p _); apply R_refl.
    + apply R_bind. apply R_rm; auto. intros. rewrite <- D. apply inv_files; auto.
  - destruct d as [dv|]; [|apply R_refl]. rewrite <- out_RDir. apply Hd; auto.
Qed.

Lemma inv_out : forall v, invP v.
Proof.
  induction v using val_ind'; intros r p s O;
    destruct r; rewrite ?out_REntry, ?out_RDir, ?out_RFile; try apply inv_out_file; auto;
    try (simpl; apply R_refl); try (unfold out_dirv; apply inv_do_dir; assumption).
  - destruct (q_skip_unsupported q); apply R_refl.
  - destruct (q_multi_panic q); apply R_refl.
  - unfold out_dirv. apply R_bind. apply inv_do_dir; auto. intros. apply inv_loop; auto.
  - unfold out_dirv. apply R_bind. apply inv_do_dir; auto. intros. apply inv_loop; auto.
  - unfold out_tuple. destruct ifx as [conf|]; [|apply inv_files; auto].
    destruct conf; try apply R_refl. destruct (word_of b) as [w|]; [|apply R_refl].
    destruct (precheck q w d f); [apply R_refl|].
    pose proof (R_stat p s) as HS. destruct (op_stat p s) as [sr s1]. simpl in HS.
    destruct sr as [[[?|]| |]|]; try exact HS.
    + eapply R_trans; [exact HS|]. apply inv_existing; auto.
    + eapply R_trans; [exact HS|]. apply inv_existing; auto.
    + eapply R_trans; [exact HS|]. destruct w; try (apply inv_files; auto). apply inv_existing; auto.
Qed.
End Inv.

(* ---------- effects of the primitive operations ---------- *)
Lemma tick_fs s : fs (snd (tick s)) = fs s.
Proof. reflexivity. Qed.
Lemma tick_fault s : fault (snd (tick s)) = fault s.
Proof. reflexivity. Qed.

Lemma mkdir_cases p s :
  fault (res_st (op_mkdir p s)) = fault s /\
  (fs (res_st (op_mkdir p s)) = fs s \/
   exists c par, p = c :: par /\ stat (fs s) par = SNode Dir /\ lookup p (fs s) = None /\
     fs (res_st (op_mkdir p s)) = set_node p Dir (fs s)).
Proof.
  unfold op_mkdir. destruct (tick s) as [h s1] eqn:T.
  assert (F : fs s1 = fs s) by (change s1 with (snd (h, s1)); rewrite <- T; reflexivity).
  assert (G : fault s1 = fault s) by (change s1 with (snd (h, s1)); rewrite <- T; reflexivity).
  destruct h; [cbn [res_st fs fault with_fs]; auto|]. destruct p as [|c par]; [cbn [res_st fs fault with_fs]; auto|].
  rewrite F. destruct (stat (fs s) par) as [[?|]| |] eqn:S; cbn [res_st fs fault with_fs]; auto.
  destruct (lookup (c :: par) (fs s)) eqn:L; cbn [res_st fs fault with_fs]; auto.
  repeat split; auto. right. exists c, par. auto.
Qed.

Lemma rm_cases p s :
  fault (res_st (op_removeall p s)) = fault s /\
  (fs (res_st (op_removeall p s)) = fs s \/
   (exists n, stat (fs s) p = SNode n) /\ fs (res_st (op_removeall p s)) = remove_subtree p (fs s)).
Proof.
  unfold op_removeall. destruct (tick s) as [h s1] eqn:T.
  assert (F : fs s1 = fs s) by (change s1 with (snd (h, s1)); rewrite <- T; reflexivity).
  assert (G : fault s1 = fault s) by (change s1 with (snd (h, s1)); rewrite <- T; reflexivity).
  destruct h; [cbn [res_st fs fault with_fs]; auto|]. rewrite F.
  destruct (stat (fs s) p) eqn:S; cbn [res_st fs fault with_fs]; auto. repeat split; auto. right. split; eauto.
Qed.

Lemma write_cases q p b s :
  fault (res_st (write_file q p b s)) = fault s /\
  (fs (res_st (write_file q p b s)) = fs s \/
   exists c par, p = c :: par /\ stat (fs s) par = SNode Dir /\ lookup p (fs s) <> Some Dir /\
     (fs (res_st (write_file q p b s)) = set_node p (File []) (fs s) \/
      fs (res_st (write_file q p b s)) = set_node p (File b) (set_node p (File []) (fs s)))).
Proof.
  unfold write_file. destruct (tick s) as [h s1] eqn:T.
  assert (F : fs s1 = fs s) by (change s1 with (snd (h, s1)); rewrite <- T; reflexivity).
  assert (G : fault s1 = fault s) by (change s1 with (snd (h, s1)); rewrite <- T; reflexivity).
  destruct h; [cbn [res_st]; auto|]. destruct p as [|c par]; [cbn [res_st]; auto|].
  rewrite F. destruct (stat (fs s) par) as [[?|]| |] eqn:S; try (cbn [res_st]; auto).
  destruct (lookup (c :: par) (fs s)) as [[?|]|] eqn:L; [ | cbn [res_st]; auto | ];
    (cbv zeta; unfold tick, with_fs; cbn [fs nops fault fired];
     repeat match goal with |- context [if ?c then _ else _] => destruct c end; cbn [res_st fs fault];
     (split; [exact G|]); right; exists c, par; repeat split; auto; congruence).
Qed.

Lemma lookup_set_other c p n m x : x <> c :: p -> lookup x (set_node (c :: p) n m) = lookup x m.
Proof. intro N. rewrite lookup_set, path_eqb_neq; auto. Qed.
Lemma lookup_set_same c p n m : lookup (c :: p) (set_node (c :: p) n m) = Some n.
Proof. rewrite lookup_set, path_eqb_refl. reflexivity. Qed.

Lemma join_off q p b p' : q_name_escapes q = false -> join q p b = Some p' -> p' = b :: p /\ simple_name b = true.
Proof. unfold join. intros E. destruct (simple_name b); [intros [= <-]; auto|]. rewrite E. discriminate. Qed.

(* ---------- (F) nothing outside PATH is touched ---------- *)
Lemma frame_out q dry base v r p s :
  q_name_escapes q = false -> underb base p = true ->
  forall x, underb base x = false -> lookup x (fs (res_st (out q r dry v p s))) = lookup x (fs s).
Proof.
  intros E O.
  apply (inv_out q dry (fun s s' => forall x, underb base x = false -> lookup x (fs s') = lookup x (fs s))
           (fun p => underb base p = true)); auto.
  - intros a b c H1 H2 x U. rewrite H2, H1; auto.
  - intros _ p0 s0 O0 x U. destruct (mkdir_cases p0 s0) as [_ [-> | (c & par & -> & _ & _ & ->)]]; auto.
    apply lookup_set_other. intros ->. congruence.
  - intros _ p0 s0 O0 x U. destruct (rm_cases p0 s0) as [_ [-> | [_ ->]]]; auto.
    destruct x as [|d x]; [reflexivity|]. rewrite lookup_remove by discriminate.
    destruct (underb p0 (d :: x)) eqn:U2; auto. rewrite (underb_trans _ _ _ O0 U2) in U. discriminate.
  - intros _ p0 b s0 O0 x U.
    destruct (write_cases q p0 b s0) as [_ [-> | (c & par & -> & _ & _ & [-> | ->])]]; auto;
      rewrite ?lookup_set_other; auto; intros ->; congruence.
  - intros p0 b p' O0 J. destruct (join_off _ _ _ _ E J) as [-> _]. apply underb_cons; auto.
Qed.

(* ---------- the repaired dry run is pure ---------- *)
Lemma dry_pure q v r p s : q_dry_mkdir q = false -> fs (res_st (out q r true v p s)) = fs s.
Proof.
  intro E.
  apply (inv_out q true (fun s s' => fs s' = fs s) (fun _ => True)); auto; try congruence.
  - intros [H|H]; congruence.
Qed.

Lemma fault_out q dry v r p s : fault (res_st (out q r dry v p s)) = fault s.
Proof.
  apply (inv_out q dry (fun s s' => fault s' = fault s) (fun _ => True)); auto; try congruence.
  - intros _ p0 s0 _. apply mkdir_cases.
  - intros _ p0 s0 _. apply rm_cases.
  - intros _ p0 b s0 _. apply write_cases.
Qed.

Lemma wf_out q dry v r p s : wf (fs s) -> wf (fs (res_st (out q r dry v p s))).
Proof.
  apply (inv_out q dry (fun s s' => wf (fs s) -> wf (fs s')) (fun _ => True)); auto.
  - intros _ p0 s0 _ W. destruct (mkdir_cases p0 s0) as [_ [-> | (c & par & -> & S & _ & ->)]]; auto.
    apply wf_set; auto. apply stat_node; auto.
  - intros _ p0 s0 _ W. destruct (rm_cases p0 s0) as [_ [-> | [_ ->]]]; auto. apply wf_remove; auto.
  - intros _ p0 b s0 _ W.
    assert (A : forall c par m, wf m -> lookup par m = Some Dir -> lookup (c :: par) m <> Some Dir -> forall b', wf (set_node (c :: par) (File b') m)).
    { intros c par m Wm P N b'. apply wf_set; auto. intros d H. apply (Wm d (c :: par)) in H. contradiction. }
    destruct (write_cases q p0 b s0) as [_ [-> | (c & par & -> & S & N & [-> | ->])]]; auto.
    + apply A; auto. apply stat_node; auto.
    + apply A.
      * apply A; auto. apply stat_node; auto.
      * rewrite lookup_set_other. apply stat_node; auto.
        intro H. apply (f_equal (@length name)) in H. simpl in H. lia.
      * rewrite lookup_set_same. discriminate.
Qed.

(* ---------- (3) an injected fault is never reported as success ---------- *)
Section Faults.
Variable q : quirks.
Hypothesis Hstat : q_stat_err_ignored q = false.
Hypothesis Hclose : q_close_err_ignored q = false.

Definition okfired (s : st) (r : res) : Prop := forall s', r = Ok s' -> fired s' = fired s.

Lemma okfired_bind s r f : okfired s r -> (forall s1, r = Ok s1 -> okfired s1 (f s1)) -> okfired s (bind r f).
Proof.
  intros H1 H2 s' E. destruct r as [s1| |]; simpl in E; try discriminate.
  rewrite (H2 s1 eq_refl s' E). apply H1. reflexivity.
Qed.
Lemma okfired_err s s1 : okfired s (Err s1). Proof. intros s' H. discriminate. Qed.
Lemma okfired_panic s s1 : okfired s (Panic s1). Proof. intros s' H. discriminate. Qed.
Lemma okfired_ok s : okfired s (Ok s). Proof. intros s' [= ->]. reflexivity. Qed.

Lemma stat_fired p s : match fst (op_stat p s) with SFault => True | SR _ => fired (snd (op_stat p s)) = fired s end.
Proof.
  unfold op_stat, tick. destruct (match fault s with Some j => Nat.eqb j (nops s) | None => false end); simpl; auto.
  apply orb_false_r.
Qed.

Lemma mkdir_fired p s : okfired s (op_mkdir p s).
Proof.
  unfold op_mkdir, tick. destruct (match fault s with Some j => Nat.eqb j (nops s) | None => false end); cbn [fs]; [apply okfired_err|].
  destruct p; [apply okfired_err|]. destruct (stat (fs s) p) as [[?|]| |]; try apply okfired_err.
  destruct (lookup (n :: p) (fs s)); [apply okfired_err|]. intros s' [= <-]. simpl. apply orb_false_r.
Qed.
Lemma rm_fired p s : okfired s (op_removeall p s).
Proof.
  unfold op_removeall, tick. destruct (match fault s with Some j => Nat.eqb j (nops s) | None => false end); cbn [fs]; [apply okfired_err|].
  destruct (stat (fs s) p); try apply okfired_err; intros s' [= <-]; simpl; apply orb_false_r.
Qed.
Lemma write_fired p b s : okfired s (write_file q p b s).
Proof.
  unfold write_file. rewrite Hclose. unfold tick, with_fs. cbn [fs nops fault fired negb].
  destruct (match fault s with Some j => Nat.eqb j (nops s) | None => false end); [apply okfired_err|].
  destruct p; [apply okfired_err|]. destruct (stat (fs s) p) as [[?|]| |]; try apply okfired_err.
  destruct (lookup (n :: p) (fs s)) as [[?|]|]; try apply okfired_err;
    repeat match goal with |- context [if ?c then _ else _] => destruct c eqn:? end; try apply okfired_err;
    intros s' [= <-]; cbn [fired]; rewrite ?andb_true_r in *; rewrite ?orb_false_r;
    repeat match goal with H : _ = false |- _ => rewrite H end; rewrite ?orb_false_r; reflexivity.
Qed.

Lemma do_dir_fired dry p s : okfired s (do_dir q dry p s).
Proof.
  unfold do_dir. rewrite Hstat. pose proof (stat_fired p s) as H. destruct (op_stat p s) as [r s1]. simpl in H.
  destruct r as [[[?|]| |]|]; try apply okfired_err.
  - destruct (q_kind_unchecked q); [|apply okfired_err]. intros s' [= <-]. auto.
  - intros s' [= <-]. auto.
  - destruct (dry && negb (q_dry_mkdir q)). intros s' [= <-]; auto.
    intros s' E. rewrite (mkdir_fired p s1 s' E). auto.
Qed.

Lemma out_file_fired dry v p s : okfired s (out_file q dry v p s).
Proof.
  unfold out_file.
  assert (G : forall b, okfired s (bind
     (if q_kind_unchecked q then Ok s else
        let (r, s1) := op_stat p s in
        match r with SFault => Err s1 | SR (SNode Dir) => Err s1 | SR SNotDir => Err s1 | SR _ => Ok s1 end)
     (fun s1 => if dry then Ok s1 else write_file q p b s1))).
  { intro b. apply okfired_bind.
    - destruct (q_kind_unchecked q); [apply okfired_ok|].
      pose proof (stat_fired p s) as H. destruct (op_stat p s) as [r s1]. simpl in H.
      destruct r as [[[?|]| |]|]; try apply okfired_err; intros s' [= <-]; auto.
    - intros s1 _. destruct dry; [apply okfired_ok|apply write_fired]. }
  destruct v; try apply okfired_err; apply G.
Qed.

Definition firedP (v : val) : Prop := forall r dry p s, okfired s (out q r dry v p s).

Lemma loop_fired es : Forall (fun kv => firedP (snd kv)) es -> forall dry p s, okfired s (out_loop q dry p es s).
Proof.
  induction 1 as [|[k v'] rest Hv _ IH]; intros dry p s; cbn [out_loop].
  - apply okfired_ok.
  - destruct (is_multi v'); [destruct (q_multi_panic q); [apply okfired_panic|apply okfired_err]|].
    destruct k; [|apply okfired_err]. destruct (join q p b); [|apply okfired_err].
    apply okfired_bind. apply Hv. intros; apply IH.
Qed.

Lemma files_fired dry d f p s : optP firedP d -> optP firedP f -> okfired s (out_files q dry d f p s).
Proof.
  intros Hd Hf. unfold out_files. destruct d as [dv|].
  - rewrite <- out_RDir. apply Hd.
  - destruct f; [apply out_file_fired|apply okfired_err].
Qed.

Lemma existing_fired dry w d f p s : optP firedP d -> optP firedP f -> okfired s (out_existing q dry w d f p s).
Proof.
  intros Hd Hf. unfold out_existing. destruct w; try apply okfired_ok; try apply okfired_err.
  - destruct (isSome d || isSome f); [apply okfired_err|]. destruct dry; [apply okfired_ok|apply rm_fired].
  - destruct (eqb (isSome d) (isSome f)); [apply okfired_err|]. destruct dry.
    + destruct (q_replace_unvalidated q); [apply okfired_ok|].
      destruct (out_files q true d f p _); try apply okfired_ok; apply okfired_err.
    + apply okfired_bind. apply rm_fired. intros. apply files_fired; auto.
  - destruct d as [dv|]; [|apply okfired_err]. rewrite <- out_RDir. apply Hd.
Qed.

Lemma out_fired : forall v, firedP v.
Proof.
  induction v using val_ind'; intros r dry p s;
    destruct r; rewrite ?out_REntry, ?out_RDir, ?out_RFile; try apply out_file_fired;
    try apply okfired_err; try (unfold out_dirv; apply do_dir_fired).
  - destruct (q_skip_unsupported q); [apply okfired_ok|apply okfired_err].
  - destruct (q_multi_panic q); [apply okfired_panic|apply okfired_err].
  - unfold out_dirv. apply okfired_bind. apply do_dir_fired. intros. apply loop_fired; auto.
  - unfold out_dirv. apply okfired_bind. apply do_dir_fired. intros. apply loop_fired; auto.
  - unfold out_tuple. destruct ifx as [conf|]; [|apply files_fired; auto].
    destruct conf; try apply okfired_err. destruct (word_of b) as [w|]; [|apply okfired_err].
    destruct (precheck q w d f); [apply okfired_err|].
    pose proof (stat_fired p s) as HS. destruct (op_stat p s) as [sr s1]. simpl in HS.
    destruct sr as [[[?|]| |]|]; try apply okfired_err.
    + intros s' E. rewrite <- HS. apply (existing_fired dry w d f p s1 H H0 s' E).
    + intros s' E. rewrite <- HS. apply (existing_fired dry w d f p s1 H H0 s' E).
    + intros s' E. rewrite <- HS. destruct w; try apply (files_fired dry d f p s1 H H0 s' E).
      apply (existing_fired dry WRemove d f p s1 H H0 s' E).
Qed.

Theorem fault_never_success v p m k s' :
  out_dir_mode q v p (init m k) = Ok s' -> fired s' = false.
Proof.
  unfold out_dir_mode. intro H.
  assert (G : okfired (init m k) (bind (out q RDir true v p (init m k)) (fun s1 => out q RDir false v p s1))).
  { apply okfired_bind. apply out_fired. intros. apply out_fired. }
  destruct v; try discriminate; apply (G s' H).
Qed.
Theorem fault_never_success_file v p m k s' :
  out_file_mode q v p (init m k) = Ok s' -> fired s' = false.
Proof. intro H. apply (out_fired v RFile false p (init m k) s' H). Qed.
End Faults.

(* ---------- (2) atomicity of the repaired writer: the dry run rejects everything the real run would ---------- *)
Definition tk (s : st) : st := snd (tick s).
Lemma tk_fs s : fs (tk s) = fs s. Proof. reflexivity. Qed.
Lemma tk_fault s : fault (tk s) = fault s. Proof. reflexivity. Qed.

Lemma op_stat_nf p s : fault s = None -> op_stat p s = (SR (stat (fs s) p), tk s).
Proof. intro H. unfold op_stat, tk, tick. rewrite H. reflexivity. Qed.

Lemma mkdir_ok c par s : fault s = None -> stat (fs s) par = SNode Dir -> lookup (c :: par) (fs s) = None ->
  op_mkdir (c :: par) s = Ok (with_fs (tk s) (set_node (c :: par) Dir (fs s))).
Proof. intros H S L. unfold op_mkdir, tk, tick. rewrite H. cbn [fs snd]. rewrite S, L. reflexivity. Qed.

Lemma rm_ok p s : fault s = None -> stat (fs s) p <> SNotDir ->
  exists s', op_removeall p s = Ok s' /\ fault s' = None /\
    fs s' = match stat (fs s) p with SNode _ => remove_subtree p (fs s) | _ => fs s end.
Proof.
  intros H S. unfold op_removeall, tick. rewrite H. cbn [fs].
  destruct (stat (fs s) p); try congruence; eexists; repeat split; reflexivity || exact H.
Qed.

Lemma write_ok q c par b s : fault s = None -> stat (fs s) par = SNode Dir -> lookup (c :: par) (fs s) <> Some Dir ->
  exists s', write_file q (c :: par) b s = Ok s'.
Proof.
  intros H S L. unfold write_file, tick, with_fs. rewrite H. cbn [fs nops fault fired]. rewrite S.
  destruct (lookup (c :: par) (fs s)) as [[?|]|]; try congruence; rewrite ?H; cbn; eexists; reflexivity.
Qed.

Lemma stat_remove p m x : underb p x = false -> stat (remove_subtree p m) x = stat m x.
Proof.
  induction x as [|d x IH]; intro U; [reflexivity|].
  assert (U' : underb p x = false).
  { destruct (underb p x) eqn:E; auto. rewrite (underb_cons _ d _ E) in U. discriminate. }
  cbn [stat]. rewrite (IH U'). rewrite lookup_remove by discriminate. rewrite U. reflexivity.
Qed.

Definition of_lookup (o : option node) : statres := match o with Some n => SNode n | None => SNoEnt end.

Lemma stat_of_lookup m c par : wf m -> (stat m par = SNode Dir \/ stat m par = SNoEnt) ->
  stat m (c :: par) = of_lookup (lookup (c :: par) m).
Proof.
  intros W [S|S]; cbn [stat]; rewrite S; [reflexivity|].
  destruct (lookup (c :: par) m) eqn:L; [|reflexivity].
  assert (P : lookup par m = Some Dir) by (apply (W c par); congruence).
  rewrite (stat_some _ _ _ W P) in S. discriminate.
Qed.

Fixpoint wfv (v : val) : Prop :=
  match v with
  | VDict es => NoDup (map fst es) /\
      (fix all (es : list (key * val)) : Prop := match es with [] => True | kv :: r => wfv (snd kv) /\ all r end) es
  | VTup _ d f => match d with Some x => wfv x | None => True end /\ match f with Some x => wfv x | None => True end
  | _ => True
  end.
Fixpoint allwf (es : list (key * val)) : Prop := match es with [] => True | kv :: r => wfv (snd kv) /\ allwf r end.
Lemma wfv_dict es : wfv (VDict es) <-> NoDup (map fst es) /\ allwf es.
Proof. cbn [wfv]. assert (E : forall es, (fix all (es : list (key * val)) : Prop := match es with [] => True | kv :: r => wfv (snd kv) /\ all r end) es = allwf es) by (induction es0; simpl; congruence). rewrite E. tauto. Qed.

Local Notation off := quirks_off.

(* the relation between the state the dry run saw (s0) and the state the real run is in (s), at entry path c :: par *)
Record sim (c : name) (par : path) (s0 s : st) : Prop := {
  sim_f0 : fault s0 = None; sim_f : fault s = None;
  sim_w0 : wf (fs s0); sim_w : wf (fs s);
  sim_par0 : stat (fs s0) par = SNode Dir \/ stat (fs s0) par = SNoEnt;
  sim_par : stat (fs s) par = SNode Dir;
  sim_agree : forall x, underb (c :: par) x = true -> lookup x (fs s0) = lookup x (fs s)
}.

Lemma sim_stat c par s0 s : sim c par s0 s ->
  stat (fs s0) (c :: par) = of_lookup (lookup (c :: par) (fs s)) /\ stat (fs s) (c :: par) = of_lookup (lookup (c :: par) (fs s)).
Proof.
  intros [? ? W0 W P0 P A]. split.
  - rewrite (stat_of_lookup _ _ _ W0 P0). rewrite (A _ (underb_refl _)). reflexivity.
  - apply stat_of_lookup; auto.
Qed.

Lemma sim_tk c par s0 s : sim c par s0 s -> sim c par (tk s0) (tk s).
Proof. intros [? ? ? ? ? ? ?]. constructor; rewrite ?tk_fs, ?tk_fault; auto. Qed.

Definition mainP (v : val) : Prop := forall r c par s0 s0' s, wfv v -> sim c par s0 s ->
  out off r true v (c :: par) s0 = Ok s0' -> exists s', out off r false v (c :: par) s = Ok s'.

Lemma main_file v c par s0 s0' s : sim c par s0 s ->
  out_file off true v (c :: par) s0 = Ok s0' -> exists s', out_file off false v (c :: par) s = Ok s'.
Proof.
  intros S. destruct (sim_stat _ _ _ _ S) as [E0 E]. pose proof S as [F0 F _ _ _ P _].
  unfold out_file. cbn [q_kind_unchecked off]. rewrite (op_stat_nf _ _ F0), (op_stat_nf _ _ F), E0, E.
  assert (G : forall b,
    bind match of_lookup (lookup (c :: par) (fs s)) with SNode Dir => Err (tk s0) | SNotDir => Err (tk s0) | _ => Ok (tk s0) end
         (fun s1 => Ok s1) = Ok s0' ->
    exists s', bind match of_lookup (lookup (c :: par) (fs s)) with SNode Dir => Err (tk s) | SNotDir => Err (tk s) | _ => Ok (tk s) end
         (fun s1 => write_file off (c :: par) b s1) = Ok s').
  { intros b H. destruct (lookup (c :: par) (fs s)) as [[?|]|] eqn:L; cbn [of_lookup bind] in *; try discriminate;
      apply write_ok; rewrite ?tk_fs, ?tk_fault; auto; congruence. }
  destruct v; try discriminate; apply G.
Qed.

Lemma main_do_dir c par s0 s0' s : sim c par s0 s -> do_dir off true (c :: par) s0 = Ok s0' ->
  s0' = tk s0 /\ (stat (fs s0) (c :: par) = SNode Dir \/ stat (fs s0) (c :: par) = SNoEnt) /\
  exists s1, do_dir off false (c :: par) s = Ok s1 /\ fault s1 = None /\ wf (fs s1) /\
    stat (fs s1) (c :: par) = SNode Dir /\ (forall x, x <> c :: par -> lookup x (fs s1) = lookup x (fs s)).
Proof.
  intros S. destruct (sim_stat _ _ _ _ S) as [E0 E]. pose proof S as [F0 F _ W _ P _].
  unfold do_dir. cbn [q_kind_unchecked q_stat_err_ignored q_dry_mkdir off andb negb].
  rewrite (op_stat_nf _ _ F0), (op_stat_nf _ _ F), E0, E.
  destruct (lookup (c :: par) (fs s)) as [[?|]|] eqn:L; cbn [of_lookup]; try discriminate.
  - intros [= <-]. repeat split; auto. exists (tk s). repeat split; auto.
  - intros [= <-]. repeat split; auto.
    rewrite mkdir_ok; rewrite ?tk_fs, ?tk_fault; auto.
    eexists; split; [reflexivity|]. cbn [with_fs fs fault]. repeat split; auto.
    + apply wf_set; auto. apply stat_node; auto.
    + apply stat_some. apply wf_set; auto. apply stat_node; auto. apply lookup_set_same.
    + intros x N. apply lookup_set_other; auto.
Qed.

Lemma bind_ok r f s' : bind r f = Ok s' -> exists s1, r = Ok s1 /\ f s1 = Ok s'.
Proof. destruct r; simpl; try discriminate. eauto. Qed.

Lemma bind_intro r f s1 s' : r = Ok s1 -> f s1 = Ok s' -> bind r f = Ok s'.
Proof. intros -> H. exact H. Qed.

Lemma dry_pure_ok v r p s s' : out off r true v p s = Ok s' -> fs s' = fs s.
Proof. intro H. pose proof (dry_pure off v r p s eq_refl) as D. rewrite H in D. exact D. Qed.
Lemma fault_out_ok dry v r p s s' : out off r dry v p s = Ok s' -> fault s' = fault s.
Proof. intro H. pose proof (fault_out off dry v r p s) as D. rewrite H in D. exact D. Qed.
Lemma wf_out_ok dry v r p s s' : out off r dry v p s = Ok s' -> wf (fs s) -> wf (fs s').
Proof. intros H W. pose proof (wf_out off dry v r p s W) as D. rewrite H in D. exact D. Qed.
Lemma frame_out_ok dry v r p s s' : out off r dry v p s = Ok s' ->
  forall x, underb p x = false -> lookup x (fs s') = lookup x (fs s).
Proof. intros H. pose proof (frame_out off dry p v r p s eq_refl (underb_refl _)) as D. rewrite H in D. exact D. Qed.

Lemma key_neq_paths (b b' : bytes) : KStr b <> KStr b' -> b <> b'.
Proof. congruence. Qed.

Lemma main_loop es : Forall (fun kv => mainP (snd kv)) es -> allwf es -> NoDup (map fst es) ->
  forall p s0 s0' s, fault s0 = None -> fault s = None -> wf (fs s0) -> wf (fs s) ->
    (stat (fs s0) p = SNode Dir \/ stat (fs s0) p = SNoEnt) -> stat (fs s) p = SNode Dir ->
    (forall b x, In (KStr b) (map fst es) -> underb (b :: p) x = true -> lookup x (fs s0) = lookup x (fs s)) ->
    out_loop off true p es s0 = Ok s0' -> exists s', out_loop off false p es s = Ok s'.
Proof.
  induction 1 as [|[k v'] rest Hv _ IH]; intros AW ND p s0 s0' s F0 F W0 W P0 P A; cbn [out_loop].
  - eauto.
  - destruct AW as [Wv AW]. inversion ND as [|? ? NI ND']; subst. cbn [snd fst map] in *.
    destruct (is_multi v'); [discriminate|]. destruct k as [b|]; [|discriminate].
    unfold join. cbn [q_name_escapes off]. destruct (simple_name b); [|discriminate].
    intro H. apply bind_ok in H as (s01 & H1 & H2).
    assert (S : sim b p s0 s).
    { constructor; auto. intros x U. apply (A b x); auto. left; reflexivity. }
    destruct (Hv REntry b p s0 s01 s Wv S H1) as [s1 R1].
    cut (exists s', out_loop off false p rest s1 = Ok s'); [intros [s' E]; exists s'; apply (bind_intro _ _ s1); [exact R1|exact E]|].
    pose proof (dry_pure_ok _ _ _ _ _ H1) as D.
    pose proof (fault_out_ok _ _ _ _ _ _ H1) as D2.
    pose proof (fault_out_ok _ _ _ _ _ _ R1) as D3.
    pose proof (wf_out_ok _ _ _ _ _ _ R1 W) as D4.
    pose proof (frame_out_ok _ _ _ _ _ _ R1) as D5.
    apply (IH AW ND' p s01 s0' s1); try congruence.
    + rewrite D; auto.
    + exact D4.
    + apply stat_some; auto. rewrite D5 by apply underb_child_self. apply stat_node; auto.
    + intros b' x I U. rewrite D. rewrite D5.
      * apply (A b' x); auto. right; auto.
      * apply (underb_siblings b' b p x); auto. intros ->. contradiction.
Qed.

Lemma main_dirv v c par s0 s0' s :
  (forall es, v = VDict es -> Forall (fun kv => mainP (snd kv)) es) -> wfv v -> sim c par s0 s ->
  out_dirv off true v (c :: par) s0 = Ok s0' -> exists s', out_dirv off false v (c :: par) s = Ok s'.
Proof.
  intros HF Wv S. unfold out_dirv. destruct v; try discriminate.
  - intro H. destruct (main_do_dir _ _ _ _ _ S H) as (_ & _ & s1 & R & _). eauto.
  - intro H. apply bind_ok in H as (s01 & H1 & H2).
    destruct (main_do_dir _ _ _ _ _ S H1) as (-> & P0 & s1 & R & F1 & W1 & P1 & A1).
    cut (exists s', out_loop off false (c :: par) es s1 = Ok s'); [intros [s' E]; exists s'; apply (bind_intro _ _ s1); [exact R|exact E]|].
    apply wfv_dict in Wv as [ND AW]. pose proof S as [F0 F W0 W _ _ A].
    apply (main_loop es (HF es eq_refl) AW ND (c :: par) (tk s0) s0' s1); rewrite ?tk_fs, ?tk_fault; auto.
    intros b x I U. rewrite A1.
    + apply A. eapply underb_up; eauto.
    + intros ->. rewrite underb_child_self in U. discriminate.
Qed.

Lemma main_files d f c par s0 s0' s :
  optP mainP d -> optP mainP f ->
  match d with Some x => wfv x | None => True end -> match f with Some x => wfv x | None => True end ->
  sim c par s0 s ->
  out_files off true d f (c :: par) s0 = Ok s0' -> exists s', out_files off false d f (c :: par) s = Ok s'.
Proof.
  intros Hd Hf Wd Wf S. unfold out_files. destruct d as [dv|].
  - rewrite <- !out_RDir. apply Hd; auto.
  - destruct f as [fv|]; [|discriminate]. apply main_file; auto.
Qed.

Lemma main_existing w d f c par s0 s0' s :
  optP mainP d -> optP mainP f ->
  match d with Some x => wfv x | None => True end -> match f with Some x => wfv x | None => True end ->
  sim c par s0 s -> (w = WRemove \/ exists n, stat (fs s) (c :: par) = SNode n) ->
  out_existing off true w d f (c :: par) s0 = Ok s0' -> exists s', out_existing off false w d f (c :: par) s = Ok s'.
Proof.
  intros Hd Hf Wd Wf S HW. unfold out_existing. cbn [q_replace_unvalidated off].
  destruct (sim_stat _ _ _ _ S) as [E0 E]. pose proof S as [F0 F W0 W P0 P A].
  destruct w; try discriminate; eauto.
  - destruct (isSome d || isSome f); [discriminate|]. intros _.
    destruct (rm_ok (c :: par) s F) as (s' & R & _); eauto.
    rewrite E. destruct (lookup (c :: par) (fs s)); discriminate.
  - destruct (eqb (isSome d) (isSome f)); [discriminate|].
    destruct (out_files off true d f (c :: par) _) as [sx| |] eqn:V; try discriminate. intros _.
    destruct HW as [HW|[n HW]]; [discriminate|].
    destruct (rm_ok (c :: par) s F) as (s2 & R & F2 & M2); [rewrite HW; discriminate|].
    rewrite HW in M2.
    cut (exists s', out_files off false d f (c :: par) s2 = Ok s');
      [intros [s' X]; exists s'; apply (bind_intro _ _ s2); [exact R|exact X]|].
    eapply (main_files d f c par _ sx s2 Hd Hf Wd Wf); [|exact V].
    constructor; cbn [fs fault]; auto.
    + apply wf_remove; auto.
    + rewrite M2. apply wf_remove; auto.
    + rewrite stat_remove by apply underb_child_self. auto.
    + rewrite M2. rewrite stat_remove by apply underb_child_self. auto.
    + intros x U. rewrite M2. destruct x as [|e x]; [discriminate U|].
      rewrite !lookup_remove by discriminate. rewrite U. reflexivity.
  - destruct d as [dv|]; [|discriminate]. rewrite <- !out_RDir. apply Hd; auto.
Qed.

Lemma main_all : forall v, mainP v.
Proof.
  induction v using val_ind'; intros r c par s0 s0' s Wv S;
    destruct r; rewrite ?out_REntry, ?out_RDir, ?out_RFile; cbn [q_skip_unsupported q_multi_panic off];
    try (apply main_file; assumption); try discriminate;
    try (apply main_dirv; auto; intros; discriminate).
  - apply main_dirv; auto. intros es' [= <-]. exact H.
  - apply main_dirv; auto. intros es' [= <-]. exact H.
  - destruct Wv as [Wd Wf]. unfold out_tuple. destruct ifx as [conf|]; [|apply main_files; auto].
    destruct conf; try discriminate. destruct (word_of b) as [w|]; [|discriminate].
    destruct (precheck off w d f); [discriminate|].
    destruct (sim_stat _ _ _ _ S) as [E0 E]. pose proof S as [F0 F _ _ _ _ _].
    rewrite (op_stat_nf _ _ F0), (op_stat_nf _ _ F), E0, E.
    pose proof (sim_tk _ _ _ _ S) as S'.
    destruct (lookup (c :: par) (fs s)) as [n|] eqn:L; cbn [of_lookup].
    + apply main_existing; auto. right. exists n. rewrite tk_fs, E. reflexivity.
    + destruct w; try (apply main_files; auto). apply main_existing; auto.
Qed.

Lemma dirv_parent_missing v c par s : fault s = None -> stat (fs s) par <> SNode Dir ->
  match out_dirv off false v (c :: par) s with Ok _ => False | Err s' | Panic s' => fs s' = fs s end.
Proof.
  intros F P.
  assert (G : match do_dir off false (c :: par) s with Ok _ => False | Err s' | Panic s' => fs s' = fs s end).
  { unfold do_dir. rewrite (op_stat_nf _ _ F). cbn [q_kind_unchecked q_stat_err_ignored q_dry_mkdir off andb negb stat].
    destruct (stat (fs s) par) as [[?|]| |] eqn:SP; try congruence; try reflexivity.
    unfold op_mkdir, tick. rewrite tk_fault, F. cbn [fs tk tick snd]. rewrite SP. reflexivity. }
  unfold out_dirv. destruct v; try reflexivity; try exact G.
  destruct (do_dir off false (c :: par) s); cbn [bind]; auto. contradiction.
Qed.

(* atomicity of the repaired writer *)
Theorem atomic_off v c par m s' : wfv v -> wf m ->
  out_dir_mode off v (c :: par) (init m None) = Err s' -> fs s' = m.
Proof.
  intros Wv W. unfold out_dir_mode.
  assert (G : bind (out off RDir true v (c :: par) (init m None)) (fun s1 => out off RDir false v (c :: par) s1) = Err s' -> fs s' = m).
  { destruct (out off RDir true v (c :: par) (init m None)) as [s1| |] eqn:D; cbn [bind].
    - pose proof (dry_pure_ok _ _ _ _ _ D) as D1. pose proof (fault_out_ok _ _ _ _ _ _ D) as D2. cbn [init fs fault] in D1, D2.
      destruct (stat m par) as [[?|]| |] eqn:SP.
      2: { intro R. exfalso.
           assert (S : sim c par (init m None) s1).
           { constructor; cbn [init fs fault]; rewrite ?D1; auto. }
           destruct (main_all v RDir c par _ _ _ Wv S D) as [s2 R2]. congruence. }
      all: rewrite out_RDir; pose proof (dirv_parent_missing v c par s1 D2) as X; rewrite D1, SP in X;
        intro R; rewrite R in X; apply X; discriminate.
    - intros [= <-]. pose proof (dry_pure off v RDir (c :: par) (init m None) eq_refl) as X. rewrite D in X. exact X.
    - discriminate. }
  destruct v; try (intros [= <-]; reflexivity); exact G.
Qed.

(* ---------- (1) the ifExists rules, one by one (repaired model, no faults) ---------- *)
Definition cfg (w : bytes) (d f : option val) : val := VTup (Some (VStr w)) d f.

Lemma tuple_stat w wd d f dry p s : fault s = None -> word_of w = Some wd ->
  precheck off wd d f = false ->
  out off REntry dry (cfg w d f) p s =
    match stat (fs s) p with
    | SNotDir => Err (tk s)
    | SNoEnt => match wd with WRemove => out_existing off dry wd d f p (tk s) | _ => out_files off dry d f p (tk s) end
    | SNode _ => out_existing off dry wd d f p (tk s)
    end.
Proof.
  intros F Hw Hm. rewrite out_REntry. unfold cfg, out_tuple. rewrite Hw, Hm, (op_stat_nf _ _ F). reflexivity.
Qed.

Lemma rule_ignore d f dry p s n : fault s = None -> stat (fs s) p = SNode n ->
  out off REntry dry (cfg w_ignore d f) p s = Ok (tk s).
Proof. intros F S. rewrite (tuple_stat _ WIgnore) by auto. rewrite S. reflexivity. Qed.

Lemma rule_fail d f dry p s n : fault s = None -> stat (fs s) p = SNode n ->
  out off REntry dry (cfg w_fail d f) p s = Err (tk s).
Proof. intros F S. rewrite (tuple_stat _ WFail) by auto. rewrite S. reflexivity. Qed.

Lemma rule_remove p s n s' : fault s = None -> stat (fs s) p = SNode n ->
  out off REntry false (cfg w_remove None None) p s = Ok s' ->
  fs s' = remove_subtree p (fs s) /\ forall x, x <> [] -> underb p x = true -> lookup x (fs s') = None.
Proof.
  intros F S. rewrite (tuple_stat _ WRemove) by auto. rewrite S. unfold out_existing. cbn [isSome orb].
  unfold op_removeall, tick. rewrite tk_fault, F. cbn [fs tk tick snd]. rewrite S. intros [= <-]. cbn [with_fs fs].
  split; auto. intros x N U. rewrite lookup_remove, U; auto.
Qed.

Lemma rule_remove_absent p s : fault s = None -> stat (fs s) p = SNoEnt ->
  exists s', out off REntry false (cfg w_remove None None) p s = Ok s' /\ fs s' = fs s.
Proof.
  intros F S. rewrite (tuple_stat _ WRemove) by auto. rewrite S. unfold out_existing. cbn [isSome orb].
  unfold op_removeall, tick. rewrite tk_fault, F. cbn [fs tk tick snd]. rewrite S. eexists; split; reflexivity.
Qed.

Lemma rule_replace d f p s n : fault s = None -> stat (fs s) p = SNode n -> eqb (isSome d) (isSome f) = false ->
  exists s2, fault s2 = None /\ fs s2 = remove_subtree p (fs s) /\
    out off REntry false (cfg w_replace d f) p s = out_files off false d f p s2.
Proof.
  intros F S X. rewrite (tuple_stat _ WReplace) by auto. rewrite S. unfold out_existing. rewrite X.
  destruct (rm_ok p (tk s)) as (s2 & R & F2 & M2); auto. rewrite tk_fs, S; discriminate.
  rewrite tk_fs, S in M2. exists s2. rewrite R. auto.
Qed.

Lemma rule_merge dv p s n : fault s = None -> stat (fs s) p = SNode n ->
  out off REntry false (cfg w_merge (Some dv) None) p s = out off RDir false dv p (tk s).
Proof. intros F S. rewrite (tuple_stat _ WMerge) by auto. rewrite S. unfold out_existing. rewrite out_RDir. reflexivity. Qed.

Lemma rule_absent w wd d f p s : fault s = None -> stat (fs s) p = SNoEnt -> word_of w = Some wd -> wd <> WRemove ->
  precheck off wd d f = false ->
  out off REntry false (cfg w d f) p s = out off REntry false (VTup None d f) p (tk s).
Proof.
  intros F S Hw N Hm. rewrite (tuple_stat _ wd) by auto. rewrite S. rewrite (out_REntry _ _ (VTup None d f)). unfold out_tuple.
  destruct wd; congruence.
Qed.

Lemma rule_file b c par s s' : fault s = None ->
  out off RFile false (VStr b) (c :: par) s = Ok s' -> lookup (c :: par) (fs s') = Some (File b).
Proof.
  intros F. rewrite out_RFile. unfold out_file. cbn [q_kind_unchecked off]. rewrite (op_stat_nf _ _ F).
  assert (G : forall s1, fault s1 = None -> write_file off (c :: par) b s1 = Ok s' -> lookup (c :: par) (fs s') = Some (File b)).
  { intros s1 F1. unfold write_file, tick, with_fs. rewrite F1. cbn [fs nops fault fired].
    destruct (stat (fs s1) par) as [[?|]| |]; try discriminate.
    destruct (lookup (c :: par) (fs s1)) as [[?|]|]; try discriminate; rewrite ?F1; cbn; intros [= <-]; cbn [fs];
      apply lookup_set_same. }
  destruct (stat (fs s) (c :: par)) as [[?|]| |]; cbn [bind]; try discriminate; apply G; auto.
Qed.

(* ---------- statements at the level of the whole command ---------- *)
Inductive rclass := ROk | RErr | RPanic.
Definition rcls (r : res) : rclass := match r with Ok _ => ROk | Err _ => RErr | Panic _ => RPanic end.
(* same observable outcome: same class, same file system *)
Definition obs_eq (r1 r2 : res) : Prop :=
  rcls r1 = rcls r2 /\ forall x, lookup x (fs (res_st r1)) = lookup x (fs (res_st r2)).

Theorem atomic_guarded q v c par m s' : wfv v -> wf m ->
  obs_eq (out_dir_mode q v (c :: par) (init m None)) (out_dir_mode off v (c :: par) (init m None)) ->
  out_dir_mode q v (c :: par) (init m None) = Err s' -> forall x, lookup x (fs s') = lookup x m.
Proof.
  intros Wv W [C L] E x. rewrite E in *. cbn [rcls res_st] in *.
  destruct (out_dir_mode off v (c :: par) (init m None)) as [?|s2|?] eqn:O; try discriminate.
  rewrite L. cbn [res_st]. rewrite (atomic_off _ _ _ _ _ Wv W O). reflexivity.
Qed.

Theorem frame_dir_mode q v p m k x : q_name_escapes q = false -> underb p x = false ->
  lookup x (fs (res_st (out_dir_mode q v p (init m k)))) = lookup x m.
Proof.
  intros E U. unfold out_dir_mode.
  assert (G : lookup x (fs (res_st (bind (out q RDir true v p (init m k)) (fun s1 => out q RDir false v p s1)))) = lookup x m).
  { pose proof (frame_out q true p v RDir p (init m k) E (underb_refl _) x U) as H1.
    destruct (out q RDir true v p (init m k)) as [s1| |]; cbn [bind res_st] in *; auto.
    rewrite (frame_out q false p v RDir p s1 E (underb_refl _) x U). exact H1. }
  destruct v; try reflexivity; exact G.
Qed.

Theorem frame_file_mode q v c par m k x : x <> c :: par ->
  lookup x (fs (res_st (out_file_mode q v (c :: par) (init m k)))) = lookup x m.
Proof.
  intro N. unfold out_file_mode. rewrite out_RFile.
  apply (inv_out_file q false (fun s s' => lookup x (fs s') = lookup x (fs s)) (fun p => p = c :: par)); auto; try congruence.
  intros _ p0 b s0 ->.
  destruct (write_cases q (c :: par) b s0) as [_ [-> | (c' & par' & _ & _ & _ & [-> | ->])]]; auto;
    rewrite ?lookup_set_other; auto.
Qed.

Theorem file_mode_content b c par m s' :
  out_file_mode off (VStr b) (c :: par) (init m None) = Ok s' -> lookup (c :: par) (fs s') = Some (File b).
Proof. apply rule_file. reflexivity. Qed.

(* decidable well-formedness of concrete file systems *)
Definition wfb (m : fsmap) : bool :=
  forallb (fun e => match fst e with [] => true | _ :: par => match lookup par m with Some Dir => true | _ => false end end) m.
Lemma assoc_in x m n : assoc x m = Some n -> In (x, n) m.
Proof.
  induction m as [|[qq n'] m IH]; simpl; [discriminate|].
  destruct (path_eqb x qq) eqn:E. apply path_eqb_spec in E; subst. intros [= ->]. auto. auto.
Qed.
Lemma wfb_wf m : wfb m = true -> wf m.
Proof.
  intros H c p N. unfold wfb in H. rewrite forallb_forall in H.
  destruct (lookup (c :: p) m) eqn:L; [|congruence]. apply assoc_in in L. apply H in L. cbn [fst] in L.
  destruct (lookup p m) as [[?|]|]; congruence.
Qed.

(* ---------- witnesses: each quirk, alone, violates the property ---------- *)
Definition only_dry_mkdir := Build_quirks true false false false false false false false.
Definition only_skip_unsupported := Build_quirks false true false false false false false false.
Definition only_name_escapes := Build_quirks false false true false false false false false.
Definition only_replace_unvalidated := Build_quirks false false false true false false false false.
Definition only_multi_panic := Build_quirks false false false false true false false false.
Definition only_stat_err_ignored := Build_quirks false false false false false true false false.
Definition only_close_err_ignored := Build_quirks false false false false false false true false.
Definition only_kind_unchecked := Build_quirks false false false false false false false true.

Definition nW : name := [119]. Definition nO : name := [111].
Definition PATH : path := [nO; nW].                          (* /w/o *)
Definition m_fresh : fsmap := [([nW], Dir)].
Definition kA := KStr [97]. Definition kB := KStr [98]. Definition kT := KStr [116].

Ltac wfv_tac := cbn [wfv map fst snd cfg]; repeat split; repeat (constructor; simpl); try (intuition discriminate).

Lemma dry_mkdir_refuted : exists v s', wfv v /\ wf m_fresh /\
  out_dir_mode only_dry_mkdir v PATH (init m_fresh None) = Err s' /\ lookup PATH (fs s') <> lookup PATH m_fresh.
Proof.
  exists (VDict [(kB, VDict []); (KStr [122], VSetOther)]). eexists. split; [|split; [apply wfb_wf; reflexivity|split; [vm_compute; reflexivity|vm_compute; discriminate]]].
  wfv_tac.
Qed.

Lemma skip_unsupported_refuted : exists v s' s'',
  out_dir_mode only_skip_unsupported v PATH (init m_fresh None) = Ok s' /\
  out_dir_mode quirks_off v PATH (init m_fresh None) = Err s''.
Proof. exists (VDict [(KStr [110], VOther)]). do 2 eexists. split; vm_compute; reflexivity. Qed.

Lemma name_escapes_refuted : exists v s' x,
  out_dir_mode only_name_escapes v PATH (init m_fresh None) = Ok s' /\
  underb PATH x = false /\ lookup x (fs s') <> lookup x m_fresh.
Proof.
  exists (VDict [(KStr [46;46;47;101], VStr [120])]). eexists. exists [[101]; nW].
  split; [vm_compute; reflexivity|split; [reflexivity|vm_compute; discriminate]].
Qed.

Definition m_t : fsmap := [([nW], Dir); ([nO; nW], Dir); ([[116]; nO; nW], Dir); ([[107]; [116]; nO; nW], File [65])].
Lemma replace_unvalidated_refuted : exists v s', wfv v /\ wf m_t /\
  out_dir_mode only_replace_unvalidated v PATH (init m_t None) = Err s' /\
  lookup [[107]; [116]; nO; nW] (fs s') <> lookup [[107]; [116]; nO; nW] m_t.
Proof.
  exists (VDict [(kT, cfg w_replace (Some (VDict [(kA, VSetOther)])) None)]). eexists.
  split; [|split; [apply wfb_wf; reflexivity|split; [vm_compute; reflexivity|vm_compute; discriminate]]].
  wfv_tac.
Qed.

Lemma multi_panic_refuted : exists v s', out_dir_mode only_multi_panic v PATH (init m_fresh None) = Panic s'.
Proof. exists (VDict [(KOther, VMulti)]). eexists. vm_compute. reflexivity. Qed.

Lemma stat_err_ignored_refuted : exists v k s',
  out_dir_mode only_stat_err_ignored v PATH (init m_fresh (Some k)) = Ok s' /\ fired s' = true.
Proof. exists (VDict []), 0%nat. eexists. split; vm_compute; reflexivity. Qed.

Lemma close_err_ignored_refuted : exists v k s',
  out_dir_mode only_close_err_ignored v PATH (init m_fresh (Some k)) = Ok s' /\ fired s' = true.
Proof. exists (VDict [(kA, VStr [120])]), 8%nat. eexists. split; vm_compute; reflexivity. Qed.

Definition m_d : fsmap := [([nW], Dir); ([nO; nW], Dir); ([[100]; nO; nW], File [65])].
Lemma kind_unchecked_refuted : exists v s', wfv v /\ wf m_d /\
  out_dir_mode only_kind_unchecked v PATH (init m_d None) = Err s' /\
  lookup [[97]; nO; nW] (fs s') <> lookup [[97]; nO; nW] m_d.
Proof.
  exists (VDict [(kA, VStr [49]); (KStr [100], VDict [(KStr [120], VStr [50])])]). eexists.
  split; [|split; [apply wfb_wf; reflexivity|split; [vm_compute; reflexivity|vm_compute; discriminate]]].
  wfv_tac.
Qed.

(* non-vacuity: on a non-trivial description and prior state, today's code (all quirks on) agrees with the repaired model,
   succeeds, keeps the ignored file, replaces the replaced one and writes the new one *)
Definition m_nv : fsmap := [([nW], Dir); ([nO; nW], Dir); ([[116]; nO; nW], File [65]); ([[117]; nO; nW], File [66])].
Definition v_nv : val := VDict [(kA, VStr [120]); (kT, cfg w_ignore None (Some (VStr [121]))); (KStr [117], cfg w_replace None (Some (VStr [122])));
                               (KStr [100], VDict [(KStr [101], VEmpty)])].
Lemma nonvacuous : exists s' s'', wf m_nv /\
  out_dir_mode quirks_on v_nv PATH (init m_nv None) = Ok s' /\
  out_dir_mode quirks_off v_nv PATH (init m_nv None) = Ok s'' /\
  (forallb (fun x => match lookup x (fs s'), lookup x (fs s'') with
                     | Some (File a), Some (File b) => zs_eqb a b | Some Dir, Some Dir => true | None, None => true | _, _ => false end)
           (map fst (fs s') ++ map fst (fs s'')) = true) /\
  lookup [[97]; nO; nW] (fs s') = Some (File [120]) /\ lookup [[116]; nO; nW] (fs s') = Some (File [65]) /\
  lookup [[117]; nO; nW] (fs s') = Some (File [122]) /\ lookup [[101]; [100]; nO; nW] (fs s') = Some (File []).
Proof. do 2 eexists. split; [apply wfb_wf; reflexivity|]. repeat split; vm_compute; reflexivity. Qed.
