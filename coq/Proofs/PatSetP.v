(* Set patterns {lit1, .., litk, ...r} (property C09): the match succeeds exactly when every literal
   is a member, and r is bound to precisely the other members. *)
From Arrai Require Import Base.Val Spec.SetAlg Eval.Interp Proofs.ValOrder Proofs.SetAlgP Proofs.PatternP.

Definition lit_items (ws : list val) : list pitem := map (fun w => PItem (PExpr (ELit w)) None) ws.

Definition without_all (l : list val) (ws : list val) : list val :=
  fold_left (fun acc w => s_without acc (norm w)) ws l.

Lemma without_all_spec ws : forall l x, In x (without_all l ws) <-> In x l /\ ~ In x (map norm ws).
Proof.
  induction ws as [|w ws IH]; intros l x; simpl; [tauto|].
  unfold without_all in *. simpl. rewrite IH, s_without_spec. split.
  - intros [[Hin Hne] Hn]. split; [exact Hin|]. intros [E|E]; [congruence | contradiction].
  - intros [Hin Hn]. split; [split; [exact Hin | intros E; apply Hn; left; congruence] | intros E; apply Hn; right; exact E].
Qed.

Theorem set_rest_pattern_sound fuel rho ws r v sc :
  bind_pat (S (S fuel)) rho (PSet (lit_items ws ++ [PExtra (Some r)])) (D v) = Ok sc ->
  exists l, v = VSet l /\ sc = [(r, D (VSet (without_all l ws)))] /\
            forall w, In w ws -> In (norm w) l.
Proof.
  cbn [bind_pat bindF]. cbn [as_data rbind]. destruct v as [| |l]; try discriminate.
  intros H. exists l. split; [reflexivity|].
  match type of H with ?GO _ l None = _ =>
    assert (G : forall ws rem sc, GO (lit_items ws ++ [PExtra (Some r)]) rem None = Ok sc ->
                sc = [(r, D (VSet (without_all rem ws)))] /\ forall w, In w ws -> In (norm w) rem);
      [| exact (G ws l sc H)] end.
  clear H ws sc. induction ws as [|w ws IH]; intros rem sc H.
  - simpl in H. injection H as <-. split; [reflexivity | intros w []].
  - simpl in H. cbn [eval evalF rbind as_data] in H.
    destruct (vmem (norm w) rem) eqn:Em; [|discriminate].
    destruct (IH _ _ H) as [E Hin]. split; [exact E|].
    intros w' [<-|Hw']; [apply vmem_in, Em|].
    apply Hin in Hw'. apply s_without_spec in Hw'. apply Hw'.
Qed.

(* ... and conversely: if every literal is a member and no two literals denote the same value, the match succeeds *)
Theorem set_rest_pattern_complete fuel rho ws r l :
  NoDup (map norm ws) -> (forall w, In w ws -> In (norm w) l) ->
  bind_pat (S (S fuel)) rho (PSet (lit_items ws ++ [PExtra (Some r)])) (D (VSet l)) = Ok [(r, D (VSet (without_all l ws)))].
Proof.
  intros Hnd Hin. cbn [bind_pat bindF]. cbn [as_data rbind].
  match goal with |- ?GO _ l None = _ =>
    assert (G : forall ws rem, NoDup (map norm ws) -> (forall w, In w ws -> In (norm w) rem) ->
                GO (lit_items ws ++ [PExtra (Some r)]) rem None = Ok [(r, D (VSet (without_all rem ws)))]);
      [| apply G; assumption] end.
  clear Hnd Hin ws l. induction ws as [|w ws IH]; intros rem Hnd Hin.
  - reflexivity.
  - simpl. cbn [eval evalF rbind as_data].
    assert (Em : vmem (norm w) rem = true) by (apply vmem_in, Hin; left; reflexivity). rewrite Em.
    inversion Hnd as [|? ? Hnotin Hnd']; subst. apply IH; [exact Hnd'|].
    intros w' Hw'. apply s_without_spec. split; [apply Hin; right; exact Hw'|].
    intros E. apply Hnotin. rewrite <- E. apply in_map, Hw'.
Qed.
