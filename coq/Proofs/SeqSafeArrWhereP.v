(* Array.Where: for every array satisfying the invariant and every predicate (any function from the item tuple to
   true / false / error) the outcome is a value satisfying the invariant, or the predicate's ordinary error. *)
From Coq Require Import List ZArith Bool Lia ZifyBool.
From Arrai Require Import Rep.SeqSafe Proofs.SeqSafeP Proofs.SeqSafeArrP Proofs.SeqSafeArrWithP.
Import ListNotations.
Open Scope Z_scope.

Section Wh.
Variable max_alloc : Z.
Variable V : Type.
Hypothesis Hmax : 0 < max_alloc <= 281474976710656.

Notation arr := (arr V).
Notation cells := (list (option V)).

Lemma count_cons (c : option V) (t : cells) :
  count_some V (c :: t) = (if is_some c then 1 else 0) + count_some V t.
Proof. unfold count_some, len. destruct c; cbn [filter is_some length]; lia. Qed.

Lemma count_pos_has (l : cells) : count_some V l <> 0 -> has_some V l.
Proof.
  induction l as [|[x|] t IH]; intros H.
  - exfalso. apply H. reflexivity.
  - exists x. now left.
  - rewrite count_cons in H. cbn [is_some] in H. destruct IH as [x Hx]; [lia|]. exists x. now right.
Qed.

(* trimming drops holes only *)
Lemma first_some_count (l : cells) : forall i0 i, first_some V l i0 = Some i ->
  count_some V (skipn (Z.to_nat (i - i0)) l) = count_some V l.
Proof.
  induction l as [|[x|] t IH]; intros i0 i H; cbn [first_some] in H; try discriminate.
  - inversion H; subst. replace (Z.to_nat (i - i)) with O by lia. reflexivity.
  - pose proof (first_some_spec V t (i0 + 1)) as S. rewrite H in S. destruct S as [k [Ek _]].
    replace (Z.to_nat (i - i0)) with (S (Z.to_nat (i - (i0 + 1)))) by lia.
    cbn [skipn]. rewrite (IH _ _ H). rewrite count_cons. cbn [is_some]. lia.
Qed.

Lemma last_some_count (l : cells) : forall i0 acc i, last_some V l i0 acc = Some i ->
  (acc = Some i /\ count_some V l = 0) \/
  (exists m, i = i0 + Z.of_nat m /\ count_some V (firstn (S m) l) = count_some V l).
Proof.
  induction l as [|[x|] t IH]; intros i0 acc i H; cbn [last_some] in H.
  - left. split; auto.
  - right. destruct (IH _ _ _ H) as [[E C] | [m [E C]]].
    + exists O. inversion E; subst. split; [lia|]. cbn [firstn]. rewrite !count_cons, C. reflexivity.
    + exists (S m). split; [lia|]. change (firstn (S (S m)) (Some x :: t)) with (Some x :: firstn (S m) t).
      rewrite !count_cons, C. reflexivity.
  - destruct (IH _ _ _ H) as [[E C] | [m [E C]]].
    + left. split; [exact E|]. rewrite count_cons, C. reflexivity.
    + right. exists (S m). split; [lia|]. change (firstn (S (S m)) (None :: t)) with (None :: firstn (S m) t).
      rewrite !count_cons, C. reflexivity.
Qed.

(* both trimming loops on cells that hold an item: no panic; first and last cell are items afterwards; the count is kept *)
Lemma trim_both (off : Z) (vs : cells) :
  min_int <= off <= max_int -> len vs <= max_alloc -> has_some V vs ->
  exists off1 v1 v2, trim_lead V off vs = Val (off1, v1) /\ trim_trail V v1 = Val v2 /\
    min_int <= off1 <= max_int /\ hd_some V v2 = true /\ hd_some V (rev v2) = true /\
    count_some V v2 = count_some V vs /\ len v2 <= len vs.
Proof.
  intros Ho Hl Hs. unfold trim_lead.
  pose proof (first_some_spec V vs 0) as F. pose proof (first_some_count vs 0) as FC.
  destruct (first_some V vs 0) as [i|]; [|contradiction].
  destruct F as [k [Ei [Lk Hk]]]. specialize (FC i eq_refl).
  replace (Z.to_nat (i - 0)) with k in FC by lia.
  assert (Hlen : Z.of_nat k < len vs) by (unfold len; lia).
  assert (E1 : exists off1, min_int <= off1 <= max_int /\
            (if 0 <? i then v' <- slice vs i (len vs);; Val (iadd off i, v') else Val (off, vs)) = Val (off1, skipn k vs)).
  { destruct (0 <? i) eqn:Ep.
    - rewrite slice_in by lia. cbn [bind].
      exists (iadd off i). split; [unfold iadd; destruct (wrap_spec (off + i)) as [? [? ?]]; lia|].
      replace (Z.to_nat i) with k by lia.
      rewrite firstn_all2; [reflexivity|]. rewrite skipn_length. unfold len. lia.
    - exists off. split; auto. replace k with O by lia. reflexivity. }
  destruct E1 as [off1 [Ho1 E1]]. exists off1, (skipn k vs).
  set (v1 := skipn k vs) in *.
  assert (Hl1 : len v1 <= len vs) by (unfold v1, len; rewrite skipn_length; lia).
  unfold trim_trail.
  pose proof (last_some_spec V v1 0 None) as L. pose proof (last_some_count v1 0 None) as LC.
  destruct (last_some V v1 0 None) as [j|].
  - destruct L as [L | [m [x [Ej Nm]]]]; [discriminate|].
    destruct (LC j eq_refl) as [[Ea _] | [m2 [Ej2 C2]]]; [discriminate|].
    assert (m2 = m) by lia. subst m2.
    pose proof (nth_len V _ _ _ Nm) as Lm.
    assert (E2 : (if j <? len v1 - 1 then slice v1 0 (j + 1) else Val v1) = Val (firstn (S m) v1)).
    { destruct (j <? len v1 - 1) eqn:Ej3.
      - rewrite slice_in by (unfold len in *; lia). simpl skipn.
        replace (Z.to_nat (j + 1 - 0)) with (S m) by lia. reflexivity.
      - rewrite firstn_all2; [reflexivity|]. unfold len in *. lia. }
    exists (firstn (S m) v1). split; [exact E1|]. split; [exact E2|]. split; [exact Ho1|].
    split; [rewrite hd_firstn; exact Hk|].
    split; [rewrite (firstn_S_nth V _ _ _ Nm), rev_app_distr; reflexivity|].
    split; [rewrite C2; exact FC|].
    unfold len in *. rewrite firstn_length. lia.
  - destruct L as [_ L]. exfalso. apply L. now apply hd_some_in.
Qed.

(* the loop over the cells: the result keeps its length and the counter stays the number of items *)
Lemma arr_where_loop_spec (p : Z -> V -> option bool) (off : Z) :
  forall src pre cnt, len (pre ++ src) <= max_alloc -> cnt = count_some V (pre ++ src) ->
    okv (arr_where_loop V p off src (len pre) (pre ++ src) cnt)
        (fun r => snd r = count_some V (fst r) /\ len (fst r) = len (pre ++ src)).
Proof.
  induction src as [|c t IH]; intros pre cnt Hl Hc.
  - cbn [arr_where_loop okv fst snd]. auto.
  - assert (Estep : forall c', (pre ++ [c']) ++ t = pre ++ c' :: t) by (intros; rewrite <- app_assoc; reflexivity).
    assert (Elen : forall c' : option V, len (pre ++ [c']) = len pre + 1) by (intros; rewrite len_app, len_single; lia).
    destruct c as [x|]; cbn [arr_where_loop].
    + destruct (p (iadd off (len pre)) x) as [[|]|]; [| |exact I].
      * specialize (IH (pre ++ [Some x]) cnt). rewrite Estep, Elen in IH. apply IH; auto.
      * pose proof (len_nonneg pre). pose proof (len_nonneg t).
        rewrite upd_in by (rewrite len_app, len_cons; lia). cbn [bind].
        replace (Z.to_nat (len pre)) with (length pre + 0)%nat by (unfold len; lia).
        rewrite set_nth_app. cbn [set_nth].
        specialize (IH (pre ++ [None]) (isub cnt 1)). rewrite Estep, Elen in IH.
        assert (Hlen' : len (pre ++ None :: t) = len (pre ++ Some x :: t)) by (rewrite !len_app, !len_cons; reflexivity).
        rewrite <- Hlen'. apply IH; [rewrite Hlen'; exact Hl|].
        rewrite Hc, !count_app, !count_cons. cbn [is_some].
        pose proof (count_some_bounds V pre). pose proof (count_some_bounds V t).
        rewrite len_app, len_cons in Hl. wsolve.
    + specialize (IH (pre ++ [None]) cnt). rewrite Estep, Elen in IH. apply IH; auto.
Qed.

Theorem arr_where_safe (a : arr) (p : Z -> V -> option bool) : inv_arr max_alloc V a ->
  okv (arr_where max_alloc V a p) (inv max_alloc V).
Proof.
  intros [H1 [H2 [Hc [Hl Ho]]]]. unfold arr_where.
  rewrite clone_ok by assumption. cbn [bind].
  pose proof (arr_where_loop_spec p (aoff V a) (avals V a) [] (acnt V a)) as L.
  cbn [app] in L. change (len []) with 0 in L. specialize (L Hl Hc).
  destruct (arr_where_loop V p (aoff V a) (avals V a) 0 (avals V a) (acnt V a)) as [[rv cnt]| | |]; cbn [okv] in L; try contradiction; [|exact I].
  cbn [fst snd] in L. destruct L as [Ecnt Elen]. cbn [bind].
  destruct (cnt =? 0) eqn:E0; [exact I|].
  assert (Hs : has_some V rv) by (apply count_pos_has; lia).
  destruct (trim_both (aoff V a) rv Ho ltac:(lia) Hs) as [off1 [v1 [v2 [T1 [T2 [Ro [Hh [Hr [Cn Ln]]]]]]]]].
  rewrite T1. cbn [bind]. rewrite T2. cbn [bind okv].
  unfold inv, inv_arr. cbn [avals aoff acnt].
  repeat split; auto; lia.
Qed.

End Wh.
