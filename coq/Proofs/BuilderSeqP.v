(* The sequence finishers of the set builder (asString, asBytes, asArray in Rep/Builder.v) denote exactly the
   members they are given, inside the well-formed region (no two different payloads at one index, characters not
   negative, byte indices without gaps). *)
From Arrai Require Import Base.Val Spec.SetAlg Proofs.ValOrder Proofs.SetAlgP Proofs.CanonP Rep.Builder Proofs.BuilderP.

(* ---------- set_nth ---------- *)
Lemma set_nth_length {A} (x : A) l : forall n, length (set_nth n x l) = length l.
Proof. induction l as [|y l IH]; intros [|n]; cbn [set_nth length]; try reflexivity. rewrite IH. reflexivity. Qed.

Lemma nth_error_set_nth_eq {A} (x : A) l : forall n, (n < length l)%nat -> nth_error (set_nth n x l) n = Some x.
Proof.
  induction l as [|y l IH]; intros [|n] H; cbn [length] in H; try lia; cbn [set_nth nth_error]; [reflexivity|].
  apply IH. lia.
Qed.

Lemma nth_error_set_nth_neq {A} (x : A) l : forall n i, i <> n -> nth_error (set_nth n x l) i = nth_error l i.
Proof.
  induction l as [|y l IH]; intros [|n] [|i] H; cbn [set_nth nth_error]; try reflexivity; try congruence.
  apply IH. congruence.
Qed.

(* ---------- writing a list of (index, value) pairs into a slice ---------- *)
Section Write.
  Context {A : Type}.
  Definition write_all (lo : Z) (ws : list (Z * A)) (init : list A) : list A :=
    fold_left (fun st p => set_nth (Z.to_nat (fst p - lo)) (snd p) st) ws init.

  Lemma write_all_snoc lo ws p init :
    write_all lo (ws ++ [p]) init = set_nth (Z.to_nat (fst p - lo)) (snd p) (write_all lo ws init).
  Proof. unfold write_all. rewrite fold_left_app. reflexivity. Qed.

  Lemma write_all_length lo ws : forall init, length (write_all lo ws init) = length init.
  Proof.
    induction ws as [|p ws IH] using rev_ind; intros init; [reflexivity|].
    rewrite write_all_snoc, set_nth_length. apply IH.
  Qed.

  Definition in_range (lo : Z) (n : nat) (ws : list (Z * A)) : Prop :=
    forall a x, In (a, x) ws -> lo <= a < lo + Z.of_nat n.

  (* a cell that was written holds one of the values written at its index *)
  Lemma write_all_written lo ws : forall init i,
    in_range lo (length init) ws -> (i < length init)%nat ->
    (exists x, In (lo + Z.of_nat i, x) ws) ->
    exists x', In (lo + Z.of_nat i, x') ws /\ nth_error (write_all lo ws init) i = Some x'.
  Proof.
    induction ws as [|[a y] ws IH] using rev_ind; intros init i Hr Hi [x Hx]; [destruct Hx|].
    rewrite write_all_snoc. cbn [fst snd].
    assert (Hra : lo <= a < lo + Z.of_nat (length init)) by (apply (Hr a y); apply in_or_app; right; left; reflexivity).
    assert (Hr' : in_range lo (length init) ws) by (intros a0 x0 H0; apply (Hr a0 x0); apply in_or_app; left; exact H0).
    destruct (Nat.eq_dec i (Z.to_nat (a - lo))) as [Heq|Hne].
    - exists y. split.
      + replace (lo + Z.of_nat i) with a by (subst i; rewrite Z2Nat.id by lia; lia). apply in_or_app. right. left. reflexivity.
      + rewrite Heq. apply nth_error_set_nth_eq. rewrite write_all_length. lia.
    - rewrite nth_error_set_nth_neq by exact Hne.
      apply in_app_iff in Hx. destruct Hx as [Hx|[Hx|[]]].
      + destruct (IH init i Hr' Hi (ex_intro _ x Hx)) as [x' [Hin Hn]]. exists x'. split; [apply in_or_app; left; exact Hin|exact Hn].
      + inversion Hx; subst. exfalso. apply Hne. replace (lo + Z.of_nat i - lo) with (Z.of_nat i) by lia. rewrite Nat2Z.id. reflexivity.
  Qed.

  (* a cell that was never written keeps its initial content *)
  Lemma write_all_untouched lo ws : forall init i,
    in_range lo (length init) ws -> (forall x, ~ In (lo + Z.of_nat i, x) ws) ->
    nth_error (write_all lo ws init) i = nth_error init i.
  Proof.
    induction ws as [|[a y] ws IH] using rev_ind; intros init i Hr Hno; [reflexivity|].
    rewrite write_all_snoc. cbn [fst snd].
    assert (Hra : lo <= a < lo + Z.of_nat (length init)) by (apply (Hr a y); apply in_or_app; right; left; reflexivity).
    assert (Hr' : in_range lo (length init) ws) by (intros a0 x0 H0; apply (Hr a0 x0); apply in_or_app; left; exact H0).
    rewrite nth_error_set_nth_neq.
    - apply IH; [exact Hr'|]. intros x Hx. apply (Hno x). apply in_or_app. left. exact Hx.
    - intros Heq. apply (Hno y). apply in_or_app. right. left. f_equal. subst i. rewrite Z2Nat.id by lia. lia.
  Qed.

  Lemma written_dec lo (ws : list (Z * A)) i :
    (exists x, In (lo + Z.of_nat i, x) ws) \/ (forall x, ~ In (lo + Z.of_nat i, x) ws).
  Proof.
    induction ws as [|[a y] ws IH]; [right; intros x []|].
    destruct (Z.eq_dec a (lo + Z.of_nat i)) as [->|Hne]; [left; exists y; left; reflexivity|].
    destruct IH as [[x Hx]|Hno]; [left; exists x; right; exact Hx|].
    right. intros x [Hx|Hx]; [inversion Hx; subst; apply Hne; reflexivity|apply (Hno x); exact Hx].
  Qed.
End Write.

(* ---------- min / max of the indices ---------- *)
Lemma zmin_list_le l : forall d, zmin_list d l <= d /\ forall x, In x l -> zmin_list d l <= x.
Proof.
  unfold zmin_list. induction l as [|y l IH]; intros d; cbn [fold_left]; [split; [lia|intros x []]|].
  destruct (IH (Z.min d y)) as [H1 H2]. split; [lia|]. intros x [->|Hx]; [lia|apply H2; exact Hx].
Qed.

Lemma zmax_list_ge l : forall d, d <= zmax_list d l /\ forall x, In x l -> x <= zmax_list d l.
Proof.
  unfold zmax_list. induction l as [|y l IH]; intros d; cbn [fold_left]; [split; [lia|intros x []]|].
  destruct (IH (Z.max d y)) as [H1 H2]. split; [lia|]. intros x [->|Hx]; [lia|apply H2; exact Hx].
Qed.

(* ---------- members of a cell list ---------- *)
Lemma seq_vals_in k cs : forall off v,
  In v (seq_vals k off cs) <-> exists i x, nth_error cs i = Some (Some x) /\ v = vpair k (vint (off + Z.of_nat i)) x.
Proof.
  induction cs as [|c cs IH]; intros off v; cbn [seq_vals].
  - split; [intros []|intros [[|i] [x [H _]]]; discriminate].
  - destruct c as [y|].
    + cbn [In]. rewrite IH. split.
      * intros [<-|[i [x [Hn ->]]]].
        -- exists O, y. split; [reflexivity|]. f_equal. f_equal. replace (off + Z.of_nat 0) with off by lia. reflexivity.
        -- exists (S i), x. split; [exact Hn|]. replace (off + 1 + Z.of_nat i) with (off + Z.of_nat (S i)) by lia. reflexivity.
      * intros [[|i] [x [Hn ->]]].
        -- left. cbn [nth_error] in Hn. inversion Hn; subst. replace (off + Z.of_nat 0) with off by lia. reflexivity.
        -- right. exists i, x. split; [exact Hn|]. replace (off + 1 + Z.of_nat i) with (off + Z.of_nat (S i)) by lia. reflexivity.
    + rewrite IH. split.
      * intros [i [x [Hn ->]]]. exists (S i), x. split; [exact Hn|]. replace (off + 1 + Z.of_nat i) with (off + Z.of_nat (S i)) by lia. reflexivity.
      * intros [[|i] [x [Hn ->]]]; [discriminate|]. exists i, x. split; [exact Hn|]. replace (off + 1 + Z.of_nat i) with (off + Z.of_nat (S i)) by lia. reflexivity.
Qed.

Lemma nth_error_repeat {A} (x : A) n i : (i < n)%nat -> nth_error (repeat x n) i = Some x.
Proof. revert i. induction n as [|n IH]; intros [|i] H; try lia; cbn [repeat nth_error]; [reflexivity|apply IH; lia]. Qed.

(* ---------- arrays ---------- *)
Definition item_pairs (vs : list rep) : list (Z * option rep) :=
  flat_map (fun v => match v with RTupItem a x => [(a, Some x)] | _ => [] end) vs.

Definition all_items (vs : list rep) : Prop := forall v, In v vs -> exists a x, v = RTupItem a x.

Lemma finish_array_cells vs lo : forall init cnt,
  fst (fold_left (fun (st : list (option rep) * Z) (v : rep) =>
        match v with
        | RTupItem a x =>
            (set_nth (Z.to_nat (a - lo)) (Some x) (fst st),
             match nth (Z.to_nat (a - lo)) (fst st) None with None => snd st + 1 | Some _ => snd st end)
        | _ => st
        end) vs (init, cnt)) = write_all lo (item_pairs vs) init.
Proof.
  induction vs as [|v vs IH]; intros init cnt; [reflexivity|].
  cbn [fold_left]. destruct v; cbn [item_pairs flat_map app]; try apply IH.
  all: unfold write_all; cbn [fold_left fst snd]; apply IH.
Qed.

Lemma item_pairs_in vs a x : In (a, Some x) (item_pairs vs) <-> In (RTupItem a x) vs.
Proof.
  unfold item_pairs. rewrite in_flat_map. split.
  - intros [v [Hv Hin]]. destruct v; cbn [In] in Hin; try contradiction. destruct Hin as [Hin|[]]. inversion Hin; subst. exact Hv.
  - intros H. exists (RTupItem a x). split; [exact H|left; reflexivity].
Qed.

Lemma item_pairs_some vs a o : In (a, o) (item_pairs vs) -> exists x, o = Some x /\ In (RTupItem a x) vs.
Proof.
  unfold item_pairs. rewrite in_flat_map. intros [v [Hv Hin]]. destruct v; cbn [In] in Hin; try contradiction.
  destruct Hin as [Hin|[]]. inversion Hin; subst. eexists. split; [reflexivity|exact Hv].
Qed.

Theorem finish_array_denotes_members vs :
  vs <> [] -> all_items vs ->
  (forall a x x', In (RTupItem a x) vs -> In (RTupItem a x') vs -> abs x = abs x') ->
  denotes_members (finish_array vs) vs.
Proof.
  intros Hne Hall Hcoll v. destruct vs as [|v0 vs']; [contradiction|]. set (vs := v0 :: vs') in *.
  unfold finish_array, vs. cbv beta iota zeta. fold vs.
  set (lo := zmin_list (seq_at v0) (map seq_at vs)). set (hi := zmax_list (seq_at v0) (map seq_at vs)).
  set (n := Z.to_nat (hi - lo + 1)).
  cbn [abs]. rewrite mkset_elems.
  rewrite (finish_array_cells vs lo (repeat None n) 0).
  assert (Hlohi : forall a x, In (RTupItem a x) vs -> lo <= a <= hi).
  { intros a x Hin. split.
    - apply (proj2 (zmin_list_le (map seq_at vs) (seq_at v0))). apply in_map_iff. exists (RTupItem a x). split; [reflexivity|exact Hin].
    - apply (proj2 (zmax_list_ge (map seq_at vs) (seq_at v0))). apply in_map_iff. exists (RTupItem a x). split; [reflexivity|exact Hin]. }
  assert (Hr : in_range lo (length (repeat (@None rep) n)) (item_pairs vs)).
  { intros a o Hin. apply item_pairs_some in Hin. destruct Hin as [x [-> Hx]]. rewrite repeat_length.
    pose proof (Hlohi a x Hx). unfold n. rewrite Z2Nat.id by lia. lia. }
  rewrite seq_vals_in. split.
  - intros [i [x [Hn ->]]]. rewrite nth_error_map in Hn.
    destruct (nth_error (write_all lo (item_pairs vs) (repeat None n)) i) as [[y|]|] eqn:Ec; cbn [option_map] in Hn; try discriminate.
    inversion Hn; subst x.
    assert (Hi : (i < length (repeat (@None rep) n))%nat).
    { rewrite <- (write_all_length lo (item_pairs vs)). apply nth_error_Some. rewrite Ec. discriminate. }
    destruct (written_dec lo (item_pairs vs) i) as [Hw|Hno].
    + destruct (write_all_written lo _ _ i Hr Hi Hw) as [o [Hin Hc]]. rewrite Ec in Hc. inversion Hc; subst o.
      apply item_pairs_in in Hin. apply in_map_iff. exists (RTupItem (lo + Z.of_nat i) y). split; [reflexivity|exact Hin].
    + rewrite (write_all_untouched lo _ _ i Hr Hno) in Ec. rewrite repeat_length in Hi. rewrite (nth_error_repeat None n i Hi) in Ec. discriminate.
  - intros Hin. apply in_map_iff in Hin. destruct Hin as [m [<- Hm]]. destruct (Hall m Hm) as [a [x ->]].
    pose proof (Hlohi a x Hm) as Hb.
    set (i := Z.to_nat (a - lo)).
    assert (Hi : (i < length (repeat (@None rep) n))%nat) by (rewrite repeat_length; unfold i, n; lia).
    assert (Ha : a = lo + Z.of_nat i) by (unfold i; rewrite Z2Nat.id by lia; lia).
    assert (Hw : exists o, In (lo + Z.of_nat i, o) (item_pairs vs)).
    { exists (Some x). rewrite <- Ha. apply item_pairs_in. exact Hm. }
    destruct (write_all_written lo _ _ i Hr Hi Hw) as [o [Hin Hc]].
    apply item_pairs_some in Hin. destruct Hin as [x' [-> Hx']].
    exists i, (abs x'). split.
    + rewrite nth_error_map, Hc. reflexivity.
    + cbn [abs]. rewrite <- Ha. rewrite <- Ha in Hx'. rewrite (Hcoll a x x' Hm Hx'). reflexivity.
Qed.

(* ---------- strings ---------- *)
Definition char_pairs (vs : list rep) : list (Z * Z) :=
  flat_map (fun v => match v with RTupChar a c => [(a, c)] | _ => [] end) vs.
Definition all_chars (vs : list rep) : Prop := forall v, In v vs -> exists a c, v = RTupChar a c /\ 0 <= c.

Lemma finish_string_cells vs lo : forall init cnt,
  fst (fold_left (fun (st : list Z * Z) (v : rep) =>
        match v with
        | RTupChar a c =>
            (set_nth (Z.to_nat (a - lo)) c (fst st),
             if nth (Z.to_nat (a - lo)) (fst st) 0 <? 0 then snd st - 1 else snd st)
        | _ => st
        end) vs (init, cnt)) = write_all lo (char_pairs vs) init.
Proof.
  induction vs as [|v vs IH]; intros init cnt; [reflexivity|].
  cbn [fold_left]. destruct v; cbn [char_pairs flat_map app]; try apply IH.
  all: unfold write_all; cbn [fold_left fst snd]; apply IH.
Qed.

Lemma char_pairs_in vs a c : In (a, c) (char_pairs vs) <-> In (RTupChar a c) vs.
Proof.
  unfold char_pairs. rewrite in_flat_map. split.
  - intros [v [Hv Hin]]. destruct v; cbn [In] in Hin; try contradiction. destruct Hin as [Hin|[]]. inversion Hin; subst. exact Hv.
  - intros H. exists (RTupChar a c). split; [exact H|left; reflexivity].
Qed.

Theorem finish_string_denotes_members vs :
  vs <> [] -> all_chars vs ->
  (forall a c c', In (RTupChar a c) vs -> In (RTupChar a c') vs -> c = c') ->
  denotes_members (finish_string vs) vs.
Proof.
  intros Hne Hall Hcoll v. destruct vs as [|v0 vs']; [contradiction|]. set (vs := v0 :: vs') in *.
  unfold finish_string, vs. cbv beta iota zeta. fold vs.
  set (lo := zmin_list (seq_at v0) (map seq_at vs)). set (hi := zmax_list (seq_at v0) (map seq_at vs)).
  set (n := Z.to_nat (hi - lo + 1)).
  cbn [abs]. rewrite mkset_elems.
  rewrite (finish_string_cells vs lo (repeat (-1) n) (Z.of_nat n)).
  assert (Hlohi : forall a c, In (RTupChar a c) vs -> lo <= a <= hi).
  { intros a c Hin. split.
    - apply (proj2 (zmin_list_le (map seq_at vs) (seq_at v0))). apply in_map_iff. exists (RTupChar a c). split; [reflexivity|exact Hin].
    - apply (proj2 (zmax_list_ge (map seq_at vs) (seq_at v0))). apply in_map_iff. exists (RTupChar a c). split; [reflexivity|exact Hin]. }
  assert (Hr : in_range lo (length (repeat (-1) n)) (char_pairs vs)).
  { intros a c Hin. apply char_pairs_in in Hin. rewrite repeat_length.
    pose proof (Hlohi a c Hin). unfold n. rewrite Z2Nat.id by lia. lia. }
  rewrite seq_vals_in. split.
  - intros [i [x [Hn ->]]]. rewrite nth_error_map in Hn.
    destruct (nth_error (write_all lo (char_pairs vs) (repeat (-1) n)) i) as [c|] eqn:Ec; cbn [option_map] in Hn; try discriminate.
    unfold str_cell in Hn. destruct (c <? 0) eqn:Eneg; try discriminate. inversion Hn; subst x.
    assert (Hi : (i < length (repeat (-1)%Z n))%nat).
    { rewrite <- (write_all_length lo (char_pairs vs)). apply nth_error_Some. rewrite Ec. discriminate. }
    destruct (written_dec lo (char_pairs vs) i) as [Hw|Hno].
    + destruct (write_all_written lo _ _ i Hr Hi Hw) as [c' [Hin Hc]]. rewrite Ec in Hc. inversion Hc; subst c'.
      apply char_pairs_in in Hin. apply in_map_iff. exists (RTupChar (lo + Z.of_nat i) c). split; [reflexivity|exact Hin].
    + rewrite (write_all_untouched lo _ _ i Hr Hno) in Ec. rewrite repeat_length in Hi. rewrite (nth_error_repeat (A:=Z) (-1) n i Hi) in Ec.
      inversion Ec; subst c. discriminate.
  - intros Hin. apply in_map_iff in Hin. destruct Hin as [m [<- Hm]]. destruct (Hall m Hm) as [a [c [-> Hc0]]].
    pose proof (Hlohi a c Hm) as Hb.
    set (i := Z.to_nat (a - lo)).
    assert (Hi : (i < length (repeat (-1)%Z n))%nat) by (rewrite repeat_length; unfold i, n; lia).
    assert (Ha : a = lo + Z.of_nat i) by (unfold i; rewrite Z2Nat.id by lia; lia).
    assert (Hw : exists o, In (lo + Z.of_nat i, o) (char_pairs vs)).
    { exists c. rewrite <- Ha. apply char_pairs_in. exact Hm. }
    destruct (write_all_written lo _ _ i Hr Hi Hw) as [c' [Hin Hcell]].
    apply char_pairs_in in Hin. rewrite <- Ha in Hin. pose proof (Hcoll a c c' Hm Hin) as Heq. subst c'.
    exists i, (vint c). split.
    + rewrite nth_error_map, Hcell. cbn [option_map]. unfold str_cell.
      destruct (c <? 0) eqn:E; [apply Z.ltb_lt in E; lia|reflexivity].
    + cbn [abs]. rewrite <- Ha. reflexivity.
Qed.

(* ---------- byte arrays ---------- *)
Definition byte_pairs (vs : list rep) : list (Z * Z) :=
  flat_map (fun v => match v with RTupByte a c => [(a, c)] | _ => [] end) vs.
Definition all_bytes (vs : list rep) : Prop := forall v, In v vs -> exists a c, v = RTupByte a c.

Lemma finish_bytes_cells vs lo : forall init,
  fold_left (fun (st : list Z) (v : rep) =>
        match v with
        | RTupByte a b => set_nth (Z.to_nat (a - lo)) b st
        | _ => st
        end) vs init = write_all lo (byte_pairs vs) init.
Proof.
  induction vs as [|v vs IH]; intros init; [reflexivity|].
  cbn [fold_left]. destruct v; cbn [byte_pairs flat_map app]; try apply IH.
  all: unfold write_all; cbn [fold_left fst snd]; apply IH.
Qed.

Lemma byte_pairs_in vs a c : In (a, c) (byte_pairs vs) <-> In (RTupByte a c) vs.
Proof.
  unfold byte_pairs. rewrite in_flat_map. split.
  - intros [v [Hv Hin]]. destruct v; cbn [In] in Hin; try contradiction. destruct Hin as [Hin|[]]. inversion Hin; subst. exact Hv.
  - intros H. exists (RTupByte a c). split; [exact H|left; reflexivity].
Qed.

(* no gaps: every index between the least and the greatest is the index of some member *)
Theorem finish_bytes_denotes_members vs :
  vs <> [] -> all_bytes vs ->
  (forall a c c', In (RTupByte a c) vs -> In (RTupByte a c') vs -> c = c') ->
  (forall a b c d i, In (RTupByte a c) vs -> In (RTupByte b d) vs -> a <= i <= b -> exists e, In (RTupByte i e) vs) ->
  denotes_members (finish_bytes vs) vs.
Proof.
  intros Hne Hall Hcoll Hgap v. destruct vs as [|v0 vs']; [contradiction|]. set (vs := v0 :: vs') in *.
  unfold finish_bytes, vs. cbv beta iota zeta. fold vs.
  set (lo := zmin_list (seq_at v0) (map seq_at vs)). set (hi := zmax_list (seq_at v0) (map seq_at vs)).
  set (n := Z.to_nat (hi - lo + 1)).
  cbn [abs]. rewrite mkset_elems.
  rewrite (finish_bytes_cells vs lo (repeat 0 n)).
  assert (Hlohi : forall a c, In (RTupByte a c) vs -> lo <= a <= hi).
  { intros a c Hin. split.
    - apply (proj2 (zmin_list_le (map seq_at vs) (seq_at v0))). apply in_map_iff. exists (RTupByte a c). split; [reflexivity|exact Hin].
    - apply (proj2 (zmax_list_ge (map seq_at vs) (seq_at v0))). apply in_map_iff. exists (RTupByte a c). split; [reflexivity|exact Hin]. }
  assert (Hr : in_range lo (length (repeat 0 n)) (byte_pairs vs)).
  { intros a c Hin. apply byte_pairs_in in Hin. rewrite repeat_length.
    pose proof (Hlohi a c Hin). unfold n. rewrite Z2Nat.id by lia. lia. }
  (* lo and hi are themselves indices of members *)
  assert (Hlo_in : exists c, In (RTupByte lo c) vs /\ exists d, In (RTupByte hi d) vs).
  { assert (G : forall l d, In (zmin_list d l) (d :: l) /\ In (zmax_list d l) (d :: l)).
    { unfold zmin_list, zmax_list. induction l as [|y l IH]; intros d; cbn [fold_left]; [split; left; reflexivity|].
      destruct (IH (Z.min d y)) as [H1 _]. destruct (IH (Z.max d y)) as [_ H2]. split.
      - destruct H1 as [H1|H1]; [|right; right; exact H1]. rewrite <- H1. destruct (Z.min_spec d y) as [[_ ->]|[_ ->]]; [left|right; left]; reflexivity.
      - destruct H2 as [H2|H2]; [|right; right; exact H2]. rewrite <- H2. destruct (Z.max_spec d y) as [[_ ->]|[_ ->]]; [right; left|left]; reflexivity. }
    destruct (G (map seq_at vs) (seq_at v0)) as [G1 G2]. fold lo in G1. fold hi in G2.
    assert (Hin : forall z, In z (seq_at v0 :: map seq_at vs) -> exists c, In (RTupByte z c) vs).
    { intros z [Hz|Hz].
      - destruct (Hall v0 (or_introl eq_refl)) as [a [c E]]. exists c. rewrite <- Hz. unfold vs. rewrite E. cbn [seq_at]. left. reflexivity.
      - apply in_map_iff in Hz. destruct Hz as [m [<- Hm]]. destruct (Hall m Hm) as [a [c ->]]. exists c. exact Hm. }
    destruct (Hin lo G1) as [c Hc]. destruct (Hin hi G2) as [d Hd]. exists c. split; [exact Hc|exists d; exact Hd]. }
  destruct Hlo_in as [clo [Hclo [chi Hchi]]].
  rewrite seq_vals_in. split.
  - intros [i [x [Hn ->]]]. rewrite nth_error_map in Hn.
    destruct (nth_error (write_all lo (byte_pairs vs) (repeat 0 n)) i) as [c|] eqn:Ec; cbn [option_map] in Hn; try discriminate.
    inversion Hn; subst x.
    assert (Hi : (i < length (repeat 0%Z n))%nat).
    { rewrite <- (write_all_length lo (byte_pairs vs)). apply nth_error_Some. rewrite Ec. discriminate. }
    assert (Hw : exists o, In (lo + Z.of_nat i, o) (byte_pairs vs)).
    { rewrite repeat_length in Hi. unfold n in Hi.
      destruct (Hgap lo hi clo chi (lo + Z.of_nat i) Hclo Hchi) as [e He]; [lia|]. exists e. apply byte_pairs_in. exact He. }
    destruct (write_all_written lo _ _ i Hr Hi Hw) as [c' [Hin Hc]]. rewrite Ec in Hc. inversion Hc; subst c'.
    apply byte_pairs_in in Hin. apply in_map_iff. exists (RTupByte (lo + Z.of_nat i) c). split; [reflexivity|exact Hin].
  - intros Hin. apply in_map_iff in Hin. destruct Hin as [m [<- Hm]]. destruct (Hall m Hm) as [a [c ->]].
    pose proof (Hlohi a c Hm) as Hb.
    set (i := Z.to_nat (a - lo)).
    assert (Hi : (i < length (repeat 0%Z n))%nat) by (rewrite repeat_length; unfold i, n; lia).
    assert (Ha : a = lo + Z.of_nat i) by (unfold i; rewrite Z2Nat.id by lia; lia).
    assert (Hw : exists o, In (lo + Z.of_nat i, o) (byte_pairs vs)).
    { exists c. rewrite <- Ha. apply byte_pairs_in. exact Hm. }
    destruct (write_all_written lo _ _ i Hr Hi Hw) as [c' [Hin Hcell]].
    apply byte_pairs_in in Hin. rewrite <- Ha in Hin. pose proof (Hcoll a c c' Hm Hin) as Heq. subst c'.
    exists i, (vint c). split.
    + rewrite nth_error_map, Hcell. reflexivity.
    + cbn [abs]. rewrite <- Ha. reflexivity.
Qed.

(* ---------- the String representation is a function of the set of members ---------- *)
Lemma zminmax_list_in l : forall d, In (zmin_list d l) (d :: l) /\ In (zmax_list d l) (d :: l).
Proof.
  unfold zmin_list, zmax_list. induction l as [|y l IH]; intros d; cbn [fold_left]; [split; left; reflexivity|].
  destruct (IH (Z.min d y)) as [H1 _]. destruct (IH (Z.max d y)) as [_ H2]. split.
  - destruct H1 as [H1|H1]; [|right; right; exact H1]. rewrite <- H1. destruct (Z.min_spec d y) as [[_ ->]|[_ ->]]; [left|right; left]; reflexivity.
  - destruct H2 as [H2|H2]; [|right; right; exact H2]. rewrite <- H2. destruct (Z.max_spec d y) as [[_ ->]|[_ ->]]; [right; left|left]; reflexivity.
Qed.

Lemma nth_error_ext_eq {A} (l : list A) : forall l', (forall i, nth_error l i = nth_error l' i) -> l = l'.
Proof.
  induction l as [|x l IH]; intros [|y l'] H; [reflexivity|specialize (H O); discriminate|specialize (H O); discriminate|].
  pose proof (H O) as H0. cbn [nth_error] in H0. inversion H0; subst. f_equal. apply IH. intros i. apply (H (S i)).
Qed.

Definition count_neg (l : list Z) : Z := Z.of_nat (length (filter (fun c => c <? 0) l)).

Lemma count_neg_repeat n : count_neg (repeat (-1) n) = Z.of_nat n.
Proof. unfold count_neg. induction n as [|n IH]; cbn [repeat filter length]; [reflexivity|]. cbn [Z.ltb Z.compare length]. lia. Qed.

Lemma count_neg_set_nth c l : 0 <= c -> forall i, (i < length l)%nat ->
  count_neg (set_nth i c l) = count_neg l - (if nth i l 0 <? 0 then 1 else 0).
Proof.
  intros Hc. unfold count_neg. induction l as [|y l IH]; intros [|i] Hi; cbn [length] in Hi; try lia; cbn [set_nth nth filter].
  - assert (E : c <? 0 = false) by (apply Z.ltb_ge; exact Hc). rewrite E. destruct (y <? 0); cbn [length]; lia.
  - specialize (IH i ltac:(lia)). destruct (y <? 0); cbn [length]; lia.
Qed.

(* the hole counter of asString is the number of negative cells *)
Lemma finish_string_holes vs lo : forall cells holes,
  (forall v, In v vs -> exists a c, v = RTupChar a c /\ 0 <= c /\ lo <= a < lo + Z.of_nat (length cells)) ->
  holes = count_neg cells ->
  snd (fold_left (fun (st : list Z * Z) (v : rep) =>
        match v with
        | RTupChar a c =>
            (set_nth (Z.to_nat (a - lo)) c (fst st),
             if nth (Z.to_nat (a - lo)) (fst st) 0 <? 0 then snd st - 1 else snd st)
        | _ => st
        end) vs (cells, holes)) =
  count_neg (fst (fold_left (fun (st : list Z * Z) (v : rep) =>
        match v with
        | RTupChar a c =>
            (set_nth (Z.to_nat (a - lo)) c (fst st),
             if nth (Z.to_nat (a - lo)) (fst st) 0 <? 0 then snd st - 1 else snd st)
        | _ => st
        end) vs (cells, holes))).
Proof.
  induction vs as [|v vs IH]; intros cells holes Hall Hh; cbn [fold_left fst snd]; [exact Hh|].
  destruct (Hall v (or_introl eq_refl)) as [a [c [-> [Hc Hr]]]]. cbn [fst snd].
  apply IH.
  - intros v' Hv'. destruct (Hall v' (or_intror Hv')) as [a' [c' [E [Hc' Hr']]]]. exists a', c'. rewrite set_nth_length. auto.
  - rewrite (count_neg_set_nth c cells Hc (Z.to_nat (a - lo))) by lia. rewrite Hh.
    destruct (nth (Z.to_nat (a - lo)) cells 0 <? 0); lia.
Qed.

Theorem finish_string_function_of_members vs vs' :
  vs <> [] -> all_chars vs -> all_chars vs' ->
  (forall a c c', In (RTupChar a c) vs -> In (RTupChar a c') vs -> c = c') ->
  (forall m, In m vs <-> In m vs') ->
  finish_string vs = finish_string vs'.
Proof.
  intros Hne Hall Hall' Hcoll Hsame.
  assert (Hcoll' : forall a c c', In (RTupChar a c) vs' -> In (RTupChar a c') vs' -> c = c').
  { intros a c c' H1 H2. apply (Hcoll a c c'); apply Hsame; assumption. }
  destruct vs as [|v0 vs0]; [contradiction|]. destruct vs' as [|v0' vs0']; [exfalso; apply (proj1 (Hsame v0)); left; reflexivity|].
  set (vs := v0 :: vs0) in *. set (vs' := v0' :: vs0') in *.
  unfold finish_string, vs, vs'. cbv beta iota zeta. fold vs. fold vs'.
  set (lo := zmin_list (seq_at v0) (map seq_at vs)). set (hi := zmax_list (seq_at v0) (map seq_at vs)).
  set (lo' := zmin_list (seq_at v0') (map seq_at vs')). set (hi' := zmax_list (seq_at v0') (map seq_at vs')).
  (* the index sets coincide, so do the bounds *)
  assert (Hidx : forall z, In z (seq_at v0 :: map seq_at vs) <-> In z (seq_at v0' :: map seq_at vs')).
  { assert (G : forall (w0 : rep) ws, In (seq_at w0) (map seq_at (w0 :: ws))) by (intros; left; reflexivity).
    intros z. split; intros [<-|Hz].
    - right. apply in_map_iff. exists v0. split; [reflexivity|]. apply Hsame. left. reflexivity.
    - right. apply in_map_iff in Hz. destruct Hz as [m [<- Hm]]. apply in_map_iff. exists m. split; [reflexivity|apply Hsame; exact Hm].
    - right. apply in_map_iff. exists v0'. split; [reflexivity|]. apply Hsame. left. reflexivity.
    - right. apply in_map_iff in Hz. destruct Hz as [m [<- Hm]]. apply in_map_iff. exists m. split; [reflexivity|apply Hsame; exact Hm]. }
  assert (Hle : forall (d : Z) l z, In z (d :: l) -> zmin_list d l <= z <= zmax_list d l).
  { intros d l z [<-|Hz]; split; try apply (proj1 (zmin_list_le l d)); try apply (proj1 (zmax_list_ge l d));
      [apply (proj2 (zmin_list_le l d)); exact Hz|apply (proj2 (zmax_list_ge l d)); exact Hz]. }
  assert (Elo : lo = lo').
  { pose proof (proj1 (zminmax_list_in (map seq_at vs) (seq_at v0))) as H1. pose proof (proj1 (zminmax_list_in (map seq_at vs') (seq_at v0'))) as H2.
    fold lo in H1. fold lo' in H2. apply Hidx in H1. apply Hidx in H2.
    pose proof (proj1 (Hle _ _ _ H1)). pose proof (proj1 (Hle _ _ _ H2)). fold lo in H0. fold lo' in H. lia. }
  assert (Ehi : hi = hi').
  { pose proof (proj2 (zminmax_list_in (map seq_at vs) (seq_at v0))) as H1. pose proof (proj2 (zminmax_list_in (map seq_at vs') (seq_at v0'))) as H2.
    fold hi in H1. fold hi' in H2. apply Hidx in H1. apply Hidx in H2.
    pose proof (proj2 (Hle _ _ _ H1)). pose proof (proj2 (Hle _ _ _ H2)). fold hi in H0. fold hi' in H. lia. }
  rewrite <- Elo, <- Ehi. set (n := Z.to_nat (hi - lo + 1)).
  assert (Hb : forall a c, In (RTupChar a c) vs -> lo <= a <= hi).
  { intros a c Hin. apply (Hle (seq_at v0) (map seq_at vs)). right. apply in_map_iff. exists (RTupChar a c). split; [reflexivity|exact Hin]. }
  assert (Hr : in_range lo (length (repeat (-1) n)) (char_pairs vs)).
  { intros a c Hin. apply char_pairs_in in Hin. rewrite repeat_length. pose proof (Hb a c Hin). unfold n. rewrite Z2Nat.id by lia. lia. }
  assert (Hr' : in_range lo (length (repeat (-1) n)) (char_pairs vs')).
  { intros a c Hin. apply char_pairs_in in Hin. apply Hsame in Hin. apply char_pairs_in in Hin. apply (Hr a c Hin). }
  (* the cells coincide *)
  assert (Ecells : write_all lo (char_pairs vs) (repeat (-1) n) = write_all lo (char_pairs vs') (repeat (-1) n)).
  { apply nth_error_ext_eq. intros i.
    destruct (Nat.lt_ge_cases i n) as [Hi|Hi].
    - assert (Hi' : (i < length (repeat (-1)%Z n))%nat) by (rewrite repeat_length; exact Hi).
      destruct (written_dec lo (char_pairs vs) i) as [Hw|Hno].
      + assert (Hw' : exists x, In (lo + Z.of_nat i, x) (char_pairs vs')).
        { destruct Hw as [x Hx]. exists x. apply char_pairs_in. apply Hsame. apply char_pairs_in. exact Hx. }
        destruct (write_all_written lo _ _ i Hr Hi' Hw) as [c [Hin Hc]].
        destruct (write_all_written lo _ _ i Hr' Hi' Hw') as [c' [Hin' Hc']].
        rewrite Hc, Hc'. f_equal. apply (Hcoll (lo + Z.of_nat i) c c'); [apply char_pairs_in; exact Hin|].
        apply Hsame. apply char_pairs_in. exact Hin'.
      + assert (Hno' : forall x, ~ In (lo + Z.of_nat i, x) (char_pairs vs')).
        { intros x Hx. apply (Hno x). apply char_pairs_in. apply Hsame. apply char_pairs_in. exact Hx. }
        rewrite (write_all_untouched lo _ _ i Hr Hno), (write_all_untouched lo _ _ i Hr' Hno'). reflexivity.
    - assert (E1 : nth_error (write_all lo (char_pairs vs) (repeat (-1) n)) i = None)
        by (apply nth_error_None; rewrite write_all_length, repeat_length; exact Hi).
      assert (E2 : nth_error (write_all lo (char_pairs vs') (repeat (-1) n)) i = None)
        by (apply nth_error_None; rewrite write_all_length, repeat_length; exact Hi).
      rewrite E1, E2. reflexivity. }
  assert (Hst : forall ws, (forall m, In m ws -> In m vs) ->
            forall v, In v ws -> exists a c, v = RTupChar a c /\ 0 <= c /\ lo <= a < lo + Z.of_nat (length (repeat (-1) n))).
  { intros ws Hsub v Hv. destruct (Hall v (Hsub v Hv)) as [a [c [-> Hc]]]. exists a, c. split; [reflexivity|]. split; [exact Hc|].
    pose proof (Hb a c (Hsub _ Hv)). rewrite repeat_length. unfold n. rewrite Z2Nat.id by lia. lia. }
  rewrite (finish_string_holes vs lo (repeat (-1) n) (Z.of_nat n) (Hst vs (fun m H => H)) (eq_sym (count_neg_repeat n))).
  rewrite (finish_string_holes vs' lo (repeat (-1) n) (Z.of_nat n) (Hst vs' (fun m H => proj2 (Hsame m) H)) (eq_sym (count_neg_repeat n))).
  rewrite !finish_string_cells. rewrite Ecells. reflexivity.
Qed.
