(* The dict and relation finishers of the set builder (NewDict(true, ..), relationBuilder in Rep/Builder.v) denote
   exactly the members they are given, whenever Equal is sound on the keys / values / cells involved. *)
From Arrai Require Import Base.Val Spec.SetAlg Proofs.ValOrder Proofs.SetAlgP Proofs.CanonP Rep.Builder Proofs.BuilderP.

(* ---------- frozen sets, generically ---------- *)
Section FrozenSound.
  Context {A B : Type} (eq : A -> A -> bool) (f : A -> B).

  Lemma fadd_in_gen (x : A) l y : In y (fadd eq l x) -> In y l \/ y = x.
  Proof. unfold fadd. destruct (fhas eq x l); [left; assumption|]. intros H. apply in_app_iff in H. destruct H as [H|[H|[]]]; auto. Qed.

  Lemma fadd_sound (P : A -> Prop) l x :
    (forall a b, P a -> P b -> eq a b = true -> f a = f b) -> (forall a, In a l -> P a) -> P x ->
    forall v, In v (map f (fadd eq l x)) <-> In v (map f l) \/ v = f x.
  Proof.
    intros Hs Hl Hx v. unfold fadd. destruct (fhas eq x l) eqn:Eh.
    - unfold fhas in Eh. apply existsb_exists in Eh. destruct Eh as [y [Hy Heq]].
      assert (Ha : f x = f y) by (apply Hs; [exact Hx|apply Hl; exact Hy|exact Heq]).
      split; [intros H; left; exact H|]. intros [H|H]; [exact H|]. rewrite H, Ha. apply in_map. exact Hy.
    - rewrite map_app, in_app_iff. cbn [map In]. split; [intros [H|[H|[]]]; auto|intros [H|H]; auto].
  Qed.

  Lemma fset_of_sound_gen (P : A -> Prop) vs :
    (forall a b, P a -> P b -> eq a b = true -> f a = f b) -> (forall a, In a vs -> P a) ->
    (forall a, In a (fset_of eq vs) -> P a) /\ forall v, In v (map f (fset_of eq vs)) <-> In v (map f vs).
  Proof.
    intros Hs Hvs. unfold fset_of.
    assert (G : forall ms acc, (forall a, In a acc -> P a) -> (forall a, In a ms -> P a) ->
                (forall a, In a (fold_left (fadd eq) ms acc) -> P a) /\
                forall v, In v (map f (fold_left (fadd eq) ms acc)) <-> In v (map f acc) \/ In v (map f ms)).
    { induction ms as [|m ms IH]; intros acc Hacc Hms; cbn [fold_left].
      - split; [exact Hacc|]. intros v. cbn [map In]. tauto.
      - assert (Hacc' : forall a, In a (fadd eq acc m) -> P a).
        { intros a Ha. apply fadd_in_gen in Ha. destruct Ha as [Ha| ->]; [apply Hacc; exact Ha|apply Hms; left; reflexivity]. }
        destruct (IH (fadd eq acc m) Hacc' (fun a Ha => Hms a (or_intror Ha))) as [IH1 IH2].
        split; [exact IH1|]. intros v. rewrite IH2.
        rewrite (fadd_sound P acc m Hs Hacc (Hms m (or_introl eq_refl)) v).
        change (map f (m :: ms)) with (f m :: map f ms). cbn [In]. split; [intros [[H|H]|H]; auto|intros [H|[H|H]]; auto]. }
    destruct (G vs [] (fun a (H : In a []) => match H with end) Hvs) as [G1 G2].
    split; [exact G1|]. intros v. rewrite G2. cbn [map In]. tauto.
  Qed.
End FrozenSound.

(* ---------- NewDict ---------- *)
Definition dpairs (es : list (rep * bool * list rep)) : list val :=
  flat_map (fun e => map (fun v => vpair n_value (abs (fst (fst e))) (abs v)) (snd e)) es.

Lemma dpairs_app a b : dpairs (a ++ b) = dpairs a ++ dpairs b.
Proof. unfold dpairs. apply flat_map_app. Qed.

Lemma dpairs_cons k m ws es : dpairs ((k, m, ws) :: es) = map (fun v => vpair n_value (abs k) (abs v)) ws ++ dpairs es.
Proof. reflexivity. Qed.

Lemma dict_put_spec k es :
  (dict_get rep_equal k es = None /\ forall slot, dict_put k slot es = es ++ [(k, fst slot, snd slot)]) \/
  (exists es1 k' m ws es2, es = es1 ++ (k', m, ws) :: es2 /\ rep_equal k k' = true /\
     dict_get rep_equal k es = Some (m, ws) /\ forall slot, dict_put k slot es = es1 ++ (k', fst slot, snd slot) :: es2).
Proof.
  induction es as [|[[k' m] ws] es IH]; cbn [dict_get dict_put].
  - left. split; [reflexivity|intros slot; reflexivity].
  - destruct (rep_equal k k') eqn:E.
    + right. exists [], k', m, ws, es. split; [reflexivity|]. split; [exact E|]. split; [reflexivity|intros slot; reflexivity].
    + destruct IH as [[H1 H2]|[es1 [k'' [m' [ws' [es2 [H1 [H2 [H3 H4]]]]]]]]].
      * left. split; [exact H1|]. intros slot. rewrite H2. reflexivity.
      * right. exists ((k', m, ws) :: es1), k'', m', ws', es2. split; [rewrite H1; reflexivity|]. split; [exact H2|].
        split; [exact H3|]. intros slot. rewrite H4. reflexivity.
Qed.

Lemma new_multi_cases w v :
  (rep_equal v w = true /\ new_multi w v = (false, [w])) \/ (rep_equal v w = false /\ new_multi w v = (true, [w; v])).
Proof.
  unfold new_multi, fset_of, fadd, fhas. cbn [fold_left existsb app]. rewrite orb_false_r.
  destruct (rep_equal v w); [left|right]; split; reflexivity.
Qed.

Section Dict.
  Variables PK PV : rep -> Prop.
  Hypothesis HsK : forall x y, PK x -> PK y -> rep_equal x y = true -> abs x = abs y.
  Hypothesis HsV : forall x y, PV x -> PV y -> rep_equal x y = true -> abs x = abs y.

  Definition good_entries (es : list (rep * bool * list rep)) : Prop :=
    forall k m ws, In (k, m, ws) es -> PK k /\ (forall w, In w ws -> PV w) /\ (m = false -> exists w, ws = [w]).

  Definition dict_step (es : list (rep * bool * list rep)) (e : rep) : list (rep * bool * list rep) :=
    match e with
    | RTupEntry k v =>
        match dict_get rep_equal k es with
        | Some (true, ws) => dict_put k (true, fadd rep_equal ws v) es
        | Some (false, [w]) => dict_put k (new_multi w v) es
        | Some (false, _) => es
        | None => dict_put k (false, [v]) es
        end
    | _ => es
    end.

  Lemma good_replace es1 k' m ws es2 m' ws' :
    good_entries (es1 ++ (k', m, ws) :: es2) ->
    (forall w, In w ws' -> PV w) -> (m' = false -> exists w, ws' = [w]) ->
    good_entries (es1 ++ (k', m', ws') :: es2).
  Proof.
    intros Hg Hv Hm k0 m0 ws0 Hin. apply in_app_iff in Hin. destruct Hin as [Hin|[Hin|Hin]].
    - apply (Hg k0 m0 ws0). apply in_or_app. left. exact Hin.
    - inversion Hin; subst. destruct (Hg k0 m ws) as [Hk _]; [apply in_or_app; right; left; reflexivity|].
      split; [exact Hk|]. split; assumption.
    - apply (Hg k0 m0 ws0). apply in_or_app. right. right. exact Hin.
  Qed.

  Lemma dict_step_spec es k v :
    good_entries es -> PK k -> PV v ->
    good_entries (dict_step es (RTupEntry k v)) /\
    forall x, In x (dpairs (dict_step es (RTupEntry k v))) <-> In x (dpairs es) \/ x = vpair n_value (abs k) (abs v).
  Proof.
    intros Hg Hk Hv. cbn [dict_step].
    destruct (dict_put_spec k es) as [[Hget Hput]|[es1 [k' [m [ws [es2 [Hes [Heq [Hget Hput]]]]]]]]]; rewrite Hget.
    - rewrite Hput. cbn [fst snd]. split.
      + intros k0 m0 ws0 Hin. apply in_app_iff in Hin. destruct Hin as [Hin|[Hin|[]]]; [apply (Hg k0 m0 ws0 Hin)|].
        inversion Hin; subst. split; [exact Hk|]. split; [intros w [<-|[]]; exact Hv|intros _; exists v; reflexivity].
      + intros x. rewrite dpairs_app, in_app_iff. change (dpairs [(k, false, [v])]) with [vpair n_value (abs k) (abs v)]. cbn [In].
        split; [intros [H|[H|[]]]; [left; exact H|right; symmetry; exact H]|intros [H|H]; [left; exact H|right; left; symmetry; exact H]].
    - assert (Hgk : PK k' /\ (forall w, In w ws -> PV w) /\ (m = false -> exists w, ws = [w])).
      { apply (Hg k' m ws). rewrite Hes. apply in_or_app. right. left. reflexivity. }
      destruct Hgk as [Hk' [Hws Hm]].
      assert (Hak : abs k = abs k') by (apply HsK; assumption).
      assert (Hpairs : forall m' ws', forall x,
                In x (dpairs (es1 ++ (k', m', ws') :: es2)) <->
                In x (dpairs es1) \/ In x (map (fun v0 => vpair n_value (abs k') (abs v0)) ws') \/ In x (dpairs es2)).
      { intros m' ws' x. rewrite dpairs_app, in_app_iff, dpairs_cons, in_app_iff. tauto. }
      destruct m.
      + (* multipleValues: With(value) *)
        rewrite Hput. cbn [fst snd]. split.
        * rewrite Hes in Hg. apply (good_replace _ _ _ _ _ _ _ Hg); [|intros H; discriminate].
          intros w Hw. apply fadd_in_gen in Hw. destruct Hw as [Hw| ->]; [apply Hws; exact Hw|exact Hv].
        * intros x. rewrite Hpairs. rewrite Hes, Hpairs.
          assert (Hf : forall y, In y (map abs (fadd rep_equal ws v)) <-> In y (map abs ws) \/ y = abs v)
            by (apply (fadd_sound rep_equal abs PV ws v HsV Hws Hv)).
          rewrite !in_map_iff. split.
          -- intros [H|[[w [<- Hw]]|H]]; auto.
             assert (Hy : In (abs w) (map abs (fadd rep_equal ws v))) by (apply in_map; exact Hw).
             apply Hf in Hy. destruct Hy as [Hy|Hy].
             ++ apply in_map_iff in Hy. destruct Hy as [w0 [E0 Hw0]]. left. right. left. exists w0. split; [rewrite E0; reflexivity|exact Hw0].
             ++ right. rewrite Hy, Hak. reflexivity.
          -- intros [[H|[[w [<- Hw]]|H]]|H]; auto.
             ++ right. left. assert (Hy : In (abs w) (map abs (fadd rep_equal ws v))) by (apply Hf; left; apply in_map; exact Hw).
                apply in_map_iff in Hy. destruct Hy as [w0 [E0 Hw0]]. exists w0. split; [rewrite E0; reflexivity|exact Hw0].
             ++ right. left. assert (Hy : In (abs v) (map abs (fadd rep_equal ws v))) by (apply Hf; right; reflexivity).
                apply in_map_iff in Hy. destruct Hy as [w0 [E0 Hw0]]. exists w0. split; [rewrite E0, H, Hak; reflexivity|exact Hw0].
      + destruct (Hm eq_refl) as [w ->].
        rewrite Hput. split.
        * rewrite Hes in Hg. destruct (new_multi_cases w v) as [[Evw Enm]|[Evw Enm]]; rewrite Enm; cbn [fst snd].
          -- apply (good_replace _ _ _ _ _ _ _ Hg); [intros w0 [<-|[]]; apply Hws; left; reflexivity|intros _; exists w; reflexivity].
          -- apply (good_replace _ _ _ _ _ _ _ Hg); [|intros H; discriminate].
             intros w0 [<-|[<-|[]]]; [apply Hws; left; reflexivity|exact Hv].
        * intros x. rewrite Hes, Hpairs.
          assert (Hnm : forall y, In y (map abs (snd (new_multi w v))) <-> y = abs w \/ y = abs v).
          { intros y. destruct (new_multi_cases w v) as [[Evw Enm]|[Evw Enm]]; rewrite Enm; cbn [fst snd map In].
            - assert (Hvw : abs v = abs w) by (apply HsV; [exact Hv|apply Hws; left; reflexivity|exact Evw]).
              rewrite Hvw. split; [intros [H|[]]; auto|intros [H|H]; auto].
            - split; [intros [H|[H|[]]]; auto|intros [H|H]; auto]. }
          rewrite Hpairs. cbn [map In]. rewrite !in_map_iff. split.
          -- intros [H|[[w0 [<- Hw0]]|H]]; auto.
             assert (Hy : In (abs w0) (map abs (snd (new_multi w v)))) by (apply in_map; exact Hw0).
             apply Hnm in Hy. destruct Hy as [Hy|Hy]; rewrite Hy; [left; right; left; left; reflexivity|right; rewrite Hak; reflexivity].
          -- intros [[H|[[H|[]]|H]]|H]; auto.
             ++ right. left. assert (Hy : In (abs w) (map abs (snd (new_multi w v)))) by (apply Hnm; left; reflexivity).
                apply in_map_iff in Hy. destruct Hy as [w0 [E0 Hw0]]. exists w0. split; [rewrite E0; exact H|exact Hw0].
             ++ right. left. assert (Hy : In (abs v) (map abs (snd (new_multi w v)))) by (apply Hnm; right; reflexivity).
                apply in_map_iff in Hy. destruct Hy as [w0 [E0 Hw0]]. exists w0. split; [rewrite E0, H, Hak; reflexivity|exact Hw0].
  Qed.

  Lemma dict_fold_spec vs : forall es,
    good_entries es -> (forall e, In e vs -> exists k v, e = RTupEntry k v /\ PK k /\ PV v) ->
    forall x, In x (dpairs (fold_left dict_step vs es)) <-> In x (dpairs es) \/ In x (map abs vs).
  Proof.
    induction vs as [|e vs IH]; intros es Hg Hall x; cbn [fold_left].
    - cbn [map In]. tauto.
    - destruct (Hall e (or_introl eq_refl)) as [k [v [-> [Hk Hv]]]].
      destruct (dict_step_spec es k v Hg Hk Hv) as [Hg' Hx].
      rewrite (IH _ Hg' (fun e0 H0 => Hall e0 (or_intror H0)) x). rewrite Hx.
      change (map abs (RTupEntry k v :: vs)) with (abs (RTupEntry k v) :: map abs vs). cbn [In abs].
      split; [intros [[H|H]|H]; auto|intros [H|[H|H]]; auto].
  Qed.
End Dict.

Theorem finish_dict_denotes_members vs :
  vs <> [] -> (forall e, In e vs -> exists k v, e = RTupEntry k v) ->
  (forall k v k' v', In (RTupEntry k v) vs -> In (RTupEntry k' v') vs ->
     (rep_equal k k' = true -> abs k = abs k') /\ (rep_equal v v' = true -> abs v = abs v')) ->
  denotes_members (finish_dict vs) vs.
Proof.
  intros Hne Hall Hs x. unfold finish_dict. destruct vs as [|e0 vs']; [contradiction|]. set (vs := e0 :: vs') in *.
  cbn [abs]. rewrite mkset_elems.
  set (PK := fun k => exists v, In (RTupEntry k v) vs). set (PV := fun v => exists k, In (RTupEntry k v) vs).
  assert (HsK : forall a b, PK a -> PK b -> rep_equal a b = true -> abs a = abs b).
  { intros a b [va Ha] [vb Hb]. apply (Hs a va b vb Ha Hb). }
  assert (HsV : forall a b, PV a -> PV b -> rep_equal a b = true -> abs a = abs b).
  { intros a b [ka Ha] [kb Hb]. apply (Hs ka a kb b Ha Hb). }
  change (flat_map (fun e => map (fun v => vpair n_value (abs (fst (fst e))) (abs v)) (snd e))
            (fold_left (fun es e => match e with
               | RTupEntry k v => match dict_get rep_equal k es with
                                  | Some (true, ws) => dict_put k (true, fadd rep_equal ws v) es
                                  | Some (false, [w]) => dict_put k (new_multi w v) es
                                  | Some (false, _) => es
                                  | None => dict_put k (false, [v]) es
                                  end
               | _ => es end) vs []))
    with (dpairs (fold_left dict_step vs [])).
  rewrite (dict_fold_spec PK PV HsK HsV vs []).
  - cbn [dpairs flat_map In]. tauto.
  - intros k m ws [].
  - intros e He. destruct (Hall e He) as [k [v ->]]. exists k, v. split; [reflexivity|]. split; [exists v; exact He|exists k; exact He].
Qed.

(* ---------- relationBuilder ---------- *)
Lemma name_cmp_refl a : name_cmp a a = Eq.
Proof. induction a as [|x a IH]; cbn [name_cmp]; [reflexivity|]. rewrite Z.compare_refl. exact IH. Qed.

Lemma name_eq_true a b : name_eq a b = true <-> a = b.
Proof.
  unfold name_eq. split.
  - destruct (name_cmp a b) eqn:E; try discriminate. intros _. apply name_cmp_eq. exact E.
  - intros ->. rewrite name_cmp_refl. reflexivity.
Qed.

Lemma tfind_nodup attrs : NoDup (map fst attrs) -> forall n v, In (n, v) attrs -> tfind n attrs = Some v.
Proof.
  induction attrs as [|[m w] attrs IH]; intros Hnd n v Hin; [destruct Hin|].
  cbn [map fst] in Hnd. inversion Hnd as [|? ? Hni Hnd']; subst. cbn [tfind].
  destruct Hin as [Hin|Hin].
  - inversion Hin; subst. rewrite (proj2 (name_eq_true n n) eq_refl). reflexivity.
  - destruct (name_eq n m) eqn:E.
    + apply name_eq_true in E. subst m. exfalso. apply Hni. apply in_map_iff. exists (n, v). split; [reflexivity|exact Hin].
    + apply IH; assumption.
Qed.

Lemma rel_row_self attrs : NoDup (map fst attrs) -> rel_row (map fst attrs) attrs = Some (map snd attrs).
Proof.
  intros Hnd.
  assert (G : forall l, (forall p, In p l -> In p attrs) -> rel_row (map fst l) attrs = Some (map snd l)).
  { induction l as [|[n v] l IH]; intros Hsub; cbn [map fst snd rel_row]; [reflexivity|].
    rewrite (tfind_nodup attrs Hnd n v (Hsub (n, v) (or_introl eq_refl))).
    rewrite (IH (fun p Hp => Hsub p (or_intror Hp))). reflexivity. }
  apply G. intros p Hp. exact Hp.
Qed.

Lemma combine_fst_snd (l : list (name * rep)) :
  combine (map fst l) (map abs (map snd l)) = map (fun p => (fst p, abs (snd p))) l.
Proof. induction l as [|[n v] l IH]; cbn [map combine fst snd]; [reflexivity|]. rewrite IH. reflexivity. Qed.

Lemma row_equal_sound (P : rep -> Prop) :
  (forall x y, P x -> P y -> rep_equal x y = true -> abs x = abs y) ->
  forall a b, (forall x, In x a -> P x) -> (forall y, In y b -> P y) -> row_equal a b = true -> map abs a = map abs b.
Proof.
  intros Hs. induction a as [|x a IH]; intros [|y b] Ha Hb H; cbn [row_equal] in H; try discriminate; [reflexivity|].
  apply andb_true_iff in H. destruct H as [Hxy Hr]. cbn [map]. f_equal.
  - apply Hs; [apply Ha; left; reflexivity|apply Hb; left; reflexivity|exact Hxy].
  - apply IH; [intros z Hz; apply Ha; right; exact Hz|intros z Hz; apply Hb; right; exact Hz|exact Hr].
Qed.

(* all members are generic tuples with the same duplicate-free names *)
Theorem finish_relation_denotes_members vs names s :
  vs <> [] ->
  (forall m, In m vs -> exists attrs, m = RTupG attrs /\ map fst attrs = names) -> NoDup names ->
  (forall x y, (exists a n, In (RTupG a) vs /\ In (n, x) a) -> (exists a n, In (RTupG a) vs /\ In (n, y) a) ->
     rep_equal x y = true -> abs x = abs y) ->
  finish_relation vs = BOk s -> denotes_members s vs.
Proof.
  intros Hne Hall Hnd Hs Hfin x. unfold finish_relation in Hfin. destruct vs as [|v0 vs']; [contradiction|]. set (vs := v0 :: vs') in *.
  destruct (Hall v0 (or_introl eq_refl)) as [attrs0 [-> Hn0]]. cbn [tup_attrs] in Hfin. rewrite Hn0 in Hfin.
  set (P := fun x => exists a n, In (RTupG a) vs /\ In (n, x) a).
  assert (Hrows : forall l, (forall m, In m l -> In m vs) ->
            rel_rows names l = Some (map (fun m => match m with RTupG a => map snd a | _ => [] end) l)).
  { induction l as [|m l IH]; intros Hsub; cbn [rel_rows map]; [reflexivity|].
    destruct (Hall m (Hsub m (or_introl eq_refl))) as [a [-> Hna]]. cbn [tup_attrs].
    rewrite <- Hna at 1. rewrite rel_row_self by (rewrite Hna; exact Hnd).
    rewrite (IH (fun m0 H0 => Hsub m0 (or_intror H0))). reflexivity. }
  fold vs in Hfin. rewrite (Hrows vs (fun m H => H)) in Hfin. inversion Hfin; subst s. clear Hfin.
  cbn [abs]. rewrite mkset_elems.
  set (rows := map (fun m => match m with RTupG a => map snd a | _ => [] end) vs).
  set (f := fun row : list rep => mktup (combine names (map abs row))).
  assert (Hf : forall a b, (fun r => forall z, In z r -> P z) a -> (fun r => forall z, In z r -> P z) b -> row_equal a b = true -> f a = f b).
  { intros a b Ha Hb Heq. unfold f. rewrite (row_equal_sound P Hs a b Ha Hb Heq). reflexivity. }
  assert (HP : forall r, In r rows -> forall z, In z r -> P z).
  { intros r Hr z Hz. unfold rows in Hr. apply in_map_iff in Hr. destruct Hr as [m [<- Hm]].
    destruct (Hall m Hm) as [a [-> _]]. apply in_map_iff in Hz. destruct Hz as [[n z0] [<- Hp]]. exists a, n. split; [exact Hm|exact Hp]. }
  destruct (fset_of_sound_gen row_equal f (fun r => forall z, In z r -> P z) rows Hf HP) as [_ Hfs].
  change (map (fun row => mktup (combine names (map abs row))) (fset_of row_equal rows)) with (map f (fset_of row_equal rows)).
  etransitivity; [exact (Hfs x)|]. unfold rows. rewrite map_map. rewrite !in_map_iff. split.
  - intros [m [<- Hm]]. exists m. split; [|exact Hm]. destruct (Hall m Hm) as [a [-> Hna]]. unfold f. cbn [abs].
    rewrite <- Hna. rewrite combine_fst_snd. reflexivity.
  - intros [m [<- Hm]]. exists m. split; [|exact Hm]. destruct (Hall m Hm) as [a [-> Hna]]. unfold f. cbn [abs].
    rewrite <- Hna. rewrite combine_fst_snd. reflexivity.
Qed.
