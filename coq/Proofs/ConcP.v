(* C11 proofs: the invariant method for N threads and the protocol proofs. *)
From Coq Require Import List ZArith Bool Lia Arith.
Import ListNotations.
From Arrai Require Import Sys.Conc.

Lemma upd_same : forall B (f : nat -> B) k v, upd f k v k = v.
Proof. intros; unfold upd; now rewrite Nat.eqb_refl. Qed.
Lemma upd_other : forall B (f : nat -> B) k j v, k <> j -> upd f k v j = f j.
Proof. intros; unfold upd; destruct (Nat.eqb_spec k j); congruence. Qed.

(* ------------------------------------------------------------------ *)
(* The method (Owicki-Gries over an unbounded family of threads): a shared
   invariant G and a per-thread assertion A, established initially,
   preserved by the thread's own steps, and stable under the steps of any
   other thread.  Then they hold in every reachable state of every N. *)
Section Method.
  Variable progs : tid -> list instr.
  Variable loc : var -> nat.
  Variable N : nat.
  Variable G : shared -> Prop.
  Variable A : tid -> tstate -> shared -> Prop.
  Hypothesis Hinit : G sh0 /\ forall t, A t ts0 sh0.
  Hypothesis Hlocal : forall t ts s ts' s', t < N -> G s -> A t ts s ->
      exec (progs t) t ts s = Some (ts', s') -> G s' /\ A t ts' s'.
  Hypothesis Hinterf : forall t u ts tu s ts' s', t < N -> t <> u -> G s -> A t ts s -> A u tu s ->
      exec (progs t) t ts s = Some (ts', s') -> A u tu s'.

  Theorem method_inv : forall s, reachable progs N s -> G (sh s) /\ forall t, A t (thr s t) (sh s).
  Proof.
    induction 1 as [|s s' Hr [IG IA] Hs].
    - exact Hinit.
    - destruct Hs as [s t ts' sh' Ht He]. simpl.
      destruct (Hlocal _ _ _ _ _ Ht IG (IA t) He) as [G' A'].
      split; [exact G'|]. intro u. destruct (Nat.eq_dec t u) as [->|Hne].
      + rewrite upd_same. exact A'.
      + rewrite upd_other by exact Hne.
        exact (Hinterf t u (thr s t) (thr s u) (sh s) ts' sh' Ht Hne IG (IA t) (IA u) He).
  Qed.

  Hypothesis Hexcl : forall t u ts tu s x y w1 w2, t <> u -> G s -> A t ts s -> A u tu s ->
      access (progs t) ts = Some (x, w1) -> access (progs u) tu = Some (y, w2) ->
      loc x = loc y -> (w1 || w2) = false.

  Theorem method_race_free : forall s, reachable progs N s -> ~ race progs loc N s.
  Proof.
    intros s Hr (t & u & x & y & w1 & w2 & _ & _ & Hne & Ha & Hb & Hl & Hw).
    destruct (method_inv s Hr) as [IG IA].
    rewrite (Hexcl _ _ _ _ _ _ _ _ _ Hne IG (IA t) (IA u) Ha Hb Hl) in Hw. discriminate.
  Qed.
End Method.

(* a schedule that runs is a reachable state *)
Lemma run_reachable : forall progs N sched s s',
  reachable progs N s -> Forall (fun t => t < N) sched -> run progs s sched = Some s' -> reachable progs N s'.
Proof.
  intros progs N sched; induction sched as [|t r IH]; simpl; intros s s' Hr Hf He.
  - inversion He; subst; exact Hr.
  - inversion Hf; subst. unfold run1 in He.
    destruct (exec (progs t) t (thr s t) (sh s)) as [[ts' sh']|] eqn:E; [|discriminate].
    eapply IH; [|eassumption|exact He]. eapply r_step; [exact Hr|]. constructor; assumption.
Qed.

Lemma raceb_race : forall progs loc N s t u, t < N -> u < N -> t <> u ->
  raceb progs loc s t u = true -> race progs loc N s.
Proof.
  intros progs loc N s t u Ht Hu Hne H. unfold raceb in H.
  destruct (access (progs t) (thr s t)) as [[x w1]|] eqn:E1; [|discriminate].
  destruct (access (progs u) (thr s u)) as [[y w2]|] eqn:E2; [|discriminate].
  apply andb_true_iff in H as [H1 H2]. apply Nat.eqb_eq in H1.
  exists t, u, x, y, w1, w2. repeat split; assumption.
Qed.

(* ------------------------------------------------------------------ *)
(* automation for concrete flat programs *)
Ltac destr_pc p :=
  do 24 (try (destruct p as [|p])).

Ltac exec_inv H :=
  repeat match type of H with
         | context [match ?x with _ => _ end] => destruct x eqn:?; try discriminate H
         end;
  try discriminate H;
  match type of H with Some _ = Some _ => inversion H; subst; clear H end.

Ltac fin := simpl in *; unfold upd in *; simpl in *; try tauto; try congruence; try lia; intuition (try congruence; try lia).

(* ------------------------------------------------------------------ *)
(* P1: GenericTuple lazies *)
Section TupleP.
  Variable vN : Z.
  Variable hB : Z -> Z.
  Variable bucket : tid -> bool.
  Notation progs := (tuple_progs vN hB bucket).

  Definition tuple_G (s : shared) : Prop :=
    (on s 0 = ODone -> mem s 0 = vN) /\ (on s 1 = ODone -> mem s 1 = hB vN).
  Definition tuple_An (t : tid) (ts : tstate) (s : shared) : Prop :=
    match pc ts with
    | 1 => on s 0 = ORunning t
    | 2 => on s 0 = ORunning t /\ regs ts 1 = vN
    | 3 => on s 0 = ORunning t /\ mem s 0 = vN
    | 4 => on s 0 = ODone
    | 5 => regs ts 0 = vN
    | _ => True
    end.
  Definition tuple_Ab (t : tid) (ts : tstate) (s : shared) : Prop :=
    match pc ts with
    | 1 => on s 1 = ORunning t
    | 2 => on s 1 = ORunning t /\ on s 0 = ORunning t
    | 3 => on s 1 = ORunning t /\ on s 0 = ORunning t /\ regs ts 1 = vN
    | 4 => on s 1 = ORunning t /\ on s 0 = ORunning t /\ mem s 0 = vN
    | 5 => on s 1 = ORunning t /\ on s 0 = ODone
    | 6 => on s 1 = ORunning t /\ regs ts 2 = vN
    | 7 => on s 1 = ORunning t /\ regs ts 3 = hB vN
    | 8 => on s 1 = ORunning t /\ mem s 1 = hB vN
    | 9 => on s 1 = ODone
    | 10 => regs ts 0 = hB vN
    | _ => True
    end.
  Definition tuple_A (t : tid) (ts : tstate) (s : shared) : Prop :=
    if bucket t then tuple_Ab t ts s else tuple_An t ts s.

  Lemma tuple_init : tuple_G sh0 /\ forall t, tuple_A t ts0 sh0.
  Proof. split; [split; discriminate|]. intro t; unfold tuple_A; destruct (bucket t); exact I. Qed.

  Lemma tuple_local : forall N t ts s ts' s', t < N -> tuple_G s -> tuple_A t ts s ->
      exec (progs t) t ts s = Some (ts', s') -> tuple_G s' /\ tuple_A t ts' s'.
  Proof.
    intros N t [p rg w] s ts' s' _ [G1 G2] HA He.
    unfold tuple_progs, tuple_A, tuple_G in *. destruct (bucket t);
    unfold exec, p_bucket, p_names, tuple_Ab, tuple_An in *; simpl pc in *;
    destr_pc p; simpl in He; exec_inv He; fin.
  Qed.

  Lemma tuple_interf : forall N t u ts tu s ts' s', t < N -> t <> u -> tuple_G s -> tuple_A t ts s -> tuple_A u tu s ->
      exec (progs t) t ts s = Some (ts', s') -> tuple_A u tu s'.
  Proof.
    intros N t u [p rg w] [p' rg' w'] s ts' s' _ Hne [G1 G2] HA HB He.
    unfold tuple_progs, tuple_A, tuple_G in *. destruct (bucket t); destruct (bucket u);
    unfold exec, p_bucket, p_names, tuple_Ab, tuple_An in *; simpl pc in *;
    destr_pc p; simpl in He; exec_inv He; destr_pc p'; fin.
  Qed.

  Lemma tuple_excl : forall t u ts tu s x y w1 w2, t <> u -> tuple_G s -> tuple_A t ts s -> tuple_A u tu s ->
      access (progs t) ts = Some (x, w1) -> access (progs u) tu = Some (y, w2) ->
      idloc x = idloc y -> (w1 || w2) = false.
  Proof.
    intros t u [p rg w] [p' rg' w'] s x y w1 w2 Hne [G1 G2] HA HB Ha Hb Hl.
    unfold tuple_progs, tuple_A, tuple_G, idloc in *. destruct (bucket t); destruct (bucket u);
    unfold access, p_bucket, p_names, tuple_Ab, tuple_An in *; simpl pc in *;
    destr_pc p; simpl in Ha; try discriminate Ha; inversion Ha; subst; clear Ha;
    destr_pc p'; simpl in Hb; try discriminate Hb; inversion Hb; subst; clear Hb; fin.
  Qed.
End TupleP.

Section TupleT.
  Variable vN : Z.
  Variable hB : Z -> Z.
  Variable bucket : tid -> bool.
  Notation progs := (tuple_progs vN hB bucket).

  Theorem tuple_race_free : forall N s, reachable progs N s -> ~ race progs idloc N s.
  Proof.
    intro N. apply (method_race_free progs idloc N (tuple_G vN hB) (tuple_A vN hB bucket)).
    - apply tuple_init.
    - apply tuple_local.
    - apply tuple_interf.
    - apply tuple_excl.
  Qed.

  Theorem tuple_serial_results : forall N s t, reachable progs N s -> halted progs t s ->
      result s t = tuple_serial vN hB bucket t.
  Proof.
    intros N s t Hr Hh.
    destruct (method_inv progs N (tuple_G vN hB) (tuple_A vN hB bucket)
                (tuple_init vN hB bucket) (tuple_local vN hB bucket N) (tuple_interf vN hB bucket N) s Hr) as [_ IA].
    specialize (IA t). unfold halted, result, tuple_serial, tuple_progs, tuple_A in *.
    destruct (thr s t) as [p rg w]. destruct (bucket t);
    unfold p_bucket, p_names, tuple_Ab, tuple_An in *; simpl pc in *;
    destr_pc p; simpl in Hh; try discriminate Hh; fin.
  Qed.
End TupleT.

(* ------------------------------------------------------------------ *)
(* P3: the captured err of Where, repaired version (quirk off) *)
Section WhereP.
  Variable perr : tid -> Z.
  Variable N : nat.
  Notation progs := (where_progs quirks_off perr).

  Definition where_G (s : shared) : Prop :=
    mem s 0 <> 0%Z -> exists u, u < N /\ perr u = mem s 0.
  Definition where_A (t : tid) (ts : tstate) (s : shared) : Prop :=
    match pc ts with
    | 1 => lk s 0 = Some t
    | 2 => lk s 0 = Some t /\ (regs ts 0 <> 0%Z -> mem s 0 <> 0%Z)
    | 3 => regs ts 0 <> 0%Z -> mem s 0 <> 0%Z
    | 5 => regs ts 1 = perr t
    | 6 => regs ts 1 = perr t /\ perr t <> 0%Z
    | 7 => lk s 0 = Some t /\ regs ts 1 = perr t /\ perr t <> 0%Z
    | 8 => lk s 0 = Some t /\ mem s 0 <> 0%Z
    | 9 => mem s 0 <> 0%Z \/ perr t = 0%Z
    | _ => True
    end.

  Lemma nonZero_true : forall z, nonZero z = true -> z <> 0%Z.
  Proof. unfold nonZero; intros z H; destruct (Z.eqb_spec z 0); [discriminate|assumption]. Qed.
  Lemma nonZero_false : forall z, nonZero z = false -> z = 0%Z.
  Proof. unfold nonZero; intros z H; destruct (Z.eqb_spec z 0); [assumption|discriminate]. Qed.
  Lemma isZero_true : forall z, isZero z = true -> z = 0%Z.
  Proof. unfold isZero; intros z H; now apply Z.eqb_eq. Qed.
  Lemma isZero_false : forall z, isZero z = false -> z <> 0%Z.
  Proof. unfold isZero; intros z H; now apply Z.eqb_neq. Qed.
  Lemma isNeg_true : forall z, isNeg z = true -> (z < 0)%Z.
  Proof. unfold isNeg; intros z H; now apply Z.ltb_lt. Qed.
  Lemma isNeg_false : forall z, isNeg z = false -> (z >= 0)%Z.
  Proof. unfold isNeg; intros z H; apply Z.ltb_ge in H; lia. Qed.
End WhereP.

Ltac tests :=
  repeat match goal with
         | H : nonZero _ = true |- _ => apply nonZero_true in H
         | H : nonZero _ = false |- _ => apply nonZero_false in H
         | H : isZero _ = true |- _ => apply isZero_true in H
         | H : isZero _ = false |- _ => apply isZero_false in H
         | H : isNeg _ = true |- _ => apply isNeg_true in H
         | H : isNeg _ = false |- _ => apply isNeg_false in H
         end.

Section WhereP2.
  Variable perr : tid -> Z.
  Variable N : nat.
  Notation progs := (where_progs quirks_off perr).
  Notation G := (where_G perr N).
  Notation A := where_A.

  Lemma where_init : G sh0 /\ forall t, where_A perr t ts0 sh0.
  Proof. split; [intro H; now elim H|]. intro t; exact I. Qed.

  Lemma where_local : forall t ts s ts' s', t < N -> G s -> where_A perr t ts s ->
      exec (progs t) t ts s = Some (ts', s') -> G s' /\ where_A perr t ts' s'.
  Proof.
    intros t [p rg w] s ts' s' Ht HG HA He.
    unfold where_progs, where_G, where_A, exec, p_where, guard in *; simpl pc in *.
    destr_pc p; simpl in He; exec_inv He; tests; simpl in *; unfold upd in *; simpl in *;
      try (split; [exact HG|]); try tauto; try (intuition (try congruence; try lia); fail).
    destruct HA as (H1 & H2 & H3). split; [intros _; exists t; split; [exact Ht | congruence] | split; congruence].
  Qed.
End WhereP2.

Section WhereP3.
  Variable perr : tid -> Z.
  Variable N : nat.
  Notation progs := (where_progs quirks_off perr).
  Notation G := (where_G perr N).

  Lemma where_interf : forall t u ts tu s ts' s', t < N -> t <> u -> G s -> where_A perr t ts s -> where_A perr u tu s ->
      exec (progs t) t ts s = Some (ts', s') -> where_A perr u tu s'.
  Proof.
    intros t u [p rg w] [p' rg' w'] s ts' s' _ Hne HG HA HB He.
    unfold where_progs, where_G, where_A, exec, p_where, guard in *; simpl pc in *.
    destr_pc p; simpl in He; exec_inv He; tests; destr_pc p'; fin.
  Qed.

  Lemma where_excl : forall t u ts tu s x y w1 w2, t <> u -> G s -> where_A perr t ts s -> where_A perr u tu s ->
      access (progs t) ts = Some (x, w1) -> access (progs u) tu = Some (y, w2) ->
      idloc x = idloc y -> (w1 || w2) = false.
  Proof.
    intros t u [p rg w] [p' rg' w'] s x y w1 w2 Hne HG HA HB Ha Hb Hl.
    unfold where_progs, where_G, where_A, access, p_where, guard, idloc in *; simpl pc in *.
    destr_pc p; simpl in Ha; try discriminate Ha; inversion Ha; subst; clear Ha;
    destr_pc p'; simpl in Hb; try discriminate Hb; inversion Hb; subst; clear Hb; fin.
  Qed.

  Theorem where_fixed_race_free : forall s, reachable progs N s -> ~ race progs idloc N s.
  Proof.
    apply (method_race_free progs idloc N G (where_A perr)).
    - apply where_init.
    - apply where_local.
    - apply where_interf.
    - apply where_excl.
  Qed.

  (* the error class is the serial one: err is set iff some predicate failed,
     and then it is the error of one of the failing elements *)
  Theorem where_fixed_result : forall s, reachable progs N s -> (forall t, t < N -> halted progs t s) ->
      (mem (sh s) 0 = 0%Z <-> forall t, t < N -> perr t = 0%Z) /\
      (mem (sh s) 0 <> 0%Z -> exists u, u < N /\ perr u = mem (sh s) 0).
  Proof.
    intros s Hr Hh.
    destruct (method_inv progs N G (where_A perr) (where_init perr N) (where_local perr N) where_interf s Hr) as [IG IA].
    assert (Hend : forall t, t < N -> mem (sh s) 0 <> 0%Z \/ perr t = 0%Z).
    { intros t Ht. specialize (IA t). specialize (Hh t Ht). unfold halted, where_progs, p_where, guard, where_A in *.
      destruct (thr s t) as [p rg w]; simpl pc in *. destr_pc p; simpl in Hh; try discriminate Hh. exact IA. }
    split; [split|exact IG].
    - intros H0 t Ht. destruct (Hend t Ht); congruence.
    - intros Hall. destruct (Z.eq_dec (mem (sh s) 0) 0) as [|Hn]; [assumption|].
      destruct (IG Hn) as (u & Hu & Hp). rewrite (Hall u Hu) in Hp. congruence.
  Qed.
End WhereP3.

(* the code as it is: two parallel callbacks, one failing: a race on err *)
Definition where_witness_perr (t : tid) : Z := match t with 0 => 7%Z | _ => 0%Z end.
Lemma where_quirk_racy :
  exists s, reachable (where_progs only_where where_witness_perr) 2 s /\
            race (where_progs only_where where_witness_perr) idloc 2 s.
Proof.
  (* thread 0: err==nil, p fails, about to write err; thread 1: about to read err *)
  destruct (run (where_progs only_where where_witness_perr) init [0;0;0;0;0;0;0;1]) as [s|] eqn:E;
    [|vm_compute in E; discriminate].
  exists s. split.
  - eapply run_reachable; [apply r_init| |exact E]. repeat constructor.
  - apply (raceb_race _ _ 2 s 0 1); [lia|lia|discriminate|].
    vm_compute in E. inversion E; subst. vm_compute. reflexivity.
Qed.

(* ------------------------------------------------------------------ *)
(* P2: positionalRelation.getMeta / computeIndex *)
Section RelposP.
  Variable key : tid -> nat.
  Variable fn : nat -> positive.
  Notation progs := (relpos_progs key fn).

  Definition relpos_G (s : shared) : Prop :=
    (on s 0 = ODone -> mem s 0 = 1%Z) /\
    (forall k, mem s (S k) <> 0%Z -> mem s (S k) = Zpos (fn k)).
  Definition relpos_A (t : tid) (ts : tstate) (s : shared) : Prop :=
    match pc ts with
    | 1 => on s 0 = ORunning t
    | 2 => on s 0 = ORunning t /\ regs ts 1 = 1%Z
    | 3 => on s 0 = ORunning t /\ mem s 0 = 1%Z
    | 4 => on s 0 = ODone
    | 6 => lk s 0 = Some t
    | 7 => lk s 0 = Some t /\ regs ts 0 = mem s (S (key t))
    | 8 => lk s 0 = Some t
    | 9 => lk s 0 = Some t /\ regs ts 0 = Zpos (fn (key t))
    | 10 => lk s 0 = Some t /\ regs ts 0 = Zpos (fn (key t))
    | 11 => regs ts 0 = Zpos (fn (key t))
    | _ => True
    end.

  Lemma relpos_init : relpos_G sh0 /\ forall t, relpos_A t ts0 sh0.
  Proof. split; [split; [discriminate|intros k H; now elim H]|]. intro t; exact I. Qed.

  Lemma relpos_local : forall N t ts s ts' s', t < N -> relpos_G s -> relpos_A t ts s ->
      exec (progs t) t ts s = Some (ts', s') -> relpos_G s' /\ relpos_A t ts' s'.
  Proof.
    intros N t [p rg w] s ts' s' _ [G1 G2] HA He.
    unfold relpos_progs, relpos_G, relpos_A, exec, p_relpos in *; simpl pc in *.
    destr_pc p; simpl in He; exec_inv He; tests; simpl in *; unfold upd in *; simpl in *;
      try (intuition (try congruence; try lia); fail).
    all: try (destruct HA as [H1 H2]; repeat split; auto;
              try (intros k; destruct (Nat.eqb_spec (key t) k); subst; auto; congruence);
              try (rewrite Nat.eqb_refl; auto); fail).
    destruct HA as [H1 H2]. repeat split; auto. rewrite H2. apply G2. congruence.
  Qed.

  Lemma relpos_interf : forall N t u ts tu s ts' s', t < N -> t <> u -> relpos_G s -> relpos_A t ts s -> relpos_A u tu s ->
      exec (progs t) t ts s = Some (ts', s') -> relpos_A u tu s'.
  Proof.
    intros N t u [p rg w] [p' rg' w'] s ts' s' _ Hne [G1 G2] HA HB He.
    unfold relpos_progs, relpos_G, relpos_A, exec, p_relpos in *; simpl pc in *.
    destr_pc p; simpl in He; exec_inv He; tests; destr_pc p'; fin.
  Qed.

  Lemma relpos_excl : forall t u ts tu s x y w1 w2, t <> u -> relpos_G s -> relpos_A t ts s -> relpos_A u tu s ->
      access (progs t) ts = Some (x, w1) -> access (progs u) tu = Some (y, w2) ->
      relpos_loc x = relpos_loc y -> (w1 || w2) = false.
  Proof.
    intros t u [p rg w] [p' rg' w'] s x y w1 w2 Hne [G1 G2] HA HB Ha Hb Hl.
    unfold relpos_progs, relpos_G, relpos_A, access, p_relpos in *; simpl pc in *.
    destr_pc p; simpl in Ha; try discriminate Ha; inversion Ha; subst; clear Ha;
    destr_pc p'; simpl in Hb; try discriminate Hb; inversion Hb; subst; clear Hb; fin.
  Qed.

  Theorem relpos_race_free : forall N s, reachable progs N s -> ~ race progs relpos_loc N s.
  Proof.
    intro N. apply (method_race_free progs relpos_loc N relpos_G relpos_A).
    - apply relpos_init.
    - apply relpos_local.
    - apply relpos_interf.
    - apply relpos_excl.
  Qed.

  Theorem relpos_serial_results : forall N s t, reachable progs N s -> halted progs t s ->
      result s t = relpos_serial key fn t.
  Proof.
    intros N s t Hr Hh.
    destruct (method_inv progs N relpos_G relpos_A relpos_init (relpos_local N) (relpos_interf N) s Hr) as [_ IA].
    specialize (IA t). unfold halted, result, relpos_serial, relpos_progs, relpos_A, p_relpos in *.
    destruct (thr s t) as [p rg w]; simpl pc in *.
    destr_pc p; simpl in Hh; try discriminate Hh; fin.
  Qed.
End RelposP.

(* the mutants the check is built to catch are racy in the model too *)
Lemma tuple_no_once_racy : forall vN, exists s,
  reachable (fun _ => p_names_nocheck vN) 2 s /\ race (fun _ => p_names_nocheck vN) idloc 2 s.
Proof.
  intro vN.
  destruct (run (fun _ => p_names_nocheck vN) init [0;0;0]) as [s|] eqn:E; [|vm_compute in E; discriminate].
  exists s. split.
  - eapply run_reachable; [apply r_init| |exact E]. repeat constructor.
  - apply (raceb_race _ _ 2 s 0 1); [lia|lia|discriminate|].
    vm_compute in E. inversion E; subst. vm_compute. reflexivity.
Qed.

Lemma relpos_unlocked_read_racy : forall k v, exists s,
  reachable (fun _ => p_relpos_unlocked_read k v) 2 s /\ race (fun _ => p_relpos_unlocked_read k v) relpos_loc 2 s.
Proof.
  intros k v.
  destruct (run (fun _ => p_relpos_unlocked_read k v) init [0;0;0;0;0;0;0;0;0;1;1]) as [s|] eqn:E;
    [|vm_compute in E; discriminate].
  exists s. split.
  - eapply run_reachable; [apply r_init| |exact E]. repeat constructor.
  - apply (raceb_race _ _ 2 s 0 1); [lia|lia|discriminate|].
    vm_compute in E. inversion E; subst. vm_compute. reflexivity.
Qed.


(* ------------------------------------------------------------------ *)
(* P5: the heading of Relation.Join *)
Lemma join_fixed_race_free : forall q nm N s, q_join_attrs_append_alias q = false ->
  reachable (p_join q nm) N s -> ~ race (p_join q nm) idloc N s.
Proof.
  intros q nm N s Hq _ (t & u & x & y & w1 & w2 & _ & _ & _ & Ha & _).
  unfold access, p_join in Ha. rewrite Hq in Ha. destruct (thr s t) as [p rg w]; simpl in Ha.
  destr_pc p; simpl in Ha; discriminate.
Qed.

Lemma join_fixed_result : forall q nm N s t, q_join_attrs_append_alias q = false ->
  reachable (p_join q nm) N s -> halted (p_join q nm) t s -> result s t = nm t.
Proof.
  intros q nm N s t Hq Hr. revert t.
  assert (H : forall t, match pc (thr s t) with 3 => regs (thr s t) 0 = nm t | _ => True end).
  { induction Hr as [|s s' Hr IH Hs]; [intro; exact I|].
    destruct Hs as [s v ts' sh' Hv He]. intro t. simpl. destruct (Nat.eq_dec v t) as [->|Hne].
    - rewrite upd_same. specialize (IH t). destruct (thr s t) as [p rg w].
      unfold exec, p_join in He. rewrite Hq in He. simpl in *.
      destr_pc p; simpl in He; exec_inv He; simpl; auto.
    - rewrite upd_other by exact Hne. apply IH. }
  intros t Hh. specialize (H t). unfold halted, result, p_join in *. rewrite Hq in Hh.
  destruct (thr s t) as [p rg w]; simpl in *. destr_pc p; simpl in Hh; try discriminate Hh. exact H.
Qed.

Lemma join_quirk_racy : forall q nm, q_join_attrs_append_alias q = true ->
  exists s, reachable (p_join q nm) 2 s /\ race (p_join q nm) idloc 2 s.
Proof.
  intros [a b c] nm Hq. simpl in Hq. subst c.
  set (P := p_join {| q_where_err_capture_race := a; q_importcache_error_no_broadcast := b; q_join_attrs_append_alias := true |} nm).
  destruct (run P init [0;1]) as [s|] eqn:E; [|vm_compute in E; discriminate].
  exists s. split.
  - eapply run_reachable; [apply r_init| |exact E]. repeat constructor.
  - apply (raceb_race _ _ 2 s 0 1); [lia|lia|discriminate|].
    vm_compute in E. inversion E; subst. vm_compute. reflexivity.
Qed.
