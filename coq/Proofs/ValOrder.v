(* vcmp is a decidable strict total order on values, and Eq is Leibniz equality. *)
From Arrai Require Import Base.Val.
From Coq Require Import ZifyBool ZifyNat.

(* generic lexicographic comparison, convertible with the inner fixpoints of vcmp *)
Fixpoint lcmp {A} (cmp : A -> A -> comparison) (l m : list A) : comparison :=
  match l, m with
  | [], [] => Eq
  | [], _ => Lt
  | _, [] => Gt
  | v1 :: l', v2 :: m' => match cmp v1 v2 with Eq => lcmp cmp l' m' | c => c end
  end.

Definition acmp (cmp : val -> val -> comparison) (p q : name * val) : comparison :=
  match name_cmp (fst p) (fst q) with Eq => cmp (snd p) (snd q) | c => c end.

Lemma vcmp_set l m : vcmp (VSet l) (VSet m) = lcmp vcmp l m.
Proof.
  revert m; induction l as [|x l IH]; intros [|y m]; try reflexivity.
  change (vcmp (VSet (x :: l)) (VSet (y :: m)))
    with (match vcmp x y with Eq => vcmp (VSet l) (VSet m) | c => c end).
  rewrite IH. reflexivity.
Qed.

Lemma vcmp_tup l m : vcmp (VTup l) (VTup m) = lcmp (acmp vcmp) l m.
Proof.
  revert m; induction l as [|[n1 v1] l IH]; intros [|[n2 v2] m]; try reflexivity.
  change (vcmp (VTup ((n1, v1) :: l)) (VTup ((n2, v2) :: m)))
    with (match name_cmp n1 n2 with
          | Eq => match vcmp v1 v2 with Eq => vcmp (VTup l) (VTup m) | c => c end
          | c => c end).
  rewrite IH. cbn [lcmp]. unfold acmp at 2. cbn [fst snd].
  destruct (name_cmp n1 n2); reflexivity.
Qed.

Lemma name_cmp_lcmp a b : name_cmp a b = lcmp Z.compare a b.
Proof. revert b; induction a as [|x a IH]; intros [|y b]; simpl; try reflexivity. rewrite IH; reflexivity. Qed.


(* strong induction principle for the nested type *)
Section ValInd.
Variable P : val -> Prop.
Hypothesis Hnum : forall n, P (VNum n).
Hypothesis Htup : forall l, Forall (fun p => P (snd p)) l -> P (VTup l).
Hypothesis Hset : forall l, Forall P l -> P (VSet l).
Fixpoint val_ind' (v : val) : P v :=
  match v with
  | VNum n => Hnum n
  | VTup l => Htup l ((fix go (l : list (name * val)) : Forall (fun p => P (snd p)) l :=
                         match l with
                         | [] => Forall_nil _
                         | p :: l' => Forall_cons p (val_ind' (snd p)) (go l')
                         end) l)
  | VSet l => Hset l ((fix go (l : list val) : Forall P l :=
                         match l with
                         | [] => Forall_nil _
                         | x :: l' => Forall_cons x (val_ind' x) (go l')
                         end) l)
  end.
End ValInd.

(* the bundle of order properties for a triple *)
Definition ordR {A} (cmp : A -> A -> comparison) (a b c : A) : Prop :=
  cmp a a = Eq /\
  (cmp a b = Eq -> a = b) /\
  cmp b a = CompOpp (cmp a b) /\
  (cmp a b = Lt -> cmp b c = Lt -> cmp a c = Lt).

Section Lex.
Context {A : Type} (cmp : A -> A -> comparison) (Q : A -> Prop).
Hypothesis HR : forall x y z, Q x -> Q y -> Q z -> ordR cmp x y z.

Lemma lcmp_refl l : Forall Q l -> lcmp cmp l l = Eq.
Proof.
  induction 1 as [|x l Hx _ IH]; simpl; [reflexivity|].
  destruct (HR x x x Hx Hx Hx) as (-> & _). exact IH.
Qed.

Lemma lcmp_eq l m : Forall Q l -> Forall Q m -> lcmp cmp l m = Eq -> l = m.
Proof.
  intros Hl; revert m; induction Hl as [|x l Hx _ IH]; intros [|y m] Hm; simpl; try discriminate; [reflexivity|].
  inversion Hm as [|? ? Hy Hm']; subst.
  destruct (HR x y y Hx Hy Hy) as (_ & Heq & _). destruct (cmp x y) eqn:E; try discriminate.
  intros H. rewrite (Heq eq_refl), (IH m Hm' H). reflexivity.
Qed.

Lemma lcmp_antisym l m : Forall Q l -> Forall Q m -> lcmp cmp m l = CompOpp (lcmp cmp l m).
Proof.
  intros Hl; revert m; induction Hl as [|x l Hx _ IH]; intros [|y m] Hm; simpl; try reflexivity.
  inversion Hm as [|? ? Hy Hm']; subst.
  destruct (HR x y y Hx Hy Hy) as (_ & _ & Hanti & _). rewrite Hanti.
  destruct (cmp x y); simpl; [apply IH; exact Hm' | reflexivity | reflexivity].
Qed.

Lemma lcmp_trans l m k : Forall Q l -> Forall Q m -> Forall Q k ->
  lcmp cmp l m = Lt -> lcmp cmp m k = Lt -> lcmp cmp l k = Lt.
Proof.
  intros Hl; revert m k; induction Hl as [|x l Hx _ IH]; intros m k Hm Hk.
  - destruct m as [|y m]; simpl; [discriminate|]. intros _.
    destruct k as [|z k]; [simpl; discriminate | intros _; reflexivity].
  - destruct m as [|y m]; [simpl; discriminate|].
    inversion Hm as [|? ? Hy Hm']; subst.
    destruct k as [|z k]; [simpl; destruct (cmp x y); discriminate|].
    inversion Hk as [|? ? Hz Hk']; subst.
    destruct (HR x y z Hx Hy Hz) as (_ & Heqxy & _ & Htr).
    destruct (HR y z z Hy Hz Hz) as (_ & Heqyz & _).
    simpl. destruct (cmp x y) eqn:Exy; try discriminate.
    + specialize (Heqxy eq_refl); subst y. destruct (cmp x z) eqn:Exz; try discriminate; [|reflexivity].
      apply IH; assumption.
    + intros _. destruct (cmp y z) eqn:Eyz; try discriminate.
      * specialize (Heqyz eq_refl); subst z. rewrite Exy. reflexivity.
      * rewrite (Htr eq_refl eq_refl). reflexivity.
Qed.

Lemma lcmp_ordR l m k : Forall Q l -> Forall Q m -> Forall Q k -> ordR (lcmp cmp) l m k.
Proof.
  intros Hl Hm Hk. repeat split.
  - apply lcmp_refl; assumption.
  - apply lcmp_eq; assumption.
  - apply lcmp_antisym; assumption.
  - apply lcmp_trans; assumption.
Qed.
End Lex.

Lemma Zcmp_ordR x y z : ordR Z.compare x y z.
Proof.
  repeat split.
  - apply Z.compare_refl.
  - apply Z.compare_eq.
  - apply Z.compare_antisym.
  - rewrite !Z.compare_lt_iff; lia.
Qed.

Lemma name_cmp_ordR a b c : ordR name_cmp a b c.
Proof.
  unfold ordR. rewrite !name_cmp_lcmp.
  apply (lcmp_ordR Z.compare (fun _ => True)); try (apply Forall_forall; intros; exact I).
  intros; apply Zcmp_ordR.
Qed.

Lemma num_cmp_ordR a b c : ordR num_cmp a b c.
Proof.
  unfold ordR, num_cmp. repeat split.
  - apply Z.compare_refl.
  - intros H. apply Z.compare_eq in H. destruct a as [x|x], b as [y|y]; unfold num2 in H; [f_equal; lia | exfalso; lia | exfalso; lia | f_equal; lia].
  - apply Z.compare_antisym.
  - rewrite !Z.compare_lt_iff; lia.
Qed.

Lemma vnum_ordR x y z : ordR vcmp (VNum x) (VNum y) (VNum z).
Proof.
  destruct (num_cmp_ordR x y z) as (Hr & Heq & Hanti & Htr).
  unfold ordR; simpl. repeat split; try assumption. intros H; rewrite (Heq H); reflexivity.
Qed.

Lemma acmp_ordR (Q : val -> Prop) :
  (forall x y z, Q x -> Q y -> Q z -> ordR vcmp x y z) ->
  forall p q r, Q (snd p) -> Q (snd q) -> Q (snd r) -> ordR (acmp vcmp) p q r.
Proof.
  intros HR [n1 v1] [n2 v2] [n3 v3] H1 H2 H3; simpl in *.
  destruct (name_cmp_ordR n1 n2 n3) as (Nr & Neq & Nanti & Ntr).
  destruct (name_cmp_ordR n2 n3 n3) as (_ & Neq23 & _).
  destruct (HR v1 v2 v3 H1 H2 H3) as (Vr & Veq & Vanti & Vtr).
  unfold ordR, acmp; simpl. repeat split.
  - rewrite Nr. exact Vr.
  - destruct (name_cmp n1 n2) eqn:E; try discriminate.
    intros H. rewrite (Neq eq_refl), (Veq H). reflexivity.
  - rewrite Nanti. destruct (name_cmp n1 n2); simpl; [exact Vanti | reflexivity | reflexivity].
  - destruct (name_cmp n1 n2) eqn:E12; try discriminate.
    + specialize (Neq eq_refl); subst n2. destruct (name_cmp n1 n3) eqn:E13; try discriminate; [|reflexivity].
      exact Vtr.
    + intros _. destruct (name_cmp n2 n3) eqn:E23; try discriminate.
      * specialize (Neq23 eq_refl); subst n3. rewrite E12. reflexivity.
      * rewrite (Ntr eq_refl eq_refl). reflexivity.
Qed.

Fixpoint vdepth (v : val) : nat :=
  match v with
  | VNum _ => O
  | VTup l => S (fold_right (fun p acc => Nat.max (vdepth (snd p)) acc) O l)
  | VSet l => S (fold_right (fun x acc => Nat.max (vdepth x) acc) O l)
  end.

Lemma vdepth_set_elems l n : (vdepth (VSet l) <= S n)%nat -> Forall (fun x => (vdepth x <= n)%nat) l.
Proof.
  simpl. intros H. apply le_S_n in H. induction l as [|x l IH]; constructor; simpl in H; [lia | apply IH; lia].
Qed.

Lemma vdepth_tup_elems l n : (vdepth (VTup l) <= S n)%nat -> Forall (fun p => (vdepth (snd p) <= n)%nat) l.
Proof.
  simpl. intros H. apply le_S_n in H. induction l as [|x l IH]; constructor; simpl in H; [lia | apply IH; lia].
Qed.

Lemma vcmp_ordR_depth n : forall a b c,
  (vdepth a <= n)%nat -> (vdepth b <= n)%nat -> (vdepth c <= n)%nat -> ordR vcmp a b c.
Proof.
  induction n as [|n IH]; intros a b c Ha Hb Hc.
  - destruct a; simpl in Ha; try lia. destruct b; simpl in Hb; try lia. destruct c; simpl in Hc; try lia.
    apply vnum_ordR.
  - assert (Ltup : forall l m k, (vdepth (VTup l) <= S n)%nat -> (vdepth (VTup m) <= S n)%nat ->
                   (vdepth (VTup k) <= S n)%nat -> ordR vcmp (VTup l) (VTup m) (VTup k)).
    { intros l m k Hl Hm Hk. unfold ordR. rewrite !vcmp_tup.
      destruct (lcmp_ordR (acmp vcmp) (fun p => (vdepth (snd p) <= n)%nat)
                  (acmp_ordR (fun x => (vdepth x <= n)%nat) IH) l m k
                  (vdepth_tup_elems _ _ Hl) (vdepth_tup_elems _ _ Hm) (vdepth_tup_elems _ _ Hk))
        as (Hr & Heq & Hanti & Htr).
      repeat split; try assumption. intros H; rewrite (Heq H); reflexivity. }
    assert (Lset : forall l m k, (vdepth (VSet l) <= S n)%nat -> (vdepth (VSet m) <= S n)%nat ->
                   (vdepth (VSet k) <= S n)%nat -> ordR vcmp (VSet l) (VSet m) (VSet k)).
    { intros l m k Hl Hm Hk. unfold ordR. rewrite !vcmp_set.
      destruct (lcmp_ordR vcmp (fun x => (vdepth x <= n)%nat) IH l m k
                  (vdepth_set_elems _ _ Hl) (vdepth_set_elems _ _ Hm) (vdepth_set_elems _ _ Hk))
        as (Hr & Heq & Hanti & Htr).
      repeat split; try assumption. intros H; rewrite (Heq H); reflexivity. }
    unfold ordR. repeat split.
    + destruct a as [x|l|l].
      * apply (vnum_ordR x x x).
      * apply (Ltup l l l); assumption.
      * apply (Lset l l l); assumption.
    + destruct a as [x|l|l], b as [y|m|m]; try (simpl; discriminate).
      * apply (vnum_ordR x y y).
      * apply (Ltup l m m); assumption.
      * apply (Lset l m m); assumption.
    + destruct a as [x|l|l], b as [y|m|m]; try reflexivity.
      * apply (vnum_ordR x y y).
      * apply (Ltup l m m); assumption.
      * apply (Lset l m m); assumption.
    + destruct a as [x|l|l], b as [y|m|m], c as [z|k|k];
        try (simpl; intros; first [discriminate | reflexivity]).
      * apply (vnum_ordR x y z).
      * apply (Ltup l m k); assumption.
      * apply (Lset l m k); assumption.
Qed.

Theorem vcmp_ordR a b c : ordR vcmp a b c.
Proof.
  apply (vcmp_ordR_depth (Nat.max (vdepth a) (Nat.max (vdepth b) (vdepth c)))); lia.
Qed.

Theorem vcmp_refl a : vcmp a a = Eq.
Proof. apply (vcmp_ordR a a a). Qed.
Theorem vcmp_eq a b : vcmp a b = Eq -> a = b.
Proof. apply (vcmp_ordR a b b). Qed.
Theorem vcmp_eq_iff a b : vcmp a b = Eq <-> a = b.
Proof. split; [apply vcmp_eq | intros ->; apply vcmp_refl]. Qed.
Theorem vcmp_antisym a b : vcmp b a = CompOpp (vcmp a b).
Proof. apply (vcmp_ordR a b b). Qed.
Theorem vcmp_trans a b c : vcmp a b = Lt -> vcmp b c = Lt -> vcmp a c = Lt.
Proof. apply (vcmp_ordR a b c). Qed.

Theorem veqb_eq a b : veqb a b = true <-> a = b.
Proof.
  unfold veqb. rewrite <- vcmp_eq_iff. destruct (vcmp a b); split; congruence.
Qed.
