(* Transfer of the engine theorems (Proofs/EngineP.v) to front-end histories (Sys/FrontEnd.v):
   the image of [fe_map] is a well-formed engine history - no Stop, no Hangup (the front-ends never
   call them), every watcher id is subscribed exactly once (fresh ids), a Cancel only names an id
   subscribed earlier - so the hypotheses of the C17 theorems hold for it. *)
From Coq Require Import List ZArith Bool Lia Permutation.
From Arrai Require Import Sys.Engine Sys.FrontEnd Proofs.EngineP.
Import ListNotations.
Open Scope Z_scope.

Section FrontEndP.
  Variables V E : Type.
  Notation fe_op := (fe_op V E).
  Notation event := (event V E).

  Definition is_hangup (ev : event) : bool := match ev with Hangup => true | _ => false end.

  Lemma fe_step_cases : forall nxt t (op : fe_op),
    (exists e, fe_step V E nxt t op = ([Update e], nxt, t))
    \/ fe_step V E nxt t op = ([], nxt, t)
    \/ (exists c e cb, fe_step V E nxt t op = ([Observe nxt e cb], nxt + 1, fe_set c nxt t))
    \/ (exists c e cb i, fe_step V E nxt t op = ([Cancel i; Observe nxt e cb], nxt + 1, fe_set c nxt t) /\ fe_lookup c t = Some i).
  Proof.
    intros nxt t op. destruct op as [[e|] | c [e|] cb | c]; cbn [fe_step].
    - left; eauto.
    - right; left; reflexivity.
    - destruct (fe_lookup c t) as [i|] eqn:Hl.
      + right; right; right. exists c, e, cb, i. split; [reflexivity | exact Hl].
      + right; right; left. exists c, e, cb. reflexivity.
    - right; left; reflexivity.
    - right; left; reflexivity.
  Qed.

  Lemma fe_map_from_cons : forall nxt t op r,
    fe_map_from V E nxt t (op :: r) =
    fst (fst (fe_step V E nxt t op)) ++ fe_map_from V E (snd (fst (fe_step V E nxt t op))) (snd (fe_step V E nxt t op)) r.
  Proof. intros. cbn [fe_map_from]. destruct (fe_step V E nxt t op) as [[evs n'] t']. reflexivity. Qed.

  (* the front-ends never stop the engine and never hang up on everybody *)
  Lemma fe_map_from_no_stop : forall h nxt t,
    existsb (is_stop V E) (fe_map_from V E nxt t h) = false
    /\ existsb is_hangup (fe_map_from V E nxt t h) = false.
  Proof.
    induction h as [|op r IH]; intros nxt t; [split; reflexivity|].
    rewrite fe_map_from_cons.
    destruct (fe_step_cases nxt t op) as [[e He] | [He | [[c [e [cb He]]] | [c [e [cb [i [He _]]]]]]]];
      rewrite He; cbn [fst snd app existsb is_stop is_hangup orb]; apply IH.
  Qed.

  (* ids handed out from nxt on are >= nxt *)
  Lemma fe_map_from_ids_ge : forall h nxt t i,
    existsb (observes V E i) (fe_map_from V E nxt t h) = true -> nxt <= i.
  Proof.
    induction h as [|op r IH]; intros nxt t i Hex; [discriminate|].
    rewrite fe_map_from_cons in Hex.
    destruct (fe_step_cases nxt t op) as [[e He] | [He | [[c [e [cb He]]] | [c [e [cb [j [He _]]]]]]]];
      rewrite He in Hex; cbn [fst snd app existsb observes orb] in Hex.
    - now apply IH in Hex.
    - now apply IH in Hex.
    - destruct (nxt =? i) eqn:Hn; [apply Z.eqb_eq in Hn; lia|]. cbn [orb] in Hex. apply IH in Hex. lia.
    - destruct (nxt =? i) eqn:Hn; [apply Z.eqb_eq in Hn; lia|]. cbn [orb] in Hex. apply IH in Hex. lia.
  Qed.

  (* every watcher id is subscribed at most once *)
  Lemma fe_map_from_observed_once : forall h nxt t i,
    observed_once V E i (fe_map_from V E nxt t h) = true.
  Proof.
    induction h as [|op r IH]; intros nxt t i; [reflexivity|].
    rewrite fe_map_from_cons.
    assert (Hobs : forall e cb (t' : fe_table), observed_once V E i (Observe nxt e cb :: fe_map_from V E (nxt + 1) t' r) = true).
    { intros e cb t'. cbn [observed_once observes].
      destruct (nxt =? i) eqn:Hn; [|apply IH].
      apply Z.eqb_eq in Hn.
      destruct (existsb (observes V E i) (fe_map_from V E (nxt + 1) t' r)) eqn:Hex; [|reflexivity].
      apply fe_map_from_ids_ge in Hex. lia. }
    destruct (fe_step_cases nxt t op) as [[e He] | [He | [[c [e [cb He]]] | [c [e [cb [j [He _]]]]]]]];
      rewrite He; cbn [fst snd app].
    - cbn [observed_once observes]. apply IH.
    - apply IH.
    - apply Hobs.
    - change (observed_once V E i (Cancel j :: Observe nxt e cb :: fe_map_from V E (nxt + 1) (fe_set c nxt t) r))
        with (observed_once V E i (Observe nxt e cb :: fe_map_from V E (nxt + 1) (fe_set c nxt t) r)).
      apply Hobs.
  Qed.

  (* a client that leaves causes no engine call at all *)
  Lemma fe_map_from_hangup_irrelevant : forall h1 h2 c nxt t,
    fe_map_from V E nxt t (h1 ++ FeHangup c :: h2) = fe_map_from V E nxt t (h1 ++ h2).
  Proof.
    induction h1 as [|op r IH]; intros h2 c nxt t.
    - reflexivity.
    - cbn [app]. rewrite !fe_map_from_cons. now rewrite IH.
  Qed.

  Theorem fe_map_well_formed : forall (h : list fe_op),
    existsb (is_stop V E) (fe_map V E h) = false
    /\ existsb is_hangup (fe_map V E h) = false
    /\ (forall i, observed_once V E i (fe_map V E h) = true)
    /\ (forall i, existsb (observes V E i) (fe_map V E h) = true -> 1 <= i).
  Proof.
    intro h. unfold fe_map. repeat split.
    - apply fe_map_from_no_stop.
    - apply fe_map_from_no_stop.
    - intro i. apply fe_map_from_observed_once.
    - intro i. apply fe_map_from_ids_ge.
  Qed.

  Variable eval : E -> V -> eres V.
  Variable ord : nat -> list (watcher V E) -> list (watcher V E).
  Hypothesis ord_perm : forall n l, Permutation (ord n l) l.

  (* never wedges: every request of every front-end history is answered, the loop keeps running *)
  Theorem frontend_never_wedges : forall db0 (h : list fe_op),
    s_status V E (run V E eval ord quirks17_off db0 (fe_map V E h)) = Running
    /\ Forall2 (answered V E) (fe_map V E h) (s_acks V E (run V E eval ord quirks17_off db0 (fe_map V E h))).
  Proof.
    intros db0 h.
    destruct (never_wedges_off V E eval ord ord_perm db0 (fe_map V E h)) as [_ [_ H]].
    apply H. apply fe_map_well_formed.
  Qed.

  (* order: every watcher of every connection gets the sequential specification's trace of the mapped history *)
  Theorem frontend_refines_spec : forall db0 (h : list fe_op),
    (forall i, obs_trace V i (s_trace V E (run V E eval ord quirks17_off db0 (fe_map V E h))) = spec_trace V E eval i db0 (fe_map V E h))
    /\ s_db V E (run V E eval ord quirks17_off db0 (fe_map V E h)) = spec_db V E eval db0 (fe_map V E h)
    /\ s_acks V E (run V E eval ord quirks17_off db0 (fe_map V E h)) = spec_acks V E eval db0 (fe_map V E h)
    /\ (forall i, closed_once V (obs_trace V i (s_trace V E (run V E eval ord quirks17_off db0 (fe_map V E h)))) = true).
  Proof.
    intros db0 h.
    destruct (refinement_q V E eval ord ord_perm quirks17_off db0 (fe_map V E h) eq_refl) as [H1 [H2 [H3 _]]].
    repeat split; try assumption.
    intro i. apply (closed_once_q V E eval ord ord_perm quirks17_off db0 (fe_map V E h) i eq_refl).
    apply fe_map_well_formed.
  Qed.

  (* isolation: a client that leaves (anywhere in the history) changes nothing for anybody; and whatever the other
     connections do, a watcher's trace depends only on the updates and on its own subscription and cancel *)
  Theorem frontend_isolation : forall db0 (h1 h2 h h' : list fe_op) c i,
    fe_map V E (h1 ++ FeHangup c :: h2) = fe_map V E (h1 ++ h2)
    /\ (erase_others V E i (fe_map V E h) = erase_others V E i (fe_map V E h') ->
        obs_trace V i (s_trace V E (run V E eval ord quirks17_off db0 (fe_map V E h)))
        = obs_trace V i (s_trace V E (run V E eval ord quirks17_off db0 (fe_map V E h')))).
  Proof.
    intros db0 h1 h2 h h' c i. split.
    - apply fe_map_from_hangup_irrelevant.
    - intro Heq. now apply (isolation_q V E eval ord ord_perm quirks17_off db0 i _ _ eq_refl eq_refl).
  Qed.
End FrontEndP.
