(* Proofs for C15 (Sys/BPath.v, Sys/Bundle.v). *)
From Arrai Require Import Sys.BPath Sys.Bundle.

(* ------------------------------------------------------------------ *)
(* equality tests *)

Lemma seg_eqb_refl : forall s, seg_eqb s s = true.
Proof. induction s; simpl; auto. rewrite Z.eqb_refl. auto. Qed.

Lemma seg_eqb_eq : forall a b, seg_eqb a b = true -> a = b.
Proof.
  induction a; destruct b; simpl; intros H; try discriminate; auto.
  apply andb_true_iff in H. destruct H as [H1 H2]. apply Z.eqb_eq in H1. f_equal; auto.
Qed.

Lemma path_eqb_refl : forall p, path_eqb p p = true.
Proof. induction p; simpl; auto. rewrite seg_eqb_refl. auto. Qed.

Lemma path_eqb_eq : forall a b, path_eqb a b = true -> a = b.
Proof.
  induction a; destruct b; simpl; intros H; try discriminate; auto.
  apply andb_true_iff in H. destruct H as [H1 H2]. apply seg_eqb_eq in H1. f_equal; auto.
Qed.

(* ------------------------------------------------------------------ *)
(* lists *)

Lemma last_app_ne : forall (A : Type) (d r : list A) x, r <> [] -> last (d ++ r) x = last r x.
Proof.
  induction d; simpl; auto. intros r x H.
  destruct (d ++ r) eqn:E.
  - destruct d; simpl in E; [congruence | discriminate].
  - rewrite <- E. auto.
Qed.

Lemma forallb_rev : forall (A : Type) (f : A -> bool) l, forallb f (rev l) = forallb f l.
Proof.
  induction l; simpl; auto. rewrite forallb_app. simpl. rewrite IHl, andb_true_r. apply andb_comm.
Qed.

Lemma forallb_removelast : forall (A : Type) (f : A -> bool) l, forallb f l = true -> forallb f (removelast l) = true.
Proof.
  induction l; simpl; auto. intros H. apply andb_true_iff in H. destruct H as [H1 H2].
  destruct l; simpl; auto. simpl in IHl. rewrite H1. simpl. apply IHl. exact H2.
Qed.

(* ------------------------------------------------------------------ *)
(* names *)

Lemma is_name_parts : forall s, is_name s = true ->
  seg_eqb s [] = false /\ seg_eqb s s_dot = false /\ seg_eqb s s_dotdot = false /\ slashfree s = true.
Proof.
  unfold is_name. intros s H.
  apply andb_true_iff in H. destruct H as [H H4].
  apply andb_true_iff in H. destruct H as [H H3].
  apply andb_true_iff in H. destruct H as [H1 H2].
  apply negb_true_iff in H1. apply negb_true_iff in H2. apply negb_true_iff in H3. auto.
Qed.

Lemma names_slashfree : forall p, names p = true -> forallb slashfree p = true.
Proof.
  induction p; simpl; auto. intros H. apply andb_true_iff in H. destruct H as [H1 H2].
  apply is_name_parts in H1. destruct H1 as (_ & _ & _ & H1). rewrite H1. simpl. auto.
Qed.

Lemma names_app : forall a b, names (a ++ b) = names a && names b.
Proof. intros. apply forallb_app. Qed.

Lemma is_name_gomod : is_name s_gomod = true.
Proof. reflexivity. Qed.

Lemma is_name_app_arrai : forall s, is_name s = true -> is_name (s ++ s_arrai_ext) = true.
Proof.
  intros s H. apply is_name_parts in H. destruct H as (H1 & _ & _ & H4).
  destruct s as [|c s]; [discriminate|].
  unfold is_name. apply andb_true_iff. split.
  - apply andb_true_iff. split; [apply andb_true_iff; split|].
    + reflexivity.
    + simpl. destruct s; simpl; rewrite ?andb_false_r; reflexivity.
    + simpl. destruct s as [|c2 s]; simpl.
      * rewrite ?andb_false_r. reflexivity.
      * destruct s; simpl; rewrite ?andb_false_r; reflexivity.
  - unfold slashfree in *. rewrite forallb_app. rewrite H4. reflexivity.
Qed.

(* ------------------------------------------------------------------ *)
(* Clean *)

Lemma clean_abs_aux_names : forall l st, names l = true -> clean_abs_aux st l = rev st ++ l.
Proof.
  induction l; simpl; intros st H.
  - rewrite app_nil_r. reflexivity.
  - apply andb_true_iff in H. destruct H as [H1 H2].
    apply is_name_parts in H1. destruct H1 as (E1 & E2 & E3 & _).
    rewrite E1, E2, E3. simpl. rewrite IHl by exact H2. simpl. rewrite <- app_assoc. reflexivity.
Qed.

Lemma clean_abs_aux_app : forall a st l, names a = true -> clean_abs_aux st (a ++ l) = clean_abs_aux (rev a ++ st) l.
Proof.
  induction a; simpl; intros st l H; auto.
  apply andb_true_iff in H. destruct H as [H1 H2].
  apply is_name_parts in H1. destruct H1 as (E1 & E2 & E3 & _).
  rewrite E1, E2, E3. simpl. rewrite IHa by exact H2. rewrite <- app_assoc. reflexivity.
Qed.

Lemma clean_abs_names_out : forall l st, forallb slashfree l = true -> names st = true -> names (clean_abs_aux st l) = true.
Proof.
  induction l; simpl; intros st Hl Hs.
  - unfold names. rewrite forallb_rev. exact Hs.
  - apply andb_true_iff in Hl. destruct Hl as [Ha Hl].
    destruct (seg_eqb a [] || seg_eqb a s_dot) eqn:E1; [apply IHl; auto|].
    destruct (seg_eqb a s_dotdot) eqn:E2.
    + apply IHl; auto. destruct st; simpl in *; auto. apply andb_true_iff in Hs. tauto.
    + apply IHl; auto. simpl. apply orb_false_iff in E1. destruct E1 as [E1 E3].
      unfold is_name. rewrite E1, E2, E3, Ha. simpl. exact Hs.
Qed.

Lemma clean_rel_names_out : forall l ups st, forallb slashfree l = true -> names st = true ->
  names (snd (clean_rel_aux ups st l)) = true.
Proof.
  induction l; simpl; intros ups st Hl Hs.
  - unfold names. rewrite forallb_rev. exact Hs.
  - apply andb_true_iff in Hl. destruct Hl as [Ha Hl].
    destruct (seg_eqb a [] || seg_eqb a s_dot) eqn:E1; [apply IHl; auto|].
    destruct (seg_eqb a s_dotdot) eqn:E2.
    + destruct st; [apply IHl; auto|]. apply IHl; auto. simpl in Hs. apply andb_true_iff in Hs. tauto.
    + apply IHl; auto. simpl. apply orb_false_iff in E1. destruct E1 as [E1 E3].
      unfold is_name. rewrite E1, E2, E3, Ha. simpl. exact Hs.
Qed.

Lemma cleaned_names : forall i, forallb slashfree (i_segs i) = true -> names (snd (cleaned i)) = true.
Proof.
  intros i H. unfold cleaned. destruct (i_root i); simpl.
  - apply clean_abs_names_out; auto.
  - apply clean_rel_names_out; auto.
Qed.

(* ------------------------------------------------------------------ *)
(* strings: TrimPrefix, split, join *)

Lemma str_has_prefix_app : forall a b, str_has_prefix (a ++ b) a = true.
Proof.
  induction a; intros b; simpl.
  - destruct b; reflexivity.
  - rewrite Z.eqb_refl. simpl. auto.
Qed.

Lemma skipn_app_exact : forall (A : Type) (a b : list A), skipn (length a) (a ++ b) = b.
Proof. induction a; simpl; auto. Qed.

Lemma str_trim_prefix_app : forall a b, str_trim_prefix (a ++ b) a = b.
Proof. intros. unfold str_trim_prefix. rewrite str_has_prefix_app. apply skipn_app_exact. Qed.

Lemma split_on_seg : forall x t cur, slashfree x = true ->
  split_on c_slash (x ++ t) cur = split_on c_slash t (cur ++ x).
Proof.
  induction x; simpl; intros t cur H.
  - rewrite app_nil_r. reflexivity.
  - apply andb_true_iff in H. destruct H as [H1 H2]. apply negb_true_iff in H1. rewrite H1.
    rewrite IHx by exact H2. rewrite <- app_assoc. reflexivity.
Qed.

Lemma split_join : forall s cur, forallb slashfree s = true -> split_on c_slash (join_rel s) cur = cur :: s.
Proof.
  induction s; simpl; intros cur H; auto.
  apply andb_true_iff in H. destruct H as [H1 H2].
  unfold join_rel in *. simpl. rewrite split_on_seg by exact H1. rewrite IHs by exact H2. reflexivity.
Qed.

Lemma join_rel_app : forall a b, join_rel (a ++ b) = join_rel a ++ join_rel b.
Proof. intros. unfold join_rel. rewrite map_app, concat_app. reflexivity. Qed.

(* THE PATH MAPPING: a host path below the bundle root maps to prefix ++ relative part *)
Lemma bundle_path_under : forall pre R s,
  R <> [] -> names pre = true -> names s = true ->
  bundle_path_with pre R (R ++ s) = pre ++ s.
Proof.
  intros pre R s HR Hp Hs. unfold bundle_path_with.
  assert (E : join_str (R ++ s) = join_rel R ++ join_rel s).
  { rewrite <- join_rel_app. unfold join_str. destruct (R ++ s) eqn:E; auto.
    destruct R; [congruence | discriminate]. }
  assert (E2 : join_str R = join_rel R) by (destruct R; [congruence | reflexivity]).
  rewrite E, E2, str_trim_prefix_app. unfold split_slash. rewrite split_join by (apply names_slashfree; exact Hs).
  unfold clean_abs. rewrite clean_abs_aux_app by exact Hp. simpl.
  rewrite clean_abs_aux_names by exact Hs. rewrite app_nil_r, rev_involutive. reflexivity.
Qed.

(* ------------------------------------------------------------------ *)
(* extensions commute with replacing the directory prefix *)

Lemma path_ext_app : forall d r, r <> [] -> path_ext (d ++ r) = path_ext r.
Proof. intros. unfold path_ext, last_seg. rewrite last_app_ne by assumption. reflexivity. Qed.

Lemma add_arrai_app : forall d r, r <> [] -> add_arrai (d ++ r) = d ++ add_arrai r.
Proof.
  intros d r H. unfold add_arrai. rewrite path_ext_app by exact H.
  destruct (seg_eqb (path_ext r) []); auto.
  unfold last_seg. rewrite last_app_ne by exact H. rewrite removelast_app by exact H.
  rewrite <- app_assoc. reflexivity.
Qed.

Lemma add_arrai_ne : forall r, r <> [] -> add_arrai r <> [].
Proof.
  intros r H. unfold add_arrai. destruct (seg_eqb (path_ext r) []); auto.
  intro E. apply app_eq_nil in E. destruct E; discriminate.
Qed.

Lemma removelast_add_arrai : forall r, removelast (add_arrai r) = removelast r.
Proof.
  intros r. unfold add_arrai. destruct (seg_eqb (path_ext r) []); auto. apply removelast_last.
Qed.

Lemma names_add_arrai : forall r, r <> [] -> names r = true -> names (add_arrai r) = true.
Proof.
  intros r Hne H. unfold add_arrai. destruct (seg_eqb (path_ext r) []); auto.
  rewrite names_app. unfold names at 1. rewrite forallb_removelast by exact H. simpl.
  rewrite andb_true_r. apply is_name_app_arrai.
  unfold last_seg. unfold names in H. rewrite forallb_forall in H. apply H.
  destruct r; [congruence|]. apply (@exists_last _ (s :: r)) in Hne. destruct Hne as (l' & a & E).
  rewrite E. rewrite last_last. apply in_or_app. right. left. reflexivity.
Qed.

(* ------------------------------------------------------------------ *)
(* layouts *)

Definition ext (A B : layout) : Prop := forall k f, lookup A k = Some f -> lookup B k = Some f.

Lemma ext_refl : forall A, ext A A.
Proof. intros A k f H. exact H. Qed.

Lemma ext_trans : forall A B C, ext A B -> ext B C -> ext A C.
Proof. intros A B C H1 H2 k f H. auto. Qed.

Lemma ext_add : forall A k f, ext A (add A k f).
Proof.
  intros A k f k' f' H. unfold add, mem. destruct (lookup A k) eqn:E; auto.
  simpl. destruct (path_eqb k k') eqn:E2; auto. apply path_eqb_eq in E2. subst. congruence.
Qed.

Lemma lookup_add_new : forall A k f, lookup A k = None -> lookup (add A k f) k = Some f.
Proof. intros. unfold add, mem. rewrite H. simpl. rewrite path_eqb_refl. reflexivity. Qed.

Lemma lookup_add_old : forall A k f f', lookup A k = Some f' -> lookup (add A k f) k = Some f'.
Proof. intros. unfold add, mem. rewrite H. exact H. Qed.

Lemma lookup_in : forall L p f, lookup L p = Some f -> In f (map snd L).
Proof.
  induction L as [|[k g] L]; simpl; intros p f H; [discriminate|].
  destruct (path_eqb k p); [inversion H; auto | right; eauto].
Qed.

Lemma wf_layout_lookup : forall L p f, wf_layout L = true -> lookup L p = Some f -> wf_file f = true.
Proof.
  induction L as [|[k g] L]; simpl; intros p f H Hl; [discriminate|].
  apply andb_true_iff in H. destruct H as [H1 H2]. simpl in H1.
  destruct (path_eqb k p); [inversion Hl; subst; auto | eauto].
Qed.

(* ------------------------------------------------------------------ *)
(* findRootFromModule *)

Definition above (L : layout) (rd : list seg) : option (list seg) :=
  match rd with [] => None | _ :: up => find_root_up L up end.

Lemma find_root_up_unfold : forall L rd,
  find_root_up L rd = if has_gomod L (rev rd) then Some rd else above L rd.
Proof. destruct rd; reflexivity. Qed.

(* the search restricted to the part of the directory below a base R *)
Fixpoint find_rel (L : layout) (R : path) (x : list seg) : option (list seg) :=
  if has_gomod L (R ++ rev x) then Some x
  else match x with [] => None | _ :: u => find_rel L R u end.

Lemma find_rel_nil : forall L R, find_rel L R [] = if has_gomod L (R ++ rev []) then Some [] else None.
Proof. reflexivity. Qed.
Lemma find_rel_cons : forall L R a x,
  find_rel L R (a :: x) = if has_gomod L (R ++ rev (a :: x)) then Some (a :: x) else find_rel L R x.
Proof. reflexivity. Qed.

Lemma find_root_up_split : forall L R x,
  find_root_up L (x ++ rev R) =
  match find_rel L R x with Some x' => Some (x' ++ rev R) | None => above L (rev R) end.
Proof.
  induction x as [|a x IH].
  - rewrite find_rel_nil. simpl app. rewrite find_root_up_unfold, rev_involutive. simpl rev. rewrite app_nil_r.
    destruct (has_gomod L R); reflexivity.
  - rewrite find_rel_cons, find_root_up_unfold.
    replace (rev ((a :: x) ++ rev R)) with (R ++ rev (a :: x)) by (rewrite rev_app_distr, rev_involutive; reflexivity).
    destruct (has_gomod L (R ++ rev (a :: x))); [reflexivity|]. simpl above. exact IH.
Qed.

Lemma find_rel_suffix : forall L R x x', find_rel L R x = Some x' -> exists y, x = y ++ x'.
Proof.
  induction x as [|a x IH]; intros x' H.
  - rewrite find_rel_nil in H. destruct (has_gomod L (R ++ rev [])); inversion H. exists []. reflexivity.
  - rewrite find_rel_cons in H. destruct (has_gomod L (R ++ rev (a :: x))).
    + inversion H. exists []. reflexivity.
    + destruct (IH _ H) as [y E]. exists (a :: y). subst. reflexivity.
Qed.

Lemma find_rel_none : forall L R x, find_rel L R x = None -> has_gomod L R = false.
Proof.
  induction x as [|a x IH]; intros H.
  - rewrite find_rel_nil in H. simpl rev in H. rewrite app_nil_r in H. destruct (has_gomod L R); [discriminate | reflexivity].
  - rewrite find_rel_cons in H. destruct (has_gomod L (R ++ rev (a :: x))); [discriminate | auto].
Qed.

Lemma find_rel_sim : forall L R (B : layout) (P : path) x x',
  (forall s, has_gomod B (P ++ s) = true -> has_gomod L (R ++ s) = true) ->
  find_rel L R x = Some x' -> has_gomod B (P ++ rev x') = true -> find_rel B P x = Some x'.
Proof.
  induction x as [|a x IH]; intros x' HB H Hh.
  - rewrite find_rel_nil in *. destruct (has_gomod L (R ++ rev [])); inversion H; subst. rewrite Hh. reflexivity.
  - rewrite find_rel_cons in *. destruct (has_gomod L (R ++ rev (a :: x))) eqn:E.
    + inversion H; subst. rewrite Hh. reflexivity.
    + destruct (has_gomod B (P ++ rev (a :: x))) eqn:E2.
      * apply HB in E2. congruence.
      * apply IH; auto.
Qed.

Lemma find_root_up_has : forall L rd r, find_root_up L rd = Some r -> has_gomod L (rev r) = true.
Proof.
  induction rd as [|a rd IH]; intros r H; rewrite find_root_up_unfold in H.
  - destruct (has_gomod L (rev [])) eqn:E; [inversion H; subst; exact E | discriminate].
  - destruct (has_gomod L (rev (a :: rd))) eqn:E; [inversion H; subst; exact E | simpl in H; auto].
Qed.

Lemma find_root_up_suffix : forall L rd r, find_root_up L rd = Some r -> exists y, rd = y ++ r.
Proof.
  induction rd as [|a rd IH]; intros r H; rewrite find_root_up_unfold in H.
  - destruct (has_gomod L (rev [])); [inversion H; exists []; reflexivity | discriminate].
  - destruct (has_gomod L (rev (a :: rd))); [inversion H; exists []; reflexivity|].
    simpl in H. destruct (IH _ H) as [y E]. exists (a :: y). subst. reflexivity.
Qed.

Lemma find_root_has : forall L d root, find_root L d = Some root -> has_gomod L root = true.
Proof.
  unfold find_root. intros L d root H. destruct (find_root_up L (rev d)) eqn:E; inversion H; subst.
  eapply find_root_up_has; eauto.
Qed.

Lemma find_root_prefix : forall L d root, find_root L d = Some root -> exists r0, d = root ++ r0.
Proof.
  unfold find_root. intros L d root H. destruct (find_root_up L (rev d)) eqn:E; inversion H; subst.
  apply find_root_up_suffix in E. destruct E as [y E]. exists (rev y).
  rewrite <- (rev_involutive d), E, rev_app_distr. reflexivity.
Qed.

Definition within (L : layout) (R : path) : Prop :=
  forall r x, find_root L (R ++ r) = Some x -> exists x', find_rel L R (rev r) = Some x' /\ x = R ++ rev x'.

Lemma within_named : forall L R, has_gomod L R = true -> within L R.
Proof.
  intros L R Hg r x. unfold find_root. rewrite rev_app_distr, find_root_up_split.
  destruct (find_rel L R (rev r)) eqn:E.
  - intros H. inversion H. exists l. split; auto. rewrite rev_app_distr, rev_involutive. reflexivity.
  - apply find_rel_none in E. congruence.
Qed.

Lemma within_unnamed : forall L R, find_root L R = None -> within L R.
Proof.
  intros L R Hn r x. unfold find_root in *. rewrite rev_app_distr, find_root_up_split.
  destruct (find_rel L R (rev r)) eqn:E.
  - intros H. inversion H. exists l. split; auto. rewrite rev_app_distr, rev_involutive. reflexivity.
  - rewrite find_root_up_unfold in Hn. destruct (has_gomod L (rev (rev R))); [discriminate|].
    destruct (above L (rev R)); [discriminate|]. discriminate.
Qed.

(* ------------------------------------------------------------------ *)
(* equations for the compiler *)

Lemma do_import_eq : forall q L h self dir A i,
  do_import q L h self dir A i =
  if negb (i_root i) && ((0 <? fst (cleaned i))%nat || starts_dotdot (hd [] (snd (cleaned i)))) then Err
  else if match snd (cleaned i) with [] => true | _ => false end then Err
  else if i_root i then
    match find_root L dir with
    | None => Err
    | Some root =>
        match hook_sentinel q L h root A with
        | Ok A1 => load L h self (root ++ snd (cleaned i)) i A1
        | Err => Err | Panic => Panic | OOF => OOF
        end
    end
  else load L h self (dir ++ snd (cleaned i)) i A.
Proof. reflexivity. Qed.

Lemma comp_list_cons : forall q L h self d i rest A,
  comp_list q L h self d (i :: rest) A =
  match do_import q L h self d A i with
  | Ok (t, A1) =>
      match comp_list q L h self d rest A1 with
      | Ok (ts, A2) => Ok (t :: ts, A2)
      | Err => Err | Panic => Panic | OOF => OOF
      end
  | Err => Err | Panic => Panic | OOF => OOF
  end.
Proof. reflexivity. Qed.

Lemma comp_S : forall q L h k d imps A, comp q L h (S k) d imps A = comp_list q L h (comp q L h k) d imps A.
Proof. reflexivity. Qed.

Lemma wf_import_parts : forall i, wf_import i = true -> forallb slashfree (i_segs i) = true.
Proof.
  unfold wf_import. intros i H.
  apply andb_true_iff in H. destruct H as [H _].
  apply andb_true_iff in H. destruct H as [H _]. exact H.
Qed.

Definition fst_res {X Y : Type} (r : res (X * Y)) : res X :=
  match r with Ok (x, _) => Ok x | Err => Err | Panic => Panic | OOF => OOF end.

(* ------------------------------------------------------------------ *)
(* the simulation: what the bundler writes is what the bundle run reads *)

Section Sim.
  Variable q : quirks.
  Variable L : layout.
  Variable c : cfg.
  Variables R P : path.
  Hypothesis HR : c_abs_root c = R.
  Hypothesis HPc : c_prefix c = P.
  Hypothesis Hq : q_unnamed_sentinel q = false.
  Hypothesis HRne : R <> [].
  Hypothesis HP : names P = true.
  Hypothesis Hun : c_named c = false -> P = [s_unnamed].
  Hypothesis Hwithin : within L R.
  Hypothesis HwfL : wf_layout L = true.

  Definition inv (A : layout) : Prop :=
    forall k f, lookup A k = Some f -> exists s, k = P ++ s /\ lookup L (R ++ s) = Some f.

  Lemma inv_nil : inv [].
  Proof. intros k f H. discriminate. Qed.

  Lemma inv_add : forall A s f, inv A -> lookup L (R ++ s) = Some f -> inv (add A (P ++ s) f).
  Proof.
    intros A s f HA HL k g H. unfold add, mem in H. destruct (lookup A (P ++ s)) eqn:E.
    - apply HA; auto.
    - simpl in H. destruct (path_eqb (P ++ s) k) eqn:E2.
      + apply path_eqb_eq in E2. inversion H; subst. exists s; auto.
      + apply HA; auto.
  Qed.

  Lemma inv_hit : forall A s f, inv A -> lookup L (R ++ s) = Some f -> lookup (add A (P ++ s) f) (P ++ s) = Some f.
  Proof.
    intros A s f HA HL. destruct (lookup A (P ++ s)) eqn:E.
    - rewrite (lookup_add_old _ _ _ _ E). destruct (HA _ _ E) as (s' & E1 & E2).
      apply app_inv_head in E1. subst. congruence.
    - apply lookup_add_new; auto.
  Qed.

  Lemma inv_gomod : forall B, inv B -> forall s, has_gomod B (P ++ s) = true -> has_gomod L (R ++ s) = true.
  Proof.
    unfold has_gomod, mem. intros B HB s H.
    destruct (lookup B ((P ++ s) ++ [s_gomod])) eqn:E; [|discriminate].
    destruct (HB _ _ E) as (s' & E1 & E2). rewrite <- app_assoc in E1. apply app_inv_head in E1. subst s'.
    rewrite app_assoc in E2. rewrite E2. reflexivity.
  Qed.

  Lemma sent_pre : (if c_named c then c_prefix c else if q_unnamed_sentinel q then [s_module] else [s_unnamed]) = P.
  Proof. destruct (c_named c) eqn:E; [exact HPc|]. rewrite Hq. symmetry. auto. Qed.

  Definition SimP (k : nat) : Prop :=
    forall r imps A ts A', names r = true -> inv A -> forallb wf_import imps = true ->
      comp q L (Some c) k (R ++ r) imps A = Ok (ts, A') ->
      inv A' /\ ext A A' /\
      forall B, inv B -> ext A' B -> comp q B None k (P ++ r) imps [] = Ok (ts, []).

  Lemma sim_load : forall k, SimP k -> forall s i A1 t A', names s = true -> s <> [] -> inv A1 ->
    load L (Some c) (comp q L (Some c) k) (R ++ s) i A1 = Ok (t, A') ->
    inv A' /\ ext A1 A' /\
    forall B, inv B -> ext A' B -> load B None (comp q B None k) (P ++ s) i [] = Ok (t, []).
  Proof.
    intros k IH s i A1 t A' Hs Hne I1 H.
    unfold load in H. rewrite add_arrai_app in H by exact Hne.
    pose proof (names_add_arrai s Hne Hs) as Nsf. pose proof (add_arrai_ne s Hne) as Nne.
    set (sf := add_arrai s) in *.
    unfold hook_file in H. destruct (lookup L (R ++ sf)) as [f|] eqn:EL; [|discriminate].
    unfold bundle_path in H. rewrite HR, HPc in H. rewrite bundle_path_under in H by auto.
    pose proof (inv_add A1 sf f I1 EL) as I2. pose proof (ext_add A1 (P ++ sf) f) as X2.
    pose proof (inv_hit A1 sf f I1 EL) as Hit.
    set (A2 := add A1 (P ++ sf) f) in *.
    rewrite path_ext_app in H by exact Nne.
    assert (BL : forall B, ext A2 B -> lookup B (P ++ sf) = Some f) by (intros B XB; apply XB; exact Hit).
    destruct (i_dec i) eqn:Ed.
    { inversion H; subst. split; auto. split; auto. intros B IB XB.
      unfold load. rewrite add_arrai_app by exact Hne. fold sf. simpl. rewrite (BL B XB), Ed. reflexivity. }
    destruct (negb (seg_eqb (path_ext sf) s_arrai_ext)) eqn:Ee.
    { inversion H; subst. split; auto. split; auto. intros B IB XB.
      unfold load. rewrite add_arrai_app by exact Hne. fold sf. simpl. rewrite (BL B XB), Ed.
      rewrite path_ext_app by exact Nne. rewrite Ee. reflexivity. }
    destruct (f_imps f) as [imps|] eqn:Ei; [|discriminate].
    rewrite removelast_app in H by exact Nne.
    destruct (comp q L (Some c) k (R ++ removelast sf) imps A2) as [[ch A3]| | |] eqn:Ec; try discriminate.
    inversion H; subst.
    assert (Wi : forallb wf_import imps = true).
    { pose proof (wf_layout_lookup _ _ _ HwfL EL) as W. unfold wf_file in W. rewrite Ei in W. exact W. }
    destruct (IH (removelast sf) imps A2 ch A' (forallb_removelast _ _ _ Nsf) I2 Wi Ec) as (I3 & X3 & B3).
    split; auto. split; [eapply ext_trans; eauto|]. intros B IB XB.
    unfold load. rewrite add_arrai_app by exact Hne. fold sf. simpl.
    rewrite (BL B (ext_trans _ _ _ X3 XB)), Ed. rewrite path_ext_app by exact Nne. rewrite Ee, Ei.
    rewrite removelast_app by exact Nne. rewrite (B3 B IB XB). reflexivity.
  Qed.

  Lemma sim_import : forall k, SimP k -> forall r i A t A', names r = true -> inv A -> wf_import i = true ->
    do_import q L (Some c) (comp q L (Some c) k) (R ++ r) A i = Ok (t, A') ->
    inv A' /\ ext A A' /\
    forall B, inv B -> ext A' B -> do_import q B None (comp q B None k) (P ++ r) [] i = Ok (t, []).
  Proof.
    intros k IH r i A t A' Hr IA Hw H.
    pose proof (wf_import_parts i Hw) as Hsl.
    pose proof (cleaned_names i Hsl) as Nrr.
    rewrite do_import_eq in H.
    set (rr := snd (cleaned i)) in *.
    destruct (negb (i_root i) && ((0 <? fst (cleaned i))%nat || starts_dotdot (hd [] rr))) eqn:G1; [discriminate|].
    destruct (match rr with [] => true | _ => false end) eqn:G2; [discriminate|].
    assert (Hne : rr <> []) by (destruct rr; [discriminate | congruence]).
    destruct (i_root i) eqn:Er.
    - destruct (find_root L (R ++ r)) as [root|] eqn:Ef; [|discriminate].
      destruct (Hwithin _ _ Ef) as (x' & Ex & Eroot). subst root.
      destruct (find_rel_suffix _ _ _ _ Ex) as [y Ey].
      assert (Nx : names (rev x') = true).
      { unfold names in *. rewrite forallb_rev. rewrite <- forallb_rev in Hr. rewrite Ey, forallb_app in Hr.
        apply andb_true_iff in Hr. tauto. }
      unfold hook_sentinel in H.
      destruct (lookup L ((R ++ rev x') ++ [s_gomod])) as [buf|] eqn:Eg; [|discriminate].
      rewrite sent_pre, HR in H. rewrite <- (app_assoc R (rev x') [s_gomod]) in H.
      assert (Ng : names (rev x' ++ [s_gomod]) = true) by (rewrite names_app, Nx; reflexivity).
      rewrite bundle_path_under in H by auto.
      rewrite <- (app_assoc R (rev x') [s_gomod]) in Eg.
      pose proof (inv_add A _ buf IA Eg) as I1. pose proof (inv_hit A _ buf IA Eg) as Hit1.
      pose proof (ext_add A (P ++ rev x' ++ [s_gomod]) buf) as X1.
      set (A1 := add A (P ++ rev x' ++ [s_gomod]) buf) in *.
      rewrite <- (app_assoc R (rev x') rr) in H.
      assert (Ns : names (rev x' ++ rr) = true) by (rewrite names_app, Nx, Nrr; reflexivity).
      assert (Nn : rev x' ++ rr <> []) by (intro E; apply app_eq_nil in E; tauto).
      destruct (sim_load k IH _ i A1 t A' Ns Nn I1 H) as (I' & X' & B').
      split; auto. split; [eapply ext_trans; eauto|]. intros B IB XB.
      rewrite do_import_eq. fold rr. rewrite Er. rewrite G1, G2.
      assert (Hg : has_gomod B (P ++ rev x') = true).
      { unfold has_gomod, mem. rewrite <- app_assoc. rewrite (XB _ _ (X' _ _ Hit1)). reflexivity. }
      assert (Fb : find_root B (P ++ r) = Some (P ++ rev x')).
      { unfold find_root. rewrite rev_app_distr, find_root_up_split.
        rewrite (find_rel_sim L R B P _ _ (inv_gomod B IB) Ex Hg).
        rewrite rev_app_distr, rev_involutive. reflexivity. }
      rewrite Fb. simpl. rewrite <- app_assoc. apply B'; auto.
    - rewrite <- (app_assoc R r rr) in H.
      assert (Ns : names (r ++ rr) = true) by (rewrite names_app, Hr, Nrr; reflexivity).
      assert (Nn : r ++ rr <> []) by (intro E; apply app_eq_nil in E; tauto).
      destruct (sim_load k IH _ i A t A' Ns Nn IA H) as (I' & X' & B').
      split; auto. split; auto. intros B IB XB.
      rewrite do_import_eq. fold rr. rewrite Er. rewrite G1, G2. rewrite <- app_assoc. apply B'; auto.
  Qed.

  Lemma sim_list : forall k, SimP k -> forall imps r A ts A', names r = true -> inv A -> forallb wf_import imps = true ->
    comp_list q L (Some c) (comp q L (Some c) k) (R ++ r) imps A = Ok (ts, A') ->
    inv A' /\ ext A A' /\
    forall B, inv B -> ext A' B -> comp_list q B None (comp q B None k) (P ++ r) imps [] = Ok (ts, []).
  Proof.
    intros k IH. induction imps as [|i rest IHl]; intros r A ts A' Hr IA Hw H.
    - simpl in H. inversion H; subst. split; auto. split; [apply ext_refl|]. intros; reflexivity.
    - simpl in Hw. apply andb_true_iff in Hw. destruct Hw as [Hi Hrest].
      rewrite comp_list_cons in H.
      destruct (do_import q L (Some c) (comp q L (Some c) k) (R ++ r) A i) as [[t A1]| | |] eqn:Ei; try discriminate.
      destruct (comp_list q L (Some c) (comp q L (Some c) k) (R ++ r) rest A1) as [[ts' A2]| | |] eqn:El; try discriminate.
      inversion H; subst.
      destruct (sim_import k IH _ _ _ _ _ Hr IA Hi Ei) as (I1 & X1 & B1).
      destruct (IHl _ _ _ _ Hr I1 Hrest El) as (I2 & X2 & B2).
      split; auto. split; [eapply ext_trans; eauto|]. intros B IB XB.
      rewrite comp_list_cons. rewrite (B1 B IB (ext_trans _ _ _ X2 XB)). rewrite (B2 B IB XB). reflexivity.
  Qed.

  Lemma sim_all : forall k, SimP k.
  Proof.
    induction k as [|k IH]; intros r imps A ts A' Hr IA Hw H.
    - simpl in H. discriminate.
    - rewrite comp_S in H. destruct (sim_list k IH _ _ _ _ _ Hr IA Hw H) as (I & X & B).
      split; [exact I | split; [exact X |]]. intros B0 IB XB. rewrite comp_S. apply B; auto.
  Qed.

  (* bundling the main script's imports and then running the archive, against
     compiling the same imports from source *)
  Lemma core : forall fuel src imps r0 b A0,
    names (r0 ++ [b]) = true -> lookup L (R ++ r0 ++ [b]) = Some src -> f_imps src = Some imps ->
    inv A0 -> lookup A0 (P ++ r0 ++ [b]) = Some src -> q_cfg_goquote q = false ->
    (forall k d i A A1, fst_res (comp q L (Some c) k d i A) = fst_res (comp q L None k d i A1)) ->
    let bun :=
      match
        match comp q L (Some c) fuel (R ++ r0) imps A0 with
        | Ok (_, A') => Ok {| a_files := A'; a_cfg := Some (P ++ r0 ++ [b]) |}
        | Err => Err | Panic => Panic | OOF => OOF
        end
      with
      | Ok a => resolve_bun q fuel a
      | Err => Err | Panic => Panic | OOF => OOF
      end in
    match comp q L None fuel (R ++ r0) imps [] with
    | Ok (ch, _) => bun = Ok (Node src KScript ch)
    | Err => bun = Err
    | Panic => True
    | OOF => True
    end.
  Proof.
    intros fuel src imps r0 b A0 Hn Hl Hi IA Hit Hc Hhook bun. subst bun.
    pose proof (Hhook fuel (R ++ r0) imps A0 []) as E.
    assert (Nr0 : names r0 = true) by (rewrite names_app in Hn; apply andb_true_iff in Hn; tauto).
    assert (Wi : forallb wf_import imps = true).
    { pose proof (wf_layout_lookup _ _ _ HwfL Hl) as W. unfold wf_file in W. rewrite Hi in W. exact W. }
    destruct (comp q L None fuel (R ++ r0) imps []) as [[ch A00]| | |] eqn:Ec;
      destruct (comp q L (Some c) fuel (R ++ r0) imps A0) as [[ch' A']| | |] eqn:Eb;
      simpl in E; try discriminate; try exact I; try reflexivity.
    inversion E; subst ch'.
    destruct (sim_all fuel r0 imps A0 ch A' Nr0 IA Wi Eb) as (I' & X' & B').
    unfold resolve_bun. simpl a_cfg. simpl a_files.
    unfold cfg_survives. rewrite Hc. simpl negb. simpl orb.
    rewrite (X' _ _ Hit). unfold resolve_in. rewrite Hi.
    assert (Er : removelast (P ++ r0 ++ [b]) = P ++ r0).
    { rewrite removelast_app by (intro E0; apply app_eq_nil in E0; destruct E0; discriminate).
      rewrite removelast_last. reflexivity. }
    rewrite Er. rewrite (B' A' I' (ext_refl A')). reflexivity.
  Qed.
End Sim.

(* ------------------------------------------------------------------ *)
(* the bundling hooks, and the quirk set (which only the hooks consult), do
   not change which files are compiled nor whether compilation fails *)

Section Hook.
  Variables q q' : quirks.
  Variable L : layout.
  Variable h : option cfg.

  Definition agree (s1 s2 : path -> list import -> layout -> res (list tree * layout)) : Prop :=
    forall d imps A A0, fst_res (s1 d imps A) = fst_res (s2 d imps A0).

  Lemma load_hook : forall s1 s2, agree s1 s2 -> forall ip i A A0,
    fst_res (load L h s1 ip i A) = fst_res (load L None s2 ip i A0).
  Proof.
    intros s1 s2 H ip i A A0. unfold load, hook_file.
    destruct (lookup L (add_arrai ip)) as [f|]; [|destruct h; reflexivity].
    destruct h as [c|]; cbv beta iota;
      (destruct (i_dec i); [reflexivity|]);
      (destruct (negb (seg_eqb (path_ext (add_arrai ip)) s_arrai_ext)); [reflexivity|]);
      (destruct (f_imps f) as [imps|]; [|reflexivity]);
      match goal with |- context [s1 ?a ?b ?c0] => specialize (H a b c0 A0) end;
      destruct (s1 _ _ _) as [[? ?]| | |]; destruct (s2 _ _ _) as [[? ?]| | |]; simpl in *; congruence.
  Qed.

  Lemma import_hook : forall s1 s2, agree s1 s2 -> forall d i A A0,
    fst_res (do_import q L h s1 d A i) = fst_res (do_import q' L None s2 d A0 i).
  Proof.
    intros s1 s2 H d i A A0. rewrite !do_import_eq.
    destruct (negb (i_root i) && _); [reflexivity|].
    destruct (match snd (cleaned i) with [] => true | _ => false end); [reflexivity|].
    destruct (i_root i).
    - destruct (find_root L d) as [root|] eqn:Ef; [|reflexivity].
      apply find_root_has in Ef. unfold has_gomod, mem in Ef.
      assert (Hs : exists A1, hook_sentinel q L h root A = Ok A1).
      { unfold hook_sentinel. destruct h; [|eauto].
        destruct (lookup L (root ++ [s_gomod])); [eauto | discriminate]. }
      destruct Hs as [A1 Hs]. rewrite Hs. simpl hook_sentinel. apply load_hook; auto.
    - apply load_hook; auto.
  Qed.

  Lemma list_hook : forall s1 s2, agree s1 s2 -> forall d imps A A0,
    fst_res (comp_list q L h s1 d imps A) = fst_res (comp_list q' L None s2 d imps A0).
  Proof.
    intros s1 s2 H d. induction imps as [|a imps IH]; intros A A0; [reflexivity|].
    rewrite !comp_list_cons.
    pose proof (import_hook _ _ H d a A A0) as E.
    destruct (do_import q L h s1 d A a) as [[t A1]| | |];
      destruct (do_import q' L None s2 d A0 a) as [[t' A1']| | |]; simpl in E; try discriminate; try reflexivity.
    inversion E; subst. specialize (IH A1 A1').
    destruct (comp_list q L h s1 d imps A1) as [[? ?]| | |];
      destruct (comp_list q' L None s2 d imps A1') as [[? ?]| | |]; simpl in *; congruence.
  Qed.

  Lemma comp_hook : forall k, agree (comp q L h k) (comp q' L None k).
  Proof.
    induction k as [|k IH]; intros d imps A A0; [reflexivity|].
    rewrite !comp_S. apply list_hook. exact IH.
  Qed.
End Hook.

Lemma resolve_src_q : forall q fuel L main, resolve_src q fuel L main = resolve_src quirks_off fuel L main.
Proof.
  intros. unfold resolve_src, resolve_in. destruct (lookup L main) as [f|]; [|reflexivity].
  destruct (f_imps f) as [imps|]; [|reflexivity].
  pose proof (comp_hook q quirks_off L None fuel (removelast main) imps [] []) as E.
  destruct (comp q L None fuel (removelast main) imps []) as [[? ?]| | |];
    destruct (comp quirks_off L None fuel (removelast main) imps []) as [[? ?]| | |]; simpl in E; congruence.
Qed.

(* ------------------------------------------------------------------ *)
(* C15 for the repaired model *)

(* the bundle run yields the import tree (hence the value) of the source run,
   or both fail *)
Definition like_source (q : quirks) (fuel : nat) (L : layout) (main : path) : Prop :=
  match resolve_src q fuel L main with
  | Ok t => run_bundle q fuel L main = Ok t
  | Err => run_bundle q fuel L main = Err
  | Panic => True
  | OOF => True
  end.

Theorem bundle_like_source_off : forall fuel L main, pre L main = true -> like_source quirks_off fuel L main.
Proof.
  intros fuel L main Hpre. unfold like_source. unfold pre in Hpre. apply andb_true_iff in Hpre. destruct Hpre as [HwL Hm].
  unfold wf_main in Hm.
  apply andb_true_iff in Hm. destruct Hm as [Hm Hroot].
  apply andb_true_iff in Hm. destruct Hm as [Hm _].
  apply andb_true_iff in Hm. destruct Hm as [Hm Hng].
  apply andb_true_iff in Hm. destruct Hm as [Hn Hlen].
  apply negb_true_iff in Hng. apply Nat.leb_le in Hlen.
  assert (Hmne : main <> []) by (destruct main; simpl in Hlen; [lia | discriminate]).
  destruct (exists_last Hmne) as (d & b & Emain).
  assert (Ed : removelast main = d) by (subst main; apply removelast_last).
  assert (Eb : last_seg main = b) by (subst main; unfold last_seg; apply last_last).
  assert (Hd : d <> []).
  { subst main. rewrite app_length in Hlen. simpl in Hlen. destruct d; simpl in *; [lia | discriminate]. }
  unfold run_bundle, bundle, resolve_src. cbv zeta. rewrite Ed, Eb in *.
  destruct (lookup L main) as [src|] eqn:Em; [|reflexivity].
  unfold resolve_in, bundle_with. rewrite ?Ed.
  assert (Hk : forall (c : cfg) (k : nat) (dd : path) (i : list import) (A A1 : layout),
             fst_res (comp quirks_off L (Some c) k dd i A) = fst_res (comp quirks_off L None k dd i A1)).
  { intros. apply comp_hook. }
  destruct (find_root L d) as [root|] eqn:Ef.
  - (* main lies in a module *)
    destruct (lookup L (root ++ [s_gomod])) as [gm|] eqn:Eg; [|discriminate].
    unfold parse_mod. simpl q_modre_anchored. cbv iota.
    destruct (modre_lines (f_bytes gm)) as [name|] eqn:En; [|discriminate].
    apply andb_true_iff in Hroot. destruct Hroot as [Nname _].
    destruct (f_imps src) as [imps|] eqn:Ei; [|reflexivity].
    destruct (find_root_prefix _ _ _ Ef) as [r0 Er0].
    assert (Hrne : root <> []).
    { intro E. subst root. apply find_root_has in Ef. unfold has_gomod in Ef. simpl in Ef. congruence. }
    set (pre0 := s_module :: split_slash name).
    assert (Npre : names pre0 = true) by (unfold pre0; simpl; exact Nname).
    assert (Emain2 : main = root ++ r0 ++ [b]) by (rewrite Emain, Er0, app_assoc; reflexivity).
    assert (Nrb : names (r0 ++ [b]) = true).
    { rewrite Emain2 in Hn. rewrite names_app in Hn. apply andb_true_iff in Hn. tauto. }
    assert (Ecl : clean_abs (pre0 ++ [s_gomod]) = pre0 ++ [s_gomod]).
    { unfold clean_abs. rewrite clean_abs_aux_names; [reflexivity|]. rewrite names_app, Npre. reflexivity. }
    rewrite Ecl.
    set (c := {| c_named := true; c_prefix := pre0; c_abs_root := root |}).
    assert (Emf : bundle_path c main = pre0 ++ r0 ++ [b]).
    { unfold bundle_path. simpl. rewrite Emain2. apply bundle_path_under; auto. }
    rewrite Emf.
    assert (I0 : inv L root pre0 (add (add [] (pre0 ++ [s_gomod]) gm) (pre0 ++ r0 ++ [b]) src)).
    { apply inv_add; [apply inv_add; [apply inv_nil | exact Eg] | rewrite <- Emain2; exact Em]. }
    assert (Hit : lookup (add (add [] (pre0 ++ [s_gomod]) gm) (pre0 ++ r0 ++ [b]) src) (pre0 ++ r0 ++ [b]) = Some src).
    { apply (inv_hit L root pre0); [apply inv_add; [apply inv_nil | exact Eg] | rewrite <- Emain2; exact Em]. }
    rewrite Emain2 in Em. rewrite Er0.
    pose proof (core quirks_off L c root pre0 eq_refl eq_refl eq_refl Hrne Npre (fun E => match Bool.diff_true_false E with end)
             (within_named L root (find_root_has _ _ _ Ef)) HwL fuel src imps r0 b _ Nrb Em Ei I0 Hit eq_refl (Hk c)) as C.
    cbv zeta in C.
    destruct (comp quirks_off L None fuel (root ++ r0) imps []) as [[ch A00]| | |]; exact C.
  - (* no module: /unnamed *)
    destruct (f_imps src) as [imps|] eqn:Ei; [|reflexivity].
    set (c := {| c_named := false; c_prefix := [s_unnamed]; c_abs_root := d |}).
    assert (Nb : names ([] ++ [b]) = true).
    { rewrite Emain in Hn. rewrite names_app in Hn. apply andb_true_iff in Hn. tauto. }
    assert (Em2 : lookup L (d ++ [] ++ [b]) = Some src) by (simpl; rewrite <- Emain; exact Em).
    assert (I0 : inv L d [s_unnamed] (add [] ([s_unnamed] ++ [] ++ [b]) src)).
    { apply inv_add; [apply inv_nil | exact Em2]. }
    assert (Hit : lookup (add [] ([s_unnamed] ++ [] ++ [b]) src) ([s_unnamed] ++ [] ++ [b]) = Some src).
    { apply (inv_hit L d [s_unnamed]); [apply inv_nil | exact Em2]. }
    pose proof (core quirks_off L c d [s_unnamed] eq_refl eq_refl eq_refl Hd eq_refl (fun _ => eq_refl)
             (within_unnamed L d Ef) HwL fuel src imps [] b _ Nb Em2 Ei I0 Hit eq_refl (Hk c)) as C.
    cbv zeta in C. rewrite app_nil_r in C. simpl app in C.
    destruct (comp quirks_off L None fuel d imps []) as [[ch A00]| | |]; exact C.
Qed.

(* the statement of DESIGN 5.3: for every quirk set, on every input on which
   the run does not depend on an enabled defective site *)
Theorem bundle_like_source : forall q fuel L main, pre L main = true ->
  run_bundle q fuel L main = run_bundle quirks_off fuel L main ->
  like_source q fuel L main.
Proof.
  intros q fuel L main Hp Hg. unfold like_source. rewrite resolve_src_q, Hg.
  apply (bundle_like_source_off fuel L main Hp).
Qed.

(* the bundle run is a function of the archive alone: by construction
   (resolve_bun takes no layout and no working directory), stated for the record *)
Theorem run_depends_only_on_archive : forall q fuel L1 m1 L2 m2 a,
  bundle q fuel L1 m1 = Ok a -> bundle q fuel L2 m2 = Ok a ->
  run_bundle q fuel L1 m1 = run_bundle q fuel L2 m2.
Proof. intros. unfold run_bundle. rewrite H, H0. reflexivity. Qed.
