(* Proofs about Sys/Wire.v (property C13, server wire format). *)
From Coq Require Import Lia.
From Arrai Require Import Base.Val Sys.Outcome Sys.Json Sys.Wire Proofs.JsonP.

Definition esc_attrs (q : wquirks) : list (str * rv) -> res (list (str * json)) :=
  fix go (l : list (str * rv)) : res (list (str * json)) :=
    match l with
    | [] => Ok []
    | (k, v) :: l' => bind (wire_escape q v) (fun jv => bind (go l') (fun m => Ok (jput k jv m)))
    end.
Definition esc_items (q : wquirks) : list (option rv) -> res (list json) :=
  fix go (l : list (option rv)) : res (list json) :=
    match l with
    | [] => Ok []
    | None :: l' => if q_wire_offsets_holes_lost q then go l' else Err
    | Some y :: l' => bind (wire_escape q y) (fun jy => bind (go l') (fun js => Ok (jy :: js)))
    end.
Definition unesc_items (q : wquirks) : list json -> res (list rv) :=
  fix go (l : list json) : res (list rv) :=
    match l with
    | [] => Ok []
    | x :: l' => bind (wire_unescape q x) (fun rx => bind (go l') (fun rs => Ok (rx :: rs)))
    end.
Definition unesc_attrs (q : wquirks) : list (str * json) -> res (list (str * rv)) :=
  fix go (l : list (str * json)) : res (list (str * rv)) :=
    match l with
    | [] => Ok []
    | (k, v) :: l' => bind (wire_unescape q v) (fun rv0 => bind (go l') (fun rs => Ok ((k, rv0) :: rs)))
    end.

Lemma escape_tup q attrs : wire_escape q (RTup attrs) = rmap JObj (esc_attrs q attrs).
Proof. reflexivity. Qed.
Lemma escape_arr q off items :
  wire_escape q (RArr off items) =
  if q_wire_offsets_holes_lost q || (off =? 0) then rmap set_doc (esc_items q items) else Err.
Proof. reflexivity. Qed.
Lemma unescape_obj q m :
  wire_unescape q (JObj m) =
  if match m with [(k, _)] => name_eqb k n_setkey | _ => false end then
    match m with [(_, JArr l)] => rmap rarr (unesc_items q l) | _ => Err end
  else if existsb (fun kv => name_eqb (fst kv) n_setkey) m then Err
  else bind (unesc_attrs q m) tuple_finish.
Proof. reflexivity. Qed.

Definition rt (q : wquirks) (r : rv) : Prop :=
  wire_safe r = true -> bind (wire_escape q r) (wire_unescape q) = Ok r.

Lemma wire_string_ok q s : negb (has_hole s) = true -> wire_string q 0 s = Ok s.
Proof.
  unfold wire_string, has_hole. intros H. apply negb_true_iff in H.
  destruct (q_wire_offsets_holes_lost q).
  - f_equal. induction s as [|c s IH]; [reflexivity|]. cbn in H |- *.
    apply orb_false_elim in H. destruct H as [H1 H2]. rewrite H1, IH by exact H2. reflexivity.
  - cbn. unfold has_hole. rewrite H. reflexivity.
Qed.

Lemma items_rt q items :
  Forall (optP (rt q)) items ->
  forallb (fun o => match o with Some x => wire_safe x | None => false end) items = true ->
  exists js ys, esc_items q items = Ok js /\ unesc_items q js = Ok ys /\ items = map Some ys.
Proof.
  induction 1 as [|o items Ho _ IH]; intros S.
  - exists [], []. repeat split; reflexivity.
  - cbn [forallb] in S. apply andb_prop in S. destruct S as [S1 S2].
    destruct o as [y|]; [|discriminate]. cbn [optP] in Ho. specialize (Ho S1).
    destruct (wire_escape q y) as [jy| | |] eqn:E; try discriminate. cbn [bind] in Ho.
    destruct (IH S2) as [js [ys [H1 [H2 H3]]]].
    exists (jy :: js), (y :: ys). cbn [esc_items unesc_items]. rewrite E. cbn [bind].
    fold (esc_items q). fold (unesc_items q). rewrite H1, Ho. cbn [bind]. rewrite H2. cbn [bind].
    repeat split; try reflexivity. rewrite H3. reflexivity.
Qed.

Lemma attrs_rt q attrs :
  Forall (fun kv => rt q (snd kv)) attrs -> keys_sorted attrs = true ->
  forallb (fun kv => wire_safe (snd kv)) attrs = true ->
  exists m, esc_attrs q attrs = Ok m /\ map fst m = map fst attrs /\ unesc_attrs q m = Ok attrs.
Proof.
  induction 1 as [|[k v] attrs Hv _ IH]; intros WS S.
  - exists []. repeat split; reflexivity.
  - cbn [forallb snd] in S. apply andb_prop in S. destruct S as [S1 S2]. cbn [snd] in Hv. specialize (Hv S1).
    destruct (wire_escape q v) as [jv| | |] eqn:E; try discriminate. cbn [bind] in Hv.
    destruct (IH (keys_sorted_tail _ _ WS) S2) as [m [H1 [H2 H3]]].
    exists ((k, jv) :: m). cbn [esc_attrs]. rewrite E. cbn [bind]. fold (esc_attrs q). rewrite H1. cbn [bind].
    assert (J : jput k jv m = (k, jv) :: m).
    { apply jput_sorted_cons. rewrite keys_sorted_keys. cbn [map fst]. rewrite H2.
      rewrite keys_sorted_keys in WS. exact WS. }
    rewrite J. repeat split; [cbn [map fst]; rewrite H2; reflexivity|].
    cbn [unesc_attrs]. rewrite Hv. cbn [bind]. fold (unesc_attrs q). rewrite H3. reflexivity.
Qed.

Lemma tuple_finish_cases attrs : tuple_finish attrs = Ok (RTup attrs) \/ tuple_finish attrs = Panic.
Proof.
  unfold tuple_finish. destruct attrs as [|[n1 i] [|[n2 x] [|? ?]]]; try (left; reflexivity).
  destruct (name_eqb n1 n_at); [|left; reflexivity].
  destruct (name_eqb n2 n_char || name_eqb n2 n_byte).
  - destruct (is_num i && is_num x); [left|right]; reflexivity.
  - destruct (name_eqb n2 n_item); [|left; reflexivity]. destruct (is_num i); [left|right]; reflexivity.
Qed.

Lemma single_key_flag {A B} (m : list (str * A)) (m' : list (str * B)) :
  map fst m = map fst m' ->
  match m with [(k, _)] => name_eqb k n_setkey | _ => false end =
  match m' with [(k, _)] => name_eqb k n_setkey | _ => false end.
Proof.
  destruct m as [|[k v] [|? ?]], m' as [|[k' v'] [|? ?]]; cbn; try discriminate; try reflexivity.
  intros H. injection H as ->. reflexivity.
Qed.

Lemma existsb_keys {A B} (m : list (str * A)) (m' : list (str * B)) :
  map fst m = map fst m' ->
  existsb (fun kv => name_eqb (fst kv) n_setkey) m = existsb (fun kv => name_eqb (fst kv) n_setkey) m'.
Proof.
  revert m'. induction m as [|[k v] m IH]; intros [|[k' v'] m'] H; cbn in H; try discriminate; [reflexivity|].
  injection H as -> H. cbn [existsb fst]. rewrite (IH m' H). reflexivity.
Qed.

Lemma single_setkey_exists {A} (m : list (str * A)) :
  match m with [(k, _)] => name_eqb k n_setkey | _ => false end = true ->
  existsb (fun kv => name_eqb (fst kv) n_setkey) m = true.
Proof. destruct m as [|[k v] [|? ?]]; try discriminate. cbn. intros ->. reflexivity. Qed.

(* W1: on wire-safe values the observer reads back exactly what the server sent,
   with or without the quirks *)
Theorem wire_roundtrip q r : rt q r.
Proof.
  induction r as [n|attrs IH| | |off s|off b|off items IH|multi es IH|g elems IH|] using rv_ind'; intros S;
    try discriminate; try reflexivity.
  - cbn [wire_safe] in S. apply andb_prop in S. destruct S as [S S4]. apply andb_prop in S. destruct S as [S S3].
    apply andb_prop in S. destruct S as [S1 S2]. apply negb_true_iff in S2.
    destruct (attrs_rt q attrs IH S1 S4) as [m [H1 [H2 H3]]].
    rewrite escape_tup, H1. cbn [rmap bind]. rewrite unescape_obj.
    assert (F1 : match m with [(k, _)] => name_eqb k n_setkey | _ => false end = false).
    { destruct (match m with [(k, _)] => name_eqb k n_setkey | _ => false end) eqn:E; [|reflexivity].
      apply single_setkey_exists in E. rewrite (existsb_keys m attrs H2) in E. congruence. }
    rewrite F1, (existsb_keys m attrs H2), S2, H3. cbn [bind].
    destruct (tuple_finish_cases attrs) as [T|T]; rewrite T in *; [reflexivity|discriminate].
  - cbn [wire_safe] in S. apply andb_prop in S. destruct S as [S S3]. apply andb_prop in S. destruct S as [S1 S2].
    apply Z.eqb_eq in S1. subst off. cbn [wire_escape]. rewrite wire_string_ok by exact S2. cbn.
    destruct s; [discriminate|reflexivity].
  - cbn [wire_safe] in S. apply andb_prop in S. destruct S as [S S3]. apply andb_prop in S. destruct S as [S1 S2].
    apply Z.eqb_eq in S1. subst off. rewrite escape_arr, Z.eqb_refl, orb_true_r.
    destruct (items_rt q items IH S3) as [js [ys [H1 [H2 H3]]]].
    rewrite H1. cbn [rmap bind]. unfold set_doc. rewrite unescape_obj.
    change (name_eqb n_setkey n_setkey) with true. cbv iota. rewrite H2. cbn [rmap bind].
    subst items. destruct ys; [discriminate|reflexivity].
Qed.

Corollary wire_roundtrip_exists q r :
  wire_safe r = true -> exists w, wire_escape q r = Ok w /\ wire_unescape q w = Ok r.
Proof.
  intros S. pose proof (wire_roundtrip q r S) as H.
  destruct (wire_escape q r) as [w| | |]; try discriminate. exists w. split; [reflexivity|exact H].
Qed.

(* ---------- the losses, each with a witness; the repaired model rejects ---------- *)
Lemma q_wire_sets_become_arrays_refuted :
  let r := RSet true [RNum (NInt 1); RNum (NInt 2)] in
  bind (wire_escape wquirks_cur r) (wire_unescape wquirks_cur)
    = Ok (RArr 0 [Some (RNum (NInt 1)); Some (RNum (NInt 2))]) /\
  wire_escape wquirks_off r = Err /\
  bind (wire_escape wquirks_cur (RDict false [(RStr 0 [97], RNum (NInt 1))])) (wire_unescape wquirks_cur)
    = Ok (RArr 0 [Some (RTup [(n_at, RStr 0 [97]); (n_value, RNum (NInt 1))])]) /\
  bind (wire_escape wquirks_cur (RBytes 0 [97])) (wire_unescape wquirks_cur)
    = Ok (RArr 0 [Some (RTup [(n_at, RNum (NInt 0)); (n_byte, RNum (NInt 97))])]).
Proof. vm_compute. repeat split; reflexivity. Qed.

Lemma q_wire_offsets_holes_lost_refuted :
  bind (wire_escape wquirks_cur (RArr 0 [Some (RNum (NInt 1)); None; Some (RNum (NInt 3))])) (wire_unescape wquirks_cur)
    = Ok (RArr 0 [Some (RNum (NInt 1)); Some (RNum (NInt 3))]) /\
  bind (wire_escape wquirks_cur (RArr 1 [Some (RNum (NInt 1))])) (wire_unescape wquirks_cur)
    = Ok (RArr 0 [Some (RNum (NInt 1))]) /\
  bind (wire_escape wquirks_cur (RStr 1 [98; 99])) (wire_unescape wquirks_cur) = Ok (RStr 0 [98; 99]) /\
  wire_escape wquirks_off (RArr 1 [Some (RNum (NInt 1))]) = Err /\
  wire_escape wquirks_off (RStr 1 [98; 99]) = Err.
Proof. vm_compute. repeat split; reflexivity. Qed.

Lemma q_wire_null_panics_refuted :
  wire_unescape wquirks_cur (JArr [JNull]) = Panic /\ wire_unescape wquirks_off (JArr [JNull]) = Err.
Proof. vm_compute. split; reflexivity. Qed.

(* a tuple attribute named "{||}" is rejected by the reader (an error, not a change) *)
Lemma wire_reserved_name_rejected :
  bind (wire_escape wquirks_cur (RTup [(n_setkey, RNum (NInt 1))])) (wire_unescape wquirks_cur) = Err /\
  bind (wire_escape wquirks_cur (RTup [(n_setkey, RArr 0 [Some (RNum (NInt 1))])])) (wire_unescape wquirks_cur) = Err /\
  bind (wire_escape wquirks_cur (RTup [([97], RNum (NInt 2)); (n_setkey, RNum (NInt 1))])) (wire_unescape wquirks_cur) = Err.
Proof. vm_compute. repeat split; reflexivity. Qed.

Definition sample_value : rv :=
  RTup [([97], RNum (NInt 1)); ([98], RStr 0 [120]);
        ([99], RArr 0 [Some (RNum (NHalf 1)); Some REmpty; Some (RTup []); Some RTrue;
                       Some (RArr 0 [Some (RStr 0 [233])])])].
Example wire_roundtrip_nonvacuous :
  wire_safe sample_value = true /\
  bind (wire_escape wquirks_cur sample_value) (wire_unescape wquirks_cur) = Ok sample_value.
Proof. vm_compute. split; reflexivity. Qed.
