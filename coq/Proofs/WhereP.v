(* where and => are the set comprehensions {x in A | p x} and {f x | x in A} (property C01),
   for every operand, function, scope and fuel. *)
From Arrai Require Import Base.Val Spec.SetAlg Eval.Interp Proofs.ValOrder Proofs.SetAlgP Proofs.KeyedP Proofs.SeqMapP.

(* the function a closure denotes on data values, at a given fuel *)
Definition clos_apply (fuel : nat) (cenv : env) (p : pat) (body : expr) (m : val) : res value :=
  do sc <- bind_pat fuel cenv p (D m); eval fuel (sc ++ cenv) body.

Definition clos_pred fuel cenv p body (m : val) : res bool :=
  do r <- clos_apply fuel cenv p body m; do d <- as_data r; Ok (is_true d).
Definition clos_img fuel cenv p body (m : val) : res val :=
  do r <- clos_apply fuel cenv p body m; as_data r.

Lemma mask_members (pred : val -> res bool) l keep :
  Forall2 (fun x b => pred x = Ok b) l keep ->
  forall x, In x (map fst (filter snd (combine l keep))) <-> In x l /\ pred x = Ok true.
Proof.
  induction 1 as [|y b l keep Hy F IH]; intros x; simpl; [split; [intros [] | intros [[] _]]|].
  destruct b; simpl; rewrite IH; split.
  - intros [<-|[Hin Hp]]; [split; [left; reflexivity | exact Hy] | split; [right; exact Hin | exact Hp]].
  - intros [[<-|Hin] Hp]; [left; reflexivity | right; split; assumption].
  - intros [Hin Hp]. split; [right; exact Hin | exact Hp].
  - intros [[<-|Hin] Hp]; [congruence | split; assumption].
Qed.

Theorem where_is_comprehension fuel rho a fn l cenv p body r :
  eval fuel rho a = Ok (D (VSet l)) -> eval fuel rho fn = Ok (Clos cenv p body) ->
  eval (S fuel) rho (EWhere a fn) = Ok (D r) ->
  exists m, r = VSet m /\ forall x, In x m <-> In x l /\ clos_pred fuel cenv p body x = Ok true.
Proof.
  intros Ha Hf. cbn [eval evalF]. rewrite Ha, Hf. cbn [rbind as_data as_set].
  intros H. apply rbind_ok in H as (keep & Hk & H). injection H as <-.
  eexists. split; [reflexivity|]. apply mask_members. apply mapM_Forall2 in Hk. exact Hk.
Qed.

Theorem darrow_is_image fuel rho a fn l cenv p body r :
  eval fuel rho a = Ok (D (VSet l)) -> eval fuel rho fn = Ok (Clos cenv p body) ->
  eval (S fuel) rho (EDArrow a fn) = Ok (D r) ->
  exists m, r = VSet m /\ ssorted m /\ forall y, In y m <-> exists x, In x l /\ clos_img fuel cenv p body x = Ok y.
Proof.
  intros Ha Hf. cbn [eval evalF]. rewrite Ha, Hf. cbn [rbind as_data as_set].
  intros H. apply rbind_ok in H as (ys & Hy & H). injection H as <-.
  eexists. split; [reflexivity|]. split; [apply vsort_sorted|].
  intros y. rewrite vsort_in. apply (mapM_ok _ _ _ Hy).
Qed.

(* both fail (or are outside the fragment) exactly when some application does: no member is silently skipped *)
Theorem where_total_or_fails fuel rho a fn l cenv p body :
  eval fuel rho a = Ok (D (VSet l)) -> eval fuel rho fn = Ok (Clos cenv p body) ->
  (forall x, In x l -> exists b, clos_pred fuel cenv p body x = Ok b) ->
  exists r, eval (S fuel) rho (EWhere a fn) = Ok (D r).
Proof.
  intros Ha Hf Hall. cbn [eval evalF]. rewrite Ha, Hf. cbn [rbind as_data as_set].
  assert (G : exists keep, mapM (clos_pred fuel cenv p body) l = Ok keep).
  { clear Ha. induction l as [|x l IH]; [exists []; reflexivity|].
    destruct (Hall x (or_introl eq_refl)) as (b & Hb). destruct IH as (keep & Hk); [intros y Hy; apply Hall; right; exact Hy|].
    exists (b :: keep). simpl. rewrite Hb. simpl. rewrite Hk. reflexivity. }
  destruct G as (keep & Hk). unfold clos_pred, clos_apply in Hk. rewrite Hk. simpl. eexists. reflexivity.
Qed.
