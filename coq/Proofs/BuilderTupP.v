(* rel.NewTuple (tuple_build in Rep/Builder.v) denotes exactly the attributes it is given:
   - a tuple that does not pair "@" with one of @char / @byte / @item / @value stays a GenericTuple whose map holds
     every attribute (later ones replacing earlier ones of the same name), whatever the argument order;
   - a well-typed (@, @char|@byte|@item|@value) pair, in either argument order, becomes the specialised tuple type. *)
From Arrai Require Import Base.Val Spec.SetAlg Proofs.ValOrder Proofs.SetAlgP Proofs.CanonP Rep.Builder.
From Arrai Require Import Proofs.BuilderP Proofs.BuilderDictP.

Definition gattr (p : name * rep) : name * val := (fst p, abs (snd p)).

(* the value a list of attributes denotes: a map filled in argument order *)
Definition tuple_spec (attrs : list (name * rep)) : val :=
  VTup (fold_left (fun m kv => ainsert kv m) (map gattr attrs) []).

Lemma map_tput x l : map gattr (tput x l) = ainsert (gattr x) (map gattr l).
Proof.
  induction l as [|y l IH]; cbn [tput map ainsert]; [reflexivity|].
  change (fst (gattr x)) with (fst x). change (fst (gattr y)) with (fst y).
  destruct (name_cmp (fst x) (fst y)); cbn [map]; [reflexivity|reflexivity|]. rewrite IH. reflexivity.
Qed.

Lemma map_fold_tput attrs : forall acc,
  map gattr (fold_left (fun m kv => tput kv m) attrs acc) =
  fold_left (fun m kv => ainsert kv m) (map gattr attrs) (map gattr acc).
Proof.
  induction attrs as [|a attrs IH]; intros acc; cbn [fold_left map]; [reflexivity|].
  rewrite IH, map_tput. reflexivity.
Qed.

Lemma fold_ainsert_sorted l : forall acc, asorted acc -> asorted (fold_left (fun m kv => ainsert kv m) l acc).
Proof. induction l as [|x l IH]; intros acc H; cbn [fold_left]; [exact H|]. apply IH. apply ainsert_sorted. exact H. Qed.

Lemma abs_generic_fold attrs :
  abs (RTupG (fold_left (fun m kv => tput kv m) attrs [])) = tuple_spec attrs.
Proof.
  cbn [abs]. unfold mktup, tuple_spec. f_equal.
  change (map (fun p : name * rep => (fst p, abs (snd p)))) with (map gattr).
  rewrite map_fold_tput. cbn [map]. apply asort_sorted_id. apply fold_ainsert_sorted. exact I.
Qed.

(* tfind after tput, on any list *)
Lemma tfind_tput n x l : tfind n (tput x l) = if name_eq n (fst x) then Some (snd x) else tfind n l.
Proof.
  induction l as [|[m w] l IH]; cbn [tput tfind fst snd].
  - destruct x as [nx vx]. cbn [tfind fst snd]. reflexivity.
  - destruct x as [nx vx]. cbn [fst snd] in *. destruct (name_cmp nx m) eqn:E; cbn [tfind].
    + apply name_cmp_eq in E. subst m. destruct (name_eq n nx); reflexivity.
    + reflexivity.
    + rewrite IH. destruct (name_eq n m) eqn:Em; [|reflexivity].
      destruct (name_eq n nx) eqn:Ex; [|reflexivity].
      apply name_eq_true in Em. apply name_eq_true in Ex. subst. rewrite name_cmp_refl in E. discriminate.
Qed.

Lemma tfind_fold n attrs : forall acc,
  tfind n (fold_left (fun m kv => tput kv m) attrs acc) = None <-> (~ In n (map fst attrs) /\ tfind n acc = None).
Proof.
  induction attrs as [|[m w] attrs IH]; intros acc; cbn [fold_left map fst In].
  - tauto.
  - rewrite IH, tfind_tput. cbn [fst snd]. destruct (name_eq n m) eqn:E.
    + apply name_eq_true in E. subst m. split; [intros [_ H]; discriminate|intros [H _]; exfalso; apply H; left; reflexivity].
    + assert (Hne : m <> n) by (intros ->; rewrite (proj2 (name_eq_true n n) eq_refl) in E; discriminate). tauto.
Qed.

Definition four (k : name) : Prop := k = n_char \/ k = n_byte \/ k = n_item \/ k = n_value.

Lemma specialise_none k i x : ~ four k -> specialise k i x = None.
Proof.
  intros H. unfold specialise, four in *.
  destruct (name_eq k n_char) eqn:E1; [apply name_eq_true in E1; tauto|].
  destruct (name_eq k n_byte) eqn:E2; [apply name_eq_true in E2; tauto|].
  destruct (name_eq k n_item) eqn:E3; [apply name_eq_true in E3; tauto|].
  destruct (name_eq k n_value) eqn:E4; [apply name_eq_true in E4; tauto|]. reflexivity.
Qed.

(* no "@" together with one of the four sugar names *)
Definition no_sugar (attrs : list (name * rep)) : Prop :=
  ~ (In n_at (map fst attrs) /\ exists k, four k /\ In k (map fst attrs)).

Lemma tfinish_generic attrs :
  no_sugar attrs ->
  tfinish (fold_left (fun m kv => tput kv m) attrs []) = BOk (RTupG (fold_left (fun m kv => tput kv m) attrs [])).
Proof.
  intros Hns. unfold tfinish. set (M := fold_left (fun m kv => tput kv m) attrs []).
  destruct (tfind n_at M) as [i|] eqn:Eat; [|reflexivity].
  assert (Hat : In n_at (map fst attrs)).
  { destruct (in_dec (list_eq_dec Z.eq_dec) n_at (map fst attrs)) as [H|H]; [exact H|].
    exfalso. assert (E : tfind n_at M = None) by (apply tfind_fold; split; [exact H|reflexivity]). rewrite E in Eat. discriminate. }
  assert (Hk : forall k, four k -> tfind k M = None).
  { intros k Hk. apply tfind_fold. split; [|reflexivity]. intros Hin. apply Hns. split; [exact Hat|exists k; split; assumption]. }
  rewrite (Hk n_char), (Hk n_byte), (Hk n_item), (Hk n_value); unfold four; auto.
  destruct (Nat.eqb (length M) 2); reflexivity.
Qed.

(* two attributes with different names can be put in either order *)
Lemma tuple_spec_swap a0 a1 : fst a0 <> fst a1 -> tuple_spec [a1; a0] = tuple_spec [a0; a1].
Proof.
  intros Hne. unfold tuple_spec. cbn [map fold_left ainsert]. change (fst (gattr a0)) with (fst a0). change (fst (gattr a1)) with (fst a1).
  destruct (name_cmp (fst a0) (fst a1)) eqn:E.
  - apply name_cmp_eq in E. contradiction.
  - assert (E' : name_cmp (fst a1) (fst a0) = Gt).
    { destruct (name_cmp (fst a1) (fst a0)) eqn:E2; [apply name_cmp_eq in E2; symmetry in E2; contradiction| |reflexivity].
      pose proof (name_cmp_trans _ _ _ E E2) as H. rewrite name_cmp_refl in H. discriminate. }
    rewrite E'. reflexivity.
  - rewrite (name_cmp_gt_lt _ _ E). reflexivity.
Qed.

(* generic tuples *)
Theorem tuple_build_generic attrs :
  NoDup (map fst attrs) -> no_sugar attrs ->
  exists m, tuple_build attrs = BOk (RTupG m) /\ abs (RTupG m) = tuple_spec attrs.
Proof.
  intros Hnd Hns.
  assert (Gen : forall l, no_sugar l -> tuple_spec l = tuple_spec attrs ->
            exists m, new_tuple l = BOk (RTupG m) /\ abs (RTupG m) = tuple_spec attrs).
  { intros l Hl Hsp. exists (fold_left (fun m kv => tput kv m) l []). split.
    - unfold new_tuple. apply tfinish_generic. exact Hl.
    - rewrite abs_generic_fold. exact Hsp. }
  destruct attrs as [|a0 [|a1 [|a2 rest]]]; try (apply Gen; [exact Hns|reflexivity]).
  unfold tuple_build.
  assert (Hne : fst a0 <> fst a1).
  { cbn [map] in Hnd. inversion Hnd as [|? ? Hni _]; subst. intros E. apply Hni. left. symmetry. exact E. }
  destruct (name_eq (fst a1) n_at) eqn:Esw.
  - (* "@" given second: swapped *)
    apply name_eq_true in Esw.
    assert (Hns' : no_sugar [a1; a0]).
    { intros [H1 [k [Hk H2]]]. apply Hns. split.
      - cbn [map In] in *. tauto.
      - exists k. split; [exact Hk|]. cbn [map In] in *. tauto. }
    assert (Hsp : tuple_spec [a1; a0] = tuple_spec [a0; a1]) by (apply tuple_spec_swap; exact Hne).
    rewrite (proj2 (name_eq_true (fst a1) n_at) Esw). cbn [andb].
    destruct (has_at_prefix (fst a0)); [|apply Gen; assumption].
    rewrite specialise_none; [apply Gen; assumption|].
    intros Hk. apply Hns. split; [cbn [map In]; right; left; exact Esw|]. exists (fst a0). split; [exact Hk|left; reflexivity].
  - destruct (name_eq (fst a0) n_at && has_at_prefix (fst a1)) eqn:Ec; [|apply Gen; [exact Hns|reflexivity]].
    apply andb_true_iff in Ec. destruct Ec as [E0 _]. apply name_eq_true in E0.
    rewrite specialise_none; [apply Gen; [exact Hns|reflexivity]|].
    intros Hk. apply Hns. split; [left; exact E0|]. exists (fst a1). split; [exact Hk|right; left; reflexivity].
Qed.

(* well-typed sugar pairs, in either argument order *)
Definition rune_ok (c : Z) : Prop := -2147483648 <= c < 2147483648.
Definition byte_ok (b : Z) : Prop := 0 <= b < 256.

Lemma as_rune_ok c : rune_ok c -> as_rune (RNum (NInt c)) = BOk c.
Proof.
  unfold rune_ok, as_rune. cbn [as_int]. intros H.
  destruct (-2147483648 <=? c) eqn:E1; [|apply Z.leb_gt in E1; lia].
  destruct (c <? 2147483648) eqn:E2; [reflexivity|apply Z.ltb_ge in E2; lia].
Qed.
Lemma as_byte_ok c : byte_ok c -> as_byte (RNum (NInt c)) = BOk c.
Proof.
  unfold byte_ok, as_byte. cbn [as_int]. intros H.
  destruct (0 <=? c) eqn:E1; [|apply Z.leb_gt in E1; lia].
  destruct (c <? 256) eqn:E2; [reflexivity|apply Z.ltb_ge in E2; lia].
Qed.

Theorem tuple_build_sugar a :
  (forall c, rune_ok c ->
     let l := [(n_at, RNum (NInt a)); (n_char, RNum (NInt c))] in
     tuple_build l = BOk (RTupChar a c) /\ tuple_build (rev l) = BOk (RTupChar a c) /\
     abs (RTupChar a c) = tuple_spec l /\ abs (RTupChar a c) = tuple_spec (rev l)) /\
  (forall b, byte_ok b ->
     let l := [(n_at, RNum (NInt a)); (n_byte, RNum (NInt b))] in
     tuple_build l = BOk (RTupByte a b) /\ tuple_build (rev l) = BOk (RTupByte a b) /\
     abs (RTupByte a b) = tuple_spec l /\ abs (RTupByte a b) = tuple_spec (rev l)) /\
  (forall x,
     let l := [(n_at, RNum (NInt a)); (n_item, x)] in
     tuple_build l = BOk (RTupItem a x) /\ tuple_build (rev l) = BOk (RTupItem a x) /\
     abs (RTupItem a x) = tuple_spec l /\ abs (RTupItem a x) = tuple_spec (rev l)) /\
  (forall k v,
     let l := [(n_at, k); (n_value, v)] in
     tuple_build l = BOk (RTupEntry k v) /\ tuple_build (rev l) = BOk (RTupEntry k v) /\
     abs (RTupEntry k v) = tuple_spec l /\ abs (RTupEntry k v) = tuple_spec (rev l)).
Proof.
  split; [|split; [|split]].
  - intros c Hc l. unfold l. cbn [rev app]. unfold tuple_build. cbn [fst snd name_eq name_cmp n_char n_at Z.compare Pos.compare Pos.compare_cont has_at_prefix andb].
    unfold specialise. cbn [name_eq name_cmp n_char Z.compare Pos.compare Pos.compare_cont]. unfold bres2. cbn [as_int]. rewrite (as_rune_ok c Hc).
    repeat split; reflexivity.
  - intros b Hb l. unfold l. cbn [rev app]. unfold tuple_build. cbn [fst snd name_eq name_cmp n_byte n_at Z.compare Pos.compare Pos.compare_cont has_at_prefix andb].
    unfold specialise. cbn [name_eq name_cmp n_char n_byte Z.compare Pos.compare Pos.compare_cont]. unfold bres2. cbn [as_int]. rewrite (as_byte_ok b Hb).
    repeat split; reflexivity.
  - intros x l. unfold l. cbn [rev app]. unfold tuple_build. cbn [fst snd name_eq name_cmp n_item n_at Z.compare Pos.compare Pos.compare_cont has_at_prefix andb].
    unfold specialise. cbn [name_eq name_cmp n_char n_byte n_item Z.compare Pos.compare Pos.compare_cont as_int].
    repeat split; reflexivity.
  - intros k v l. unfold l. cbn [rev app]. unfold tuple_build. cbn [fst snd name_eq name_cmp n_value n_at Z.compare Pos.compare Pos.compare_cont has_at_prefix andb].
    unfold specialise. cbn [name_eq name_cmp n_char n_byte n_item n_value Z.compare Pos.compare Pos.compare_cont].
    repeat split; reflexivity.
Qed.
