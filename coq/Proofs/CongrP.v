(* Rewriting at any position preserves meaning (property C08): the walk of the evaluator with the value
   relation of Eval/Rewrite.v, through all 27 expression forms and 7 pattern forms. *)
From Arrai Require Import Base.Val Spec.SetAlg Eval.Interp Eval.Rewrite Proofs.FuelP Proofs.RelValP.

Definition applyF (ev : env -> expr -> res value) (bd : env -> pat -> value -> res env) (f a : value) : res value :=
  match f with
  | Clos cenv p body => do sc <- bd cenv p a; ev (sc ++ cenv) body
  | D (VSet c) =>
      do k <- as_data a;
      match call_data c k with
      | CROne v => Ok (D v)
      | CRNotKeyed => Unspec
      | _ => Err
      end
  | D _ => Err
  end.


(* the local loops of bindF, named (convertible with the local definitions) *)
Definition bind_itemF (bd : env -> pat -> value -> res env) (rho acc : env) (it : pat) (x : value) : res env :=
  do sc <- bd rho it x; match env_matched_update acc sc with Some r => Ok r | None => Err end.

Definition parr_go (ev : env -> expr -> res value) (bd : env -> pat -> value -> res env) (rho : env) (has_fb : bool) :=
  fix go (items : list pitem) (xs : list val) (acc : env) : res env :=
    match items with
    | [] => match xs with [] => Ok acc | _ => if has_fb then Unspec else Err end
    | PExtra o :: rest =>
        let nrest := length rest in
        if (length xs <? nrest)%nat then Err else
        let take := (length xs - nrest)%nat in
        let mid := firstn take xs in
        do acc' <- match o with
                   | Some x => bind_itemF bd rho acc (PVar x) (D (mkset (map (fun p => vitem (fst p) (snd p))
                                        (combine (map Z.of_nat (seq 0 (length mid))) mid))))
                   | None => Ok acc
                   end;
        go rest (skipn take xs) acc'
    | PItem q fb :: rest =>
        match xs with
        | x :: xs' => do acc' <- bind_itemF bd rho acc q (D x); go rest xs' acc'
        | [] => match fb with
                | Some d => do w <- ev rho d; do acc' <- bind_itemF bd rho acc q w; go rest [] acc'
                | None => Err
                end
        end
    end.

Definition ptup_go (ev : env -> expr -> res value) (bd : env -> pat -> value -> res env) (rho : env) (has_fb : bool)
                   (tv : list (name * val)) :=
  fix go (attrs : list (name * pitem)) (remaining : list (name * val)) (extra : option (option name)) (acc : env) : res env :=
    match attrs with
    | [] =>
        match extra with
        | Some o => match o with
                    | Some x => bind_itemF bd rho acc (PVar x) (D (VTup remaining))
                    | None => Ok acc
                    end
        | None => match remaining with [] => Ok acc | _ => if has_fb then Unspec else Err end
        end
    | (_, PExtra o) :: rest => go rest remaining (Some o) acc
    | (n, PItem q fb) :: rest =>
        match tget n tv with
        | Some x => do acc' <- bind_itemF bd rho acc q (D x); go rest (tdel n remaining) extra acc'
        | None => match fb with
                  | Some dflt => do w <- ev rho dflt; do acc' <- bind_itemF bd rho acc q w; go rest remaining extra acc'
                  | None => Err
                  end
        end
    end.

Definition pdict_go (ev : env -> expr -> res value) (bd : env -> pat -> value -> res env) (rho : env) (has_fb : bool) :=
  fix go (entries : list (expr * pitem)) (remaining : list (val * val)) (extra : option (option name)) (acc : env) : res env :=
    match entries with
    | [] =>
        match extra with
        | Some o => match o with
                    | Some x => bind_itemF bd rho acc (PVar x) (D (mkset (map (fun p => ventry (fst p) (snd p)) remaining)))
                    | None => Ok acc
                    end
        | None => match remaining with [] => Ok acc | _ => if has_fb then Unspec else Err end
        end
    | (_, PExtra o) :: rest => go rest remaining (Some o) acc
    | (ke, PItem q fb) :: rest =>
        do kw <- ev rho ke; do k <- as_data kw;
        match filter (fun p => veqb k (fst p)) remaining with
        | [(_, x)] => do acc' <- bind_itemF bd rho acc q (D x);
                      go rest (filter (fun p => negb (veqb k (fst p))) remaining) extra acc'
        | [] => match fb with
                | Some dflt => do w <- ev rho dflt; do acc' <- bind_itemF bd rho acc q w; go rest remaining extra acc'
                | None => Err
                end
        | _ => Unspec
        end
    end.

Definition pset_go (ev : env -> expr -> res value) (bd : env -> pat -> value -> res env) (rho : env) :=
  fix go (items : list pitem) (remaining : list val) (binder : option pitem) : res env :=
    match items with
    | [] =>
        match binder with
        | None => match remaining with [] => Ok [] | _ => Err end
        | Some (PExtra (Some x)) => Ok [(x, D (VSet remaining))]
        | Some (PExtra None) => Ok []
        | Some (PItem q _) => match remaining with [x] => bd rho q (D x) | _ => Err end
        end
    | PItem (PExpr e) _ :: rest =>
        do w <- ev rho e; do a <- as_data w;
        if vmem a remaining then go rest (s_without remaining a) binder else Err
    | it :: rest =>
        match binder with
        | None => go rest remaining (Some it)
        | Some _ => Err
        end
    end.

Lemma bindF_arr ev bd rho items v :
  bindF ev bd rho (PArr items) v =
  do d <- as_data v;
  match dense_array d with
  | None => Err
  | Some xs => if (1 <? count_extras items)%nat then Err
               else parr_go ev bd rho (existsb is_fallback items) items xs []
  end.
Proof. reflexivity. Qed.

Lemma bindF_tup ev bd rho attrs v :
  bindF ev bd rho (PTup attrs) v =
  do d <- as_data v;
  match d with
  | VTup tv =>
      if (1 <? length (filter (fun a => match snd a with PExtra _ => true | _ => false end) attrs))%nat then Err
      else ptup_go ev bd rho (existsb (fun a => is_fallback (snd a)) attrs) tv attrs tv None []
  | _ => Err
  end.
Proof. reflexivity. Qed.

Lemma bindF_dict ev bd rho entries v :
  bindF ev bd rho (PDict entries) v =
  do d <- as_data v;
  match d with
  | VSet l =>
      match dict_entries l with
      | None => Err
      | Some es =>
          if (1 <? length (filter (fun a => match snd a with PExtra _ => true | _ => false end) entries))%nat then Err
          else pdict_go ev bd rho (existsb (fun a => is_fallback (snd a)) entries) entries es None []
      end
  | _ => Err
  end.
Proof. reflexivity. Qed.

Lemma bindF_set ev bd rho items v :
  bindF ev bd rho (PSet items) v =
  do d <- as_data v;
  match d with
  | VSet l => pset_go ev bd rho items l None
  | _ => Err
  end.
Proof. reflexivity. Qed.

Section Walk.
Variable R : expr -> expr -> Prop.
Variables (ev : env -> expr -> res value) (bd : env -> pat -> value -> res env).
Hypothesis Hev : forall rho rho' e e', erel R rho rho' -> crel R e e' ->
  Sim (vrel R) (ev rho e) (fun m => eval m rho' e').
Hypothesis Hbd : forall rho rho' p p' v v', erel R rho rho' -> prel R p p' -> vrel R v v' ->
  Sim (erel R) (bd rho p v) (fun m => bind_pat m rho' p' v').

Lemma S_evd rho rho' e e' : erel R rho rho' -> crel R e e' ->
  Sim eq (do v <- ev rho e; as_data v) (fun m => do v <- eval m rho' e'; as_data v).
Proof.
  intros Hr He. apply S_bind with (Q := vrel R); [apply Hev; assumption|].
  intros v v' Hv. apply as_data_rel with (R := R). exact Hv.
Qed.

Lemma S_clos cenv cenv' p p' b b' a a' :
  erel R cenv cenv' -> prel R p p' -> crel R b b' -> vrel R a a' ->
  Sim (vrel R) (do sc <- bd cenv p a; ev (sc ++ cenv) b)
             (fun m => do sc <- bind_pat m cenv' p' a'; eval m (sc ++ cenv') b').
Proof.
  intros Hc Hp Hb Ha. apply S_bind with (Q := erel R); [apply Hbd; assumption|].
  intros sc sc' Hsc. apply Hev; [apply erel_app; assumption | exact Hb].
Qed.

Lemma S_apply f f' a a' : vrel R f f' -> vrel R a a' ->
  Sim (vrel R) (applyF ev bd f a) (fun m => applyF (eval m) (bind_pat m) f' a').
Proof.
  intros Hf Ha. destruct Hf as [d|cenv cenv' p p' b b' Hc Hp Hb]; unfold applyF.
  - destruct d as [| |c]; try apply S_err.
    apply S_bind with (Q := eq); [apply as_data_rel with (R := R); exact Ha|].
    intros k k' <-. destruct (call_data c k); first [apply S_ok; constructor | apply S_err | apply S_unspec].
  - apply S_clos; assumption.
Qed.


Ltac ev_l := unfold evalF; cbv zeta beta.
Ltac evd := apply S_evd; assumption.
Ltac same := repeat first
  [ apply S_ok; constructor | apply S_err | apply S_unspec
  | apply S_bind with (Q := eq); [apply S_pure | intros ? ? <-]
  | match goal with |- Sim _ (match ?x with _ => _ end) _ => destruct x; cbv beta iota end
  | match goal with |- Sim _ (if ?x then _ else _) _ => destruct x; cbv beta iota end ].
Notation EVF m := (evalF (eval m) (bind_pat m)).

Lemma rel_set rho rho' l l' : erel R rho rho' -> crel_list R l l' ->
  Sim (vrel R) (evalF ev bd rho (ESetE l)) (fun m => EVF m rho' (ESetE l')).
Proof.
  intros Hrho H. ev_l. apply S_bind with (Q := Forall2 eq).
  - apply S_mapM with (QA := crel R); [apply crel_list_F2, H|]. intros x x' Hx. evd.
  - intros vs vs' Hvs. apply Forall2_eq in Hvs. subst. apply S_ok. constructor.
Qed.

Lemma rel_tup rho rho' l l' : erel R rho rho' -> crel_attrs R l l' ->
  Sim (vrel R) (evalF ev bd rho (ETupE l)) (fun m => EVF m rho' (ETupE l')).
Proof.
  intros Hrho H. ev_l. apply S_bind with (Q := Forall2 eq).
  - eapply S_mapM; [apply crel_attrs_F2, H|]. intros x x' [Hn Hx]. cbv beta.
    apply S_bind with (Q := eq); [evd|]. intros v v' <-. rewrite Hn. apply S_ok. reflexivity.
  - intros vs vs' Hvs. apply Forall2_eq in Hvs. subst. apply S_ok. constructor.
Qed.

Lemma rel_arr rho rho' l l' : erel R rho rho' -> crel_opts R l l' ->
  Sim (vrel R) (evalF ev bd rho (EArrE l)) (fun m => EVF m rho' (EArrE l')).
Proof.
  intros Hrho H. ev_l. apply S_bind with (Q := Forall2 eq).
  - eapply S_mapM; [apply crel_opts_F2, H|]. intros x x' Hx. destruct Hx as [|x x' Hx]; [apply S_ok; reflexivity|].
    apply S_bind with (Q := eq); [evd|]. intros v v' <-. apply S_ok. reflexivity.
  - intros vs vs' Hvs. apply Forall2_eq in Hvs. subst. apply S_ok. constructor.
Qed.

Lemma rel_dict rho rho' l l' : erel R rho rho' -> crel_pairs R l l' ->
  Sim (vrel R) (evalF ev bd rho (EDictE l)) (fun m => EVF m rho' (EDictE l')).
Proof.
  intros Hrho H. ev_l. apply S_bind with (Q := Forall2 eq).
  - eapply S_mapM; [apply crel_pairs_F2, H|]. intros x x' [Hk Hv]. cbv beta.
    apply S_bind with (Q := eq); [evd|]. intros k k' <-.
    apply S_bind with (Q := eq); [evd|]. intros v v' <-. apply S_ok. reflexivity.
  - intros vs vs' Hvs. apply Forall2_eq in Hvs. subst. same.
Qed.

Lemma rel_bin rho rho' op a a' b b' : erel R rho rho' -> crel R a a' -> crel R b b' ->
  Sim (vrel R) (evalF ev bd rho (EBin op a b)) (fun m => EVF m rho' (EBin op a' b')).
Proof.
  intros Hrho Ha Hb. ev_l. apply S_bind with (Q := eq); [evd|]. intros x x' <-.
  apply S_bind with (Q := eq); [evd|]. intros y y' <-. same.
Qed.

Lemma rel_cmp rho rho' op a a' b b' : erel R rho rho' -> crel R a a' -> crel R b b' ->
  Sim (vrel R) (evalF ev bd rho (ECmp op a b)) (fun m => EVF m rho' (ECmp op a' b')).
Proof.
  intros Hrho Ha Hb. ev_l. apply S_bind with (Q := eq); [evd|]. intros x x' <-.
  apply S_bind with (Q := eq); [evd|]. intros y y' <-. same.
Qed.

Lemma rel_un rho rho' op a a' : erel R rho rho' -> crel R a a' ->
  Sim (vrel R) (evalF ev bd rho (EUn op a)) (fun m => EVF m rho' (EUn op a')).
Proof.
  intros Hrho Ha. ev_l. apply S_bind with (Q := eq); [evd|]. intros x x' <-. same.
Qed.

Lemma rel_where rho rho' a a' f f' : erel R rho rho' -> crel R a a' -> crel R f f' ->
  Sim (vrel R) (evalF ev bd rho (EWhere a f)) (fun m => EVF m rho' (EWhere a' f')).
Proof.
  intros Hrho Ha Hf. ev_l. apply S_bind with (Q := eq); [evd|]. intros x x' <-.
  apply S_bind with (Q := vrel R); [apply Hev; assumption|]. intros fv fv' Hfv.
  apply S_bind with (Q := eq); [apply S_pure|]. intros l l' <-.
  destruct Hfv as [d|cenv cenv' p p' b b' Hc Hp Hb]; [apply S_err|].
  apply S_bind with (Q := Forall2 eq).
  - apply S_mapM_same. intros y _. apply S_bind with (Q := vrel R); [apply S_clos; try assumption; constructor|].
    intros r r' Hr. apply S_bind with (Q := eq); [apply as_data_rel with (R := R); exact Hr|].
    intros d d' <-. apply S_ok. reflexivity.
  - intros vs vs' Hvs. apply Forall2_eq in Hvs. subst. apply S_ok. constructor.
Qed.

Lemma rel_darrow rho rho' a a' f f' : erel R rho rho' -> crel R a a' -> crel R f f' ->
  Sim (vrel R) (evalF ev bd rho (EDArrow a f)) (fun m => EVF m rho' (EDArrow a' f')).
Proof.
  intros Hrho Ha Hf. ev_l. apply S_bind with (Q := eq); [evd|]. intros x x' <-.
  apply S_bind with (Q := vrel R); [apply Hev; assumption|]. intros fv fv' Hfv.
  apply S_bind with (Q := eq); [apply S_pure|]. intros l l' <-.
  destruct Hfv as [d|cenv cenv' p p' b b' Hc Hp Hb]; [apply S_err|].
  apply S_bind with (Q := Forall2 eq).
  - apply S_mapM_same. intros y _. apply S_bind with (Q := vrel R); [apply S_clos; try assumption; constructor|].
    intros r r' Hr. apply as_data_rel with (R := R); exact Hr.
  - intros vs vs' Hvs. apply Forall2_eq in Hvs. subst. apply S_ok. constructor.
Qed.

Lemma rel_fn rho rho' p p' b b' : erel R rho rho' -> prel R p p' -> crel R b b' ->
  Sim (vrel R) (evalF ev bd rho (EFn p b)) (fun m => EVF m rho' (EFn p' b')).
Proof. intros Hrho Hp Hb. ev_l. apply S_ok. constructor; assumption. Qed.

Lemma rel_call rho rho' f f' a a' : erel R rho rho' -> crel R f f' -> crel R a a' ->
  Sim (vrel R) (evalF ev bd rho (ECall f a)) (fun m => EVF m rho' (ECall f' a')).
Proof.
  intros Hrho Hf Ha. ev_l. apply S_bind with (Q := vrel R); [apply Hev; assumption|]. intros fv fv' Hfv.
  apply S_bind with (Q := vrel R); [apply Hev; assumption|]. intros av av' Hav.
  apply S_apply; assumption.
Qed.

Lemma rel_let rho rho' p p' a a' b b' : erel R rho rho' -> prel R p p' -> crel R a a' -> crel R b b' ->
  Sim (vrel R) (evalF ev bd rho (ELet p a b)) (fun m => EVF m rho' (ELet p' a' b')).
Proof.
  intros Hrho Hp Ha Hb. ev_l. apply S_bind with (Q := vrel R); [apply Hev; assumption|]. intros v v' Hv.
  apply S_clos; assumption.
Qed.

Lemma rel_arrow rho rho' a a' f f' : erel R rho rho' -> crel R a a' -> crel R f f' ->
  Sim (vrel R) (evalF ev bd rho (EArrow a f)) (fun m => EVF m rho' (EArrow a' f')).
Proof.
  intros Hrho Ha Hf. ev_l. apply S_bind with (Q := vrel R); [apply Hev; assumption|]. intros v v' Hv.
  apply S_bind with (Q := vrel R); [apply Hev; assumption|]. intros fv fv' Hfv.
  apply S_apply; assumption.
Qed.

Lemma rel_and rho rho' a a' b b' : erel R rho rho' -> crel R a a' -> crel R b b' ->
  Sim (vrel R) (evalF ev bd rho (EAnd a b)) (fun m => EVF m rho' (EAnd a' b')).
Proof.
  intros Hrho Ha Hb. ev_l. apply S_bind with (Q := eq); [evd|]. intros x x' <-.
  destruct (is_true x); [apply Hev; assumption | apply S_ok; constructor].
Qed.

Lemma rel_or rho rho' a a' b b' : erel R rho rho' -> crel R a a' -> crel R b b' ->
  Sim (vrel R) (evalF ev bd rho (EOr a b)) (fun m => EVF m rho' (EOr a' b')).
Proof.
  intros Hrho Ha Hb. ev_l. apply S_bind with (Q := eq); [evd|]. intros x x' <-.
  destruct (is_true x); [apply S_ok; constructor | apply Hev; assumption].
Qed.

Lemma rel_dot rho rho' a a' n : erel R rho rho' -> crel R a a' ->
  Sim (vrel R) (evalF ev bd rho (EDot a n)) (fun m => EVF m rho' (EDot a' n)).
Proof. intros Hrho Ha. ev_l. apply S_bind with (Q := eq); [evd|]. intros x x' <-. same. Qed.

Lemma rel_safedot rho rho' a a' n d d' : erel R rho rho' -> crel R a a' -> crel R d d' ->
  Sim (vrel R) (evalF ev bd rho (ESafeDot a n d)) (fun m => EVF m rho' (ESafeDot a' n d')).
Proof.
  intros Hrho Ha Hd. ev_l. apply S_bind with (Q := eq); [evd|]. intros x x' <-.
  destruct x as [|attrs|]; cbv beta iota; try apply S_err; try apply S_unspec.
  destruct (tget n attrs); [apply S_ok; constructor | apply Hev; assumption].
Qed.

Lemma rel_join rho rho' op a a' b b' : erel R rho rho' -> crel R a a' -> crel R b b' ->
  Sim (vrel R) (evalF ev bd rho (EJoin op a b)) (fun m => EVF m rho' (EJoin op a' b')).
Proof.
  intros Hrho Ha Hb. ev_l. apply S_bind with (Q := eq); [evd|]. intros x x' <-.
  apply S_bind with (Q := eq); [evd|]. intros y y' <-. same.
Qed.

Lemma rel_nest rho rho' inv names n a a' : erel R rho rho' -> crel R a a' ->
  Sim (vrel R) (evalF ev bd rho (ENest inv names n a)) (fun m => EVF m rho' (ENest inv names n a')).
Proof. intros Hrho Ha. ev_l. apply S_bind with (Q := eq); [evd|]. intros x x' <-. same. Qed.

Lemma rel_snest rho rho' n a a' : erel R rho rho' -> crel R a a' ->
  Sim (vrel R) (evalF ev bd rho (ESingleNest n a)) (fun m => EVF m rho' (ESingleNest n a')).
Proof. intros Hrho Ha. ev_l. apply S_bind with (Q := eq); [evd|]. intros x x' <-. same. Qed.


Lemma rel_safecall rho rho' f f' a a' d d' : erel R rho rho' -> crel R f f' -> crel R a a' -> crel R d d' ->
  Sim (vrel R) (evalF ev bd rho (ESafeCall f a d)) (fun m => EVF m rho' (ESafeCall f' a' d')).
Proof.
  intros Hrho Hf Ha Hd. ev_l. apply S_bind with (Q := vrel R); [apply Hev; assumption|]. intros fv fv' Hfv.
  apply S_bind with (Q := vrel R); [apply Hev; assumption|]. intros av av' Hav.
  destruct Hfv as [x|cenv cenv' p p' b b' Hc Hp Hb].
  - destruct x as [| |c]; cbv beta iota; try apply S_err.
    apply S_bind with (Q := eq); [apply as_data_rel with (R := R); exact Hav|]. intros k k' <-.
    destruct (call_data c k); first [apply S_ok; constructor | apply S_err | apply S_unspec | apply Hev; assumption].
  - cbv beta iota. apply S_clos; assumption.
Qed.

Lemma rel_cond rho rho' arms arms' d d' : erel R rho rho' -> crel_pairs R arms arms' -> crel_opt R d d' ->
  Sim (vrel R) (evalF ev bd rho (ECond arms d)) (fun m => EVF m rho' (ECond arms' d')).
Proof.
  intros Hrho Ha Hd. ev_l. induction Ha as [|c c' v v' arms arms' Hc Hv Ha IH]; cbv beta iota.
  - destruct Hd; [apply S_ok; constructor | apply Hev; assumption].
  - apply S_bind with (Q := eq); [evd|]. intros x x' <-.
    destruct (is_true x); [apply Hev; assumption | exact IH].
Qed.

Lemma rel_condpat rho rho' c c' arms arms' : erel R rho rho' -> crel R c c' -> crel_parms R arms arms' ->
  Sim (vrel R) (evalF ev bd rho (ECondPat c arms)) (fun m => EVF m rho' (ECondPat c' arms')).
Proof.
  intros Hrho Hc Ha. ev_l. apply S_bind with (Q := vrel R); [apply Hev; assumption|]. intros v v' Hv.
  induction Ha as [|p p' b b' arms arms' Hp Hb Ha IH]; cbv beta iota; [apply S_ok; constructor|].
  match goal with |- Sim _ (match bd rho p v with Ok sc0 => @?K1 sc0 | Err => ?K2 | Unspec => _ | OutOfFuel => _ end)
                         (fun m => match bind_pat m rho' p' v' with Ok sc1 => @?K1' m sc1 | Err => @?K2' m | Unspec => _ | OutOfFuel => _ end) =>
    apply (S_k (erel R) (vrel R) (bd rho p v) (fun m => bind_pat m rho' p' v')
               (fun r => match r with Ok sc => K1 sc | Err => K2 | Unspec => Unspec | OutOfFuel => OutOfFuel end)
               (fun m r => match r with Ok sc => K1' m sc | Err => K2' m | Unspec => Unspec | OutOfFuel => OutOfFuel end))
  end; [apply Hbd; assumption | reflexivity|].
  intros r0 r0' H0. destruct r0 as [sc| | |], r0' as [sc'| | |]; cbn [rrel] in H0; try contradiction; cbv beta iota.
  - apply Hev; [apply erel_app; assumption | exact Hb].
  - exact IH.
  - apply S_unspec.
Qed.

Lemma rel_seqarrow rho rho' w a a' f f' : erel R rho rho' -> crel R a a' -> crel R f f' ->
  Sim (vrel R) (evalF ev bd rho (ESeqArrow w a f)) (fun m => EVF m rho' (ESeqArrow w a' f')).
Proof.
  intros Hrho Ha Hf. ev_l. apply S_bind with (Q := eq); [evd|]. intros x x' <-.
  apply S_bind with (Q := vrel R); [apply Hev; assumption|]. intros fv fv' Hfv.
  destruct x as [| |l]; cbv beta iota; try apply S_err.
  destruct l as [|m0 l0]; [apply S_unspec|]. set (l := m0 :: l0).
  apply S_bind with (Q := Forall2 eq).
  - apply S_mapM_same. intros y _. destruct (as_pair y) as [[[k n] v]|]; [|same].
    apply S_bind with (Q := eq); [|intros v1 v1' <-; apply S_ok; reflexivity].
    destruct w.
    + apply S_bind with (Q := vrel R); [apply (S_apply fv fv' (D k) (D k)); [exact Hfv | constructor]|].
      intros g g' Hg. apply S_bind with (Q := vrel R); [apply (S_apply g g' (D v) (D v)); [exact Hg | constructor]|].
      intros r r' Hr. apply as_data_rel with (R := R); exact Hr.
    + apply S_bind with (Q := vrel R); [apply (S_apply fv fv' (D v) (D v)); [exact Hfv | constructor]|].
      intros r r' Hr. apply as_data_rel with (R := R); exact Hr.
  - intros ms ms' Hms. apply Forall2_eq in Hms. subst. same.
Qed.

Lemma rel_rank rho rho' a a' f f' : erel R rho rho' -> crel R a a' -> crel R f f' ->
  Sim (vrel R) (evalF ev bd rho (ERank a f)) (fun m => EVF m rho' (ERank a' f')).
Proof.
  intros Hrho Ha Hf. ev_l. apply S_bind with (Q := eq); [evd|]. intros x x' <-.
  apply S_bind with (Q := vrel R); [apply Hev; assumption|]. intros fv fv' Hfv.
  destruct x as [| |l]; cbv beta iota; try apply S_err.
  destruct l as [|m0 l0]; [apply S_ok; constructor|]. set (l := m0 :: l0).
  destruct Hfv as [d|cenv cenv' p p' b b' Hc Hp Hb]; [apply S_unspec|]. cbv beta iota.
  apply S_bind with (Q := Forall2 eq).
  - apply S_mapM_same. intros y _. apply S_bind with (Q := vrel R); [apply S_clos; try assumption; constructor|].
    intros k k' Hk. apply S_bind with (Q := eq); [apply as_data_rel with (R := R); exact Hk|].
    intros kd kd' <-. same.
  - intros ks ks' Hks. apply Forall2_eq in Hks. subst. same.
Qed.

(* ---------- patterns ---------- *)

Lemma irel_fb i i' : irel R i i' -> is_fallback i = is_fallback i'.
Proof. destruct 1 as [p p' d d' Hp Hd|x]; [destruct Hd; reflexivity | reflexivity]. Qed.

Lemma irel_is_extra i i' : irel R i i' ->
  (match i with PExtra _ => true | _ => false end) = (match i' with PExtra _ => true | _ => false end).
Proof. destruct 1; reflexivity. Qed.

Lemma irel_list_length l l' : irel_list R l l' -> length l = length l'.
Proof. induction 1; cbn [length]; congruence. Qed.

Lemma irel_list_fb l l' : irel_list R l l' -> existsb is_fallback l = existsb is_fallback l'.
Proof. induction 1 as [|i i' l l' Hi Hl IH]; cbn [existsb]; [reflexivity|]. rewrite (irel_fb i i' Hi), IH. reflexivity. Qed.

Lemma irel_list_extras l l' : irel_list R l l' -> count_extras l = count_extras l'.
Proof.
  unfold count_extras. induction 1 as [|i i' l l' Hi Hl IH]; cbn [filter]; [reflexivity|].
  destruct Hi as [p p' d d' Hp Hd|x]; [destruct Hd|]; cbn [length]; congruence.
Qed.

Lemma irel_attrs_fb l l' : irel_attrs R l l' ->
  existsb (fun a : name * pitem => is_fallback (snd a)) l = existsb (fun a : name * pitem => is_fallback (snd a)) l'.
Proof. induction 1 as [|n i i' l l' Hi Hl IH]; cbn [existsb snd]; [reflexivity|]. rewrite (irel_fb i i' Hi), IH. reflexivity. Qed.

Lemma irel_attrs_extras l l' : irel_attrs R l l' ->
  length (filter (fun a : name * pitem => match snd a with PExtra _ => true | _ => false end) l) =
  length (filter (fun a : name * pitem => match snd a with PExtra _ => true | _ => false end) l').
Proof.
  induction 1 as [|n i i' l l' Hi Hl IH]; cbn [filter snd]; [reflexivity|].
  rewrite (irel_is_extra i i' Hi). destruct i'; cbn [length]; congruence.
Qed.

Lemma irel_entries_fb l l' : irel_entries R l l' ->
  existsb (fun a : expr * pitem => is_fallback (snd a)) l = existsb (fun a : expr * pitem => is_fallback (snd a)) l'.
Proof. induction 1 as [|k k' i i' l l' Hk Hi Hl IH]; cbn [existsb snd]; [reflexivity|]. rewrite (irel_fb i i' Hi), IH. reflexivity. Qed.

Lemma irel_entries_extras l l' : irel_entries R l l' ->
  length (filter (fun a : expr * pitem => match snd a with PExtra _ => true | _ => false end) l) =
  length (filter (fun a : expr * pitem => match snd a with PExtra _ => true | _ => false end) l').
Proof.
  induction 1 as [|k k' i i' l l' Hk Hi Hl IH]; cbn [filter snd]; [reflexivity|].
  rewrite (irel_is_extra i i' Hi). destruct i'; cbn [length]; congruence.
Qed.

Lemma S_bind_item rho rho' acc acc' q q' x x' :
  erel R rho rho' -> erel R acc acc' -> prel R q q' -> vrel R x x' ->
  Sim (erel R) (bind_itemF bd rho acc q x) (fun m => bind_itemF (bind_pat m) rho' acc' q' x').
Proof.
  intros Hrho Hacc Hq Hx. unfold bind_itemF. apply S_bind with (Q := erel R); [apply Hbd; assumption|].
  intros sc sc' Hsc. apply S_matched_update; assumption.
Qed.

Lemma parr_go_rel rho rho' hb items items' : erel R rho rho' -> irel_list R items items' ->
  forall xs acc acc', erel R acc acc' ->
  Sim (erel R) (parr_go ev bd rho hb items xs acc) (fun m => parr_go (eval m) (bind_pat m) rho' hb items' xs acc').
Proof.
  intros Hrho H. induction H as [|i i' l l' Hi Hl IH]; intros xs acc acc' Hacc.
  - cbn [parr_go]. destruct xs; [apply S_ok, Hacc | destruct hb; [apply S_unspec | apply S_err]].
  - destruct Hi as [q q' d d' Hq Hd|o]; cbn [parr_go].
    + destruct xs as [|x xs].
      * destruct Hd as [|d d' Hd]; [apply S_err|].
        apply S_bind with (Q := vrel R); [apply Hev; assumption|]. intros w w' Hw.
        apply S_bind with (Q := erel R); [apply S_bind_item; assumption|]. intros a a' Ha. apply IH, Ha.
      * apply S_bind with (Q := erel R); [apply S_bind_item; try assumption; constructor|]. intros a a' Ha. apply IH, Ha.
    + rewrite <- (irel_list_length l l' Hl).
      destruct (length xs <? length l)%nat; [apply S_err|].
      apply S_bind with (Q := erel R).
      * destruct o; [apply S_bind_item; try assumption; constructor | apply S_ok, Hacc].
      * intros a a' Ha. apply IH, Ha.
Qed.

Lemma ptup_go_rel rho rho' hb tv attrs attrs' : erel R rho rho' -> irel_attrs R attrs attrs' ->
  forall remaining extra acc acc', erel R acc acc' ->
  Sim (erel R) (ptup_go ev bd rho hb tv attrs remaining extra acc)
             (fun m => ptup_go (eval m) (bind_pat m) rho' hb tv attrs' remaining extra acc').
Proof.
  intros Hrho H. induction H as [|n i i' l l' Hi Hl IH]; intros remaining extra acc acc' Hacc.
  - cbn [ptup_go]. destruct extra as [[x|]|].
    + apply S_bind_item; try assumption; constructor.
    + apply S_ok, Hacc.
    + destruct remaining; [apply S_ok, Hacc | destruct hb; [apply S_unspec | apply S_err]].
  - destruct Hi as [q q' d d' Hq Hd|o]; cbn [ptup_go]; [|apply IH, Hacc].
    destruct (tget n tv) as [x|].
    + apply S_bind with (Q := erel R); [apply S_bind_item; try assumption; constructor|]. intros a a' Ha. apply IH, Ha.
    + destruct Hd as [|d d' Hd]; [apply S_err|].
      apply S_bind with (Q := vrel R); [apply Hev; assumption|]. intros w w' Hw.
      apply S_bind with (Q := erel R); [apply S_bind_item; assumption|]. intros a a' Ha. apply IH, Ha.
Qed.

Lemma pdict_go_rel rho rho' hb entries entries' : erel R rho rho' -> irel_entries R entries entries' ->
  forall remaining extra acc acc', erel R acc acc' ->
  Sim (erel R) (pdict_go ev bd rho hb entries remaining extra acc)
             (fun m => pdict_go (eval m) (bind_pat m) rho' hb entries' remaining extra acc').
Proof.
  intros Hrho H. induction H as [|k k' i i' l l' Hk Hi Hl IH]; intros remaining extra acc acc' Hacc.
  - cbn [pdict_go]. destruct extra as [[x|]|].
    + apply S_bind_item; try assumption; constructor.
    + apply S_ok, Hacc.
    + destruct remaining; [apply S_ok, Hacc | destruct hb; [apply S_unspec | apply S_err]].
  - destruct Hi as [q q' d d' Hq Hd|o]; cbn [pdict_go]; [|apply IH, Hacc].
    apply S_bind with (Q := vrel R); [apply Hev; assumption|]. intros kw kw' Hkw.
    apply S_bind with (Q := eq); [apply as_data_rel with (R := R); exact Hkw|]. intros kv kv' <-.
    destruct (filter (fun p : val * val => veqb kv (fst p)) remaining) as [|[k1 x] [|? ?]].
    + destruct Hd as [|d d' Hd]; [apply S_err|].
      apply S_bind with (Q := vrel R); [apply Hev; assumption|]. intros w w' Hw.
      apply S_bind with (Q := erel R); [apply S_bind_item; assumption|]. intros a a' Ha. apply IH, Ha.
    + apply S_bind with (Q := erel R); [apply S_bind_item; try assumption; constructor|]. intros a a' Ha. apply IH, Ha.
    + apply S_unspec.
Qed.

Lemma pset_go_rel rho rho' items items' : erel R rho rho' -> irel_list R items items' ->
  forall remaining binder binder', match binder, binder' with
                                   | Some b, Some b' => irel R b b'
                                   | None, None => True
                                   | _, _ => False
                                   end ->
  Sim (erel R) (pset_go ev bd rho items remaining binder)
             (fun m => pset_go (eval m) (bind_pat m) rho' items' remaining binder').
Proof.
  intros Hrho H. induction H as [|i i' l l' Hi Hl IH]; intros remaining binder binder' Hb.
  - cbn [pset_go]. destruct binder as [b|], binder' as [b'|]; try contradiction.
    + destruct Hb as [q q' d d' Hq Hd|[x|]].
      * destruct remaining as [|x [|? ?]]; try apply S_err. apply Hbd; try assumption; constructor.
      * apply S_ok. repeat constructor.
      * apply S_ok. constructor.
    + destruct remaining; [apply S_ok; constructor | apply S_err].
  - assert (Hother : Sim (erel R)
        (match binder with None => pset_go ev bd rho l remaining (Some i) | Some _ => Err end)
        (fun m => match binder' with None => pset_go (eval m) (bind_pat m) rho' l' remaining (Some i') | Some _ => Err end)).
    { destruct binder, binder'; try contradiction; [apply S_err | apply IH; exact Hi]. }
    destruct Hi as [q q' d d' Hq Hd|o]; cbn [pset_go]; [|exact Hother].
    destruct Hq; try exact Hother.
    apply S_bind with (Q := vrel R); [apply Hev; assumption|]. intros w w' Hw.
    apply S_bind with (Q := eq); [apply as_data_rel with (R := R); exact Hw|]. intros a a' <-.
    destruct (vmem a remaining); [apply IH, Hb | apply S_err].
Qed.

Lemma bindF_rel rho rho' p p' v v' : erel R rho rho' -> prel R p p' -> vrel R v v' ->
  Sim (erel R) (bindF ev bd rho p v) (fun m => bindF (eval m) (bind_pat m) rho' p' v').
Proof.
  intros Hrho Hp Hv. destruct Hp as [x| |e e' He|es es' Hes|l l' Hl|l l' Hl|l l' Hl|l l' Hl].
  - apply S_ok. repeat constructor. exact Hv.
  - apply S_ok. constructor.
  - unfold bindF; cbv zeta beta. apply S_bind with (Q := vrel R); [apply Hev; assumption|]. intros w w' Hw.
    apply S_bind with (Q := eq); [apply as_data_rel with (R := R); exact Hw|]. intros a a' <-.
    apply S_bind with (Q := eq); [apply as_data_rel with (R := R); exact Hv|]. intros b b' <-.
    destruct (veqb a b); [apply S_ok; constructor | apply S_err].
  - (* (e1, e2, ..): the alternatives in order *)
    unfold bindF; cbv zeta beta.
    apply S_bind with (Q := eq); [apply as_data_rel with (R := R); exact Hv|]. intros b b' <-.
    induction Hes as [|e e' es es' He Hes IH]; cbv beta iota; [apply S_err|].
    apply S_bind with (Q := vrel R); [apply Hev; assumption|]. intros w w' Hw.
    apply S_bind with (Q := eq); [apply as_data_rel with (R := R); exact Hw|]. intros a a' <-.
    destruct (veqb a b); [apply S_ok; constructor | exact IH].
  - eapply S_ext; [intros m; symmetry; apply bindF_arr|]. rewrite bindF_arr.
    apply S_bind with (Q := eq); [apply as_data_rel with (R := R); exact Hv|]. intros d d' <-.
    destruct (dense_array d) as [xs|]; [|apply S_err].
    rewrite <- (irel_list_extras l l' Hl), <- (irel_list_fb l l' Hl).
    destruct (1 <? count_extras l)%nat; [apply S_err|].
    apply parr_go_rel; [assumption | assumption | constructor].
  - eapply S_ext; [intros m; symmetry; apply bindF_tup|]. rewrite bindF_tup.
    apply S_bind with (Q := eq); [apply as_data_rel with (R := R); exact Hv|]. intros d d' <-.
    destruct d as [|tv|]; try apply S_err.
    rewrite <- (irel_attrs_extras l l' Hl), <- (irel_attrs_fb l l' Hl).
    match goal with |- Sim _ (if ?c then _ else _) _ => destruct c end; [apply S_err|].
    apply ptup_go_rel; [assumption | assumption | constructor].
  - eapply S_ext; [intros m; symmetry; apply bindF_dict|]. rewrite bindF_dict.
    apply S_bind with (Q := eq); [apply as_data_rel with (R := R); exact Hv|]. intros d d' <-.
    destruct d as [| |s]; try apply S_err.
    destruct (dict_entries s) as [es|]; [|apply S_err].
    rewrite <- (irel_entries_extras l l' Hl), <- (irel_entries_fb l l' Hl).
    match goal with |- Sim _ (if ?c then _ else _) _ => destruct c end; [apply S_err|].
    apply pdict_go_rel; [assumption | assumption | constructor].
  - eapply S_ext; [intros m; symmetry; apply bindF_set|]. rewrite bindF_set.
    apply S_bind with (Q := eq); [apply as_data_rel with (R := R); exact Hv|]. intros d d' <-.
    destruct d as [| |s]; try apply S_err.
    apply pset_go_rel; [assumption | assumption | exact I].
Qed.

Lemma evalF_rel rho rho' e e' : erel R rho rho' -> cstep R e e' ->
  Sim (vrel R) (evalF ev bd rho e) (fun m => evalF (eval m) (bind_pat m) rho' e').
Proof.
  intros Hrho Hc. destruct Hc.
  - apply S_ok. constructor.
  - unfold evalF. pose proof (erel_get R x rho rho' Hrho) as Hg.
    destruct (env_get x rho), (env_get x rho'); try contradiction; [apply S_ok, Hg | apply S_err].
  - apply rel_set; assumption.
  - apply rel_tup; assumption.
  - apply rel_arr; assumption.
  - apply rel_dict; assumption.
  - apply rel_bin; assumption.
  - apply rel_cmp; assumption.
  - apply rel_un; assumption.
  - apply rel_where; assumption.
  - apply rel_darrow; assumption.
  - apply rel_seqarrow; assumption.
  - apply rel_fn; assumption.
  - apply rel_call; assumption.
  - apply rel_safecall; assumption.
  - apply rel_dot; assumption.
  - apply rel_safedot; assumption.
  - apply rel_let; assumption.
  - apply rel_arrow; assumption.
  - apply rel_and; assumption.
  - apply rel_or; assumption.
  - apply rel_cond; assumption.
  - apply rel_condpat; assumption.
  - apply rel_join; assumption.
  - apply rel_nest; assumption.
  - apply rel_snest; assumption.
  - apply rel_rank; assumption.
Qed.

End Walk.

(* ---------- the simulation: related programs in related scopes have related answers ---------- *)

Section Main.
Variable R : expr -> expr -> Prop.
Hypothesis HR : forall e e', R e e' -> same_meaning e e'.

Lemma rrel_answer {A A'} (Q : A -> A' -> Prop) r r' : rrel Q r r' -> r <> OutOfFuel /\ r' <> OutOfFuel.
Proof. destruct r, r'; cbn [rrel]; intros H; try contradiction; split; discriminate. Qed.

Lemma fuel_lift' n N rho e : (n <= N)%nat -> eval n rho e <> OutOfFuel -> eval N rho e = eval n rho e.
Proof.
  intros Hle Hn. destruct (eval_fuel_mono n N rho e Hle) as [E|E]; [contradiction | symmetry; exact E].
Qed.

Theorem sim n :
  (forall rho rho' e e', erel R rho rho' -> crel R e e' -> Sim (vrel R) (eval n rho e) (fun m => eval m rho' e')) /\
  (forall rho rho' p p' v v', erel R rho rho' -> prel R p p' -> vrel R v v' ->
     Sim (erel R) (bind_pat n rho p v) (fun m => bind_pat m rho' p' v')).
Proof.
  induction n as [|n [IHe IHb]]; [split; intros; apply S_oof|].
  assert (Hstep : forall rho rho' e e', erel R rho rho' -> cstep R e e' ->
                  Sim (vrel R) (eval (S n) rho e) (fun m => eval m rho' e')).
  { intros rho rho' e e' Hrho Hc. apply S_shift.
    change (Sim (vrel R) (evalF (eval n) (bind_pat n) rho e) (fun m => evalF (eval m) (bind_pat m) rho' e')).
    apply evalF_rel; assumption. }
  split.
  - intros rho rho' e e' Hrho Hc. destruct Hc as [e e' Hb|e e' Hs]; [|apply Hstep; assumption].
    destruct (Hstep rho rho' e e Hrho (cstep_refl R e)) as [E|(r' & Hr & M & HM)]; [left; exact E|].
    right. exists r'. split; [exact Hr|].
    destruct (HR e e' Hb rho') as [Hsame Hans].
    assert (N1 : eval M rho' e <> OutOfFuel).
    { rewrite (HM M (le_n M)). apply (rrel_answer _ _ _ Hr). }
    destruct (proj1 Hans (ex_intro _ M N1)) as [M' HM'].
    exists M'. intros m Hm. rewrite (fuel_lift' M' m rho' e' Hm HM').
    rewrite <- (HM M (le_n M)). symmetry. apply Hsame; assumption.
  - intros rho rho' p p' v v' Hrho Hp Hv. apply S_shift.
    change (Sim (erel R) (bindF (eval n) (bind_pat n) rho p v) (fun m => bindF (eval m) (bind_pat m) rho' p' v')).
    apply bindF_rel; assumption.
Qed.

(* if the left program has an answer at fuel n, the right one has a related answer at some fuel *)
Corollary crel_answers rho rho' e e' n :
  erel R rho rho' -> crel R e e' -> eval n rho e <> OutOfFuel ->
  exists m, ansrel R (eval n rho e) (eval m rho' e').
Proof.
  intros Hrho Hc Hn. destruct (proj1 (sim n) rho rho' e e' Hrho Hc) as [E|(r' & Hr & M & HM)]; [contradiction|].
  exists M. rewrite (HM M (le_n M)). destruct (eval n rho e), r'; exact Hr.
Qed.
End Main.

(* ---------- plugging related expressions into one context gives related programs ---------- *)

Section Plug.
Variable R : expr -> expr -> Prop.

Lemma crel_opt_refl d : crel_opt R d d.
Proof. destruct d; constructor. apply crel_refl. Qed.

Ltac lrefl := let l := fresh "l" in intros l; induction l as [|[? ?] ? ?] || induction l; constructor;
  auto using crel_refl, prel_refl, irel_refl, crel_opt_refl.

Lemma crel_list_refl : forall l, crel_list R l l. Proof. induction l; constructor; auto using crel_refl. Qed.
Lemma crel_attrs_refl : forall l, crel_attrs R l l. Proof. induction l as [|[n x] l IH]; constructor; auto using crel_refl. Qed.
Lemma crel_opts_refl : forall l, crel_opts R l l. Proof. induction l; constructor; auto using crel_opt_refl. Qed.
Lemma crel_pairs_refl : forall l, crel_pairs R l l. Proof. induction l as [|[a b] l IH]; constructor; auto using crel_refl. Qed.
Lemma crel_parms_refl : forall l, crel_parms R l l. Proof. induction l as [|[a b] l IH]; constructor; auto using crel_refl, prel_refl. Qed.
Lemma irel_list_refl : forall l, irel_list R l l. Proof. induction l; constructor; auto using irel_refl. Qed.
Lemma irel_attrs_refl : forall l, irel_attrs R l l. Proof. induction l as [|[n x] l IH]; constructor; auto using irel_refl. Qed.
Lemma irel_entries_refl : forall l, irel_entries R l l. Proof. induction l as [|[a b] l IH]; constructor; auto using crel_refl, irel_refl. Qed.

Lemma crel_list_mid l1 x x' l2 : crel R x x' -> crel_list R (l1 ++ x :: l2) (l1 ++ x' :: l2).
Proof. intros H. induction l1; cbn [app]; constructor; auto using crel_refl, crel_list_refl. Qed.
Lemma crel_attrs_mid l1 n x x' l2 : crel R x x' -> crel_attrs R (l1 ++ (n, x) :: l2) (l1 ++ (n, x') :: l2).
Proof. intros H. induction l1 as [|[m y] l1 IH]; cbn [app]; constructor; auto using crel_refl, crel_attrs_refl. Qed.
Lemma crel_opts_mid l1 x x' l2 : crel R x x' -> crel_opts R (l1 ++ Some x :: l2) (l1 ++ Some x' :: l2).
Proof. intros H. induction l1; cbn [app]; constructor; auto using crel_opt_refl, crel_opts_refl. constructor; exact H. Qed.
Lemma crel_pairs_mid l1 a a' b b' l2 : crel R a a' -> crel R b b' -> crel_pairs R (l1 ++ (a, b) :: l2) (l1 ++ (a', b') :: l2).
Proof. intros Ha Hb. induction l1 as [|[x y] l1 IH]; cbn [app]; constructor; auto using crel_refl, crel_pairs_refl. Qed.
Lemma crel_parms_mid l1 p p' b b' l2 : prel R p p' -> crel R b b' -> crel_parms R (l1 ++ (p, b) :: l2) (l1 ++ (p', b') :: l2).
Proof. intros Ha Hb. induction l1 as [|[x y] l1 IH]; cbn [app]; constructor; auto using crel_refl, prel_refl, crel_parms_refl. Qed.
Lemma irel_list_mid l1 i i' l2 : irel R i i' -> irel_list R (l1 ++ i :: l2) (l1 ++ i' :: l2).
Proof. intros H. induction l1; cbn [app]; constructor; auto using irel_refl, irel_list_refl. Qed.
Lemma irel_attrs_mid l1 n i i' l2 : irel R i i' -> irel_attrs R (l1 ++ (n, i) :: l2) (l1 ++ (n, i') :: l2).
Proof. intros H. induction l1 as [|[m y] l1 IH]; cbn [app]; constructor; auto using irel_refl, irel_attrs_refl. Qed.
Lemma irel_entries_mid l1 k k' i i' l2 : crel R k k' -> irel R i i' -> irel_entries R (l1 ++ (k, i) :: l2) (l1 ++ (k', i') :: l2).
Proof. intros Hk H. induction l1 as [|[m y] l1 IH]; cbn [app]; constructor; auto using crel_refl, irel_refl, irel_entries_refl. Qed.

Variables h h' : expr.
Hypothesis Hh : R h h'.

Fixpoint plug_crel (c : ctx) : crel R (plug c h) (plug c h')
with pplug_prel (pc : pctx) : prel R (pplug pc h) (pplug pc h')
with iplug_irel (ic : ictx) : irel R (iplug ic h) (iplug ic h').
Proof.
  - destruct c; cbn [plug]; [apply CBase, Hh | apply CStep; constructor ..];
      auto using crel_refl, prel_refl, crel_opt_refl, crel_list_mid, crel_attrs_mid, crel_opts_mid, crel_pairs_mid,
                 crel_parms_mid, crel_pairs_refl, crel_parms_refl.
    constructor. apply plug_crel.
  - destruct pc; cbn [pplug]; constructor;
      auto using crel_refl, irel_refl, crel_list_mid, irel_list_mid, irel_attrs_mid, irel_entries_mid.
  - destruct ic; cbn [iplug]; constructor; auto using prel_refl, crel_opt_refl. constructor. apply plug_crel.
Qed.
End Plug.

(* every value and every scope is related to itself *)
Fixpoint vrel_refl (R : expr -> expr -> Prop) (v : value) : vrel R v v.
Proof.
  destruct v as [d|env0 p b]; [constructor|].
  constructor; [|apply prel_refl | apply crel_refl].
  induction env0 as [|[x w] r IH]; constructor; [apply vrel_refl | exact IH].
Qed.

Lemma erel_refl R rho : erel R rho rho.
Proof. induction rho as [|[x w] r IH]; constructor; [apply vrel_refl | exact IH]. Qed.

(* ---------- the theorems ---------- *)

Lemma same_meaning_sym e e' : same_meaning e e' -> same_meaning e' e.
Proof.
  intros H rho. destruct (H rho) as [H1 H2]. split.
  - intros n m Hn Hm. symmetry. apply H1; assumption.
  - symmetry. exact H2.
Qed.

(* any number of rewrites, at any positions, by rules that each preserve meaning *)
Theorem rewrites_everywhere (R : expr -> expr -> Prop) : (forall e e', R e e' -> same_meaning e e') ->
  forall e e', crel R e e' -> meaning_related R e e'.
Proof.
  intros HR e e' Hc rho n Hn. apply (crel_answers R HR rho rho e e' n); [apply erel_refl | exact Hc | exact Hn].
Qed.

Definition swap_rule (e e' : expr) : expr -> expr -> Prop := fun a b => a = e /\ b = e'.

Theorem rewrite_at_position e e' : same_meaning e e' ->
  forall C, meaning_related (swap_rule e e') (plug C e) (plug C e') /\
            meaning_related (swap_rule e' e) (plug C e') (plug C e).
Proof.
  intros H C. split.
  - apply rewrites_everywhere; [intros a b [-> ->]; exact H|]. apply plug_crel. split; reflexivity.
  - apply rewrites_everywhere; [intros a b [-> ->]; apply same_meaning_sym, H|]. apply plug_crel. split; reflexivity.
Qed.

Lemma related_data_answer (R : expr -> expr -> Prop) r r' : ansrel R r r' -> data_answer r -> r' = r.
Proof.
  destruct r as [[d|? ? ?]| | |], r' as [w| | |]; cbn [ansrel data_answer]; intros H Hd; try contradiction; try reflexivity.
  inversion H. reflexivity.
Qed.

Lemma data_answer_not_oof r : data_answer r -> r <> OutOfFuel.
Proof. destruct r as [[?|? ? ?]| | |]; cbn; intros H; try contradiction; discriminate. Qed.

Theorem rewrite_at_position_data e e' : same_meaning e e' -> forall C, same_data_meaning (plug C e) (plug C e').
Proof.
  intros H C rho r Hr. destruct (rewrite_at_position e e' H C) as [H1 H2]. split; intros [n Hn].
  - destruct (H1 rho n) as [m Hm]; [rewrite Hn; apply data_answer_not_oof, Hr|]. exists m.
    rewrite Hn in Hm. eapply related_data_answer; eassumption.
  - destruct (H2 rho n) as [m Hm]; [rewrite Hn; apply data_answer_not_oof, Hr|]. exists m.
    rewrite Hn in Hm. eapply related_data_answer; eassumption.
Qed.

(* each documented equivalence preserves meaning on its own *)
Lemma fuel_same_meaning (e e' : expr) (c c' : nat) :
  (forall k rho, eval (c + k) rho e = eval (c' + k) rho e') -> same_meaning e e'.
Proof.
  intros H rho. split.
  - intros n m Hn Hm. set (K := Nat.max n m).
    assert (E1 : eval (c + K) rho e = eval n rho e) by (apply fuel_lift'; [unfold K; lia | exact Hn]).
    assert (E2 : eval (c' + K) rho e' = eval m rho e') by (apply fuel_lift'; [unfold K; lia | exact Hm]).
    rewrite <- E1, <- E2. apply H.
  - split; intros [n Hn].
    + exists (c' + n)%nat. rewrite <- H. rewrite (fuel_lift' n (c + n) rho e); [exact Hn | lia | exact Hn].
    + exists (c + n)%nat. rewrite H. rewrite (fuel_lift' n (c' + n) rho e'); [exact Hn | lia | exact Hn].
Qed.

From Arrai Require Import Proofs.EquivP Proofs.SugarP.

Lemma documented_same_meaning e e' : documented e e' -> same_meaning e e'.
Proof.
  induction 1 as [p e1 e2|p e1 e2|l|b e|b e|b e|e e' H IH].
  - apply (fuel_same_meaning _ _ 2 2). intros k rho. apply let_is_arrow.
  - apply (fuel_same_meaning _ _ 2 2). intros k rho. apply arrow_is_call_always.
  - apply array_literal_same_meaning.
  - apply (fuel_same_meaning _ _ 2 3). intros k rho. reflexivity.
  - apply (fuel_same_meaning _ _ 2 3). intros k rho. reflexivity.
  - apply (fuel_same_meaning _ _ 1 2). intros k rho. reflexivity.
  - apply same_meaning_sym, IH.
Qed.

(* one documented equivalence applied at one position, anywhere *)
Theorem documented_rewrite_at_position e e' : documented e e' -> forall C, same_data_meaning (plug C e) (plug C e').
Proof. intros H. apply rewrite_at_position_data, documented_same_meaning, H. Qed.

(* any number of documented equivalences at any positions at once: every answer of the original is matched *)
Theorem documented_rewrites_everywhere e e' : crel documented e e' -> meaning_related documented e e'.
Proof. apply rewrites_everywhere. exact documented_same_meaning. Qed.
