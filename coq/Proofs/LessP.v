(* The shape of Go's Value.Less is a strict total order (property C06):
   kind tie-break over per-kind orders, lexicographic lifting to sequences and
   to (offset, content) pairs; instantiated on the kind table regenerated from
   the running code. *)
From Arrai Require Import Base.Val Spec.SetAlg Eval.Interp Proofs.ValOrder Rep.Less Gen.Kinds.
From Coq Require Import ZifyBool.

Section KindTieBreak.
Context {V K : Type} (kind : V -> K) (rank : K -> Z) (kc : K -> V -> V -> comparison).
Hypothesis rank_inj : forall a b, rank (kind a) = rank (kind b) -> kind a = kind b.
Hypothesis kc_ord : forall k a b c, kind a = k -> kind b = k -> kind c = k -> ordR (kc k) a b c.

Definition gcmp (a b : V) : comparison :=
  match Z.compare (rank (kind a)) (rank (kind b)) with
  | Eq => kc (kind a) a b
  | c => c
  end.

Theorem gcmp_ordR a b c : ordR gcmp a b c.
Proof.
  unfold ordR, gcmp. repeat split.
  - rewrite Z.compare_refl. apply (kc_ord (kind a) a a a); reflexivity.
  - destruct (Z.compare (rank (kind a)) (rank (kind b))) eqn:E; try discriminate.
    apply Z.compare_eq, rank_inj in E. intros H.
    apply (kc_ord (kind a) a b b); auto.
  - rewrite (Z.compare_antisym (rank (kind a)) (rank (kind b))).
    destruct (Z.compare (rank (kind a)) (rank (kind b))) eqn:E; simpl; try reflexivity.
    apply Z.compare_eq, rank_inj in E. rewrite <- E.
    apply (kc_ord (kind a) a b b); auto.
  - destruct (Z.compare_spec (rank (kind a)) (rank (kind b))) as [Eab|Lab|Gab]; try discriminate;
    destruct (Z.compare_spec (rank (kind b)) (rank (kind c))) as [Ebc|Lbc|Gbc]; try discriminate; intros H1 H2.
    + assert (Eac : rank (kind a) = rank (kind c)) by lia.
      rewrite (proj2 (Z.compare_eq_iff _ _) Eac).
      pose proof (rank_inj _ _ Eab) as Kab. pose proof (rank_inj _ _ Ebc) as Kbc.
      rewrite <- Kab in H2.
      apply (kc_ord (kind a) a b c); congruence.
    + assert (L : rank (kind a) < rank (kind c)) by lia.
      rewrite (proj2 (Z.compare_lt_iff _ _) L). reflexivity.
    + assert (L : rank (kind a) < rank (kind c)) by lia.
      rewrite (proj2 (Z.compare_lt_iff _ _) L). reflexivity.
    + assert (L : rank (kind a) < rank (kind c)) by lia.
      rewrite (proj2 (Z.compare_lt_iff _ _) L). reflexivity.
Qed.
End KindTieBreak.

(* (offset, content): compare the offsets, then the content *)
Section OffsetThenContent.
Context {A : Type} (cmp : A -> A -> comparison) (Q : A -> Prop).
Hypothesis HR : forall x y z, Q x -> Q y -> Q z -> ordR cmp x y z.
Definition occmp (p q : Z * A) : comparison :=
  match Z.compare (fst p) (fst q) with Eq => cmp (snd p) (snd q) | c => c end.
Theorem occmp_ordR p q r : Q (snd p) -> Q (snd q) -> Q (snd r) -> ordR occmp p q r.
Proof.
  destruct p as [i x], q as [j y], r as [k z]; simpl. intros Hx Hy Hz.
  destruct (HR x y z Hx Hy Hz) as (Vr & Veq & Vanti & Vtr).
  unfold ordR, occmp; simpl. repeat split.
  - rewrite Z.compare_refl. exact Vr.
  - destruct (Z.compare i j) eqn:E; try discriminate. apply Z.compare_eq in E; subst.
    intros H; rewrite (Veq H); reflexivity.
  - rewrite (Z.compare_antisym i j). destruct (Z.compare i j); simpl; [exact Vanti | reflexivity | reflexivity].
  - destruct (Z.compare i j) eqn:E1; try discriminate.
    + apply Z.compare_eq in E1; subst j. destruct (Z.compare i k); try discriminate; [exact Vtr | reflexivity].
    + intros _. destruct (Z.compare j k) eqn:E2; try discriminate.
      * apply Z.compare_eq in E2; subst k. rewrite E1; reflexivity.
      * intros _. rewrite Z.compare_lt_iff in E1. rewrite Z.compare_lt_iff in E2.
        assert (H : Z.compare i k = Lt) by (apply Z.compare_lt_iff; lia). rewrite H; reflexivity.
Qed.
End OffsetThenContent.

(* ---------- the regenerated kind table ---------- *)

Definition rkind_base_eqb (a b : rkind) : bool :=
  match a, b with
  | KNum, KNum | KEmpty, KEmpty | KTrue, KTrue | KGeneric, KGeneric | KStr, KStr | KBytes, KBytes
  | KArr, KArr | KDict, KDict | KUnion, KUnion | KRel, KRel | KTupG, KTupG | KTupChar, KTupChar
  | KTupItem, KTupItem | KTupEntry, KTupEntry | KTupByte, KTupByte => true
  | _, _ => false
  end.

Fixpoint table_get (t : list (rkind * Z)) (k : rkind) : Z :=
  match t with
  | [] => 0
  | (k', z) :: t' => if rkind_base_eqb k k' then z else table_get t' k
  end.

Fixpoint knum_of (t : list (rkind * Z)) (k : rkind) : Z :=
  match k with KNeg k' => - knum_of t k' | _ => table_get t k end.

Definition base_kinds : list rkind :=
  [KNum; KEmpty; KTrue; KGeneric; KStr; KBytes; KArr; KDict; KUnion; KRel; KTupG; KTupChar; KTupItem; KTupEntry; KTupByte].
(* the kinds a value can have: a base kind, or the negation of one (Negate never nests) *)
Definition simple_kinds : list rkind := base_kinds ++ map KNeg base_kinds.

Fixpoint rkind_eqb (a b : rkind) : bool :=
  match a, b with
  | KNeg x, KNeg y => rkind_eqb x y
  | KNeg _, _ | _, KNeg _ => false
  | _, _ => rkind_base_eqb a b
  end.

Lemma rkind_eqb_eq a b : rkind_eqb a b = true -> a = b.
Proof.
  revert b; induction a; intros b; destruct b; simpl; try discriminate; try reflexivity.
  intros H; f_equal; apply IHa, H.
Qed.

(* side conditions the ordering needs from the table: every base kind has a
   positive number, numbers are pairwise distinct on the kinds values can have,
   numbers < sets < tuples *)
Definition check_kinds (t : list (rkind * Z)) : bool :=
  forallb (fun k => 0 <? knum_of t k) base_kinds &&
  forallb (fun a => forallb (fun b => implb (Z.eqb (knum_of t a) (knum_of t b)) (rkind_eqb a b)) simple_kinds) simple_kinds &&
  forallb (fun k => knum_of t KNum <? knum_of t k) [KEmpty; KTrue; KGeneric; KStr; KBytes; KArr; KDict; KUnion; KRel] &&
  neg_kind_is_negation.

Theorem kinds_injective t :
  check_kinds t = true ->
  forall a b, In a simple_kinds -> In b simple_kinds -> knum_of t a = knum_of t b -> a = b.
Proof.
  unfold check_kinds. rewrite !andb_true_iff. intros [[[_ H] _] _] a b Ha Hb E.
  rewrite forallb_forall in H. specialize (H a Ha). rewrite forallb_forall in H. specialize (H b Hb).
  apply rkind_eqb_eq. apply Z.eqb_eq in E. rewrite E in H. exact H.
Qed.

(* re-checked by coqc against the table the code produces now *)
Definition current_kinds_ok : check_kinds kind_table = true := eq_refl.

Theorem current_kinds_injective :
  forall a b, In a simple_kinds -> In b simple_kinds ->
    knum_of kind_table a = knum_of kind_table b -> a = b.
Proof. exact (kinds_injective kind_table current_kinds_ok). Qed.
