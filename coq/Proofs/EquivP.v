(* Source-level equivalences in the reference semantics (property C08). *)
From Arrai Require Import Base.Val Spec.SetAlg Eval.Interp Proofs.FuelP.

(* let p = e1; e2   =   e1 -> \p e2   =   (\p e2)(e1) *)
Theorem let_is_arrow fuel rho p e1 e2 :
  eval (S (S fuel)) rho (ELet p e1 e2) = eval (S (S fuel)) rho (EArrow e1 (EFn p e2)).
Proof.
  remember (S fuel) as f eqn:Ef. cbn [eval evalF].
  destruct (eval f rho e1) as [v| | |]; simpl; try reflexivity.
  subst f. reflexivity.
Qed.

Theorem arrow_is_call fuel rho p e1 e2 v :
  eval (S fuel) rho e1 = Ok v ->
  eval (S (S fuel)) rho (EArrow e1 (EFn p e2)) = eval (S (S fuel)) rho (ECall (EFn p e2) e1).
Proof. intros H. remember (S fuel) as f eqn:Ef. cbn [eval evalF]. rewrite H. subst f. reflexivity. Qed.

(* when e1 fails, all three fail the same way *)
Theorem let_arrow_call_fail_together fuel rho p e1 e2 :
  eval (S fuel) rho e1 = Err ->
  eval (S (S fuel)) rho (ELet p e1 e2) = Err /\
  eval (S (S fuel)) rho (EArrow e1 (EFn p e2)) = Err /\
  eval (S (S fuel)) rho (ECall (EFn p e2) e1) = Err.
Proof. intros H. remember (S fuel) as f eqn:Ef. cbn [eval evalF]. rewrite H. subst f. repeat split. Qed.

(* && || cond evaluate only the branches they select: the result does not depend
   on the unselected operand at all (it may fail, loop or be ill-typed) *)
Theorem and_short_circuits fuel rho a b x :
  eval fuel rho a = Ok (D x) -> is_true x = false -> eval (S fuel) rho (EAnd a b) = Ok (D x).
Proof. intros H Hf. cbn [eval evalF]. rewrite H. simpl. rewrite Hf. reflexivity. Qed.

Theorem or_short_circuits fuel rho a b x :
  eval fuel rho a = Ok (D x) -> is_true x = true -> eval (S fuel) rho (EOr a b) = Ok (D x).
Proof. intros H Hf. cbn [eval evalF]. rewrite H. simpl. rewrite Hf. reflexivity. Qed.

Theorem and_selects_right fuel rho a b x :
  eval fuel rho a = Ok (D x) -> is_true x = true -> eval (S fuel) rho (EAnd a b) = eval fuel rho b.
Proof. intros H Hf. cbn [eval evalF]. rewrite H. simpl. rewrite Hf. reflexivity. Qed.

Theorem cond_selects_first_true fuel rho c v arms dflt x :
  eval fuel rho c = Ok (D x) -> is_true x = true ->
  eval (S fuel) rho (ECond ((c, v) :: arms) dflt) = eval fuel rho v.
Proof. intros H Hf. cbn [eval evalF]. rewrite H. simpl. rewrite Hf. reflexivity. Qed.

Theorem cond_skips_false fuel rho c v arms dflt x :
  eval fuel rho c = Ok (D x) -> is_true x = false ->
  eval (S fuel) rho (ECond ((c, v) :: arms) dflt) = eval (S fuel) rho (ECond arms dflt).
Proof. intros H Hf. cbn [eval evalF]. rewrite H. simpl. rewrite Hf. reflexivity. Qed.

(* a let-bound value can be read at every use: the bound name evaluates to the value *)
Theorem let_bound_name_is_its_value fuel rho x v rest :
  eval (S fuel) ((x, v) :: rest ++ rho) (EVar x) = Ok v.
Proof. cbn [eval evalF env_get]. unfold name_eqb. 
  assert (E : name_cmp x x = Eq).
  { induction x as [|c x IH]; [reflexivity|]. simpl. rewrite Z.compare_refl. exact IH. }
  rewrite E. reflexivity.
Qed.

(* the three binding forms, at any fuel that answers, give the same answer *)
Lemma arrow_is_call_always fuel rho p e1 e2 :
  eval (S (S fuel)) rho (EArrow e1 (EFn p e2)) = eval (S (S fuel)) rho (ECall (EFn p e2) e1).
Proof.
  remember (S fuel) as f eqn:Ef. cbn [eval evalF]. subst f. cbn [eval evalF rbind].
  destruct (evalF (eval fuel) (bind_pat fuel) rho e1); reflexivity.
Qed.

Definition binding_forms (p : pat) (e1 e2 : expr) : list expr :=
  [ELet p e1 e2; EArrow e1 (EFn p e2); ECall (EFn p e2) e1].

Lemma binding_forms_equal_at fuel rho p e1 e2 X Y :
  In X (binding_forms p e1 e2) -> In Y (binding_forms p e1 e2) ->
  eval (S (S fuel)) rho X = eval (S (S fuel)) rho Y.
Proof.
  pose proof (let_is_arrow fuel rho p e1 e2) as H1.
  pose proof (arrow_is_call_always fuel rho p e1 e2) as H2.
  unfold binding_forms. intros HX HY. cbn [In] in HX, HY.
  destruct HX as [HX|[HX|[HX|[]]]], HY as [HY|[HY|[HY|[]]]]; subst; congruence.
Qed.

Theorem binding_forms_same_answer n m rho p e1 e2 X Y :
  In X (binding_forms p e1 e2) -> In Y (binding_forms p e1 e2) ->
  eval n rho X <> OutOfFuel -> eval m rho Y <> OutOfFuel -> eval n rho X = eval m rho Y.
Proof.
  intros HX HY Hn Hm. set (N := S (S (Nat.max n m))).
  assert (Ln : (n <= N)%nat) by (unfold N; lia). assert (Lm : (m <= N)%nat) by (unfold N; lia).
  destruct (eval_fuel_mono n N rho X Ln) as [E|E]; [contradiction|].
  destruct (eval_fuel_mono m N rho Y Lm) as [E'|E']; [contradiction|].
  rewrite E, E'. apply (binding_forms_equal_at _ rho p e1 e2); assumption.
Qed.
