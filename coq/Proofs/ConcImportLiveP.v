(* C11 proofs, part 3: importCache.getOrAdd never strands a waiter (repaired
   error path), and the unchanged error path does. *)
From Coq Require Import List ZArith Bool Lia Arith.
Import ListNotations.
From Arrai Require Import Sys.Conc Proofs.ConcP Proofs.ConcImportP.

(* semantic facts about one step, for any program *)
Lemma exec_lk_other : forall p v ts s ts' s' m u,
  exec p v ts s = Some (ts', s') -> lk s m = Some u -> u <> v -> lk s' m = Some u.
Proof.
  intros p v ts s ts' s' m u He Hl Hne. unfold exec in He.
  destruct (nth_error p (pc ts)) as [i|]; [|discriminate]. destruct i; exec_inv He; simpl; auto;
    unfold upd; match goal with |- (if Nat.eqb ?a ?b then _ else _) = _ => destruct (Nat.eqb_spec a b) end;
    subst; auto; try congruence.
  - apply Nat.eqb_eq in Heqb. congruence.
  - apply Nat.eqb_eq in Heqb. congruence.
Qed.

Lemma exec_gen_mono : forall p v ts s ts' s' c,
  exec p v ts s = Some (ts', s') -> gen s c <= gen s' c.
Proof.
  intros p v ts s ts' s' c He. unfold exec in He.
  destruct (nth_error p (pc ts)) as [i|]; [|discriminate]. destruct i; exec_inv He; simpl; auto.
  unfold upd. destruct (Nat.eqb_spec c0 c); subst; lia.
Qed.

Section ImportLive.
  Variable q : Quirks.
  Hypothesis Hq : q_importcache_error_no_broadcast q = false.
  Variable res : Z.
  Variable N : nat.
  Notation progs := (import_progs q res).

  (* every sleeping thread of the current generation still has somebody who
     owes it a Broadcast: the marker is present (its adder will broadcast), or
     the lock holder stands right before a Broadcast *)
  Definition imp_W (s : state) : Prop :=
    forall t g, wt (thr s t) = Some g -> g = gen (sh s) 0 ->
      (mem (sh s) 0%nat < 0)%Z \/
      exists u, lk (sh s) 0 = Some u /\ (pc (thr s u) = 14 \/ pc (thr s u) = 21).

  Lemma imp_wait_bound : forall t ts s g, imp_A res t ts s -> wt ts = Some g -> g <= gen s 0.
  Proof.
    intros t [p rg w] s g (A1 & A2 & A3 & HA) Hw. simpl in *. subst w. subst p. exact HA.
  Qed.

  Lemma imp_W_step : forall s v ts' sh',
    imp_G res N (sh s) -> (forall t, imp_A res t (thr s t) (sh s)) -> imp_W s ->
    exec (progs v) v (thr s v) (sh s) = Some (ts', sh') ->
    imp_W (ST sh' (upd (thr s) v ts')).
  Proof.
    intros s v ts' sh' (G1 & G2 & G3) IA HW He. unfold imp_W. simpl. intros t g Hw Hg.
    destruct (Nat.eq_dec v t) as [->|Hne].
    - (* the stepping thread itself has just gone to sleep *)
      rewrite upd_same in Hw. specialize (IA t). destruct (thr s t) as [p rg w].
      destruct IA as (A1 & A2 & A3 & HA).
      unfold import_progs, exec, p_import in He; simpl pc in *; simpl wt in *; simpl regs in *. rewrite Hq in He.
      destruct w as [g0|]; [subst p|destr_pc p]; simpl in He; exec_inv He; simpl in Hw; try discriminate Hw.
      left. simpl in *. tauto.
    - rewrite upd_other in Hw by exact Hne.
      pose proof (imp_wait_bound _ _ _ _ (IA t) Hw) as Hb.
      pose proof (exec_gen_mono _ _ _ _ _ _ 0 He) as Hm.
      assert (Hgen : gen sh' 0 = gen (sh s) 0) by lia.
      rewrite Hgen in Hg.
      destruct (HW t g Hw Hg) as [Hneg | (u & Hl & Hp)].
      + (* marker present before the step *)
        pose proof (IA v) as IAv. destruct (thr s v) as [p rg w] eqn:Ev.
        destruct IAv as (A1 & A2 & A3 & HA).
        unfold import_progs, exec, p_import in He; simpl pc in *; simpl wt in *; simpl regs in *. rewrite Hq in He.
        destruct w as [g0|]; [subst p|destr_pc p]; simpl in He; exec_inv He; tests;
          first [ left; simpl in *; unfold upd in *; simpl in *; mk_facts; (tauto || lia || congruence)
                | right; exists v; rewrite upd_same; simpl in *; unfold upd in *; simpl in *; intuition congruence ].
      + destruct (Nat.eq_dec u v) as [->|Huv].
        * (* the holder that owed the Broadcast moved: it broadcast, so gen changed *)
          exfalso. destruct (thr s v) as [p rg w] eqn:Ev. simpl in Hp.
          unfold import_progs, exec, p_import in He; simpl pc in *; simpl wt in *; simpl regs in *. rewrite Hq in He.
          pose proof (IA v) as IAv. rewrite Ev in IAv. destruct IAv as (A1 & A2 & A3 & HA). simpl in *.
          destruct (A1 Hl) as [Hwn _]. subst w.
          destruct Hp as [Hp|Hp]; subst p; simpl in He; inversion He; subst; simpl in Hgen; unfold upd in Hgen; simpl in Hgen; lia.
        * right. exists u. rewrite upd_other by (intro; apply Huv; congruence).
          split; [eapply exec_lk_other; eauto | exact Hp].
  Qed.

  Lemma import_W : forall s, reachable progs N s -> imp_W s.
  Proof.
    induction 1 as [|s s' Hr IH Hs].
    - intros t g Hw; simpl in Hw; discriminate.
    - destruct Hs as [s v ts' sh' Hv He].
      destruct (import_inv q res N s Hr) as [IG IA].
      eapply imp_W_step; eauto.
  Qed.

  (* no reachable state strands a thread: if somebody has not returned, somebody can move *)
  Theorem import_fixed_no_deadlock : forall s, reachable progs N s -> ~ deadlock progs N s.
  Proof.
    intros s Hr [Hstuck (t0 & Ht0 & Hnh)].
    destruct (import_inv q res N s Hr) as [(G1 & G2 & G3) IA].
    pose proof (import_W s Hr) as HW.
    destruct (lk (sh s) 0) as [h|] eqn:Hlk.
    - (* the lock holder can always move *)
      apply (Hstuck h (G3 h eq_refl)). unfold enabled.
      specialize (IA h). destruct (thr s h) as [p rg w]. destruct IA as (A1 & A2 & A3 & HA).
      destruct (A1 Hlk) as [Hw Hc]. simpl in Hw, Hc. subst w.
      unfold import_progs, exec, p_import; simpl pc in *; simpl wt in *. rewrite Hq.
      destr_pc p; simpl in Hc; try contradiction; simpl; rewrite ?Hlk, ?Nat.eqb_refl; simpl;
        try discriminate; destruct (isZero _) || destruct (isNeg _) || idtac; discriminate.
    - (* lock free *)
      assert (Hadder : forall u, u < N -> mem (sh s) 0 = marker u -> False).
      { intros u Hu Hm. apply (Hstuck u Hu). unfold enabled.
        pose proof (IA u) as IAu. destruct (thr s u) as [p rg w]. destruct IAu as (A1 & A2 & A3 & HA).
        specialize (A2 Hm). simpl in A2.
        unfold import_progs, exec, p_import; simpl pc in *; simpl wt in *; simpl regs in *. rewrite Hq.
        destruct w as [g0|]; [subst p; simpl in A2; contradiction|].
        destr_pc p; simpl in A2; try contradiction; simpl in HA; simpl; rewrite ?Hlk; simpl;
          try discriminate; try (destruct HA as [HA _]; congruence);
          destruct (isNeg _); discriminate. }
      apply (Hstuck t0 Ht0). unfold enabled. unfold halted in Hnh.
      pose proof (IA t0) as IA0. pose proof (HW t0) as HW0.
      destruct (thr s t0) as [p rg w]. destruct IA0 as (A1 & A2 & A3 & HA).
      unfold import_progs, exec, p_import in *; simpl pc in *; simpl wt in *; simpl regs in *. rewrite Hq in *.
      destruct w as [g0|].
      + subst p. simpl. destruct (Nat.eqb_spec (gen (sh s) 0) g0) as [Hg|Hg].
        * exfalso. destruct (HW0 g0 eq_refl (eq_sym Hg)) as [Hneg | (u & Hl & _)]; [|congruence].
          destruct (G2 Hneg) as (u & Hu & Hm). exact (Hadder u Hu Hm).
        * rewrite Hlk. discriminate.
      + destr_pc p; simpl in HA; try contradiction; simpl in Hnh; simpl; rewrite ?Hlk; simpl;
          try discriminate; try (exfalso; apply Hnh; reflexivity);
          try (destruct HA as [HA _]; congruence); try congruence;
          destruct (isNeg _); discriminate.
  Qed.
End ImportLive.

(* the code as it is: thread 0 marks the key and fails in add(); thread 1
   sleeps on the marker; thread 0 deletes it and returns without Broadcast *)
Lemma import_quirk_deadlocks :
  exists s, reachable (import_progs only_import (-1)) 2 s /\ deadlock (import_progs only_import (-1)) 2 s.
Proof.
  destruct (run (import_progs only_import (-1)) init
              [0;0;0;0;0;0;  1;1;1;1;1;  0;0;0;0;0;0;0;0]) as [s|] eqn:E; [|vm_compute in E; discriminate].
  exists s. split.
  - eapply run_reachable; [apply r_init| |exact E]. repeat constructor.
  - vm_compute in E. inversion E; subst; clear E. split.
    + intros t Ht. unfold enabled. destruct t as [|[|t]]; [| |lia]; vm_compute; intro H; apply H; reflexivity.
    + exists 1. split; [lia|]. unfold halted. vm_compute. discriminate.
Qed.
