(* decode (encode s) = s for every rune string (property C12, string core). *)
From Arrai Require Import Base.Val Sys.Escape Gen.Escapes.
From Coq Require Import ZifyBool.

Lemma small_cases c : 0 <= c < 32 -> c = 0 \/ c = 1 \/ c = 2 \/ c = 3 \/ c = 4 \/ c = 5 \/ c = 6 \/ c = 7 \/ c = 8 \/ c = 9 \/ c = 10 \/ c = 11 \/ c = 12 \/ c = 13 \/ c = 14 \/ c = 15 \/ c = 16 \/ c = 17 \/ c = 18 \/ c = 19 \/ c = 20 \/ c = 21 \/ c = 22 \/ c = 23 \/ c = 24 \/ c = 25 \/ c = 26 \/ c = 27 \/ c = 28 \/ c = 29 \/ c = 30 \/ c = 31.
Proof. lia. Qed.

Lemma decode_enc1 delim c rest :
  delim = 39 \/ delim = 34 -> 0 <= c ->
  decode_body (enc1 delim c ++ rest) =
  match decode_body rest with Some r => Some (c :: r) | None => None end.
Proof.
  intros Hd Hc. unfold enc1.
  destruct ((c =? 92) || (c =? delim)) eqn:E1.
  - apply orb_true_iff in E1 as [E|E]; apply Z.eqb_eq in E; subst c.
    + reflexivity.
    + destruct Hd; subst delim; reflexivity.
  - apply orb_false_iff in E1 as [E92 Ed]. apply Z.eqb_neq in E92.
    destruct (32 <=? c) eqn:E32.
    + simpl. destruct (c =? 92) eqn:E; [apply Z.eqb_eq in E; contradiction | reflexivity].
    + assert (H : 0 <= c < 32) by lia.
      apply small_cases in H.
      repeat (destruct H as [H|H]; [subst c; reflexivity|]). subst c; reflexivity.
Qed.

Theorem decode_encode_body delim s :
  delim = 39 \/ delim = 34 -> Forall (fun c => 0 <= c) s ->
  decode_body (encode_body delim s) = Some s.
Proof.
  intros Hd Hs. induction Hs as [|c s Hc _ IH]; [reflexivity|].
  unfold encode_body in *. cbn [flat_map]. rewrite decode_enc1 by assumption. rewrite IH. reflexivity.
Qed.

Theorem decode_encode delim s :
  delim = 39 \/ delim = 34 -> Forall (fun c => 0 <= c) s -> decode (encode delim s) = Some s.
Proof.
  intros Hd Hs. unfold encode, decode.
  rewrite rev_app_distr. cbn [rev app]. rewrite Z.eqb_refl.
  assert (E : (delim =? 39) || (delim =? 34) = true) by (destruct Hd; subst; reflexivity).
  rewrite E. simpl. rewrite rev_involutive. apply decode_encode_body; assumption.
Qed.

Theorem repr_str_roundtrip s : Forall (fun c => 0 <= c) s -> decode (repr_str s) = Some s.
Proof.
  intros Hs. unfold repr_str. apply decode_encode; [|exact Hs].
  unfold choose_delim. destruct (existsb (Z.eqb 39) s); [right | left]; reflexivity.
Qed.

(* the chosen delimiter never occurs unescaped in the body, so the token ends where it should *)
Theorem no_bare_delimiter delim s :
  ~ In delim s \/ True -> forall c, In c s -> c = delim -> enc1 delim c = [92; c].
Proof.
  intros _ c _ ->. unfold enc1. rewrite Z.eqb_refl, orb_true_r. reflexivity.
Qed.

(* ---------- agreement with the tables regenerated from the running code ---------- *)

Fixpoint zl_eqb (a b : list Z) : bool :=
  match a, b with
  | [], [] => true
  | x :: a', y :: b' => Z.eqb x y && zl_eqb a' b'
  | _, _ => false
  end.

Definition printer_agrees (t : list (Z * list Z)) : bool :=
  forallb (fun p => zl_eqb (repr_str [fst p]) (snd p)) t.
Definition parser_agrees (t : list (list Z * list Z)) : bool :=
  forallb (fun p => match decode_body (fst p), snd p with
                    | None, [(-1)] => true
                    | Some r, exp => zl_eqb r exp
                    | None, _ => false
                    end) t.

(* re-checked by coqc on every run: an escape changed on either side breaks these *)
Definition printer_table_agrees : printer_agrees printer_table = true := eq_refl.
Definition parser_table_agrees : parser_agrees parser_table = true := eq_refl.
