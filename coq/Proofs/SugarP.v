(* A sugared literal is its spelled-out set of tuples (property C08): array literals with holes and
   dict literals, for every list of component expressions, every scope and every fuel - same value
   and same failure. *)
From Arrai Require Import Base.Val Spec.SetAlg Eval.Interp Eval.Rewrite Proofs.ValOrder Proofs.FuelP.

Definition evd_at (n : nat) (rho : env) (e : expr) : res val := do v <- eval n rho e; as_data v.

(* the members an array literal builds from its evaluated components, counting from index i *)
Fixpoint arr_items (i : Z) (vs : list (option val)) : list val :=
  match vs with
  | [] => []
  | Some v :: r => vitem i v :: arr_items (i + 1) r
  | None :: r => arr_items (i + 1) r
  end.

Lemma arr_items_fold (vs : list (option val)) : forall s,
  fold_right (fun (p : Z * option val) acc => match snd p with Some v => vitem (fst p) v :: acc | None => acc end)
             [] (combine (map Z.of_nat (seq s (length vs))) vs) = arr_items (Z.of_nat s) vs.
Proof.
  induction vs as [|o vs IH]; intros s; [reflexivity|].
  cbn [length seq map combine fold_right fst snd arr_items].
  rewrite IH. replace (Z.of_nat (S s)) with (Z.of_nat s + 1) by lia. destruct o; reflexivity.
Qed.

Lemma eval_lit k rho v : eval (S k) rho (ELit v) = Ok (D (norm v)).
Proof. reflexivity. Qed.

Lemma spell_item_eval k rho i x :
  evd_at (S (S k)) rho (spell_item i x) = do v <- evd_at (S k) rho x; Ok (vitem i v).
Proof.
  unfold evd_at, spell_item. remember (S k) as f eqn:Ef. cbn [eval evalF mapM fst snd].
  rewrite Ef at 1. rewrite eval_lit. cbn [rbind as_data norm vint].
  destruct (eval f rho x) as [w| | |]; cbn [rbind]; try reflexivity.
  destruct w as [d|]; cbn [as_data rbind]; reflexivity.
Qed.

Lemma spell_arr_mapM k rho l : forall i,
  mapM (evd_at (S (S k)) rho) (spell_arr_from i l) =
  do vs <- mapM (fun o => match o with
                          | Some x => do v <- evd_at (S k) rho x; Ok (Some v)
                          | None => Ok None
                          end) l;
  Ok (arr_items i vs).
Proof.
  induction l as [|o l IH]; intros i; [reflexivity|].
  destruct o as [x|]; cbn [spell_arr_from mapM].
  - rewrite spell_item_eval, IH.
    destruct (evd_at (S k) rho x) as [v| | |]; cbn [rbind]; try reflexivity.
    destruct (mapM _ l) as [vs| | |]; cbn [rbind arr_items]; reflexivity.
  - rewrite IH. cbn [rbind]. destruct (mapM _ l) as [vs| | |]; cbn [rbind arr_items]; reflexivity.
Qed.

(* [x0, , x2, ...] and {(@: 0, @item: x0), (@: 2, @item: x2), ...}: one answer at corresponding fuels *)
Lemma arr_literal_eval k rho l :
  eval (S (S k)) rho (EArrE l) =
  do vs <- mapM (fun o => match o with
                          | Some x => do v <- evd_at (S k) rho x; Ok (Some v)
                          | None => Ok None
                          end) l;
  Ok (D (mkset (fold_right (fun (p : Z * option val) acc => match snd p with Some v => vitem (fst p) v :: acc | None => acc end)
                           [] (combine (map Z.of_nat (seq 0 (length vs))) vs)))).
Proof. reflexivity. Qed.

Lemma set_literal_eval k rho l :
  eval (S k) rho (ESetE l) = do vs <- mapM (evd_at k rho) l; Ok (D (mkset vs)).
Proof. reflexivity. Qed.

Theorem array_literal_spelled k rho l :
  eval (S (S (S k))) rho (spell_arr l) = eval (S (S k)) rho (EArrE l).
Proof.
  unfold spell_arr. rewrite set_literal_eval, arr_literal_eval, spell_arr_mapM.
  destruct (mapM _ l) as [vs| | |]; cbn [rbind]; try reflexivity.
  rewrite (arr_items_fold vs 0). reflexivity.
Qed.

(* ---------- dict literals ---------- *)

Fixpoint has_dup_key (es : list (val * val)) : bool :=
  match es with [] => false | (k, _) :: r => existsb (fun q => veqb k (fst q)) r || has_dup_key r end.

Lemma spell_entry_eval k rho p :
  evd_at (S (S k)) rho (spell_entry p) =
  do a <- evd_at (S k) rho (fst p); do b <- evd_at (S k) rho (snd p); Ok (ventry a b).
Proof.
  unfold evd_at, spell_entry. remember (S k) as f eqn:Ef. cbn [eval evalF mapM fst snd].
  destruct (eval f rho (fst p)) as [w| | |]; cbn [rbind]; try reflexivity.
  destruct w as [d|]; cbn [as_data rbind]; [|reflexivity].
  destruct (eval f rho (snd p)) as [w| | |]; cbn [rbind]; try reflexivity.
  destruct w as [d'|]; cbn [as_data rbind]; reflexivity.
Qed.

Lemma spell_dict_mapM k rho l :
  mapM (evd_at (S (S k)) rho) (map spell_entry l) =
  do es <- mapM (fun p => do a <- evd_at (S k) rho (fst p); do b <- evd_at (S k) rho (snd p); Ok (a, b)) l;
  Ok (map (fun p => ventry (fst p) (snd p)) es).
Proof.
  induction l as [|p l IH]; [reflexivity|].
  cbn [map mapM]. rewrite spell_entry_eval, IH.
  destruct (evd_at (S k) rho (fst p)) as [a| | |]; cbn [rbind]; try reflexivity.
  destruct (evd_at (S k) rho (snd p)) as [b| | |]; cbn [rbind]; try reflexivity.
  destruct (mapM _ l) as [es| | |]; cbn [rbind map fst snd]; reflexivity.
Qed.

(* the evaluated entries of a dict literal *)
Definition dict_entries_at (n : nat) (rho : env) (l : list (expr * expr)) : res (list (val * val)) :=
  mapM (fun p => do a <- evd_at n rho (fst p); do b <- evd_at n rho (snd p); Ok (a, b)) l.

Lemma dict_literal_eval k rho l :
  eval (S (S k)) rho (EDictE l) =
  do es <- dict_entries_at (S k) rho l;
  if has_dup_key es then Err else Ok (D (mkset (map (fun p => ventry (fst p) (snd p)) es))).
Proof. reflexivity. Qed.

Lemma spell_dict_eval k rho l :
  eval (S (S (S k))) rho (spell_dict l) =
  do es <- dict_entries_at (S k) rho l; Ok (D (mkset (map (fun p => ventry (fst p) (snd p)) es))).
Proof.
  unfold spell_dict. rewrite set_literal_eval, spell_dict_mapM. unfold dict_entries_at.
  destruct (mapM _ l) as [es| | |]; reflexivity.
Qed.

Lemma evd_at_ok n rho e a : evd_at n rho e = Ok a -> eval n rho e = Ok (D a).
Proof.
  unfold evd_at. destruct (eval n rho e) as [w| | |]; cbn [rbind]; try discriminate.
  destruct w; cbn [as_data]; [intros [= ->]; reflexivity | discriminate].
Qed.

Lemma dict_entries_cons n rho p l es :
  dict_entries_at n rho (p :: l) = Ok es ->
  exists a b es', es = (a, b) :: es' /\ eval n rho (fst p) = Ok (D a) /\ dict_entries_at n rho l = Ok es'.
Proof.
  unfold dict_entries_at. cbn [mapM].
  destruct (evd_at n rho (fst p)) as [a| | |] eqn:Ea; cbn [rbind]; try discriminate.
  destruct (evd_at n rho (snd p)) as [b| | |] eqn:Eb; cbn [rbind]; try discriminate.
  destruct (mapM _ l) as [es'| | |]; cbn [rbind]; try discriminate.
  intros [= <-]. exists a, b, es'. repeat split. apply evd_at_ok, Ea.
Qed.

(* an evaluated entry with key k comes from a component whose key expression evaluates to k *)
Lemma dict_entries_key_origin n rho : forall l es q,
  dict_entries_at n rho l = Ok es -> In q es ->
  exists l1 p l2, l = l1 ++ p :: l2 /\ eval n rho (fst p) = Ok (D (fst q)).
Proof.
  induction l as [|p l IH]; intros es q H Hin.
  - cbn in H. injection H as <-. destruct Hin.
  - apply dict_entries_cons in H as (a & b & es' & -> & Ha & Hl).
    destruct Hin as [<-|Hin].
    + exists [], p, l. split; [reflexivity | exact Ha].
    + destruct (IH es' q Hl Hin) as (l1 & p' & l2 & -> & Hp').
      exists (p :: l1), p', l2. split; [reflexivity | exact Hp'].
Qed.

Lemma has_dup_key_clash n rho : forall l es,
  dict_entries_at n rho l = Ok es -> has_dup_key es = true -> dict_keys_clash n rho l.
Proof.
  induction l as [|p l IH]; intros es H Hd.
  - cbn in H. injection H as <-. discriminate.
  - apply dict_entries_cons in H as (a & b & es' & -> & Ha & Hl).
    cbn [has_dup_key] in Hd. apply orb_true_iff in Hd as [Hd|Hd].
    + apply existsb_exists in Hd as (q & Hq & Hv). apply veqb_eq in Hv.
      destruct (dict_entries_key_origin n rho l es' q Hl Hq) as (l1 & p' & l2 & -> & Hp').
      exists [], p, l1, p', l2, a. repeat split; [exact Ha | rewrite Hv; exact Hp'].
    + destruct (IH es' Hl Hd) as (l1 & p1 & l2 & p2 & l3 & x & -> & H1 & H2).
      exists (p :: l1), p1, l2, p2, l3, x. repeat split; assumption.
Qed.

(* {k: v, ...} and {(@: k, @value: v), ...}: one answer at corresponding fuels - value, error, outside the
   fragment or out of fuel - except that the literal refuses two keys with the same value, which the set does not *)
Theorem dict_literal_spelled k rho l :
  eval (S (S k)) rho (EDictE l) = eval (S (S (S k))) rho (spell_dict l) \/
  (eval (S (S k)) rho (EDictE l) = Err /\ (exists v, eval (S (S (S k))) rho (spell_dict l) = Ok (D v)) /\
   dict_keys_clash (S k) rho l).
Proof.
  rewrite dict_literal_eval, spell_dict_eval.
  destruct (dict_entries_at (S k) rho l) as [es| | |] eqn:E; cbn [rbind]; try (left; reflexivity).
  destruct (has_dup_key es) eqn:Hd; [right | left; reflexivity].
  split; [reflexivity|]. split; [eexists; reflexivity|]. eapply has_dup_key_clash; eassumption.
Qed.

(* the exception is real: {1: 2, 1: 3} is refused, {(@: 1, @value: 2), (@: 1, @value: 3)} is a set of two tuples *)
Theorem dict_literal_repeated_key_differs :
  exists l, run 5 (EDictE l) = Err /\ exists v, run 5 (spell_dict l) = Ok (D v).
Proof.
  exists [(ELit (vint 1), ELit (vint 2)); (ELit (vint 1), ELit (vint 3))].
  split; [vm_compute; reflexivity | eexists; vm_compute; reflexivity].
Qed.

(* ---------- the same, for every pair of fuels ---------- *)

Lemma fuel_lift n N rho e : (n <= N)%nat -> eval n rho e <> OutOfFuel -> eval N rho e = eval n rho e.
Proof.
  intros Hle Hn. destruct (eval_fuel_mono n N rho e Hle) as [E|E]; [contradiction | symmetry; exact E].
Qed.

Lemma same_meaning_of_shift (e e' : expr) (c c' : nat) :
  (forall k rho, eval (c + k) rho e = eval (c' + k) rho e') -> same_meaning e e'.
Proof.
  intros H rho. split.
  - intros n m Hn Hm. set (K := Nat.max n m).
    assert (E1 : eval (c + K) rho e = eval n rho e) by (apply fuel_lift; [unfold K; lia | exact Hn]).
    assert (E2 : eval (c' + K) rho e' = eval m rho e') by (apply fuel_lift; [unfold K; lia | exact Hm]).
    rewrite <- E1, <- E2. apply H.
  - split; intros [n Hn].
    + exists (c' + n)%nat. rewrite <- H. rewrite (fuel_lift n (c + n) rho e); [exact Hn | lia | exact Hn].
    + exists (c + n)%nat. rewrite H. rewrite (fuel_lift n (c' + n) rho e'); [exact Hn | lia | exact Hn].
Qed.

Theorem array_literal_same_meaning l : same_meaning (EArrE l) (spell_arr l).
Proof.
  apply (same_meaning_of_shift _ _ 2 3). intros k rho. symmetry. apply array_literal_spelled.
Qed.
