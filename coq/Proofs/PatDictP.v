(* Dict patterns {k1: p1, .., kn: pn} with literal keys and name / _ / literal items (property C09):
   a successful match finds for every key exactly one entry and binds its item to that entry's
   value, and the dict has no entry under any other key. *)
From Arrai Require Import Base.Val Spec.SetAlg Eval.Interp Proofs.ValOrder Proofs.SetAlgP Proofs.PatternP Proofs.PatArrP.

Definition flat_entries (kls : list (val * leaf)) : list (expr * pitem) :=
  map (fun kl => (ELit (fst kl), PItem (leaf_pat (snd kl)) None)) kls.

Lemma extras_flat_entries kls :
  filter (fun a : expr * pitem => match snd a with PExtra _ => true | _ => false end) (flat_entries kls) = [].
Proof. induction kls as [|kl kls IH]; [reflexivity | exact IH]. Qed.

Theorem flat_dict_pattern_sound fuel rho kls v sc :
  bind_pat (S (S (S fuel))) rho (PDict (flat_entries kls)) (D v) = Ok sc ->
  exists l es, v = VSet l /\ dict_entries l = Some es /\
    Forall (fun kl => exists k' x, In (k', x) es /\ veqb (norm (fst kl)) k' = true /\ leaf_ok sc (snd kl) x) kls /\
    (forall k' x, In (k', x) es -> exists kl, In kl kls /\ veqb (norm (fst kl)) k' = true).
Proof.
  remember (S (S fuel)) as f eqn:Ef. cbn [bind_pat bindF]. cbn [as_data rbind].
  destruct v as [| |l]; try discriminate.
  destruct (dict_entries l) as [es|] eqn:Ee; [|discriminate].
  rewrite extras_flat_entries. change (1 <? length (@nil (expr * pitem)))%nat with false. cbv iota.
  intros H. exists l, es. split; [reflexivity|]. split; [exact Ee|].
  revert H. generalize (existsb (fun a : expr * pitem => is_fallback (snd a)) (flat_entries kls)) as hb. intros hb H.
  match type of H with ?GO _ es None [] = _ =>
    assert (G : forall kls rem acc sc, GO (flat_entries kls) rem None acc = Ok sc ->
                (forall z w, env_get z acc = Some w -> env_get z sc = Some w) /\
                Forall (fun kl => exists k' x, In (k', x) rem /\ veqb (norm (fst kl)) k' = true /\ leaf_ok sc (snd kl) x) kls /\
                (forall k' x, In (k', x) rem -> exists kl, In kl kls /\ veqb (norm (fst kl)) k' = true));
      [| destruct (G kls es [] sc H) as (_ & A & B); split; assumption] end.
  clear H kls sc. induction kls as [|[k lf] kls IH]; intros rem acc sc H.
  - simpl in H. destruct rem; [|destruct hb; discriminate]. injection H as <-.
    repeat split; auto. intros k' x [].
  - simpl in H. replace (eval f rho (ELit k)) with (@Ok value (D (norm k))) in H by (rewrite Ef; reflexivity).
    cbn [rbind as_data] in H.
    destruct (filter (fun p : val * val => veqb (norm k) (fst p)) rem) as [|[k1 x] [|? ?]] eqn:Efl; try discriminate.
    destruct (bind_pat f rho (leaf_pat lf) (D x)) as [sc0| | |] eqn:Eb; simpl in H; try discriminate.
    destruct (env_matched_update acc sc0) as [acc'|] eqn:Eu; simpl in H; [|discriminate].
    destruct (IH _ acc' sc H) as (Hkeep & Hrest & Hcov).
    rewrite Ef in Eb. apply leaf_bind in Eb.
    assert (Hacc : forall z w, env_get z acc = Some w -> env_get z acc' = Some w)
      by (intros z w; eapply matched_update_preserves; exact Eu).
    assert (Hin1 : In (k1, x) rem /\ veqb (norm k) k1 = true).
    { assert (Hi : In (k1, x) (filter (fun p : val * val => veqb (norm k) (fst p)) rem)) by (rewrite Efl; left; reflexivity).
      apply filter_In in Hi. exact Hi. }
    split; [intros z w Hz; apply Hkeep, Hacc, Hz|]. split.
    + constructor.
      * exists k1, x. split; [apply Hin1|]. split; [apply Hin1|].
        destruct lf as [y| |w]; simpl.
        -- subst sc0. apply Hkeep. exact (proj1 (single_update acc y x acc' Eu)).
        -- exact I.
        -- apply Eb.
      * eapply Forall_impl; [|exact Hrest]. intros kl (k' & x' & Hin & Hk & Hl).
        exists k', x'. split; [|split; assumption]. apply filter_In in Hin. apply Hin.
    + intros k' x' Hin. destruct (veqb (norm k) k') eqn:Ek.
      * exists (k, lf). split; [left; reflexivity | exact Ek].
      * assert (Hin' : In (k', x') (filter (fun p : val * val => negb (veqb (norm k) (fst p))) rem)).
        { apply filter_In. split; [exact Hin|]. simpl. rewrite Ek. reflexivity. }
        destruct (Hcov k' x' Hin') as (kl & Hkl & Hv). exists kl. split; [right; exact Hkl | exact Hv].
Qed.
