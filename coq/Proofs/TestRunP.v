(* Proofs about the test-runner model (Sys/TestRun.v). *)
From Arrai Require Import Base.Val Sys.TestRun.

(* ---------- induction principles for the nested inductives ---------- *)
Section RtreeInd.
Variable P : rtree -> Prop.
Hypothesis Hleaf : forall k, P (RLeaf k).
Hypothesis Htup : forall attrs, Forall (fun a => P (snd a)) attrs -> P (RTuple attrs).
Hypothesis Harr : forall off items,
  Forall (fun o => match o with Some c => P c | None => True end) items -> P (RArray off items).
Hypothesis Hdict : forall es, Forall (fun a => P (snd a)) es -> P (RDict es).

Fixpoint rtree_ind2 (t : rtree) : P t :=
  match t with
  | RLeaf k => Hleaf k
  | RTuple attrs =>
      Htup attrs
        ((fix go (l : list (bytes * rtree)) : Forall (fun a => P (snd a)) l :=
            match l with
            | [] => Forall_nil _
            | (n, c) :: l' => Forall_cons (n, c) (rtree_ind2 c) (go l')
            end) attrs)
  | RArray off items =>
      Harr off items
        ((fix go (l : list (option rtree)) : Forall (fun o => match o with Some c => P c | None => True end) l :=
            match l with
            | [] => Forall_nil _
            | Some c :: l' => Forall_cons (Some c) (rtree_ind2 c) (go l')
            | None :: l' => Forall_cons None I (go l')
            end) items)
  | RDict es =>
      Hdict es
        ((fix go (l : list (dkey * rtree)) : Forall (fun a => P (snd a)) l :=
            match l with
            | [] => Forall_nil _
            | (k, c) :: l' => Forall_cons (k, c) (rtree_ind2 c) (go l')
            end) es)
  end.
End RtreeInd.

Section FsInd.
Variable P : fsnode -> Prop.
Hypothesis Hfile : forall nm r, P (FFile nm r).
Hypothesis Hdir : forall nm kids, Forall P kids -> P (FDir nm kids).
Fixpoint fsnode_ind2 (n : fsnode) : P n :=
  match n with
  | FFile nm r => Hfile nm r
  | FDir nm kids =>
      Hdir nm kids
        ((fix go (l : list fsnode) : Forall P l :=
            match l with
            | [] => Forall_nil _
            | k :: l' => Forall_cons k (fsnode_ind2 k) (go l')
            end) kids)
  end.
End FsInd.

(* ---------- path text ---------- *)
Definition step_ok (s : step) : Prop := match s with SAttr n => name_ok n = true | _ => True end.
Definition pre_ok (pre : list step) : Prop := Forall step_ok pre.
Definition nodot (l : bytes) : Prop := match l with [] => False | c :: _ => Z.eqb c c_dot = false end.

Lemma render_step_nonnil : forall s, render_step s <> [].
Proof. destruct s; simpl; discriminate. Qed.

Lemma trim_dot_app : forall a b, a <> [] -> trim_dot (a ++ b) = trim_dot a ++ b.
Proof. intros [|c a] b H; [congruence|]. simpl. destruct (Z.eqb c c_dot); reflexivity. Qed.

Lemma trim_nodot : forall l, nodot l -> trim_dot l = l.
Proof. intros [|c l] H; simpl in *; [tauto|]. rewrite H. reflexivity. Qed.

Lemma nodot_app : forall a b, nodot a -> nodot (a ++ b).
Proof. intros [|c a] b H; simpl in *; tauto. Qed.

Lemma render_nodot : forall pre, pre_ok pre -> pre <> [] -> nodot (render pre).
Proof.
  intros [|s pre] Hok Hne; [congruence|].
  inversion Hok as [|? ? Hs Hrest]; subst. unfold render. simpl map. simpl concat.
  destruct s as [n|i|k]; simpl in Hs.
  - destruct n as [|c n]; simpl in Hs; [discriminate|].
    unfold c_dot in *. cbn. destruct (Z.eqb c 46) eqn:E; [discriminate|]. exact E.
  - cbn. reflexivity.
  - cbn. reflexivity.
Qed.

Lemma concat_render_nonnil : forall pre, pre <> [] -> concat (map render_step pre) <> [].
Proof.
  intros [|s pre] H; [congruence|]. simpl. intro E. apply app_eq_nil in E. destruct E as [E _].
  exact (render_step_nonnil s E).
Qed.

Lemma render_snoc : forall pre s, pre_ok pre -> render (pre ++ [s]) = trim_dot (render pre ++ render_step s).
Proof.
  intros pre s Hok. destruct pre as [|s0 pre].
  - unfold render. simpl. rewrite app_nil_r. reflexivity.
  - assert (Hne : s0 :: pre <> []) by discriminate.
    unfold render at 1. rewrite map_app, concat_app. simpl concat at 2. rewrite app_nil_r.
    rewrite trim_dot_app by (apply concat_render_nonnil; exact Hne).
    fold (render (s0 :: pre)).
    symmetry. apply trim_nodot. apply nodot_app. apply render_nodot; assumption.
Qed.

(* ---------- ForeachLeaf visits exactly the leaves ---------- *)
Definition leaf_view (pre : list step) (pl : list step * leafk) : bytes * option leafk :=
  (render (pre ++ fst pl), Some (snd pl)).

Lemma walk_off_paths_gen : forall t pre arg,
  names_ok t = true -> pre_ok pre -> trim_dot arg = render pre ->
  walk quirks_off t arg = map (leaf_view pre) (leaves_spec t).
Proof.
  induction t using rtree_ind2; intros pre arg Hn Hp Harg.
  - simpl. rewrite Harg. unfold leaf_view. simpl. rewrite app_nil_r. reflexivity.
  - simpl walk. rewrite Harg. simpl leaves_spec. simpl in Hn.
    induction attrs as [|[n c] attrs IH]; [reflexivity|].
    inversion H as [|? ? Hc Hrest]; subst. simpl in Hc.
    apply andb_prop in Hn. destruct Hn as [Hn Hn3]. apply andb_prop in Hn. destruct Hn as [Hn1 Hn2].
    rewrite map_app. f_equal; [|apply IH; assumption].
    rewrite (Hc (pre ++ [SAttr n])).
    + rewrite map_map. apply map_ext. intros [p k]. unfold leaf_view. simpl.
      rewrite <- app_assoc. reflexivity.
    + exact Hn2.
    + apply Forall_app. split; [exact Hp|]. constructor; [exact Hn1|constructor].
    + rewrite render_snoc by exact Hp. reflexivity.
  - simpl walk. rewrite Harg. simpl leaves_spec. simpl in Hn.
    generalize 0.
    induction items as [|[c|] items IH]; intro i; [reflexivity| |].
    + inversion H as [|? ? Hc Hrest]; subst.
      apply andb_prop in Hn. destruct Hn as [Hn1 Hn2].
      rewrite map_app. f_equal; [|apply IH; assumption].
      unfold arr_index. simpl.
      rewrite (Hc (pre ++ [SIdx (off + i)])).
      * rewrite map_map. apply map_ext. intros [p k]. unfold leaf_view. simpl.
        rewrite <- app_assoc. reflexivity.
      * exact Hn1.
      * apply Forall_app. split; [exact Hp|]. constructor; [exact I|constructor].
      * rewrite render_snoc by exact Hp. reflexivity.
    + inversion H as [|? ? Hc Hrest]; subst. simpl. apply IH; assumption.
  - simpl walk. rewrite Harg. simpl leaves_spec. simpl in Hn.
    induction es as [|[k c] es IH]; [reflexivity|].
    inversion H as [|? ? Hc Hrest]; subst. simpl in Hc.
    apply andb_prop in Hn. destruct Hn as [Hn1 Hn2].
    rewrite map_app. f_equal; [|apply IH; assumption].
    rewrite (Hc (pre ++ [SKey k])).
    + rewrite map_map. apply map_ext. intros [p k0]. unfold leaf_view. simpl.
      rewrite <- app_assoc. reflexivity.
    + exact Hn1.
    + apply Forall_app. split; [exact Hp|]. constructor; [exact I|constructor].
    + rewrite render_snoc by exact Hp. reflexivity.
Qed.

Lemma walk_off_paths : forall t, names_ok t = true ->
  walk quirks_off t [] = map (fun pl => (render (fst pl), Some (snd pl))) (leaves_spec t).
Proof.
  intros t H. rewrite (walk_off_paths_gen t [] []); [reflexivity|exact H|constructor|reflexivity].
Qed.

(* without any condition on names: the leaves, in order, whatever the path text *)
Lemma walk_off_kinds : forall t arg,
  map snd (walk quirks_off t arg) = map (fun pl => Some (snd pl)) (leaves_spec t).
Proof.
  induction t using rtree_ind2; intros arg.
  - reflexivity.
  - simpl walk. simpl leaves_spec. generalize (trim_dot arg). intro path.
    induction attrs as [|[n c] attrs IH]; [reflexivity|].
    inversion H as [|? ? Hc Hrest]; subst. simpl in Hc.
    rewrite !map_app. f_equal; [|apply IH; assumption].
    rewrite Hc. rewrite map_map. reflexivity.
  - simpl walk. simpl leaves_spec. generalize (trim_dot arg). intro path.
    generalize 0.
    induction items as [|[c|] items IH]; intro i; [reflexivity| |].
    + inversion H as [|? ? Hc Hrest]; subst.
      rewrite !map_app. f_equal; [|apply IH; assumption].
      rewrite Hc. rewrite map_map. reflexivity.
    + inversion H as [|? ? Hc Hrest]; subst. simpl. apply IH; assumption.
  - simpl walk. simpl leaves_spec. generalize (trim_dot arg). intro path.
    induction es as [|[k c] es IH]; [reflexivity|].
    inversion H as [|? ? Hc Hrest]; subst. simpl in Hc.
    rewrite !map_app. f_equal; [|apply IH; assumption].
    rewrite Hc. rewrite map_map. reflexivity.
Qed.

Lemma walk_off_length : forall t arg, length (walk quirks_off t arg) = length (leaves_spec t).
Proof.
  intros. rewrite <- (map_length snd), walk_off_kinds, map_length. reflexivity.
Qed.

(* ---------- RunExpr ---------- *)
Definition leaf_result (pl : list step * leafk) : bytes * outcome := (render (fst pl), outcome_of (snd pl)).

Lemma classify_leaf_some : forall k, k <> LGenTrue -> classify_leaf (Some k) = Ok (outcome_of k).
Proof. destruct k; intro H; try reflexivity. congruence. Qed.

Lemma classify_all_kinds : forall (l : list (bytes * option leafk)) (ks : list leafk),
  map snd l = map Some ks ->
  match classify_all l with
  | Ok r => map fst r = map fst l /\ map snd r = map outcome_of ks /\ ~ In LGenTrue ks
  | Panic _ => In LGenTrue ks
  end.
Proof.
  induction l as [|[p v] l IH]; intros ks Hk; destruct ks as [|k ks]; try discriminate.
  - simpl. auto.
  - simpl in Hk. injection Hk as Hv Hk. subst v. specialize (IH ks Hk).
    simpl classify_all.
    destruct k; simpl; try (left; reflexivity);
      destruct (classify_all l) as [r|s]; simpl;
      try (right; exact IH);
      destruct IH as (A & B & C); (split; [simpl; f_equal; exact A|split; [simpl; f_equal; exact B|]]);
      intros [D|D]; try discriminate; exact (C D).
Qed.

Lemma run_expr_off_outcomes : forall t,
  match run_expr quirks_off t with
  | Ok r => map snd r = map (fun pl => outcome_of (snd pl)) (leaves_spec t) /\
            ~ In LGenTrue (map snd (leaves_spec t))
  | Panic _ => In LGenTrue (map snd (leaves_spec t))
  end.
Proof.
  intro t. unfold run_expr.
  pose proof (classify_all_kinds (walk quirks_off t []) (map snd (leaves_spec t))) as H.
  rewrite walk_off_kinds, map_map in H. specialize (H eq_refl).
  destruct (classify_all (walk quirks_off t [])) as [r|s]; [|exact H].
  destruct H as (_ & B & C). split; [|exact C]. rewrite B, map_map. reflexivity.
Qed.

Lemma canonical_no_gentrue : forall t, canonical t = true -> ~ In LGenTrue (map snd (leaves_spec t)).
Proof.
  induction t using rtree_ind2; intro Hc.
  - destruct k; simpl in *; try discriminate; intros [E|[]]; discriminate.
  - simpl in *. induction attrs as [|[n c] attrs IH]; [simpl; tauto|].
    inversion H as [|? ? Hx Hrest]; subst. apply andb_prop in Hc. destruct Hc as [C1 C2].
    rewrite map_app, map_map. simpl. intro Hin. apply in_app_or in Hin. destruct Hin as [Hin|Hin].
    + exact (Hx C1 Hin).
    + exact (IH Hrest C2 Hin).
  - simpl in *. generalize 0.
    induction items as [|[c|] items IH]; intro i; [simpl; tauto| |].
    + inversion H as [|? ? Hx Hrest]; subst. apply andb_prop in Hc. destruct Hc as [C1 C2].
      rewrite map_app, map_map. simpl. intro Hin. apply in_app_or in Hin. destruct Hin as [Hin|Hin].
      * exact (Hx C1 Hin).
      * exact (IH Hrest C2 (i + 1) Hin).
    + inversion H as [|? ? Hx Hrest]; subst. exact (IH Hrest Hc (i + 1)).
  - simpl in *. induction es as [|[k c] es IH]; [simpl; tauto|].
    inversion H as [|? ? Hx Hrest]; subst. apply andb_prop in Hc. destruct Hc as [C1 C2].
    rewrite map_app, map_map. simpl. intro Hin. apply in_app_or in Hin. destruct Hin as [Hin|Hin].
    + exact (Hx C1 Hin).
    + exact (IH Hrest C2 Hin).
Qed.

Lemma classify_all_views : forall (L : list (list step * leafk)),
  ~ In LGenTrue (map snd L) ->
  classify_all (map (fun pl => (render (fst pl), Some (snd pl))) L) = Ok (map leaf_result L).
Proof.
  induction L as [|[p k] L IH]; intro H; [reflexivity|].
  simpl map. simpl classify_all. simpl in H.
  replace (match is_literal_true k with
           | Ok true => Ok Passed
           | Ok false => if is_literal_false k then Ok Failed else Ok Invalid
           | Panic s => Panic s end) with (classify_leaf (Some k)) by reflexivity.
  rewrite classify_leaf_some by (intro E; apply H; left; exact E).
  rewrite IH by (intro E; apply H; right; exact E). reflexivity.
Qed.

(* each leaf is reported once, under the text of its path, with the outcome of its kind *)
Lemma run_expr_off_spec : forall t, names_ok t = true -> canonical t = true ->
  run_expr quirks_off t = Ok (map leaf_result (leaves_spec t)).
Proof.
  intros t Hn Hc. unfold run_expr. rewrite walk_off_paths by exact Hn.
  apply classify_all_views. apply canonical_no_gentrue. exact Hc.
Qed.

(* ---------- calcStats ---------- *)
Definition sum4 (s : stats) : nat := (st_invalid s + st_passed s + st_ignored s + st_failed s)%nat.
Definition is_o (o o' : outcome) : bool :=
  match o, o' with Failed, Failed | Invalid, Invalid | Ignored, Ignored | Passed, Passed => true | _, _ => false end.
Definition count_o (o : outcome) (l : list (bytes * outcome)) : nat := length (filter (fun r => is_o o (snd r)) l).

Definition add_results (s : stats) (l : list (bytes * outcome)) : stats := fold_left (fun s r => stats_add s (snd r)) l s.

Lemma add_results_counts : forall l s,
  st_total (add_results s l) = (st_total s + length l)%nat /\
  st_failed (add_results s l) = (st_failed s + count_o Failed l)%nat /\
  st_invalid (add_results s l) = (st_invalid s + count_o Invalid l)%nat /\
  st_ignored (add_results s l) = (st_ignored s + count_o Ignored l)%nat /\
  st_passed (add_results s l) = (st_passed s + count_o Passed l)%nat.
Proof.
  induction l as [|[p o] l IH]; intro s.
  - unfold add_results, count_o. simpl. repeat split; lia.
  - unfold add_results in *. simpl fold_left. specialize (IH (stats_add s o)).
    destruct IH as (A & B & C & D & E). rewrite A, B, C, D, E.
    unfold count_o. destruct o; simpl; repeat split; lia.
Qed.

Definition all_results (files : list (bytes * list (bytes * outcome))) : list (bytes * outcome) := concat (map snd files).

Lemma calc_stats_concat : forall files s,
  fold_left (fun s f => fold_left (fun s r => stats_add s (snd r)) (snd f) s) files s = add_results s (all_results files).
Proof.
  induction files as [|f files IH]; intro s; [reflexivity|].
  simpl. rewrite IH. unfold all_results, add_results. simpl. rewrite fold_left_app. reflexivity.
Qed.

Lemma count_split : forall l,
  length l = (count_o Invalid l + count_o Passed l + count_o Ignored l + count_o Failed l)%nat.
Proof.
  induction l as [|[p o] l IH]; [reflexivity|]. unfold count_o in *. destruct o; simpl in *; lia.
Qed.

Lemma calc_stats_spec : forall files,
  let s := calc_stats files in
  let l := all_results files in
  st_total s = length l /\ st_failed s = count_o Failed l /\ st_invalid s = count_o Invalid l /\
  st_ignored s = count_o Ignored l /\ st_passed s = count_o Passed l /\ sum4 s = st_total s.
Proof.
  intro files. unfold calc_stats. rewrite calc_stats_concat.
  destruct (add_results_counts (all_results files) stats0) as (A & B & C & D & E).
  simpl in *. repeat split; try assumption. unfold sum4. rewrite A, B, C, D, E. simpl.
  rewrite (count_split (all_results files)). lia.
Qed.

Lemma count_o_zero : forall o l, count_o o l = 0%nat <-> Forall (fun r => snd r <> o) l.
Proof.
  intros o l. unfold count_o. induction l as [|[p o'] l IH]; simpl.
  - split; auto.
  - destruct (is_o o o') eqn:E; simpl.
    + split; [discriminate|]. intro F. inversion F as [|? ? Hx _]; subst. simpl in Hx.
      destruct o, o'; simpl in E; try discriminate; congruence.
    + rewrite IH. split.
      * intro F. constructor; [|exact F]. simpl. intro; subst. destruct o; discriminate.
      * intro F. inversion F; assumption.
Qed.

Lemma run_failed_spec : forall files,
  run_failed (calc_stats files) = false <->
  Forall (fun r => snd r <> Failed /\ snd r <> Invalid) (all_results files).
Proof.
  intro files. destruct (calc_stats_spec files) as (_ & B & C & _). unfold run_failed.
  rewrite B, C. rewrite orb_false_iff, !Nat.ltb_ge.
  assert (forall n, (n <= 0 <-> n = 0)%nat) as Z0 by (intro; lia). rewrite !Z0, !count_o_zero.
  rewrite !Forall_forall. split.
  - intros [F I] r Hr. split; [apply F|apply I]; exact Hr.
  - intro H. split; intros r Hr; apply (H r Hr).
Qed.

(* ---------- RunTests over the selected files ---------- *)
Inductive collected := CDone (l : list (bytes * list (bytes * outcome))) | CErrFile (p : bytes) | CPanic (s : Z).

Fixpoint collect (q : Quirks) (fs : list (bytes * fileres)) : collected :=
  match fs with
  | [] => CDone []
  | (p, FTree t) :: fs' =>
      match run_expr q t with
      | Panic s => CPanic s
      | Ok r => match collect q fs' with CDone l => CDone ((p, r) :: l) | e => e end
      end
  | (p, _) :: _ => CErrFile p
  end.

Lemma run_files_collect : forall q fs acc,
  run_files q fs acc =
  match collect q fs with
  | CDone l => let F := List.rev acc ++ l in RunDone F (calc_stats F) (run_failed (calc_stats F))
  | CErrFile p => RunErrFile p
  | CPanic s => RunPanic s
  end.
Proof.
  induction fs as [|[p r] fs IH]; intro acc.
  - simpl. rewrite app_nil_r. reflexivity.
  - destruct r as [| |t]; try reflexivity. simpl.
    destruct (run_expr q t) as [res|s]; [|reflexivity].
    rewrite IH. destruct (collect q fs); try reflexivity.
    simpl. rewrite <- app_assoc. reflexivity.
Qed.

(* the shape of what was collected *)
Definition file_reported (f : bytes * fileres) (fr : bytes * list (bytes * outcome)) : Prop :=
  fst fr = fst f /\ exists t, snd f = FTree t /\ run_expr quirks_off t = Ok (snd fr).

Lemma collect_done : forall fs l, collect quirks_off fs = CDone l -> Forall2 file_reported fs l.
Proof.
  induction fs as [|[p r] fs IH]; intros l H.
  - simpl in H. injection H as <-. constructor.
  - destruct r as [| |t]; try discriminate. simpl in H.
    destruct (run_expr quirks_off t) as [res|s] eqn:E; [|discriminate].
    destruct (collect quirks_off fs) as [l'| |] eqn:E2; try discriminate.
    injection H as <-. constructor; [|apply IH; reflexivity].
    split; [reflexivity|]. exists t. split; [reflexivity|exact E].
Qed.

Lemma collect_all_trees : forall fs,
  (forall f, In f fs -> exists t, snd f = FTree t /\ exists r, run_expr quirks_off t = Ok r) ->
  exists l, collect quirks_off fs = CDone l.
Proof.
  induction fs as [|[p r] fs IH]; intro H; [exists []; reflexivity|].
  destruct (H (p, r) (or_introl eq_refl)) as (t & Ht & res & Hr). simpl in Ht. subst r.
  destruct IH as (l & Hl); [intros f Hf; apply H; right; exact Hf|].
  simpl. rewrite Hr, Hl. eexists; reflexivity.
Qed.

Lemma outcome_true : forall k, (outcome_of k <> Failed /\ outcome_of k <> Invalid) <-> k = LTrue.
Proof. destruct k; simpl; split; intros; try reflexivity; try discriminate; try (split; discriminate); destruct H; congruence. Qed.

Lemma all_true_run_expr : forall t, all_true t ->
  exists r, run_expr quirks_off t = Ok r /\ Forall (fun x => snd x <> Failed /\ snd x <> Invalid) r.
Proof.
  intros t Ht. pose proof (run_expr_off_outcomes t) as H.
  assert (NG : ~ In LGenTrue (map snd (leaves_spec t))).
  { intro Hin. apply in_map_iff in Hin. destruct Hin as (pl & E & Hin).
    unfold all_true in Ht. rewrite Forall_forall in Ht. rewrite (Ht pl Hin) in E. discriminate. }
  destruct (run_expr quirks_off t) as [r|s]; [|contradiction].
  exists r. split; [reflexivity|]. destruct H as [H _].
  rewrite Forall_forall. intros x Hx. apply (in_map snd) in Hx. rewrite H in Hx.
  apply in_map_iff in Hx. destruct Hx as (pl & E & Hin). rewrite <- E. apply outcome_true.
  unfold all_true in Ht. rewrite Forall_forall in Ht. exact (Ht pl Hin).
Qed.

Lemma run_expr_all_pass : forall t r, run_expr quirks_off t = Ok r ->
  Forall (fun x => snd x <> Failed /\ snd x <> Invalid) r -> all_true t.
Proof.
  intros t r E F. pose proof (run_expr_off_outcomes t) as H. rewrite E in H. destruct H as [H _].
  unfold all_true. rewrite Forall_forall in *. intros pl Hin.
  apply outcome_true.
  assert (In (outcome_of (snd pl)) (map snd r)) as Hi.
  { rewrite H. apply in_map_iff. exists pl. split; [reflexivity|exact Hin]. }
  apply in_map_iff in Hi. destruct Hi as (x & Ex & Hx). rewrite <- Ex. exact (F x Hx).
Qed.

Definition files_pass (fs : list (bytes * fileres)) : Prop :=
  fs <> [] /\ Forall (fun f => exists t, snd f = FTree t /\ all_true t) fs.

Lemma Forall_concat : forall (A : Type) (P : A -> Prop) (ll : list (list A)),
  Forall P (concat ll) <-> Forall (Forall P) ll.
Proof.
  intros A P ll. induction ll as [|l ll IH]; simpl.
  - split; constructor.
  - rewrite Forall_app, IH. split.
    + intros [X Y]. constructor; assumption.
    + intro H. inversion H; subst. split; assumption.
Qed.

Lemma run_files_ok_iff : forall fs, fs <> [] ->
  (run_ok (run_files quirks_off fs []) = true <->
   Forall (fun f => exists t, snd f = FTree t /\ all_true t) fs).
Proof.
  intros fs Hne. rewrite run_files_collect. split.
  - destruct (collect quirks_off fs) as [l| |] eqn:E; simpl; try discriminate.
    destruct (run_failed (calc_stats l)) eqn:RF; [discriminate|]. intros _.
    apply run_failed_spec in RF. unfold all_results in RF. rewrite Forall_concat in RF.
    apply collect_done in E. clear Hne. induction E as [|f fr fs l [_ (t & Ht & Hr)] E IH]; [constructor|].
    simpl in RF. inversion RF as [|? ? R1 R2]; subst. constructor; [|apply IH; exact R2].
    exists t. split; [exact Ht|]. eapply run_expr_all_pass; eassumption.
  - intro H. destruct (collect_all_trees fs) as (l & Hl).
    { intros f Hf. rewrite Forall_forall in H. destruct (H f Hf) as (t & Ht & At).
      exists t. split; [exact Ht|]. destruct (all_true_run_expr t At) as (r & Hr & _). exists r; exact Hr. }
    rewrite Hl. simpl.
    assert (RF : run_failed (calc_stats l) = false).
    { apply run_failed_spec. unfold all_results. rewrite Forall_concat.
      apply collect_done in Hl. clear Hne. induction Hl as [|f fr fs l [_ (t & Ht & Hr)] E IH]; [constructor|].
      inversion H as [|? ? (t' & Ht' & At) H2]; subst. simpl. constructor; [|apply IH; exact H2].
      rewrite Ht in Ht'. injection Ht' as <-.
      destruct (all_true_run_expr t At) as (r & Hr' & Fr). rewrite Hr in Hr'. injection Hr' as <-. exact Fr. }
    rewrite RF. reflexivity.
Qed.

(* ---------- getTestFiles: selection as a predicate on paths ---------- *)
Definition proj_file (e : bytes * list bytes * fileres) : bytes * fileres := (fst (fst e), snd e).
Definition not_hidden (d : bytes) : bool := negb (hidden d).

Lemma selected_hidden_dirs : forall p dirs r, forallb (fun d => negb (hidden d)) dirs = false -> selected (p, dirs, r) = false.
Proof. intros. unfold selected. simpl. rewrite H. reflexivity. Qed.

Lemma filter_hidden_nil : forall n isroot path dirs,
  forallb (fun d => negb (hidden d)) dirs = false ->
  filter selected (all_files isroot path dirs n) = [].
Proof.
  induction n using fsnode_ind2; intros isroot path dirs Hd.
  - simpl. rewrite selected_hidden_dirs by exact Hd. reflexivity.
  - simpl.
    assert (Hd' : forallb (fun d => negb (hidden d)) (if isroot then dirs else dirs ++ [nm]) = false).
    { destruct isroot; [exact Hd|]. rewrite forallb_app, Hd. reflexivity. }
    revert Hd'. generalize (if isroot then dirs else dirs ++ [nm]). intros dirs' Hd'.
    induction kids as [|k kids IH]; [reflexivity|].
    inversion H as [|? ? Hk Hrest]; subst.
    rewrite filter_app, (Hk false _ dirs' Hd'), (IH Hrest). reflexivity.
Qed.

Lemma select_off_gen : forall n isroot path dirs,
  forallb (fun d => negb (hidden d)) dirs = true ->
  select quirks_off isroot path n = map proj_file (filter selected (all_files isroot path dirs n)).
Proof.
  induction n using fsnode_ind2; intros isroot path dirs Hd.
  - simpl. unfold selected. simpl. rewrite Hd. simpl.
    destruct (has_suffix path test_suffix); reflexivity.
  - simpl select. simpl all_files. rewrite orb_false_r.
    destruct isroot; simpl negb; rewrite ?andb_false_r, ?andb_true_r.
    + induction kids as [|k kids IH]; [reflexivity|].
      inversion H as [|? ? Hk Hrest]; subst.
      rewrite filter_app, map_app, <- (Hk false _ dirs Hd), <- (IH Hrest). reflexivity.
    + destruct (hidden nm) eqn:Hh.
      * assert (Hd' : forallb (fun d => negb (hidden d)) (dirs ++ [nm]) = false).
        { rewrite forallb_app. simpl. rewrite Hh. simpl. apply andb_false_r. }
        clear H. induction kids as [|k kids IH]; [reflexivity|].
        rewrite filter_app, (filter_hidden_nil k false _ _ Hd'). simpl. exact IH.
      * assert (Hd' : forallb (fun d => negb (hidden d)) (dirs ++ [nm]) = true).
        { rewrite forallb_app. simpl. rewrite Hh, Hd. reflexivity. }
        induction kids as [|k kids IH]; [reflexivity|].
        inversion H as [|? ? Hk Hrest]; subst.
        rewrite filter_app, map_app, <- (Hk false _ _ Hd'), <- (IH Hrest). reflexivity.
Qed.

Lemma select_off_spec : forall path n, select quirks_off true path n = select_spec path n.
Proof. intros. unfold select_spec. apply (select_off_gen n true path []). reflexivity. Qed.

(* membership form: a file is run iff it is below the target, ends in _test.arrai
   and no directory strictly between the target and the file is hidden *)
Lemma select_off_in : forall path n p r,
  In (p, r) (select quirks_off true path n) <->
  exists dirs, In (p, dirs, r) (all_files true path [] n) /\
               forallb (fun d => negb (hidden d)) dirs = true /\ has_suffix p test_suffix = true.
Proof.
  intros. rewrite select_off_spec. unfold select_spec. rewrite in_map_iff. split.
  - intros ([[p' dirs] r'] & E & Hin). simpl in E. injection E as -> ->.
    apply filter_In in Hin. destruct Hin as [Hin Hs]. unfold selected in Hs. simpl in Hs.
    apply andb_prop in Hs. exists dirs. tauto.
  - intros (dirs & Hin & Hd & Hs). exists (p, dirs, r). split; [reflexivity|].
    apply filter_In. split; [exact Hin|]. unfold selected. simpl. rewrite Hd, Hs. reflexivity.
Qed.

(* ---------- the run as a whole ---------- *)
Theorem pass_iff_all_true : forall q tg,
  run_tests q tg = run_tests quirks_off tg ->
  (run_ok (run_tests q tg) = true <->
   exists path n, tg = Some (path, n) /\ files_pass (select_spec path n)).
Proof.
  intros q tg G. rewrite G. destruct tg as [[path n]|].
  - simpl. rewrite select_off_spec. destruct (select_spec path n) as [|f fs] eqn:E.
    + simpl. split; [discriminate|]. intros (p' & n' & E' & Hne & _). injection E' as <- <-.
      rewrite E in Hne. congruence.
    + assert (Hne : f :: fs <> []) by discriminate.
      rewrite (run_files_ok_iff (f :: fs) Hne). split.
      * intro H. exists path, n. rewrite E. split; [reflexivity|]. split; assumption.
      * intros (p' & n' & E' & _ & H). injection E' as <- <-. rewrite E in H. exact H.
  - simpl. split; [discriminate|]. intros (p & n & E & _). discriminate.
Qed.

Definition file_leaves (f : bytes * fileres) : nat :=
  match snd f with FTree t => length (leaves_spec t) | _ => 0%nat end.

Lemma run_tests_done : forall q path n F s b,
  run_tests q (Some (path, n)) = RunDone F s b ->
  collect q (select q true path n) = CDone F /\ s = calc_stats F /\ b = run_failed s.
Proof.
  intros q path n F s b H. simpl in H.
  assert (H' : run_files q (select q true path n) [] = RunDone F s b).
  { destruct (select q true path n); [discriminate|exact H]. }
  rewrite run_files_collect in H'. destruct (collect q (select q true path n)); try discriminate.
  simpl in H'. injection H' as <- <- <-. auto.
Qed.

Theorem counts_add_up : forall q tg F s b,
  run_tests q tg = RunDone F s b ->
  s = calc_stats F /\ b = run_failed s /\
  (st_passed s + st_failed s + st_invalid s + st_ignored s = st_total s)%nat /\
  st_total s = length (all_results F).
Proof.
  intros q [[path n]|] F s b H; [|discriminate].
  apply run_tests_done in H. destruct H as (_ & Hs & Hb). subst.
  destruct (calc_stats_spec F) as (A & _ & _ & _ & _ & S4). unfold sum4 in S4.
  split; [reflexivity|]. split; [reflexivity|]. split; [lia|exact A].
Qed.

Lemma collect_total : forall fs l, collect quirks_off fs = CDone l ->
  length (all_results l) = list_sum (map file_leaves fs).
Proof.
  intros fs l H. apply collect_done in H. induction H as [|f fr fs l [_ (t & Ht & Hr)] E IH]; [reflexivity|].
  unfold all_results in *. simpl. rewrite app_length, IH. f_equal.
  unfold file_leaves. rewrite Ht.
  pose proof (run_expr_off_outcomes t) as H. rewrite Hr in H. destruct H as [H _].
  rewrite <- (map_length snd), H, map_length. reflexivity.
Qed.

Theorem total_is_number_of_leaves : forall q path n F s b,
  run_tests q (Some (path, n)) = run_tests quirks_off (Some (path, n)) ->
  run_tests q (Some (path, n)) = RunDone F s b ->
  st_total s = list_sum (map file_leaves (select_spec path n)).
Proof.
  intros q path n F s b G H. rewrite G in H.
  destruct (counts_add_up _ _ _ _ _ H) as (_ & _ & _ & T). rewrite T.
  apply run_tests_done in H. destruct H as (C & _). rewrite select_off_spec in C.
  apply collect_total. exact C.
Qed.

Definition trees_ok (fs : list (bytes * fileres)) : Prop :=
  Forall (fun f => match snd f with FTree t => names_ok t = true /\ canonical t = true | _ => True end) fs.

Definition file_listed (f : bytes * fileres) (fr : bytes * list (bytes * outcome)) : Prop :=
  fst fr = fst f /\ exists t, snd f = FTree t /\ snd fr = map leaf_result (leaves_spec t).

Theorem report_lists_every_leaf_once : forall q path n F s b,
  run_tests q (Some (path, n)) = run_tests quirks_off (Some (path, n)) ->
  trees_ok (select_spec path n) ->
  run_tests q (Some (path, n)) = RunDone F s b ->
  Forall2 file_listed (select_spec path n) F.
Proof.
  intros q path n F s b G Hok H. rewrite G in H.
  apply run_tests_done in H. destruct H as (C & _). rewrite select_off_spec in C.
  apply collect_done in C. revert Hok. unfold trees_ok.
  induction C as [|f fr fs l [Hp (t & Ht & Hr)] E IH]; intro Hok; [constructor|].
  inversion Hok as [|? ? H1 H2]; subst. constructor; [|apply IH; exact H2].
  split; [exact Hp|]. exists t. split; [exact Ht|].
  rewrite Ht in H1. destruct H1 as [N C]. rewrite (run_expr_off_spec t N C) in Hr.
  injection Hr as <-. reflexivity.
Qed.

Theorem unevaluable_file_fails_run : forall q path n f,
  run_tests q (Some (path, n)) = run_tests quirks_off (Some (path, n)) ->
  In f (select_spec path n) -> (forall t, snd f <> FTree t) ->
  run_ok (run_tests q (Some (path, n))) = false.
Proof.
  intros q path n f G Hin Hf.
  destruct (run_ok (run_tests q (Some (path, n)))) eqn:E; [|reflexivity].
  apply (pass_iff_all_true q _ G) in E. destruct E as (p' & n' & E' & _ & H). injection E' as <- <-.
  rewrite Forall_forall in H. destruct (H f Hin) as (t & Ht & _). exfalso. exact (Hf t Ht).
Qed.

Theorem nontrue_leaf_fails_run : forall q path n f t pl,
  run_tests q (Some (path, n)) = run_tests quirks_off (Some (path, n)) ->
  In f (select_spec path n) -> snd f = FTree t -> In pl (leaves_spec t) -> snd pl <> LTrue ->
  run_ok (run_tests q (Some (path, n))) = false.
Proof.
  intros q path n f t pl G Hin Ht Hpl Hk.
  destruct (run_ok (run_tests q (Some (path, n)))) eqn:E; [|reflexivity].
  apply (pass_iff_all_true q _ G) in E. destruct E as (p' & n' & E' & _ & H). injection E' as <- <-.
  rewrite Forall_forall in H. destruct (H f Hin) as (t' & Ht' & At). rewrite Ht in Ht'. injection Ht' as <-.
  unfold all_true in At. rewrite Forall_forall in At. exfalso. exact (Hk (At pl Hpl)).
Qed.

Theorem walk_visits_exactly_the_leaves : forall q t,
  names_ok t = true -> walk q t [] = walk quirks_off t [] ->
  walk q t [] = map (fun pl => (render (fst pl), Some (snd pl))) (leaves_spec t).
Proof. intros q t Hn G. rewrite G. apply walk_off_paths. exact Hn. Qed.

(* ---------- witnesses ---------- *)
Definition only_sparse := {| q_test_sparse_array_nil := true; q_test_offset_paths := false; q_test_hidden_root := false |}.
Definition only_offset := {| q_test_sparse_array_nil := false; q_test_offset_paths := true; q_test_hidden_root := false |}.
Definition only_hidden_root := {| q_test_sparse_array_nil := false; q_test_offset_paths := false; q_test_hidden_root := true |}.

Definition t_true := RLeaf LTrue.
Definition w_sparse := RArray 0 [Some t_true; None; Some t_true].            (* [true, , true] *)
Definition w_offset := RArray 3 [Some t_true; Some t_true].                  (* 3\[true, true] *)
Definition nm_file : bytes := [97;95;116;101;115;116;46;97;114;114;97;105].  (* a_test.arrai *)
Definition w_dir (name : bytes) (t : rtree) := FDir name [FFile nm_file (FTree t)].
Definition p_t : bytes := [47;116].        (* /t *)
Definition p_ht : bytes := [47;46;116].    (* /.t *)

Lemma all_true_dec_forall : forall t, forallb (fun pl => match snd pl with LTrue => true | _ => false end) (leaves_spec t) = true -> all_true t.
Proof.
  intros t H. unfold all_true. rewrite forallb_forall in H. rewrite Forall_forall. intros pl Hin.
  specialize (H pl Hin). destruct (snd pl); try discriminate. reflexivity.
Qed.

Lemma sparse_refuted :
  exists tg path n, tg = Some (path, n) /\ files_pass (select_spec path n) /\ run_ok (run_tests only_sparse tg) = false.
Proof.
  exists (Some (p_t, w_dir [116] w_sparse)), p_t, (w_dir [116] w_sparse). split; [reflexivity|]. split; [|vm_compute; reflexivity].
  split; [vm_compute; discriminate|]. vm_compute select_spec. constructor; [|constructor].
  eexists. split; [reflexivity|]. apply all_true_dec_forall. vm_compute. reflexivity.
Qed.

Lemma offset_refuted :
  names_ok w_offset = true /\ canonical w_offset = true /\
  run_expr only_offset w_offset <> Ok (map leaf_result (leaves_spec w_offset)).
Proof. split; [reflexivity|]. split; [reflexivity|]. vm_compute. discriminate. Qed.

Lemma hidden_root_refuted :
  exists tg path n, tg = Some (path, n) /\ files_pass (select_spec path n) /\ run_ok (run_tests only_hidden_root tg) = false.
Proof.
  exists (Some (p_ht, w_dir [46;116] t_true)), p_ht, (w_dir [46;116] t_true). split; [reflexivity|]. split; [|vm_compute; reflexivity].
  split; [vm_compute; discriminate|]. vm_compute select_spec. constructor; [|constructor].
  eexists. split; [reflexivity|]. apply all_true_dec_forall. vm_compute. reflexivity.
Qed.

(* a non-trivial run inside the guard of the Go quirks: nested containers, an
   offset-free dense array, a hidden sub-directory and a non-test file *)
Definition ex_tree := RTuple [([97], RArray 0 [Some t_true; Some (RDict [({| dk_str := true; dk_text := [107] |}, t_true)])]); ([98], RLeaf LFalse)].
Definition ex_fs := FDir [116] [FFile nm_file (FTree ex_tree); FDir [46;104] [FFile nm_file FEvalErr]; FFile [120] FCompileErr].
Lemma nonvacuous :
  run_tests quirks_go (Some (p_t, ex_fs)) = run_tests quirks_off (Some (p_t, ex_fs)) /\
  trees_ok (select_spec p_t ex_fs) /\
  (exists F s, run_tests quirks_go (Some (p_t, ex_fs)) = RunDone F s true /\ st_total s = 3%nat /\ st_passed s = 2%nat /\ st_failed s = 1%nat).
Proof.
  split; [vm_compute; reflexivity|]. split.
  - vm_compute select_spec. constructor; [|constructor]. simpl. split; reflexivity.
  - eexists. eexists. split; [vm_compute; reflexivity|]. simpl. auto.
Qed.
