(* Property C09, general theorem: for patterns nested to any depth (no conditional-accessor items),
   bind_pat succeeds with bindings sc  iff  the pattern, read as an expression under sc, rebuilds the value
   and sc binds exactly the names of the pattern (Eval/Rebuild.v). *)
From Arrai Require Import Base.Val Spec.SetAlg Eval.Interp Eval.Rebuild
  Proofs.ValOrder Proofs.SetAlgP Proofs.PatternP Proofs.FuelP.

(* ---------- the named loops are the loops of bindF ---------- *)

Lemma bindF_arr ev bd rho items v :
  bindF ev bd rho (PArr items) v =
  (do d <- as_data v;
   match dense_array d with
   | None => Err
   | Some xs => if (1 <? count_extras items)%nat then Err
                else arr_go ev bd rho (existsb is_fallback items) items xs []
   end).
Proof. reflexivity. Qed.

Lemma bindF_tup ev bd rho attrs v :
  bindF ev bd rho (PTup attrs) v =
  (do d <- as_data v;
   match d with
   | VTup tv =>
       if (1 <? length (filter (fun a : name * pitem => match snd a with PExtra _ => true | _ => false end) attrs))%nat then Err
       else tup_go ev bd rho (existsb (fun a : name * pitem => is_fallback (snd a)) attrs) tv attrs tv None []
   | _ => Err
   end).
Proof. reflexivity. Qed.

Lemma bindF_dict ev bd rho entries v :
  bindF ev bd rho (PDict entries) v =
  (do d <- as_data v;
   match d with
   | VSet l =>
       match dict_entries l with
       | None => Err
       | Some es =>
           if (1 <? length (filter (fun a : expr * pitem => match snd a with PExtra _ => true | _ => false end) entries))%nat then Err
           else dict_go ev bd rho (existsb (fun a : expr * pitem => is_fallback (snd a)) entries) entries es None []
       end
   | _ => Err
   end).
Proof. reflexivity. Qed.

Lemma bindF_set ev bd rho items v :
  bindF ev bd rho (PSet items) v =
  (do d <- as_data v;
   match d with
   | VSet l => set_go ev bd rho items l None
   | _ => Err
   end).
Proof. reflexivity. Qed.

Lemma bindF_exprs ev bd rho es v :
  bindF ev bd rho (PExprs es) v = (do b <- as_data v; exprs_go ev rho b es).
Proof. reflexivity. Qed.

Lemma bind_pat_S n rho p v : bind_pat (S n) rho p v = bindF (eval n) (bind_pat n) rho p v.
Proof. reflexivity. Qed.

(* ---------- environments ---------- *)

(* b gives every name bound in a the same value *)
Definition ext (a b : env) : Prop := forall x w, env_get x a = Some w -> env_get x b = Some w.
Definition data_only (sc : env) : Prop := forall x w, In (x, w) sc -> exists d, w = D d.
Definition is_data (v : value) : Prop := exists d, v = D d.

Lemma ext_refl a : ext a a.
Proof. intros x w H; exact H. Qed.

Lemma ext_trans a b c : ext a b -> ext b c -> ext a c.
Proof. intros H1 H2 x w H. apply H2, H1, H. Qed.

Lemma ext_nil a : ext [] a.
Proof. intros x w H. discriminate H. Qed.

Lemma name_eqb_neq x y : name_eqb x y = false -> x <> y.
Proof. intros E ->. rewrite name_eqb_refl in E. discriminate. Qed.

Lemma env_get_In x sc w : env_get x sc = Some w -> In (x, w) sc.
Proof.
  induction sc as [|[y u] sc IH]; simpl; [discriminate|].
  destruct (name_eqb x y) eqn:E.
  - apply name_eqb_eq in E. subst. intros [= ->]. left; reflexivity.
  - intros H. right. apply IH, H.
Qed.

Lemma env_get_dom x sc : env_get x sc <> None <-> In x (map fst sc).
Proof.
  induction sc as [|[y u] sc IH]; simpl; [split; [intros H; congruence | intros []]|].
  destruct (name_eqb x y) eqn:E.
  - apply name_eqb_eq in E. subst. split; [intros _; left; reflexivity | intros _; discriminate].
  - apply name_eqb_neq in E. rewrite IH. split; [intros H; right; exact H | intros [H|H]; [congruence | exact H]].
Qed.

Lemma env_get_none x sc : env_get x sc = None <-> ~ In x (map fst sc).
Proof.
  rewrite <- env_get_dom. destruct (env_get x sc); split; intros H; try congruence.
  exfalso. apply H. discriminate.
Qed.

Lemma env_get_nodup x w sc : NoDup (map fst sc) -> In (x, w) sc -> env_get x sc = Some w.
Proof.
  induction sc as [|[y u] sc IH]; simpl; [intros _ []|].
  intros Hnd [Heq|Hin].
  - injection Heq as -> ->. rewrite name_eqb_refl. reflexivity.
  - inversion Hnd as [|? ? Hnot Hnd']; subst.
    destruct (name_eqb x y) eqn:E; [|apply IH; assumption].
    apply name_eqb_eq in E. subst. exfalso. apply Hnot. apply (in_map fst) in Hin. exact Hin.
Qed.

Lemma env_get_app x a b :
  env_get x (a ++ b) = match env_get x a with Some w => Some w | None => env_get x b end.
Proof.
  induction a as [|[y u] a IH]; simpl; [reflexivity|]. destruct (name_eqb x y); [reflexivity | exact IH].
Qed.

(* matched update: what is in the result *)
Lemma mu_in t : forall s r b, env_matched_update s t = Some r -> In b r -> In b s \/ In b t.
Proof.
  induction t as [|[y u] t IH]; intros s r b; simpl.
  - intros [= <-] H. left; exact H.
  - destruct (env_get y s) as [[a|? ? ?]|] eqn:Ey.
    + destruct u as [c|? ? ?]; [|discriminate]. destruct (veqb a c); [|discriminate].
      intros H Hb. destruct (IH _ _ _ H Hb) as [K|K]; [left | right; right]; exact K.
    + discriminate.
    + intros H Hb. destruct (IH _ _ _ H Hb) as [[K|K]|K]; [right; left; exact K | left; exact K | right; right; exact K].
Qed.

Lemma mu_gets t : forall s r x w, env_matched_update s t = Some r -> In (x, w) t -> env_get x r = Some w.
Proof.
  induction t as [|[y u] t IH]; intros s r x w; simpl; [intros _ []|].
  destruct (env_get y s) as [[a|? ? ?]|] eqn:Ey.
  - destruct u as [c|? ? ?]; [|discriminate]. destruct (veqb a c) eqn:Ev; [|discriminate].
    intros H [Heq|Hin]; [|eapply IH; eauto].
    injection Heq as <- <-. apply veqb_eq in Ev. subst c.
    eapply matched_update_preserves; eauto.
  - discriminate.
  - intros H [Heq|Hin]; [|eapply IH; eauto].
    injection Heq as <- <-. eapply matched_update_preserves; [exact H|].
    rewrite env_get_cons, name_eqb_refl. reflexivity.
Qed.

Lemma mu_ext_l s t r : env_matched_update s t = Some r -> ext s r.
Proof. intros H x w Hx. eapply matched_update_preserves; eauto. Qed.

Lemma mu_ext_r s t r : env_matched_update s t = Some r -> ext t r.
Proof. intros H x w Hx. eapply mu_gets; [exact H|]. apply env_get_In, Hx. Qed.

Lemma mu_dom s t r : env_matched_update s t = Some r ->
  forall x, In x (map fst r) <-> In x (map fst s) \/ In x (map fst t).
Proof.
  intros H x. split.
  - intros Hx. apply in_map_iff in Hx as ([y w] & <- & Hin). simpl.
    destruct (mu_in _ _ _ _ H Hin) as [K|K]; [left | right]; apply (in_map fst) in K; exact K.
  - intros [Hx|Hx].
    + apply env_get_dom. apply env_get_dom in Hx. destruct (env_get x s) as [w|] eqn:E; [|congruence].
      rewrite (mu_ext_l _ _ _ H _ _ E). discriminate.
    + apply in_map_iff in Hx as ([y w] & <- & Hin). simpl. apply env_get_dom.
      rewrite (mu_gets _ _ _ _ _ H Hin). discriminate.
Qed.

Lemma mu_nodup t : forall s r, env_matched_update s t = Some r -> NoDup (map fst s) -> NoDup (map fst r).
Proof.
  induction t as [|[y u] t IH]; intros s r; simpl.
  - intros [= <-] H; exact H.
  - destruct (env_get y s) as [[a|? ? ?]|] eqn:Ey.
    + destruct u as [c|? ? ?]; [|discriminate]. destruct (veqb a c); [|discriminate]. apply IH.
    + discriminate.
    + intros H Hnd. apply (IH _ _ H). simpl. constructor; [|exact Hnd]. apply env_get_none, Ey.
Qed.

Lemma mu_data s t r : env_matched_update s t = Some r -> data_only s -> data_only t -> data_only r.
Proof.
  intros H Hs Ht x w Hin. destruct (mu_in _ _ _ _ H Hin) as [K|K]; [eapply Hs | eapply Ht]; eauto.
Qed.

(* ... and when it succeeds: both sides agree with one assignment, the new bindings are data *)
Lemma mu_complete t : forall acc s,
  ext acc s -> (forall x w, In (x, w) t -> env_get x s = Some w) -> data_only t ->
  exists r, env_matched_update acc t = Some r /\ ext r s.
Proof.
  induction t as [|[y u] t IH]; intros acc s Hacc Ht Hd; simpl.
  - exists acc. split; [reflexivity | exact Hacc].
  - assert (Hy : env_get y s = Some u) by (apply Ht; left; reflexivity).
    destruct (Hd y u (or_introl eq_refl)) as (c & ->).
    assert (Ht' : forall x w, In (x, w) t -> env_get x s = Some w) by (intros; apply Ht; right; assumption).
    assert (Hd' : data_only t) by (intros x w Hin; apply (Hd x w); right; exact Hin).
    destruct (env_get y acc) as [w|] eqn:Ey.
    + apply Hacc in Ey. rewrite Hy in Ey. injection Ey as <-.
      assert (E : veqb c c = true) by (apply veqb_eq; reflexivity). rewrite E.
      apply IH; assumption.
    + apply IH; [|assumption|assumption].
      intros x w. rewrite env_get_cons. destruct (name_eqb x y) eqn:E; [|apply Hacc].
      apply name_eqb_eq in E. subst. intros [= <-]. exact Hy.
Qed.

(* ---------- one step of a loop: from acc to sc, binding the names N, establishing P ---------- *)

Definition St (acc : env) : Prop := NoDup (map fst acc) /\ data_only acc.

Definition step_ok (acc sc : env) (N : list name) (P : env -> Prop) : Prop :=
  ext acc sc /\ (forall s, ext sc s -> P s) /\ St sc /\
  (forall z, In z (map fst sc) <-> In z (map fst acc) \/ In z N).

Lemma St_nil : St [].
Proof. split; [constructor | intros x w []]. Qed.

Lemma step_ok_refl acc (P : env -> Prop) : St acc -> (forall s, P s) -> step_ok acc acc [] P.
Proof.
  intros Hst HP. split; [apply ext_refl|]. split; [intros s _; apply HP|]. split; [exact Hst|].
  intros z. simpl. tauto.
Qed.

Lemma step_ok_St acc sc N P : step_ok acc sc N P -> St sc.
Proof. intros H. apply H. Qed.

Lemma step_ok_comp acc acc' sc N1 N2 (P1 P2 : env -> Prop) :
  step_ok acc acc' N1 P1 -> step_ok acc' sc N2 P2 -> step_ok acc sc (N1 ++ N2) (fun s => P1 s /\ P2 s).
Proof.
  intros (E1 & Q1 & S1 & D1) (E2 & Q2 & S2 & D2).
  split; [eapply ext_trans; eauto|]. split.
  - intros s Hs. split; [apply Q1; eapply ext_trans; eauto | apply Q2; exact Hs].
  - split; [exact S2|]. intros z. rewrite D2, D1, in_app_iff. tauto.
Qed.

Lemma step_ok_weaken acc sc N N' (P Q : env -> Prop) :
  (forall s, P s -> Q s) -> (forall z, In z N <-> In z N') -> step_ok acc sc N P -> step_ok acc sc N' Q.
Proof.
  intros HPQ HN (E & HP & S & Dm). split; [exact E|]. split; [intros s Hs; apply HPQ, HP, Hs|].
  split; [exact S|]. intros z. rewrite Dm, HN. tauto.
Qed.

(* ---------- soundness: a successful match rebuilds the value ---------- *)

Definition good (rho : env) (p : pat) (v : value) (sc : env) : Prop :=
  (forall s, ext sc s -> rebuilds rho s p v) /\ NoDup (map fst sc) /\
  (forall x, In x (map fst sc) <-> In x (pat_names p)) /\ (is_data v -> data_only sc).

Definition Sound (n : nat) : Prop :=
  forall rho p v sc, pat_nofb p = true -> bind_pat n rho p v = Ok sc -> good rho p v sc.

Lemma plain_count0 items : forallb is_plain items = true -> count_extras items = 0%nat.
Proof.
  induction items as [|it items IH]; [reflexivity|]. simpl. intros H. apply andb_true_iff in H as [H1 H].
  destruct it as [q [d|]|o]; try discriminate. exact (IH H).
Qed.

Lemma count_extras_app a b : count_extras (a ++ b) = (count_extras a + count_extras b)%nat.
Proof. unfold count_extras. rewrite filter_app, app_length. reflexivity. Qed.

Lemma arr_decomp items : (count_extras items <= 1)%nat -> forallb item_nofb items = true ->
  forallb is_plain items = true \/
  exists pre o suf, items = pre ++ PExtra o :: suf /\ forallb is_plain pre = true /\ forallb is_plain suf = true.
Proof.
  induction items as [|it items IH]; intros Hc Hnf; [left; reflexivity|].
  simpl in Hnf. apply andb_true_iff in Hnf as [Hn1 Hnf].
  destruct it as [q [d|]|o]; [discriminate| |].
  - assert (Hc' : (count_extras items <= 1)%nat) by exact Hc.
    destruct (IH Hc' Hnf) as [Hp|(pre & o & suf & -> & Hp & Hs)].
    + left. exact Hp.
    + right. exists (PItem q None :: pre), o, suf. repeat split; assumption.
  - right. exists [], o, items. split; [reflexivity|]. split; [reflexivity|].
    assert (Hc0 : count_extras items = 0%nat) by (unfold count_extras in *; simpl in Hc; lia).
    clear -Hc0 Hnf. induction items as [|it items IH]; [reflexivity|].
    simpl in Hnf. apply andb_true_iff in Hnf as [Hn1 Hnf].
    destruct it as [q [d|]|o]; try discriminate; unfold count_extras in *; simpl in Hc0; try discriminate.
    simpl. apply IH; assumption.
Qed.

(* the same for tuple attributes / dict entries *)
Definition is_extra_snd {A} (a : A * pitem) : bool := match snd a with PExtra _ => true | _ => false end.

Lemma snd_decomp {A} (l : list (A * pitem)) :
  (length (filter is_extra_snd l) <= 1)%nat -> forallb (fun a => item_nofb (snd a)) l = true ->
  forallb (fun a => is_plain (snd a)) l = true \/
  exists pre a0 o suf, l = pre ++ (a0, PExtra o) :: suf /\
    forallb (fun a => is_plain (snd a)) pre = true /\ forallb (fun a => is_plain (snd a)) suf = true.
Proof.
  induction l as [|[a0 it] l IH]; intros Hc Hnf; [left; reflexivity|].
  simpl in Hnf. apply andb_true_iff in Hnf as [Hn1 Hnf].
  destruct it as [q [d|]|o]; [discriminate| |].
  - assert (Hc' : (length (filter is_extra_snd l) <= 1)%nat) by exact Hc.
    destruct (IH Hc' Hnf) as [Hp|(pre & b0 & o & suf & -> & Hp & Hs)].
    + left. exact Hp.
    + right. exists ((a0, PItem q None) :: pre), b0, o, suf. repeat split; assumption.
  - right. exists [], a0, o, l. split; [reflexivity|]. split; [reflexivity|].
    assert (Hc0 : length (filter is_extra_snd l) = 0%nat) by (simpl in Hc; lia).
    clear -Hc0 Hnf. induction l as [|[b0 it] l IH]; [reflexivity|].
    simpl in Hnf. apply andb_true_iff in Hnf as [Hn1 Hnf].
    destruct it as [q [d|]|o]; try discriminate; simpl in Hc0; try discriminate.
    simpl. apply IH; assumption.
Qed.

Section SoundStep.
Variable n : nat.
Hypothesis HS : Sound n.
Variable rho : env.

Lemma bind_item_sound acc q x acc' :
  pat_nofb q = true -> St acc -> bind_item (bind_pat n) rho acc q (D x) = Ok acc' ->
  step_ok acc acc' (pat_names q) (fun s => rebuilds rho s q (D x)).
Proof.
  intros Hnf [Hnd Hda] H. unfold bind_item in H.
  destruct (bind_pat n rho q (D x)) as [sc0| | |] eqn:Eb; simpl in H; try discriminate.
  destruct (env_matched_update acc sc0) as [r|] eqn:Eu; [|discriminate]. injection H as <-.
  destruct (HS _ _ _ _ Hnf Eb) as (Hrb & Hnd0 & Hdom0 & Hd0).
  split; [eapply mu_ext_l; eauto|]. split.
  - intros s Hs. apply Hrb. eapply ext_trans; [eapply mu_ext_r; eauto | exact Hs].
  - split.
    + split; [eapply mu_nodup; eauto | eapply mu_data; eauto]. apply Hd0. eexists; reflexivity.
    + intros z. rewrite (mu_dom _ _ _ Eu), Hdom0. tauto.
Qed.

Lemma bind_rest_sound acc o w acc' :
  St acc ->
  match o with Some x => bind_item (bind_pat n) rho acc (PVar x) (D w) | None => Ok acc end = Ok acc' ->
  step_ok acc acc' (item_names (PExtra o)) (fun s => rest_rb s o (D w)).
Proof.
  intros Hst H. destruct o as [r|].
  - eapply step_ok_weaken; [| |eapply (bind_item_sound acc (PVar r) w acc' eq_refl Hst H)].
    + intros s Hr. inversion Hr; subst. assumption.
    + intros z. reflexivity.
  - injection H as <-. apply step_ok_refl; [exact Hst | intros; exact I].
Qed.

(* ----- arrays ----- *)

Lemma arr_prefix_sound hb : forall pre rest xs acc sc,
  forallb is_plain pre = true -> forallb item_nofb pre = true -> St acc ->
  arr_go (eval n) (bind_pat n) rho hb (pre ++ rest) xs acc = Ok sc ->
  exists a ys acc', xs = a ++ ys /\
    step_ok acc acc' (flat_map item_names pre) (fun s => Forall2 (item_rb (rebuilds rho s)) pre a) /\
    arr_go (eval n) (bind_pat n) rho hb rest ys acc' = Ok sc.
Proof.
  induction pre as [|it pre IH]; intros rest xs acc sc Hpl Hnf Hst H.
  - exists [], xs, acc. split; [reflexivity|]. split; [|exact H].
    apply step_ok_refl; [exact Hst | intros; constructor].
  - simpl in Hpl, Hnf. apply andb_true_iff in Hpl as [Hp1 Hpl]. apply andb_true_iff in Hnf as [Hn1 Hnf].
    destruct it as [q [d|]|o]; try discriminate.
    cbn [app arr_go] in H. destruct xs as [|x xs]; [discriminate|].
    destruct (bind_item (bind_pat n) rho acc q (D x)) as [acc1| | |] eqn:Eb; simpl in H; try discriminate.
    pose proof (bind_item_sound _ _ _ _ Hn1 Hst Eb) as S1.
    destruct (IH rest xs acc1 sc Hpl Hnf (step_ok_St _ _ _ _ S1) H) as (a & ys & acc' & -> & S2 & Hgo).
    exists (x :: a), ys, acc'. split; [reflexivity|]. split; [|exact Hgo].
    eapply step_ok_weaken; [| |exact (step_ok_comp _ _ _ _ _ _ _ S1 S2)].
    + intros s [H1 H2]. constructor; [constructor; exact H1 | exact H2].
    + intros z. reflexivity.
Qed.

Lemma arr_go_sound hb items xs sc :
  (count_extras items <= 1)%nat -> forallb item_nofb items = true ->
  arr_go (eval n) (bind_pat n) rho hb items xs [] = Ok sc ->
  step_ok [] sc (flat_map item_names items) (fun s => arr_rb (rebuilds rho s) s items xs).
Proof.
  intros Hc Hnf H. destruct (arr_decomp _ Hc Hnf) as [Hp|(pre & o & suf & -> & Hp & Hs)].
  - rewrite <- (app_nil_r items) in H.
    destruct (arr_prefix_sound hb _ _ _ _ _ Hp Hnf St_nil H) as (a & ys & acc' & -> & S1 & Hgo).
    cbn [arr_go] in Hgo. destruct ys; [|destruct hb; discriminate]. injection Hgo as <-.
    rewrite app_nil_r. eapply step_ok_weaken; [| |exact S1].
    + intros s F. apply ARPlain. exact F.
    + intros z. reflexivity.
  - rewrite forallb_app in Hnf. apply andb_true_iff in Hnf as [Hnf1 Hnf2]. simpl in Hnf2.
    destruct (arr_prefix_sound hb _ _ _ _ _ Hp Hnf1 St_nil H) as (a & ys & acc1 & -> & S1 & Hgo).
    cbn [arr_go] in Hgo.
    destruct (length ys <? length suf)%nat eqn:El; [discriminate|].
    set (take := (length ys - length suf)%nat) in *.
    match type of Hgo with (do acc' <- ?B; _) = _ => destruct B as [acc2| | |] eqn:Er; simpl in Hgo; try discriminate end.
    pose proof (bind_rest_sound _ _ _ _ (step_ok_St _ _ _ _ S1) Er) as S2.
    rewrite <- (app_nil_r suf) in Hgo.
    destruct (arr_prefix_sound hb _ _ _ _ _ Hs Hnf2 (step_ok_St _ _ _ _ S2) Hgo) as (b & zs & acc3 & Eb & S3 & Hgo3).
    cbn [arr_go] in Hgo3. destruct zs; [|destruct hb; discriminate]. injection Hgo3 as <-.
    rewrite app_nil_r in Eb.
    eapply step_ok_weaken; [| |exact (step_ok_comp _ _ _ _ _ _ _ S1 (step_ok_comp _ _ _ _ _ _ _ S2 S3))].
    + intros s (F1 & Hr & F3).
      pose proof (ARRest _ _ pre o suf a (firstn take ys) b F1 F3 Hr) as K.
      rewrite <- Eb, firstn_skipn in K. exact K.
    + intros z. rewrite flat_map_app. reflexivity.
Qed.

(* ----- tuples ----- *)

Lemma tup_prefix_sound hb tv : forall pre rest rem extra acc sc,
  forallb (fun a : name * pitem => is_plain (snd a)) pre = true ->
  forallb (fun a : name * pitem => item_nofb (snd a)) pre = true -> St acc ->
  tup_go (eval n) (bind_pat n) rho hb tv (pre ++ rest) rem extra acc = Ok sc ->
  exists acc',
    step_ok acc acc' (flat_map (fun a : name * pitem => item_names (snd a)) pre)
            (fun s => Forall (attr_rb (rebuilds rho s) tv) pre) /\
    tup_go (eval n) (bind_pat n) rho hb tv rest (remaining_attrs (map fst pre) rem) extra acc' = Ok sc.
Proof.
  induction pre as [|[n0 it] pre IH]; intros rest rem extra acc sc Hpl Hnf Hst H.
  - exists acc. split; [|exact H]. apply step_ok_refl; [exact Hst | intros; constructor].
  - simpl in Hpl, Hnf. apply andb_true_iff in Hpl as [Hp1 Hpl]. apply andb_true_iff in Hnf as [Hn1 Hnf].
    destruct it as [q [d|]|o]; try discriminate.
    cbn [app tup_go] in H. destruct (tget n0 tv) as [x|] eqn:Eg; [|discriminate].
    destruct (bind_item (bind_pat n) rho acc q (D x)) as [acc1| | |] eqn:Eb; simpl in H; try discriminate.
    pose proof (bind_item_sound _ _ _ _ Hn1 Hst Eb) as S1.
    destruct (IH rest _ extra acc1 sc Hpl Hnf (step_ok_St _ _ _ _ S1) H) as (acc' & S2 & Hgo).
    exists acc'. split; [|exact Hgo].
    eapply step_ok_weaken; [| |exact (step_ok_comp _ _ _ _ _ _ _ S1 S2)].
    + intros s [H1 H2]. constructor; [econstructor; eauto | exact H2].
    + intros z. reflexivity.
Qed.

Lemma remaining_attrs_app a b tv : remaining_attrs (a ++ b) tv = remaining_attrs b (remaining_attrs a tv).
Proof. unfold remaining_attrs. apply fold_left_app. Qed.

Lemma tup_go_sound hb tv attrs sc :
  (length (filter is_extra_snd attrs) <= 1)%nat ->
  forallb (fun a : name * pitem => item_nofb (snd a)) attrs = true ->
  tup_go (eval n) (bind_pat n) rho hb tv attrs tv None [] = Ok sc ->
  step_ok [] sc (flat_map (fun a : name * pitem => item_names (snd a)) attrs)
          (fun s => tup_rb (rebuilds rho s) s attrs tv).
Proof.
  intros Hc Hnf H. destruct (snd_decomp _ Hc Hnf) as [Hp|(pre & n0 & o & suf & -> & Hp & Hs)].
  - rewrite <- (app_nil_r attrs) in H.
    destruct (tup_prefix_sound hb tv _ _ _ _ _ _ Hp Hnf St_nil H) as (acc' & S1 & Hgo).
    cbn [tup_go] in Hgo.
    destruct (remaining_attrs (map fst attrs) tv) eqn:Er; [|destruct hb; discriminate]. injection Hgo as <-.
    eapply step_ok_weaken; [| |exact S1].
    + intros s F. apply TRPlain; assumption.
    + intros z. reflexivity.
  - rewrite forallb_app in Hnf. apply andb_true_iff in Hnf as [Hnf1 Hnf2]. simpl in Hnf2.
    destruct (tup_prefix_sound hb tv _ _ _ _ _ _ Hp Hnf1 St_nil H) as (acc1 & S1 & Hgo).
    cbn [tup_go] in Hgo. rewrite <- (app_nil_r suf) in Hgo.
    destruct (tup_prefix_sound hb tv _ _ _ _ _ _ Hs Hnf2 (step_ok_St _ _ _ _ S1) Hgo) as (acc2 & S2 & Hgo2).
    cbn [tup_go] in Hgo2. rewrite <- remaining_attrs_app, <- map_app in Hgo2.
    pose proof (bind_rest_sound _ _ _ _ (step_ok_St _ _ _ _ S2) Hgo2) as S3.
    eapply step_ok_weaken; [| |exact (step_ok_comp _ _ _ _ _ _ _ S1 (step_ok_comp _ _ _ _ _ _ _ S2 S3))].
    + intros s (F1 & F2 & Hr). apply TRRest; [apply Forall_app; split; assumption | exact Hr].
    + intros z. rewrite flat_map_app. simpl. rewrite !in_app_iff. tauto.
Qed.

(* ----- dicts ----- *)

Lemma dict_prefix_sound hb : forall pre rest rem extra acc sc,
  forallb (fun a : expr * pitem => is_plain (snd a)) pre = true ->
  forallb (fun a : expr * pitem => item_nofb (snd a)) pre = true -> St acc ->
  dict_go (eval n) (bind_pat n) rho hb (pre ++ rest) rem extra acc = Ok sc ->
  exists rem' acc',
    step_ok acc acc' (flat_map (fun a : expr * pitem => item_names (snd a)) pre)
            (fun s => dict_keys_rb (rebuilds rho s) rho pre rem rem') /\
    dict_go (eval n) (bind_pat n) rho hb rest rem' extra acc' = Ok sc.
Proof.
  induction pre as [|[ke it] pre IH]; intros rest rem extra acc sc Hpl Hnf Hst H.
  - exists rem, acc. split; [|exact H]. apply step_ok_refl; [exact Hst | intros; constructor].
  - simpl in Hpl, Hnf. apply andb_true_iff in Hpl as [Hp1 Hpl]. apply andb_true_iff in Hnf as [Hn1 Hnf].
    destruct it as [q [d|]|o]; try discriminate.
    cbn [app dict_go] in H.
    destruct (eval n rho ke) as [kw| | |] eqn:Ek; simpl in H; try discriminate.
    destruct kw as [k|? ? ?]; simpl in H; try discriminate.
    destruct (filter (fun p : val * val => veqb k (fst p)) rem) as [|[k1 x] [|? ?]] eqn:Ef; try discriminate.
    assert (k1 = k).
    { assert (Hi : In (k1, x) (filter (fun p : val * val => veqb k (fst p)) rem)) by (rewrite Ef; left; reflexivity).
      apply filter_In in Hi as [_ Hv]. simpl in Hv. apply veqb_eq in Hv. congruence. }
    subst k1.
    destruct (bind_item (bind_pat n) rho acc q (D x)) as [acc1| | |] eqn:Eb; simpl in H; try discriminate.
    pose proof (bind_item_sound _ _ _ _ Hn1 Hst Eb) as S1.
    destruct (IH rest _ extra acc1 sc Hpl Hnf (step_ok_St _ _ _ _ S1) H) as (rem' & acc' & S2 & Hgo).
    exists rem', acc'. split; [|exact Hgo].
    eapply step_ok_weaken; [| |exact (step_ok_comp _ _ _ _ _ _ _ S1 S2)].
    + intros s [H1 H2]. econstructor; eauto. exists n. exact Ek.
    + intros z. reflexivity.
Qed.

Lemma dict_keys_app R rh a b r0 r1 r2 :
  dict_keys_rb R rh a r0 r1 -> dict_keys_rb R rh b r1 r2 -> dict_keys_rb R rh (a ++ b) r0 r2.
Proof. induction 1; intros Hb; [exact Hb|]. simpl. econstructor; eauto. Qed.

Lemma dict_go_sound hb entries es sc :
  (length (filter is_extra_snd entries) <= 1)%nat ->
  forallb (fun a : expr * pitem => item_nofb (snd a)) entries = true ->
  dict_go (eval n) (bind_pat n) rho hb entries es None [] = Ok sc ->
  step_ok [] sc (flat_map (fun a : expr * pitem => item_names (snd a)) entries)
          (fun s => dict_rb (rebuilds rho s) rho s entries es).
Proof.
  intros Hc Hnf H. destruct (snd_decomp _ Hc Hnf) as [Hp|(pre & ke0 & o & suf & -> & Hp & Hs)].
  - rewrite <- (app_nil_r entries) in H.
    destruct (dict_prefix_sound hb _ _ _ _ _ _ Hp Hnf St_nil H) as (rem' & acc' & S1 & Hgo).
    cbn [dict_go] in Hgo. destruct rem'; [|destruct hb; discriminate]. injection Hgo as <-.
    eapply step_ok_weaken; [| |exact S1].
    + intros s F. apply DRPlain; assumption.
    + intros z. reflexivity.
  - rewrite forallb_app in Hnf. apply andb_true_iff in Hnf as [Hnf1 Hnf2]. simpl in Hnf2.
    destruct (dict_prefix_sound hb _ _ _ _ _ _ Hp Hnf1 St_nil H) as (rem1 & acc1 & S1 & Hgo).
    cbn [dict_go] in Hgo. rewrite <- (app_nil_r suf) in Hgo.
    destruct (dict_prefix_sound hb _ _ _ _ _ _ Hs Hnf2 (step_ok_St _ _ _ _ S1) Hgo) as (rem2 & acc2 & S2 & Hgo2).
    cbn [dict_go] in Hgo2.
    pose proof (bind_rest_sound _ _ _ _ (step_ok_St _ _ _ _ S2) Hgo2) as S3.
    eapply step_ok_weaken; [| |exact (step_ok_comp _ _ _ _ _ _ _ S1 (step_ok_comp _ _ _ _ _ _ _ S2 S3))].
    + intros s (F1 & F2 & Hr). eapply DRRest; [eapply dict_keys_app; eauto | exact Hr].
    + intros z. rewrite flat_map_app. simpl. rewrite !in_app_iff. tauto.
Qed.

(* ----- sets ----- *)

Lemma lit_names items : forallb is_lit items = true -> flat_map item_names items = [].
Proof.
  induction items as [|it items IH]; [reflexivity|]. simpl. intros H. apply andb_true_iff in H as [H1 H].
  destruct it as [q fb|o]; [destruct q|]; try discriminate. simpl. apply IH, H.
Qed.

Lemma set_lits_app rh a b r0 r1 r2 :
  set_lits_rb rh a r0 r1 -> set_lits_rb rh b r1 r2 -> set_lits_rb rh (a ++ b) r0 r2.
Proof. induction 1; intros Hb; [exact Hb|]. simpl. econstructor; eauto. Qed.

Lemma set_go_lit_step e fb rest rem binder sc :
  set_go (eval n) (bind_pat n) rho (PItem (PExpr e) fb :: rest) rem binder = Ok sc ->
  exists a, evals rho e (D a) /\ In a rem /\
            set_go (eval n) (bind_pat n) rho rest (s_without rem a) binder = Ok sc.
Proof.
  cbn [set_go]. intros H.
  destruct (eval n rho e) as [w| | |] eqn:Ee; simpl in H; try discriminate.
  destruct w as [a|? ? ?]; simpl in H; try discriminate.
  destruct (vmem a rem) eqn:Em; [|discriminate].
  exists a. split; [exists n; exact Ee|]. split; [apply vmem_in, Em | exact H].
Qed.

Lemma set_go_some : forall l rem it sc,
  set_go (eval n) (bind_pat n) rho l rem (Some it) = Ok sc ->
  exists rem', forallb is_lit l = true /\ set_lits_rb rho l rem rem' /\
               set_go (eval n) (bind_pat n) rho [] rem' (Some it) = Ok sc.
Proof.
  induction l as [|it1 l IH]; intros rem it sc H.
  - exists rem. split; [reflexivity|]. split; [constructor | exact H].
  - destruct it1 as [q fb|o]; [destruct q|]; try (cbn [set_go] in H; discriminate).
    destruct (set_go_lit_step _ _ _ _ _ _ H) as (a & Ha & Hin & H').
    destruct (IH _ _ _ H') as (rem' & Hl & Hs & Hf).
    exists rem'. split; [exact Hl|]. split; [econstructor; eauto | exact Hf].
Qed.

Lemma set_go_none : forall l rem sc,
  set_go (eval n) (bind_pat n) rho l rem None = Ok sc ->
  (forallb is_lit l = true /\ set_lits_rb rho l rem [] /\ sc = []) \/
  (exists pre it suf rem', l = pre ++ it :: suf /\ forallb is_lit pre = true /\ is_lit it = false /\
     forallb is_lit suf = true /\ set_lits_rb rho (pre ++ suf) rem rem' /\
     set_go (eval n) (bind_pat n) rho [] rem' (Some it) = Ok sc).
Proof.
  induction l as [|it1 l IH]; intros rem sc H.
  - left. cbn [set_go] in H. destruct rem; [|discriminate]. injection H as <-.
    split; [reflexivity|]. split; [constructor | reflexivity].
  - assert (Hnl : is_lit it1 = false ->
        set_go (eval n) (bind_pat n) rho l rem (Some it1) = Ok sc ->
        exists pre it suf rem', it1 :: l = pre ++ it :: suf /\ forallb is_lit pre = true /\ is_lit it = false /\
          forallb is_lit suf = true /\ set_lits_rb rho (pre ++ suf) rem rem' /\
          set_go (eval n) (bind_pat n) rho [] rem' (Some it) = Ok sc).
    { intros Hn H'. destruct (set_go_some _ _ _ _ H') as (rem' & Hl & Hs & Hf).
      exists [], it1, l, rem'. repeat split; assumption. }
    destruct it1 as [q fb|o]; [destruct q|]; try (right; apply Hnl; [reflexivity | exact H]).
    destruct (set_go_lit_step _ _ _ _ _ _ H) as (a & Ha & Hin & H').
    destruct (IH _ _ H') as [(Hl & Hs & ->)|(pre & it & suf & rem' & -> & Hp & Hi & Hsf & Hs & Hf)].
    + left. split; [exact Hl|]. split; [econstructor; eauto | reflexivity].
    + right. exists (PItem (PExpr e) fb :: pre), it, suf, rem'.
      split; [reflexivity|]. split; [exact Hp|]. split; [exact Hi|]. split; [exact Hsf|].
      split; [simpl; econstructor; eauto | exact Hf].
Qed.

Lemma good_step p v sc :
  good rho p v sc -> is_data v -> step_ok [] sc (pat_names p) (fun s => rebuilds rho s p v).
Proof.
  intros (Hrb & Hnd & Hdom & Hd) Hv. split; [apply ext_nil|]. split; [exact Hrb|].
  split; [split; [exact Hnd | apply Hd, Hv]|]. intros z. rewrite Hdom. simpl. tauto.
Qed.

Lemma set_binder_sound it rem sc :
  item_nofb it = true -> is_lit it = false ->
  set_go (eval n) (bind_pat n) rho [] rem (Some it) = Ok sc ->
  step_ok [] sc (item_names it) (fun s => binder_rb (rebuilds rho s) s it rem).
Proof.
  intros Hnf Hl H. cbn [set_go] in H. destruct it as [q [d|]|[x|]]; try discriminate.
  - destruct rem as [|x [|? ?]]; try discriminate.
    eapply step_ok_weaken; [| |apply (good_step q (D x) sc)].
    + intros s Hr. constructor. exact Hr.
    + intros z. reflexivity.
    + apply HS; assumption.
    + eexists; reflexivity.
  - injection H as <-. split; [apply ext_nil|]. split.
    + intros s Hs. constructor. apply Hs. simpl. rewrite name_eqb_refl. reflexivity.
    + split.
      * split; [repeat constructor; intros [] | intros z w [[= <- <-]|[]]; eexists; reflexivity].
      * intros z. simpl. tauto.
  - injection H as <-. eapply step_ok_weaken; [| |apply (step_ok_refl [] (fun _ => True) St_nil)].
    + intros s _. constructor. exact I.
    + intros z. reflexivity.
    + intros; exact I.
Qed.

Lemma set_go_sound items l sc :
  forallb item_nofb items = true ->
  set_go (eval n) (bind_pat n) rho items l None = Ok sc ->
  step_ok [] sc (flat_map item_names items) (fun s => set_rb (rebuilds rho s) rho s items l).
Proof.
  intros Hnf H.
  destruct (set_go_none _ _ _ H) as [(Hl & Hs & ->)|(pre & it & suf & rem' & -> & Hp & Hi & Hsf & Hs & Hf)].
  - rewrite (lit_names _ Hl). apply step_ok_refl; [apply St_nil|]. intros s. apply SRExact. exact Hs.
  - rewrite forallb_app in Hnf. apply andb_true_iff in Hnf as [_ Hnf]. simpl in Hnf.
    apply andb_true_iff in Hnf as [Hnfi _].
    eapply step_ok_weaken; [| |exact (set_binder_sound _ _ _ Hnfi Hi Hf)].
    + intros s Hb. eapply SRBinder; eauto.
    + intros z. rewrite flat_map_app. simpl. rewrite (lit_names _ Hp), (lit_names _ Hsf), app_nil_r. reflexivity.
Qed.

End SoundStep.

Lemma step_good rho p v sc :
  step_ok [] sc (pat_names p) (fun s => rebuilds rho s p v) -> good rho p v sc.
Proof.
  intros (_ & HP & [Hnd Hd] & Hdom). split; [exact HP|]. split; [exact Hnd|].
  split; [intros x; rewrite Hdom; simpl; tauto | intros _; exact Hd].
Qed.

Lemma exprs_go_sound n rho b : forall es sc, exprs_go (eval n) rho b es = Ok sc ->
  sc = [] /\ exists pre e suf, es = pre ++ e :: suf /\
    Forall (fun e' => exists a', evals rho e' (D a')) pre /\ evals rho e (D b).
Proof.
  induction es as [|e es IH]; intros sc H; [discriminate|]. cbn [exprs_go] in H.
  destruct (eval n rho e) as [w| | |] eqn:Ee; cbn [rbind] in H; try discriminate.
  destruct w as [a|? ? ?]; cbn [as_data rbind] in H; try discriminate.
  destruct (veqb a b) eqn:Ev.
  - injection H as <-. apply veqb_eq in Ev. subst a. split; [reflexivity|].
    exists [], e, es. split; [reflexivity|]. split; [constructor | exists n; exact Ee].
  - destruct (IH _ H) as (-> & pre & e0 & suf & -> & Hpre & He0). split; [reflexivity|].
    exists (e :: pre), e0, suf. split; [reflexivity|]. split; [|exact He0].
    constructor; [exists a, n; exact Ee | exact Hpre].
Qed.

Theorem bind_sound : forall n, Sound n.
Proof.
  induction n as [|n IH]; intros rho p v sc Hnf H; [discriminate H|].
  rewrite bind_pat_S in H. destruct p as [x| |e|items|attrs|entries|items|es].
  - (* name *) injection H as <-. split; [|split; [|split]].
    + intros s Hs. constructor. apply Hs. simpl. rewrite name_eqb_refl. reflexivity.
    + repeat constructor. intros [].
    + intros z. reflexivity.
    + intros (d & ->) z w [[= <- <-]|[]]. eexists; reflexivity.
  - (* _ *) injection H as <-. split; [|split; [|split]].
    + intros s _. constructor.
    + constructor.
    + intros z. reflexivity.
    + intros _ z w [].
  - (* (expr) *) cbn [bindF] in H.
    destruct (eval n rho e) as [w| | |] eqn:Ee; simpl in H; try discriminate.
    destruct w as [a|? ? ?]; simpl in H; try discriminate.
    destruct v as [b|? ? ?]; simpl in H; try discriminate.
    destruct (veqb a b) eqn:Ev; [|discriminate]. injection H as <-. apply veqb_eq in Ev. subst b.
    split; [|split; [|split]].
    + intros s _. constructor. exists n. exact Ee.
    + constructor.
    + intros z. reflexivity.
    + intros _ z w [].
  - (* array *) rewrite bindF_arr in H. destruct v as [d|? ? ?]; simpl in H; try discriminate.
    destruct (dense_array d) as [xs|] eqn:Ed; [|discriminate].
    destruct (1 <? count_extras items)%nat eqn:Ec; [discriminate|]. apply Nat.ltb_ge in Ec.
    apply step_good. eapply step_ok_weaken; [| |exact (arr_go_sound n IH rho _ _ _ _ Ec Hnf H)].
    + intros s Hr. econstructor; eauto.
    + intros z. reflexivity.
  - (* tuple *) rewrite bindF_tup in H. destruct v as [d|? ? ?]; simpl in H; try discriminate.
    destruct d as [|tv|]; try discriminate.
    match type of H with (if (1 <? ?c)%nat then _ else _) = _ => destruct (1 <? c)%nat eqn:Ec; [discriminate|] end.
    apply Nat.ltb_ge in Ec.
    apply step_good. eapply step_ok_weaken; [| |exact (tup_go_sound n IH rho _ _ _ _ Ec Hnf H)].
    + intros s Hr. constructor. exact Hr.
    + intros z. reflexivity.
  - (* dict *) rewrite bindF_dict in H. destruct v as [d|? ? ?]; simpl in H; try discriminate.
    destruct d as [| |l]; try discriminate.
    destruct (dict_entries l) as [es|] eqn:Ee; [|discriminate].
    match type of H with (if (1 <? ?c)%nat then _ else _) = _ => destruct (1 <? c)%nat eqn:Ec; [discriminate|] end.
    apply Nat.ltb_ge in Ec.
    apply step_good. eapply step_ok_weaken; [| |exact (dict_go_sound n IH rho _ _ _ _ Ec Hnf H)].
    + intros s Hr. econstructor; eauto.
    + intros z. reflexivity.
  - (* set *) rewrite bindF_set in H. destruct v as [d|? ? ?]; simpl in H; try discriminate.
    destruct d as [| |l]; try discriminate.
    apply step_good. eapply step_ok_weaken; [| |exact (set_go_sound n IH rho _ _ _ Hnf H)].
    + intros s Hr. constructor. exact Hr.
    + intros z. reflexivity.
  - (* (e1, e2, ..) *) rewrite bindF_exprs in H. destruct v as [b|? ? ?]; cbn [as_data rbind] in H; try discriminate.
    destruct (exprs_go_sound _ _ _ _ _ H) as (-> & pre & e0 & suf & -> & Hpre & He0).
    split; [|split; [|split]].
    + intros s _. constructor; assumption.
    + constructor.
    + intros z. reflexivity.
    + intros _ z w [].
Qed.

(* ---------- completeness: whenever some assignment rebuilds the value, the match succeeds ---------- *)

Lemma bind_ok_mono n m rho p v sc : (n <= m)%nat -> bind_pat n rho p v = Ok sc -> bind_pat m rho p v = Ok sc.
Proof. intros Hle H. destruct (bind_fuel_mono n m rho p v Hle) as [E|E]; congruence. Qed.

Lemma eval_ok_mono n m rho e w : (n <= m)%nat -> eval n rho e = Ok w -> eval m rho e = Ok w.
Proof. intros Hle H. destruct (eval_fuel_mono n m rho e Hle) as [E|E]; congruence. Qed.

Definition Complete (k : nat) : Prop :=
  forall p, (pat_depth p <= k)%nat -> forall rho s v, pat_nofb p = true -> rebuilds rho s p v ->
    exists n, forall m, (n <= m)%nat -> exists sc, bind_pat m rho p v = Ok sc /\ ext sc s.

Lemma exprs_go_complete rho b e suf : forall pre,
  Forall (fun e' => exists a', evals rho e' (D a')) pre -> evals rho e (D b) ->
  exists N, forall M, (N <= M)%nat -> exprs_go (eval M) rho b (pre ++ e :: suf) = Ok [].
Proof.
  intros pre Hpre (ne & He). induction Hpre as [|e' pre (a' & n' & He') Hpre IH].
  - exists ne. intros M HM. cbn [app exprs_go]. rewrite (eval_ok_mono ne M _ _ _ HM He). cbn [rbind as_data].
    assert (E : veqb b b = true) by (apply veqb_eq; reflexivity). rewrite E. reflexivity.
  - destruct IH as (N & HN). exists (Nat.max n' N). intros M HM. cbn [app exprs_go].
    rewrite (eval_ok_mono n' M _ _ _ ltac:(lia) He'). cbn [rbind as_data].
    destruct (veqb a' b); [reflexivity | apply HN; lia].
Qed.

Lemma complete_leaf p : match p with PVar _ | PWild | PExpr _ | PExprs _ => True | _ => False end ->
  forall rho s v, rebuilds rho s p v ->
    exists n, forall m, (n <= m)%nat -> exists sc, bind_pat m rho p v = Ok sc /\ ext sc s.
Proof.
  intros Hp rho s v Hr. destruct p as [x| |e| | | | |es]; try contradiction; inversion Hr; subst.
  - exists 1%nat. intros m Hm. destruct m as [|m]; [lia|]. exists [(x, v)]. split; [reflexivity|].
    intros z w. simpl. destruct (name_eqb z x) eqn:E; [|discriminate].
    apply name_eqb_eq in E. subst. intros [= <-]. assumption.
  - exists 1%nat. intros m Hm. destruct m as [|m]; [lia|]. exists []. split; [reflexivity | apply ext_nil].
  - match goal with H : evals _ _ _ |- _ => destruct H as (n0 & He) end.
    exists (S n0). intros m Hm. destruct m as [|m]; [lia|]. exists []. split; [|apply ext_nil].
    rewrite bind_pat_S. cbn [bindF]. rewrite (eval_ok_mono n0 m _ _ _ ltac:(lia) He). simpl.
    assert (E : veqb a a = true) by (apply veqb_eq; reflexivity). rewrite E. reflexivity.
  - match goal with Hf : Forall _ ?pre, He : evals _ ?e _ |- _ =>
      destruct (exprs_go_complete rho a e suf pre Hf He) as (N & HN) end.
    exists (S N). intros m Hm. destruct m as [|m]; [lia|]. exists []. split; [|apply ext_nil].
    rewrite bind_pat_S, bindF_exprs. cbn [as_data rbind]. apply HN. lia.
Qed.

Lemma arr_go_rest_eq ev bd rho hb o suf m b acc :
  length b = length suf ->
  arr_go ev bd rho hb (PExtra o :: suf) (m ++ b) acc =
  (do acc' <- match o with Some x => bind_item bd rho acc (PVar x) (D (arr_val m)) | None => Ok acc end;
   arr_go ev bd rho hb suf b acc').
Proof.
  intros Hl. cbn [arr_go]. rewrite app_length.
  replace (length m + length b <? length suf)%nat with false by (symmetry; apply Nat.ltb_ge; lia).
  replace (length m + length b - length suf)%nat with (length m) by lia.
  rewrite firstn_app, Nat.sub_diag, firstn_all, skipn_app, skipn_all, Nat.sub_diag. simpl. rewrite app_nil_r.
  reflexivity.
Qed.

Lemma Forall2_len {A B} (P : A -> B -> Prop) l m : Forall2 P l m -> length l = length m.
Proof. induction 1; simpl; congruence. Qed.

Lemma Forall2_item_plain R items xs : Forall2 (item_rb R) items xs -> forallb is_plain items = true.
Proof. induction 1 as [|it x items xs H F IH]; [reflexivity|]. inversion H; subst. simpl. exact IH. Qed.

Lemma plain_snd_filter {A} (l : list (A * pitem)) :
  forallb (fun a => is_plain (snd a)) l = true -> filter is_extra_snd l = [].
Proof.
  induction l as [|[a it] l IH]; [reflexivity|]. simpl. intros H. apply andb_true_iff in H as [H1 H].
  destruct it as [q [d|]|o]; try discriminate. unfold is_extra_snd at 1. simpl. exact (IH H).
Qed.

Lemma Forall_attr_plain R tv attrs : Forall (attr_rb R tv) attrs ->
  forallb (fun a : name * pitem => is_plain (snd a)) attrs = true.
Proof. induction 1 as [|a attrs H F IH]; [reflexivity|]. inversion H; subst. simpl. exact IH. Qed.

Lemma dict_keys_plain R rh ents r0 r1 : dict_keys_rb R rh ents r0 r1 ->
  forallb (fun a : expr * pitem => is_plain (snd a)) ents = true.
Proof. induction 1; [reflexivity|]. simpl. assumption. Qed.

Lemma dict_keys_split R rh : forall a b r0 r2, dict_keys_rb R rh (a ++ b) r0 r2 ->
  exists r1, dict_keys_rb R rh a r0 r1 /\ dict_keys_rb R rh b r1 r2.
Proof.
  induction a as [|x a IH]; intros b r0 r2 H.
  - exists r0. split; [constructor | exact H].
  - simpl in H. inversion H; subst.
    match goal with H' : dict_keys_rb _ _ (a ++ b) _ _ |- _ => destruct (IH _ _ _ H') as (r1 & Ha & Hb) end.
    exists r1. split; [econstructor; eauto | exact Hb].
Qed.

Lemma set_lits_split rh : forall a b r0 r2, set_lits_rb rh (a ++ b) r0 r2 ->
  exists r1, set_lits_rb rh a r0 r1 /\ set_lits_rb rh b r1 r2.
Proof.
  induction a as [|x a IH]; intros b r0 r2 H.
  - exists r0. split; [constructor | exact H].
  - simpl in H. inversion H; subst.
    match goal with H' : set_lits_rb _ (a ++ b) _ _ |- _ => destruct (IH _ _ _ H') as (r1 & Ha & Hb) end.
    exists r1. split; [econstructor; eauto | exact Hb].
Qed.

Section CompleteStep.
Variable k : nat.
Hypothesis IHk : Complete k.
Variables (rho s : env).

Lemma bind_item_complete q x :
  (pat_depth q <= k)%nat -> pat_nofb q = true -> rebuilds rho s q (D x) ->
  exists N, forall M, (N <= M)%nat -> forall acc, ext acc s ->
    exists acc', bind_item (bind_pat M) rho acc q (D x) = Ok acc' /\ ext acc' s.
Proof.
  intros Hd Hnf Hr. destruct (IHk q Hd rho s (D x) Hnf Hr) as (N & HN). exists N.
  intros M HM acc Hacc. destruct (HN M HM) as (sc0 & Eb & Hsc0).
  destruct (bind_sound M _ _ _ _ Hnf Eb) as (_ & Hnd & _ & Hda).
  destruct (mu_complete sc0 acc s Hacc) as (r & Eu & Hr').
  - intros z w Hin. apply Hsc0. apply env_get_nodup; assumption.
  - apply Hda. eexists; reflexivity.
  - exists r. split; [|exact Hr']. unfold bind_item. rewrite Eb. simpl. rewrite Eu. reflexivity.
Qed.

Lemma bind_rest_complete o w :
  rest_rb s o (D w) -> forall M, (1 <= M)%nat -> forall acc, ext acc s ->
  exists acc', match o with Some x => bind_item (bind_pat M) rho acc (PVar x) (D w) | None => Ok acc end = Ok acc'
               /\ ext acc' s.
Proof.
  intros Hr M HM acc Hacc. destruct o as [r|]; [|exists acc; split; [reflexivity | exact Hacc]].
  destruct M as [|M]; [lia|]. simpl in Hr.
  destruct (mu_complete [(r, D w)] acc s Hacc) as (acc' & Eu & Hacc').
  - intros z u [[= <- <-]|[]]. exact Hr.
  - intros z u [[= <- <-]|[]]. eexists; reflexivity.
  - exists acc'. split; [|exact Hacc']. unfold bind_item. rewrite bind_var. cbn [rbind]. rewrite Eu. reflexivity.
Qed.

(* ----- arrays ----- *)

Lemma arr_prefix_complete : forall pre a, Forall2 (item_rb (rebuilds rho s)) pre a ->
  Forall (fun it => (item_depth it <= k)%nat) pre -> forallb item_nofb pre = true ->
  exists N, forall M, (N <= M)%nat -> forall acc, ext acc s -> exists acc', ext acc' s /\
    forall hb rest ys, arr_go (eval M) (bind_pat M) rho hb (pre ++ rest) (a ++ ys) acc =
                       arr_go (eval M) (bind_pat M) rho hb rest ys acc'.
Proof.
  induction 1 as [|it x pre a Hit F IH]; intros Hdep Hnf.
  - exists 0%nat. intros M _ acc Hacc. exists acc. split; [exact Hacc | reflexivity].
  - inversion Hit as [q x' Hq]; subst. inversion Hdep as [|? ? Hd1 Hdep']; subst.
    simpl in Hnf. apply andb_true_iff in Hnf as [Hn1 Hnf].
    destruct (bind_item_complete q x Hd1 Hn1 Hq) as (N1 & H1). destruct (IH Hdep' Hnf) as (N2 & H2).
    exists (Nat.max N1 N2). intros M HM acc Hacc.
    destruct (H1 M ltac:(lia) acc Hacc) as (acc1 & Eb & Hacc1).
    destruct (H2 M ltac:(lia) acc1 Hacc1) as (acc' & Hacc' & Heq).
    exists acc'. split; [exact Hacc'|]. intros hb rest ys. cbn [app arr_go]. rewrite Eb. simpl. apply Heq.
Qed.

Lemma arr_complete items d xs :
  Forall (fun it => (item_depth it <= k)%nat) items -> forallb item_nofb items = true ->
  dense_array d = Some xs -> arr_rb (rebuilds rho s) s items xs ->
  exists n, forall m, (n <= m)%nat -> exists sc, bind_pat m rho (PArr items) (D d) = Ok sc /\ ext sc s.
Proof.
  intros Hdep Hnf Hd Hr. inversion Hr as [items' xs' F|pre o suf a m b F1 F2 Hrest]; subst.
  - destruct (arr_prefix_complete _ _ F Hdep Hnf) as (N & HN). exists (S N).
    intros m Hm. destruct m as [|M]; [lia|]. destruct (HN M ltac:(lia) [] (ext_nil s)) as (acc' & Hacc' & Heq).
    exists acc'. split; [|exact Hacc']. rewrite bind_pat_S, bindF_arr. cbn [as_data rbind]. rewrite Hd.
    rewrite (plain_count0 _ (Forall2_item_plain _ _ _ F)). change (1 <? 0)%nat with false. cbv iota.
    specialize (Heq (existsb is_fallback items) [] []). rewrite !app_nil_r in Heq. rewrite Heq. reflexivity.
  - apply Forall_app in Hdep as [Hdep1 Hdep2]. inversion Hdep2 as [|? ? _ Hdep3]; subst.
    rewrite forallb_app in Hnf. apply andb_true_iff in Hnf as [Hnf1 Hnf2]. simpl in Hnf2.
    destruct (arr_prefix_complete _ _ F1 Hdep1 Hnf1) as (N1 & H1).
    destruct (arr_prefix_complete _ _ F2 Hdep3 Hnf2) as (N2 & H2).
    exists (S (S (Nat.max N1 N2))). intros m' Hm. destruct m' as [|M]; [lia|].
    destruct (H1 M ltac:(lia) [] (ext_nil s)) as (acc1 & Hacc1 & Heq1).
    destruct (bind_rest_complete o _ Hrest M ltac:(lia) acc1 Hacc1) as (acc2 & Er & Hacc2).
    destruct (H2 M ltac:(lia) acc2 Hacc2) as (acc3 & Hacc3 & Heq3).
    exists acc3. split; [|exact Hacc3]. rewrite bind_pat_S, bindF_arr. cbn [as_data rbind]. rewrite Hd.
    rewrite count_extras_app, (plain_count0 _ (Forall2_item_plain _ _ _ F1)).
    replace (count_extras (PExtra o :: suf)) with 1%nat
      by (change (count_extras (PExtra o :: suf)) with (S (count_extras suf));
          rewrite (plain_count0 _ (Forall2_item_plain _ _ _ F2)); reflexivity).
    change (1 <? 0 + 1)%nat with false. cbv iota.
    rewrite Heq1, arr_go_rest_eq by (symmetry; eapply Forall2_len; eauto).
    rewrite Er. cbn [rbind]. specialize (Heq3 (existsb is_fallback (pre ++ PExtra o :: suf)) [] []).
    rewrite !app_nil_r in Heq3. rewrite Heq3. reflexivity.
Qed.

(* ----- tuples ----- *)

Lemma tup_prefix_complete tv : forall pre, Forall (attr_rb (rebuilds rho s) tv) pre ->
  Forall (fun a : name * pitem => (item_depth (snd a) <= k)%nat) pre ->
  forallb (fun a : name * pitem => item_nofb (snd a)) pre = true ->
  exists N, forall M, (N <= M)%nat -> forall acc, ext acc s -> exists acc', ext acc' s /\
    forall hb rest rem extra,
      tup_go (eval M) (bind_pat M) rho hb tv (pre ++ rest) rem extra acc =
      tup_go (eval M) (bind_pat M) rho hb tv rest (remaining_attrs (map fst pre) rem) extra acc'.
Proof.
  induction 1 as [|at1 pre Hat F IH]; intros Hdep Hnf.
  - exists 0%nat. intros M _ acc Hacc. exists acc. split; [exact Hacc | reflexivity].
  - inversion Hat as [n0 q x Hg Hq]; subst. inversion Hdep as [|? ? Hd1 Hdep']; subst.
    simpl in Hnf. apply andb_true_iff in Hnf as [Hn1 Hnf].
    destruct (bind_item_complete q x Hd1 Hn1 Hq) as (N1 & H1). destruct (IH Hdep' Hnf) as (N2 & H2).
    exists (Nat.max N1 N2). intros M HM acc Hacc.
    destruct (H1 M ltac:(lia) acc Hacc) as (acc1 & Eb & Hacc1).
    destruct (H2 M ltac:(lia) acc1 Hacc1) as (acc' & Hacc' & Heq).
    exists acc'. split; [exact Hacc'|]. intros hb rest rem extra. cbn [app tup_go]. rewrite Hg, Eb. simpl. apply Heq.
Qed.

Lemma tup_complete attrs tv :
  Forall (fun a : name * pitem => (item_depth (snd a) <= k)%nat) attrs ->
  forallb (fun a : name * pitem => item_nofb (snd a)) attrs = true ->
  tup_rb (rebuilds rho s) s attrs tv ->
  exists n, forall m, (n <= m)%nat -> exists sc, bind_pat m rho (PTup attrs) (D (VTup tv)) = Ok sc /\ ext sc s.
Proof.
  intros Hdep Hnf Hr. inversion Hr as [attrs' tv' F Hrem|pre n0 o suf tv' F Hrest]; subst.
  - destruct (tup_prefix_complete tv _ F Hdep Hnf) as (N & HN). exists (S N).
    intros m Hm. destruct m as [|M]; [lia|]. destruct (HN M ltac:(lia) [] (ext_nil s)) as (acc' & Hacc' & Heq).
    exists acc'. split; [|exact Hacc']. rewrite bind_pat_S, bindF_tup. cbn [as_data rbind].
    change (fun a : name * pitem => match snd a with PExtra _ => true | _ => false end) with (@is_extra_snd name).
    rewrite (plain_snd_filter _ (Forall_attr_plain _ _ _ F)). change (1 <? length (@nil (name * pitem)))%nat with false. cbv iota.
    specialize (Heq (existsb (fun a : name * pitem => is_fallback (snd a)) attrs) [] tv None).
    rewrite !app_nil_r in Heq. rewrite Heq, Hrem. reflexivity.
  - apply Forall_app in F as [F1 F2].
    apply Forall_app in Hdep as [Hdep1 Hdep2]. inversion Hdep2 as [|? ? _ Hdep3]; subst.
    rewrite forallb_app in Hnf. apply andb_true_iff in Hnf as [Hnf1 Hnf2]. simpl in Hnf2.
    destruct (tup_prefix_complete tv _ F1 Hdep1 Hnf1) as (N1 & H1).
    destruct (tup_prefix_complete tv _ F2 Hdep3 Hnf2) as (N2 & H2).
    exists (S (S (Nat.max N1 N2))). intros m' Hm. destruct m' as [|M]; [lia|].
    destruct (H1 M ltac:(lia) [] (ext_nil s)) as (acc1 & Hacc1 & Heq1).
    destruct (H2 M ltac:(lia) acc1 Hacc1) as (acc2 & Hacc2 & Heq2).
    rewrite map_app, remaining_attrs_app in Hrest.
    destruct (bind_rest_complete o _ Hrest M ltac:(lia) acc2 Hacc2) as (acc3 & Er & Hacc3).
    exists acc3. split; [|exact Hacc3]. rewrite bind_pat_S, bindF_tup. cbn [as_data rbind].
    change (fun a : name * pitem => match snd a with PExtra _ => true | _ => false end) with (@is_extra_snd name).
    rewrite filter_app. rewrite (plain_snd_filter _ (Forall_attr_plain _ _ _ F1)).
    replace (filter is_extra_snd ((n0, PExtra o) :: suf)) with [(n0, PExtra o)]
      by (change (filter is_extra_snd ((n0, PExtra o) :: suf)) with ((n0, PExtra o) :: filter is_extra_snd suf);
          rewrite (plain_snd_filter _ (Forall_attr_plain _ _ _ F2)); reflexivity).
    change (1 <? length ([] ++ [(n0, PExtra o)]))%nat with false. cbv iota.
    rewrite Heq1. cbn [tup_go].
    specialize (Heq2 (existsb (fun a : name * pitem => is_fallback (snd a)) (pre ++ (n0, PExtra o) :: suf)) []
                     (remaining_attrs (map fst pre) tv) (Some o)).
    rewrite !app_nil_r in Heq2. rewrite Heq2. cbn [tup_go]. exact Er.
Qed.

(* ----- dicts ----- *)

Lemma dict_prefix_complete : forall pre rem rem', dict_keys_rb (rebuilds rho s) rho pre rem rem' ->
  Forall (fun a : expr * pitem => (item_depth (snd a) <= k)%nat) pre ->
  forallb (fun a : expr * pitem => item_nofb (snd a)) pre = true ->
  exists N, forall M, (N <= M)%nat -> forall acc, ext acc s -> exists acc', ext acc' s /\
    forall hb rest extra,
      dict_go (eval M) (bind_pat M) rho hb (pre ++ rest) rem extra acc =
      dict_go (eval M) (bind_pat M) rho hb rest rem' extra acc'.
Proof.
  induction 1 as [rem|ke q ents rem rem' k0 x Hke Hf Hq Hrest IH]; intros Hdep Hnf.
  - exists 0%nat. intros M _ acc Hacc. exists acc. split; [exact Hacc | reflexivity].
  - inversion Hdep as [|? ? Hd1 Hdep']; subst.
    simpl in Hnf. apply andb_true_iff in Hnf as [Hn1 Hnf].
    destruct Hke as (nk & Hke).
    destruct (bind_item_complete q x Hd1 Hn1 Hq) as (N1 & H1). destruct (IH Hdep' Hnf) as (N2 & H2).
    exists (Nat.max nk (Nat.max N1 N2)). intros M HM acc Hacc.
    destruct (H1 M ltac:(lia) acc Hacc) as (acc1 & Eb & Hacc1).
    destruct (H2 M ltac:(lia) acc1 Hacc1) as (acc' & Hacc' & Heq).
    exists acc'. split; [exact Hacc'|]. intros hb rest extra. cbn [app dict_go].
    rewrite (eval_ok_mono nk M _ _ _ ltac:(lia) Hke). cbn [rbind as_data]. rewrite Hf, Eb. cbn [rbind]. apply Heq.
Qed.

Lemma dict_complete entries l es :
  Forall (fun a : expr * pitem => (item_depth (snd a) <= k)%nat) entries ->
  forallb (fun a : expr * pitem => item_nofb (snd a)) entries = true ->
  dict_entries l = Some es -> dict_rb (rebuilds rho s) rho s entries es ->
  exists n, forall m, (n <= m)%nat -> exists sc, bind_pat m rho (PDict entries) (D (VSet l)) = Ok sc /\ ext sc s.
Proof.
  intros Hdep Hnf He Hr. inversion Hr as [ents' es' F|pre ke0 o suf es' rem F Hrest]; subst.
  - destruct (dict_prefix_complete _ _ _ F Hdep Hnf) as (N & HN). exists (S N).
    intros m Hm. destruct m as [|M]; [lia|]. destruct (HN M ltac:(lia) [] (ext_nil s)) as (acc' & Hacc' & Heq).
    exists acc'. split; [|exact Hacc']. rewrite bind_pat_S, bindF_dict. cbn [as_data rbind]. rewrite He.
    change (fun a : expr * pitem => match snd a with PExtra _ => true | _ => false end) with (@is_extra_snd expr).
    rewrite (plain_snd_filter _ (dict_keys_plain _ _ _ _ _ F)). change (1 <? length (@nil (expr * pitem)))%nat with false. cbv iota.
    specialize (Heq (existsb (fun a : expr * pitem => is_fallback (snd a)) entries) [] None).
    rewrite !app_nil_r in Heq. rewrite Heq. reflexivity.
  - destruct (dict_keys_split _ _ _ _ _ _ F) as (rem1 & F1 & F2).
    apply Forall_app in Hdep as [Hdep1 Hdep2]. inversion Hdep2 as [|? ? _ Hdep3]; subst.
    rewrite forallb_app in Hnf. apply andb_true_iff in Hnf as [Hnf1 Hnf2]. simpl in Hnf2.
    destruct (dict_prefix_complete _ _ _ F1 Hdep1 Hnf1) as (N1 & H1).
    destruct (dict_prefix_complete _ _ _ F2 Hdep3 Hnf2) as (N2 & H2).
    exists (S (S (Nat.max N1 N2))). intros m' Hm. destruct m' as [|M]; [lia|].
    destruct (H1 M ltac:(lia) [] (ext_nil s)) as (acc1 & Hacc1 & Heq1).
    destruct (H2 M ltac:(lia) acc1 Hacc1) as (acc2 & Hacc2 & Heq2).
    destruct (bind_rest_complete o _ Hrest M ltac:(lia) acc2 Hacc2) as (acc3 & Er & Hacc3).
    exists acc3. split; [|exact Hacc3]. rewrite bind_pat_S, bindF_dict. cbn [as_data rbind]. rewrite He.
    change (fun a : expr * pitem => match snd a with PExtra _ => true | _ => false end) with (@is_extra_snd expr).
    rewrite filter_app. rewrite (plain_snd_filter _ (dict_keys_plain _ _ _ _ _ F1)).
    replace (filter is_extra_snd ((ke0, PExtra o) :: suf)) with [(ke0, PExtra o)]
      by (change (filter is_extra_snd ((ke0, PExtra o) :: suf)) with ((ke0, PExtra o) :: filter is_extra_snd suf);
          rewrite (plain_snd_filter _ (dict_keys_plain _ _ _ _ _ F2)); reflexivity).
    change (1 <? length ([] ++ [(ke0, PExtra o)]))%nat with false. cbv iota.
    rewrite Heq1. cbn [dict_go].
    specialize (Heq2 (existsb (fun a : expr * pitem => is_fallback (snd a)) (pre ++ (ke0, PExtra o) :: suf)) [] (Some o)).
    rewrite !app_nil_r in Heq2. rewrite Heq2. cbn [dict_go]. exact Er.
Qed.

(* ----- sets ----- *)

Lemma set_prefix_complete : forall pre rem rem', set_lits_rb rho pre rem rem' ->
  exists N, forall M, (N <= M)%nat -> forall rest binder,
    set_go (eval M) (bind_pat M) rho (pre ++ rest) rem binder = set_go (eval M) (bind_pat M) rho rest rem' binder.
Proof.
  induction 1 as [rem|e fb its a rem rem' He Hin Hrest IH].
  - exists 0%nat. reflexivity.
  - destruct He as (ne & He). destruct IH as (N2 & H2). exists (Nat.max ne N2).
    intros M HM rest binder. cbn [app set_go]. rewrite (eval_ok_mono ne M _ _ _ ltac:(lia) He). cbn [rbind as_data].
    replace (vmem a rem) with true by (symmetry; apply vmem_in, Hin). apply H2. lia.
Qed.

Lemma set_complete items l :
  Forall (fun it => (item_depth it <= k)%nat) items -> forallb item_nofb items = true ->
  set_rb (rebuilds rho s) rho s items l ->
  exists n, forall m, (n <= m)%nat -> exists sc, bind_pat m rho (PSet items) (D (VSet l)) = Ok sc /\ ext sc s.
Proof.
  intros Hdep Hnf Hr. inversion Hr as [items' l' F|pre it suf l' rem Hlit F Hb]; subst.
  - destruct (set_prefix_complete _ _ _ F) as (N & HN). exists (S N).
    intros m Hm. destruct m as [|M]; [lia|]. exists []. split; [|apply ext_nil].
    rewrite bind_pat_S, bindF_set. cbn [as_data rbind].
    specialize (HN M ltac:(lia) [] None). rewrite app_nil_r in HN. rewrite HN. reflexivity.
  - destruct (set_lits_split _ _ _ _ _ F) as (rem1 & F1 & F2).
    destruct (set_prefix_complete _ _ _ F1) as (N1 & H1). destruct (set_prefix_complete _ _ _ F2) as (N2 & H2).
    apply Forall_app in Hdep as [_ Hdep2]. inversion Hdep2 as [|? ? Hdi _]; subst.
    rewrite forallb_app in Hnf. apply andb_true_iff in Hnf as [_ Hnf2]. simpl in Hnf2.
    apply andb_true_iff in Hnf2 as [Hnfi _].
    assert (Hstep : forall M r, set_go (eval M) (bind_pat M) rho (it :: suf) r None =
                                set_go (eval M) (bind_pat M) rho suf r (Some it)).
    { intros M r. destruct it as [q fb|o]; [destruct q|]; try discriminate; reflexivity. }
    inversion Hb as [o rem' Hrest|q x Hq]; subst.
    + exists (S (Nat.max N1 N2)). intros m Hm. destruct m as [|M]; [lia|].
      rewrite bind_pat_S, bindF_set. cbn [as_data rbind]. rewrite (H1 M ltac:(lia)), Hstep.
      specialize (H2 M ltac:(lia) [] (Some (PExtra o))). rewrite app_nil_r in H2. rewrite H2. cbn [set_go].
      destruct o as [x|].
      * eexists. split; [reflexivity|]. intros z w. simpl. destruct (name_eqb z x) eqn:E; [|discriminate].
        apply name_eqb_eq in E. subst. intros [= <-]. exact Hrest.
      * eexists. split; [reflexivity | apply ext_nil].
    + simpl in Hdi, Hnfi.
      destruct (IHk q Hdi rho s (D x) Hnfi Hq) as (Nq & HNq).
      exists (S (Nat.max Nq (Nat.max N1 N2))). intros m Hm. destruct m as [|M]; [lia|].
      destruct (HNq M ltac:(lia)) as (sc & Eb & Hsc). exists sc. split; [|exact Hsc].
      rewrite bind_pat_S, bindF_set. cbn [as_data rbind]. rewrite (H1 M ltac:(lia)), Hstep.
      specialize (H2 M ltac:(lia) [] (Some (PItem q None))). rewrite app_nil_r in H2. rewrite H2. cbn [set_go]. exact Eb.
Qed.

End CompleteStep.

Lemma list_max_bound {A} (f : A -> nat) l k : (list_max (map f l) <= k)%nat -> Forall (fun a => (f a <= k)%nat) l.
Proof. intros H. apply list_max_le in H. apply Forall_map in H. exact H. Qed.

Theorem bind_complete : forall k, Complete k.
Proof.
  induction k as [|k IH]; intros p Hd rho s v Hnf Hr.
  - destruct p; simpl in Hd; try lia; eapply complete_leaf; eauto; exact I.
  - destruct p as [x| |e|items|attrs|entries|items|es]; try (eapply complete_leaf; eauto; exact I);
      simpl in Hd; apply le_S_n in Hd; apply list_max_bound in Hd; simpl in Hnf; inversion Hr; subst.
    + eapply arr_complete; eauto.
    + eapply tup_complete; eauto.
    + eapply dict_complete; eauto.
    + eapply set_complete; eauto.
Qed.

(* ---------- the general theorem and its corollaries ---------- *)

Lemma binds_exactly_of_dom p sc :
  (forall x, In x (map fst sc) <-> In x (pat_names p)) -> binds_exactly p sc.
Proof. intros H x. rewrite env_get_dom. apply H. Qed.

Theorem match_iff_rebuilds p rho v s : pat_nofb p = true ->
  ((exists n sc, bind_pat n rho p v = Ok sc /\ env_equiv sc s) <-> (rebuilds rho s p v /\ binds_exactly p s)).
Proof.
  intros Hnf. split.
  - intros (n & sc & Hb & Heq). destruct (bind_sound n _ _ _ _ Hnf Hb) as (Hrb & _ & Hdom & _). split.
    + apply Hrb. intros x w Hx. rewrite <- Heq. exact Hx.
    + intros x. rewrite <- Heq, env_get_dom. apply Hdom.
  - intros [Hr Hex]. destruct (bind_complete _ p (le_n _) rho s v Hnf Hr) as (n & Hn).
    destruct (Hn n (le_n _)) as (sc & Hb & Hext). exists n, sc. split; [exact Hb|].
    destruct (bind_sound n _ _ _ _ Hnf Hb) as (_ & _ & Hdom & _).
    intros x. destruct (env_get x sc) as [w|] eqn:E; [symmetry; apply Hext, E|].
    destruct (env_get x s) as [w|] eqn:E'; [|reflexivity]. exfalso.
    assert (Hin : In x (pat_names p)) by (apply Hex; congruence).
    apply Hdom in Hin. apply env_get_dom in Hin. congruence.
Qed.

(* the bindings of a successful match themselves rebuild the value *)
Theorem match_rebuilds p rho v n sc : pat_nofb p = true ->
  bind_pat n rho p v = Ok sc -> rebuilds rho sc p v /\ binds_exactly p sc.
Proof.
  intros Hnf Hb. destruct (bind_sound n _ _ _ _ Hnf Hb) as (Hrb & _ & Hdom & _).
  split; [apply Hrb, ext_refl | apply binds_exactly_of_dom, Hdom].
Qed.

(* fuel: once the match has an answer, every larger fuel gives the same answer *)
Theorem match_fuel_stable n m rho p v sc : (n <= m)%nat -> bind_pat n rho p v = Ok sc -> bind_pat m rho p v = Ok sc.
Proof. apply bind_ok_mono. Qed.

Theorem match_deterministic n m rho p v sc sc' :
  bind_pat n rho p v = Ok sc -> bind_pat m rho p v = Ok sc' -> sc = sc'.
Proof.
  intros H1 H2. destruct (Nat.le_ge_cases n m) as [H|H].
  - rewrite (bind_ok_mono _ _ _ _ _ _ H H1) in H2. congruence.
  - rewrite (bind_ok_mono _ _ _ _ _ _ H H2) in H1. congruence.
Qed.

(* the equation "p under s rebuilds v" has at most one solution on the names of p *)
Theorem rebuilding_assignment_unique p rho v s1 s2 : pat_nofb p = true ->
  rebuilds rho s1 p v -> binds_exactly p s1 -> rebuilds rho s2 p v -> binds_exactly p s2 -> env_equiv s1 s2.
Proof.
  intros Hnf R1 B1 R2 B2.
  destruct (proj2 (match_iff_rebuilds p rho v s1 Hnf) (conj R1 B1)) as (n1 & sc1 & H1 & E1).
  destruct (proj2 (match_iff_rebuilds p rho v s2 Hnf) (conj R2 B2)) as (n2 & sc2 & H2 & E2).
  rewrite (match_deterministic _ _ _ _ _ _ _ H1 H2) in E1. intros x. rewrite <- E1, <- E2. reflexivity.
Qed.

(* the members of a set value can be enumerated in any order *)
From Coq Require Import Permutation.
From Arrai Require Import Proofs.PermP.
Theorem match_ignores_enumeration_order n rho p l l' :
  Permutation l l' -> bind_pat n rho p (D (mkset l)) = bind_pat n rho p (D (mkset l')).
Proof. intros H. rewrite (mkset_perm _ _ H). reflexivity. Qed.

(* no assignment rebuilds the value: the match never succeeds; and a match that fails with an error
   means that no assignment rebuilds the value *)
Theorem no_rebuild_no_match p rho v : pat_nofb p = true ->
  (forall s, ~ rebuilds rho s p v) -> forall n sc, bind_pat n rho p v <> Ok sc.
Proof. intros Hnf Hno n sc Hb. apply (Hno sc). eapply match_rebuilds; eauto. Qed.

Theorem match_error_no_rebuild p rho v n : pat_nofb p = true ->
  bind_pat n rho p v = Err -> forall s, ~ rebuilds rho s p v.
Proof.
  intros Hnf He s Hr. destruct (bind_complete _ p (le_n _) rho s v Hnf Hr) as (N & HN).
  destruct (HN (Nat.max n N) ltac:(lia)) as (sc & Hb & _).
  destruct (bind_fuel_mono n (Nat.max n N) rho p v ltac:(lia)) as [E|E]; congruence.
Qed.

(* every name of the pattern is bound exactly once, and no other name changes *)
Theorem match_binds_each_name_once p rho v n sc : pat_nofb p = true -> bind_pat n rho p v = Ok sc ->
  NoDup (map fst sc) /\ (forall x, In x (map fst sc) <-> In x (pat_names p)).
Proof. intros Hnf Hb. destruct (bind_sound n _ _ _ _ Hnf Hb) as (_ & Hnd & Hdom & _). split; assumption. Qed.

Theorem match_leaves_other_names p rho v n sc (outer : env) x : pat_nofb p = true ->
  bind_pat n rho p v = Ok sc -> ~ In x (pat_names p) -> env_get x (sc ++ outer) = env_get x outer.
Proof.
  intros Hnf Hb Hx. destruct (bind_sound n _ _ _ _ Hnf Hb) as (_ & _ & Hdom & _).
  rewrite env_get_app. replace (env_get x sc) with (@None value); [reflexivity|].
  symmetry. apply env_get_none. rewrite Hdom. exact Hx.
Qed.

(* let / function parameter / cond arm: a value comes out only through bindings that rebuild *)
Theorem let_value_only_through_rebuild n rho p e1 e2 r : pat_nofb p = true ->
  eval n rho (ELet p e1 e2) = Ok r ->
  exists m v sc, eval m rho e1 = Ok v /\ rebuilds rho sc p v /\ binds_exactly p sc /\ eval m (sc ++ rho) e2 = Ok r.
Proof.
  intros Hnf H. destruct n as [|n]; [discriminate|]. cbn [eval evalF] in H.
  destruct (eval n rho e1) as [v| | |] eqn:E1; simpl in H; try discriminate.
  destruct (bind_pat n rho p v) as [sc| | |] eqn:Eb; simpl in H; try discriminate.
  destruct (match_rebuilds _ _ _ _ _ Hnf Eb) as [Hr Hb]. exists n, v, sc. split; [exact E1|]. split; [exact Hr|]. split; [exact Hb | exact H].
Qed.

Theorem let_no_rebuild_no_value n rho p e1 e2 v : pat_nofb p = true ->
  eval n rho e1 = Ok v -> (forall s, ~ rebuilds rho s p v) -> forall m r, eval m rho (ELet p e1 e2) <> Ok r.
Proof.
  intros Hnf H1 Hno m r H. destruct (let_value_only_through_rebuild _ _ _ _ _ _ Hnf H) as (m' & v' & sc & E1 & Hr & _).
  assert (v' = v).
  { assert (N1 : eval n rho e1 <> OutOfFuel) by congruence. assert (N2 : eval m' rho e1 <> OutOfFuel) by congruence.
    pose proof (eval_fuel_independent n m' rho e1 N1 N2) as E. congruence. }
  subst. exact (Hno sc Hr).
Qed.

Theorem call_value_only_through_rebuild n rho p body a r : pat_nofb p = true ->
  eval n rho (ECall (EFn p body) a) = Ok r ->
  exists m v sc, eval m rho a = Ok v /\ rebuilds rho sc p v /\ binds_exactly p sc /\ eval m (sc ++ rho) body = Ok r.
Proof.
  intros Hnf H. destruct n as [|n]; [discriminate|]. cbn [eval evalF] in H.
  destruct n as [|n]; [discriminate|]. change (eval (S n) rho (EFn p body)) with (@Ok value (Clos rho p body)) in H.
  cbn [rbind] in H.
  destruct (eval (S n) rho a) as [v| | |] eqn:E1; cbn [rbind] in H; try discriminate.
  destruct (bind_pat (S n) rho p v) as [sc| | |] eqn:Eb; cbn [rbind] in H; try discriminate.
  destruct (match_rebuilds _ _ _ _ _ Hnf Eb) as [Hr Hb]. exists (S n), v, sc. split; [exact E1|]. split; [exact Hr|]. split; [exact Hb | exact H].
Qed.

Theorem cond_arm_only_through_rebuild n rho c p body arms r : pat_nofb p = true ->
  eval (S n) rho (ECondPat c ((p, body) :: arms)) = Ok r ->
  exists v, eval n rho c = Ok v /\
    ((exists sc, rebuilds rho sc p v /\ binds_exactly p sc /\ eval n (sc ++ rho) body = Ok r) \/
     ((forall s, ~ rebuilds rho s p v) /\ eval (S n) rho (ECondPat c arms) = Ok r)).
Proof.
  intros Hnf H. cbn [eval evalF] in H.
  destruct (eval n rho c) as [v| | |] eqn:Ec; cbn [rbind] in H; try discriminate.
  exists v. split; [reflexivity|].
  destruct (bind_pat n rho p v) as [sc| | |] eqn:Eb; try discriminate.
  - left. destruct (match_rebuilds _ _ _ _ _ Hnf Eb) as [Hr Hb]. exists sc. split; [exact Hr|]. split; [exact Hb | exact H].
  - right. split; [eapply match_error_no_rebuild; eauto|].
    cbn [eval evalF]. rewrite Ec. cbn [rbind]. exact H.
Qed.
