(* The Go ordering (Rep/Less.v rcmp) is a strict total order whose Eq is identity
   on every value the Go representations can hold (property C06): canonical,
   sugar tuples well typed, no two sequence items at one index, no hand-written
   nested @neg.  Nested induction on the depth; the recursion through sets
   "sorted by the order itself" closes because the order laws of a comparison
   through a sorted enumeration need only that sorting permutes. *)
From Arrai Require Import Base.Val Spec.SetAlg Eval.Interp Proofs.ValOrder Proofs.SetAlgP Proofs.CanonP Proofs.WfP
  Rep.Less Proofs.LessP Proofs.SortP.
From Coq Require Import Permutation ZifyBool ZifyNat.

(* ---------- order-law toolkit ---------- *)

Lemma ordR_ext {A} (f g : A -> A -> comparison) a b c :
  f a a = g a a -> f a b = g a b -> f b a = g b a -> f b c = g b c -> f a c = g a c ->
  ordR g a b c -> ordR f a b c.
Proof. unfold ordR. intros -> -> -> -> ->. exact (fun H => H). Qed.

(* a comparison through an injective encoding *)
Lemma enc_ordR {A B} (enc : A -> B) (cb : B -> B -> comparison) (Q : A -> Prop) (QB : B -> Prop) :
  (forall a, Q a -> QB (enc a)) ->
  (forall x y z, QB x -> QB y -> QB z -> ordR cb x y z) ->
  (forall a b, Q a -> Q b -> enc a = enc b -> a = b) ->
  forall a b c, Q a -> Q b -> Q c -> ordR (fun a b => cb (enc a) (enc b)) a b c.
Proof.
  intros HQ HO Hinj a b c Ha Hb Hc.
  destruct (HO (enc a) (enc b) (enc c) (HQ a Ha) (HQ b Hb) (HQ c Hc)) as (Hr & He & Ha' & Ht).
  unfold ordR. repeat split; try assumption.
  intros H. apply Hinj; try assumption. apply He, H.
Qed.

(* the reversed comparison (@neg wrappers) *)
Lemma flip_ordR {A} (cmp : A -> A -> comparison) (Q : A -> Prop) :
  (forall x y z, Q x -> Q y -> Q z -> ordR cmp x y z) ->
  forall x y z, Q x -> Q y -> Q z -> ordR (fun a b => cmp b a) x y z.
Proof.
  intros HO x y z Hx Hy Hz.
  destruct (HO x y z Hx Hy Hz) as (Hr & He & Ha & Ht).
  destruct (HO z y x Hz Hy Hx) as (_ & _ & _ & Ht').
  destruct (HO y x x Hy Hx Hx) as (_ & He' & Ha' & _).
  destruct (HO z y y Hz Hy Hy) as (_ & _ & Ha'' & _).
  destruct (HO z x x Hz Hx Hx) as (_ & _ & Ha3 & _).
  unfold ordR. repeat split.
  - exact Hr.
  - intros H. symmetry. apply He', H.
  - rewrite Ha'. destruct (cmp y x); reflexivity.
  - intros H1 H2. apply Ht'; assumption.
Qed.

(* a key decides first; under equal keys a second comparison *)
Section KeyThen.
Context {V K : Type} (key : V -> K) (ck : K -> K -> comparison) (kc : V -> V -> comparison) (Q : V -> Prop).
Hypothesis ck_ord : forall x y z, ordR ck x y z.
Hypothesis kc_ord : forall a b c, Q a -> Q b -> Q c -> key a = key b -> key b = key c -> ordR kc a b c.
Definition kcmp (a b : V) : comparison := match ck (key a) (key b) with Eq => kc a b | c => c end.
Lemma kcmp_ordR a b c : Q a -> Q b -> Q c -> ordR kcmp a b c.
Proof.
  intros Ha Hb Hc. unfold ordR, kcmp.
  destruct (ck_ord (key a) (key b) (key c)) as (Kr & Ke & Ka & Kt).
  destruct (ck_ord (key b) (key c) (key c)) as (_ & Ke2 & _ & _).
  repeat split.
  - rewrite Kr. apply (kc_ord a a a); auto.
  - destruct (ck (key a) (key b)) eqn:E; try discriminate.
    specialize (Ke eq_refl). apply (kc_ord a b b); auto.
  - rewrite Ka. destruct (ck (key a) (key b)) eqn:E; simpl; try reflexivity.
    specialize (Ke eq_refl). apply (kc_ord a b b); auto.
  - destruct (ck (key a) (key b)) eqn:E1; try discriminate.
    + specialize (Ke eq_refl). rewrite <- Ke.
      destruct (ck (key a) (key c)) eqn:E2; try discriminate; [|reflexivity].
      rewrite Ke in E2. specialize (Ke2 E2).
      apply (kc_ord a b c); auto.
    + intros _. destruct (ck (key b) (key c)) eqn:E2; try discriminate.
      * specialize (Ke2 eq_refl). rewrite <- Ke2, E1. reflexivity.
      * intros _. rewrite (Kt eq_refl eq_refl). reflexivity.
Qed.
End KeyThen.

(* the kind tie-break on a class of values *)
Section KindTieBreakQ.
Context {V K : Type} (kind : V -> K) (rank : K -> Z) (kc : K -> V -> V -> comparison) (Q : V -> Prop).
Hypothesis rank_inj : forall a b, Q a -> Q b -> rank (kind a) = rank (kind b) -> kind a = kind b.
Hypothesis kc_ord : forall k a b c, Q a -> Q b -> Q c -> kind a = k -> kind b = k -> kind c = k -> ordR (kc k) a b c.
Lemma gcmpQ_ordR a b c : Q a -> Q b -> Q c -> ordR (gcmp kind rank kc) a b c.
Proof.
  intros Ha Hb Hc.
  pose (kc' := fun x y => kc (kind x) x y).
  assert (E : forall x y, gcmp kind rank kc x y = kcmp (fun v => rank (kind v)) Z.compare kc' x y) by reflexivity.
  apply (ordR_ext _ (kcmp (fun v => rank (kind v)) Z.compare kc')); try apply E.
  apply (kcmp_ordR (fun v => rank (kind v)) Z.compare kc' Q); try assumption.
  - apply Zcmp_ordR.
  - intros x y z Hx Hy Hz E1 E2. unfold kc'.
    pose proof (rank_inj x y Hx Hy E1) as K1. pose proof (rank_inj y z Hy Hz E2) as K2.
    unfold ordR. rewrite <- K1.
    apply (kc_ord (kind x) x y z); congruence.
Qed.
End KindTieBreakQ.

(* pairs: first component, then second *)
Section PairLex.
Context {A B : Type} (ca : A -> A -> comparison) (cb : B -> B -> comparison) (QA : A -> Prop) (QB : B -> Prop).
Hypothesis HA : forall x y z, QA x -> QA y -> QA z -> ordR ca x y z.
Hypothesis HB : forall x y z, QB x -> QB y -> QB z -> ordR cb x y z.
Definition pcmp (p q : A * B) : comparison := match ca (fst p) (fst q) with Eq => cb (snd p) (snd q) | c => c end.
Lemma pcmp_ordR p q r : QA (fst p) -> QB (snd p) -> QA (fst q) -> QB (snd q) -> QA (fst r) -> QB (snd r) -> ordR pcmp p q r.
Proof.
  destruct p as [a1 b1], q as [a2 b2], r as [a3 b3]; simpl. intros A1 B1 A2 B2 A3 B3.
  destruct (HA a1 a2 a3 A1 A2 A3) as (Ar & Ae & Aa & At).
  destruct (HA a2 a3 a3 A2 A3 A3) as (_ & Ae2 & _ & _).
  destruct (HB b1 b2 b3 B1 B2 B3) as (Br & Be & Ba & Bt).
  unfold ordR, pcmp; simpl. repeat split.
  - rewrite Ar. exact Br.
  - destruct (ca a1 a2) eqn:E; try discriminate. intros H. rewrite (Ae eq_refl), (Be H). reflexivity.
  - rewrite Aa. destruct (ca a1 a2); simpl; [exact Ba | reflexivity | reflexivity].
  - destruct (ca a1 a2) eqn:E1; try discriminate.
    + specialize (Ae eq_refl); subst a2. destruct (ca a1 a3) eqn:E2; try discriminate; [exact Bt | reflexivity].
    + intros _. destruct (ca a2 a3) eqn:E2; try discriminate.
      * specialize (Ae2 eq_refl); subst a3. rewrite E1. reflexivity.
      * intros _. rewrite (At eq_refl eq_refl). reflexivity.
Qed.
End PairLex.

(* cells of an array: an item sorts before a hole *)
Definition optcmp (c : val -> val -> comparison) (x y : option val) : comparison :=
  match x, y with
  | None, None => Eq
  | Some _, None => Lt
  | None, Some _ => Gt
  | Some u, Some v => c u v
  end.
Definition optQ (Q : val -> Prop) (x : option val) : Prop := match x with Some v => Q v | None => True end.
Lemma optcmp_ordR (c : val -> val -> comparison) (Q : val -> Prop) :
  (forall x y z, Q x -> Q y -> Q z -> ordR c x y z) ->
  forall x y z, optQ Q x -> optQ Q y -> optQ Q z -> ordR (optcmp c) x y z.
Proof.
  intros HO [x|] [y|] [z|] Hx Hy Hz; unfold ordR; simpl in *;
    try (repeat split; intros; first [discriminate | reflexivity]).
  - destruct (HO x y z Hx Hy Hz) as (Hr & He & Ha & Ht). repeat split; try assumption.
    intros H. rewrite (He H). reflexivity.
  - destruct (HO x y y Hx Hy Hy) as (Hr & He & Ha & Ht). repeat split; try assumption; try discriminate.
    intros H. rewrite (He H). reflexivity.
  - destruct (HO x x x Hx Hx Hx) as (Hr & _). repeat split; try assumption; try discriminate; reflexivity.
  - destruct (HO x x x Hx Hx Hx) as (Hr & _). repeat split; try assumption; try discriminate; reflexivity.
Qed.

Lemma natcmp_ordR x y z : ordR Nat.compare x y z.
Proof.
  repeat split.
  - apply Nat.compare_refl.
  - apply Nat.compare_eq.
  - apply Nat.compare_antisym.
  - rewrite !Nat.compare_lt_iff. lia.
Qed.

(* ---------- the total counterparts of the combinators of Rep/Less.v ---------- *)

Definition tcmp_of (cmp : val -> val -> rres comparison) (x y : val) : comparison :=
  match cmp x y with ROk c => c | _ => Eq end.

Section Isort.
Context {A : Type} (c : A -> A -> comparison).
Fixpoint iinsert (x : A) (l : list A) : list A :=
  match l with
  | [] => [x]
  | y :: l' => match c x y with Gt => y :: iinsert x l' | _ => x :: l end
  end.
Fixpoint isort (l : list A) : list A :=
  match l with [] => [] | x :: l' => iinsert x (isort l') end.
Lemma iinsert_perm x l : Permutation (x :: l) (iinsert x l).
Proof.
  induction l as [|y l IH]; simpl; [apply Permutation_refl|].
  destruct (c x y); try apply Permutation_refl.
  eapply Permutation_trans; [apply perm_swap | apply perm_skip, IH].
Qed.
Lemma isort_perm l : Permutation l (isort l).
Proof.
  induction l as [|x l IH]; simpl; [apply Permutation_refl|].
  eapply Permutation_trans; [apply perm_skip, IH | apply iinsert_perm].
Qed.
Lemma isort_in l x : In x (isort l) <-> In x l.
Proof. split; apply Permutation_in; [apply Permutation_sym|]; apply isort_perm. Qed.
Lemma isort_Forall (P : A -> Prop) l : Forall P l -> Forall P (isort l).
Proof. intros H. eapply Permutation_Forall; [apply isort_perm | exact H]. Qed.
Lemma isort_length l : length (isort l) = length l.
Proof. symmetry. apply Permutation_length, isort_perm. Qed.
End Isort.

Section Lift.
Variable cmp : val -> val -> rres comparison.
Let c := tcmp_of cmp.
Definition defd (x y : val) : Prop := exists r, cmp x y = ROk r.

Lemma defd_eq x y : defd x y -> cmp x y = ROk (c x y).
Proof. intros [r H]. unfold c, tcmp_of. rewrite H. reflexivity. Qed.

Lemma olex_lift a b :
  (forall x y, In x a -> In y b -> defd x y) -> olex cmp a b = ROk (lcmp c a b).
Proof.
  revert b; induction a as [|x a IH]; intros [|y b] H; simpl; try reflexivity.
  rewrite (defd_eq x y) by (apply H; left; reflexivity).
  destruct (c x y); simpl; try reflexivity.
  apply IH. intros u v Hu Hv. apply H; right; assumption.
Qed.

Lemma oinsert_lift x l :
  (forall y, In y l -> defd x y) -> oinsert cmp x l = ROk (iinsert c x l).
Proof.
  induction l as [|y l IH]; intros H; simpl; [reflexivity|].
  rewrite (defd_eq x y) by (apply H; left; reflexivity).
  destruct (c x y); try reflexivity.
  rewrite IH by (intros z Hz; apply H; right; exact Hz). reflexivity.
Qed.

Lemma osort_lift l :
  (forall x y, In x l -> In y l -> defd x y) -> osort cmp l = ROk (isort c l).
Proof.
  induction l as [|x l IH]; intros H; simpl; [reflexivity|].
  rewrite IH by (intros u v Hu Hv; apply H; right; assumption).
  apply oinsert_lift. intros y Hy. apply isort_in in Hy. apply H; [left; reflexivity | right; exact Hy].
Qed.

Lemma ocells_lift a b :
  (forall u v, In (Some u) a -> In (Some v) b -> defd u v) -> ocells cmp a b = ROk (lcmp (optcmp c) a b).
Proof.
  revert b; induction a as [|x a IH]; intros [|y b] H; simpl; try reflexivity.
  destruct x as [u|], y as [v|]; simpl; try reflexivity.
  - rewrite (defd_eq u v) by (apply H; left; reflexivity).
    destruct (c u v); simpl; try reflexivity.
    apply IH. intros p q Hp Hq. apply H; right; assumption.
  - apply IH. intros p q Hp Hq. apply H; right; assumption.
Qed.

Lemma otup_lift la lb :
  (forall p q, In p la -> In q lb -> defd (snd p) (snd q)) -> otup cmp la lb = ROk (lcmp (acmp c) la lb).
Proof.
  revert lb; induction la as [|[n1 v1] la IH]; intros [|[n2 v2] lb] H; simpl; try reflexivity.
  unfold acmp at 1; simpl.
  destruct (name_cmp n1 n2); try reflexivity.
  rewrite (defd_eq v1 v2) by (apply (H (n1, v1) (n2, v2)); left; reflexivity).
  destruct (c v1 v2); simpl; try reflexivity.
  apply IH. intros p q Hp Hq. apply H; right; assumption.
Qed.
End Lift.

(* sorting and comparing with a derived comparison (rows of a relation) *)
Lemma osort_lift_gen (rc : val -> val -> rres comparison) l :
  (forall x y, In x l -> In y l -> defd rc x y) -> osort rc l = ROk (isort (tcmp_of rc) l).
Proof. apply osort_lift. Qed.

(* ---------- names, buckets, kinds ---------- *)

Lemma neqb_eq a b : name_eqb a b = true -> a = b.
Proof. unfold name_eqb. intros H. apply name_cmp_eq. destruct (name_cmp a b); [reflexivity | discriminate | discriminate]. Qed.
Lemma neqb_refl a : name_eqb a a = true.
Proof. unfold name_eqb. destruct (name_cmp_ordR a a a) as (-> & _). reflexivity. Qed.

Lemma names_eqb_eq a b : names_eqb a b = true -> a = b.
Proof.
  revert b; induction a as [|x a IH]; intros [|y b]; simpl; try discriminate; [reflexivity|].
  rewrite andb_true_iff. intros [H1 H2]. rewrite (neqb_eq _ _ H1), (IH _ H2). reflexivity.
Qed.
Lemma names_eqb_refl a : names_eqb a a = true.
Proof. induction a as [|x a IH]; simpl; [reflexivity|]. rewrite neqb_refl, IH. reflexivity. Qed.
Lemma bucket_eqb_eq a b : bucket_eqb a b = true -> a = b.
Proof. destruct a, b; simpl; try discriminate; try reflexivity. intros H. rewrite (names_eqb_eq _ _ H). reflexivity. Qed.
Lemma bucket_eqb_refl a : bucket_eqb a a = true.
Proof. destruct a; simpl; try reflexivity. apply names_eqb_refl. Qed.

Definition bucket_kind (b : bucket) : rkind :=
  match b with
  | BGeneric => KGeneric | BChar => KStr | BByte => KBytes | BItem => KArr | BEntry => KDict | BRel _ => KRel
  end.
Definition is_true_list (l : list val) : bool := match l with [VTup []] => true | _ => false end.
Definition all_bucket (b : bucket) (l : list val) : bool := forallb (fun x => bucket_eqb (member_bucket x) b) l.

Lemma kind_of_set m l :
  kind_of (VSet (m :: l)) =
  if is_true_list (m :: l) then KTrue
  else if all_bucket (member_bucket m) l then bucket_kind (member_bucket m) else KUnion.
Proof.
  destruct m as [n|[|p r]|s]; try reflexivity.
  destruct l; reflexivity.
Qed.

Lemma all_bucket_forall b l : all_bucket b l = true <-> forall m, In m l -> member_bucket m = b.
Proof.
  unfold all_bucket. rewrite forallb_forall. split; intros H m Hm.
  - apply bucket_eqb_eq, H, Hm.
  - rewrite (H m Hm). apply bucket_eqb_refl.
Qed.

(* a set of kind k other than empty / true / union: every member files in the bucket of k *)
Lemma kind_set_bucket l k :
  kind_of (VSet l) = k -> k <> KEmpty -> k <> KTrue -> k <> KUnion ->
  exists b, bucket_kind b = k /\ l <> [] /\ forall m, In m l -> member_bucket m = b.
Proof.
  intros Hk Ne Nt Nu. destruct l as [|m l]; [simpl in Hk; congruence|].
  rewrite kind_of_set in Hk. destruct (is_true_list (m :: l)); [congruence|].
  destruct (all_bucket (member_bucket m) l) eqn:E; [|congruence].
  exists (member_bucket m). split; [exact Hk|]. split; [discriminate|].
  intros x [<-|Hx]; [reflexivity|]. apply (proj1 (all_bucket_forall _ _) E x Hx).
Qed.

Lemma kind_set_cases l :
  (l = [] /\ kind_of (VSet l) = KEmpty) \/ (l = [VTup []] /\ kind_of (VSet l) = KTrue) \/
  (l <> [] /\ exists b, kind_of (VSet l) = bucket_kind b /\ forall m, In m l -> member_bucket m = b) \/
  kind_of (VSet l) = KUnion.
Proof.
  destruct l as [|m l]; [left; split; reflexivity|]. right.
  rewrite kind_of_set. destruct (is_true_list (m :: l)) eqn:T.
  - left. split; [|reflexivity]. destruct m as [|[|]|]; try discriminate. destruct l; [reflexivity | discriminate].
  - right. destruct (all_bucket (member_bucket m) l) eqn:E; [left | right; reflexivity].
    split; [discriminate|]. exists (member_bucket m). split; [reflexivity|].
    intros x [<-|Hx]; [reflexivity|]. apply (proj1 (all_bucket_forall _ _) E x Hx).
Qed.

Lemma bucket_kind_inj_kind b k : bucket_kind b = k ->
  match k with
  | KGeneric => b = BGeneric | KStr => b = BChar | KBytes => b = BByte | KArr => b = BItem | KDict => b = BEntry
  | KRel => exists ns, b = BRel ns
  | _ => False
  end.
Proof. intros <-. destruct b; simpl; try reflexivity. eexists; reflexivity. Qed.

(* the shape of a member from its bucket *)
Lemma member_sugar m b n :
  (b = BChar /\ n = n_char) \/ (b = BByte /\ n = n_byte) \/ (b = BItem /\ n = n_item) \/ (b = BEntry /\ n = n_value) ->
  member_bucket m = b -> exists k x, m = VTup [(n_at, k); (n, x)].
Proof.
  intros Hb Hm. destruct m as [z|l|s]; try (simpl in Hm; subst b; repeat destruct Hb as [Hb|Hb]; destruct Hb; discriminate).
  destruct l as [|[n1 k] [|[n2 x] [|q r]]];
    try (simpl in Hm; subst b; repeat destruct Hb as [Hb|Hb]; destruct Hb; discriminate).
  simpl in Hm.
  destruct (name_eqb n1 n_at) eqn:E1; [|subst b; repeat destruct Hb as [Hb|Hb]; destruct Hb; discriminate].
  apply neqb_eq in E1. subst n1. exists k, x.
  destruct (name_eqb n2 n_char) eqn:E2; [apply neqb_eq in E2|];
  [|destruct (name_eqb n2 n_byte) eqn:E3; [apply neqb_eq in E3|];
    [|destruct (name_eqb n2 n_item) eqn:E4; [apply neqb_eq in E4|];
      [|destruct (name_eqb n2 n_value) eqn:E5; [apply neqb_eq in E5|]]]];
  subst b; repeat destruct Hb as [Hb|Hb]; destruct Hb as [Hb ->]; try discriminate; subst; reflexivity.
Qed.

Lemma member_rel m ns : member_bucket m = BRel ns -> exists r, m = VTup r /\ map fst r = ns /\ r <> [].
Proof.
  intros Hm. destruct m as [z|l|s]; try discriminate.
  exists l. split; [reflexivity|].
  destruct l as [|[n1 k] [|[n2 x] [|q r]]]; try discriminate; simpl in Hm.
  - injection Hm as <-. split; [reflexivity | discriminate].
  - split; [|discriminate].
    destruct (name_eqb n1 n_at); [|injection Hm as <-; reflexivity].
    destruct (name_eqb n2 n_char); [discriminate|]. destruct (name_eqb n2 n_byte); [discriminate|].
    destruct (name_eqb n2 n_item); [discriminate|]. destruct (name_eqb n2 n_value); [discriminate|].
    injection Hm as <-; reflexivity.
  - injection Hm as <-. split; [reflexivity | discriminate].
Qed.

(* ---------- the domain ---------- *)

Definition W (v : val) : Prop := Canon v /\ go_ok v = true.

Lemma W_num n : W (VNum n).
Proof. split; [apply Canon_num | reflexivity]. Qed.

Lemma W_set l : W (VSet l) -> ssorted l /\ Forall W l /\ seq_distinct l = true.
Proof.
  intros [Hc Hg]. apply Canon_set in Hc as [Hs Hc]. simpl in Hg. apply andb_true_iff in Hg as [Hd Hg].
  split; [exact Hs|]. split; [|exact Hd].
  rewrite forallb_forall in Hg. rewrite Forall_forall in *. intros x Hx. split; [apply Hc, Hx | apply Hg, Hx].
Qed.

Lemma W_tup l : W (VTup l) -> asorted l /\ Forall (fun p => W (snd p)) l /\ sugar_ok l = true /\ neg_ok l = true.
Proof.
  intros [Hc Hg]. apply Canon_tup in Hc as [Hs Hc]. simpl in Hg.
  apply andb_true_iff in Hg as [Hg Hf]. apply andb_true_iff in Hg as [Hsu Hn].
  split; [exact Hs|]. split; [|split; assumption].
  rewrite forallb_forall in Hf. rewrite Forall_forall in *. intros x Hx. split; [apply Hc, Hx | apply Hf, Hx].
Qed.

Lemma W_member l m : W (VSet l) -> In m l -> W m.
Proof. intros H Hm. apply W_set in H as (_ & H & _). rewrite Forall_forall in H. apply H, Hm. Qed.
Lemma W_attr l p : W (VTup l) -> In p l -> W (snd p).
Proof. intros H Hp. apply W_tup in H as (_ & H & _). rewrite Forall_forall in H. apply (H p Hp). Qed.

(* two canonical sets with the same members are one value *)
Lemma W_set_ext la lb : W (VSet la) -> W (VSet lb) -> (forall m, In m la <-> In m lb) -> VSet la = VSet lb.
Proof.
  intros Ha Hb H. f_equal. apply ssorted_ext; [apply (W_set la Ha) | apply (W_set lb Hb) | exact H].
Qed.
Lemma W_set_perm la lb : W (VSet la) -> W (VSet lb) -> Permutation la lb -> VSet la = VSet lb.
Proof.
  intros Ha Hb P. apply W_set_ext; try assumption.
  intros m; split; apply Permutation_in; [exact P | apply Permutation_sym, P].
Qed.

(* kinds of values in the domain are base kinds or the negation of one *)
Lemma kind_of_neg v k : kind_of v = KNeg k -> exists n x, v = VTup [(n, x)] /\ name_eqb n n_neg = true /\ k = kind_of x.
Proof.
  destruct v as [z|l|s]; try discriminate.
  - destruct l as [|[n x] [|q r]].
    + discriminate.
    + simpl. destruct (name_eqb n n_neg) eqn:E; [|discriminate]. intros [= <-]. exists n, x. repeat split. exact E.
    + intros H. exfalso. cbn [kind_of] in H. destruct (member_bucket (VTup ((n, x) :: q :: r))); discriminate.
  - intros H. exfalso. destruct s as [|m s]; [discriminate|]. rewrite kind_of_set in H.
    destruct (is_true_list (m :: s)); [discriminate|].
    destruct (all_bucket (member_bucket m) s); [|discriminate]. destruct (member_bucket m); discriminate.
Qed.

Lemma base_kind_in k : (forall k', k <> KNeg k') -> In k base_kinds.
Proof. intros H. destruct k; simpl; try tauto. exfalso. apply (H k). reflexivity. Qed.

Lemma kind_simple v : go_ok v = true -> In (kind_of v) simple_kinds.
Proof.
  intros Hg. unfold simple_kinds. apply in_or_app.
  destruct (kind_of v) as [| | | | | | | | | | | | | | |k] eqn:E;
    try (left; apply base_kind_in; intros k' Hk'; discriminate).
  right. apply in_map. apply kind_of_neg in E as (n & x & -> & En & ->).
  apply base_kind_in. intros k' Hk'. apply kind_of_neg in Hk' as (n' & x' & -> & En' & _).
  simpl in Hg. rewrite En, En' in Hg. discriminate.
Qed.

(* ---------- sequences: (offset, cells) determines the members ---------- *)

Definition lookup (ps : list (Z * val)) (i : Z) : option val :=
  match find (fun p => Z.eqb (fst p) i) ps with Some p => Some (snd p) | None => None end.

Lemma cells_from_length lo n ps : length (cells_from lo n ps) = n.
Proof. revert lo; induction n as [|n IH]; intros lo; simpl; [reflexivity | rewrite IH; reflexivity]. Qed.

Lemma cells_from_pointwise {B} (g : option val -> B) n : forall lo pa pb,
  map g (cells_from lo n pa) = map g (cells_from lo n pb) ->
  forall i, lo <= i < lo + Z.of_nat n -> g (lookup pa i) = g (lookup pb i).
Proof.
  induction n as [|n IH]; intros lo pa pb H i Hi; [lia|].
  simpl in H. injection H as H0 H1.
  destruct (Z.eq_dec i lo) as [->|Ne]; [exact H0|].
  apply (IH (lo + 1) pa pb H1). lia.
Qed.

Lemma cells_from_some lo n ps x : In (Some x) (cells_from lo n ps) -> exists i, In (i, x) ps.
Proof.
  revert lo; induction n as [|n IH]; intros lo; simpl; [tauto|].
  intros [H|H]; [|apply (IH _ H)].
  destruct (find (fun p => Z.eqb (fst p) lo) ps) as [[j y]|] eqn:F; [|discriminate].
  injection H as <-. apply find_some in F as [F _]. exists j. exact F.
Qed.

Lemma lookup_some ps i x : lookup ps i = Some x -> In (i, x) ps.
Proof.
  unfold lookup. destruct (find (fun p => Z.eqb (fst p) i) ps) as [[j y]|] eqn:F; [|discriminate].
  intros [= <-]. apply find_some in F as [F E]. simpl in E. apply Z.eqb_eq in E. subst j. exact F.
Qed.

Lemma lookup_in ps i x : distinct_keys ps = true -> In (i, x) ps -> lookup ps i = Some x.
Proof.
  unfold lookup. induction ps as [|[j y] ps IH]; simpl; [tauto|].
  rewrite andb_true_iff, negb_true_iff. intros [Hn Hd] [H|H].
  - injection H as E1 E2. subst j y. rewrite Z.eqb_refl. reflexivity.
  - destruct (Z.eqb j i) eqn:E; [|apply IH; assumption].
    exfalso. apply Z.eqb_eq in E. subst j.
    assert (X : existsb (fun p => Z.eqb (fst p) i) ps = true) by (apply existsb_exists; exists (i, x); split; [exact H | apply Z.eqb_refl]).
    congruence.
Qed.

Lemma fold_min_le (r : list (Z * val)) z0 : fold_right (fun q acc => Z.min (fst q) acc) z0 r <= z0 /\
  forall q, In q r -> fold_right (fun q acc => Z.min (fst q) acc) z0 r <= fst q.
Proof.
  induction r as [|p r [IH1 IH2]]; simpl; [split; [lia | tauto]|].
  split; [lia|]. intros q [<-|Hq]; [lia|]. specialize (IH2 q Hq). lia.
Qed.
Lemma fold_max_ge (r : list (Z * val)) z0 : z0 <= fold_right (fun q acc => Z.max (fst q) acc) z0 r /\
  forall q, In q r -> fst q <= fold_right (fun q acc => Z.max (fst q) acc) z0 r.
Proof.
  induction r as [|p r [IH1 IH2]]; simpl; [split; [lia | tauto]|].
  split; [lia|]. intros q [<-|Hq]; [lia|]. specialize (IH2 q Hq). lia.
Qed.

Lemma seq_shape_bounds ps i x : In (i, x) ps ->
  fst (seq_shape ps) <= i < fst (seq_shape ps) + Z.of_nat (length (snd (seq_shape ps))).
Proof.
  destruct ps as [|p r]; [simpl; tauto|]. intros H. cbn [seq_shape fst snd]. rewrite cells_from_length.
  destruct (fold_min_le r (fst p)) as [L1 L2]. destruct (fold_max_ge r (fst p)) as [M1 M2].
  destruct H as [->|H]; simpl fst in *.
  - lia.
  - specialize (L2 _ H). specialize (M2 _ H). simpl in L2, M2. lia.
Qed.

Lemma seq_shape_cells ps : ps <> [] ->
  snd (seq_shape ps) = cells_from (fst (seq_shape ps)) (length (snd (seq_shape ps))) ps.
Proof. destruct ps as [|p r]; [congruence|]. intros _. cbn [seq_shape fst snd]. rewrite cells_from_length. reflexivity. Qed.

Lemma seq_shape_inj {B} (g : option val -> B) pa pb :
  distinct_keys pa = true -> distinct_keys pb = true -> pa <> [] -> pb <> [] ->
  (forall i x o, In (i, x) pa \/ In (i, x) pb -> g (Some x) = g o -> o = Some x) ->
  fst (seq_shape pa) = fst (seq_shape pb) ->
  map g (snd (seq_shape pa)) = map g (snd (seq_shape pb)) ->
  forall i x, In (i, x) pa <-> In (i, x) pb.
Proof.
  intros Da Db Na Nb Hg Hlo Hc.
  assert (Hlen : length (snd (seq_shape pa)) = length (snd (seq_shape pb))).
  { rewrite <- (map_length g (snd (seq_shape pa))), Hc, map_length. reflexivity. }
  rewrite (seq_shape_cells pa Na), (seq_shape_cells pb Nb), <- Hlo, <- Hlen in Hc.
  pose proof (cells_from_pointwise g _ _ _ _ Hc) as Hp.
  intros i x; split; intros H.
  - pose proof (seq_shape_bounds pa i x H) as Bd. specialize (Hp i Bd).
    rewrite (lookup_in pa i x Da H) in Hp. apply lookup_some. apply (Hg i x); [left; exact H | exact Hp].
  - pose proof (seq_shape_bounds pb i x H) as Bd. rewrite <- Hlo, <- Hlen in Bd. specialize (Hp i Bd).
    rewrite (lookup_in pb i x Db H) in Hp. apply lookup_some. apply (Hg i x); [right; exact H | symmetry; exact Hp].
Qed.

(* every member is (@: integer, n: x) *)
Definition SeqL (n : name) (l : list val) : Prop :=
  forall m, In m l -> exists i x, m = VTup [(n_at, VNum (NInt i)); (n, x)].

Lemma seq_pairs_cons n i x l :
  seq_pairs n (VTup [(n_at, VNum (NInt i)); (n, x)] :: l) = (i, x) :: seq_pairs n l.
Proof. unfold seq_pairs. simpl. rewrite neqb_refl. reflexivity. Qed.

Lemma seq_members_pairs n l : SeqL n l -> seq_members n l = Some (seq_pairs n l).
Proof.
  induction l as [|m l IH]; intros H; [reflexivity|].
  destruct (H m (or_introl eq_refl)) as (i & x & ->).
  rewrite seq_pairs_cons. unfold seq_members in *. simpl fold_right.
  rewrite IH by (intros m' Hm'; apply H; right; exact Hm').
  simpl. rewrite neqb_refl. reflexivity.
Qed.

Lemma in_seq_pairs n l i x : SeqL n l ->
  (In (i, x) (seq_pairs n l) <-> In (VTup [(n_at, VNum (NInt i)); (n, x)]) l).
Proof.
  induction l as [|m l IH]; intros H; [simpl; tauto|].
  destruct (H m (or_introl eq_refl)) as (j & y & ->).
  rewrite seq_pairs_cons. simpl.
  rewrite IH by (intros m' Hm'; apply H; right; exact Hm').
  split; intros [E|E]; try (right; exact E); left; congruence.
Qed.

Lemma SeqL_same_members n la lb : SeqL n la -> SeqL n lb ->
  (forall i x, In (i, x) (seq_pairs n la) <-> In (i, x) (seq_pairs n lb)) -> forall m, In m la <-> In m lb.
Proof.
  intros Ha Hb H m; split; intros Hm.
  - destruct (Ha m Hm) as (i & x & ->). apply (in_seq_pairs n lb i x Hb), H, (in_seq_pairs n la i x Ha), Hm.
  - destruct (Hb m Hm) as (i & x & ->). apply (in_seq_pairs n la i x Ha), H, (in_seq_pairs n lb i x Hb), Hm.
Qed.

Lemma seq_pairs_nonempty n l : SeqL n l -> l <> [] -> seq_pairs n l <> [].
Proof.
  destruct l as [|m l]; [congruence|]. intros H _. destruct (H m (or_introl eq_refl)) as (i & x & ->).
  rewrite seq_pairs_cons. discriminate.
Qed.

Lemma seq_distinct_pairs n l : seq_distinct l = true -> n = n_char \/ n = n_byte \/ n = n_item ->
  distinct_keys (seq_pairs n l) = true.
Proof.
  unfold seq_distinct. rewrite !andb_true_iff. intros [[H1 H2] H3] [E | [E | E]]; subst n; assumption.
Qed.

(* ---------- tuples ---------- *)

Lemma kind_tup l :
  match kind_of (VTup l) with
  | KTupG => member_bucket (VTup l) = BGeneric \/ exists ns, member_bucket (VTup l) = BRel ns
  | KTupChar => member_bucket (VTup l) = BChar
  | KTupByte => member_bucket (VTup l) = BByte
  | KTupItem => member_bucket (VTup l) = BItem
  | KTupEntry => member_bucket (VTup l) = BEntry
  | KNeg _ => exists x, l = [(n_neg, x)]
  | _ => False
  end.
Proof.
  destruct l as [|[n x] [|q r]].
  - left; reflexivity.
  - cbn [kind_of]. destruct (name_eqb n n_neg) eqn:E.
    + apply neqb_eq in E. subst n. exists x. reflexivity.
    + right. exists [n]. reflexivity.
  - cbn [kind_of]. destruct (member_bucket (VTup ((n, x) :: q :: r))) eqn:E; auto.
    right. eexists; reflexivity.
Qed.

Lemma names_lex_lcmp a b : names_lex a b = lcmp name_cmp a b.
Proof. revert b; induction a as [|x a IH]; intros [|y b]; simpl; try reflexivity. rewrite IH. reflexivity. Qed.

Lemma names_cmp_ordR x y z : ordR names_cmp x y z.
Proof.
  apply (ordR_ext _ (kcmp (@length name) Nat.compare (lcmp name_cmp)));
    try (unfold names_cmp, kcmp; rewrite names_lex_lcmp; reflexivity).
  apply (kcmp_ordR (@length name) Nat.compare (lcmp name_cmp) (fun _ => True)); try exact I.
  - apply natcmp_ordR.
  - intros a b d _ _ _ _ _. apply (lcmp_ordR name_cmp (fun _ => True)); try (apply Forall_forall; intros; exact I).
    intros; apply name_cmp_ordR.
Qed.

(* ---------- one level of the order, given the order below ---------- *)

Section Step.
Variable cmp : val -> val -> rres comparison.
Let c := tcmp_of cmp.
Variable Dom : val -> Prop.
Hypothesis Hdef : forall x y, Dom x -> Dom y -> defd cmp x y.
Hypothesis Hord : forall x y z, Dom x -> Dom y -> Dom z -> ordR c x y z.
Hypothesis Hnum : forall n, Dom (VNum n).

Definition attrs_dom (m : val) : Prop :=
  match m with VTup r => Forall (fun p => Dom (snd p)) r | _ => True end.

Lemma wrap (K : rkind) (t : val -> val -> comparison) (P : val -> Prop) :
  (forall a b, P a -> P b -> same_kind cmp K a b = ROk (t a b)) ->
  (forall a b d, P a -> P b -> P d -> ordR t a b d) ->
  forall a b d, P a -> P b -> P d -> ordR (tcmp_of (same_kind cmp K)) a b d /\ defd (same_kind cmp K) a b.
Proof.
  intros H1 H2 a b d Pa Pb Pd. split.
  - apply (ordR_ext _ t); unfold tcmp_of; try (rewrite H1 by assumption; reflexivity). apply H2; assumption.
  - eexists. apply H1; assumption.
Qed.

Lemma lcmp_c_ordR l m k : Forall Dom l -> Forall Dom m -> Forall Dom k -> ordR (lcmp c) l m k.
Proof. apply (lcmp_ordR c Dom Hord). Qed.

Lemma defd_all l m x y : Forall Dom l -> Forall Dom m -> In x l -> In y m -> defd cmp x y.
Proof. rewrite !Forall_forall. intros Hl Hm Hx Hy. apply Hdef; auto. Qed.

(* numbers, the empty set, true *)
Definition tnum (a b : val) : comparison := match a, b with VNum x, VNum y => num_cmp x y | _, _ => Eq end.
Definition Pnum (a : val) : Prop := exists x, a = VNum x.
Lemma step_num a b d : Pnum a -> Pnum b -> Pnum d ->
  ordR (tcmp_of (same_kind cmp KNum)) a b d /\ defd (same_kind cmp KNum) a b.
Proof.
  apply (wrap KNum tnum Pnum).
  - intros ? ? [x ->] [y ->]. reflexivity.
  - intros ? ? ? [x ->] [y ->] [z ->]. apply (vnum_ordR x y z).
Qed.

Lemma step_const K v : (K = KEmpty \/ K = KTrue) -> forall a b d, a = v -> b = v -> d = v ->
  ordR (tcmp_of (same_kind cmp K)) a b d /\ defd (same_kind cmp K) a b.
Proof.
  intros HK. apply (wrap K (fun _ _ => Eq) (fun a => a = v)).
  - intros a b _ _. destruct HK as [-> | ->]; reflexivity.
  - intros a b d -> -> ->. repeat split; try discriminate.
Qed.

(* tuples *)
Definition ttup (a b : val) : comparison :=
  match a, b with VTup la, VTup lb => lcmp (acmp c) la lb | _, _ => Eq end.
Definition Ptup (K : rkind) (a : val) : Prop :=
  exists l, a = VTup l /\ Forall (fun p => Dom (snd p)) l /\ kind_of a = K.

Lemma ttup_ordR a b d K : Ptup K a -> Ptup K b -> Ptup K d -> ordR ttup a b d.
Proof.
  intros (la & -> & Da & _) (lb & -> & Db & _) (ld & -> & Dd & _). simpl.
  destruct (lcmp_ordR (acmp c) (fun p => Dom (snd p))
              (fun p q r Hp Hq Hr => pcmp_ordR name_cmp c (fun _ => True) Dom
                 (fun x y z _ _ _ => name_cmp_ordR x y z) Hord p q r I Hp I Hq I Hr) la lb ld Da Db Dd)
    as (Hr & He & Ha & Ht).
  repeat split; try assumption. intros H. rewrite (He H). reflexivity.
Qed.

Lemma otup_dom la lb : Forall (fun p => Dom (snd p)) la -> Forall (fun p => Dom (snd p)) lb ->
  otup cmp la lb = ROk (lcmp (acmp c) la lb).
Proof.
  rewrite !Forall_forall. intros Ha Hb. apply otup_lift. intros p q Hp Hq. apply Hdef; auto.
Qed.

Lemma step_tup K : (K = KTupG \/ K = KTupChar \/ K = KTupByte \/ K = KTupItem \/ K = KTupEntry) ->
  forall a b d, Ptup K a -> Ptup K b -> Ptup K d ->
  ordR (tcmp_of (same_kind cmp K)) a b d /\ defd (same_kind cmp K) a b.
Proof.
  intros HK. apply (wrap K ttup (Ptup K)).
  - intros ? ? (la & -> & Da & Ka) (lb & -> & Db & Kb).
    pose proof (kind_tup la) as Ta. pose proof (kind_tup lb) as Tb. rewrite Ka in Ta. rewrite Kb in Tb.
    destruct HK as [-> | [-> | [-> | [-> | ->]]]]; unfold same_kind.
    + destruct Tb as [Tb | [ns Tb]]; rewrite Tb; apply otup_dom; assumption.
    + rewrite Ta, Tb. apply otup_dom; assumption.
    + rewrite Ta, Tb. apply otup_dom; assumption.
    + rewrite Ta, Tb. apply otup_dom; assumption.
    + rewrite Ta, Tb. apply otup_dom; assumption.
  - intros a b d. apply ttup_ordR.
Qed.

(* @neg wrappers: the wrapped values compare the other way round *)
Definition negarg (a : val) : val := match a with VTup [(_, x)] => x | _ => a end.
Definition Pneg (a : val) : Prop := exists x, a = VTup [(n_neg, x)] /\ Dom x.
Lemma step_neg k a b d : Pneg a -> Pneg b -> Pneg d ->
  ordR (tcmp_of (same_kind cmp (KNeg k))) a b d /\ defd (same_kind cmp (KNeg k)) a b.
Proof.
  apply (wrap (KNeg k) (fun a b => (fun x y => c y x) (negarg a) (negarg b)) Pneg).
  - intros ? ? (x & -> & Dx) (y & -> & Dy). simpl. apply defd_eq, Hdef; assumption.
  - apply (enc_ordR negarg (fun x y => c y x) Pneg Dom).
    + intros ? (x & -> & Dx). exact Dx.
    + apply (flip_ordR c Dom Hord).
    + intros ? ? (x & -> & _) (y & -> & _). simpl. intros ->. reflexivity.
Qed.

(* generic sets: the members in ascending order, element-wise *)
Definition genc (a : val) : list val := match a with VSet l => isort c l | _ => [] end.
Definition Pgen (a : val) : Prop := exists l, a = VSet l /\ W a /\ Forall Dom l.
Lemma sorted_lex_lift la lb : Forall Dom la -> Forall Dom lb ->
  match osort cmp la with
  | ROk sa => match osort cmp lb with ROk sb => olex cmp sa sb | RPanic => RPanic | RFuel => RFuel end
  | RPanic => RPanic | RFuel => RFuel
  end = ROk (lcmp c (isort c la) (isort c lb)).
Proof.
  intros Da Db.
  rewrite (osort_lift cmp la) by (intros x y Hx Hy; apply (defd_all la la); assumption).
  rewrite (osort_lift cmp lb) by (intros x y Hx Hy; apply (defd_all lb lb); assumption).
  apply olex_lift. intros x y Hx Hy. apply isort_in in Hx. apply isort_in in Hy. apply (defd_all la lb); assumption.
Qed.
Lemma genc_inj a b : Pgen a -> Pgen b -> genc a = genc b -> a = b.
Proof.
  intros (la & -> & Wa & _) (lb & -> & Wb & _). simpl. intros E.
  apply W_set_perm; try assumption.
  eapply Permutation_trans; [apply (isort_perm c la)|]. rewrite E. apply Permutation_sym, isort_perm.
Qed.
Lemma step_gen a b d : Pgen a -> Pgen b -> Pgen d ->
  ordR (tcmp_of (same_kind cmp KGeneric)) a b d /\ defd (same_kind cmp KGeneric) a b.
Proof.
  apply (wrap KGeneric (fun a b => lcmp c (genc a) (genc b)) Pgen).
  - intros ? ? (la & -> & _ & Da) (lb & -> & _ & Db). unfold same_kind. apply sorted_lex_lift; assumption.
  - apply (enc_ordR genc (lcmp c) Pgen (Forall Dom)).
    + intros ? (l & -> & _ & Dl). apply isort_Forall, Dl.
    + apply lcmp_c_ordR.
    + apply genc_inj.
Qed.

(* strings and byte arrays: offset, then the cells with holes below every character *)
Lemma shape_some ps x : In (Some x) (snd (seq_shape ps)) -> exists i, In (i, x) ps.
Proof. destruct ps as [|p r]; [simpl; tauto|]. apply cells_from_some. Qed.

Definition senc (n : name) (a : val) : Z * list val :=
  match a with
  | VSet l => (fst (seq_shape (seq_pairs n l)), map cell_or_hole (snd (seq_shape (seq_pairs n l))))
  | _ => (0, [])
  end.
Definition Pseq (n : name) (a : val) : Prop :=
  exists l, a = VSet l /\ W a /\ l <> [] /\ SeqL n l /\
            (forall i x, In (i, x) (seq_pairs n l) -> exists z, x = VNum (NInt z) /\ 0 <= z).

Lemma senc_dom n a : Pseq n a -> Forall Dom (snd (senc n a)).
Proof.
  intros (l & -> & _ & _ & _ & Hv). simpl. apply Forall_forall. intros v Hv'.
  apply in_map_iff in Hv' as ([x|] & <- & Hx); simpl; [|apply Hnum].
  apply shape_some in Hx as (i & Hx). destruct (Hv i x Hx) as (z & -> & _). apply Hnum.
Qed.

Lemma step_seqS K n : (K = KStr /\ n = n_char) \/ (K = KBytes /\ n = n_byte) ->
  forall a b d, Pseq n a -> Pseq n b -> Pseq n d ->
  ordR (tcmp_of (same_kind cmp K)) a b d /\ defd (same_kind cmp K) a b.
Proof.
  intros HK. apply (wrap K (fun a b => occmp (lcmp c) (senc n a) (senc n b)) (Pseq n)).
  - intros a b Pa Pb. pose proof (senc_dom n a Pa) as Da. pose proof (senc_dom n b Pb) as Db.
    destruct Pa as (la & -> & Wa & Na & Sa & Va). destruct Pb as (lb & -> & Wb & Nb & Sb & Vb).
    assert (E : same_kind cmp K (VSet la) (VSet lb) =
                oseq n (fun ca cb => olex cmp (map cell_or_hole ca) (map cell_or_hole cb)) la lb)
      by (destruct HK as [[-> ->] | [-> ->]]; reflexivity).
    rewrite E. unfold oseq. rewrite !seq_members_pairs by assumption.
    unfold senc in *. cbn [snd] in Da, Db.
    destruct (seq_shape (seq_pairs n la)) as [oa ca]. destruct (seq_shape (seq_pairs n lb)) as [ob cb].
    cbn [fst snd] in *.
    rewrite (olex_lift cmp) by (intros x y Hx Hy; apply (defd_all _ _ x y Da Db); assumption).
    unfold occmp. cbn [fst snd]. destruct (Z.compare oa ob); reflexivity.
  - apply (enc_ordR (senc n) (occmp (lcmp c)) (Pseq n) (fun p => Forall Dom (snd p))).
    + apply senc_dom.
    + intros x y z. apply (occmp_ordR (lcmp c) (Forall Dom) lcmp_c_ordR).
    + intros ? ? (la & -> & Wa & Na & Sa & Va) (lb & -> & Wb & Nb & Sb & Vb). unfold senc. intros E.
      injection E as E1 E2.
      assert (Hn : n = n_char \/ n = n_byte \/ n = n_item) by (destruct HK as [[_ ->] | [_ ->]]; auto).
      apply W_set_ext; try assumption.
      apply (SeqL_same_members n la lb Sa Sb).
      apply (seq_shape_inj cell_or_hole); try assumption.
      * apply seq_distinct_pairs; [apply (W_set la Wa) | exact Hn].
      * apply seq_distinct_pairs; [apply (W_set lb Wb) | exact Hn].
      * apply seq_pairs_nonempty; assumption.
      * apply seq_pairs_nonempty; assumption.
      * intros i x o Hx Ho.
        assert (Hz : exists z, x = VNum (NInt z) /\ 0 <= z) by (destruct Hx as [Hx|Hx]; [apply (Va i x Hx) | apply (Vb i x Hx)]).
        destruct Hz as (z & -> & Hz). destruct o as [x'|]; simpl in Ho; [rewrite Ho; reflexivity|].
        exfalso. unfold hole_val, vint in Ho. injection Ho as Ho. lia.
Qed.

(* arrays: offset, then the cells; an item sorts before a hole *)
Definition aenc (a : val) : Z * list (option val) :=
  match a with VSet l => seq_shape (seq_pairs n_item l) | _ => (0, []) end.
Definition Parr (a : val) : Prop :=
  exists l, a = VSet l /\ W a /\ l <> [] /\ SeqL n_item l /\ (forall i x, In (i, x) (seq_pairs n_item l) -> Dom x).

Lemma aenc_dom a : Parr a -> Forall (optQ Dom) (snd (aenc a)).
Proof.
  intros (l & -> & _ & _ & _ & Hv). simpl. apply Forall_forall. intros [x|] Hx; simpl; [|exact I].
  apply shape_some in Hx as (i & Hx). apply (Hv i x Hx).
Qed.

Lemma step_arr : forall a b d, Parr a -> Parr b -> Parr d ->
  ordR (tcmp_of (same_kind cmp KArr)) a b d /\ defd (same_kind cmp KArr) a b.
Proof.
  apply (wrap KArr (fun a b => occmp (lcmp (optcmp c)) (aenc a) (aenc b)) Parr).
  - intros a b Pa Pb. pose proof (aenc_dom a Pa) as Da. pose proof (aenc_dom b Pb) as Db.
    destruct Pa as (la & -> & Wa & Na & Sa & Va). destruct Pb as (lb & -> & Wb & Nb & Sb & Vb).
    unfold same_kind, oseq. rewrite !seq_members_pairs by assumption.
    unfold aenc in *.
    destruct (seq_shape (seq_pairs n_item la)) as [oa ca]. destruct (seq_shape (seq_pairs n_item lb)) as [ob cb].
    cbn [fst snd] in *.
    rewrite (ocells_lift cmp).
    + unfold occmp. cbn [fst snd]. destruct (Z.compare oa ob); reflexivity.
    + intros u v Hu Hv. rewrite Forall_forall in Da, Db. apply Hdef; [apply (Da (Some u) Hu) | apply (Db (Some v) Hv)].
  - apply (enc_ordR aenc (occmp (lcmp (optcmp c))) Parr (fun p => Forall (optQ Dom) (snd p))).
    + apply aenc_dom.
    + intros x y z. apply (occmp_ordR (lcmp (optcmp c)) (Forall (optQ Dom))).
      apply (lcmp_ordR (optcmp c) (optQ Dom)). apply (optcmp_ordR c Dom Hord).
    + intros ? ? (la & -> & Wa & Na & Sa & Va) (lb & -> & Wb & Nb & Sb & Vb). unfold aenc. intros E.
      apply W_set_ext; try assumption.
      apply (SeqL_same_members n_item la lb Sa Sb).
      apply (seq_shape_inj (fun o => o)); try assumption.
      * apply seq_distinct_pairs; [apply (W_set la Wa) | auto].
      * apply seq_distinct_pairs; [apply (W_set lb Wb) | auto].
      * apply seq_pairs_nonempty; assumption.
      * apply seq_pairs_nonempty; assumption.
      * intros i x o _ Ho. symmetry. exact Ho.
      * rewrite E. reflexivity.
      * rewrite !map_id, E. reflexivity.
Qed.

(* dicts: the keys in ascending order, each with its values in ascending order *)
Definition entries (l : list val) : list (val * val) :=
  flat_map (fun m => match entry_of m with Some e => [e] | None => [] end) l.
Definition DictL (l : list val) : Prop :=
  forall m, In m l -> exists k v, m = VTup [(n_at, k); (n_value, v)].

Lemma dict_entries_total l : DictL l -> dict_entries l = Some (entries l).
Proof.
  induction l as [|m l IH]; intros H; [reflexivity|].
  destruct (H m (or_introl eq_refl)) as (k & v & ->). simpl.
  rewrite IH by (intros m' Hm'; apply H; right; exact Hm'). reflexivity.
Qed.
Lemma in_entries l k v : DictL l -> (In (k, v) (entries l) <-> In (VTup [(n_at, k); (n_value, v)]) l).
Proof.
  induction l as [|m l IH]; intros H; [simpl; tauto|].
  destruct (H m (or_introl eq_refl)) as (k' & v' & ->). simpl.
  rewrite IH by (intros m' Hm'; apply H; right; exact Hm').
  split; intros [E|E]; try (right; exact E); left; congruence.
Qed.
Lemma in_dict_keys es k : In k (dict_keys es) <-> exists v, In (k, v) es.
Proof.
  induction es as [|[k0 v0] es IH]; simpl; [split; [tauto | intros [v []]]|].
  destruct (existsb (fun e => veqb (fst e) k0) es) eqn:E.
  - rewrite IH. split; [intros [v Hv]; exists v; right; exact Hv|].
    intros [v [Hv|Hv]]; [|exists v; exact Hv].
    injection Hv as -> ->. apply existsb_exists in E as ([k1 v1] & H1 & H2). simpl in H2.
    apply veqb_eq in H2. subst k1. exists v1. exact H1.
  - simpl. rewrite IH. split.
    + intros [->|[v Hv]]; [exists v0; left; reflexivity | exists v; right; exact Hv].
    + intros [v [Hv|Hv]]; [injection Hv as -> ->; left; reflexivity | right; exists v; exact Hv].
Qed.
Lemma in_dict_vals es k v : In v (dict_vals es k) <-> In (k, v) es.
Proof.
  unfold dict_vals. rewrite in_map_iff. split.
  - intros ([k' v'] & <- & H). apply filter_In in H as [H E]. simpl in E. apply veqb_eq in E. subst k'. exact H.
  - intros H. exists (k, v). split; [reflexivity|]. apply filter_In. split; [exact H|]. simpl. apply veqb_eq. reflexivity.
Qed.

Definition grp (es : list (val * val)) (k : val) : val * list val := (k, isort c (dict_vals es k)).
Definition denc (a : val) : list (val * list val) :=
  match a with VSet l => map (grp (entries l)) (isort c (dict_keys (entries l))) | _ => [] end.
Definition Pdict (a : val) : Prop :=
  exists l, a = VSet l /\ W a /\ DictL l /\ (forall k v, In (k, v) (entries l) -> Dom k /\ Dom v).
Definition Qgrp (g : val * list val) : Prop := Dom (fst g) /\ Forall Dom (snd g).

Lemma ogroups_lift ea eb ka kb :
  (forall k, In k ka -> Dom k /\ Forall Dom (dict_vals ea k)) ->
  (forall k, In k kb -> Dom k /\ Forall Dom (dict_vals eb k)) ->
  ogroups cmp ea eb ka kb = ROk (lcmp (pcmp c (lcmp c)) (map (grp ea) ka) (map (grp eb) kb)).
Proof.
  revert kb; induction ka as [|k1 ka IH]; intros [|k2 kb] Ha Hb; try reflexivity.
  destruct (Ha k1 (or_introl eq_refl)) as [D1 V1]. destruct (Hb k2 (or_introl eq_refl)) as [D2 V2].
  cbn [ogroups map lcmp].
  rewrite (defd_eq cmp k1 k2) by (apply Hdef; assumption).
  rewrite (osort_lift cmp (dict_vals ea k1)) by (intros x y Hx Hy; apply (defd_all _ _ x y V1 V1); assumption).
  rewrite (osort_lift cmp (dict_vals eb k2)) by (intros x y Hx Hy; apply (defd_all _ _ x y V2 V2); assumption).
  rewrite (olex_lift cmp) by (intros x y Hx Hy; apply isort_in in Hx; apply isort_in in Hy; apply (defd_all _ _ x y V1 V2); assumption).
  unfold pcmp at 1. cbn [fst snd grp].
  change (tcmp_of cmp) with c.
  destruct (c k1 k2); cbn [obind]; try reflexivity.
  destruct (lcmp c (isort c (dict_vals ea k1)) (isort c (dict_vals eb k2))); cbn [obind]; try reflexivity.
  apply IH; intros k Hk; [apply Ha | apply Hb]; right; exact Hk.
Qed.

Lemma denc_member es k v :
  In (k, v) es <-> exists vs, In (k, vs) (map (grp es) (isort c (dict_keys es))) /\ In v vs.
Proof.
  split.
  - intros H. exists (isort c (dict_vals es k)). split.
    + apply in_map_iff. exists k. split; [reflexivity|]. apply isort_in, in_dict_keys. exists v. exact H.
    + apply isort_in, in_dict_vals, H.
  - intros (vs & H1 & H2). apply in_map_iff in H1 as (k' & E & _). unfold grp in E. injection E as -> <-.
    apply isort_in in H2. apply in_dict_vals, H2.
Qed.

Lemma Pdict_keys a : Pdict a -> match a with VSet l =>
    forall k, In k (isort c (dict_keys (entries l))) -> Dom k /\ Forall Dom (dict_vals (entries l) k) | _ => True end.
Proof.
  intros (l & -> & _ & _ & Hd). intros k Hk. apply isort_in, in_dict_keys in Hk as (v & Hv).
  split; [apply (Hd k v Hv)|]. apply Forall_forall. intros v' Hv'. apply in_dict_vals in Hv'. apply (Hd k v' Hv').
Qed.

Lemma step_dict : forall a b d, Pdict a -> Pdict b -> Pdict d ->
  ordR (tcmp_of (same_kind cmp KDict)) a b d /\ defd (same_kind cmp KDict) a b.
Proof.
  apply (wrap KDict (fun a b => lcmp (pcmp c (lcmp c)) (denc a) (denc b)) Pdict).
  - intros a b Pa Pb. pose proof (Pdict_keys a Pa) as Ka. pose proof (Pdict_keys b Pb) as Kb.
    destruct Pa as (la & -> & Wa & La & Da). destruct Pb as (lb & -> & Wb & Lb & Db).
    unfold same_kind, odict. rewrite (dict_entries_total la La), (dict_entries_total lb Lb).
    assert (KD : forall l, (forall k v, In (k, v) (entries l) -> Dom k /\ Dom v) -> Forall Dom (dict_keys (entries l))).
    { intros l Hl. apply Forall_forall. intros k Hk. apply in_dict_keys in Hk as (v & Hv). apply (Hl k v Hv). }
    rewrite (osort_lift cmp (dict_keys (entries la))) by (intros x y Hx Hy; apply (defd_all _ _ x y (KD la Da) (KD la Da)); assumption).
    rewrite (osort_lift cmp (dict_keys (entries lb))) by (intros x y Hx Hy; apply (defd_all _ _ x y (KD lb Db) (KD lb Db)); assumption).
    apply ogroups_lift; assumption.
  - apply (enc_ordR denc (lcmp (pcmp c (lcmp c))) Pdict (Forall Qgrp)).
    + intros a Pa. pose proof (Pdict_keys a Pa) as Ka. destruct Pa as (l & -> & _). simpl.
      apply Forall_forall. intros g Hg. apply in_map_iff in Hg as (k & <- & Hk). destruct (Ka k Hk) as [D1 D2].
      split; [exact D1 | apply isort_Forall, D2].
    + apply (lcmp_ordR (pcmp c (lcmp c)) Qgrp). intros p q r [P1 P2] [Q1 Q2] [R1 R2].
      apply (pcmp_ordR c (lcmp c) Dom (Forall Dom) Hord lcmp_c_ordR); assumption.
    + intros ? ? (la & -> & Wa & La & _) (lb & -> & Wb & Lb & _). simpl. intros E.
      apply W_set_ext; try assumption. intros m; split; intros Hm.
      * destruct (La m Hm) as (k & v & ->). apply (in_entries lb k v Lb), denc_member. rewrite <- E.
        apply denc_member, (in_entries la k v La), Hm.
      * destruct (Lb m Hm) as (k & v & ->). apply (in_entries la k v La), denc_member. rewrite E.
        apply denc_member, (in_entries lb k v Lb), Hm.
Qed.

(* relations: heading, number of rows, then the rows in column-wise ascending order compared as tuples *)
Definition rowless : val -> val -> rres comparison := fun x y => olex cmp (row_vals x) (row_vals y).
Definition mem (a : val) : list val := match a with VSet l => l | _ => [] end.
Definition renc (a : val) : list val := isort (tcmp_of rowless) (mem a).
Definition Prel (a : val) : Prop := exists l, a = VSet l /\ W a /\ Forall Dom l /\ Forall attrs_dom l.
Definition trel : val -> val -> comparison :=
  kcmp (fun a => rel_names (mem a)) names_cmp
    (kcmp (fun a => length (mem a)) Nat.compare (fun a b => lcmp c (renc a) (renc b))).

Lemma row_vals_dom m : attrs_dom m -> Forall Dom (row_vals m).
Proof.
  destruct m as [z|r|s]; simpl; try (intros _; constructor).
  intros H. apply Forall_forall. intros v Hv. apply in_map_iff in Hv as (p & <- & Hp).
  rewrite Forall_forall in H. apply (H p Hp).
Qed.

Lemma step_rel : forall a b d, Prel a -> Prel b -> Prel d ->
  ordR (tcmp_of (same_kind cmp KRel)) a b d /\ defd (same_kind cmp KRel) a b.
Proof.
  apply (wrap KRel trel Prel).
  - intros ? ? (la & -> & Wa & Da & Aa) (lb & -> & Wb & Db & Ab).
    unfold same_kind, orel, trel, kcmp. cbn [mem].
    destruct (names_cmp (rel_names la) (rel_names lb)); cbn [ocomb]; try reflexivity.
    destruct (Nat.compare (length la) (length lb)); cbn [ocomb]; try reflexivity.
    assert (RD : forall l m, Forall attrs_dom l -> Forall attrs_dom m -> forall x y, In x l -> In y m -> defd rowless x y).
    { intros l m Hl Hm x y Hx Hy. rewrite Forall_forall in Hl, Hm. unfold rowless. eexists. apply olex_lift.
      intros u v Hu Hv. apply (defd_all _ _ u v (row_vals_dom x (Hl x Hx)) (row_vals_dom y (Hm y Hy))); assumption. }
    fold rowless.
    rewrite (osort_lift rowless la) by (apply RD; assumption).
    rewrite (osort_lift rowless lb) by (apply RD; assumption).
    unfold renc. cbn [mem]. apply olex_lift. intros x y Hx Hy. apply isort_in in Hx. apply isort_in in Hy.
    apply (defd_all la lb); assumption.
  - intros a b d Pa Pb Pd. unfold trel.
    apply (kcmp_ordR (fun a => rel_names (mem a)) names_cmp _ Prel); try assumption; [apply names_cmp_ordR|].
    clear a b d Pa Pb Pd. intros a b d Pa Pb Pd _ _.
    apply (kcmp_ordR (fun a => length (mem a)) Nat.compare _ Prel); try assumption; [apply natcmp_ordR|].
    clear a b d Pa Pb Pd. intros a b d Pa Pb Pd _ _.
    apply (enc_ordR renc (lcmp c) Prel (Forall Dom)); try assumption.
    + intros ? (l & -> & _ & Dl & _). unfold renc. apply isort_Forall, Dl.
    + apply lcmp_c_ordR.
    + intros ? ? (la & -> & Wa & _) (lb & -> & Wb & _). unfold renc. cbn [mem]. intros E.
      apply W_set_perm; try assumption.
      eapply Permutation_trans; [apply (isort_perm (tcmp_of rowless) la)|]. rewrite E. apply Permutation_sym, isort_perm.
Qed.

(* union sets: the buckets in ascending order, bucket-wise *)
Lemma in_bucket_list l b : In b (bucket_list l) <-> exists m, In m l /\ member_bucket m = b.
Proof.
  induction l as [|m0 l IH]; simpl; [split; [tauto | intros (m & [] & _)]|].
  destruct (existsb (fun x => bucket_eqb (member_bucket x) (member_bucket m0)) l) eqn:E.
  - rewrite IH. split; [intros (m & Hm & Hb); exists m; split; [right; exact Hm | exact Hb]|].
    intros (m & [<-|Hm] & Hb); [|exists m; split; assumption].
    apply existsb_exists in E as (m1 & H1 & H2). apply bucket_eqb_eq in H2. exists m1. split; [exact H1 | congruence].
  - simpl. rewrite IH. split.
    + intros [<-|(m & Hm & Hb)]; [exists m0; split; [left; reflexivity | reflexivity] | exists m; split; [right; exact Hm | exact Hb]].
    + intros (m & [<-|Hm] & Hb); [left; exact Hb | right; exists m; split; assumption].
Qed.

Lemma union_members l m : In m l <-> exists ms, In (VSet ms) (union_buckets l) /\ In m ms.
Proof.
  unfold union_buckets. split.
  - intros Hm. exists (filter (fun x => bucket_eqb (member_bucket x) (member_bucket m)) l). split.
    + apply in_map_iff. exists (member_bucket m). split; [reflexivity|]. apply in_bucket_list. exists m. split; [exact Hm | reflexivity].
    + apply filter_In. split; [exact Hm | apply bucket_eqb_refl].
  - intros (ms & H1 & H2). apply in_map_iff in H1 as (b & E & _). injection E as <-. apply filter_In in H2. apply H2.
Qed.

Definition uenc (a : val) : list val := match a with VSet l => isort c (union_buckets l) | _ => [] end.
Definition Puni (a : val) : Prop := exists l, a = VSet l /\ W a /\ Forall Dom (union_buckets l).

Lemma step_union : forall a b d, Puni a -> Puni b -> Puni d ->
  ordR (tcmp_of (same_kind cmp KUnion)) a b d /\ defd (same_kind cmp KUnion) a b.
Proof.
  apply (wrap KUnion (fun a b => lcmp c (uenc a) (uenc b)) Puni).
  - intros ? ? (la & -> & _ & Da) (lb & -> & _ & Db). unfold same_kind, ounion. apply sorted_lex_lift; assumption.
  - apply (enc_ordR uenc (lcmp c) Puni (Forall Dom)).
    + intros ? (l & -> & _ & Dl). apply isort_Forall, Dl.
    + apply lcmp_c_ordR.
    + intros ? ? (la & -> & Wa & _) (lb & -> & Wb & _). simpl. intros E.
      assert (P : Permutation (union_buckets la) (union_buckets lb)).
      { eapply Permutation_trans; [apply (isort_perm c)|]. rewrite E. apply Permutation_sym, isort_perm. }
      apply W_set_ext; try assumption. intros m; split; intros Hm.
      * apply union_members in Hm as (ms & H1 & H2). apply union_members. exists ms. split; [|exact H2].
        apply (Permutation_in _ P H1).
      * apply union_members in Hm as (ms & H1 & H2). apply union_members. exists ms. split; [|exact H2].
        apply (Permutation_in _ (Permutation_sym P) H1).
Qed.

End Step.

(* ---------- what a value of each kind looks like ---------- *)

Lemma kind_shape a :
  match kind_of a with
  | KNum => exists x, a = VNum x
  | KEmpty | KTrue | KGeneric | KStr | KBytes | KArr | KDict | KUnion | KRel => exists l, a = VSet l
  | _ => exists l, a = VTup l
  end.
Proof.
  destruct a as [z|l|l].
  - simpl; eauto.
  - pose proof (kind_tup l) as H. destruct (kind_of (VTup l)); try contradiction; eauto.
  - destruct (kind_set_cases l) as [[_ ->]|[[_ ->]|[(_ & b & -> & _)| ->]]]; eauto. destruct b; simpl; eauto.
Qed.

Lemma sugar_char k x : sugar_ok [(n_at, k); (n_char, x)] = true ->
  exists i z, k = VNum (NInt i) /\ x = VNum (NInt z) /\ 0 <= z.
Proof.
  simpl. destruct k as [[i|h]|?|?]; simpl; try discriminate.
  destruct x as [[z|h]|?|?]; simpl; try discriminate. intros H. exists i, z. repeat split. lia.
Qed.
Lemma sugar_byte k x : sugar_ok [(n_at, k); (n_byte, x)] = true ->
  exists i z, k = VNum (NInt i) /\ x = VNum (NInt z) /\ 0 <= z.
Proof.
  simpl. destruct k as [[i|h]|?|?]; simpl; try discriminate.
  destruct x as [[z|h]|?|?]; simpl; try discriminate. intros H. exists i, z. repeat split. lia.
Qed.
Lemma sugar_item k x : sugar_ok [(n_at, k); (n_item, x)] = true -> exists i, k = VNum (NInt i).
Proof. simpl. destruct k as [[i|h]|?|?]; simpl; try discriminate. intros _. exists i. reflexivity. Qed.

(* ---------- the levels ---------- *)

Definition D (n : nat) (v : val) : Prop := W v /\ (vdepth v <= n)%nat.
Definition D' (n : nat) (v : val) : Prop := D n v /\ kind_of v <> KUnion.

Lemma D_mono n v : D n v -> D (S n) v.
Proof. intros [H1 H2]. split; [exact H1 | lia]. Qed.
Lemma D_num n z : D n (VNum z).
Proof. split; [apply W_num | simpl; lia]. Qed.
Lemma D_members n l : D (S n) (VSet l) -> Forall (D n) l.
Proof.
  intros [Hw Hd]. pose proof (vdepth_set_elems l n Hd) as H. rewrite Forall_forall in *.
  intros m Hm. split; [apply (W_member l m Hw Hm) | apply H, Hm].
Qed.
Lemma D_attrs n l : D (S n) (VTup l) -> Forall (fun p => D n (snd p)) l.
Proof.
  intros [Hw Hd]. pose proof (vdepth_tup_elems l n Hd) as H. rewrite Forall_forall in *.
  intros p Hp. split; [apply (W_attr l p Hw Hp) | apply (H p Hp)].
Qed.
Lemma D_attrs_dom n m : D n m -> attrs_dom (D n) m.
Proof.
  destruct m as [z|r|s]; simpl; try (intros _; exact I).
  destruct n as [|n]; [intros [_ H]; simpl in H; lia|].
  intros H. apply D_attrs in H. rewrite Forall_forall in *. intros p Hp. apply D_mono, (H p Hp).
Qed.
Lemma D_members_attrs n l : D (S n) (VSet l) -> Forall (attrs_dom (D n)) l.
Proof. intros H. apply D_members in H. rewrite Forall_forall in *. intros m Hm. apply D_attrs_dom, H, Hm. Qed.

(* buckets of a union set: again in the domain, no deeper, and not union sets themselves *)
Lemma in_seq_pairs_filter n f l q : In q (seq_pairs n (filter f l)) -> In q (seq_pairs n l).
Proof.
  unfold seq_pairs. rewrite !in_flat_map. intros (m & Hm & Hq). exists m. split; [|exact Hq].
  apply filter_In in Hm. apply Hm.
Qed.
Lemma distinct_keys_filter n f l : distinct_keys (seq_pairs n l) = true -> distinct_keys (seq_pairs n (filter f l)) = true.
Proof.
  induction l as [|m l IH]; [intros _; reflexivity|].
  assert (E : forall l', seq_pairs n (m :: l') = seq_pairs n [m] ++ seq_pairs n l').
  { intros l'. unfold seq_pairs. simpl. rewrite app_nil_r. reflexivity. }
  simpl filter. destruct (f m); rewrite (E l).
  - rewrite (E (filter f l)).
    destruct (seq_pairs n [m]) as [|[i x] [|q r]] eqn:Em.
    + simpl. exact IH.
    + simpl. rewrite !andb_true_iff, !negb_true_iff. intros [H1 H2]. split; [|apply IH, H2].
      destruct (existsb (fun p => Z.eqb (fst p) i) (seq_pairs n (filter f l))) eqn:X; [|reflexivity].
      apply existsb_exists in X as (p & Hp & Hi). apply in_seq_pairs_filter in Hp.
      assert (Y : existsb (fun p => Z.eqb (fst p) i) (seq_pairs n l) = true) by (apply existsb_exists; exists p; split; assumption).
      congruence.
    + exfalso. unfold seq_pairs in Em. simpl in Em. rewrite app_nil_r in Em.
      destruct m as [?|[|[n1 [[i'|?]|?|?]] [|[n2 x'] [|? ?]]]|?]; try discriminate Em.
      destruct (name_eqb n1 n_at && name_eqb n2 n); discriminate Em.
  - destruct (seq_pairs n [m]) as [|[i x] r]; [exact IH|].
    simpl. rewrite andb_true_iff. intros [_ H2].
    assert (G : forall r', distinct_keys (r' ++ seq_pairs n l) = true -> distinct_keys (seq_pairs n l) = true).
    { induction r' as [|[j y] r' IHr]; simpl; [tauto|]. rewrite andb_true_iff. intros [_ H]. apply IHr, H. }
    apply IH, (G r), H2.
Qed.

Lemma W_filter f l : W (VSet l) -> W (VSet (filter f l)).
Proof.
  intros [Hc Hg]. split; [apply filter_canon, Hc|].
  simpl in *. apply andb_true_iff in Hg as [Hd Hf]. apply andb_true_iff. split.
  - unfold seq_distinct in *. rewrite !andb_true_iff in *. destruct Hd as [[H1 H2] H3].
    repeat split; apply distinct_keys_filter; assumption.
  - rewrite forallb_forall in *. intros x Hx. apply filter_In in Hx. apply Hf, Hx.
Qed.
Lemma vdepth_filter f l : (vdepth (VSet (filter f l)) <= vdepth (VSet l))%nat.
Proof.
  simpl. apply le_n_S. induction l as [|x l IH]; simpl; [lia|]. destruct (f x); simpl; lia.
Qed.

Lemma bucket_not_union l b : In b (bucket_list l) ->
  kind_of (VSet (filter (fun m => bucket_eqb (member_bucket m) b) l)) <> KUnion.
Proof.
  intros Hb. apply in_bucket_list in Hb as (m0 & Hm0 & Hb0).
  assert (A : forall m, In m (filter (fun m => bucket_eqb (member_bucket m) b) l) -> member_bucket m = b).
  { intros m Hm. apply filter_In in Hm as [_ Hm]. apply bucket_eqb_eq, Hm. }
  destruct (filter (fun m => bucket_eqb (member_bucket m) b) l) as [|m r] eqn:E; [simpl; discriminate|].
  rewrite kind_of_set. destruct (is_true_list (m :: r)); [discriminate|].
  assert (X : all_bucket (member_bucket m) r = true).
  { apply all_bucket_forall. intros x Hx. rewrite (A x (or_intror Hx)), (A m (or_introl eq_refl)). reflexivity. }
  rewrite X. destruct (member_bucket m); discriminate.
Qed.

Lemma D_buckets n l : D (S n) (VSet l) -> Forall (D' (S n)) (union_buckets l).
Proof.
  intros [Hw Hd]. apply Forall_forall. intros B HB. unfold union_buckets in HB.
  apply in_map_iff in HB as (b & <- & Hb). split; [split|].
  - apply W_filter, Hw.
  - pose proof (vdepth_filter (fun m => bucket_eqb (member_bucket m) b) l). lia.
  - apply bucket_not_union, Hb.
Qed.

(* ---------- a value of kind K at level n+1 meets the premises of the step for K ---------- *)

Lemma set_of_kind a K : kind_of a = K ->
  match K with KEmpty | KTrue | KGeneric | KStr | KBytes | KArr | KDict | KUnion | KRel => True | _ => False end ->
  exists l, a = VSet l.
Proof. intros <- H. pose proof (kind_shape a) as S. destruct (kind_of a); try contradiction; exact S. Qed.

Lemma mk_empty a : kind_of a = KEmpty -> a = VSet [].
Proof.
  intros H. destruct (set_of_kind a _ H I) as (l & ->).
  destruct (kind_set_cases l) as [[-> _]|[[_ E]|[(_ & b & E & _)|E]]]; try reflexivity; rewrite E in H; try discriminate.
  destruct b; discriminate.
Qed.
Lemma mk_true a : kind_of a = KTrue -> a = VSet [VTup []].
Proof.
  intros H. destruct (set_of_kind a _ H I) as (l & ->).
  destruct (kind_set_cases l) as [[_ E]|[[-> _]|[(_ & b & E & _)|E]]]; try reflexivity; rewrite E in H; try discriminate.
  destruct b; discriminate.
Qed.

Lemma mk_tup n a K : D (S n) a -> kind_of a = K ->
  (K = KTupG \/ K = KTupChar \/ K = KTupByte \/ K = KTupItem \/ K = KTupEntry) -> Ptup (D n) K a.
Proof.
  intros Da Hk HK. pose proof (kind_shape a) as S. rewrite Hk in S.
  assert (exists l, a = VTup l) as (l & ->) by (destruct HK as [->|[->|[->|[->| ->]]]]; exact S).
  exists l. split; [reflexivity|]. split; [apply D_attrs, Da | exact Hk].
Qed.

Lemma mk_neg n a k : D (S n) a -> kind_of a = KNeg k -> Pneg (D n) a.
Proof.
  intros Da Hk. apply kind_of_neg in Hk as (nm & x & -> & En & _). apply neqb_eq in En. subst nm.
  exists x. split; [reflexivity|]. apply D_attrs in Da. inversion Da; assumption.
Qed.

Lemma mk_gen n a : D (S n) a -> kind_of a = KGeneric -> Pgen (D n) a.
Proof.
  intros Da Hk. destruct (set_of_kind a _ Hk I) as (l & ->).
  exists l. split; [reflexivity|]. split; [apply Da | apply D_members, Da].
Qed.

Lemma set_bucket_members a K b :
  kind_of a = K -> bucket_kind b = K -> (forall ns, b <> BRel ns) ->
  exists l, a = VSet l /\ l <> [] /\ forall m, In m l -> member_bucket m = b.
Proof.
  intros Hk Hb Hn.
  assert (exists l, a = VSet l) as (l & ->).
  { apply (set_of_kind a K Hk). rewrite <- Hb. destruct b; exact I. }
  destruct (kind_set_bucket l K Hk) as (b' & Hb' & Hne & Hm); try (rewrite <- Hb; destruct b; discriminate).
  exists l. split; [reflexivity|]. split; [exact Hne|].
  assert (b' = b); [|subst; exact Hm].
  rewrite <- Hb in Hb'. destruct b, b'; try discriminate; try reflexivity. exfalso. apply (Hn names). reflexivity.
Qed.

Lemma mk_str n a : D (S n) a -> kind_of a = KStr -> Pseq n_char a.
Proof.
  intros Da Hk. destruct (set_bucket_members a KStr BChar Hk eq_refl) as (l & -> & Hne & Hm); [discriminate|].
  assert (SL : forall m, In m l -> exists i z, m = VTup [(n_at, VNum (NInt i)); (n_char, VNum (NInt z))] /\ 0 <= z).
  { intros m Hin. destruct (member_sugar m BChar n_char) as (k & x & ->); [auto | apply Hm, Hin|].
    pose proof (W_member l _ (proj1 Da) Hin) as Wm. apply W_tup in Wm as (_ & _ & Su & _).
    apply sugar_char in Su as (i & z & -> & -> & Hz). exists i, z. split; [reflexivity | exact Hz]. }
  assert (S : SeqL n_char l) by (intros m Hin; destruct (SL m Hin) as (i & z & -> & _); eauto).
  exists l. split; [reflexivity|]. split; [apply Da|]. split; [exact Hne|]. split; [exact S|].
  intros i x Hx. apply (in_seq_pairs n_char l i x S) in Hx. destruct (SL _ Hx) as (i' & z & E & Hz).
  injection E as _ ->. exists z. split; [reflexivity | exact Hz].
Qed.

Lemma mk_bytes n a : D (S n) a -> kind_of a = KBytes -> Pseq n_byte a.
Proof.
  intros Da Hk. destruct (set_bucket_members a KBytes BByte Hk eq_refl) as (l & -> & Hne & Hm); [discriminate|].
  assert (SL : forall m, In m l -> exists i z, m = VTup [(n_at, VNum (NInt i)); (n_byte, VNum (NInt z))] /\ 0 <= z).
  { intros m Hin. destruct (member_sugar m BByte n_byte) as (k & x & ->); [auto | apply Hm, Hin|].
    pose proof (W_member l _ (proj1 Da) Hin) as Wm. apply W_tup in Wm as (_ & _ & Su & _).
    apply sugar_byte in Su as (i & z & -> & -> & Hz). exists i, z. split; [reflexivity | exact Hz]. }
  assert (S : SeqL n_byte l) by (intros m Hin; destruct (SL m Hin) as (i & z & -> & _); eauto).
  exists l. split; [reflexivity|]. split; [apply Da|]. split; [exact Hne|]. split; [exact S|].
  intros i x Hx. apply (in_seq_pairs n_byte l i x S) in Hx. destruct (SL _ Hx) as (i' & z & E & Hz).
  injection E as _ ->. exists z. split; [reflexivity | exact Hz].
Qed.

Lemma mk_arr n a : D (S n) a -> kind_of a = KArr -> Parr (D n) a.
Proof.
  intros Da Hk. destruct (set_bucket_members a KArr BItem Hk eq_refl) as (l & -> & Hne & Hm); [discriminate|].
  assert (S : SeqL n_item l).
  { intros m Hin. destruct (member_sugar m BItem n_item) as (k & x & ->); [auto 6 | apply Hm, Hin|].
    pose proof (W_member l _ (proj1 Da) Hin) as Wm. apply W_tup in Wm as (_ & _ & Su & _).
    apply sugar_item in Su as (i & ->). eauto. }
  exists l. split; [reflexivity|]. split; [apply Da|]. split; [exact Hne|]. split; [exact S|].
  intros i x Hx. apply (in_seq_pairs n_item l i x S) in Hx.
  pose proof (D_members_attrs n l Da) as A. rewrite Forall_forall in A. specialize (A _ Hx). simpl in A.
  inversion A as [|? ? _ A']. inversion A' as [|? ? Dx _]. exact Dx.
Qed.

Lemma mk_dict n a : D (S n) a -> kind_of a = KDict -> Pdict (D n) a.
Proof.
  intros Da Hk. destruct (set_bucket_members a KDict BEntry Hk eq_refl) as (l & -> & Hne & Hm); [discriminate|].
  assert (L : DictL l) by (intros m Hin; apply (member_sugar m BEntry n_value); [auto 8 | apply Hm, Hin]).
  exists l. split; [reflexivity|]. split; [apply Da|]. split; [exact L|].
  intros k v H. split;
    apply (in_entries l k v L) in H; pose proof (D_members_attrs n l Da) as A; rewrite Forall_forall in A;
    specialize (A _ H); simpl in A; inversion A as [|? ? Dk A']; inversion A' as [|? ? Dv _]; assumption.
Qed.

Lemma mk_rel n a : D (S n) a -> kind_of a = KRel -> Prel (D n) a.
Proof.
  intros Da Hk. destruct (set_of_kind a _ Hk I) as (l & ->).
  exists l. split; [reflexivity|]. split; [apply Da|]. split; [apply D_members, Da | apply D_members_attrs, Da].
Qed.

Lemma mk_uni n a : D (S n) a -> kind_of a = KUnion -> Puni (D' (S n)) a.
Proof.
  intros Da Hk. destruct (set_of_kind a _ Hk I) as (l & ->).
  exists l. split; [reflexivity|]. split; [apply Da | apply D_buckets, Da].
Qed.

(* ---------- assembling the levels ---------- *)

Section Assemble.
Variable t : list (rkind * Z).
Hypothesis Ht : check_kinds t = true.
Let knum := knum_of t.
Definition tc (f : nat) : val -> val -> comparison := tcmp_of (rcmp knum f).

Lemma tc_S f a b :
  tc (S f) a b = gcmp kind_of knum (fun k => tcmp_of (same_kind (rcmp knum f) k)) a b.
Proof.
  unfold tc, tcmp_of, gcmp. cbn [rcmp].
  destruct (Z.compare (knum (kind_of a)) (knum (kind_of b))); reflexivity.
Qed.

Lemma rank_inj a b : go_ok a = true -> go_ok b = true ->
  knum (kind_of a) = knum (kind_of b) -> kind_of a = kind_of b.
Proof. intros Ha Hb. apply (kinds_injective t Ht); apply kind_simple; assumption. Qed.

Lemma assemble (Q : val -> Prop) f :
  (forall a, Q a -> go_ok a = true) ->
  (forall k a b d, Q a -> Q b -> Q d -> kind_of a = k -> kind_of b = k -> kind_of d = k ->
     ordR (tcmp_of (same_kind (rcmp knum f) k)) a b d /\ defd (same_kind (rcmp knum f) k) a b) ->
  forall a b d, Q a -> Q b -> Q d -> ordR (tc (S f)) a b d /\ defd (rcmp knum (S f)) a b.
Proof.
  intros HQ HK a b d Qa Qb Qd. split.
  - apply (ordR_ext _ (gcmp kind_of knum (fun k => tcmp_of (same_kind (rcmp knum f) k)))); try apply tc_S.
    apply (gcmpQ_ordR kind_of knum _ Q); try assumption.
    + intros x y Qx Qy. apply rank_inj; auto.
    + intros k x y z Qx Qy Qz K1 K2 K3. apply (HK k x y z); assumption.
  - unfold defd. cbn [rcmp].
    destruct (Z.compare (knum (kind_of a)) (knum (kind_of b))) eqn:E; try (eexists; reflexivity).
    apply Z.compare_eq in E. apply rank_inj in E; auto.
    apply (HK (kind_of a) a b b); auto.
Qed.

(* every kind but the union sets: the sub-values are one level down *)
Lemma kc_nonunion n (cmp : val -> val -> rres comparison) :
  (forall x y, D n x -> D n y -> defd cmp x y) ->
  (forall x y z, D n x -> D n y -> D n z -> ordR (tcmp_of cmp) x y z) ->
  forall k a b d, D (S n) a -> D (S n) b -> D (S n) d ->
    kind_of a = k -> kind_of b = k -> kind_of d = k -> k <> KUnion ->
    ordR (tcmp_of (same_kind cmp k)) a b d /\ defd (same_kind cmp k) a b.
Proof.
  intros Hdef Hord k a b d Da Db Dd Ka Kb Kd Nu.
  destruct k.
  - apply step_num; (pose proof (kind_shape a) as Sa; pose proof (kind_shape b) as Sb; pose proof (kind_shape d) as Sd;
                     rewrite Ka in Sa; rewrite Kb in Sb; rewrite Kd in Sd; assumption).
  - apply (step_const cmp KEmpty (VSet [])); [auto | apply mk_empty; assumption ..].
  - apply (step_const cmp KTrue (VSet [VTup []])); [auto | apply mk_true; assumption ..].
  - apply (step_gen cmp (D n) Hdef Hord); apply mk_gen; assumption.
  - apply (step_seqS cmp (D n) Hdef Hord (D_num n) KStr n_char); [auto | apply (mk_str n); assumption ..].
  - apply (step_seqS cmp (D n) Hdef Hord (D_num n) KBytes n_byte); [auto | apply (mk_bytes n); assumption ..].
  - apply (step_arr cmp (D n) Hdef Hord); apply mk_arr; assumption.
  - apply (step_dict cmp (D n) Hdef Hord); apply mk_dict; assumption.
  - congruence.
  - apply (step_rel cmp (D n) Hdef Hord); apply mk_rel; assumption.
  - apply (step_tup cmp (D n) Hdef Hord KTupG); [auto 8 | apply (mk_tup n); auto 8 ..].
  - apply (step_tup cmp (D n) Hdef Hord KTupChar); [auto 8 | apply (mk_tup n); auto 8 ..].
  - apply (step_tup cmp (D n) Hdef Hord KTupItem); [auto 8 | apply (mk_tup n); auto 8 ..].
  - apply (step_tup cmp (D n) Hdef Hord KTupEntry); [auto 8 | apply (mk_tup n); auto 8 ..].
  - apply (step_tup cmp (D n) Hdef Hord KTupByte); [auto 8 | apply (mk_tup n); auto 8 ..].
  - apply (step_neg cmp (D n) Hdef Hord k); eapply mk_neg; eassumption.
Qed.

Definition Level (P : val -> Prop) (f : nat) : Prop :=
  (forall x y, P x -> P y -> defd (rcmp knum f) x y) /\
  (forall x y z, P x -> P y -> P z -> ordR (tc f) x y z).

Lemma level_of_triples (P : val -> Prop) f :
  (forall a b d, P a -> P b -> P d -> ordR (tc f) a b d /\ defd (rcmp knum f) a b) -> Level P f.
Proof. intros H. split; [intros x y Px Py; apply (H x y y Px Py Py) | intros x y z Px Py Pz; apply (H x y z Px Py Pz)]. Qed.

Lemma level0 f : (1 <= f)%nat -> Level (D 0) f.
Proof.
  intros Hf. destruct f as [|f]; [lia|]. apply level_of_triples.
  assert (N : forall a, D 0 a -> exists x, a = VNum x).
  { intros [z|l|l] [_ H]; simpl in H; try lia. eauto. }
  apply (assemble (D 0) f); [intros a [[_ G] _]; exact G|].
  intros k a b d Da Db Dd Ka Kb Kd.
  destruct (N a Da) as (x & ->). simpl in Ka. subst k.
  apply step_num; apply N; assumption.
Qed.

(* values that are not union sets, one level up *)
Lemma level_nonunion n f : Level (D n) f -> Level (D' (S n)) (S f).
Proof.
  intros [Hdef Hord]. apply level_of_triples.
  apply (assemble (D' (S n)) f); [intros a [[[_ G] _] _]; exact G|].
  intros k a b d [Da Na] [Db Nb] [Dd Nd] Ka Kb Kd.
  apply (kc_nonunion n (rcmp knum f) Hdef Hord k a b d); try assumption. congruence.
Qed.

(* all values one level up: union sets compare their buckets, which are not union sets *)
Lemma level_all n f : Level (D n) f -> Level (D' (S n)) f -> Level (D (S n)) (S f).
Proof.
  intros [Hdef Hord] [Hdef' Hord']. apply level_of_triples.
  apply (assemble (D (S n)) f); [intros a [[_ G] _]; exact G|].
  intros k a b d Da Db Dd Ka Kb Kd.
  destruct (rkind_eqb k KUnion) eqn:E.
  - apply rkind_eqb_eq in E. rewrite E in Ka, Kb, Kd |- *.
    apply (step_union (rcmp knum f) (D' (S n)) Hdef' Hord'); apply mk_uni; assumption.
  - apply (kc_nonunion n (rcmp knum f) Hdef Hord k a b d); try assumption.
    intros ->. simpl in E. discriminate.
Qed.

Lemma levels n : (forall f, (2 * n + 1 <= f)%nat -> Level (D n) f).
Proof.
  induction n as [|n IH]; intros f Hf.
  - apply level0. lia.
  - destruct f as [|[|f]]; try lia.
    apply level_all.
    + apply IH. lia.
    + apply level_nonunion, IH. lia.
Qed.

(* the bound on the fuel *)
Definition fuel_for (a b d : val) : nat := 2 * Nat.max (vdepth a) (Nat.max (vdepth b) (vdepth d)) + 1.

Theorem go_order_total a b d f :
  W a -> W b -> W d -> (fuel_for a b d <= f)%nat ->
  (exists r, rcmp knum f a b = ROk r) /\ ordR (tc f) a b d.
Proof.
  intros Wa Wb Wd Hf. unfold fuel_for in Hf.
  destruct (levels (Nat.max (vdepth a) (Nat.max (vdepth b) (vdepth d))) f Hf) as [Hdef Hord].
  split.
  - apply Hdef; split; try assumption; lia.
  - apply Hord; split; try assumption; lia.
Qed.
End Assemble.

(* ---------- the laws in terms of the observable a < b ---------- *)

Lemma rless_of_rcmp knum f x y r : rcmp knum f x y = ROk r ->
  rless knum f x y = ROk (match r with Lt => true | _ => false end) /\ tcmp_of (rcmp knum f) x y = r.
Proof. intros H. unfold rless, tcmp_of. rewrite H. split; [destruct r|]; reflexivity. Qed.

Theorem go_less_laws t : check_kinds t = true ->
  forall a b c f, W a -> W b -> W c -> (fuel_for a b c <= f)%nat ->
    let lt := rless (knum_of t) f in
    (exists r, lt a b = ROk r) /\
    lt a a = ROk false /\
    (lt a b = ROk false -> lt b a = ROk false -> a = b) /\
    (lt a b = ROk true -> lt b a = ROk false) /\
    (a <> b -> lt a b = ROk true \/ lt b a = ROk true) /\
    (lt a b = ROk true -> lt b c = ROk true -> lt a c = ROk true).
Proof.
  intros Ht a b c f Wa Wb Wc Hf lt. unfold fuel_for in Hf.
  destruct (go_order_total t Ht a b c f Wa Wb Wc) as [[rab Dab] (Oaa & Oeq & Oanti & Otr)]; [unfold fuel_for; lia|].
  destruct (go_order_total t Ht b a a f Wb Wa Wa) as [[rba Dba] _]; [unfold fuel_for; lia|].
  destruct (go_order_total t Ht a a a f Wa Wa Wa) as [[raa Daa] _]; [unfold fuel_for; lia|].
  destruct (go_order_total t Ht b c c f Wb Wc Wc) as [[rbc Dbc] _]; [unfold fuel_for; lia|].
  destruct (go_order_total t Ht a c c f Wa Wc Wc) as [[rac Dac] _]; [unfold fuel_for; lia|].
  unfold tc in *.
  destruct (rless_of_rcmp _ _ _ _ _ Dab) as [Lab Tab]. destruct (rless_of_rcmp _ _ _ _ _ Dba) as [Lba Tba].
  destruct (rless_of_rcmp _ _ _ _ _ Daa) as [Laa Taa]. destruct (rless_of_rcmp _ _ _ _ _ Dbc) as [Lbc Tbc].
  destruct (rless_of_rcmp _ _ _ _ _ Dac) as [Lac Tac].
  rewrite Taa in Oaa. rewrite Tab in Oeq, Oanti, Otr. rewrite Tba in Oanti. rewrite Tbc, Tac in Otr.
  subst raa. unfold lt. rewrite Lab, Lba, Laa, Lbc, Lac. clear Lab Lba Laa Lbc Lac.
  split; [eexists; reflexivity|]. split; [reflexivity|].
  split; [|split; [|split]].
  - intros H1 H2. apply Oeq. subst rba. destruct rab; simpl in *; try reflexivity; discriminate.
  - intros H1. subst rba. destruct rab; simpl in *; try discriminate. reflexivity.
  - intros Ne. subst rba. destruct rab; simpl; auto. exfalso. apply Ne, Oeq. reflexivity.
  - intros H1 H2. destruct rab; try discriminate. destruct rbc; try discriminate. rewrite (Otr eq_refl eq_refl). reflexivity.
Qed.

(* the hand-written nested @neg: its Kind() number is the one of the wrapped value,
   and the same-kind path of the other type's Less panics (open finding KF-C06-01) *)
Lemma nested_neg_panics knum f :
  knum (KNeg (KNeg KNum)) = knum KNum ->
  rless knum (S f) (VTup [(n_neg, VTup [(n_neg, vint 1)])]) (vint 2) = RPanic.
Proof.
  intros H. unfold rless. cbn [rcmp].
  change (kind_of (VTup [(n_neg, VTup [(n_neg, vint 1)])])) with (KNeg (KNeg KNum)).
  change (kind_of (vint 2)) with KNum.
  rewrite H, Z.compare_refl. reflexivity.
Qed.

(* ---------- the enumeration a comparison walks ---------- *)

(* the model sorts by insertion; on distinct members under the order laws this is THE strictly
   increasing sequence of the members (the one every correct sort - sort.Slice, frozen's
   OrderedElements - must produce), whatever order they were enumerated in *)
Section IsortSorted.
Context {A : Type} (c : A -> A -> comparison) (Q : A -> Prop).
Hypothesis HR : forall x y z, Q x -> Q y -> Q z -> ordR c x y z.

Lemma iinsert_ginsert x l : (forall y, In y l -> c x y <> Eq) -> iinsert c x l = ginsert c x l.
Proof.
  induction l as [|y l IH]; intros H; simpl; [reflexivity|].
  destruct (c x y) eqn:E; try reflexivity.
  - exfalso. apply (H y (or_introl eq_refl) E).
  - rewrite IH by (intros z Hz; apply H; right; exact Hz). reflexivity.
Qed.

Lemma isort_gsort l : NoDup l -> Forall Q l -> isort c l = gsort c l.
Proof.
  induction 1 as [|x l Hx Hnd IH]; intros HQ; [reflexivity|].
  inversion HQ as [|? ? Qx Ql]; subst. simpl. rewrite (IH Ql).
  apply iinsert_ginsert. intros y Hy E.
  apply (gsort_in c Q HR l y Ql) in Hy.
  rewrite Forall_forall in Ql. destruct (HR x y y Qx (Ql y Hy) (Ql y Hy)) as (_ & He & _).
  apply Hx. rewrite (He E). exact Hy.
Qed.
End IsortSorted.

Theorem go_enumeration_sorted t : check_kinds t = true ->
  forall l f, W (VSet l) -> (2 * vdepth (VSet l) + 1 <= f)%nat ->
    let c := tcmp_of (rcmp (knum_of t) f) in
    gsorted c (isort c l) /\ NoDup (isort c l) /\
    forall l', NoDup l' -> (forall x, In x l' <-> In x l) -> isort c l' = isort c l.
Proof.
  intros Ht l f Wl Hf c.
  pose (Q := fun x => W x /\ (2 * vdepth x + 1 <= f)%nat).
  assert (HR : forall x y z, Q x -> Q y -> Q z -> ordR c x y z).
  { intros x y z [Wx Fx] [Wy Fy] [Wz Fz]. apply (go_order_total t Ht x y z f Wx Wy Wz). unfold fuel_for. lia. }
  assert (Ql : Forall Q l).
  { apply Forall_forall. intros x Hx. split; [apply (W_member l x Wl Hx)|].
    remember (fold_right (fun x acc => Nat.max (vdepth x) acc) O l) as n eqn:En.
    assert (Ed : vdepth (VSet l) = S n) by (subst n; reflexivity).
    assert (Hd : Forall (fun x => (vdepth x <= n)%nat) l) by (apply vdepth_set_elems; rewrite Ed; lia).
    rewrite Forall_forall in Hd. specialize (Hd x Hx). rewrite Ed in Hf. lia. }
  assert (Nl : NoDup l) by (apply ssorted_nodup, (W_set l Wl)).
  rewrite (isort_gsort c Q HR l Nl Ql).
  destruct (gsort_strictly_increasing c Q HR l Ql) as [S1 S2].
  split; [exact S1|]. split; [exact S2|].
  intros l' Nl' Hext.
  assert (Ql' : Forall Q l') by (rewrite Forall_forall in *; intros x Hx; apply Ql, Hext, Hx).
  rewrite (isort_gsort c Q HR l' Nl' Ql').
  apply (gsort_same_members c Q HR); assumption.
Qed.
