(* Proofs about the //seq model (property C14). *)
From Arrai Require Import Base.Val Sys.SeqStd.
From Coq Require Import ZifyBool ZifyNat.

Section SeqP.
Context {A : Type} (eqb : A -> A -> bool).
Hypothesis eqb_spec : forall x y, eqb x y = true <-> x = y.

Lemma eqb_refl x : eqb x x = true.
Proof. apply eqb_spec; reflexivity. Qed.

Lemma eqb_sym x y : eqb x y = eqb y x.
Proof.
  destruct (eqb x y) eqn:E1, (eqb y x) eqn:E2; try reflexivity.
  - apply eqb_spec in E1; subst. rewrite eqb_refl in E2; discriminate.
  - apply eqb_spec in E2; subst. rewrite eqb_refl in E1; discriminate.
Qed.

(* ---------- starts_with ---------- *)

Lemma starts_with_spec sub s :
  starts_with eqb sub s = true <-> exists t, s = sub ++ t.
Proof.
  revert s; induction sub as [|x sub IH]; intros s; simpl.
  - split; [intros _; exists s; reflexivity | reflexivity].
  - destruct s as [|y s].
    + split; [discriminate | intros [t Ht]; discriminate].
    + rewrite andb_true_iff, eqb_spec, IH. split.
      * intros [-> [t ->]]. exists t; reflexivity.
      * intros [t Ht]. injection Ht as -> ->. split; [reflexivity | exists t; reflexivity].
Qed.

Lemma starts_with_app sub t : starts_with eqb sub (sub ++ t) = true.
Proof. apply starts_with_spec; exists t; reflexivity. Qed.

Lemma starts_with_length sub s :
  starts_with eqb sub s = true -> (length sub <= length s)%nat.
Proof.
  intros H; apply starts_with_spec in H as [t ->]. rewrite app_length; lia.
Qed.

Lemma window_eq_starts_with sub s : window_eq eqb sub s = starts_with eqb sub s.
Proof.
  revert s; induction sub as [|x sub IH]; intros s; simpl; [reflexivity|].
  destruct s as [|y s]; [reflexivity|].
  rewrite (eqb_sym y x). destruct (eqb x y); simpl; [apply IH | reflexivity].
Qed.

(* ---------- index: least occurrence ---------- *)

(* sub occurs in s at position n *)
Definition occurs_at (sub s : list A) (n : nat) : Prop :=
  exists l r, s = l ++ sub ++ r /\ length l = n.

Lemma occurs_at_skipn sub s n :
  occurs_at sub s n <-> (n <= length s)%nat /\ starts_with eqb sub (skipn n s) = true.
Proof.
  unfold occurs_at; split.
  - intros (l & r & -> & <-). split; [rewrite app_length; lia|].
    rewrite skipn_app, skipn_all, Nat.sub_diag; simpl. apply starts_with_app.
  - intros [Hn H]. apply starts_with_spec in H as [t Ht].
    exists (firstn n s), t. split.
    + rewrite <- Ht. symmetry; apply firstn_skipn.
    + apply firstn_length_le; exact Hn.
Qed.

Lemma index_from_none_short i sub s :
  (length s < length sub)%nat -> index_from eqb i sub s = None.
Proof.
  revert i; induction s as [|y s IH]; intros i Hlen; simpl.
  - destruct (starts_with eqb sub []) eqn:E; [|reflexivity].
    apply starts_with_length in E; simpl in *; lia.
  - destruct (starts_with eqb sub (y :: s)) eqn:E.
    + apply starts_with_length in E; simpl in *; lia.
    + apply IH; simpl in Hlen; lia.
Qed.

Lemma index_from_some i sub s k :
  index_from eqb i sub s = Some k ->
  i <= k /\ occurs_at sub s (Z.to_nat (k - i)) /\
  forall n, (n < Z.to_nat (k - i))%nat -> ~ occurs_at sub s n.
Proof.
  revert i; induction s as [|y s IH]; intros i; simpl.
  - destruct (starts_with eqb sub []) eqn:E; [|discriminate].
    intros [= <-]. rewrite Z.sub_diag; simpl. split; [lia|]. split.
    + apply occurs_at_skipn; simpl; split; [lia | exact E].
    + intros n Hn; lia.
  - destruct (starts_with eqb sub (y :: s)) eqn:E.
    + intros [= <-]. rewrite Z.sub_diag; simpl. split; [lia|]. split.
      * apply occurs_at_skipn; simpl; split; [lia | exact E].
      * intros n Hn; lia.
    + intros H. apply IH in H as (Hle & Hocc & Hleast).
      assert (Hk : Z.to_nat (k - i) = S (Z.to_nat (k - (i + 1)))) by lia.
      split; [lia|]. rewrite Hk. split.
      * apply occurs_at_skipn in Hocc as [Hn Hs].
        apply occurs_at_skipn; simpl; split; [lia | exact Hs].
      * intros n Hn Hocc'. destruct n as [|n].
        -- apply occurs_at_skipn in Hocc' as [_ Hs]; simpl in Hs. congruence.
        -- apply (Hleast n); [lia|].
           apply occurs_at_skipn in Hocc' as [Hn' Hs]; simpl in *.
           apply occurs_at_skipn; split; [lia | exact Hs].
Qed.

Lemma index_from_none i sub s :
  index_from eqb i sub s = None -> forall n, ~ occurs_at sub s n.
Proof.
  revert i; induction s as [|y s IH]; intros i; simpl.
  - destruct (starts_with eqb sub []) eqn:E; [discriminate|].
    intros _ n Hocc. apply occurs_at_skipn in Hocc as [Hn Hs]; simpl in Hn.
    assert (n = O) by lia; subst; simpl in Hs; congruence.
  - destruct (starts_with eqb sub (y :: s)) eqn:E; [discriminate|].
    intros H n Hocc. destruct n as [|n].
    + apply occurs_at_skipn in Hocc as [_ Hs]; simpl in Hs; congruence.
    + apply (IH _ H n). apply occurs_at_skipn in Hocc as [Hn Hs]; simpl in *.
      apply occurs_at_skipn; split; [lia | exact Hs].
Qed.

(* index is the LEAST position at which sub occurs, or None if there is none *)
Theorem index_least sub s k :
  index eqb sub s = Some k <->
  0 <= k /\ occurs_at sub s (Z.to_nat k) /\ forall n, (n < Z.to_nat k)%nat -> ~ occurs_at sub s n.
Proof.
  unfold index; split.
  - intros H; apply index_from_some in H. rewrite Z.sub_0_r in H. exact H.
  - intros (Hk & Hocc & Hleast).
    destruct (index_from eqb 0 sub s) as [k'|] eqn:E.
    + apply index_from_some in E as (Hk' & Hocc' & Hleast'). rewrite Z.sub_0_r in *.
      f_equal. destruct (Z.lt_trichotomy k k') as [Hlt | [-> | Hgt]]; [|reflexivity|].
      * exfalso; apply (Hleast' (Z.to_nat k)); [lia | exact Hocc].
      * exfalso; apply (Hleast (Z.to_nat k')); [lia | exact Hocc'].
    + exfalso; eapply index_from_none; eauto.
Qed.

Theorem index_none sub s :
  index eqb sub s = None <-> forall n, ~ occurs_at sub s n.
Proof.
  split; [apply index_from_none|].
  intros H. destruct (index eqb sub s) as [k|] eqn:E; [|reflexivity].
  apply index_least in E as (_ & Hocc & _). exfalso; eapply H; eauto.
Qed.

(* contains iff some window equals the pattern *)
Theorem contains_spec sub s :
  ref_contains eqb sub s = true <-> exists l r, s = l ++ sub ++ r.
Proof.
  unfold ref_contains. destruct (index eqb sub s) as [k|] eqn:E.
  - split; [intros _ | reflexivity].
    apply index_least in E as (_ & (l & r & Hs & _) & _). eauto.
  - split; [discriminate|]. intros (l & r & Hs).
    exfalso. eapply index_none; [exact E|]. exists l, r; eauto.
Qed.

(* ---------- search (array path) = index (reference path) ---------- *)

Lemma search_from_index i subject sub :
  search_from eqb i subject sub =
  match index_from eqb i sub subject with Some k => k | None => -1 end.
Proof.
  revert i; induction subject as [|y s IH]; intros i.
  - simpl. rewrite window_eq_starts_with.
    destruct sub as [|x sub]; simpl; reflexivity.
  - cbn [search_from index_from]. rewrite window_eq_starts_with.
    destruct (length sub <=? length (y :: s))%nat eqn:Hlen.
    + destruct (starts_with eqb sub (y :: s)); [reflexivity | apply IH].
    + apply Nat.leb_gt in Hlen.
      destruct (starts_with eqb sub (y :: s)) eqn:E.
      * apply starts_with_length in E; lia.
      * rewrite index_from_none_short; [reflexivity | simpl in Hlen; lia].
Qed.

Theorem search_index subject sub :
  search eqb subject sub = match index eqb sub subject with Some k => k | None => -1 end.
Proof. apply search_from_index. Qed.

Lemma index_from_nonneg i sub s k : index_from eqb i sub s = Some k -> i <= k.
Proof. intros H; apply index_from_some in H; tauto. Qed.

Theorem array_contains_ref sub subject :
  array_contains eqb sub subject = ref_contains eqb sub subject.
Proof.
  unfold array_contains, ref_contains. rewrite search_index.
  destruct (index eqb sub subject) as [k|] eqn:E; [|reflexivity].
  apply index_from_nonneg in E. lia.
Qed.

(* ---------- prefix / suffix ---------- *)

Lemma array_has_prefix_loop_ref prefix subject :
  (length prefix <= length subject)%nat ->
  array_has_prefix_loop eqb prefix subject = starts_with eqb prefix subject.
Proof.
  revert subject; induction prefix as [|p prefix IH]; intros subject Hlen; simpl; [reflexivity|].
  destruct subject as [|x subject]; [simpl in Hlen; lia|].
  rewrite (eqb_sym x p). destruct (eqb p x); simpl; [apply IH; simpl in Hlen; lia | reflexivity].
Qed.

Theorem array_has_prefix_ref prefix subject :
  array_has_prefix eqb prefix subject = ref_has_prefix eqb prefix subject.
Proof.
  unfold array_has_prefix, ref_has_prefix. destruct prefix as [|p prefix]; [reflexivity|].
  destruct (length subject <? length (p :: prefix))%nat eqn:Hlen.
  - apply Nat.ltb_lt in Hlen.
    destruct (starts_with eqb (p :: prefix) subject) eqn:E; [|reflexivity].
    apply starts_with_length in E; lia.
  - apply Nat.ltb_ge in Hlen. apply array_has_prefix_loop_ref; exact Hlen.
Qed.

Theorem has_prefix_spec p s : ref_has_prefix eqb p s = true <-> exists t, s = p ++ t.
Proof. apply starts_with_spec. Qed.

Theorem has_suffix_spec p s : ref_has_suffix eqb p s = true <-> exists l, s = l ++ p.
Proof.
  unfold ref_has_suffix. rewrite starts_with_spec. split.
  - intros [t Ht]. exists (rev t).
    rewrite <- (rev_involutive s), Ht, rev_app_distr, rev_involutive. reflexivity.
  - intros [l ->]. exists (rev l). apply rev_app_distr.
Qed.

Lemma all_eq_starts_with a b : all_eq eqb a b = starts_with eqb a b.
Proof.
  revert b; induction a as [|x a IH]; intros b; simpl; [reflexivity|].
  destruct b as [|y b]; [reflexivity|].
  rewrite (eqb_sym y x). destruct (eqb x y); simpl; [apply IH | reflexivity].
Qed.

Theorem array_has_suffix_ref suffix subject :
  array_has_suffix eqb suffix subject = ref_has_suffix eqb suffix subject.
Proof.
  unfold array_has_suffix. destruct suffix as [|p suffix]; [reflexivity|].
  remember (p :: suffix) as sf eqn:Hsf.
  destruct (length subject <? length sf)%nat eqn:Hlen.
  - apply Nat.ltb_lt in Hlen.
    destruct (ref_has_suffix eqb sf subject) eqn:E; [|reflexivity].
    apply has_suffix_spec in E as [l ->]. rewrite app_length in Hlen; lia.
  - apply Nat.ltb_ge in Hlen. rewrite all_eq_starts_with.
    destruct (ref_has_suffix eqb sf subject) eqn:E.
    + apply has_suffix_spec in E as [l ->].
      rewrite app_length, Nat.add_sub, skipn_app, skipn_all, Nat.sub_diag; simpl.
      rewrite <- (app_nil_r sf) at 2. apply starts_with_app.
    + destruct (starts_with eqb sf (skipn (length subject - length sf) subject)) eqn:E2; [|reflexivity].
      apply starts_with_spec in E2 as [t Ht].
      assert (Hl : length (skipn (length subject - length sf) subject) = length sf)
        by (rewrite skipn_length; lia).
      rewrite Ht, app_length in Hl. assert (t = []) by (destruct t; simpl in *; [reflexivity | lia]).
      subst t. rewrite app_nil_r in Ht.
      assert (E' : ref_has_suffix eqb sf subject = true).
      { apply has_suffix_spec. exists (firstn (length subject - length sf) subject).
        rewrite <- Ht at 2. symmetry; apply firstn_skipn. }
      congruence.
Qed.

(* ---------- split / join / sub ---------- *)

Lemma array_split_loop_ref fuel delim subject :
  array_split_loop eqb fuel delim subject = split_loop eqb fuel delim subject.
Proof.
  revert subject; induction fuel as [|k IH]; intros subject; simpl; [reflexivity|].
  rewrite search_index. destruct (index eqb delim subject) as [i|] eqn:E.
  - apply index_from_nonneg in E. destruct (0 <=? i) eqn:Hi; [|lia].
    rewrite IH; reflexivity.
  - reflexivity.
Qed.

Theorem array_split_ref delim subject :
  array_split eqb delim subject = ref_split eqb delim subject.
Proof.
  unfold array_split, ref_split. destruct delim; [reflexivity | apply array_split_loop_ref].
Qed.

Lemma array_join_loop_false (joiner : list A) (parts : list (list A)) :
  array_join_loop false joiner parts =
  match parts with [] => [] | _ => joiner ++ ref_join joiner parts end.
Proof.
  induction parts as [|p rest IH]; [reflexivity|].
  cbn [array_join_loop]. rewrite IH. destruct rest as [|q rest]; simpl.
  - rewrite app_nil_r; reflexivity.
  - reflexivity.
Qed.

Theorem array_join_ref (joiner : list A) (parts : list (list A)) : array_join joiner parts = ref_join joiner parts.
Proof.
  unfold array_join. destruct parts as [|p rest]; [reflexivity|].
  cbn [array_join_loop]. rewrite array_join_loop_false.
  destruct rest as [|q rest]; simpl; [rewrite app_nil_r|]; reflexivity.
Qed.

Lemma split_loop_nonempty fuel sep s : split_loop eqb fuel sep s <> [].
Proof. destruct fuel; simpl; [discriminate|]. destruct (index eqb sep s); discriminate. Qed.

Lemma array_sub_loop_ref fuel old new subject :
  array_sub_loop eqb fuel old new subject = ref_join new (split_loop eqb fuel old subject).
Proof.
  revert subject; induction fuel as [|k IH]; intros subject; simpl; [reflexivity|].
  rewrite search_index. destruct (index eqb old subject) as [i|] eqn:E.
  - apply index_from_nonneg in E. destruct (0 <=? i) eqn:Hi; [|lia].
    rewrite IH.
    destruct (split_loop eqb k old (skipn (Z.to_nat i + length old) subject)) eqn:E2.
    + exfalso; eapply split_loop_nonempty; eauto.
    + reflexivity.
  - reflexivity.
Qed.

Theorem array_sub_ref old new subject :
  array_sub eqb old new subject = ref_sub eqb old new subject.
Proof.
  unfold array_sub, ref_sub. destruct old as [|o old].
  - induction subject as [|x s IH]; simpl; [rewrite app_nil_r; reflexivity|].
    rewrite <- !app_assoc. simpl. f_equal.
    change (x :: new ++ flat_map (fun x0 => x0 :: new) s)
      with ((x :: nil) ++ (new ++ flat_map (fun x0 => x0 :: new) s)).
    rewrite <- IH. simpl. reflexivity.
  - apply array_sub_loop_ref.
Qed.

(* join inverts split *)
Lemma index_decompose sep s i :
  index eqb sep s = Some i ->
  s = firstn (Z.to_nat i) s ++ sep ++ skipn (Z.to_nat i + length sep) s.
Proof.
  intros H. apply index_least in H as (_ & (l & r & Hs & Hl) & _).
  subst s. rewrite <- Hl.
  rewrite firstn_app, firstn_all, Nat.sub_diag; simpl. rewrite app_nil_r.
  rewrite skipn_app.
  replace (length l + length sep - length l)%nat with (length sep) by lia.
  rewrite (skipn_all2 (n := (length l + length sep)%nat) l) by lia. simpl.
  rewrite skipn_app, skipn_all, Nat.sub_diag; simpl. reflexivity.
Qed.

Lemma join_split_loop fuel sep s : ref_join sep (split_loop eqb fuel sep s) = s.
Proof.
  revert s; induction fuel as [|k IH]; intros s; simpl; [reflexivity|].
  destruct (index eqb sep s) as [i|] eqn:E; [|reflexivity].
  pose proof (IH (skipn (Z.to_nat i + length sep) s)) as IH'.
  destruct (split_loop eqb k sep (skipn (Z.to_nat i + length sep) s)) eqn:E2.
  - exfalso; eapply split_loop_nonempty; eauto.
  - change (firstn (Z.to_nat i) s ++ sep ++ ref_join sep (l :: l0) = s).
    rewrite IH'. symmetry; apply index_decompose; exact E.
Qed.

Theorem join_split sep s : sep <> [] -> ref_join sep (ref_split eqb sep s) = s.
Proof.
  intros Hsep. unfold ref_split. destruct sep; [congruence|]. apply join_split_loop.
Qed.

(* with enough fuel no piece of a split contains the separator *)
Lemma occurs_at_firstn sub s n m :
  occurs_at sub (firstn m s) n -> occurs_at sub s n.
Proof.
  intros (l & r & Hs & Hl). exists l, (r ++ skipn m s). split; [|exact Hl].
  rewrite <- (firstn_skipn m s) at 1. rewrite Hs, <- !app_assoc. reflexivity.
Qed.

Lemma occurs_at_bound sub s n : occurs_at sub s n -> (n + length sub <= length s)%nat.
Proof. intros (l & r & -> & <-). rewrite !app_length; lia. Qed.

Lemma split_loop_pieces fuel sep s :
  sep <> [] -> (length s < fuel)%nat ->
  Forall (fun p => ref_contains eqb sep p = false) (split_loop eqb fuel sep s).
Proof.
  intros Hsep. revert s; induction fuel as [|k IH]; intros s Hf; [lia|]. simpl.
  destruct (index eqb sep s) as [i|] eqn:E.
  - constructor.
    + unfold ref_contains.
      destruct (index eqb sep (firstn (Z.to_nat i) s)) as [j|] eqn:E2; [|reflexivity].
      exfalso. apply index_least in E as (_ & _ & Hleast).
      apply index_least in E2 as (_ & Hocc & _).
      pose proof (occurs_at_bound _ _ _ Hocc) as Hb. rewrite firstn_length in Hb.
      assert (0 < length sep)%nat by (destruct sep; simpl; [congruence | lia]).
      apply (Hleast (Z.to_nat j)); [lia|]. eapply occurs_at_firstn; eauto.
    + apply IH. rewrite skipn_length.
      assert (0 < length sep)%nat by (destruct sep; simpl; [congruence | lia]).
      apply index_least in E as (_ & Hocc & _). apply occurs_at_bound in Hocc. lia.
  - constructor; [|constructor]. unfold ref_contains; rewrite E; reflexivity.
Qed.

Theorem split_pieces sep s :
  sep <> [] -> Forall (fun p => ref_contains eqb sep p = false) (ref_split eqb sep s).
Proof.
  intros Hsep. unfold ref_split. destruct sep as [|x sep]; [congruence|].
  apply split_loop_pieces; [exact Hsep | lia].
Qed.

(* ---------- trim ---------- *)

Theorem trim_prefix_spec p s :
  (forall t, s = p ++ t -> ref_trim_prefix eqb p s = t) /\
  ((forall t, s <> p ++ t) -> ref_trim_prefix eqb p s = s).
Proof.
  unfold ref_trim_prefix; split.
  - intros t ->. rewrite starts_with_app, skipn_app, skipn_all, Nat.sub_diag. reflexivity.
  - intros H. destruct (starts_with eqb p s) eqn:E; [|reflexivity].
    apply starts_with_spec in E as [t Ht]. exfalso; eapply H; eauto.
Qed.

Theorem trim_suffix_spec p s :
  (forall l, s = l ++ p -> ref_trim_suffix eqb p s = l) /\
  ((forall l, s <> l ++ p) -> ref_trim_suffix eqb p s = s).
Proof.
  unfold ref_trim_suffix; split.
  - intros l ->. assert (E : ref_has_suffix eqb p (l ++ p) = true)
      by (apply has_suffix_spec; eauto).
    rewrite E, app_length, Nat.add_sub, firstn_app, firstn_all, Nat.sub_diag; simpl.
    apply app_nil_r.
  - intros H. destruct (ref_has_suffix eqb p s) eqn:E; [|reflexivity].
    apply has_suffix_spec in E as [l Hl]. exfalso; eapply H; eauto.
Qed.

Theorem array_trim_prefix_ref p s :
  s <> [] -> array_trim_prefix eqb p s = ref_trim_prefix eqb p s.
Proof.
  intros Hs. unfold array_trim_prefix, ref_trim_prefix.
  destruct p as [|x p]; [destruct s; reflexivity|].
  destruct s as [|y s]; [congruence|].
  rewrite array_has_prefix_ref. reflexivity.
Qed.

Theorem array_trim_suffix_ref p s :
  s <> [] -> array_trim_suffix eqb p s = ref_trim_suffix eqb p s.
Proof.
  intros Hs. unfold array_trim_suffix, ref_trim_suffix.
  destruct p as [|x p].
  - assert (E : ref_has_suffix eqb [] s = true) by (apply has_suffix_spec; exists s; symmetry; apply app_nil_r).
    rewrite E. simpl. rewrite Nat.sub_0_r, firstn_all. destruct s; reflexivity.
  - destruct s as [|y s]; [congruence|].
    rewrite array_has_suffix_ref. reflexivity.
Qed.

Theorem array_repeat_ref n (s : list A) : array_repeat n s = ref_repeat n s.
Proof. induction n; simpl; congruence. Qed.

End SeqP.

(* ---------- the dispatch: every encoding computes the abstract answer ---------- *)

Lemma Zeqb_spec x y : Z.eqb x y = true <-> x = y.
Proof. apply Z.eqb_eq. Qed.

(* Every encoding offers every operation (join and repeat on byte arrays were repaired in the
   implementation); the predicate is kept so that the statements read as before. *)
Definition supported (e : enc) (c : scall) : bool := true.

Lemma ref_join_all_nil (l : list (list Z)) : forallb is_nil l = true -> ref_join [] l = [].
Proof.
  induction l as [|q l IH]; [reflexivity|].
  cbn [forallb]. rewrite andb_true_iff. intros [Hq Hl]. destruct q; [|discriminate].
  specialize (IH Hl). destruct l; [reflexivity|]. cbn [ref_join]. simpl. exact IH.
Qed.

Theorem run_call_spec e c :
  supported e c = true -> forget (run_call e c) = spec_call c.
Proof.
  destruct c; cbn [run_call spec_call supported]; intros Hs.
  - (* contains *) unfold m_contains. destruct subject as [|x s]; simpl.
    + destruct sub; reflexivity.
    + destruct e; simpl; rewrite ?array_contains_ref by apply Zeqb_spec; reflexivity.
  - (* has_prefix *) unfold m_has_prefix. destruct subject as [|x s]; simpl.
    + destruct p; reflexivity.
    + destruct e; simpl; rewrite ?array_has_prefix_ref by apply Zeqb_spec; reflexivity.
  - (* has_suffix *) unfold m_has_suffix. destruct subject as [|x s]; simpl.
    + destruct p as [|y p]; [reflexivity|]. unfold ref_has_suffix; simpl.
      destruct (rev p ++ [y]) eqn:E; [|reflexivity]. destruct (rev p); discriminate.
    + destruct e; simpl; rewrite ?array_has_suffix_ref by apply Zeqb_spec; reflexivity.
  - (* split *) unfold m_split. destruct subject as [|x s]; simpl.
    + destruct delim; reflexivity.
    + destruct e; simpl; rewrite ?array_split_ref by apply Zeqb_spec; reflexivity.
  - (* join *) unfold m_join. destruct parts as [|p ps]; [reflexivity|].
    destruct e; simpl; rewrite ?array_join_ref; reflexivity.
  - (* sub *) unfold m_sub. destruct subject as [|x s]; simpl.
    + destruct old; simpl; [rewrite app_nil_r|]; reflexivity.
    + destruct e; simpl; rewrite ?array_sub_ref by apply Zeqb_spec; reflexivity.
  - (* trim_prefix *) unfold m_trim_prefix. destruct subject as [|x s]; simpl.
    + unfold ref_trim_prefix. destruct p; reflexivity.
    + destruct e; simpl; rewrite ?array_trim_prefix_ref by (apply Zeqb_spec || discriminate); reflexivity.
  - (* trim_suffix *) unfold m_trim_suffix. destruct subject as [|x s]; simpl.
    + unfold ref_trim_suffix. destruct (ref_has_suffix Z.eqb p []); reflexivity.
    + destruct e; simpl; rewrite ?array_trim_suffix_ref by (apply Zeqb_spec || discriminate); reflexivity.
  - (* repeat *) unfold m_repeat. destruct subject as [|x s]; simpl.
    + induction (Z.to_nat n); simpl; congruence.
    + destruct e; simpl; try discriminate; rewrite ?array_repeat_ref; reflexivity.
  - reflexivity.
Qed.

(* representation independence: any two supported encodings agree *)
Corollary run_call_encoding_independent e1 e2 c :
  supported e1 c = true -> supported e2 c = true ->
  forget (run_call e1 c) = forget (run_call e2 c).
Proof. intros H1 H2. rewrite !run_call_spec by assumption. reflexivity. Qed.
