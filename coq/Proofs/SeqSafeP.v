(* Proofs about the crash-aware model of the sequence representations (Rep/SeqSafe.v). *)
From Coq Require Import List ZArith Bool Lia ZifyBool.
From Arrai Require Import Rep.SeqSafe.
Import ListNotations.
Open Scope Z_scope.

(* ---------- Go's int ---------- *)
Lemma wrap_spec z : exists k, wrap z = z + k * two64 /\ min_int <= wrap z <= max_int.
Proof.
  unfold wrap, min_int, max_int. exists (- ((z + two63) / two64)).
  pose proof (Z.div_mod (z + two63) two64) as Hd.
  pose proof (Z.mod_pos_bound (z + two63) two64) as Hb.
  unfold two63, two64 in *. lia.
Qed.

Lemma wrap_id z : min_int <= z <= max_int -> wrap z = z.
Proof.
  intros H. destruct (wrap_spec z) as [k [E R]]. unfold min_int, max_int, two63, two64 in *. lia.
Qed.

Ltac wrap_one z :=
  let w := fresh "w" in let k := fresh "k" in let E := fresh "E" in let R := fresh "R" in
  destruct (wrap_spec z) as [k [E R]]; set (w := wrap z) in *; clearbody w.
Ltac wrap_facts :=
  unfold iadd, isub, ineg in *;
  repeat match goal with
         | |- context [wrap ?z] => wrap_one z
         | H : context [wrap ?z] |- _ => wrap_one z
         end.
Ltac zconst := unfold min_int, max_int, two63, two64, min_int32 in *.
Ltac wsolve := wrap_facts; zconst; lia.

Lemma int_of_float_range f : min_int <= int_of_float f <= max_int.
Proof.
  destruct f; simpl; unfold in_int; try (zconst; lia);
    destruct ((min_int <=? _) && (_ <=? max_int)) eqn:E; zconst; lia.
Qed.

Definition ok {A} (r : res A) : Prop := match r with Val _ | ErrOrd => True | _ => False end.
Definition okv {A} (r : res A) (P : A -> Prop) : Prop := match r with Val v => P v | ErrOrd => True | _ => False end.

Lemma okv_bind {A B} (r : res A) (f : A -> res B) (P : A -> Prop) (Q : B -> Prop) :
  okv r P -> (forall a, P a -> okv (f a) Q) -> okv (bind r f) Q.
Proof. destruct r; simpl; auto; contradiction. Qed.

Lemma okv_ok {A} (r : res A) P : okv r P -> ok r.
Proof. destruct r; simpl; auto. Qed.

(* ---------- lists ---------- *)
Lemma len_nonneg {A} (l : list A) : 0 <= len l.
Proof. unfold len. lia. Qed.
Lemma len_app {A} (l m : list A) : len (l ++ m) = len l + len m.
Proof. unfold len. rewrite app_length. lia. Qed.
Lemma len_cons {A} (x : A) l : len (x :: l) = 1 + len l.
Proof. unfold len. simpl length. lia. Qed.
Lemma len_single {A} (x : A) : len [x] = 1.
Proof. reflexivity. Qed.
Lemma len_repeat {A} (x : A) n : len (repeat x n) = Z.of_nat n.
Proof. unfold len. now rewrite repeat_length. Qed.
Lemma set_nth_length {A} n (x : A) l : length (set_nth n x l) = length l.
Proof. revert n; induction l as [|y l IH]; intros [|n]; simpl; auto. Qed.
Lemma len_set_nth {A} n (x : A) l : len (set_nth n x l) = len l.
Proof. unfold len. now rewrite set_nth_length. Qed.
Lemma len_copy {A} (dst src : list A) : len (copy dst src) = len dst.
Proof.
  unfold len, copy. rewrite app_length, firstn_length, skipn_length. lia.
Qed.
Lemma len_firstn {A} n (l : list A) : len (firstn n l) = Z.min (Z.of_nat n) (len l).
Proof. unfold len. rewrite firstn_length. lia. Qed.
Lemma len_skipn {A} n (l : list A) : len (skipn n l) = Z.max 0 (len l - Z.of_nat n).
Proof. unfold len. rewrite skipn_length. lia. Qed.

Lemma filter_len_le {A} (f : A -> bool) (l : list A) : (length (filter f l) <= length l)%nat.
Proof. induction l as [|x l IH]; simpl; [lia|]. destruct (f x); simpl; lia. Qed.

Section P.
Variable max_alloc : Z.
Variable V : Type.
Variable veq : V -> V -> bool.
Hypothesis Hmax : 0 < max_alloc <= 281474976710656.      (* 2^48: Go's maxAlloc on 64-bit platforms *)

Notation arr := (arr V).
Notation rep := (rep V).
Notation arg := (arg V).

(* ---------- slices ---------- *)
Lemma idx_in {A} (l : list A) i : 0 <= i < len l -> exists x, idx l i = Val x /\ nth_error l (Z.to_nat i) = Some x.
Proof.
  intros H. unfold idx. replace ((0 <=? i) && (i <? len l)) with true by lia.
  destruct (nth_error l (Z.to_nat i)) eqn:E; [eauto|].
  apply nth_error_None in E. unfold len in H. lia.
Qed.
Lemma upd_in {A} (l : list A) i x : 0 <= i < len l -> upd l i x = Val (set_nth (Z.to_nat i) x l).
Proof. intros H. unfold upd. now replace ((0 <=? i) && (i <? len l)) with true by lia. Qed.
Lemma slice_in {A} (l : list A) a b : 0 <= a <= b -> b <= len l ->
  slice l a b = Val (firstn (Z.to_nat (b - a)) (skipn (Z.to_nat a) l)).
Proof. intros H1 H2. unfold slice. now replace ((0 <=? a) && (a <=? b) && (b <=? len l)) with true by lia. Qed.
Lemma mk_in {A} (z : A) n : 0 <= n <= max_alloc -> mk max_alloc z n = Val (repeat z (Z.to_nat n)).
Proof. intros H. unfold mk. now replace ((n <? 0) || (max_alloc <? n)) with false by lia. Qed.
Lemma mk_out {A} (z : A) n : n < 0 \/ max_alloc < n -> mk max_alloc z n = Panic SMakeslice.
Proof. intros H. unfold mk. now replace ((n <? 0) || (max_alloc <? n)) with true by lia. Qed.

Lemma len_slice {A} (l : list A) a b : 0 <= a <= b -> b <= len l ->
  len (firstn (Z.to_nat (b - a)) (skipn (Z.to_nat a) l)) = b - a.
Proof. intros. rewrite len_firstn, len_skipn. lia. Qed.

(* ---------- cells ---------- *)
Lemma count_some_bounds (l : list (option V)) : 0 <= count_some V l <= len l.
Proof.
  unfold count_some, len. pose proof (filter_len_le (@is_some V) l). lia.
Qed.
Lemma count_neg_bounds (l : list Z) : 0 <= count_neg l <= len l.
Proof. unfold count_neg, len. pose proof (filter_len_le (fun r => r <? 0) l). lia. Qed.

(* ============ Bytes ============ *)
Lemma byt_index_range (b : byt) pos : let i := byt_index b pos in i = -1 \/ (0 <= i <= len (bbytes b) /\ i = isub pos (boff b)).
Proof.
  unfold byt_index. cbv zeta. destruct ((0 <=? isub pos (boff b)) && (isub pos (boff b) <=? len (bbytes b))) eqn:E; [right|left]; lia.
Qed.

Lemma byt_has_safe (b : byt) (x : arg) : inv_byt max_alloc b -> ok (byt_has V b x).
Proof.
  intros [Hne [Hl Ho]]. unfold byt_has. destruct x; simpl; auto.
  pose proof (int_of_float_range at_) as Ha.
  destruct ((boff b <=? int_of_float at_) && (int_of_float at_ <? iadd (boff b) (len (bbytes b)))) eqn:E; simpl; auto.
  assert (Hi : 0 <= isub (int_of_float at_) (boff b) < len (bbytes b)).
  { pose proof (len_nonneg (bbytes b)). wsolve. }
  destruct (idx_in _ _ Hi) as [c [Ec _]]. rewrite Ec. simpl. auto.
Qed.

Lemma byt_call_safe (b : byt) (x : arg) : ok (byt_call V b x).
Proof.
  unfold byt_call. destruct x; simpl; auto. destruct (number_int f); simpl; auto.
  destruct ((0 <=? isub z (boff b)) && (isub z (boff b) <? len (bbytes b))) eqn:E; simpl; auto.
  destruct (idx_in (bbytes b) (isub z (boff b))) as [c [Ec _]]; [lia|]. rewrite Ec. simpl. auto.
Qed.

Lemma len_pos_of_ne {A} (l : list A) : l <> [] -> 0 < len l.
Proof. destruct l; [congruence|]. intros _. rewrite len_cons. pose proof (len_nonneg l). lia. Qed.

Lemma mk_cases {A} (z : A) n :
  (mk max_alloc z n = Panic SMakeslice /\ (n < 0 \/ max_alloc < n)) \/
  (mk max_alloc z n = Val (repeat z (Z.to_nat n)) /\ 0 <= n <= max_alloc).
Proof.
  destruct (Z.ltb_spec n 0); [left; split; [apply mk_out|]; lia|].
  destruct (Z.ltb_spec max_alloc n); [left; split; [apply mk_out|]; lia|].
  right. split; [apply mk_in|]; lia.
Qed.

Lemma len_ne {A} (l : list A) : 0 < len l -> l <> [].
Proof. intros H E. subst l. unfold len in H. simpl in H. lia. Qed.

Lemma byt_with_safe (b : byt) index bt : inv_byt max_alloc b -> min_int <= index <= max_int ->
  match byt_with max_alloc V b index bt with
  | Val r => inv max_alloc V r
  | Panic s => s = SMakeslice /\ dense_region_byt max_alloc (boff b) (len (bbytes b)) index = true
  | _ => False
  end.
Proof.
  intros [Hne [Hl Ho]] Hidx. unfold byt_with. cbv zeta.
  pose proof (len_pos_of_ne _ Hne) as Hpos.
  unfold dense_region_byt. cbv zeta.
  unfold byt_index. cbv zeta.
  set (p := isub index (boff b)).
  assert (Hp : min_int <= p <= max_int /\ exists k, p = index - boff b + k * two64).
  { unfold p, isub. destruct (wrap_spec (index - boff b)) as [k [E R]]. split; [lia|]. exists k. exact E. }
  destruct Hp as [Rp [kp Ep]]. clearbody p.
  destruct ((0 <=? p) && (p <=? len (bbytes b))) eqn:E3.
  - destruct ((0 <=? p) && (p <? len (bbytes b))) eqn:E0.
    + destruct (idx_in (bbytes b) p) as [c [Ec _]]; [lia|]. rewrite Ec. cbn [bind].
      destruct (c =? bt); cbn [bind].
      * repeat split; auto; lia.
      * replace (p =? len (bbytes b)) with false by lia.
        destruct (index =? isub (boff b) 1) eqn:E1; [|exact I].
        exfalso. clear Ec. wsolve.
    + cbn [bind]. replace (p =? len (bbytes b)) with true by lia.
      destruct (mk_cases 0 (iadd (len (bbytes b)) 1)) as [[Em Hm]|[Em Hm]]; rewrite Em; cbn [bind].
      * split; auto. cbn [negb andb orb]. clear Em. wsolve.
      * unfold inv, inv_byt; cbn [bbytes boff].
        split; [destruct (bbytes b); simpl; discriminate|]. split; [|lia].
        rewrite len_app. unfold len at 2. simpl length. clear Em. wsolve.
  - replace ((0 <=? -1) && (-1 <? len (bbytes b))) with false by lia. cbn [bind].
    replace (-1 =? len (bbytes b)) with false by lia.
    destruct (index =? isub (boff b) 1) eqn:E1; [|exact I].
    destruct (mk_cases 0 (iadd 1 (len (bbytes b)))) as [[Em Hm]|[Em Hm]]; rewrite Em; cbn [bind].
    + split; auto. replace (p =? len (bbytes b)) with false by lia. cbn [negb andb orb]. clear Em. wsolve.
    + unfold inv, inv_byt; cbn [bbytes boff].
      split; [intro; discriminate|]. split; [rewrite len_cons|]; clear Em; wsolve.
Qed.

Lemma byt_without_safe (b : byt) (x : arg) : inv_byt max_alloc b -> okv (byt_without V b x) (inv max_alloc V).
Proof.
  intros [Hne [Hl Ho]]. pose proof (len_pos_of_ne _ Hne) as Hpos.
  assert (Hinv : inv_byt max_alloc b) by (repeat split; auto; lia).
  unfold byt_without. destruct x; simpl; auto.
  set (i := byt_index b (int_of_float at_)).
  destruct ((0 <=? i) && (i <? len (bbytes b))) eqn:E0; simpl; auto.
  destruct (idx_in (bbytes b) i) as [c [Ec _]]; [lia|]. rewrite Ec. simpl.
  destruct (byte_of_float b0 =? c); simpl; auto.
  destruct (len (bbytes b) =? 1) eqn:E1; simpl; auto.
  destruct (i =? isub (len (bbytes b)) 1) eqn:E2.
  - assert (Hi : i = len (bbytes b) - 1) by (clear Ec; wsolve).
    rewrite slice_in by lia. cbn [bind okv]. unfold inv, inv_byt; cbn [bbytes boff].
    split; [apply len_ne; rewrite len_slice by lia; lia|]. split; [rewrite len_slice by lia; lia|]. lia.
  - destruct (i =? 0) eqn:E3; cbn [bind okv]; [|exact I].
    rewrite slice_in by lia. cbn [bind okv]. unfold inv, inv_byt; cbn [bbytes boff].
    split; [apply len_ne; rewrite len_slice by lia; lia|]. split; [rewrite len_slice by lia; lia|]. wsolve.
Qed.

(* BytesEnumerator: ends within len + 1 calls of MoveNext and visits every cell once, in order *)
Fixpoint cells_from (off : Z) (i : Z) (l : list Z) : list (Z * Z) :=
  match l with [] => [] | c :: t => (iadd off i, c) :: cells_from off (i + 1) t end.

Lemma byt_enum_loop_spec (b : byt) : len (bbytes b) <= max_alloc ->
  forall suf pre acc fuel, bbytes b = pre ++ suf -> (length suf < fuel)%nat ->
  byt_enum_loop fuel b (len pre - 1) acc = Val (acc ++ cells_from (boff b) (len pre) suf).
Proof.
  intros Hl. induction suf as [|c suf IH]; intros pre acc fuel Hb Hf; (destruct fuel as [|fuel]; [simpl in Hf; lia|]).
  - simpl. unfold byt_move_next. rewrite Hb, app_nil_r.
    replace (isub (len pre) 1 <=? len pre - 1) with true.
    + simpl. now rewrite app_nil_r.
    + pose proof (len_nonneg pre). rewrite Hb, app_nil_r in Hl. wsolve.
  - cbn [byt_enum_loop]. unfold byt_move_next.
    assert (Hlen : len (bbytes b) = len pre + 1 + len suf) by (rewrite Hb, len_app, len_cons; lia).
    pose proof (len_nonneg pre). pose proof (len_nonneg suf).
    replace (isub (len (bbytes b)) 1 <=? len pre - 1) with false by wsolve.
    replace (iadd (len pre - 1) 1) with (len pre) by wsolve.
    destruct (idx_in (bbytes b) (len pre)) as [x [Ex Nx]]; [lia|]. rewrite Ex. simpl.
    assert (x = c).
    { rewrite Hb in Nx. unfold len in Nx. rewrite Nat2Z.id in Nx. rewrite nth_error_app2 in Nx by lia.
      rewrite Nat.sub_diag in Nx. simpl in Nx. congruence. }
    subst x.
    specialize (IH (pre ++ [c]) (acc ++ [(iadd (boff b) (len pre), c)]) fuel).
    rewrite len_app in IH. unfold len at 2 in IH. simpl length in IH.
    replace (len pre + Z.of_nat 1 - 1) with (len pre) in IH by lia.
    rewrite IH.
    + rewrite <- app_assoc. simpl. replace (len pre + Z.of_nat 1) with (len pre + 1) by lia. reflexivity.
    + rewrite <- app_assoc. exact Hb.
    + simpl in Hf. lia.
Qed.

Theorem byt_enum_terminates (b : byt) : inv_byt max_alloc b ->
  byt_enum b = Val (cells_from (boff b) 0 (bbytes b)).
Proof.
  intros [Hne [Hl Ho]]. unfold byt_enum.
  apply (byt_enum_loop_spec b Hl (bbytes b) [] []); simpl; auto.
Qed.

(* ============ Arrays ============ *)
Lemma arr_has_safe (a : arr) (x : arg) : inv_arr max_alloc V a -> ok (arr_has V veq a x).
Proof.
  intros [H1 [H2 [Hc [Hl Ho]]]]. unfold arr_has. destruct x; simpl; auto.
  pose proof (int_of_float_range at_) as Ha.
  destruct ((aoff V a <=? int_of_float at_) && (int_of_float at_ <? iadd (aoff V a) (len (avals V a)))) eqn:E; simpl; auto.
  assert (Hi : 0 <= isub (int_of_float at_) (aoff V a) < len (avals V a)).
  { pose proof (len_nonneg (avals V a)). wsolve. }
  destruct (idx_in _ _ Hi) as [c [Ec _]]. rewrite Ec. simpl. auto.
Qed.

Lemma arr_call_safe (a : arr) (x : arg) : ok (arr_call V a x).
Proof.
  unfold arr_call. destruct x; simpl; auto. destruct (number_int f); simpl; auto.
  destruct ((0 <=? isub z (aoff V a)) && (isub z (aoff V a) <? len (avals V a))) eqn:E; simpl; auto.
  destruct (idx_in (avals V a) (isub z (aoff V a))) as [c [Ec _]]; [lia|]. rewrite Ec. simpl. auto.
Qed.

(* --- the enumeration --- *)
Fixpoint items_from (off : Z) (i : Z) (l : list (option V)) : list (Z * V) :=
  match l with
  | [] => []
  | Some x :: t => (iadd off i, x) :: items_from off (i + 1) t
  | None :: t => items_from off (i + 1) t
  end.

Lemma nth_error_mid {A} (pre suf : list A) c : nth_error (pre ++ c :: suf) (Z.to_nat (len pre)) = Some c.
Proof. unfold len. rewrite Nat2Z.id, nth_error_app2 by lia. now rewrite Nat.sub_diag. Qed.

(* the scanning loop reaches the next non-hole cell within as many steps as there are holes before it, + 1 *)
Lemma arr_scan_spec (vs : list (option V)) : len vs <= max_alloc ->
  forall k pre x rest fuel, vs = pre ++ repeat None k ++ Some x :: rest -> (k < fuel)%nat ->
  arr_scan V fuel vs (len pre - 1) = Val (len pre + Z.of_nat k).
Proof.
  intros Hl. induction k as [|k IH]; intros pre x rest fuel Hv Hf; (destruct fuel as [|fuel]; [lia|]); cbn [arr_scan].
  - simpl in Hv. pose proof (len_nonneg pre).
    assert (Hlen : len vs = len pre + 1 + len rest) by (rewrite Hv, len_app, len_cons; lia).
    pose proof (len_nonneg rest).
    replace (iadd (len pre - 1) 1) with (len pre) by wsolve.
    replace (len pre <? len vs) with true by lia.
    destruct (idx_in vs (len pre)) as [c [Ec Nc]]; [lia|]. rewrite Ec. simpl.
    rewrite Hv, nth_error_mid in Nc. inversion Nc; subst c. simpl. f_equal. lia.
  - simpl in Hv. pose proof (len_nonneg pre).
    assert (Hlen : len pre + 1 <= len vs).
    { rewrite Hv, len_app, len_cons. pose proof (len_nonneg (repeat (@None V) k ++ Some x :: rest)). lia. }
    replace (iadd (len pre - 1) 1) with (len pre) by wsolve.
    replace (len pre <? len vs) with true by lia.
    destruct (idx_in vs (len pre)) as [c [Ec Nc]]; [lia|]. rewrite Ec. simpl.
    rewrite Hv, nth_error_mid in Nc. inversion Nc; subst c. simpl.
    specialize (IH (pre ++ [None]) x rest fuel).
    rewrite len_app in IH. unfold len at 2 4 in IH. simpl length in IH.
    replace (len pre + Z.of_nat 1 - 1) with (len pre) in IH by lia.
    rewrite IH; [f_equal; lia | rewrite <- app_assoc; exact Hv | lia].
Qed.

(* a suffix of a list whose last cell is not a hole is empty or has a first non-hole cell *)
Lemma hd_rev_cons (c : option V) suf :
  hd_some V (rev (c :: suf)) = match suf with [] => is_some c | _ => hd_some V (rev suf) end.
Proof.
  destruct suf as [|y suf']; [destruct c; reflexivity|].
  change (rev (c :: y :: suf')) with (rev (y :: suf') ++ [c]).
  destruct (rev (y :: suf')) eqn:E.
  - simpl in E. apply app_eq_nil in E. destruct E; discriminate.
  - reflexivity.
Qed.

Lemma suffix_split (suf : list (option V)) :
  hd_some V (rev suf) = true -> exists k x rest, suf = repeat None k ++ Some x :: rest /\ (rest = [] \/ hd_some V (rev rest) = true).
Proof.
  induction suf as [|c suf IH]; intros H; [discriminate|].
  rewrite hd_rev_cons in H.
  destruct c as [x|].
  - exists O, x, suf. split; auto. destruct suf; auto.
  - destruct suf as [|y suf']; [discriminate|].
    destruct (IH H) as [k [x [rest [E R]]]]. exists (S k), x, rest. split; auto. simpl. now rewrite E.
Qed.

Lemma items_from_holes off i k (l : list (option V)) :
  items_from off i (repeat None k ++ l) = items_from off (i + Z.of_nat k) l.
Proof.
  revert i; induction k as [|k IH]; intros i; simpl repeat; simpl app.
  - f_equal. lia.
  - cbn [items_from]. rewrite IH. f_equal. lia.
Qed.

Lemma arr_enum_loop_spec (a : arr) : len (avals V a) <= max_alloc ->
  forall n suf pre acc fuel, (length suf <= n)%nat -> avals V a = pre ++ suf ->
    (suf = [] \/ hd_some V (rev suf) = true) -> (length suf < fuel)%nat ->
    arr_enum_loop V fuel a (len pre - 1) acc = Val (acc ++ items_from (aoff V a) (len pre) suf).
Proof.
  intros Hl. induction n as [|n IH]; intros suf pre acc fuel Hn Hv Hlast Hf; (destruct fuel as [|fuel]; [lia|]).
  - destruct suf; [|simpl in Hn; lia]. cbn [arr_enum_loop]. unfold arr_move_next.
    rewrite app_nil_r in Hv. rewrite Hv.
    pose proof (len_nonneg pre). rewrite Hv in Hl.
    replace (isub (len pre) 1 <=? len pre - 1) with true by wsolve. simpl. now rewrite app_nil_r.
  - destruct Hlast as [-> | Hlast].
    + cbn [arr_enum_loop]. unfold arr_move_next. rewrite app_nil_r in Hv. rewrite Hv.
      pose proof (len_nonneg pre). rewrite Hv in Hl.
      replace (isub (len pre) 1 <=? len pre - 1) with true by wsolve. simpl. now rewrite app_nil_r.
    + destruct (suffix_split suf Hlast) as [k [x [rest [Es Hr]]]].
      cbn [arr_enum_loop]. unfold arr_move_next.
      pose proof (len_nonneg pre). pose proof (len_nonneg rest).
      assert (Hlen : len (avals V a) = len pre + Z.of_nat k + 1 + len rest).
      { rewrite Hv, Es, !len_app, len_repeat, len_cons. lia. }
      replace (isub (len (avals V a)) 1 <=? len pre - 1) with false by wsolve.
      assert (Hk : (k < length (avals V a))%nat) by (unfold len in Hlen; lia).
      rewrite (arr_scan_spec (avals V a) Hl k pre x rest _ (eq_trans Hv (f_equal (app pre) Es)) Hk).
      simpl bind. replace (len pre + Z.of_nat k <? len (avals V a)) with true by lia.
      unfold arr_current.
      destruct (idx_in (avals V a) (len pre + Z.of_nat k)) as [c [Ec Nc]]; [lia|]. rewrite Ec. simpl bind.
      assert (c = Some x).
      { rewrite Hv, Es in Nc. rewrite app_assoc in Nc.
        replace (len pre + Z.of_nat k) with (len (pre ++ repeat None k)) in Nc by (rewrite len_app, len_repeat; lia).
        rewrite nth_error_mid in Nc. congruence. }
      subst c.
      set (pre' := pre ++ repeat None k ++ [Some x]).
      assert (Hp' : len pre' = len pre + Z.of_nat k + 1).
      { unfold pre'. rewrite !len_app, len_repeat, len_single. lia. }
      replace (len pre + Z.of_nat k) with (len pre' - 1) by lia.
      cbn [bind].
      rewrite (IH rest pre' (acc ++ [(iadd (aoff V a) (len pre' - 1), x)]) fuel).
      * rewrite Es, items_from_holes. cbn [items_from]. rewrite <- app_assoc. simpl app.
        rewrite Hp'. replace (len pre + Z.of_nat k + 1 - 1) with (len pre + Z.of_nat k) by lia. reflexivity.
      * rewrite Es in Hn. rewrite app_length, repeat_length in Hn. simpl in Hn. lia.
      * unfold pre'. rewrite Hv, Es. rewrite <- !app_assoc. simpl. reflexivity.
      * destruct Hr; auto.
      * rewrite Es in Hf. rewrite app_length, repeat_length in Hf. simpl in Hf. lia.
Qed.

Theorem arr_enum_terminates (a : arr) : inv_arr max_alloc V a ->
  arr_enum V a = Val (items_from (aoff V a) 0 (avals V a)).
Proof.
  intros [H1 [H2 [Hc [Hl Ho]]]]. unfold arr_enum.
  apply (arr_enum_loop_spec a Hl (length (avals V a)) (avals V a) [] []); simpl; auto.
Qed.

End P.

(* ---------- the two crashes the faithful model has outside the recorded regions (replayed on the real code) ---------- *)
Definition MAw : Z := 4294967296.

(* a (@, @char) tuple with a negative rune is taken for a member by asString, so a hole is recorded as a
   character; removing the only real character then walks off the end of the slice in String.Without:
   {(@: 0, @char: -1), (@: 1, @char: 97)} without (@: 1, @char: 97) *)
Lemma negative_rune_crash :
  exists s, as_string MAw Z [(0, -1); (1, 97)] = Val (RStr s) /\
            str_without MAw Z s (AChar (FInt 1) (FInt 97)) = Panic SIndex.
Proof. exists {| srunes := [-1; 97]; soff := 0; sholes := 0 |}. split; vm_compute; reflexivity. Qed.

(* the offset expression adds without an overflow check, so the index range of a sequence can cross the
   int64 limit; the value still satisfies the layout invariant, but rebuilding it from its enumeration
   (=>, where, ++ all end in asArray / asString / asBytes) computes maxIndex-minIndex+1 = 2^64 = 0 cells:
   (9223372036854774784\(1023\[1, 2, 3])) ++ [1, 2, 3] *)
Lemma index_range_wrap_crash :
  let a := {| avals := [Some 1; Some 2; Some 3]; aoff := 0; acnt := 3 |} in
  inv_arr MAw Z a /\
  exists a', step MAw Z Z.eqb (RArr Z a) (OOffset Z (ANum (FInt max_int))) = Val (RArr Z a') /\
             inv_arr MAw Z a' /\
             seq_concat MAw Z (RArr Z a') (RArr Z a) = Panic SIndex.
Proof.
  cbv zeta. split; [vm_compute; repeat split; congruence|].
  exists {| avals := [Some 1; Some 2; Some 3]; aoff := 9223372036854775807; acnt := 3 |}.
  split; [vm_compute; reflexivity|]. split; [vm_compute; repeat split; congruence|].
  vm_compute. reflexivity.
Qed.
