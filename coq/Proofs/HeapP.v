(* Immutability over all branching histories (property C03). *)
From Arrai Require Import Base.Val Sys.Heap.
From Coq Require Import ZifyBool ZifyNat.

Definition ws (st : heap * list slice) : Prop :=
  Forall (fun v => (s_arr v < length (fst st))%nat) (snd st).

Lemma den_ext h ext v : (s_arr v < length h)%nat -> den (h ++ ext) v = den h v.
Proof.
  intros H. unfold den, cells. rewrite app_nth1 by exact H. reflexivity.
Qed.

(* a copying step only appends to the heap and to the value list *)
Lemma step_copy_ext st o :
  ws st ->
  let st' := step false st o in
  ws st' /\ (exists ext, fst st' = fst st ++ ext) /\ (exists more, snd st' = snd st ++ more).
Proof.
  destruct st as [h vals]. unfold ws; simpl. intros Hws.
  assert (Hkeep : forall v, In v vals -> (s_arr v < length h)%nat) by (apply Forall_forall; exact Hws).
  assert (Hsame : forall v, (s_arr v < length h)%nat ->
            Forall (fun x => (s_arr x < length h)%nat) (vals ++ [v]) /\
            (exists ext, h = h ++ ext) /\ (exists more, vals ++ [v] = vals ++ more)).
  { intros v Hv. split; [apply Forall_app; split; [exact Hws | constructor; [exact Hv | constructor]]|].
    split; [exists []; symmetry; apply app_nil_r | exists [v]; reflexivity]. }
  assert (Halloc : forall c off,
            let (h', v') := alloc h c off in
            Forall (fun x => (s_arr x < length h')%nat) (vals ++ [v']) /\
            (exists ext, h' = h ++ ext) /\ (exists more, vals ++ [v'] = vals ++ more)).
  { intros c off. unfold alloc. split.
    - apply Forall_app; split.
      + eapply Forall_impl; [|exact Hws]. intros a Ha. simpl in *. rewrite app_length; simpl; lia.
      + constructor; [simpl; rewrite app_length; simpl; lia | constructor].
    - split; [exists [c]; reflexivity | eexists; reflexivity]. }
  destruct o as [c spare | p at_ char | p at_ char | p n]; cbn [step].
  - (* literal *)
    unfold alloc. cbn [s_arr fst snd]. split.
    + apply Forall_app; split.
      * eapply Forall_impl; [|exact Hws]. intros a Ha. simpl in *. rewrite app_length; simpl; lia.
      * constructor; [simpl; rewrite app_length; simpl; lia | constructor].
    + split; [eexists; reflexivity | eexists; reflexivity].
  - destruct (nth_error vals p) as [v|] eqn:Ep.
    2:{ split; [exact Hws|]. split; [exists []; symmetry; apply app_nil_r | exists []; symmetry; apply app_nil_r]. }
    assert (Hv : (s_arr v < length h)%nat) by (apply Hkeep; eapply nth_error_In; eauto).
    destruct (_ && _ && _); [apply Hsame; exact Hv|].
    cbn [andb].
    destruct (with_cells (cells h v) (s_off v) at_ char) as [c' off'].
    apply (Halloc c' off').
  - destruct (nth_error vals p) as [v|] eqn:Ep.
    2:{ split; [exact Hws|]. split; [exists []; symmetry; apply app_nil_r | exists []; symmetry; apply app_nil_r]. }
    assert (Hv : (s_arr v < length h)%nat) by (apply Hkeep; eapply nth_error_In; eauto).
    destruct (_ && _ && _ && _); [|apply Hsame; exact Hv].
    destruct (_ || _).
    + destruct (trim_front _ _) as [c2 off2]. apply Hsame. simpl. exact Hv.
    + apply (Halloc (set_nth (Z.to_nat (at_ - s_off v)) (-1) (cells h v)) (s_off v)).
  - destruct (nth_error vals p) as [v|] eqn:Ep.
    2:{ split; [exact Hws|]. split; [exists []; symmetry; apply app_nil_r | exists []; symmetry; apply app_nil_r]. }
    assert (Hv : (s_arr v < length h)%nat) by (apply Hkeep; eapply nth_error_In; eauto).
    apply Hsame. simpl. exact Hv.
Qed.

Lemma ws_init : ws ([], []).
Proof. constructor. Qed.

Lemma run_app b h1 h2 : run b (h1 ++ h2) = fold_left (step b) h2 (run b h1).
Proof. unfold run. apply fold_left_app. Qed.

Lemma fold_copy_ext hist : forall st, ws st ->
  let st' := fold_left (step false) hist st in
  ws st' /\ (exists ext, fst st' = fst st ++ ext) /\ (exists more, snd st' = snd st ++ more).
Proof.
  induction hist as [|o hist IH]; intros st Hws; simpl.
  - split; [exact Hws|]. split; [exists []; symmetry; apply app_nil_r | exists []; symmetry; apply app_nil_r].
  - destruct (step_copy_ext st o Hws) as (Hws1 & (e1 & He1) & (m1 & Hm1)).
    destruct (IH _ Hws1) as (Hws2 & (e2 & He2) & (m2 & Hm2)).
    split; [exact Hws2|]. split.
    + exists (e1 ++ e2). rewrite He2, He1, app_assoc. reflexivity.
    + exists (m1 ++ m2). rewrite Hm2, Hm1, app_assoc. reflexivity.
Qed.

Lemma run_ws hist : ws (run false hist).
Proof. apply (fold_copy_ext hist ([], []) ws_init). Qed.

(* every value, once created, is still there and denotes what it denoted, after
   ANY further history (each later operation may derive from any earlier value) *)
Theorem values_are_immutable hist1 hist2 i v :
  nth_error (snd (run false hist1)) i = Some v ->
  nth_error (snd (run false (hist1 ++ hist2))) i = Some v /\
  den (fst (run false (hist1 ++ hist2))) v = den (fst (run false hist1)) v.
Proof.
  intros Hi. rewrite run_app.
  destruct (fold_copy_ext hist2 (run false hist1) (run_ws hist1)) as (_ & (ext & He) & (more & Hm)).
  split.
  - rewrite Hm. rewrite nth_error_app1; [exact Hi|]. apply nth_error_Some. congruence.
  - rewrite He. apply den_ext.
    pose proof (run_ws hist1) as Hws. unfold ws in Hws. rewrite Forall_forall in Hws.
    apply Hws. eapply nth_error_In; eauto.
Qed.

(* with Go's append() writing into spare capacity the statement is false *)
Definition probe_hist : list op :=
  [OLit [97; 98; 99] 1; OWith 0 3 100; OWith 0 3 101].

Theorem append_in_place_refuted :
  exists hist1 hist2 i v,
    nth_error (snd (run true hist1)) i = Some v /\
    den (fst (run true (hist1 ++ hist2))) v <> den (fst (run true hist1)) v.
Proof.
  exists [OLit [97; 98; 99] 1; OWith 0 3 100], [OWith 0 3 101], 1%nat,
         {| s_arr := 0; s_start := 0; s_len := 4; s_off := 0 |}.
  split; [reflexivity|]. vm_compute. discriminate.
Qed.

(* re-slicing an end and then appending in place overwrites the parent *)
Theorem reslice_then_append_refuted :
  den (fst (run true [OLit [97; 98; 99] 0; OWithout 0 2 99; OWith 1 2 120]))
      {| s_arr := 0; s_start := 0; s_len := 3; s_off := 0 |} = (0, [97; 98; 120]).
Proof. vm_compute. reflexivity. Qed.
