(* Confinement of local-import resolution (Sys/Import.v) for every byte string. *)
From Coq Require Import List ZArith Bool Lia.
From Arrai Require Import Sys.GoPath Sys.Import Proofs.GoPathP.
Import ListNotations.
Open Scope Z_scope.

(* ---------- beneath: decision procedure, transitivity ---------- *)
Lemma drop_prefix_app : forall a r, drop_prefix (a ++ r) a = Some r.
Proof.
  induction a as [|x a IH]; intro r; simpl; [destruct r; reflexivity|].
  rewrite str_eqb_refl. apply IH.
Qed.

Lemma beneathb_complete : forall d p, beneath d p -> beneathb d p = true.
Proof.
  intros d p [Hr [ns [Hn [Hf E]]]]. unfold beneathb. rewrite Hr, E.
  rewrite Bool.eqb_reflx. rewrite drop_prefix_app. destruct ns as [|x r]; [congruence|].
  cbn [andb]. change (forallb normalb (x :: r) = true). apply forallb_forall. intros y Hy. rewrite Forall_forall in Hf. apply Hf. assumption.
Qed.

Lemma beneath_within_trans : forall root d p, within root d -> beneath d p -> beneath root p.
Proof.
  intros root d p [Hr1 [ms [Hm E1]]] [Hr2 [ns [Hn [Hf E2]]]]. split; [congruence|].
  exists (ms ++ ns). repeat split.
  - destruct ms; simpl; [assumption | discriminate].
  - apply Forall_app. auto.
  - rewrite E2, E1. rewrite app_assoc. reflexivity.
Qed.

(* ---------- the name handed to ReadFile ---------- *)
Definition suffix_ok (e : str) : Prop := e = [] \/ e = sArrai.

Lemma file_name_suffix : forall p, exists e, file_name p = p ++ e /\ suffix_ok e.
Proof.
  intro p. unfold file_name. destruct (has_ext p).
  - exists []. split; [rewrite app_nil_r; reflexivity | left; reflexivity].
  - exists sArrai. split; [reflexivity | right; reflexivity].
Qed.

Lemma normal_app_arrai : forall x, normal x -> normal (x ++ sArrai).
Proof.
  intros x H. destruct (normal_seg_ok x H) as [Hn Hs]. unfold normal, normalb.
  assert (L : (length (x ++ sArrai) >= 6)%nat) by (rewrite app_length; simpl; lia).
  assert (E1 : str_eqb (x ++ sArrai) sDot = false).
  { apply str_eqb_neq. intro E. rewrite E in L. simpl in L. lia. }
  assert (E2 : str_eqb (x ++ sArrai) sDotDot = false).
  { apply str_eqb_neq. intro E. rewrite E in L. simpl in L. lia. }
  rewrite E1, E2. rewrite noslash_app, Hs.
  destruct (x ++ sArrai) eqn:E; [simpl in L; lia | reflexivity].
Qed.

Lemma join_suffix : forall A ns e, ns <> [] -> Forall normal ns -> suffix_ok e ->
  exists ns', ns' <> [] /\ Forall normal ns' /\ join (A ++ ns) ++ e = join (A ++ ns').
Proof.
  intros A ns e Hn Hf [He | He]; subst e.
  - exists ns. rewrite app_nil_r. auto.
  - destruct (exists_last Hn) as [ns0 [x E]]. subst ns.
    apply Forall_app in Hf. destruct Hf as [Hf0 Hfx]. inversion Hfx; subst.
    exists (ns0 ++ [x ++ sArrai]). repeat split.
    + destruct ns0; discriminate.
    + apply Forall_app. split; [assumption|]. constructor; [apply normal_app_arrai; assumption | constructor].
    + rewrite !app_assoc. apply join_snoc_app.
Qed.

Lemma render_nonempty_stack : forall r st, st <> [] ->
  render r st = (if r then [47] else []) ++ join st.
Proof. intros r [|x st] H; [congruence|]. destruct r; reflexivity. Qed.

(* relative form: Clean(sourceDir/n) followed by the optional ".arrai" *)
Lemma rel_final : forall sd ns e, sd <> [] -> ns <> [] -> Forall normal ns -> suffix_ok e ->
  beneath sd (clean (sd ++ 47 :: join ns) ++ e).
Proof.
  intros sd ns e Hsd Hn Hf He.
  rewrite clean_render by (destruct sd; [congruence | discriminate]).
  rewrite rooted_app by assumption. rewrite cstack_app_normals by assumption.
  assert (Hne : cstack sd ++ ns <> []) by (destruct (cstack sd); [assumption | discriminate]).
  rewrite render_nonempty_stack by assumption. rewrite <- app_assoc.
  destruct (join_suffix (cstack sd) ns e Hn Hf He) as [ns' [Hn' [Hf' E]]]. rewrite E.
  assert (Hne' : cstack sd ++ ns' <> []) by (destruct (cstack sd); [assumption | discriminate]).
  rewrite <- render_nonempty_stack by assumption.
  assert (Hc : canonical (rooted sd) (cstack sd ++ ns')) by (apply canonical_app; [apply cstack_canonical | assumption]).
  destruct (cstack_render _ _ Hc) as [E1 E2].
  split; [assumption|]. exists ns'. auto.
Qed.

(* root form: root + "/" + r where every segment of r is an ordinary name *)
Lemma root_final : forall root r e, root <> [] -> run S0 r = SN -> suffix_ok e ->
  beneath root ((root ++ 47 :: r) ++ e).
Proof.
  intros root r e Hroot Hr He. destruct (run_ok_normals r Hr) as [Hn Hf].
  rewrite <- (join_split r). rewrite <- app_assoc. simpl.
  destruct (join_suffix [] (split r) e Hn Hf He) as [ns' [Hn' [Hf' E]]]. simpl in E. rewrite E.
  split.
  - apply rooted_app. assumption.
  - exists ns'. repeat split; auto. apply cstack_app_normals; assumption.
Qed.

(* ---------- shape of the cleaned import name ---------- *)
Lemma rel_clean_shape : forall s, s <> [] -> rooted s = false -> has_prefix sDotDot (clean s) = false ->
  clean s = sDot \/ exists ns, ns <> [] /\ Forall normal ns /\ clean s = join ns.
Proof.
  intros s Hs Hr Hp. rewrite clean_render in * by assumption. rewrite Hr in *.
  destruct (cstack_canonical s) as [dd [ns [E [Hdd [Hns _]]]]]. rewrite E in *.
  destruct dd as [|d dd'].
  - simpl in *. destruct ns as [|x ns']; [left; reflexivity|].
    right. exists (x :: ns'). repeat split; auto. discriminate.
  - exfalso. inversion Hdd; subst. unfold dotdot in H1. subst d.
    simpl in Hp. destruct (dd' ++ ns); simpl in Hp; discriminate.
Qed.

Lemma root_clean_shape : forall s, rooted s = true ->
  exists st, Forall normal st /\ clean s = 47 :: join st.
Proof.
  intros s Hr. assert (Hs : s <> []) by (destruct s; [discriminate | discriminate]).
  rewrite clean_render by assumption. rewrite Hr.
  destruct (cstack_canonical s) as [dd [ns [E [Hdd [Hns Hd]]]]]. rewrite Hr in Hd.
  rewrite (Hd eq_refl) in E. simpl in E. exists ns. rewrite E. auto.
Qed.

Lemma clean_join_normals : forall st, st <> [] -> Forall normal st -> clean (join st) = join st.
Proof.
  intros st Hn Hf.
  assert (Hok : Forall seg_ok st) by (eapply Forall_impl; [|exact Hf]; intros a Ha; apply (normal_seg_ok a Ha)).
  assert (Hc : canonical false st) by (exists [], st; repeat split; auto; intro; discriminate).
  destruct (cstack_render false st Hc) as [E1 E2].
  assert (Er : render false st = join st) by (destruct st; [congruence | reflexivity]).
  rewrite Er in *.
  rewrite clean_render by (destruct (join_head st Hn Hok) as [c [t [E _]]]; congruence).
  rewrite E1, E2. exact Er.
Qed.

(* ---------- findRootFromModule ---------- *)
Lemma find_root_sound : forall gomod fuel cur stats stats' root, cur <> [] ->
  find_root fuel gomod cur stats = (stats', Some (Some root)) -> gomod root = true /\ root <> [].
Proof.
  induction fuel as [|f IH]; intros cur stats stats' root Hc H; simpl in H; [discriminate|].
  destruct (gomod cur) eqn:Eg.
  - inversion H; subst. auto.
  - destruct (str_eqb cur [47]); [discriminate|].
    eapply IH; [|exact H]. apply clean_nonnil.
Qed.

Lemma abs_path_nonnil : forall cwd s, s <> [] -> abs_path cwd s <> [].
Proof.
  intros cwd s Hs. unfold abs_path. destruct (rooted s); [apply clean_nonnil|].
  unfold join_path. destruct cwd; [destruct s; [congruence | apply clean_nonnil] | apply clean_nonnil].
Qed.

Lemma Root_unique : forall gomod cur a b, Root gomod cur a -> Root gomod cur b -> a = b.
Proof.
  intros gomod cur a b H. revert b. induction H; intros b Hb; inversion Hb; subst; try congruence.
  apply IHRoot. assumption.
Qed.

Lemma find_root_Root : forall gomod fuel cur stats stats' r,
  find_root fuel gomod cur stats = (stats', Some r) -> Root gomod cur r.
Proof.
  intros gomod. induction fuel as [|f IH]; intros cur stats stats' r H; simpl in H; [discriminate|].
  destruct (gomod cur) eqn:Eg.
  - inversion H; subst. apply root_here. assumption.
  - destruct (str_eqb cur [47]) eqn:Es.
    + inversion H; subst. apply root_none; assumption.
    + apply root_up; auto. eapply IH. exact H.
Qed.

(* ---------- confinement of the repaired model, for every byte string ---------- *)
Definition confined (gomod : str -> bool) (dot : bool) (source_dir p : str) : Prop :=
  if dot then beneath source_dir p
  else exists root, gomod root = true /\ root <> [] /\ beneath root p.

(* the same with the root identified: it is the specification's module root of the importing directory *)
Definition confined_at (cwd : str) (gomod : str -> bool) (dot : bool) (source_dir p : str) : Prop :=
  if dot then beneath source_dir p
  else exists root, Root gomod (abs_path cwd source_dir) (Some root) /\ gomod root = true /\ root <> [] /\ beneath root p.

Theorem resolve_off_confined_at : forall cwd gomod dot name sd stats p,
  resolve quirks_off cwd gomod dot name sd = (stats, Read p) -> confined_at cwd gomod dot sd p.
Proof.
  intros cwd gomod dot name sd stats p. unfold resolve.
  cbn [q_import_trim_after_join q_import_dir_as_file quirks_off].
  destruct (has_prefix [47] name) eqn:Hp; cbn [negb]; [|discriminate].
  destruct (has_prefix_slash name Hp) as [t Et]. subst name.
  destruct (trim_ws_rooted t) as [t' Et]. rewrite Et.
  destruct dot; cbn [negb].
  - (* //{./...} *)
    assert (Hn1 : 46 :: 47 :: t' <> []) by discriminate.
    assert (Hr1 : rooted (46 :: 47 :: t') = false) by reflexivity.
    remember (46 :: 47 :: t') as n1 eqn:En1. clear En1.
    destruct (has_prefix sDotDot (clean n1)) eqn:Hdd; [discriminate|].
    destruct (is_nilb sd) eqn:Hsd; [discriminate|].
    assert (Hsd' : sd <> []) by (destruct sd; [discriminate | discriminate]).
    destruct (is_nilb (trim_slash (clean n1)) || str_eqb (trim_slash (clean n1)) sDot) eqn:Hfp; cbn [negb andb]; [discriminate|].
    unfold import_local. cbn [q_import_trim_after_join quirks_off].
    intro H. injection H as Hst Hp'. rewrite <- Hp'. clear Hp' Hst. unfold confined_at.
    destruct (rel_clean_shape n1) as [E | [ns [Hn [Hf E]]]]; [assumption | assumption | assumption | |].
    + rewrite E in Hfp. vm_compute in Hfp. discriminate.
    + rewrite E.
      assert (Hok : Forall seg_ok ns) by (eapply Forall_impl; [|exact Hf]; intros a Ha; apply (normal_seg_ok a Ha)).
      rewrite trim_slash_join by assumption.
      assert (Ej : join_path sd (join ns) = clean (sd ++ 47 :: join ns)) by (destruct sd; [congruence | reflexivity]).
      rewrite Ej. destruct (file_name_suffix (clean (sd ++ 47 :: join ns))) as [e [Ee He]]. rewrite Ee.
      apply rel_final; assumption.
  - (* //{/...} *)
    destruct (root_clean_shape (47 :: t') eq_refl) as [st [Hf E]]. rewrite E.
    replace (has_prefix sDotDot (47 :: join st)) with false by reflexivity.
    destruct (is_nilb sd) eqn:Hsd; [discriminate|].
    assert (Hsd' : sd <> []) by (destruct sd; [discriminate | discriminate]).
    destruct st as [|x st'].
    + vm_compute. discriminate.
    + assert (Hn : x :: st' <> []) by discriminate.
      remember (x :: st') as st0 eqn:Est0 in *. clear Est0 x st'.
      assert (Hok : Forall seg_ok st0) by (eapply Forall_impl; [|exact Hf]; intros a Ha; apply (normal_seg_ok a Ha)).
      rewrite trim_slash_rooted_join by assumption.
      destruct (is_nilb (join st0) || str_eqb (join st0) sDot); cbn [negb andb]; [discriminate|].
      rewrite clean_join_normals by assumption.
      unfold import_local. cbn [q_import_trim_after_join quirks_off].
      destruct (find_root (S (length (abs_path cwd sd))) gomod (abs_path cwd sd) []) as [sts [[root|]|]] eqn:Efr;
        [| discriminate | discriminate].
      destruct (find_root_sound gomod _ _ _ _ _ (abs_path_nonnil cwd sd Hsd') Efr) as [Hg Hroot].
      destruct (join_head st0 Hn Hok) as [c [tl [Ej Hc]]].
      assert (Hnp : has_prefix [47] (join st0) = false).
      { rewrite Ej. unfold has_prefix. unfold is_sl in Hc. rewrite Z.eqb_sym. rewrite Hc. reflexivity. }
      rewrite Hnp. intro H. injection H as Hst Hp'. rewrite <- Hp'. clear Hp' Hst. unfold confined_at.
      exists root. split; [eapply find_root_Root; exact Efr|]. split; [assumption|]. split; [assumption|].
      destruct (file_name_suffix (root ++ 47 :: strip_dotdotslash (join st0))) as [e [Ee He]]. rewrite Ee.
      apply root_final; [assumption | | assumption].
      apply strip_keeps_ok. apply run_join_normals; assumption.
Qed.

Theorem resolve_off_confined : forall cwd gomod dot name sd stats p,
  resolve quirks_off cwd gomod dot name sd = (stats, Read p) -> confined gomod dot sd p.
Proof.
  intros cwd gomod dot name sd stats p H. pose proof (resolve_off_confined_at _ _ _ _ _ _ _ H) as Hc.
  unfold confined_at, confined in *. destruct dot; [assumption|].
  destruct Hc as [root [_ [Hg [Hn Hb]]]]. exists root. auto.
Qed.

(* the property theorem in the quirk scheme: for every quirk setting, on every
   input on which the model does not depend on an enabled quirk *)
Theorem resolve_confined : forall q cwd gomod dot name sd stats p,
  resolve q cwd gomod dot name sd = resolve quirks_off cwd gomod dot name sd ->
  resolve q cwd gomod dot name sd = (stats, Read p) -> confined gomod dot sd p.
Proof.
  intros q cwd gomod dot name sd stats p Hg H. rewrite Hg in H.
  eapply resolve_off_confined. exact H.
Qed.

(* a relative import from a directory inside the module stays inside the module *)
Theorem resolve_rel_within_root : forall q cwd gomod name sd stats p root,
  within root sd ->
  resolve q cwd gomod true name sd = resolve quirks_off cwd gomod true name sd ->
  resolve q cwd gomod true name sd = (stats, Read p) -> beneath root p.
Proof.
  intros q cwd gomod name sd stats p root Hw Hg H.
  apply (beneath_within_trans root sd p Hw).
  exact (resolve_confined q cwd gomod true name sd stats p Hg H).
Qed.

(* the root found has a go.mod *)
Theorem resolve_root_has_gomod : forall cwd gomod name sd stats p,
  resolve quirks_off cwd gomod false name sd = (stats, Read p) ->
  exists root, gomod root = true /\ beneath root p.
Proof.
  intros cwd gomod name sd stats p H.
  destruct (resolve_off_confined cwd gomod false name sd stats p H) as [root [Hg [_ Hb]]]. eauto.
Qed.

(* consistency: the file read is a function of the cleaned name only, so
   spellings that differ by "./" segments, repeated separators or x/../ detours
   resolve to the same file *)
Definition only (a b c : bool) : Quirks :=
  {| q_import_trim_after_join := a; q_import_dir_as_file := b; q_import_cycle_hangs := c |}.

Theorem resolve_same_clean_same_file : forall q cwd gomod (dot : bool) n1 n2 sd,
  has_prefix [47] n1 = true -> has_prefix [47] n2 = true ->
  q_import_trim_after_join q = false ->
  clean ((if dot then [46] else []) ++ trim_ws n1) = clean ((if dot then [46] else []) ++ trim_ws n2) ->
  resolve q cwd gomod dot n1 sd = resolve q cwd gomod dot n2 sd.
Proof.
  intros q cwd gomod dot n1 n2 sd H1 H2 Hq E. unfold resolve. rewrite H1, H2, Hq. cbn [negb].
  destruct dot; cbn [app] in E; cbn [negb]; rewrite E; reflexivity.
Qed.

Theorem clean_spelling_dot : forall a b, a <> [] -> clean (a ++ 47 :: 46 :: 47 :: b) = clean (a ++ 47 :: b).
Proof.
  intros a b Ha. rewrite !clean_render by (destruct a; [congruence | discriminate]).
  rewrite !rooted_app by assumption. rewrite cstack_skip_dot by assumption. reflexivity.
Qed.

Theorem clean_spelling_slash : forall a b, a <> [] -> clean (a ++ 47 :: 47 :: b) = clean (a ++ 47 :: b).
Proof.
  intros a b Ha. rewrite !clean_render by (destruct a; [congruence | discriminate]).
  rewrite !rooted_app by assumption. rewrite cstack_skip_slash by assumption. reflexivity.
Qed.

Theorem clean_spelling_detour : forall a x b, a <> [] -> normal x ->
  clean (a ++ 47 :: x ++ 47 :: 46 :: 46 :: 47 :: b) = clean (a ++ 47 :: b).
Proof.
  intros a x b Ha Hx. rewrite !clean_render by (destruct a; [congruence | discriminate]).
  rewrite !rooted_app by assumption. rewrite cstack_skip_detour by assumption. reflexivity.
Qed.

(* ---------- refutations: what the code does today ---------- *)
Definition no_gomod (d : str) : bool := false.
Definition gomod_at (r d : str) : bool := str_eqb d r.

(* //{./ ../x} from SourceDir "." reads ../x.arrai *)
Lemma late_trim_refuted_rel :
  exists name sd stats p,
    resolve (only true false false) [47; 99] no_gomod true name sd = (stats, Read p) /\ ~ confined no_gomod true sd p.
Proof.
  exists [47; 32; 46; 46; 47; 120], [46], [], [46; 46; 47; 120; 46; 97; 114; 114; 97; 105].
  split; [vm_compute; reflexivity|]. intro H. apply beneathb_complete in H. vm_compute in H. discriminate.
Qed.

(* //{/ /e/x} from /r/s with go.mod in /r reads the absolute path /e/x.arrai *)
Lemma late_trim_refuted_root :
  exists name sd stats p,
    resolve (only true false false) [47; 99] (gomod_at [47; 114]) false name sd = (stats, Read p) /\
    forall root, gomod_at [47; 114] root = true -> ~ beneath root p.
Proof.
  exists [47; 32; 47; 101; 47; 120], [47; 114; 47; 115].
  eexists. exists [47; 101; 47; 120; 46; 97; 114; 114; 97; 105].
  split; [vm_compute; reflexivity|]. intros root Hr. unfold gomod_at in Hr. apply str_eqb_eq in Hr. subst root.
  intro H. apply beneathb_complete in H. vm_compute in H. discriminate.
Qed.

(* //{./} from /r/s reads /r/s.arrai, a sibling of the importing directory *)
Lemma dir_as_file_refuted :
  exists name sd stats p,
    resolve (only false true false) [47; 99] no_gomod true name sd = (stats, Read p) /\ ~ confined no_gomod true sd p.
Proof.
  exists [47], [47; 114; 47; 115], [], [47; 114; 47; 115; 46; 97; 114; 114; 97; 105].
  split; [vm_compute; reflexivity|]. intro H. apply beneathb_complete in H. vm_compute in H. discriminate.
Qed.

(* non-vacuity: ordinary imports of both forms are inside the guard and resolve *)
Example resolve_nonvacuous :
  resolve quirks_go [47; 99] (gomod_at [47; 114]) true [47; 46; 47; 97; 47; 47; 98; 47; 46; 46; 47; 121; 32] [47; 114; 47; 115]
    = ([], Read [47; 114; 47; 115; 47; 97; 47; 121; 46; 97; 114; 114; 97; 105]) /\
  resolve quirks_go [47; 99] (gomod_at [47; 114]) true [47; 46; 47; 97; 47; 47; 98; 47; 46; 46; 47; 121; 32] [47; 114; 47; 115]
    = resolve quirks_off [47; 99] (gomod_at [47; 114]) true [47; 46; 47; 97; 47; 47; 98; 47; 46; 46; 47; 121; 32] [47; 114; 47; 115] /\
  resolve quirks_go [47; 99] (gomod_at [47; 114]) false [47; 97; 47; 46; 46; 47; 46; 46; 47; 121] [47; 114; 47; 115]
    = resolve quirks_off [47; 99] (gomod_at [47; 114]) false [47; 97; 47; 46; 46; 47; 46; 46; 47; 121] [47; 114; 47; 115] /\
  snd (resolve quirks_off [47; 99] (gomod_at [47; 114]) false [47; 97; 47; 46; 46; 47; 46; 46; 47; 121] [47; 114; 47; 115])
    = Read [47; 114; 47; 121; 46; 97; 114; 114; 97; 105].
Proof. vm_compute. repeat split. Qed.

(* ---------- module root: nearest go.mod, independent of the root cache ---------- *)
Lemma walk_root_Root : forall gomod fuel cur passed r passed',
  walk_root fuel gomod cur passed = Some (r, passed') ->
  Root gomod cur r /\ exists more, passed' = passed ++ more /\ forall p, In p more -> Root gomod p r.
Proof.
  intros gomod. induction fuel as [|f IH]; intros cur passed r passed' H; simpl in H; [discriminate|].
  destruct (gomod cur) eqn:Eg.
  - inversion H; subst. assert (Hr : Root gomod cur (Some cur)) by (apply root_here; assumption).
    split; [assumption|]. exists [cur]. split; [reflexivity|]. intros p [Hp | []]. subst. assumption.
  - destruct (str_eqb cur [47]) eqn:Es.
    + inversion H; subst. assert (Hr : Root gomod cur None) by (apply root_none; assumption).
      split; [assumption|]. exists [cur]. split; [reflexivity|]. intros p [Hp | []]. subst. assumption.
    + destruct (IH _ _ _ _ H) as [Hr [more [E Hm]]].
      assert (Hc : Root gomod cur r) by (apply root_up; assumption).
      split; [assumption|]. exists (cur :: more). split.
      * rewrite E. rewrite <- app_assoc. reflexivity.
      * intros p [Hp | Hp]; [subst; assumption | apply Hm; assumption].
Qed.

Lemma cache_load_in : forall c d r, cache_load c d = Some r -> In (d, r) c.
Proof.
  induction c as [|[d' r'] t IH]; intros d r H; simpl in H; [discriminate|].
  destruct (str_eqb d d') eqn:E.
  - apply str_eqb_eq in E. inversion H; subst. left. reflexivity.
  - right. apply IH. assumption.
Qed.

(* with a sound cache the cached search answers exactly the specification's
   root, whatever was resolved before, and leaves the cache sound *)
Theorem find_root_cached_transparent : forall gomod fuel c cur r c',
  cache_sound gomod c ->
  find_root_cached fuel gomod c cur = Some (r, c') ->
  Root gomod cur r /\ cache_sound gomod c'.
Proof.
  intros gomod fuel c cur r c' Hs H. unfold find_root_cached in H.
  destruct (cache_load c cur) as [r0|] eqn:El.
  - inversion H; subst. split; [|assumption]. apply Hs. apply cache_load_in. assumption.
  - destruct (walk_root fuel gomod cur []) as [[[root|] passed]|] eqn:Ew; [| |discriminate].
    + inversion H; subst. destruct (walk_root_Root _ _ _ _ _ _ Ew) as [Hr [more [E Hm]]]. simpl in E. subst passed.
      split; [assumption|]. intros d r0 Hin. apply in_app_or in Hin. destruct Hin as [Hin | Hin]; [|apply Hs; assumption].
      apply in_map_iff in Hin. destruct Hin as [p [Ep Hp]]. inversion Ep; subst. apply Hm. assumption.
    + inversion H; subst. destruct (walk_root_Root _ _ _ _ _ _ Ew) as [Hr _]. split; assumption.
Qed.

Lemma cache_sound_nil : forall gomod, cache_sound gomod [].
Proof. intros gomod d r []. Qed.

